"""Per-property check table used by ./check and to generate MANIFEST.json."""

NOTES = ("All checks are property-based tests (pgregory.net/rapid) or native Go fuzz targets with explicit oracles; "
         "see DESIGN.md. Exit 2 / INCONCLUSIVE lines mean build failure, timeout or worker death, never a violation.")

HOOK_COMMITS = ["e6fee85"]

ENGINES = [
    dict(name="rapid-inpkg", path="/verif/inpkg", serves_properties=[], kind_free_text="rapid property tests injected into rueidis packages through go test -overlay/-modfile (no file is written to /repo)"),
    dict(name="rapid-harness", path="/verif/harness", serves_properties=[], kind_free_text="black-box rapid tests of the public API against a wire-level fake Redis inside testing/synctest bubbles"),
]

LIMITS = ("sampled, not exhaustive; same-instant goroutine races explored by repetition only; fake server semantics trusted for the "
          "command subset used by oracles; TLS/TCP/RDMA paths not exercised")


def U(kind, pkg, test, quick, thorough, **kw):
    d = dict(kind=kind, pkg=pkg, test=test, quick=quick, thorough=thorough)
    d.update(kw)
    return d


def T(checks, shards=1, timeout=600, **kw):
    d = dict(checks=checks, shards=shards, timeout=timeout)
    d.update(kw)
    return d


PROPS = {}
ALL_IDS = ['C01', 'C02', 'C03', 'C04', 'C05', 'C06', 'C07', 'C08', 'C09', 'C10', 'C11', 'C12', 'C13', 'C14', 'C15', 'C16', 'C17', 'C18', 'C19', 'C20', 'C21', 'C22', 'C23', 'C24', 'C25', 'C26', 'C27', 'C28', 'C29', 'C30', 'C31', 'C32', 'C33', 'C34', 'C35', 'C36', 'C37', 'C38', 'C39', 'C40', 'C41', 'C42', 'C43', 'C44', 'C45', 'C46', 'C47']

PROPS["C18"] = dict(
    level="exploration",
    technique="property-based testing (rapid): differential against a bitwise CRC16/hash-tag reference; exhaustive over keys of length <=2; reflection walk of all generated builders with the command spec as key oracle",
    level_text="Exhaustive comparison on all keys up to 2 bytes plus generated brace-heavy keys and random walks through every generated builder, compared with an independent reference of the cluster spec; gives high confidence for the pure slot function and sampled confidence per builder path.",
    level_note="The reference CRC16/hashtag implementation and hack/cmds/*.json (which arguments are keys) are trusted; builder paths are sampled. " + LIMITS,
    units=[
        U("inpkg", "internal/cmds", "TestVerif_C18_Exhaustive", T(1), T(1)),
        U("inpkg", "internal/cmds", "TestVerif_C18_Slot", T(20000), T(200000, shards=16)),
        U("inpkg", "internal/cmds", "TestVerif_C18_Walk", T(20000), T(200000, shards=16)),
    ],
)


PROPS["C12"] = dict(
    level="exploration",
    technique="property-based testing (rapid): round trip through an independent RESP encoder with generated read-boundary splits; differential streamTo vs normal read; native Go fuzzing of decode/re-encode stability (thorough)",
    level_text="Generated value trees over every RESP3/RESP2 type and encoding variant, decoded under generated read splits and buffer sizes and compared with the generated tree; streaming reads compared with what a normal read returns. Sampled, deep (thousands to millions of trees).",
    level_note="The harness encoder (kit/resp) is trusted to produce well-formed RESP; it is itself round-trip tested against its own decoder. " + LIMITS,
    units=[
        U("inpkg", "rueidis", "TestVerif_C12_Decode", T(8000), T(100000, shards=16)),
        U("inpkg", "rueidis", "TestVerif_C12_Stream", T(8000), T(100000, shards=16)),
    ],
)

PROPS["C13"] = dict(
    level="exploration",
    technique="property-based testing (rapid) with mutation of valid encodings and a dictionary of hostile lengths; oracle = no panic + allocation bound measured with runtime.MemStats; native Go fuzzing with the same oracle (thorough)",
    level_text="Generated and mutated byte strings decoded by both decoders (normal and streaming) under an allocation budget proportional to the input; a process crash (fatal out-of-memory) is reported as a violation with the saved input.",
    level_note="Allocation is measured as TotalAlloc delta of the single-threaded test and compared with 64x input length + 1 MiB; " + LIMITS,
    units=[
        U("inpkg", "rueidis", "TestVerif_C13_Malformed", T(20000), T(200000, shards=16), crash_is_violation=True, mem_gb=4),
    ],
)

PROPS["C14"] = dict(
    level="exploration",
    technique="property-based testing (rapid): round trip of generated argv through writeCmd/flushCmd and an independent RESP parser, lengths drawn at decimal digit boundaries; exhaustive length-line check for 0..12000 and around every power of ten",
    level_text="Generated argument vectors with counts/lengths at every digit-count boundary and arbitrary bytes, parsed by an independent parser that must consume every byte; the digit loop itself is compared exhaustively with strconv on 12k+ lengths.",
    level_note="The independent parser (kit/resp) is trusted. End-to-end framing on a live connection is covered again by the C01/C33 bubble checks. " + LIMITS,
    units=[
        U("inpkg", "rueidis", "TestVerif_C14_Lengths", T(1), T(1)),
        U("inpkg", "rueidis", "TestVerif_C14_WriteCmd", T(3000), T(20000, shards=16)),
    ],
)

PROPS["C17"] = dict(
    level="exploration",
    technique="property-based testing (rapid): marshal/unmarshal round trip on generated reply trees plus exhaustive truncation of each output; native Go fuzzing of arbitrary buffers (thorough)",
    level_text="Generated trees and expiries round-tripped through CacheMarshal/CacheUnmarshalView with size and cache-hit checks; every truncation point of each case is tried (exhaustive per case up to 600 bytes).",
    level_note="Trees are built directly as RedisMessage values the way the decoder builds them. " + LIMITS,
    units=[
        U("inpkg", "rueidis", "TestVerif_C17_CacheRoundTrip", T(4000), T(40000, shards=16)),
    ],
)

PROPS["C16"] = dict(
    level="exploration",
    technique="property-based testing (rapid): data-first generation, encoding in every RESP2/RESP3 reply shape by an independent encoder, decode + accessor must reproduce the data",
    level_text="For each accessor family the modelled data is generated, encoded in each server shape, decoded by the real decoder and compared field by field (NaN-aware, last-wins for string maps, order preserved for slices).",
    level_note="Reply shapes are reconstructed from the Redis/RediSearch documentation; RESP2 FT.SEARCH NOCONTENT results are excluded from per-doc comparison because the RESP2 reply is ambiguous by design. " + LIMITS,
    units=[
        U("inpkg", "rueidis", "TestVerif_C16_Accessors", T(10000), T(60000, shards=16)),
    ],
)

PROPS["C15"] = dict(
    level="exploration",
    technique="property-based testing (rapid): every accessor found by reflection applied under recover to decoder-produced trees, to mutated valid helper shapes and to generated error texts; exhaustive over all prefixes of a redirect-text dictionary; native Go fuzzing (thorough)",
    level_text="All exported accessors and classifiers are enumerated by reflection (new ones are picked up automatically) and applied to generated trees that went through the real decoder; oracle is no panic plus nil/error/wrong-shape propagation.",
    level_note="Wrong-shape => parse error is asserted only for the unambiguous accessor x type matrix in c15_test.go; structured helpers on a wrong shape may return an error or a well-formed value. " + LIMITS,
    units=[
        U("inpkg", "rueidis", "TestVerif_C15_ErrorClassifiers", T(5000), T(100000, shards=4)),
        U("inpkg", "rueidis", "TestVerif_C15_Accessors", T(6000), T(60000, shards=16)),
    ],
)

PROPS["C10"] = dict(
    level="exploration",
    technique="model-based property testing (rapid state machine) on the LRU store with structural invariants checked after every step",
    level_text="Generated histories of flights, updates, invalidations, cancellations and clock advances against the real store; size accounting, list/map agreement, pending-entry retention and front-first eviction are re-derived from the store's state after every step.",
    level_note="Reads the store's unexported fields (in-package test). Eviction order is checked against the store's own recency list (the store only approximates LRU on the lock-free hit path by design). " + LIMITS,
    units=[
        U("inpkg", "rueidis", "TestVerif_C10_LRU", T(4000), T(30000, shards=16), steps=40),
    ],
)

PROPS["C22"] = dict(
    level="exploration",
    technique="property-based testing (rapid) against a reference selector written from the doc comments; exhaustive over all lists of length <=6 on 2 AZs",
    level_text="Exhaustive for small lists (every AZ assignment up to 6 nodes x 3 client AZs x 3 selectors, 64 calls each) and generated lists up to 300 nodes with candidates placed around the 255-node cap; the answer must lie in the documented priority class and rotation must reach every candidate.",
    level_note="The reference encodes the documented fallback chains; with more than 8 equally ranked candidates only membership (not rotation) is asserted because the selectors deliberately consider at most 8. " + LIMITS,
    units=[
        U("inpkg", "rueidis", "TestVerif_C22_Exhaustive", T(1), T(1)),
        U("inpkg", "rueidis", "TestVerif_C22_Selectors", T(20000), T(200000, shards=16)),
    ],
)

PROPS["C44"] = dict(
    level="exploration",
    technique="property-based testing (rapid): URLs generated from a component grammar, differential against a reference mapping written from the documentation",
    level_text="URLs are constructed (not filtered) from schemes, userinfo, hosts, paths and any subset/order/repetition of the supported query parameters with valid and invalid values; every option field is compared with the reference.",
    level_note="The reference mapping (refParse) is trusted; it follows the property text: each parameter maps to its own option. " + LIMITS,
    units=[U("inpkg", "rueidis", "TestVerif_C44_ParseURL", T(20000), T(200000, shards=16))],
)

PROPS["C45"] = dict(
    level="exploration",
    technique="property-based testing (rapid): bit-for-bit round trips from raw IEEE-754 bit patterns; differential against encoding/json",
    level_text="Vectors are generated from raw bit patterns so every NaN payload, signed zero and subnormal occurs; round trip and byte layout are compared exactly.",
    level_note=LIMITS,
    units=[U("inpkg", "rueidis", "TestVerif_C45_Binary", T(20000), T(500000, shards=16))],
)

PROPS["C46"] = dict(
    level="exploration",
    technique="model-based property testing (rapid): generated page sequences and consumer stop points against a model iterator",
    level_text="Generated page/cursor/error sequences and consumer stop points for Iter and Iter2; yielded elements, requested cursors and Err() are compared with a model iterator.",
    level_note=LIMITS,
    units=[U("inpkg", "rueidis", "TestVerif_C46_Scanner", T(20000), T(200000, shards=16))],
)

PROPS["C08"] = dict(
    level="exploration",
    technique="property-based testing (rapid): pairs of cacheable commands from a reflection walk of all Cache() builders, re-split Arbitrary commands and scripts; injectivity oracle on the cache identity used by the built-in store and by NewSimpleCacheAdapter",
    level_text="Generated pairs of different cacheable commands (same builder path with arguments from a tiny alphabet, byte-preserving re-splits, scripts) must map to different cache identities. The known separator-less concatenation collisions are counted and skipped; any other collision still fails.",
    level_note="Checks the identity functions (cmds.CacheKey and the adapter's key+cmd), which decide entry sharing; the consequence (a hit returning the other command's reply) follows from lru.Flight/adapter.Flight addressing by exactly these strings. " + LIMITS,
    units=[U("inpkg", "internal/cmds", "TestVerif_C08_CacheIdentity", T(20000), T(200000, shards=16))],
)

PROPS["C02"] = dict(
    level="exploration",
    technique="property-based testing (rapid) of generated timed schedules inside a testing/synctest bubble, directly on the ring and flow-buffer queues, with history invariants (exactly-once, FIFO, own-result) and bubble deadlock detection",
    level_text="Generated API-level interleavings (every queue call at its own virtual instant, same-instant calls racing) of up to 12 putters with mirrored writer/reader loops, slot counts 2-8 and the ring index forced to wrap; a lost wake-up shows up as a bubble deadlock, which is detected soundly.",
    level_note="The writer/reader loops mirror pipe._backgroundWrite/_backgroundRead; preemption points inside one queue call are explored only through same-instant races and repetition (plus -race in the thorough tier). No trace hook is needed: every transition is observable from inside the package. " + LIMITS,
    units=[U("inpkg", "rueidis", "TestVerif_C02_Queue", T(4000), T(20000, shards=16), race=True)],
)

PROPS["C24"] = dict(
    level="exploration",
    technique="model-based property testing (rapid) of generated timed histories inside a testing/synctest bubble on the pool with counting fake wires, plus a hook-owned schedule for the cancellation/wake-up window",
    level_text="Generated interleavings of acquisitions (live, expiring, cancelled, already-done contexts), returns, failing/slow/expired dials, idle cleanup and Close, each API call at its own virtual instant; counts of live wires, holders and the pool's own accounting are compared after every history, hangs are detected as bubble deadlocks. The one window random schedules cannot hit (cancellation between the wait-condition check and cond.Wait) is owned through the verif hook.",
    level_note="Part (a) drives pool.go directly with fake wires (callers' Store discipline is modelled as 'every acquired wire is stored'); the client-level paths (blocking commands, Dedicated, DoStream) are covered by the bubble checks C29/C25. " + LIMITS,
    units=[
        U("inpkg", "rueidis", "TestVerif_C24_Pool", T(4000), T(30000, shards=16), race=True),
        U("inpkg", "rueidis", "TestVerif_C24_PoolLostWakeup", T(150), T(1000, shards=8)),
    ],
)

QUEUES = [{"RUEIDIS_QUEUE_TYPE": "ring", "VERIF_LABEL": "ring"}, {"RUEIDIS_QUEUE_TYPE": "flowbuffer", "VERIF_LABEL": "fb"}]

PROPS["C01"] = dict(
    level="exploration",
    technique="property-based testing (rapid) of generated timed plans (callers, cancellations, latencies, pushes) against a wire-level fake Redis inside a testing/synctest bubble; oracle = per-position reply identity + server-side frame log + hang/leak detection",
    level_text="Thousands of generated interleavings of concurrent Do/DoMulti/DoCache/DoMultiCache/blocking/Receive calls with cancellations and deadlines at exact virtual instants, arbitrary reply shapes, Pub/Sub pushes between replies, both queue implementations, ring sizes 2-16, RESP2 and RESP3; each result position must be that command's own reply tree.",
    level_note="Black-box through the public API; the fake server's framing is trusted (it is exercised against the real decoder in every case). Same-instant goroutine races are sampled, not enumerated. Attributes are not visible through the public API (checked in-package by C12). " + LIMITS,
    units=[U("harness", "props", "TestVerif_C01_Pipelining", T(1500, timeout=900), T(6000, shards=16, timeout=1500, race_checks=600), variants=QUEUES, race=True)],
)

# ---- END PROPS (new entries go above this line)

# every property without a check is listed here with its reason (kept current while building)
NOT_APPLICABLE = {}


def finalize():
    for i in ALL_IDS:
        if i not in PROPS and i not in NOT_APPLICABLE:
            NOT_APPLICABLE[i] = "check not built yet in this session (planned in DESIGN.md section 6); not claimed until it exists"
    for p in PROPS.values():
        p.setdefault("claimed", True)


finalize()
