"""Per-property check table used by ./check and to generate MANIFEST.json."""

NOTES = ("All checks are property-based tests (pgregory.net/rapid) or native Go fuzz targets with explicit oracles; "
         "see DESIGN.md. Exit 2 / INCONCLUSIVE lines mean build failure, timeout or worker death, never a violation.")

HOOK_COMMITS = ["e6fee85"]

ENGINES = [
    dict(name="rapid-inpkg", path="/verif/inpkg", serves_properties=[], kind_free_text="rapid property tests injected into rueidis packages through go test -overlay/-modfile (no file is written to /repo)"),
    dict(name="rapid-harness", path="/verif/harness", serves_properties=[], kind_free_text="black-box rapid tests of the public API against a wire-level fake Redis inside testing/synctest bubbles"),
]

LIMITS = ("sampled, not exhaustive; same-instant goroutine races explored by repetition only; fake server semantics trusted for the "
          "command subset used by oracles; TLS/TCP/RDMA paths not exercised")


def U(kind, pkg, test, quick, thorough, **kw):
    d = dict(kind=kind, pkg=pkg, test=test, quick=quick, thorough=thorough)
    d.update(kw)
    return d


def T(checks, shards=1, timeout=600, **kw):
    d = dict(checks=checks, shards=shards, timeout=timeout)
    d.update(kw)
    return d


PROPS = {}
QUEUES = [{"RUEIDIS_QUEUE_TYPE": "ring", "VERIF_LABEL": "ring"}, {"RUEIDIS_QUEUE_TYPE": "flowbuffer", "VERIF_LABEL": "fb"}]
ALL_IDS = ['C01', 'C02', 'C03', 'C04', 'C05', 'C06', 'C07', 'C08', 'C09', 'C10', 'C11', 'C12', 'C13', 'C14', 'C15', 'C16', 'C17', 'C18', 'C19', 'C20', 'C21', 'C22', 'C23', 'C24', 'C25', 'C26', 'C27', 'C28', 'C29', 'C30', 'C31', 'C32', 'C33', 'C34', 'C35', 'C36', 'C37', 'C38', 'C39', 'C40', 'C41', 'C42', 'C43', 'C44', 'C45', 'C46', 'C47']

PROPS["C18"] = dict(
    level="exploration",
    technique="property-based testing (rapid): differential against a bitwise CRC16/hash-tag reference; exhaustive over keys of length <=2; reflection walk of all generated builders with the command spec as key oracle",
    level_text="Exhaustive comparison on all keys up to 2 bytes plus generated brace-heavy keys and random walks through every generated builder, compared with an independent reference of the cluster spec; gives high confidence for the pure slot function and sampled confidence per builder path.",
    level_note="The reference CRC16/hashtag implementation and hack/cmds/*.json (which arguments are keys) are trusted; builder paths are sampled. " + LIMITS,
    units=[
        U("inpkg", "internal/cmds", "TestVerif_C18_Exhaustive", T(1), T(1)),
        U("inpkg", "internal/cmds", "TestVerif_C18_Slot", T(20000), T(200000, shards=16)),
        U("inpkg", "internal/cmds", "TestVerif_C18_Walk", T(20000), T(200000, shards=16)),
    ],
)


PROPS["C12"] = dict(
    level="exploration",
    technique="property-based testing (rapid): round trip through an independent RESP encoder with generated read-boundary splits; differential streamTo vs normal read; native Go fuzzing of decode/re-encode stability (thorough)",
    level_text="Generated value trees over every RESP3/RESP2 type and encoding variant, decoded under generated read splits and buffer sizes and compared with the generated tree; streaming reads compared with what a normal read returns. Sampled, deep (thousands to millions of trees).",
    level_note="The harness encoder (kit/resp) is trusted to produce well-formed RESP; it is itself round-trip tested against its own decoder. " + LIMITS,
    units=[
        U("inpkg", "rueidis", "TestVerif_C12_Decode", T(8000), T(30000, shards=16, timeout=1500), fuzz=[dict(target="FuzzVerif_C13_Decode", seconds=240)]),
        U("inpkg", "rueidis", "TestVerif_C12_Stream", T(8000), T(30000, shards=16, timeout=1500)),
    ],
)

PROPS["C13"] = dict(
    level="exploration",
    technique="property-based testing (rapid) with mutation of valid encodings and a dictionary of hostile lengths; oracle = no panic + allocation bound measured with runtime.MemStats; native Go fuzzing with the same oracle (thorough)",
    level_text="Generated and mutated byte strings decoded by both decoders (normal and streaming) under an allocation budget proportional to the input; a process crash (fatal out-of-memory) is reported as a violation with the saved input.",
    level_note="Allocation is measured as TotalAlloc delta of the single-threaded test and compared with 64x input length + 1 MiB; " + LIMITS,
    units=[
        U("inpkg", "rueidis", "TestVerif_C13_Malformed", T(20000), T(50000, shards=16, timeout=1500), crash_is_violation=True, mem_gb=4, fuzz=[dict(target="FuzzVerif_C13_Decode", seconds=300)]),
    ],
)

PROPS["C14"] = dict(
    level="exploration",
    technique="property-based testing (rapid): round trip of generated argv through writeCmd/flushCmd and an independent RESP parser, lengths drawn at decimal digit boundaries; exhaustive length-line check for 0..12000 and around every power of ten",
    level_text="Generated argument vectors with counts/lengths at every digit-count boundary and arbitrary bytes, parsed by an independent parser that must consume every byte; the digit loop itself is compared exhaustively with strconv on 12k+ lengths.",
    level_note="The independent parser (kit/resp) is trusted. End-to-end framing on a live connection is covered again by the C01/C33 bubble checks. " + LIMITS,
    units=[
        U("inpkg", "rueidis", "TestVerif_C14_Lengths", T(1), T(1)),
        U("inpkg", "rueidis", "TestVerif_C14_WriteCmd", T(3000), T(20000, shards=16)),
    ],
)

PROPS["C17"] = dict(
    level="exploration",
    technique="property-based testing (rapid): marshal/unmarshal round trip on generated reply trees plus exhaustive truncation of each output; native Go fuzzing of arbitrary buffers (thorough)",
    level_text="Generated trees and expiries round-tripped through CacheMarshal/CacheUnmarshalView with size and cache-hit checks; every truncation point of each case is tried (exhaustive per case up to 600 bytes).",
    level_note="Trees are built directly as RedisMessage values the way the decoder builds them. " + LIMITS,
    units=[
        U("inpkg", "rueidis", "TestVerif_C17_CacheRoundTrip", T(4000), T(40000, shards=16), fuzz=[dict(target="FuzzVerif_C17_Cache", seconds=180)]),
    ],
)

PROPS["C16"] = dict(
    level="exploration",
    technique="property-based testing (rapid): data-first generation, encoding in every RESP2/RESP3 reply shape by an independent encoder, decode + accessor must reproduce the data",
    level_text="For each accessor family the modelled data is generated, encoded in each server shape, decoded by the real decoder and compared field by field (NaN-aware, last-wins for string maps, order preserved for slices).",
    level_note="Reply shapes are reconstructed from the Redis/RediSearch documentation; RESP2 FT.SEARCH NOCONTENT results are excluded from per-doc comparison because the RESP2 reply is ambiguous by design. " + LIMITS,
    units=[
        U("inpkg", "rueidis", "TestVerif_C16_Accessors", T(10000), T(60000, shards=16)),
    ],
)

PROPS["C15"] = dict(
    level="exploration",
    technique="property-based testing (rapid): every accessor found by reflection applied under recover to decoder-produced trees, to mutated valid helper shapes and to generated error texts; exhaustive over all prefixes of a redirect-text dictionary; native Go fuzzing (thorough)",
    level_text="All exported accessors and classifiers are enumerated by reflection (new ones are picked up automatically) and applied to generated trees that went through the real decoder; oracle is no panic plus nil/error/wrong-shape propagation.",
    level_note="Wrong-shape => parse error is asserted only for the unambiguous accessor x type matrix in c15_test.go; structured helpers on a wrong shape may return an error or a well-formed value. " + LIMITS,
    units=[
        U("inpkg", "rueidis", "TestVerif_C15_ErrorClassifiers", T(5000), T(100000, shards=4)),
        U("inpkg", "rueidis", "TestVerif_C15_Accessors", T(6000), T(60000, shards=16), fuzz=[dict(target="FuzzVerif_C15_Accessors", seconds=300)]),
    ],
)

PROPS["C10"] = dict(
    level="exploration",
    technique="model-based property testing (rapid state machine) on the LRU store with structural invariants checked after every step",
    level_text="Generated histories of flights, updates, invalidations, cancellations and clock advances against the real store; size accounting, list/map agreement, pending-entry retention and front-first eviction are re-derived from the store's state after every step.",
    level_note="Reads the store's unexported fields (in-package test). Eviction order is checked against the store's own recency list (the store only approximates LRU on the lock-free hit path by design). " + LIMITS,
    units=[
        U("inpkg", "rueidis", "TestVerif_C10_LRU", T(4000), T(30000, shards=16), steps=40),
    ],
)

PROPS["C22"] = dict(
    level="exploration",
    technique="property-based testing (rapid) against a reference selector written from the doc comments; exhaustive over all lists of length <=6 on 2 AZs",
    level_text="Exhaustive for small lists (every AZ assignment up to 6 nodes x 3 client AZs x 3 selectors, 64 calls each) and generated lists up to 300 nodes with candidates placed around the 255-node cap; the answer must lie in the documented priority class and rotation must reach every candidate.",
    level_note="The reference encodes the documented fallback chains; with more than 8 equally ranked candidates only membership (not rotation) is asserted because the selectors deliberately consider at most 8. " + LIMITS,
    units=[
        U("inpkg", "rueidis", "TestVerif_C22_Exhaustive", T(1), T(1)),
        U("inpkg", "rueidis", "TestVerif_C22_Selectors", T(20000), T(200000, shards=16)),
    ],
)

PROPS["C44"] = dict(
    level="exploration",
    technique="property-based testing (rapid): URLs generated from a component grammar, differential against a reference mapping written from the documentation",
    level_text="URLs are constructed (not filtered) from schemes, userinfo, hosts, paths and any subset/order/repetition of the supported query parameters with valid and invalid values; every option field is compared with the reference.",
    level_note="The reference mapping (refParse) is trusted; it follows the property text: each parameter maps to its own option. " + LIMITS,
    units=[U("inpkg", "rueidis", "TestVerif_C44_ParseURL", T(20000), T(200000, shards=16))],
)

PROPS["C45"] = dict(
    level="exploration",
    technique="property-based testing (rapid): bit-for-bit round trips from raw IEEE-754 bit patterns; differential against encoding/json",
    level_text="Vectors are generated from raw bit patterns so every NaN payload, signed zero and subnormal occurs; round trip and byte layout are compared exactly.",
    level_note=LIMITS,
    units=[U("inpkg", "rueidis", "TestVerif_C45_Binary", T(20000), T(500000, shards=16))],
)

PROPS["C46"] = dict(
    level="exploration",
    technique="model-based property testing (rapid): generated page sequences and consumer stop points against a model iterator",
    level_text="Generated page/cursor/error sequences and consumer stop points for Iter and Iter2; yielded elements, requested cursors and Err() are compared with a model iterator.",
    level_note=LIMITS,
    units=[U("inpkg", "rueidis", "TestVerif_C46_Scanner", T(20000), T(200000, shards=16))],
)

PROPS["C08"] = dict(
    level="exploration",
    technique="property-based testing (rapid): pairs of cacheable commands from a reflection walk of all Cache() builders, re-split Arbitrary commands and scripts; injectivity oracle on the cache identity used by the built-in store and by NewSimpleCacheAdapter",
    level_text="Generated pairs of different cacheable commands (same builder path with arguments from a tiny alphabet, byte-preserving re-splits, scripts) must map to different cache identities. The known separator-less concatenation collisions are counted and skipped; any other collision still fails.",
    level_note="Checks the identity functions (cmds.CacheKey and the adapter's key+cmd), which decide entry sharing; the consequence (a hit returning the other command's reply) follows from lru.Flight/adapter.Flight addressing by exactly these strings. " + LIMITS,
    units=[U("inpkg", "internal/cmds", "TestVerif_C08_CacheIdentity", T(20000), T(200000, shards=16))],
)

PROPS["C02"] = dict(
    level="exploration",
    technique="property-based testing (rapid) of generated timed schedules inside a testing/synctest bubble, directly on the ring and flow-buffer queues, with history invariants (exactly-once, FIFO, own-result) and bubble deadlock detection",
    level_text="Generated API-level interleavings (every queue call at its own virtual instant, same-instant calls racing) of up to 12 putters with mirrored writer/reader loops, slot counts 2-8 and the ring index forced to wrap; a lost wake-up shows up as a bubble deadlock, which is detected soundly.",
    level_note="The writer/reader loops mirror pipe._backgroundWrite/_backgroundRead; preemption points inside one queue call are explored only through same-instant races and repetition (plus -race in the thorough tier). No trace hook is needed: every transition is observable from inside the package. " + LIMITS,
    units=[
        U("inpkg", "rueidis", "TestVerif_C02_Queue", T(4000, timeout=300), T(20000, shards=16), race=True),
        U("harness", "props", "TestVerif_C02_FullQueuePartialFlush", T(300, timeout=300), T(3000, shards=8, timeout=900), variants=QUEUES),
    ],
)

PROPS["C24"] = dict(
    level="exploration",
    technique="model-based property testing (rapid) of generated timed histories inside a testing/synctest bubble on the pool with counting fake wires, plus a hook-owned schedule for the cancellation/wake-up window",
    level_text="Generated interleavings of acquisitions (live, expiring, cancelled, already-done contexts), returns, failing/slow/expired dials, idle cleanup and Close, each API call at its own virtual instant; counts of live wires, holders and the pool's own accounting are compared after every history, hangs are detected as bubble deadlocks. The one window random schedules cannot hit (cancellation between the wait-condition check and cond.Wait) is owned through the verif hook.",
    level_note="Part (a) drives pool.go directly with fake wires (callers' Store discipline is modelled as 'every acquired wire is stored'); the client-level paths (blocking commands, Dedicated, DoStream) are covered by the bubble checks C29/C25. " + LIMITS,
    units=[
        U("inpkg", "rueidis", "TestVerif_C24_Pool", T(4000), T(30000, shards=16), race=True),
        U("inpkg", "rueidis", "TestVerif_C24_PoolLostWakeup", T(150), T(1000, shards=8)),
    ],
)

PROPS["C01"] = dict(
    level="exploration",
    technique="property-based testing (rapid) of generated timed plans (callers, cancellations, latencies, pushes) against a wire-level fake Redis inside a testing/synctest bubble; oracle = per-position reply identity + server-side frame log + hang/leak detection",
    level_text="Thousands of generated interleavings of concurrent Do/DoMulti/DoCache/DoMultiCache/blocking/Receive calls with cancellations and deadlines at exact virtual instants, arbitrary reply shapes, Pub/Sub pushes between replies, both queue implementations, ring sizes 2-16, RESP2 and RESP3; each result position must be that command's own reply tree.",
    level_note="Black-box through the public API; the fake server's framing is trusted (it is exercised against the real decoder in every case). Same-instant goroutine races are sampled, not enumerated. Attributes are not visible through the public API (checked in-package by C12). " + LIMITS,
    units=[U("harness", "props", "TestVerif_C01_Pipelining", T(1500, timeout=300), T(6000, shards=16, timeout=1500, race_checks=300), variants=QUEUES, race=True)],
)

PROPS["C03"] = dict(
    level="fault_enumeration",
    technique="property-based fault injection (rapid): generated programs x generated per-attempt fault plans (three drop points, LOADING, ERR, nil), slow replies past the close grace period, ConnLifetime expiry, kills and Close in a synctest bubble; oracle = server execution log",
    level_text="For each generated program every command gets a generated outcome per arrival (drop before read / after execute / mid-reply, error replies) and connections expire or are killed at generated instants; the fake server's execution log must show each non-retryable command at most once and never a second send.",
    level_note="Single client in this unit (cluster/sentinel/standalone re-send rules are exercised by the routing checks when present). Failure points are sampled per program, not enumerated exhaustively. " + LIMITS,
    units=[U("harness", "props", "TestVerif_C03_AtMostOnce", T(1200, timeout=300), T(5000, shards=16, timeout=1500), variants=QUEUES)],
)

PROPS["C04"] = dict(
    level="fault_enumeration",
    technique="property-based fault injection (rapid) in a synctest bubble: connection reset / peer stops responding / Close at a generated instant against a generated mix of pending calls; hang detection by bubble deadlock and virtual-time budget",
    level_text="A generated mix of synchronous, pipelined, cached, subscribed and blocking calls is pending when the connection fails or the client is closed at a generated virtual instant; every call must return, later calls must be served by a fresh connection or fail with ErrClosing after Close.",
    level_note="A hang is detected soundly (bubble deadlock, or calls pending after 5 virtual minutes although every plan latency is below 3 s). " + LIMITS,
    units=[U("harness", "props", "TestVerif_C04_NoHangingCalls", T(1200, timeout=300), T(5000, shards=16, timeout=1500), variants=QUEUES)],
)

PROPS["C05"] = dict(
    level="exploration",
    technique="property-based testing (rapid) of timed plans in a synctest bubble (exact virtual deadlines) plus a hook-owned schedule for the pool wake-up window; oracle = return time <= deadline + 5 virtual ms",
    level_text="Calls with deadlines, manual cancels and done contexts are placed in every waiting state (stalled server, synchronous read, exhausted blocking pool, another caller's cache flight, retry back-off); return times are compared with the deadline in virtual time, so the check cannot flake on scheduling noise.",
    level_note="The pool wake-up race is covered by the hook plan of C24 (TestVerif_C24_PoolLostWakeup). With the ring queue a caller parked on a full ring cannot be cancelled (documented), so plans keep in-flight calls below the ring size. " + LIMITS,
    units=[
        U("harness", "props", "TestVerif_C05_Deadlines", T(1200, timeout=300), T(6000, shards=16, timeout=1500), variants=QUEUES),
        U("inpkg", "rueidis", "TestVerif_C24_PoolLostWakeup", T(100), T(1000, shards=8)),
    ],
)

PROPS["C28"] = dict(
    level="fault_enumeration",
    technique="property-based fault injection (rapid): generated per-attempt outcome sequences and RetryDelay tables in a synctest bubble; oracle = model of the retry policy evaluated over the server's receive log and the RetryDelay call log",
    level_text="Every extra send of a command must be justified by the previous attempt's outcome (transport error or LOADING), the command's class, the retry switch and RetryDelay; ordinary error, nil and value replies must reach the caller unchanged.",
    level_note="Single client in this unit. Upper-bound oracle (retries only when allowed); it does not demand that allowed retries happen. " + LIMITS,
    units=[U("harness", "props", "TestVerif_C28_RetryPolicy", T(1200, timeout=300), T(8000, shards=16, timeout=1500), variants=QUEUES)],
)

PROPS["C32"] = dict(
    level="exploration",
    technique="property-based testing (rapid): reflection walk over every generated command builder, differential against an independent classification of Redis commands written from the Redis command reference",
    level_text="Every root builder is visited and completion paths are sampled; the flags of each built command (read-only, cacheable, blocking, Pub/Sub) are compared with an independent reference table; only high-confidence reference entries can raise a violation.",
    level_note="The reference table /verif/ref/redis_commands.json is trusted for its high-confidence entries; paths are sampled. " + LIMITS,
    units=[U("inpkg", "internal/cmds", "TestVerif_C32_Tags", T(20000), T(200000, shards=16), env={"VERIF_REPO_PATH": "/repo"})],
)

PROPS["C33"] = dict(
    level="exploration",
    technique="property-based testing (rapid): reflection walk with unique sentinel arguments; oracle = sentinel subsequence, unit keywords, command-spec keyword membership and a metamorphic replay with different arguments",
    level_text="Sampled builder paths with sentinel arguments of every parameter type; the argv must carry exactly the supplied arguments in call order and in the documented textual form.",
    level_note="hack/cmds/*.json is trusted as the list of keywords per command; part (b) of the property (no recycling before the command is written) is covered on the wire by the C01 bubble check. " + LIMITS,
    units=[U("inpkg", "internal/cmds", "TestVerif_C33_Argv", T(20000), T(100000, shards=16), env={"VERIF_REPO_PATH": "/repo"})],
)

PROPS["C19"] = dict(
    level="exploration",
    technique="property-based testing (rapid): model topologies encoded as CLUSTER SLOTS / CLUSTER SHARDS replies in RESP2 and RESP3 shapes, parsed and compared with the model; mutated replies must not crash the parsers",
    level_text="Generated topologies (shards, replicas, endpoints, health, slot ranges) are encoded in every reply shape, parsed by parseSlots/parseShards and compared with the model; mutated replies check robustness.",
    level_note="Covers the topology-parsing sentence of the property in-package; routing, MOVED/ASK and redirect limits are covered by the cluster bubble check when present. " + LIMITS,
    units=[U("inpkg", "rueidis", "TestVerif_C19_TopologyParsers", T(5000), T(30000, shards=16))],
)

PROPS["C43"] = dict(
    level="exploration",
    technique="property-based testing (rapid): generated call programs over a hook-wrapped hand-written recording client (no server); oracle = event-log model: one hook event per call with the caller's arguments, next reaches the receiver's inner client, caller gets exactly the hook's value",
    level_text="Programs of 1-30 calls over every hooked entry point (Do, DoMulti, DoCache, DoMultiCache, Receive, DoStream, DoMultiStream) on the wrapped client, on clients from Nodes() down to depth 3 and on dedicated clients from Dedicated(fn)/Dedicate() of any of them; the hook passes, replaces or short-circuits; hook and inner event logs and the returned values (compared with ==) are checked against the program.",
    level_note="The inner client is a recording stand-in that returns a fresh Nodes() map per call like the real clients; DoCache/DoMultiCache/DoStream/DoMultiStream do not exist on DedicatedClient and are therefore only exercised on Client receivers. Sequential programs only (the wrapper holds no state). " + LIMITS,
    units=[U("harness", "props", "TestVerif_C43_Hooks", T(5000), T(50000, shards=16))],
)

PROPS["C41"] = dict(
    level="exploration",
    technique="property-based testing (rapid): generated pipelines over a scripted stand-in client whose replies are bound to commands by marker arguments; oracle = reference model of per-kind result decoding, first-error rule, MULTI/EXEC batch shape and Discard",
    level_text="1-20 members drawn from 102 adapter methods of 17 result kinds, queued on Pipeline, TxPipeline, Pipelined and TxPipelined with an optional Discard at a generated point; replies are typed values (RESP2 and RESP3 shapes), error replies, nulls and transport errors; transactions commit, abort with a null EXEC, abort with EXECABORT or fail as a whole. Exec must return the queued objects in queue order, each with its own reply, and the first failing member's error; the transaction must be one MULTI..EXEC batch and a null EXEC must give TxFailedErr.",
    level_note="The client is a stand-in (no server); 102 of the roughly 500 adapter methods are in the table (all Pipeline methods share one three-line wrapper pattern). Error texts are compared modulo the generic 'ERR ' prefix that rueidis strips. A null reply to BoolCmd/Cmd and the member state after an aborted transaction are outside the property text and not asserted. " + LIMITS,
    units=[U("harness", "props", "TestVerif_C41_Pipelines", T(5000), T(50000, shards=16))],
)

PROPS["C42"] = dict(
    level="other",
    technique="property-based testing (rapid): (a) differential of the adapter's captured argv against the expectations of rueidiscompatmock for reflection-generated arguments, (b) comparison with a hand-written reference table of go-redis v9 argv conventions",
    level_text="go-redis is not available offline, so no true differential exists. (a) 316 adapter methods that have an ExpectXxx counterpart in rueidiscompatmock are driven with arguments generated from their parameter types (option structs with every subset of fields, durations with sub-second parts, empty/binary strings, value lists as pairs/slice/map); the mock must accept the adapter's command. (b) 128 adapter methods (91 groups) are compared with a reference of go-redis v9 conventions written by hand (Set/SetArgs/SetNX/SetXX/GetEx expirations incl. KeepTTL, Expire family, HSet value shapes, ZAdd flags, ZRangeBy LIMIT, ZRangeArgs, Scan MATCH/COUNT, XAdd/XRead/XTrim options, BitCount, Sort, GeoSearch, Eval, ...), modulo keyword case, numeric spelling, the optional '=' of stream thresholds and SET option order.",
    level_note="(a) is not an independent oracle: the mock does not call the adapter, but its ExpectXxx bodies are transliterations of the adapter bodies on the same command builder; it detects drift between adapter and mock, not misconceptions shared by both (GetEx with zero expiration is wrong in both). Disagreements caused by three recognised mock defects (sub-unit durations truncated to 0, BitCount.Unit ignored, empty key in the pairs matcher) are counted as inconclusive, not reported. (b) depends on the author's recollection of the go-redis sources; only conventions stable across v9 are listed; about 370 adapter methods have no reference at all. " + LIMITS,
    explanation="Partial by nature: the real go-redis module cannot be installed offline. The check compares the adapter's argv with (a) the repository's own go-redis-style mock (rueidiscompatmock; 316 methods; a drift detector only, because the mock is largely a copy of the adapter's encoding) and (b) a hand-written table of go-redis v9 argv conventions for 128 methods. Methods without either reference are not judged.",
    units=[
        U("harness", "props", "TestVerif_C42_MockDifferential", T(150000), T(600000, shards=16)),
        U("harness", "props", "TestVerif_C42_Reference", T(30000), T(300000, shards=16)),
    ],
)

PROPS["C06"] = dict(
    level="exploration",
    technique="property-based testing (rapid) of generated histories (cached reads, writes by other clients, flushes, expiries, connection kills) in a synctest bubble against a fake server that emits invalidations in Redis order; oracle = versioned values checked against the server's write history",
    level_text="Every hit carries key@version; a hit is a violation if that version had been overwritten, deleted, flushed or expired at an earlier virtual instant than the start of the call (quiescence between instants guarantees the push was processed). OPTIN/OPTOUT/BCAST, static TTL, LRU and SimpleCacheAdapter stores.",
    level_note="One pipeline connection (PipelineMultiplex -1) so that 'the connection' is unambiguous. Same-instant write/read pairs race and are not asserted. " + LIMITS,
    units=[U("harness", "props", "TestVerif_C06_NoStaleHits", T(1500, timeout=300), T(6000, shards=16, timeout=1500), variants=QUEUES)],
)

PROPS["C07"] = dict(
    level="exploration",
    technique="model-based property testing (rapid state machine with an explicit clock) on both cache stores, plus end-to-end timed histories in a synctest bubble where request start and reply arrival are exact virtual instants",
    level_text="Store level: generated Flight/Update/Cancel/Delete/clock histories against a map model of expiry = min(client expiry, server PXAT). End to end: fetched replies must report CachePXAT == min(start + client TTL, arrival + server PTTL) within 1 ms, hits the expiry of the entry that serves them, and no hit at or after expiry.",
    level_note="The end-to-end part uses single-caller histories so that every read owns its fetch. " + LIMITS,
    units=[
        U("inpkg", "rueidis", "TestVerif_C07_StoreModel", T(4000), T(20000, shards=16), steps=40),
        U("harness", "props", "TestVerif_C07_ExpiryEndToEnd", T(1500, timeout=300), T(6000, shards=16, timeout=1500), variants=QUEUES),
    ],
)

PROPS["C09"] = dict(
    level="exploration",
    technique="property-based testing (rapid) of concurrent cached reads with delayed fetches in a synctest bubble; oracle = server receive log (every repeated fetch of a key needs an invalidation, expiry or connection loss in between) plus value currency",
    level_text="Several callers read the same keys while the first fetch is held by server latency; the server log must show one fetch per flight and every reader must get a value of that key that was current during its call.",
    level_note="Histories without caller cancellation (an owner that abandons its fetch legitimately hands its context error to the waiters, which C01 tolerates explicitly). " + LIMITS,
    units=[U("harness", "props", "TestVerif_C09_SingleFlight", T(1500, timeout=300), T(5000, shards=16, timeout=1500), variants=QUEUES)],
)

PROPS["C11"] = dict(
    level="exploration",
    technique="property-based testing (rapid) of batched cached reads over keys in mixed cache states in a synctest bubble; oracle = per-position key identity of versioned values and key-set equality",
    level_text="DoMultiCache, MGetCache and DoCache(MGET) batches with duplicates over keys that are hit, expired, pending or missing; position i / map entry k must carry a value of exactly that key that was current during the call.",
    level_note="Single client with one pipeline connection in this unit; JsonMGetCache and the cluster split are covered by C31 / the cluster check when present. " + LIMITS,
    units=[U("harness", "props", "TestVerif_C11_PositionalBatches", T(1500, timeout=300), T(5000, shards=16, timeout=1500), variants=QUEUES)],
)

PROPS["C30"] = dict(
    level="exploration",
    technique="property-based testing (rapid) of generated call histories in a testing/synctest bubble against a wire-level fake Redis that executes the Lua bodies; oracle = server frame log + log of script body executions + non-idempotent VEXEC marks, attributed to calls through a unique id in ARGV[1]/KEYS[1], plus a model of each script's return value",
    level_text="One Lua object from each of the six constructors (with and without WithLoadSHA1) is shared by 1-3 callers running 1-6 Exec / ExecMulti(1-8) calls with 0-3 keys and 0-3 binary-safe arguments while another client flushes or pre-loads the server's script cache and SCRIPT LOAD fails at generated instants. Per call the body must run at most once, EVALSHA(_RO) must come first and EVAL(_RO) only after that call's NOSCRIPT reply, NoSha objects never send EVALSHA or SCRIPT LOAD, read-only objects only send *_RO commands, SCRIPT LOAD is only sent by ExecMulti or (WithLoadSHA1) by Exec while the SHA is unknown, and every result equals the script's return value for that call's own keys and arguments.",
    level_note="Single client in this unit (no cluster: ExecMulti's load-to-every-node is exercised with one node). No connection faults: the retryable constructors are exercised for their command choice only; re-sending after a failure is the subject of C03/C28. Server latency is only generated without WithLoadSHA1 (Exec holds an RWMutex across SCRIPT LOAD, which the virtual clock cannot see through). Texts of Lua interpreter errors are not byte-exact in the fake, so for failing scripts only 'an error reply, equal to what the server sent' is asserted. " + LIMITS,
    units=[U("harness", "props", "TestVerif_C30_Lua", T(1500, timeout=300), T(6000, shards=16, timeout=1500))],
)

PROPS["C35"] = dict(
    level="exploration",
    technique="property-based testing (rapid): generated configurations over the accepted (n, rate) domain x generated add/query/reset histories through the public API against a fake Redis that runs the filter's real Lua scripts (mini Lua interpreter) inside a testing/synctest bubble; oracle = model set of added items + positional agreement of ExistsMulti with Exists + monotonic Count",
    level_text="Configurations from n=1..10^6 and rates from 10^-300 up to 1-10^-15 (with and without the read-only Exists script), histories of up to 30 Add/AddMulti/Exists/ExistsMulti/Count/Reset/Delete calls over pools of up to 50 items (empty, binary, long); every item of the model set must be reported present by Exists and at its position of ExistsMulti.",
    level_note="Bitmaps up to the accepted maximum of 2^32 bits; the fake keeps bitmaps above 64 KiB sparse (kit/fakeredis/sparsebits.go, unit-tested differentially against the dense code). The mini Lua interpreter and the fake's BITFIELD are trusted (unit-tested in kit). " + LIMITS,
    units=[U("harness", "props", "TestVerif_C35_Bloom", T(800, timeout=300), T(3000, shards=16, timeout=1500))],
)

PROPS["C26"] = dict(
    level="exploration",
    technique="property-based testing (rapid) of generated timed plans (Receive calls, context ends, (P|S)UNSUBSCRIBE commands, publishes, tagged commands, dedicated PubSubHooks, kill/Close) against a wire-level fake Redis inside a testing/synctest bubble; oracle = per-connection push log of the server + a model of the client-side fan-out",
    level_text="Thousands of generated Pub/Sub histories with overlapping channel, pattern and shard subscriptions on one connection (RESP3) or on the separate RESP2 Pub/Sub connection; every Receive's return value and callback sequence is checked against the pushes the server logged for that connection (in-order, duplicate-free, nothing foreign, complete between the SUBSCRIBE answer and the earliest ending instant); hook channels must be closed with at most one value; interleaved tagged commands must get their own reply trees; both queue implementations.",
    level_note="Events at exactly the same virtual microsecond are races and are not ordered by the oracle (any of the candidate outcomes is accepted, completeness is only required for pushes strictly before the earliest ending instant and after the answer to the call's own SUBSCRIBE). Kill scenarios run with DisableRetry (a Receive must fail instead of re-subscribing). The hook variant runs on RESP3 only. " + LIMITS,
    units=[U("harness", "props", "TestVerif_C26_PubSub", T(1200, timeout=300), T(5000, shards=16, timeout=1500), variants=QUEUES)],
)

PROPS["C27"] = dict(
    level="exploration",
    technique="property-based testing (rapid) of generated timed plans (DoCache reads, external writes, expiries, flushes, multi-key invalidation frames, kills, Close, dedicated clients with SetOnInvalidations) against a wire-level fake Redis inside a testing/synctest bubble; oracle = per-connection invalidation push log of the server",
    level_text="Generated histories in the three tracking modes (OPTIN, OPTOUT, BCAST with prefix): the sequence of OnInvalidations / SetOnInvalidations callback arguments of each connection must equal the invalidate pushes the server logged for that connection (keys, order, nil for flushes) followed by exactly one nil when the connection is lost; after releasing a dedicated client that installed a callback, CLIENT TRACKING OFF must reach the server before the next user command on the pooled connection; both queue implementations.",
    level_note="Pushes sent in the same virtual microsecond in which the connection is opened, lost or released are races (optional in the comparison). The fake server's tracking table decides which writes produce pushes and is trusted; multi-key frames are injected by the scenario. " + LIMITS,
    units=[U("harness", "props", "TestVerif_C27_Invalidations", T(1200, timeout=300), T(5000, shards=16, timeout=1500), variants=QUEUES)],
)

PROPS["C40"] = dict(
    level="exploration",
    technique="property-based testing (rapid): generated save/fetch/remove histories with 1-5 concurrent Saves of copies of one version in a synctest bubble against the fake server (real Lua save scripts, HSET/HGETALL, minimal JSON.*); oracle = optimistic-locking model (one winner per base version, version + 1, stored version read by another client) and field-by-field round trip",
    level_text="Histories of 2-10 steps over two entities on the hash repository (a struct with every kind of the hash converter table) and the JSON repository (the same plus integer/float widths, maps, arrays): NewEntity, Save, Fetch/FetchCache, concurrent Saves at equal or staggered virtual instants, Saves from outdated copies, Remove; values include empty strings, non-UTF-8 bytes, numeric extremes, nil/non-nil pointers and nil/empty slices.",
    level_note="Single client, healthy server, latency 0-1 ms. FetchCache is read after the client's connections have drained because the invalidation caused by a Save travels on another connection than the Save's reply. NaN/Inf and uint64 above MaxInt64 are not generated (encoding/json and RedisJSON do not carry them); JSON strings are valid UTF-8 (encoding/json replaces invalid bytes by design). RediSearch functions (Search, Aggregate, indexes) are out of scope. " + LIMITS,
    units=[U("harness", "props", "TestVerif_C40_OM", T(1500, timeout=300), T(8000, shards=16, timeout=1500))],
)

PROPS["C36"] = dict(
    level="exploration",
    technique="property-based testing (rapid): generated add/remove/query histories on generated configurations through the public API against a fake Redis that runs the filter's real Lua scripts inside a testing/synctest bubble; oracle = multiset model for the API answers + a reference removal evaluated on the server's own counters (HGETALL before/after every call, the counters of an item taken from the script ARGV)",
    level_text="Half of the configurations are tiny (2-26 counters) so that index sets of different items collide; histories of up to 30 calls mix removals of held items with removals of items that were never added or already removed, single and multi; the hash is read back after every call.",
    level_note="Sequential histories of one client (the scripts are atomic on the server). After a false-positive removal (an item the model does not hold whose counters are all covered by other items) the premise of the property is gone and the model is suspended until Delete. The clause remove-effect (a removable item is decremented exactly once per counter use, items taken in argument order) goes slightly beyond the property text. " + LIMITS,
    units=[U("harness", "props", "TestVerif_C36_CountingBloom", T(800, timeout=300), T(3000, shards=16, timeout=1500))],
)

PROPS["C37"] = dict(
    level="exploration",
    technique="property-based testing (rapid): generated timed add/query histories in a testing/synctest bubble (virtual clock shared by the client, the fake server's TIME and its key expiry) against a fake Redis that runs the filter's real Lua scripts; oracle = every item is present at every query within half a window (minus 2 ms) of its latest successful add",
    level_text="Windows of 1-60 s including odd millisecond counts, gaps aimed at both sides of the rotation instants (a few ms before and after the rotation lock expires) and at the limit of the guaranteed half window; rotations between the add and the query are observed through the value of the last-rotation key.",
    level_note="Windows with fractional seconds and sub-millisecond parts are generated; half of the plans are steady traffic so that the filter rotates as early as it can. One client, instantaneous calls (no server latency: the scripts take their time from the server, so latency only shifts the instants). Reset's reply (rueidis.Nil on success) and the failing first call after Delete are outside the property and tolerated. Bitmaps up to 2^16 bits, at most 64 hash functions. " + LIMITS,
    units=[U("harness", "props", "TestVerif_C37_SlidingBloom", T(800, timeout=300), T(3000, shards=16, timeout=1500))],
)

PROPS["C31"] = dict(
    level="exploration",
    technique="property-based testing (rapid) of generated helper-call histories in a testing/synctest bubble against a wire-level fake Redis; oracle = differential against what an external client reads per key right before/after each call (under the helper's documented command semantics) + server state after writes + scan of the frames received during the call",
    level_text="Histories of 1-5 calls of MGet, MGetCache, JsonMGet, JsonMGetCache, MSet, MSetNX, MDel and JsonMSet over a 14-key alphabet (hash tags, empty key, binary bytes) with 0-20 keys per call, duplicates, per-key state missing / string / hash / list / JSON document, JSON paths $ . $.a .a, another client rewriting keys between calls (client-side cache entries read before, invalidated in between, past their TTL), cache on / off / RESP2, one or four pipelined connections, read helpers optionally from two goroutines at once. The returned map must have exactly the distinct input keys, each entry must be that key's own reply or error, write helpers must leave the server holding the input (MSetNX all-or-nothing with ErrMSetNXNotSet on every key), frames may only name input keys, and an empty input returns an empty map without any frame.",
    level_note="Single client (ForceSingleClient) only in this unit: one MGET / JSON.MGET / MSET / MSETNX / DEL / JSON.MSET per call; the per-slot splitting of the cluster client (clusterMGet, doMultiSet) is not exercised here - c31Run takes the client constructor as a parameter so that a cluster variant can be plugged in. Standalone and sentinel clients share the single-client code path of the helpers (type switch in helper.go) and are not constructed. A call that follows the client's own write waits 2 virtual ms unless the client has one connection: with PipelineMultiplex the key's cache can live on another connection than the one that wrote, and the invalidation then travels asynchronously. After a failed JSON.MSET the server state is not asserted (the fake applies JSON.MSET key by key). " + LIMITS,
    units=[U("harness", "props", "TestVerif_C31_Helpers", T(1500, timeout=300), T(6000, shards=16, timeout=1500))],
)

PROPS["C38"] = dict(
    level="exploration",
    technique="property-based testing (rapid): generated schedules of concurrent Allow/AllowN/Check callers at exact virtual instants in a testing/synctest bubble against a fake Redis that runs the limiter's real Lua script; oracle = admitted-units bound per (identifier, ResetAtMs) + reference model of the window/counter semantics run over the server's serial execution order + metamorphic run without the Check calls",
    level_text="1-6 callers x 1-8 calls on 1-2 identifiers, limits 1-20, windows 1-5 s, instants exactly on and 1 ms around window ends and callers coinciding at one instant; the server log orders the script executions, the model replays them and every caller's Result{Allowed, Remaining, ResetAtMs} must be the model's (multisets per identifier, n and instant).",
    level_note="One limiter object and one connection (requests reach the server in the order the client wrote them); calls are instantaneous in virtual time, so the client clock and the server clock agree. Allowed is not compared for n=0 (undocumented); a request at the very millisecond a window ends may be counted in either window (undocumented, the model follows the limiter). A Check that is the first request after a window ended opens a window, so the metamorphic comparison is made only when no Check did. Per-call WithCustomRateLimit options (limit and window different from the default in both directions) are exercised; a window lasts the window of the call that opens it and each call is judged against its own limit. " + LIMITS,
    units=[U("harness", "props", "TestVerif_C38_Limiter", T(800, timeout=300), T(3000, shards=16, timeout=1500))],
)

PROPS["C29"] = dict(
    level="exploration",
    technique="property-based testing (rapid) of generated stream plans in a testing/synctest bubble against a wire-level fake Redis: reply shapes, payload sizes, failing writers, mid-reply connection drops, done/deadline contexts; oracle = generated payload bytes + HasNext/io.EOF sequence + connection life cycle in the server's event log (reuse, close, pool bound) + hang detection",
    level_text="1-3 callers x 1-4 DoStream / DoMultiStream(1-5) / plain Do calls of VREPLY commands whose replies cover blob 0-200 KiB, chunked blob, verbatim, simple, integer, double, big number, three null encodings, error replies, aggregates and attribute-prefixed replies (RESP2 subset too); the consumer's writer fails after n bytes, the server cuts the connection inside a reply, contexts are done, expire or are cancelled; BlockingPoolSize 1-2 with more callers than connections. Bytes written must equal the payload, errors must be reported per command, the stream connection must be reused after a clean stream and closed after an unclean one, never more than BlockingPoolSize open; a connection that is not returned shows as a hang.",
    level_note="Abandoning a stream before its last WriteTo is documented misuse and not generated. Writer failures on streamed (blob/verbatim/chunked) replies run into two recorded defects (C29.writer-error-overdiscard, C29.writer-error-chunked): such cases are checked only up to the failing write. Error texts are accepted with or without the generic 'ERR ' prefix (the streaming path does not strip it, Do does). Boolean replies are outside the property text. " + LIMITS,
    units=[U("harness", "props", "TestVerif_C29_Streaming", T(1200, timeout=300), T(4000, shards=16, timeout=1500), variants=QUEUES)],
)

PROPS["C25"] = dict(
    level="exploration",
    technique="property-based testing (rapid) of generated timed plans in a testing/synctest bubble against a wire-level fake Redis: dedicated sessions interleaved with pipelined and blocking traffic and calls on released handles; oracle = per-connection server log (contiguous session blocks), reference model of keys/WATCH/MULTI replayed over the log, session state of the fake at the next hand-out of the connection, hang detection",
    level_text="1-3 dedicated sessions (Dedicated(fn) or Dedicate(); WATCH/GET/MULTI/SET/EXEC through Do and DoMulti, SetPubSubHooks with SUBSCRIBE/PSUBSCRIBE/SSUBSCRIBE, Receive, SetOnInvalidations with CLIENT TRACKING; synchronous and pipelined connection modes; released, closed or closed twice; optionally ending with a racing call: a read-only Do/DoMulti answered -LOADING for its first 1-3 attempts, retried with a generated RetryDelay in its own goroutine while the session is released or closed inside a retry back-off or after the call) run with generated pauses while other callers use the shared pipeline and the blocking pool (BlockingPoolSize 1-3), keys are modified and messages published from outside, and the released handles are called again. Each session's commands must be one contiguous block on one pool connection, every reply must be the one a reference model derives from the server's execution order (EXEC aborts only for the session's own WATCH), a released handle must reject every call and reach no connection (no command issued through a handle is received later than its release/Close returned, which also covers retries that were waiting in their back-off), and the connection must be handed on without subscriptions, hooks, tracking or transaction state.",
    level_note="RESP3 single client only (RESP2 Pub/Sub uses a second connection; the cluster dedicated client is not exercised). Sessions that release with an open MULTI or a pending WATCH are outside the property and not generated. SetPubSubHooks after SetOnInvalidations leaves tracking on (open finding C25.sethooks-drops-oninvalidations). Release instants of racing calls are odd multiples of RetryDelay/2, never the instant of an attempt, so the strict comparison with the release time has no ties; Receive retries (transport errors on a healthy wire) are not generated. Delivery of messages while subscribed is not asserted, only that nothing arrives after release. " + LIMITS,
    units=[U("harness", "props", "TestVerif_C25_Dedicated", T(1200, timeout=300), T(4000, shards=16, timeout=1500), variants=QUEUES)],
)

PROPS["C47"] = dict(
    level="fault_enumeration",
    technique="property-based testing (rapid) over option vectors and server personalities in a testing/synctest bubble, with an exhaustive enumeration of the failing setup step per vector (one run per setup command seen in the fault-free run, that command answered by an error on every new connection); oracle = session state of the fake server captured right before each connection's first user command, compared with the configuration",
    level_text="Generated vectors over credentials (static, password only, AuthCredentialsFn with rotating users), ClientName, SelectDB, ClientTrackingOptions (OPTIN/OPTOUT/BCAST/PREFIX/NOLOOP), DisableCache, AlwaysRESP2, ClientNoTouch, ClientNoEvict, ClientSetInfo (default/custom/disabled), Standalone.EnableRedirect and ReplicaOnly against a RESP3 server, a server without HELLO and a server that answers HELLO 3 with protocol 2. One user command goes through the pipelining connection, the blocking pool, a dedicated client and the stream pool; each connection's authenticated user, name, database, tracking mode/prefixes/NOLOOP, NO-TOUCH, NO-EVICT, READONLY, CAPA, library info and protocol must equal the configuration before its first user command. For every vector every setup command is then failed in turn: READONLY and CLIENT SETINFO failures must be tolerated, every other failure must fail NewClient and every call with no user command executed.",
    level_note="The fake derives session state semantically, so command order does not matter. ReplicaOnly is rejected for single clients and is therefore only exercised together with Standalone.EnableRedirect (standalone client). Failing steps are answered with a generated error text (ERR, NOPERM, LOADING, NOPROTO, WRONGPASS or the unknown-command text). A rejected HELLO 3 probe with a text other than 'unknown command' may either fall back or fail; the HELLO 2 of the RESP2 setup batch is tolerated only when rejected as an unknown command and must fail the connection for any other error; a step that is sent again later on the same connection (RESP2 fallback) may be tolerated. With a server without HELLO that requires AUTH, ClientNoTouch/ClientNoEvict/EnableRedirect make the connection fail (CLIENT ... is sent before AUTH in the RESP3 attempt): accepted as a failed connection, not asserted. Cluster and sentinel handshakes are not covered here. " + LIMITS,
    units=[U("harness", "props", "TestVerif_C47_Setup", T(600, timeout=300), T(3000, shards=16, timeout=1500), variants=QUEUES)],
)

PROPS["C39"] = dict(
    level="exploration",
    technique="property-based testing (rapid) of timed plans in a synctest bubble: 2-4 rueidisaside clients (plain and typed, SET NX and Lua lock) with concurrent Gets, Dels, loader latencies/outcomes, client Close, crash (no re-dial, liveness key expires), connection kills and external writes against the fake server (real Lua scripts, client-side caching pushes, key expiry on the virtual clock); oracle = server-log truth of the key plus loader interval history",
    level_text="Generated interleavings of up to 4 clients x 3 callers x 4 operations on 1-3 keys with loader latencies 0-50 ms, TTLs both generous and shorter than the load, and client deaths at generated instants. Every successful result must be free of the lock placeholder and be the call's own loader output or a value stored for the key during the call; loaders of a key may overlap only after a Del/overwrite/expiry, a holder death or a lock timeout; a Get with a generous TTL on a live client must not time out (locks of dead clients are released, wake-ups are not missed).",
    level_note="Loaders honour their context (a load never outlives its lock silently). Typed clients are only called with a loader (the typed wrapper calls a nil loader unconditionally). A disconnect is allowed to strand a lock for one liveness TTL (reply of the lock command lost, DEL of the old client id fails while disconnected). The test runs on one P because of a Go 1.25.0 runtime defect (bubble specials allocated without mheap_.speciallock). " + LIMITS,
    units=[U("harness", "props", "TestVerif_C39_Aside", T(1500, timeout=300), T(8000, shards=16, timeout=1500))],
)

PROPS["C23"] = dict(
    level="exploration",
    technique="property-based testing (rapid) of generated sentinel scenarios in a testing/synctest bubble against a wire-level fake Redis with a sentinel personality (per-sentinel views kept apart from the data nodes' true roles); oracle = per-node server log: ROLE answers per connection option set, sentinel replies and events received, destination of every uniquely keyed user command",
    level_text="1-3 sentinels with own (stale, wrong or lagging) views, 2-4 data nodes; histories of failovers (each sentinel learns at once, after n more answers or never, with or without +switch-master; promoted node still answering ROLE slave for 0-2 queries), failovers sprung right after a sentinel answered (role flip between the answer and the client's ROLE check, also for the node the client is already on), failovers sprung by the client's own ROLE query and announced while that refresh is running (+switch-master during a refresh), view changes, +sdown/-sdown/+slave/+reboot/+sentinel events, connection kills and refused dials; clients in primary, SendToReplicas and ReplicaOnly mode with traffic through every call type on and around the events. Every user command must be on a node that answered ROLE with the needed role on a connection of that option set and (primary) was named master by a sentinel before and has answered ROLE as master since the latest such report received before the command; after a received +switch-master and 5 s without change primary traffic must be on the announced master only, and final probes must reach it.",
    level_note="Scenarios are instantaneous in virtual time and staleness is counted in answers, not in time (the client holds a sync.Mutex across a refresh, which would freeze the virtual clock otherwise); one anchor sentinel always becomes truthful after at most 2 answers, because a refresh that cannot succeed is retried by the client in a hot loop. Events at the same virtual instant are ties (accepted either way): the wrong-role clause judges calls that started strictly after the wrong answer and counts an instant as wrong only if no ROLE answer of that instant had the right role (a SendToReplicas refresh abandons a still running replica check when the master check fails; it may finish in the instant in which a later round adopted the node); the ROLE-after-report clause takes the latest report delivered strictly before the command (reports on a connection that went down in that instant, and runs slowed by the dial-storm brake, are not judged). The +switch-master-during-refresh situation is produced by yielding the scheduler (no virtual time) after the announcement was queued and before the ROLE answer is, with GOMAXPROCS(1). Connections are attributed to the client's master or replica option set through the *net.Dialer pointer given to DialCtxFn. A ReplicaOnly client keeps its replica after that node is promoted unless a replica event arrives (the property only demands the ROLE answer at selection). Arrival of final probes is demanded only for retried reads when data connections were cut. " + LIMITS,
    units=[U("harness", "sentinel", "TestVerif_C23_FollowMaster", T(600, timeout=300), T(2500, shards=16, timeout=1500), variants=QUEUES)],
)

# C21: the units below cover the standalone-with-replicas and the sentinel client; the cluster unit is added by its own entry
_C21_SENTINEL_UNITS = [
    U("harness", "sentinel", "TestVerif_C21_StandaloneReplicas", T(600, timeout=300), T(3000, shards=16, timeout=1500), variants=QUEUES),
    U("harness", "sentinel", "TestVerif_C21_SentinelReplicas", T(600, timeout=300), T(3000, shards=16, timeout=1500), variants=QUEUES),
]
if "C21" in PROPS:
    PROPS["C21"]["units"] = PROPS["C21"]["units"] + _C21_SENTINEL_UNITS
else:
    PROPS["C21"] = dict(
        level="exploration",
        technique="property-based testing (rapid) of generated routing scenarios in a testing/synctest bubble against a wire-level fake Redis: generated SendToReplicas predicates, ReadNodeSelector answers and ReplicaOnly; oracle = destination node of every uniquely keyed user command in the per-node server log against a reference evaluation of the predicate",
        level_text="Standalone client with 1-3 replica addresses and sentinel client (1-3 sentinels, 2-4 nodes, fixed roles): predicates always / never / read-only names / name set / key parity, batches of 2-4 with mixed predicate values, selector answers negative, 0, valid, len, len+1, len+5 with filled and empty candidate lists, ReplicaOnly, replica re-selection events and connection kills; traffic through Do, DoMulti, DoCache, DoMultiCache, DoStream, DoMultiStream, blocking commands and Receive. A command may be on a replica only if the predicate is true for it (for every member of its batch) or the client is ReplicaOnly; an out-of-range selector answer must land on the primary.",
        level_note="Only the direction stated by the property is asserted (replica => allowed; out-of-range => primary): a qualifying command on the primary is accepted (DoCache/DoMultiCache of the standalone client always use the primary; an in-range selector answer is not compared with the destination). The sentinel client has no node selector at this commit. Sentinel plans keep the true roles fixed so that 'replica' is a property of the node; role changes are covered by C23. " + LIMITS,
        units=list(_C21_SENTINEL_UNITS),
    )

# C19 routing half, C20 and the cluster part of C21: bubble checks of the cluster client (harness/cluster)
PROPS["C19"]["units"].append(U("harness", "cluster", "TestVerif_C19_Routing", T(500, timeout=300), T(4000, shards=16, timeout=1500), variants=QUEUES))
PROPS["C19"]["technique"] += "; routing: property-based testing (rapid) of generated timed plans (topologies, keyed commands, slot moves, migrations, contradicting node views, kills, failovers) against a wire-level fake Redis Cluster inside a testing/synctest bubble; oracle = per-node server log against the topology answers the client received (parsed by the test)"
PROPS["C19"]["level_text"] += " Routing: 2-5 primaries x 0-2 replicas with holes in the slot space, CLUSTER SLOTS or SHARDS by server version; Do/DoCache/DoMulti/DoMultiCache of uniquely tagged keyed commands; MOVED (also to nodes the client does not know), ASK during migrations, redirect loops with MaxMovedRedirections 0-3; the first send of every command must go to the primary listed for its slot in an answer the client held, redirects must be followed to the named node (ASK: right after ASKING on the same connection), the caller must get the reply to the last send, and a redirect error is only returned after exactly MaxMovedRedirections redirects."
PROPS["C19"]["level_note"] = PROPS["C19"]["level_note"].replace("routing, MOVED/ASK and redirect limits are covered by the cluster bubble check when present. ", "") + " Routing unit: the client runs in pipelining mode (AlwaysPipelining) so that the write instants of CLUSTER requests identify refresh rounds; which answer of a round the client adopted cannot be observed, so every answer that is not certainly out of date is accepted as the client's topology (old and new owner are both accepted while a change is being learned). In plans with a killed node or a fired deadline the redirect-follow clauses are not asserted (the send that followed a redirect may have been lost on a closed connection). The fake cluster does not move data and checks transaction members when they are queued, not again at EXEC."

PROPS["C20"] = dict(
    level="exploration",
    technique="property-based testing (rapid) of generated timed plans (overlapping callers, multi-node batches, cached batches, MULTI..EXEC blocks, slot moves, migrations, contradicting node views, kills, scripted retryable errors) against a wire-level fake Redis Cluster inside a testing/synctest bubble; oracle = per-connection server log (transaction spans) + per-position identity of uniquely tagged replies",
    level_text="1-4 overlapping callers x 1-4 calls: DoMulti of 2-7 uniquely tagged keyed commands over 3-6 slots, DoMultiCache of 2-6 reads, single-slot batches with 1-2 MULTI..EXEC blocks and loose commands around them, while slots move, migrate (ASK for a generated subset of keys), nodes disagree (redirect loops), die, or answer TRYAGAIN/LOADING/CLUSTERDOWN. Result i must be the servers' reply to the last send of command i; every MULTI..EXEC span read on a server connection must hold exactly the members of one block in order and be complete; no member may travel outside a span; with an unlimited redirect budget no member may end as a redirect error.",
    level_note="A batch that contains MULTI/EXEC must keep to one slot (the cluster client panics otherwise by design), so transactions are generated in single-slot batches. The fake checks transaction members when they are queued, not again at EXEC. Which node a redirected block is sent to is the subject of C19. " + LIMITS,
    units=[U("harness", "cluster", "TestVerif_C20_Batches", T(400, timeout=300), T(3000, shards=16, timeout=1500), variants=QUEUES)],
)

PROPS["C21"]["units"].append(U("harness", "cluster", "TestVerif_C21_ClusterReplicas", T(400, timeout=300), T(3000, shards=16, timeout=1500), variants=QUEUES))
PROPS["C21"]["level_text"] += " Cluster client: generated topologies (2-5 primaries x 0-2 replicas), SendToReplicas predicates over command name, slot and tag, default selector / ReplicaSelector / ReadNodeSelector answering valid, zero, negative and too large indexes per slot, ReplicaOnly, and Do/DoMulti/DoCache/DoMultiCache/DoStream traffic; the first send of a command whose predicate is false must reach the primary listed for its slot, and so must a replica-eligible command whose selector answer is out of range."

PROPS["C34"] = dict(
    level="exploration",
    technique="property-based testing (rapid) of timed plans in a synctest bubble: 2-4 rueidislock lockers with their own clients (client-side-caching invalidations, real Lua lock scripts executed by the fake server) contending for 1-2 names, with releases, external key deletions / PEXPIRE / FLUSHALL, forced takeovers, connection kills and Locker.Close; oracle = server-side truth (value of every lock key over time from the server log, every lock script observed at execution together with the liveness of all lock contexts) against the observed lock contexts",
    level_text="Generated interleavings of up to 6 actors (several may share one Locker) x 3 lock calls with KeyMajority 1-3, KeyValidity 200-2000 ms, NoLoopTracking and FallbackSETPX on/off and script latency 0.1-1 ms. A granted lock must have had its value in a majority of the keys; a lock context must be done when the server executes a release that breaks its majority, and within 5 ms (+ 20 script latencies) after its value left the majority; without ForceWithContext two holders are live together only if the first had already lost its majority; a WithContext call must not wait until its deadline (all hold times + 10 validity periods).",
    level_note="Invalidation delivery is the fake server's: PEXPIREAT does not emit an invalidation (Redis does; without NOLOOP that would make every extension re-trigger itself). Server latency is never 0: a waiter that takes a free minority key, fails and releases it wakes itself up through its own invalidation and would spin at one virtual instant. Losses within 50 ms after a connection kill are not judged for promptness (partition). DisableCache (polling) mode is not exercised. The test runs on one P because of a Go 1.25.0 runtime defect (bubble specials allocated without mheap_.speciallock). " + LIMITS,
    units=[U("harness", "props", "TestVerif_C34_Lock", T(1000, timeout=300), T(5000, shards=16, timeout=1500))],
)

# C28, cluster client: retry policy of clusterClient.Do/DoMulti/DoCache/DoMultiCache (harness/cluster)
PROPS["C28"]["units"].append(U("harness", "cluster", "TestVerif_C28_ClusterRetry", T(400, timeout=300), T(3000, shards=16, timeout=1500), variants=QUEUES))
PROPS["C28"]["level_text"] += " Cluster client: the same model over Do/DoMulti/DoCache/DoMultiCache of keyed read-only, write and ToRetryable commands against a fake Redis Cluster, with LOADING/TRYAGAIN/CLUSTERDOWN, ordinary ERR, nil and connection drops per arrival and RetryDelay tables that turn negative after some attempts: every further send of a command needs a retryable failure of the previous one, a retryable command, retries enabled and a non-negative RetryDelay answer for that command in between."
PROPS["C28"]["level_note"] = PROPS["C28"]["level_note"].replace("Single client in this unit. ", "Single client in the first unit, cluster client in the second (static topology, so redirect rounds do not mix with retry rounds; RetryDelay tables depend on the attempt number only, because a cluster batch is retried with the largest delay of its members). ")

PROPS["C25"]["units"].append(U("harness", "cluster", "TestVerif_C25_ClusterDedicated", T(400, timeout=300), T(3000, shards=16, timeout=1500), variants=QUEUES))

PROPS["C31"]["units"].append(U("harness", "cluster", "TestVerif_C31_ClusterHelpers", T(400, timeout=300), T(3000, shards=16, timeout=1500), variants=QUEUES))

# ---- END PROPS (new entries go above this line)

# every property without a check is listed here with its reason (kept current while building)
NOT_APPLICABLE = {}


def finalize():
    for i in ALL_IDS:
        if i not in PROPS and i not in NOT_APPLICABLE:
            NOT_APPLICABLE[i] = "check not built yet in this session (planned in DESIGN.md section 6); not claimed until it exists"
    for p in PROPS.values():
        p.setdefault("claimed", True)


finalize()
