package rueidis

import (
	"bufio"
	"bytes"
	"fmt"
	"strconv"
	"testing"

	"pgregory.net/rapid"
	"verifkit/resp"
	"verifkit/rgen"
	"verifkit/stat"
)

func decodeAll(data []byte, sizes []int, bufsz int, n int) ([]RedisMessage, *bufio.Reader, *rgen.SplitReader, error) {
	sr := &rgen.SplitReader{Data: data, Sizes: sizes}
	br := bufio.NewReaderSize(sr, bufsz)
	var out []RedisMessage
	for i := 0; i < n; i++ {
		m, err := readNextMessage(br)
		if err != nil {
			return out, br, sr, err
		}
		out = append(out, m)
	}
	return out, br, sr, nil
}

func TestVerif_C12_Decode(t *testing.T) {
	c := stat.For("C12", "decode").Rule("generated RESP3/RESP2 value trees (all type bytes, nulls in 3 encodings, attributes, streamed strings/aggregates, pushes, payloads with CRLF and up to 70 KiB) encoded by an independent encoder, decoded through readers that return 1..n bytes per Read and bufio sizes 16 B..64 KiB; decoded tree must equal the generated one for two different splits and consume exactly the encoding; non-trivial = depth>=3 or a streamed node or an attribute or 1-byte reads")
	defer c.Flush()
	rapid.Check(t, func(t *rapid.T) {
		n := rapid.IntRange(1, 3).Draw(t, "nmsgs")
		vals := make([]resp.Value, n)
		var enc []byte
		depth, streamed, attr := 0, false, false
		for i := range vals {
			vals[i] = rgen.Value(t, rgen.Full)
			enc = resp.Append(enc, vals[i])
			depth = max(depth, rgen.Depth(vals[i]))
			streamed = streamed || rgen.HasStream(vals[i])
			attr = attr || rgen.HasAttr(vals[i])
		}
		s1, s2 := rgen.Sizes(t), rgen.Sizes(t)
		b1, b2 := rgen.BufSize(t), rgen.BufSize(t)
		one := len(s1) == 1 && s1[0] == 1
		nt := depth >= 3 || streamed || attr || one
		var cls []string
		if streamed {
			cls = append(cls, "streamed")
		}
		if attr {
			cls = append(cls, "attr")
		}
		if depth >= 3 {
			cls = append(cls, "deep")
		}
		if len(enc) > 4096 {
			cls = append(cls, "big")
		}
		c.Eval(nt, enc, cls...)
		c.Sample(nt, func() any { return map[string]any{"encoded": q(enc), "splits": s1, "bufio": b1} })
		saveLastCase("c12", enc)
		for k, cfg := range []struct {
			sz []int
			b  int
		}{{s1, b1}, {s2, b2}} {
			var msgs []RedisMessage
			var br *bufio.Reader
			var sr *rgen.SplitReader
			var err error
			if p := catchPanic(func() { msgs, br, sr, err = decodeAll(enc, cfg.sz, cfg.b, n) }); p != nil {
				c.Fail(t, "C12.decode-panic", fmt.Sprintf("panic %v decoding %s", p, q(enc)), q(enc))
			}
			if err != nil {
				c.Fail(t, "C12.decode-error", fmt.Sprintf("well-formed input rejected: %v; input %s splits %v bufio %d", err, q(enc), cfg.sz, cfg.b), q(enc))
			}
			for i := range vals {
				got := msgToValue(msgs[i])
				if !resp.Equal(got, vals[i]) {
					c.Fail(t, "C12.decode-equal", fmt.Sprintf("split#%d message %d: decoded %v, encoded %v (input %s)", k, i, got, vals[i], q(enc)), q(enc))
				}
			}
			if br.Buffered() != 0 || len(sr.Data) != 0 {
				c.Fail(t, "C12.decode-consumes-exactly", fmt.Sprintf("%d buffered + %d unread bytes left after decoding %s", br.Buffered(), len(sr.Data), q(enc)), q(enc))
			}
		}
	})
}

// streamExpect says what a streaming read of top-level value v must produce.
func streamExpect(v resp.Value) (payload string, kind string) {
	switch v.T {
	case '$', '=', '+', ',', '(':
		return v.S, "payload"
	case ':':
		return strconv.FormatInt(v.I, 10), "payload"
	case '_':
		return "", "nil"
	case '-', '!':
		return "", "rediserr"
	case '#':
		return "", "unspecified"
	}
	return "", "unsupported"
}

func TestVerif_C12_Stream(t *testing.T) {
	c := stat.For("C12", "stream").Rule("a generated top-level reply (optionally attribute-prefixed, streamed, preceded by push frames) followed by a sentinel reply is consumed by streamTo through split readers; the writer must receive exactly the payload a normal read returns for string/integer/float replies, nil/error replies surface as errors, and a clean read leaves the reader exactly at the sentinel; non-trivial = streamed, attribute-prefixed, preceded by a push, or payload > bufio size")
	defer c.Flush()
	rapid.Check(t, func(t *rapid.T) {
		o := rgen.Full
		o.MaxDepth = 2
		v := rgen.Value(t, o)
		if v.T == '>' {
			v = resp.Bulk("x")
		}
		npush := rapid.IntRange(0, 2).Draw(t, "npush")
		var enc []byte
		for i := 0; i < npush; i++ {
			enc = resp.Append(enc, resp.Push(resp.Bulk("vpush"), resp.Bulk(fmt.Sprint(i))))
		}
		enc = resp.Append(enc, v)
		enc = append(enc, "+SENTINEL\r\n"...)
		sizes, bufsz := rgen.Sizes(t), rgen.BufSize(t)
		want, kind := streamExpect(v)
		nt := v.Chunks != nil || len(v.Attr) > 0 || npush > 0 || len(want) > bufsz
		c.Eval(nt, enc, "kind="+kind, fmt.Sprintf("type=%c", v.T))
		c.Sample(nt, func() any { return map[string]any{"encoded": q(enc), "splits": sizes, "bufio": bufsz, "expect": kind} })
		saveLastCase("c12s", enc)
		sr := &rgen.SplitReader{Data: enc, Sizes: sizes}
		br := bufio.NewReaderSize(sr, bufsz)
		var w bytes.Buffer
		var n int64
		var err error
		var clean bool
		if p := catchPanic(func() { n, err, clean = streamTo(br, &w) }); p != nil {
			c.Fail(t, "C12.stream-panic", fmt.Sprintf("panic %v streaming %s", p, q(enc)), q(enc))
		}
		switch kind {
		case "payload":
			if err != nil {
				if len(v.Attr) > 0 && (v.T == '$' || v.T == '=') && c.Known("C12.stream-attr-blob") {
					return
				}
				c.Fail(t, "C12.stream-payload", fmt.Sprintf("streaming read of %v failed: %v (a normal read returns %q)", v, err, want), q(enc))
			}
			if w.String() != want || n != int64(len(want)) {
				c.Fail(t, "C12.stream-payload", fmt.Sprintf("streaming read of %v wrote %q (n=%d), normal read gives %q", v, q(w.Bytes()), n, want), q(enc))
			}
			if !clean {
				c.Fail(t, "C12.stream-clean", fmt.Sprintf("complete read of %v reported unclean", v), q(enc))
			}
		case "nil":
			if err != Nil {
				c.Fail(t, "C12.stream-nil", fmt.Sprintf("null reply streamed as err=%v", err), q(enc))
			}
		case "rediserr":
			re, ok := err.(*RedisError)
			if !ok || re.string() != v.S {
				c.Fail(t, "C12.stream-error", fmt.Sprintf("error reply %v streamed as err=%v", v, err), q(enc))
			}
		case "unsupported":
			if err == nil {
				c.Fail(t, "C12.stream-unsupported", fmt.Sprintf("aggregate %v streamed without error", v), q(enc))
			}
		}
		if clean {
			m, err2 := readNextMessage(br)
			if err2 != nil || m.typ != '+' || m.string() != "SENTINEL" {
				c.Fail(t, "C12.stream-framing", fmt.Sprintf("after a clean streaming read of %v the next reply is %v/%v, want the sentinel", v, msgToValue(m), err2), q(enc))
			}
		}
	})
}
