package rueidis

import (
	"context"
	"fmt"
	"strconv"
	"strings"
	"sync"
	"sync/atomic"
	"testing"
	"time"

	"pgregory.net/rapid"
	"verifkit/bubble"
	"verifkit/stat"
)

type c02Put struct {
	At    int `json:"at_us"` // virtual start time of the putter's first put (microseconds)
	Multi int `json:"multi"` // 0: PutOne; n>0: PutMulti of n commands
	Gap   int `json:"gap_us"` // pause before this putter's next put
}

type c02Plan struct {
	Queue      string     `json:"queue"` // ring | flowbuffer
	Factor     int        `json:"factor"`
	WrapBefore int        `json:"wrap_before"` // ring counters start at 2^32 - WrapBefore (0: start at 0)
	Putters    [][]c02Put `json:"putters"`
	WPause     []int      `json:"writer_pause_us"` // cycled
	RPause     []int      `json:"reader_pause_us"`
	AutoFlush  []int      `json:"auto_flush_after"` // the writer's buffer flushes by itself after this many commands (cycled)
}

type c02Event struct {
	ID            int
	Putter        int
	StartSeq      int64
	ReturnSeq     int64
	Got           string // id found in the result delivered on the returned channel
	Done          bool
	ParkedOnFull  bool
}

func c02ID(c Completed) string {
	if c.IsEmpty() || len(c.Commands()) < 2 {
		return "?"
	}
	return c.Commands()[1]
}

func c02run(t *testing.T, plan c02Plan) (res bubble.Result, events []*c02Event, writerOrder, readerOrder []string, after [2]bool, writerParked bool, maxInflight int64) {
	var q queue
	var seq, inflight atomic.Int64
	var mu sync.Mutex
	id := 0
	for pi, ps := range plan.Putters {
		for range ps {
			events = append(events, &c02Event{ID: id, Putter: pi})
			id++
		}
	}
	res = bubble.Run(t, func() {
		// channels must be created inside the bubble to be durably blocking
		if plan.Queue == "ring" {
			r := newRing(plan.Factor)
			if plan.WrapBefore > 0 {
				start := uint32(0) - uint32(plan.WrapBefore)
				r.write, r.read1, r.read2 = start, start, start
			}
			q = r
		} else {
			q = newFlowBuffer(plan.Factor)
		}
		ntok := 8
		for _, ps := range plan.Putters {
			for _, p := range ps {
				ntok += max(1, p.Multi)
			}
		}
		written := make(chan string, ntok)
		var wg, loops sync.WaitGroup
		var parked atomic.Int32
		// writer: mirrors pipe._backgroundWrite, including its write buffer: what is dequeued is only
		// "on the wire" (visible to the reader as replies) once the buffer is flushed, which happens when
		// the queue has nothing more to write, or by itself when the buffer fills up (AutoFlush), possibly
		// in the middle of a batch
		loops.Add(2)
		go func() {
			defer loops.Done()
			var buf []string
			auto, autoIdx := 0, 0
			flush := func() {
				for _, tk := range buf {
					written <- tk
				}
				buf = buf[:0]
			}
			for i := 0; ; i++ {
				if len(plan.WPause) > 0 && len(buf) == 0 {
					time.Sleep(time.Duration(plan.WPause[i%len(plan.WPause)]) * time.Microsecond)
				}
				one, multi, ch := q.NextWriteCmd()
				if ch == nil {
					flush()
					parked.Store(1)
					one, multi, ch = q.WaitForWrite()
					parked.Store(0)
				}
				var ids string
				n := 1
				if multi == nil {
					ids = c02ID(one)
				} else {
					n = len(multi)
					for _, m := range multi {
						ids += c02ID(m) + ","
					}
				}
				mu.Lock()
				writerOrder = append(writerOrder, ids)
				mu.Unlock()
				for k := 0; k < n; k++ {
					buf = append(buf, fmt.Sprintf("%s|%d|%d", ids, k, n))
					auto++
					if len(plan.AutoFlush) > 0 && auto >= plan.AutoFlush[autoIdx%len(plan.AutoFlush)] {
						auto = 0
						autoIdx++
						flush()
					}
				}
				if ids == "poison" {
					flush()
					return
				}
			}
		}()
		// reader: mirrors pipe._backgroundRead (a reply only exists for a flushed command; the slot is
		// taken at the first reply of a batch and held until its last reply)
		go func() {
			defer loops.Done()
			for i := 0; ; i++ {
				tk := <-written
				parts := strings.Split(tk, "|")
				want := parts[0]
				n, _ := strconv.Atoi(parts[2])
				if len(plan.RPause) > 0 {
					time.Sleep(time.Duration(plan.RPause[i%len(plan.RPause)]) * time.Microsecond)
				}
				one, multi, ch, resps := q.NextResultCh()
				var ids string
				if ch == nil {
					ids = "<nothing>"
				} else if multi == nil {
					ids = c02ID(one)
				} else {
					for _, m := range multi {
						ids += c02ID(m) + ","
					}
				}
				mu.Lock()
				readerOrder = append(readerOrder, ids)
				mu.Unlock()
				if ch == nil {
					q.FinishResult()
					_ = want
					return // out of step: reported by the oracle from readerOrder
				}
				for k := 1; k < n; k++ {
					<-written // the remaining replies of the batch
				}
				for j := range resps {
					resps[j] = NewResult(strmsg('+', ids), nil)
				}
				ch <- NewResult(strmsg('+', ids), nil)
				q.FinishResult()
				if ids == "poison" {
					return
				}
			}
		}()
		next := 0
		for pi, ps := range plan.Putters {
			evs := events[next : next+len(ps)]
			next += len(ps)
			wg.Add(1)
			go func(pi int, ps []c02Put, evs []*c02Event) {
				defer wg.Done()
				time.Sleep(time.Duration(ps[0].At) * time.Microsecond)
				for k, p := range ps {
					if k > 0 {
						time.Sleep(time.Duration(p.Gap) * time.Microsecond)
					}
					ev := evs[k]
					var ch chan RedisResult
					if parked.Load() == 1 {
						mu.Lock()
						writerParked = true
						mu.Unlock()
					}
					ev.StartSeq = seq.Add(1)
					if n := inflight.Add(1); true {
						mu.Lock()
						maxInflight = max(maxInflight, n)
						mu.Unlock()
					}
					t0 := time.Now()
					if p.Multi == 0 {
						ch, _ = q.PutOne(context.Background(), cmdsNew("ID", strconv.Itoa(ev.ID)))
					} else {
						multi := make([]Completed, p.Multi)
						for j := range multi {
							multi[j] = cmdsNew("ID", strconv.Itoa(ev.ID))
						}
						ch, _ = q.PutMulti(context.Background(), multi, make([]RedisResult, p.Multi))
					}
					ev.ReturnSeq = seq.Add(1)
					ev.ParkedOnFull = time.Since(t0) > 0
					r := <-ch
					ev.Got, _ = r.ToString()
					ev.Done = true
					inflight.Add(-1)
				}
			}(pi, ps, evs)
		}
		wg.Wait()
		ch, _ := q.PutOne(context.Background(), cmdsNew("ID", "poison"))
		<-ch
		loops.Wait()
		_, _, wch := q.NextWriteCmd()
		_, _, rch, _ := q.NextResultCh()
		q.FinishResult()
		after = [2]bool{wch != nil, rch != nil}
	})
	return
}

func TestVerif_C02_Queue(t *testing.T) {
	qtypes := []string{"ring", "flowbuffer"}
	c := stat.For("C02", "queue").Rule("in a synctest bubble, directly on newRing/newFlowBuffer with 2-8 slots and the ring's uint32 counters pre-set just below wrap-around: 1-12 putters x 1-5 PutOne/PutMulti calls at generated virtual times, a writer loop and a reader loop that mirror pipe._backgroundWrite/_backgroundRead with generated pauses; oracle: every put dequeued exactly once, FIFO w.r.t. returned-before-started puts, reader order == writer order, each result reaches the putter of that command, queue empty afterwards, no bubble deadlock; non-trivial = more putters in flight than slots (a put parked on a full queue), counters wrapping, or a put arriving while the writer is parked in WaitForWrite")
	defer c.Flush()
	rapid.Check(t, func(rt *rapid.T) {
		plan := c02Plan{
			Queue:  rapid.SampledFrom(qtypes).Draw(rt, "queue"),
			Factor: rapid.IntRange(1, 3).Draw(rt, "factor"),
		}
		if plan.Queue == "ring" && rapid.Bool().Draw(rt, "wrap") {
			plan.WrapBefore = rapid.IntRange(1, 6).Draw(rt, "wrapBefore")
		}
		np := rapid.IntRange(1, 12).Draw(rt, "putters")
		total := 0
		for i := 0; i < np; i++ {
			n := rapid.IntRange(1, 5).Draw(rt, "puts")
			ps := make([]c02Put, n)
			for k := range ps {
				ps[k] = c02Put{At: rapid.IntRange(0, 30).Draw(rt, "at"), Gap: rapid.IntRange(0, 10).Draw(rt, "gap")}
				if rapid.IntRange(0, 3).Draw(rt, "isMulti") == 0 {
					ps[k].Multi = rapid.IntRange(1, 3).Draw(rt, "multi")
				}
			}
			plan.Putters = append(plan.Putters, ps)
			total += n
		}
		plan.WPause = rapid.SliceOfN(rapid.IntRange(0, 8), 0, 4).Draw(rt, "wpause")
		plan.RPause = rapid.SliceOfN(rapid.IntRange(0, 8), 0, 4).Draw(rt, "rpause")
		if rapid.Bool().Draw(rt, "autoFlush") {
			plan.AutoFlush = rapid.SliceOfN(rapid.IntRange(1, 4), 1, 3).Draw(rt, "autoFlushAfter")
		}
		if rapid.IntRange(0, 3).Draw(rt, "fullRingPartialFlush") == 0 {
			// directed shape: a tiny ring kept full while a batch is flushed only in part
			plan.Factor = 1
			plan.AutoFlush = rapid.SampledFrom([][]int{{2, 3}, {1, 3}, {2, 4}, {1, 2, 3}, {2, 5}}).Draw(rt, "autoFlushShape")
			plan.WPause, plan.RPause = nil, nil
			for i := range plan.Putters {
				for k := range plan.Putters[i] {
					plan.Putters[i][k].At = rapid.IntRange(0, 1).Draw(rt, "atNow")
					plan.Putters[i][k].Gap = 0
				}
			}
			plan.Putters[0][0].Multi = rapid.IntRange(2, 3).Draw(rt, "bigBatch")
		}
		saveLastCase("c02", []byte(fmt.Sprintf("%+v", plan)))

		res, events, wo, ro, after, writerParked, maxInflight := c02run(t, plan)
		if res.Frozen {
			// a goroutine blocked on the slot mutex is invisible to the bubble's deadlock detector; when nothing
			// in the bubble is waiting for virtual time (no sleeper) nobody can ever release it: a real deadlock
			// The writer is blocked on a slot mutex inside NextWriteCmd while the reader, which holds that slot,
			// waits for replies that only the writer can put on the wire: nobody can release anybody.
			saveLastCase("c02-frozen", []byte(res.Goroutines))
			writerStuck, readerWaits := false, false
			for _, g := range strings.Split(res.Goroutines, "\n\n") {
				if strings.Contains(g, "(*ring).NextWriteCmd") && strings.Contains(g, "Mutex") {
					writerStuck = true
				}
				if strings.Contains(g, "c02run.func1.2") && strings.Contains(g, "[chan receive") {
					readerWaits = true
				}
			}
			if writerStuck && readerWaits {
				c.Fail(rt, "C02.no-deadlock", "the writer waits in NextWriteCmd for the slot the reader holds, with the reader's replies still unflushed:\n"+res.Goroutines, plan)
			}
			c.Inconclusive("virtual-clock-freeze")
			return
		}
		slots := 2 << (plan.Factor - 1)
		parkedFull := maxInflight > int64(slots)
		for _, e := range events {
			parkedFull = parkedFull || e.ParkedOnFull
		}
		wrapped := plan.WrapBefore > 0 && total >= plan.WrapBefore
		nt := parkedFull || wrapped || writerParked
		var cls []string
		for k, v := range map[string]bool{"parked-on-full": parkedFull, "wrapped": wrapped, "writer-parked": writerParked} {
			if v {
				cls = append(cls, k)
			}
		}
		cls = append(cls, "queue="+plan.Queue)
		c.Eval(nt, fmt.Sprintf("%+v", plan), cls...)
		c.Sample(nt, func() any { return plan })
		_ = slots
		if res.Deadlock || res.Leak {
			pend := 0
			for _, e := range events {
				if !e.Done {
					pend++
				}
			}
			c.Fail(rt, "C02.no-deadlock", fmt.Sprintf("%s with %d puts still pending (%s, %d slots); writer saw %v", res, pend, plan.Queue, slots, wo), plan)
		}
		if res.Panic != nil {
			c.Fail(rt, "C02.no-panic", res.String(), plan)
		}
		// exactly once + reader order == writer order
		seen := map[string]int{}
		for _, ids := range wo {
			seen[ids]++
		}
		for _, e := range events {
			want := strconv.Itoa(e.ID)
			if m := plan.Putters[e.Putter]; true {
				_ = m
			}
			// the writer logs "id" for PutOne and "id,id,..." for PutMulti
			n := seen[want]
			for k := 1; k <= 3; k++ {
				key := ""
				for j := 0; j < k; j++ {
					key += want + ","
				}
				n += seen[key]
			}
			if n != 1 {
				c.Fail(rt, "C02.exactly-once", fmt.Sprintf("command %d was handed to the writer %d times (writer order %v)", e.ID, n, wo), plan)
			}
			if !e.Done {
				c.Fail(rt, "C02.completes", fmt.Sprintf("put %d never received its result", e.ID), plan)
			}
			got := e.Got
			if len(got) > 0 && got[len(got)-1] == ',' {
				got = got[:len(want)]
			}
			if got != want {
				c.Fail(rt, "C02.own-result", fmt.Sprintf("put %d received the result of %q", e.ID, e.Got), plan)
			}
		}
		if len(wo) != len(ro) {
			c.Fail(rt, "C02.reader-follows-writer", fmt.Sprintf("writer dequeued %v, reader %v", wo, ro), plan)
		}
		for i := range wo {
			if wo[i] != ro[i] {
				c.Fail(rt, "C02.reader-follows-writer", fmt.Sprintf("position %d: writer dequeued %q, reader got %q", i, wo[i], ro[i]), plan)
			}
		}
		// FIFO: A returned before B started => A dequeued before B
		pos := map[int]int{}
		for i, ids := range wo {
			var first string
			for _, ch := range ids {
				if ch == ',' {
					break
				}
				first += string(ch)
			}
			if n, err := strconv.Atoi(first); err == nil {
				pos[n] = i
			}
		}
		// The flow buffer is a FIFO channel. The ring hands a freed slot to whichever waiter gets the
		// node mutex first, so caller-order FIFO only holds while nobody has to wait for a slot.
		fifoApplies := plan.Queue == "flowbuffer" || maxInflight <= int64(slots)
		for _, a := range events {
			for _, b := range events {
				if !fifoApplies {
					break
				}
				if a.ReturnSeq != 0 && b.StartSeq != 0 && a.ReturnSeq < b.StartSeq && pos[a.ID] > pos[b.ID] {
					c.Fail(rt, "C02.fifo", fmt.Sprintf("put %d returned before put %d started but was written after it (writer order %v)", a.ID, b.ID, wo), plan)
				}
			}
		}
		if after[0] || after[1] {
			c.Fail(rt, "C02.empty-after", fmt.Sprintf("after the last result the queue still yields an entry (write side %v, result side %v)", after[0], after[1]), plan)
		}
	})
}
