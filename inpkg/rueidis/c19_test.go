package rueidis

import (
	"bufio"
	"bytes"
	"encoding/json"
	"fmt"
	"math"
	"os"
	"sort"
	"strconv"
	"strings"
	"testing"

	"pgregory.net/rapid"
	"verifkit/resp"
	"verifkit/stat"
)

// ---------------------------------------------------------------------------------------
// C19 (topology parsing sentence): "Topology parsing maps every listed slot range to its
// group's primary, skips unhealthy or endpoint-less nodes, and never crashes on malformed
// entries."
//
// Address resolution rules asserted here (Redis documentation of CLUSTER SLOTS / CLUSTER
// SHARDS, and the comment of parseSlots/parseShards "defaultAddr is needed in case the node
// does not know its own IP"):
//   - preferred endpoint NULL (CLUSTER SLOTS, unknown-endpoint) or "" => the host the reply
//     came from (host part of the default address) with the node's own port;
//   - preferred endpoint "?" => unknown node, not usable (skipped);
//   - anything else is the host; IPv6 hosts are bracketed in host:port form;
//   - CLUSTER SHARDS lists "port" and "tls-port": a client configured for TLS uses tls-port
//     when the node announces one, otherwise port; CLUSTER SLOTS already carries the port
//     matching the connection, so it is taken as is;
//   - CLUSTER SHARDS nodes whose health is not "online" are skipped; a shard whose primary is
//     skipped contributes nothing.
// ---------------------------------------------------------------------------------------

type c19Node struct {
	ID       string `json:"id"`
	IP       string `json:"ip"`
	Hostname string `json:"hostname,omitempty"`
	EpKind   string `json:"ep"`             // ip | hostname | unknown | empty | ?
	Port     int64  `json:"port,omitempty"` // 0 = not announced (TLS-only node)
	TLSPort  int64  `json:"tlsport,omitempty"`
	Health   string `json:"health"` // online | loading | fail
}

type c19Shard struct {
	Nodes   []c19Node  `json:"nodes"` // Nodes[0] is the primary
	Ranges  [][2]int64 `json:"ranges"`
	PrimPos int        `json:"primpos"` // position of the primary in the CLUSTER SHARDS node list
}

type c19Topo struct {
	Fallback string     `json:"fallback"`
	TLS      bool       `json:"tls"`
	Pref     string     `json:"pref"` // cluster-preferred-endpoint-type of the answering node
	Shards   []c19Shard `json:"shards"`
}

type c19Group struct {
	Nodes []string   `json:"nodes"`
	Slots [][2]int64 `json:"slots"`
}

var c19Fallbacks = []string{"127.0.0.1:6379", "10.1.2.3:7000", "redis.example.com:6380", "[::1]:6379", "[2001:db8::10]:7005", "lb.internal:443"}

func c19FallbackHost(addr string) string {
	if strings.HasPrefix(addr, "[") {
		return addr[1:strings.IndexByte(addr, ']')]
	}
	return addr[:strings.LastIndexByte(addr, ':')]
}

func c19Join(host string, port string) string {
	if strings.Contains(host, ":") {
		return "[" + host + "]:" + port
	}
	return host + ":" + port
}

func (n c19Node) effPort(tls bool) int64 {
	if tls && n.TLSPort > 0 {
		return n.TLSPort
	}
	return n.Port
}

// addr is the address the model predicts for the node ("" = not usable).
func (n c19Node) addr(tp c19Topo) string {
	var host string
	switch n.EpKind {
	case "ip":
		host = n.IP
	case "hostname":
		host = n.Hostname
	case "unknown", "empty":
		host = c19FallbackHost(tp.Fallback)
	default:
		return ""
	}
	return c19Join(host, strconv.FormatInt(n.effPort(tp.TLS), 10))
}

// ---- generators

func c19GenNode(t *rapid.T, idx int, tp c19Topo, port, tlsPort int64, primary bool) c19Node {
	n := c19Node{ID: fmt.Sprintf("%040x", idx+1), Port: port}
	if rapid.IntRange(0, 3).Draw(t, "ipv6") == 0 {
		n.IP = fmt.Sprintf("2001:db8::%x", idx+1)
	} else {
		n.IP = fmt.Sprintf("10.0.%d.%d", idx/200, idx%200+1)
	}
	if rapid.Bool().Draw(t, "hasHostname") {
		n.Hostname = fmt.Sprintf("node-%d.cluster.example.com", idx)
	}
	odd := rapid.IntRange(0, 5).Draw(t, "oddEndpoint") == 0
	switch tp.Pref {
	case "ip":
		n.EpKind = "ip"
		if odd { // the node does not know its own IP yet
			n.EpKind, n.IP = "empty", ""
		}
	case "hostname":
		n.EpKind = "hostname"
		if odd { // hostnames preferred but none announced
			n.EpKind, n.Hostname = "?", ""
		} else if n.Hostname == "" {
			n.Hostname = fmt.Sprintf("node-%d.cluster.example.com", idx)
		}
	default:
		n.EpKind = "unknown"
	}
	if tp.TLS {
		switch rapid.IntRange(0, 2).Draw(t, "tlsPorts") {
		case 0:
			n.TLSPort = tlsPort
		case 1: // TLS-only node
			n.TLSPort, n.Port = tlsPort, 0
		}
	} else if rapid.Bool().Draw(t, "alsoTLSPort") {
		n.TLSPort = tlsPort
	}
	hs := []string{"online", "online", "online", "online", "loading", "fail"}
	if primary {
		hs = []string{"online", "online", "online", "online", "online", "fail"}
	}
	n.Health = rapid.SampledFrom(hs).Draw(t, "health")
	return n
}

func c19GenTopo(t *rapid.T) (tp c19Topo, rangeMode string) {
	tp.Fallback = rapid.SampledFrom(c19Fallbacks).Draw(t, "fallback")
	tp.TLS = rapid.Bool().Draw(t, "tls")
	tp.Pref = rapid.SampledFrom([]string{"ip", "ip", "hostname", "unknown"}).Draw(t, "preferredEndpointType")
	nsh := rapid.IntRange(1, 6).Draw(t, "shards")
	reps := make([]int, nsh)
	cnts := make([]int, nsh)
	total, nr := 0, 0
	for i := range reps {
		reps[i] = rapid.IntRange(0, 3).Draw(t, "replicas")
		cnts[i] = rapid.IntRange(0, 3).Draw(t, "ranges")
		total += 1 + reps[i]
		nr += cnts[i]
	}
	ports := rapid.SliceOfNDistinct(rapid.Int64Range(20000, 60000), 2*total, 2*total, rapid.ID[int64]).Draw(t, "ports")
	idx := 0
	for i := 0; i < nsh; i++ {
		sh := c19Shard{}
		for j := 0; j <= reps[i]; j++ {
			sh.Nodes = append(sh.Nodes, c19GenNode(t, idx, tp, ports[2*idx], ports[2*idx+1], j == 0))
			idx++
		}
		sh.PrimPos = rapid.IntRange(0, reps[i]).Draw(t, "primaryPos")
		tp.Shards = append(tp.Shards, sh)
	}
	// disjoint slot ranges
	var ranges [][2]int64
	rangeMode = "none"
	if nr > 0 {
		rangeMode = rapid.SampledFrom([]string{"gaps", "gaps", "full"}).Draw(t, "rangeMode")
		if rangeMode == "full" {
			cuts := rapid.SliceOfNDistinct(rapid.Int64Range(1, 16383), nr-1, nr-1, rapid.ID[int64]).Draw(t, "cuts")
			sort.Slice(cuts, func(a, b int) bool { return cuts[a] < cuts[b] })
			start := int64(0)
			for _, c := range cuts {
				ranges = append(ranges, [2]int64{start, c - 1})
				start = c
			}
			ranges = append(ranges, [2]int64{start, 16383})
		} else {
			pts := rapid.SliceOfNDistinct(rapid.Int64Range(0, 16383), 2*nr, 2*nr, rapid.ID[int64]).Draw(t, "bounds")
			sort.Slice(pts, func(a, b int) bool { return pts[a] < pts[b] })
			for k := 0; k < nr; k++ {
				r := [2]int64{pts[2*k], pts[2*k+1]}
				if rapid.IntRange(0, 3).Draw(t, "singleSlot") == 0 {
					r[1] = r[0]
				}
				ranges = append(ranges, r)
			}
		}
		order := make([]int, nr)
		for k := range order {
			order[k] = k
		}
		order = rapid.Permutation(order).Draw(t, "rangeOwner")
		k := 0
		for i := range tp.Shards {
			for j := 0; j < cnts[i]; j++ {
				tp.Shards[i].Ranges = append(tp.Shards[i].Ranges, ranges[order[k]])
				k++
			}
			rs := tp.Shards[i].Ranges
			sort.Slice(rs, func(a, b int) bool { return rs[a][0] < rs[b][0] })
		}
	}
	return tp, rangeMode
}

// ---- encoders (what a Redis / Valkey node would answer for the model)

func c19Null(r3 bool) resp.Value {
	if r3 {
		return resp.Null()
	}
	return resp.Value{T: '_', Null2: '$'}
}

func c19Dict(r3 bool, kv []resp.Value) resp.Value {
	if r3 {
		return resp.Map(kv...)
	}
	return resp.Arr(kv...)
}

// CLUSTER SLOTS: [start, end, [endpoint, port, id?, metadata?], replicas...] per range, ordered
// by start slot. The server only lists replicas that are neither failing nor still loading, and
// it already reports the port that matches the connection (TLS or plain).
func c19EncodeSlots(tp c19Topo, r3 bool, form int) (v resp.Value, owner []int) {
	node := func(n c19Node) resp.Value {
		var ep resp.Value
		switch n.EpKind {
		case "ip":
			ep = resp.Bulk(n.IP)
		case "hostname":
			ep = resp.Bulk(n.Hostname)
		case "unknown":
			ep = c19Null(r3)
		case "empty":
			ep = resp.Bulk("")
		default:
			ep = resp.Bulk("?")
		}
		a := []resp.Value{ep, resp.Int(n.effPort(tp.TLS))}
		if form >= 1 {
			a = append(a, resp.Bulk(n.ID))
		}
		if form >= 2 {
			var md []resp.Value
			if n.EpKind != "ip" && n.IP != "" {
				md = append(md, resp.Bulk("ip"), resp.Bulk(n.IP))
			}
			if n.EpKind != "hostname" && n.Hostname != "" {
				md = append(md, resp.Bulk("hostname"), resp.Bulk(n.Hostname))
			}
			a = append(a, c19Dict(r3, md))
		}
		return resp.Arr(a...)
	}
	type ent struct {
		sh int
		r  [2]int64
	}
	var es []ent
	for i, sh := range tp.Shards {
		for _, r := range sh.Ranges {
			es = append(es, ent{i, r})
		}
	}
	sort.Slice(es, func(a, b int) bool { return es[a].r[0] < es[b].r[0] })
	top := []resp.Value{}
	for _, e := range es {
		sh := tp.Shards[e.sh]
		a := []resp.Value{resp.Int(e.r[0]), resp.Int(e.r[1]), node(sh.Nodes[0])}
		for _, n := range sh.Nodes[1:] {
			if n.Health == "online" {
				a = append(a, node(n))
			}
		}
		top = append(top, resp.Arr(a...))
		owner = append(owner, e.sh)
	}
	return resp.Arr(top...), owner
}

// CLUSTER SHARDS: one dictionary per shard with "slots" (flat start/end list) and "nodes"
// (dictionaries); RESP3 maps or RESP2 flat arrays; every node of the shard is listed with its health.
func c19EncodeShards(t *rapid.T, tp c19Topo, r3 bool) (v resp.Value, owner []int) {
	permute := rapid.Bool().Draw(t, "permuteKeys")
	extra := rapid.Bool().Draw(t, "extraFields")
	dict := func(pairs [][2]resp.Value) resp.Value {
		if permute && len(pairs) > 1 {
			pairs = rapid.Permutation(pairs).Draw(t, "keyOrder")
		}
		var kv []resp.Value
		for _, p := range pairs {
			kv = append(kv, p[0], p[1])
		}
		return c19Dict(r3, kv)
	}
	node := func(n c19Node, primary bool) resp.Value {
		ps := [][2]resp.Value{{resp.Bulk("id"), resp.Bulk(n.ID)}}
		if n.Port > 0 {
			ps = append(ps, [2]resp.Value{resp.Bulk("port"), resp.Int(n.Port)})
		}
		if n.TLSPort > 0 {
			ps = append(ps, [2]resp.Value{resp.Bulk("tls-port"), resp.Int(n.TLSPort)})
		}
		ep := ""
		switch n.EpKind {
		case "ip":
			ep = n.IP
		case "hostname":
			ep = n.Hostname
		case "?":
			ep = "?"
		}
		ps = append(ps, [2]resp.Value{resp.Bulk("ip"), resp.Bulk(n.IP)}, [2]resp.Value{resp.Bulk("endpoint"), resp.Bulk(ep)})
		if n.Hostname != "" {
			ps = append(ps, [2]resp.Value{resp.Bulk("hostname"), resp.Bulk(n.Hostname)})
		}
		role, off := "replica", int64(72156)
		if primary {
			role = "master"
		}
		if n.Health == "loading" {
			off = 0
		}
		ps = append(ps, [2]resp.Value{resp.Bulk("role"), resp.Bulk(role)},
			[2]resp.Value{resp.Bulk("replication-offset"), resp.Int(off)},
			[2]resp.Value{resp.Bulk("health"), resp.Bulk(n.Health)})
		if extra {
			ps = append(ps, [2]resp.Value{resp.Bulk("availability-zone"), resp.Bulk("az-1")})
		}
		return dict(ps)
	}
	top := []resp.Value{}
	for i, sh := range tp.Shards {
		slots := []resp.Value{}
		for _, r := range sh.Ranges {
			slots = append(slots, resp.Int(r[0]), resp.Int(r[1]))
		}
		nodes := []resp.Value{}
		for j, n := range sh.Nodes[1:] {
			if j == sh.PrimPos {
				nodes = append(nodes, node(sh.Nodes[0], true))
			}
			nodes = append(nodes, node(n, false))
		}
		if sh.PrimPos >= len(sh.Nodes)-1 {
			nodes = append(nodes, node(sh.Nodes[0], true))
		}
		ps := [][2]resp.Value{{resp.Bulk("slots"), resp.Arr(slots...)}, {resp.Bulk("nodes"), resp.Arr(nodes...)}}
		if extra {
			ps = append(ps, [2]resp.Value{resp.Bulk("shard-id"), resp.Bulk(fmt.Sprintf("%040x", 0xabc0+i))})
		}
		top = append(top, dict(ps))
		owner = append(owner, i)
	}
	return resp.Arr(top...), owner
}

// ---- expectations

type c19Exp struct {
	Shard    int
	Addr     string // "" = no usable primary: the shard contributes nothing
	Reps     []string
	Slots    [][2]int64
	Optional bool // a shard without slot ranges may or may not appear
}

func c19Expect(tp c19Topo, kind string) (exp []c19Exp) {
	for i, sh := range tp.Shards {
		e := c19Exp{Shard: i, Slots: sh.Ranges, Optional: len(sh.Ranges) == 0}
		p := sh.Nodes[0]
		if kind == "slots" {
			if len(sh.Ranges) == 0 {
				continue // not part of a CLUSTER SLOTS reply at all
			}
			e.Addr = p.addr(tp) // CLUSTER SLOTS does not tell the health of the primary
			for _, n := range sh.Nodes[1:] {
				if a := n.addr(tp); n.Health == "online" && a != "" {
					e.Reps = append(e.Reps, a)
				}
			}
		} else {
			if p.Health == "online" {
				e.Addr = p.addr(tp)
			}
			for _, n := range sh.Nodes[1:] {
				if a := n.addr(tp); n.Health == "online" && a != "" {
					e.Reps = append(e.Reps, a)
				}
			}
		}
		exp = append(exp, e)
	}
	return exp
}

// ---- running the parsers

func c19Decode(v resp.Value) RedisMessage {
	m, err := readNextMessage(bufio.NewReader(bytes.NewReader(resp.Append(nil, v))))
	if err != nil {
		return valueToMsg(v)
	}
	return m
}

func c19Run(kind string, m RedisMessage, fallback string, tls bool) (got map[string]c19Group, p any) {
	var gs map[string]group
	p = catchPanic(func() {
		if kind == "slots" {
			gs = parseSlots(m, fallback)
		} else {
			gs = parseShards(m, fallback, tls)
		}
	})
	got = map[string]c19Group{}
	for k, g := range gs {
		cg := c19Group{Slots: append([][2]int64{}, g.slots...)}
		for _, n := range g.nodes {
			cg.Nodes = append(cg.Nodes, n.Addr)
		}
		got[k] = cg
	}
	return got, p
}

func c19SortedStr(a []string) []string {
	b := append([]string{}, a...)
	sort.Strings(b)
	return b
}

func c19SortedRanges(a [][2]int64) [][2]int64 {
	b := append([][2]int64{}, a...)
	sort.Slice(b, func(i, j int) bool {
		if b[i][0] != b[j][0] {
			return b[i][0] < b[j][0]
		}
		return b[i][1] < b[j][1]
	})
	return b
}

// what a (mutated) reply contains: strings (possible hosts) and numbers
type c19Content struct {
	strs map[string]bool
	nums map[int64]bool
}

func (cc *c19Content) walk(v resp.Value) {
	switch v.T {
	case ':', '#':
		cc.nums[v.I] = true
	case '*', '~', '%', '>':
		cc.nums[int64(len(v.A))] = true
	case '_':
	default:
		cc.strs[v.S] = true
		cc.nums[int64(len(v.S))] = true
		n, _ := strconv.ParseInt(v.S, 10, 64) // clamps on overflow like any strconv based reader
		cc.nums[n] = true
	}
	for _, e := range v.A {
		cc.walk(e)
	}
}

func (cc *c19Content) hasAddr(addr string) bool {
	for h := range cc.strs {
		if h == "" {
			continue
		}
		if p := c19Join(h, ""); strings.HasPrefix(addr, p) {
			if _, err := strconv.ParseInt(addr[len(p):], 10, 64); err == nil {
				return true
			}
		}
	}
	return false
}

type c19Case struct {
	Topo    c19Topo             `json:"topo"`
	Kind    string              `json:"kind"`
	Shape   string              `json:"shape"`
	Mutated []string            `json:"mutations,omitempty"`
	Reply   string              `json:"reply"`
	Got     map[string]c19Group `json:"got"`
}

// c19Check compares the parsed groups with the model. tainted = shards whose reply entries were
// mutated (nil for a well-formed reply); all = the whole reply was replaced.
func c19Check(c *stat.Collector, t stat.Fataler, cs c19Case, v resp.Value, exp []c19Exp, tainted map[int]bool, all bool) (exact, loose int) {
	got := cs.Got
	byAddr := map[string]c19Exp{}
	for _, e := range exp {
		if e.Addr != "" {
			byAddr[e.Addr] = e
		}
	}
	cc := &c19Content{strs: map[string]bool{c19FallbackHost(cs.Topo.Fallback): true}, nums: map[int64]bool{0: true}}
	cc.walk(v)
	keys := make([]string, 0, len(got))
	for k := range got {
		keys = append(keys, k)
	}
	sort.Strings(keys)
	for _, k := range keys {
		g := got[k]
		if len(g.Nodes) == 0 || g.Nodes[0] != k {
			c.Fail(t, "C19.primary-first", fmt.Sprintf("group %q does not start with its primary: nodes=%v", k, g.Nodes), cs)
		}
		e, ok := byAddr[k]
		if ok && !all && !tainted[e.Shard] {
			if a, b := c19SortedStr(g.Nodes[1:]), c19SortedStr(e.Reps); strings.Join(a, ",") != strings.Join(b, ",") {
				c.Fail(t, "C19.group-nodes", fmt.Sprintf("group %q (shard %d): replicas %v, model predicts %v (unhealthy / endpoint-less nodes must be skipped, usable ones kept)", k, e.Shard, a, b), cs)
			}
			if a, b := c19SortedRanges(g.Slots), c19SortedRanges(e.Slots); fmt.Sprint(a) != fmt.Sprint(b) {
				c.Fail(t, "C19.slot-ranges", fmt.Sprintf("group %q (shard %d): slot ranges %v, reply lists %v for this primary", k, e.Shard, a, b), cs)
			}
			exact++
			continue
		}
		loose++
		if !all && len(tainted) == 0 {
			c.Fail(t, "C19.unexpected-group", fmt.Sprintf("group %q with nodes %v slots %v is not predicted by the model (unusable primary, or wrong address resolution)", k, g.Nodes, g.Slots), cs)
		}
		// group built from mutated entries: everything in it must come from the reply
		for _, a := range g.Nodes {
			if !cc.hasAddr(a) {
				c.Fail(t, "C19.mutated-containment", fmt.Sprintf("group %q contains address %q whose host is neither in the reply nor the fallback host", k, a), cs)
			}
		}
		for _, r := range g.Slots {
			if !cc.nums[r[0]] || !cc.nums[r[1]] {
				c.Fail(t, "C19.mutated-containment", fmt.Sprintf("group %q contains slot range %v made of numbers that are not in the reply", k, r), cs)
			}
		}
	}
	for _, e := range exp {
		if all || tainted[e.Shard] || e.Addr == "" || e.Optional {
			continue
		}
		if _, ok := got[e.Addr]; !ok {
			c.Fail(t, "C19.slot-range-mapped", fmt.Sprintf("shard %d: slot ranges %v are listed for primary %q but no group has that address (groups: %v)", e.Shard, e.Slots, e.Addr, keys), cs)
		}
	}
	return exact, loose
}

// ---- mutations

var c19IntPalette = []int64{-1, 0, 1, 2, 16383, 16384, 65536, 70000, 1 << 31, 1 << 62, math.MinInt64, math.MaxInt64}
var c19StrPalette = []string{"", "x", "?", "6379", "-1", "99999999999999999999", "online", "master", "nan", "a:b", "replica", "fail"}

func c19MutNode(t *rapid.T, v resp.Value, depth int) (resp.Value, string) {
	agg := v.T == '*' || v.T == '%' || v.T == '~'
	if len(v.A) == 0 || depth > 5 || rapid.IntRange(0, 3).Draw(t, "mutHere") == 2 {
		kinds := []string{"null", "int", "emptyarr", "string", "emptymap", "perturb", "error"}
		if agg && len(v.A) > 0 {
			kinds = append(kinds, "drop", "truncate", "swap", "droppair", "extra", "drop", "swap", "droppair")
		}
		kind := rapid.SampledFrom(kinds).Draw(t, "mutKind")
		switch kind {
		case "null":
			return resp.Null(), kind
		case "int":
			return resp.Int(rapid.SampledFrom(c19IntPalette).Draw(t, "mutInt")), kind
		case "emptyarr":
			return resp.Arr(), kind
		case "emptymap":
			return resp.Map(), kind
		case "string":
			return resp.Bulk(rapid.SampledFrom(c19StrPalette).Draw(t, "mutStr")), kind
		case "error":
			return resp.Err("ERR unknown subcommand"), kind
		case "perturb":
			switch {
			case v.T == ':':
				switch rapid.IntRange(0, 3).Draw(t, "perturbInt") {
				case 0:
					return resp.Int(-v.I), kind
				case 1:
					return resp.Int(v.I + 1<<32), kind
				case 2:
					return resp.Bulk(strconv.FormatInt(v.I, 10)), kind // number sent as a string
				default:
					return resp.Double(strconv.FormatInt(v.I, 10)), kind
				}
			case agg:
				nv := v
				if v.T == '%' {
					nv.T = '*'
				} else if len(v.A)%2 == 0 {
					nv.T = '%'
				} else {
					nv.T = '~'
				}
				return nv, kind
			default:
				return resp.Simple(v.S + "x"), kind
			}
		case "drop":
			i := rapid.IntRange(0, len(v.A)-1).Draw(t, "mutDrop")
			v.A = append(append([]resp.Value{}, v.A[:i]...), v.A[i+1:]...)
		case "truncate":
			v.A = append([]resp.Value{}, v.A[:rapid.IntRange(0, len(v.A)-1).Draw(t, "mutTrunc")]...)
		case "swap":
			if len(v.A) >= 2 {
				i := rapid.IntRange(0, len(v.A)-2).Draw(t, "mutSwap")
				a := append([]resp.Value{}, v.A...)
				a[i], a[i+1] = a[i+1], a[i]
				v.A = a
			}
		case "droppair":
			if len(v.A) >= 2 {
				i := rapid.IntRange(0, len(v.A)/2-1).Draw(t, "mutPair") * 2
				v.A = append(append([]resp.Value{}, v.A[:i]...), v.A[i+2:]...)
			}
		case "extra":
			a := append([]resp.Value{}, v.A...)
			a = append(a, resp.Bulk("zz-unknown"), resp.Int(rapid.SampledFrom(c19IntPalette).Draw(t, "mutExtra")))
			v.A = a
		}
		return v, kind
	}
	i := rapid.IntRange(0, len(v.A)-1).Draw(t, "mutChild")
	a := append([]resp.Value{}, v.A...)
	var kind string
	a[i], kind = c19MutNode(t, a[i], depth+1)
	v.A = a
	return v, kind
}

// an odd number of children in a map can only be sent as a streamed map
func c19FixMaps(v resp.Value) resp.Value {
	if len(v.A) > 0 {
		a := make([]resp.Value, len(v.A))
		for i, e := range v.A {
			a[i] = c19FixMaps(e)
		}
		v.A = a
	}
	if v.T == '%' {
		v.Stream = len(v.A)%2 == 1
	}
	return v
}

// ---- deterministic corner replies

func c19Deterministic(t *testing.T, c *stat.Collector) {
	b, i, arr, mp := resp.Bulk, resp.Int, resp.Arr, resp.Map
	id := "07c37dfeb235213a872192d90877d0cd55635b91"
	shardNode := func(endpoint string, port, tlsPort int64, role, health string) resp.Value {
		return mp(b("id"), b(id), b("port"), i(port), b("tls-port"), i(tlsPort), b("ip"), b("10.0.0.1"), b("endpoint"), b(endpoint),
			b("role"), b(role), b("replication-offset"), i(100), b("health"), b(health))
	}
	shardNode2 := func(endpoint string, port int64, role, health string) resp.Value {
		return arr(b("id"), b(id), b("port"), i(port), b("ip"), b("10.0.0.1"), b("endpoint"), b(endpoint),
			b("role"), b(role), b("replication-offset"), i(100), b("health"), b(health))
	}
	g := func(slots [][2]int64, nodes ...string) c19Group { return c19Group{Nodes: nodes, Slots: slots} }
	full := [][2]int64{{0, 16383}}
	cases := []struct {
		name, kind, fallback string
		tls                  bool
		reply                resp.Value
		want                 map[string]c19Group
	}{
		{"slots-empty-array", "slots", "127.0.0.1:6379", false, arr(), map[string]c19Group{}},
		{"slots-null", "slots", "127.0.0.1:6379", false, resp.Null(), map[string]c19Group{}},
		{"shards-empty-array", "shards", "127.0.0.1:6379", false, arr(), map[string]c19Group{}},
		{"shards-null", "shards", "127.0.0.1:6379", true, resp.Null(), map[string]c19Group{}},
		{"slots-single-node-empty-ip", "slots", "127.0.0.1:6379", false, arr(arr(i(0), i(16383), arr(b(""), i(6379), b(id)))),
			map[string]c19Group{"127.0.0.1:6379": g(full, "127.0.0.1:6379")}},
		{"slots-single-node-null-endpoint-ipv6-fallback", "slots", "[::1]:7000", false,
			arr(arr(i(0), i(16383), arr(resp.Value{T: '_', Null2: '$'}, i(7001), b(id), arr()))),
			map[string]c19Group{"[::1]:7001": g(full, "[::1]:7001")}},
		{"slots-single-node-ipv6-endpoint", "slots", "127.0.0.1:6379", false, arr(arr(i(5), i(5), arr(b("2001:db8::1"), i(6379), b(id), mp(b("hostname"), b("h.example.com"))))),
			map[string]c19Group{"[2001:db8::1]:6379": g([][2]int64{{5, 5}}, "[2001:db8::1]:6379")}},
		{"slots-primary-unknown-node", "slots", "127.0.0.1:6379", false, arr(arr(i(0), i(16383), arr(b("?"), i(6379), b(id)), arr(b("10.0.0.2"), i(6380), b(id)))),
			map[string]c19Group{}},
		{"slots-replica-unknown-node", "slots", "127.0.0.1:6379", false, arr(arr(i(0), i(16383), arr(b("10.0.0.1"), i(6379), b(id)), arr(b("?"), i(6380), b(id)))),
			map[string]c19Group{"10.0.0.1:6379": g(full, "10.0.0.1:6379")}},
		{"slots-two-ranges-one-primary", "slots", "127.0.0.1:6379", false,
			arr(arr(i(0), i(100), arr(b("10.0.0.1"), i(6379)), arr(b("10.0.0.2"), i(6379))), arr(i(200), i(300), arr(b("10.0.0.1"), i(6379)), arr(b("10.0.0.2"), i(6379)))),
			map[string]c19Group{"10.0.0.1:6379": g([][2]int64{{0, 100}, {200, 300}}, "10.0.0.1:6379", "10.0.0.2:6379")}},
		{"shards-single-node-plain", "shards", "127.0.0.1:6379", false, arr(mp(b("slots"), arr(i(0), i(16383)), b("nodes"), arr(shardNode("10.0.0.1", 6379, 6380, "master", "online")))),
			map[string]c19Group{"10.0.0.1:6379": g(full, "10.0.0.1:6379")}},
		{"shards-single-node-tls", "shards", "127.0.0.1:6379", true, arr(mp(b("slots"), arr(i(0), i(16383)), b("nodes"), arr(shardNode("10.0.0.1", 6379, 6380, "master", "online")))),
			map[string]c19Group{"10.0.0.1:6380": g(full, "10.0.0.1:6380")}},
		{"shards-single-node-resp2-empty-endpoint", "shards", "redis.example.com:7000", true,
			arr(arr(b("slots"), arr(i(0), i(16383)), b("nodes"), arr(shardNode2("", 7001, "master", "online")))),
			map[string]c19Group{"redis.example.com:7001": g(full, "redis.example.com:7001")}},
		{"shards-all-unhealthy", "shards", "127.0.0.1:6379", false,
			arr(mp(b("slots"), arr(i(0), i(16383)), b("nodes"), arr(shardNode("10.0.0.1", 6379, 0, "master", "fail"), shardNode("10.0.0.2", 6379, 0, "replica", "loading"), shardNode("10.0.0.3", 6379, 0, "replica", "fail")))),
			map[string]c19Group{}},
		{"shards-primary-failed-replica-online", "shards", "127.0.0.1:6379", false,
			arr(mp(b("slots"), arr(i(0), i(16383)), b("nodes"), arr(shardNode("10.0.0.2", 6379, 0, "replica", "online"), shardNode("10.0.0.1", 6379, 0, "master", "fail")))),
			map[string]c19Group{}},
		{"shards-primary-unknown-node", "shards", "127.0.0.1:6379", false,
			arr(mp(b("slots"), arr(i(0), i(16383)), b("nodes"), arr(shardNode("?", 6379, 0, "master", "online"), shardNode("10.0.0.2", 6379, 0, "replica", "online")))),
			map[string]c19Group{}},
		{"shards-primary-listed-last", "shards", "127.0.0.1:6379", false,
			arr(mp(b("slots"), arr(i(0), i(10), i(20), i(20)), b("nodes"), arr(shardNode("10.0.0.2", 6379, 0, "replica", "online"), shardNode("10.0.0.3", 6379, 0, "replica", "loading"), shardNode("10.0.0.1", 6379, 0, "master", "online")))),
			map[string]c19Group{"10.0.0.1:6379": g([][2]int64{{0, 10}, {20, 20}}, "10.0.0.1:6379", "10.0.0.2:6379")}},
	}
	for _, tc := range cases {
		for _, via := range []string{"decoder", "direct"} {
			m := valueToMsg(tc.reply)
			if via == "decoder" {
				m = c19Decode(tc.reply)
			}
			got, p := c19Run(tc.kind, m, tc.fallback, tc.tls)
			c.Eval(false, "det:"+tc.name, "det")
			cs := map[string]any{"name": tc.name, "via": via, "reply": q(resp.Append(nil, tc.reply)), "got": got}
			if p != nil {
				c.Fail(t, "C19.no-panic", fmt.Sprintf("corner reply %s: parser panicked: %v", tc.name, p), cs)
			}
			gj, _ := json.Marshal(got)
			wj, _ := json.Marshal(tc.want)
			if string(gj) != string(wj) {
				c.Fail(t, "C19.corner-reply", fmt.Sprintf("corner reply %s: parsed %s, want %s", tc.name, gj, wj), cs)
			}
		}
	}
}

func TestVerif_C19_TopologyParsers(t *testing.T) {
	c := stat.For("C19", "parsers").Rule("a model topology is generated (1-6 shards, primary + 0-3 replicas, endpoint kind per node: ip / IPv6 / hostname / unknown (NULL or \"\") / empty / \"?\", port and optional tls-port, health online|loading|fail, 0-3 disjoint slot ranges per shard with gaps, single slots or full coverage, fallback address, tls flag) and encoded as CLUSTER SLOTS (RESP2/RESP3, node arrays with 2, 3 or 4 elements, metadata array/map) and CLUSTER SHARDS (RESP2 flat arrays / RESP3 maps, permuted keys, extra fields) replies, decoded by the real decoder and parsed by parseSlots/parseShards; oracle: groups equal the model (primary first, usable replicas, exactly the listed ranges, unusable primary => nothing); then one shape gets 1-3 mutations (drop/retype/truncate/swap/odd maps/hostile numbers/missing or extra fields): no panic, shards whose entries were not touched still parse exactly, other groups only contain hosts and numbers present in the reply; non-trivial = (>=2 shards, a replica and a node skipped for health or endpoint) or an effectively mutated reply")
	c.Assume("health missing/empty is only produced by mutation (a server always sends it), so no exact expectation is attached to it",
		"a node that announces only tls-port is generated only when the client is configured for TLS")
	defer c.Flush()
	if os.Getenv("VERIF_C19_SKIP_DET") == "" { // sensitivity runs can switch the hand-written replies off to see the generated part alone
		c19Deterministic(t, c)
	}
	rapid.Check(t, func(t *rapid.T) {
		tp, rangeMode := c19GenTopo(t)
		form := rapid.IntRange(0, 2).Draw(t, "slotsNodeForm")
		type shaped struct {
			kind, shape string
			v           resp.Value
			owner       []int
		}
		var shapes []shaped
		for _, r3 := range []bool{false, true} {
			name := "resp2"
			if r3 {
				name = "resp3"
			}
			v, owner := c19EncodeSlots(tp, r3, form)
			shapes = append(shapes, shaped{"slots", fmt.Sprintf("slots-%s-form%d", name, form), v, owner})
			v, owner = c19EncodeShards(t, tp, r3)
			shapes = append(shapes, shaped{"shards", "shards-" + name, v, owner})
		}
		// classes of the model
		classes := []string{fmt.Sprintf("shards=%d", len(tp.Shards)), "ranges=" + rangeMode, "pref=" + tp.Pref}
		anyReplica, skipHealth, skipEndpoint, primUnusable := false, false, false, false
		seen := map[string]bool{}
		add := func(s string) {
			if !seen[s] {
				seen[s] = true
				classes = append(classes, s)
			}
		}
		if tp.TLS {
			add("tls")
		}
		if strings.HasPrefix(tp.Fallback, "[") {
			add("fallback=ipv6")
		}
		for _, sh := range tp.Shards {
			if len(sh.Nodes) > 1 {
				anyReplica = true
			}
			if len(sh.Ranges) == 0 {
				add("shard-without-slots")
			}
			if len(sh.Ranges) > 1 {
				add("shard-multi-range")
			}
			if sh.PrimPos > 0 {
				add("primary-not-listed-first")
			}
			for _, r := range sh.Ranges {
				if r[0] == r[1] {
					add("single-slot-range")
				}
				if r == [2]int64{0, 16383} {
					add("whole-range")
				}
			}
			for j, n := range sh.Nodes {
				if n.Health != "online" {
					skipHealth = true
					add("skip=health-" + n.Health)
				}
				if n.EpKind == "?" {
					skipEndpoint = true
					add("skip=endpoint?")
				}
				if j == 0 && (n.Health != "online" || n.EpKind == "?") {
					primUnusable = true
				}
				switch {
				case n.EpKind == "unknown" || n.EpKind == "empty":
					add("endpoint=fallback-host")
				case n.EpKind == "ip" && strings.Contains(n.IP, ":"):
					add("endpoint=ipv6")
				case n.EpKind == "hostname":
					add("endpoint=hostname")
				}
				if n.Port == 0 {
					add("tls-only-node")
				} else if tp.TLS && n.TLSPort > 0 {
					add("tls-port-used")
				} else if tp.TLS {
					add("tls-without-tls-port")
				}
			}
		}
		if primUnusable {
			add("primary-unusable")
		}
		ntModel := len(tp.Shards) >= 2 && anyReplica && (skipHealth || skipEndpoint)
		if ntModel {
			add("nontrivial-model")
		}

		// (1) well-formed replies: exact comparison with the model
		for _, s := range shapes {
			enc := resp.Append(nil, s.v)
			got, p := c19Run(s.kind, c19Decode(s.v), tp.Fallback, tp.TLS)
			cs := c19Case{Topo: tp, Kind: s.kind, Shape: s.shape, Reply: q(enc), Got: got}
			if p != nil {
				c.Fail(t, "C19.no-panic", fmt.Sprintf("%s panicked on a well-formed reply: %v", s.kind, p), cs)
			}
			c19Check(c, t, cs, s.v, c19Expect(tp, s.kind), nil, false)
		}

		// (2) mutated reply of one shape
		s := shapes[rapid.IntRange(0, len(shapes)-1).Draw(t, "mutShape")]
		nmut := rapid.IntRange(0, 3).Draw(t, "mutations")
		v, owner := s.v, append([]int{}, s.owner...)
		tainted := map[int]bool{}
		all := false
		var kinds []string
		for k := 0; k < nmut; k++ {
			before := resp.Append(nil, c19FixMaps(v))
			var kind string
			switch {
			case all || v.T != '*' || len(v.A) == 0 || rapid.IntRange(0, 11).Draw(t, "mutWhole") == 5:
				v, kind = c19MutNode(t, v, 99) // the reply itself is dropped/retyped/truncated
				kind = "whole-" + kind
				all = true
			case rapid.IntRange(0, 7).Draw(t, "mutDropEntry") == 3:
				i := rapid.IntRange(0, len(v.A)-1).Draw(t, "mutEntry")
				tainted[owner[i]] = true
				v.A = append(append([]resp.Value{}, v.A[:i]...), v.A[i+1:]...)
				owner = append(append([]int{}, owner[:i]...), owner[i+1:]...)
				kind = "entry-dropped"
			default:
				i := rapid.IntRange(0, len(v.A)-1).Draw(t, "mutEntry")
				tainted[owner[i]] = true
				a := append([]resp.Value{}, v.A...)
				a[i], kind = c19MutNode(t, a[i], 0)
				v.A = a
			}
			if !bytes.Equal(before, resp.Append(nil, c19FixMaps(v))) {
				kinds = append(kinds, kind)
			}
		}
		mutated := len(kinds) > 0
		if mutated {
			v = c19FixMaps(v)
			enc := resp.Append(nil, v)
			saveLastCase("c19", enc)
			m := c19Decode(v)
			if rapid.IntRange(0, 4).Draw(t, "direct") == 0 {
				m = valueToMsg(v)
			}
			got, p := c19Run(s.kind, m, tp.Fallback, tp.TLS)
			cs := c19Case{Topo: tp, Kind: s.kind, Shape: s.shape, Mutated: kinds, Reply: q(enc), Got: got}
			if p != nil && !c.Known("C19.panic."+s.kind) {
				c.Fail(t, "C19.no-panic", fmt.Sprintf("%s panicked on a malformed reply (%v): %v", s.kind, kinds, p), cs)
			}
			if p == nil {
				exact, loose := c19Check(c, t, cs, v, c19Expect(tp, s.kind), tainted, all)
				if exact > 0 {
					add("mutated:untouched-shards-compared-exactly")
				}
				if loose > 0 {
					add("mutated:group-from-mutated-entry-returned")
				}
				if len(got) == 0 {
					add("mutated:no-group-returned")
				}
			}
			add("mutated-" + s.kind)
			for _, k := range kinds {
				add("mut=" + k)
			}
			if all {
				add("mut-whole-reply")
			}
		}
		nt := ntModel || mutated
		tj, _ := json.Marshal(tp)
		key := string(tj)
		if mutated {
			key += s.shape + string(resp.Append(nil, v))
		}
		c.Eval(nt, key, classes...)
		c.Sample(nt, func() any {
			out := map[string]any{"topo": tp, "slots_reply": q(resp.Append(nil, shapes[0].v)), "shards_reply_resp3": q(resp.Append(nil, shapes[3].v))}
			if mutated {
				out["mutated_shape"] = s.shape
				out["mutations"] = kinds
				out["mutated_reply"] = q(resp.Append(nil, v))
			}
			return out
		})
	})
}
