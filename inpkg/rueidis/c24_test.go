package rueidis

import (
	"context"
	"errors"
	"fmt"
	"runtime"
	"sync"
	"sync/atomic"
	"testing"
	"time"

	"pgregory.net/rapid"
	"verifkit/bubble"
	"verifkit/stat"
)

// fakeWire is a counting stand-in for a connection; only the methods the pool calls exist.
type fakeWire struct {
	wire // nil: any other method would panic, the pool must not call it
	id      int
	err     atomic.Pointer[error]
	closed  atomic.Int32
	expired bool // StopTimer reports the lifetime timer already fired
	w       *poolWorld
}

func (f *fakeWire) Error() error {
	if e := f.err.Load(); e != nil {
		return *e
	}
	return nil
}
func (f *fakeWire) Close() {
	if f.closed.Add(1) == 1 {
		f.w.closedN.Add(1)
	}
	e := error(ErrClosing)
	f.err.CompareAndSwap(nil, &e)
}
func (f *fakeWire) StopTimer() bool  { return !f.expired }
func (f *fakeWire) ResetTimer() bool { return true }

type poolWorld struct {
	created, closedN atomic.Int64
	maxLive          atomic.Int64
}

var errC24Cause = errors.New("custom cause")

type poolOp struct {
	At      int    `json:"at_ms"`
	Ctx     string `json:"ctx"` // bg | deadline | cancel | done
	CtxAt   int    `json:"ctx_ms"`  // deadline / cancel delay after the call starts
	Cause   bool   `json:"cause,omitempty"` // the context carries a custom cause (WithTimeoutCause / WithCancelCause)
	Hold    int    `json:"hold_ms"` // how long a successful holder keeps the wire
	Break   bool   `json:"break"`   // the wire fails while held
	NoStore bool   `json:"-"`
}

type poolPlan struct {
	Cap      int        `json:"cap"`
	MinSize  int        `json:"min_size"`
	Cleanup  int        `json:"cleanup_ms"`
	MakeMS   []int      `json:"make_ms"`     // dial latency per make (cycled)
	MakeFail []bool     `json:"make_fail"`   // dial fails (wire with error) per make (cycled)
	MakeExp  []bool     `json:"make_expired"` // wire whose lifetime timer already fired per make (cycled)
	Actors   [][]poolOp `json:"actors"`
	CloseAt  int        `json:"close_at_ms"` // 0: never
	Hook     bool       `json:"hook"`        // park the first waiter at pool.acquire.wait and cancel it there
}

type poolObs struct {
	Violations []string
	Late       int
	Waited     bool
	DoneCtxStore bool
	Size, ListLen int
	Created, Closed, MaxLive int64
	Down bool
	Pending int
}

func runPoolPlan(t *testing.T, plan poolPlan) (res bubble.Result, obs poolObs) {
	var mu sync.Mutex
	viol := func(f string, a ...any) {
		mu.Lock()
		obs.Violations = append(obs.Violations, fmt.Sprintf(f, a...))
		mu.Unlock()
	}
	var pending atomic.Int64
	res = bubble.Run(t, func() {
		w := &poolWorld{}
		makes := 0
		var makeMu sync.Mutex
		dead := deadFn()
		p := newPool(plan.Cap, dead, time.Duration(plan.Cleanup)*time.Millisecond, plan.MinSize, func(ctx context.Context) wire {
			makeMu.Lock()
			k := makes
			makes++
			makeMu.Unlock()
			fw := &fakeWire{id: k, w: w}
			if len(plan.MakeExp) > 0 && plan.MakeExp[k%len(plan.MakeExp)] {
				fw.expired = true
			}
			live := w.created.Add(1) - w.closedN.Load()
			for {
				m := w.maxLive.Load()
				if live <= m || w.maxLive.CompareAndSwap(m, live) {
					break
				}
			}
			if len(plan.MakeMS) > 0 {
				// like the real dial, the fake one gives up when the caller's context ends
				tm := time.NewTimer(time.Duration(plan.MakeMS[k%len(plan.MakeMS)]) * time.Millisecond)
				select {
				case <-tm.C:
				case <-ctx.Done():
					tm.Stop()
					e := ctx.Err()
					fw.err.Store(&e)
				}
			}
			if len(plan.MakeFail) > 0 && plan.MakeFail[k%len(plan.MakeFail)] {
				e := errors.New("dial failed")
				fw.err.Store(&e)
			}
			return fw
		})
		held := map[*fakeWire]bool{}
		var heldMu sync.Mutex
		var parkedOnce atomic.Int32
		var hookCancel atomic.Pointer[context.CancelFunc]
		if plan.Hook {
			fn := func(name string) {
				if name != "pool.acquire.wait" || !parkedOnce.CompareAndSwap(0, 1) {
					return
				}
				// Parked between the wait-condition check and cond.Wait, holding the pool mutex, exactly
				// where a broadcast can be lost. Cancel the waiter's context here and give the pool's
				// cancellation goroutine every chance to run before the waiter goes to sleep. A goroutine
				// blocked on a sync.Mutex is not durably blocked, so this must not need virtual time.
				if c := hookCancel.Load(); c != nil {
					(*c)()
				}
				for i := 0; i < 20000; i++ {
					runtime.Gosched()
				}
			}
			verifHook.Store(&fn)
			defer verifHook.Store(nil)
		}
		var wg sync.WaitGroup
		for ai, ops := range plan.Actors {
			wg.Add(1)
			go func(ai int, ops []poolOp) {
				defer wg.Done()
				start := time.Now()
				for _, op := range ops {
					if d := time.Duration(op.At)*time.Millisecond - time.Since(start); d > 0 {
						time.Sleep(d)
					}
					ctx := context.Background()
					var cancel context.CancelFunc = func() {}
					var doneAt time.Time
					switch op.Ctx {
					case "deadline":
						if op.Cause {
							ctx, cancel = context.WithTimeoutCause(ctx, time.Duration(op.CtxAt)*time.Millisecond, errC24Cause)
						} else {
							ctx, cancel = context.WithTimeout(ctx, time.Duration(op.CtxAt)*time.Millisecond)
						}
						doneAt = time.Now().Add(time.Duration(op.CtxAt) * time.Millisecond)
					case "cancel":
						if op.Cause {
							var cc context.CancelCauseFunc
							ctx, cc = context.WithCancelCause(ctx)
							cancel = func() { cc(errC24Cause) }
						} else {
							ctx, cancel = context.WithCancel(ctx)
						}
						doneAt = time.Now().Add(time.Duration(op.CtxAt) * time.Millisecond)
						c := cancel
						if plan.Hook && hookCancel.CompareAndSwap(nil, &c) {
							doneAt = time.Time{} // cancelled from the hook, at the instant the waiter parks
						} else {
							time.AfterFunc(time.Duration(op.CtxAt)*time.Millisecond, c)
						}
					case "done":
						ctx, cancel = context.WithCancel(ctx)
						cancel()
						doneAt = time.Now()
					}
					pending.Add(1)
					t0 := time.Now()
					v := p.Acquire(ctx)
					pending.Add(-1)
					waited := time.Since(t0)
					if waited > 0 {
						mu.Lock()
						obs.Waited = true
						mu.Unlock()
					}
					ctxErr := ctx.Err()
					if op.Ctx == "cancel" && doneAt.IsZero() && ctxErr != nil {
						doneAt = t0 // hook case: cancelled while parked, at the start instant
					}
					if !doneAt.IsZero() && ctxErr != nil && time.Now().After(doneAt.Add(5*time.Millisecond)) {
						viol("C24.prompt-waiter: Acquire with a context done at +%v returned %v later (at +%v)", doneAt.Sub(t0), time.Since(doneAt), waited)
						mu.Lock()
						obs.Late++
						mu.Unlock()
					}
					fw, isFake := v.(*fakeWire)
					if isFake {
						heldMu.Lock()
						if held[fw] {
							viol("C24.exclusive: wire #%d handed to two holders at once", fw.id)
						}
						held[fw] = true
						heldMu.Unlock()
						if fw.closed.Load() != 0 && fw.Error() == nil {
							viol("C24.closed-wire: a closed wire was handed out as healthy")
						}
					} else if v.Error() == nil {
						viol("C24.dead-wire-error: Acquire returned a non-pool wire without an error")
					}
					if op.Hold > 0 {
						time.Sleep(time.Duration(op.Hold) * time.Millisecond)
					}
					if isFake && op.Break {
						e := errors.New("broken while held")
						fw.err.CompareAndSwap(nil, &e)
					}
					if isFake {
						heldMu.Lock()
						delete(held, fw)
						heldMu.Unlock()
					} else if ctxErr != nil {
						mu.Lock()
						obs.DoneCtxStore = true
						mu.Unlock()
					}
					// every caller in the client stores what it acquired (mux.blocking, mux.Store, stream end)
					p.Store(v)
					cancel()
				}
			}(ai, ops)
		}
		if plan.CloseAt > 0 {
			time.AfterFunc(time.Duration(plan.CloseAt)*time.Millisecond, func() { p.Close() })
		}
		wg.Wait()
		// let idle cleanup finish
		if plan.Cleanup > 0 {
			time.Sleep(time.Duration(plan.Cleanup+1) * time.Millisecond)
		}
		p.cond.L.Lock()
		obs.Size, obs.ListLen, obs.Down = p.size, len(p.list), p.down
		p.cond.L.Unlock()
		obs.Created, obs.Closed, obs.MaxLive = w.created.Load(), w.closedN.Load(), w.maxLive.Load()
		p.Close()
		// after Close only the dead wire comes out
		if v := p.Acquire(context.Background()); v != wire(dead) {
			if fw, ok := v.(*fakeWire); !ok || fw.closed.Load() == 0 {
				viol("C24.after-close: Acquire after Close returned a live wire")
			}
		}
	})
	obs.Pending = int(pending.Load())
	return
}

func genPoolPlan(rt *rapid.T) poolPlan {
	plan := poolPlan{Cap: rapid.IntRange(1, 3).Draw(rt, "cap")}
	plan.MinSize = rapid.IntRange(0, plan.Cap).Draw(rt, "minSize")
	if rapid.Bool().Draw(rt, "cleanup") {
		plan.Cleanup = rapid.IntRange(5, 60).Draw(rt, "cleanupMs")
	}
	plan.MakeMS = rapid.SliceOfN(rapid.IntRange(0, 20), 0, 3).Draw(rt, "makeMs")
	plan.MakeFail = rapid.SliceOfN(rapid.SampledFrom([]bool{false, false, false, true}), 0, 4).Draw(rt, "makeFail")
	plan.MakeExp = rapid.SliceOfN(rapid.SampledFrom([]bool{false, false, false, false, true}), 0, 5).Draw(rt, "makeExp")
	if len(plan.MakeExp) > 0 { // an always-expired dial would retry forever by design
		plan.MakeExp[0] = false
	}
	na := rapid.IntRange(1, 6).Draw(rt, "actors")
	for i := 0; i < na; i++ {
		n := rapid.IntRange(1, 4).Draw(rt, "ops")
		ops := make([]poolOp, n)
		at := 0
		for k := range ops {
			at += rapid.IntRange(0, 15).Draw(rt, "gap")
			ops[k] = poolOp{At: at, Ctx: rapid.SampledFrom([]string{"bg", "bg", "deadline", "cancel", "done"}).Draw(rt, "ctx"),
				CtxAt: rapid.IntRange(1, 30).Draw(rt, "ctxAt"), Cause: rapid.IntRange(0, 2).Draw(rt, "cause") == 0, Hold: rapid.IntRange(0, 25).Draw(rt, "hold"), Break: rapid.IntRange(0, 4).Draw(rt, "break") == 0}
		}
		plan.Actors = append(plan.Actors, ops)
	}
	if rapid.IntRange(0, 4).Draw(rt, "closes") == 0 {
		plan.CloseAt = rapid.IntRange(1, 60).Draw(rt, "closeAt")
	}
	return plan
}

func checkPoolPlan(c *stat.Collector, rt stat.Fataler, plan poolPlan, res bubble.Result, obs poolObs) {
	if res.Deadlock || res.Leak {
		if plan.Hook && c.Known("C24.lost-wakeup") {
			return
		}
		c.Fail(rt, "C24.no-hang", fmt.Sprintf("%s; %d Acquire calls never returned", res, obs.Pending), plan)
	}
	if res.Panic != nil {
		c.Fail(rt, "C24.no-panic", res.String(), plan)
	}
	for _, v := range obs.Violations {
		c.Fail(rt, v[:indexOrLen(v, ':')], v, plan)
	}
	if obs.MaxLive > int64(plan.Cap) {
		c.Fail(rt, "C24.bound", fmt.Sprintf("%d connections were alive at once with a pool capacity of %d", obs.MaxLive, plan.Cap), plan)
	}
	if !obs.Down {
		if obs.Size != obs.ListLen {
			if obs.DoneCtxStore && c.Known("C24.done-ctx-store") {
				return
			}
			c.Fail(rt, "C24.accounting", fmt.Sprintf("with every wire returned the pool counts %d connections but holds %d idle ones (created %d, closed %d)", obs.Size, obs.ListLen, obs.Created, obs.Closed), plan)
		}
		if live := obs.Created - obs.Closed; live != int64(obs.ListLen) {
			c.Fail(rt, "C24.gets-back-or-closes", fmt.Sprintf("%d connections are alive but only %d are idle in the pool: a connection was neither returned nor closed", live, obs.ListLen), plan)
		}
	}
}

func indexOrLen(s string, b byte) int {
	for i := 0; i < len(s); i++ {
		if s[i] == b {
			return i
		}
	}
	return len(s)
}

func TestVerif_C24_Pool(t *testing.T) {
	c := stat.For("C24", "pool").Rule("in a synctest bubble on newPool(cap 1-3, idle cleanup, minSize) with counting fake wires: 1-6 actors x 1-4 Acquire calls at generated virtual instants with background / deadline / cancelled / already-done contexts, hold times, wires breaking while held, slow / failing / already-expired dials, idle cleanup ticks and Close; oracle: live connections <= cap at every dial, no wire with two holders, size == counted wires and every live wire idle in the pool at the end, a waiter whose context is done returns within 5 virtual ms, only dead wires after Close, no bubble deadlock; non-trivial = some Acquire actually waited for a slot, or a wire obtained with a done context was stored")
	defer c.Flush()
	rapid.Check(t, func(rt *rapid.T) {
		plan := genPoolPlan(rt)
		saveLastCase("c24", []byte(fmt.Sprintf("%+v", plan)))
		res, obs := runPoolPlan(t, plan)
		if res.Frozen {
			c.Inconclusive("virtual-clock-freeze")
			return
		}
		nt := obs.Waited || obs.DoneCtxStore
		var cls []string
		if obs.Waited {
			cls = append(cls, "waited")
		}
		if obs.DoneCtxStore {
			cls = append(cls, "done-ctx-store")
		}
		if plan.CloseAt > 0 {
			cls = append(cls, "close")
		}
		c.Eval(nt, fmt.Sprintf("%+v", plan), cls...)
		c.Sample(nt, func() any { return plan })
		checkPoolPlan(c, rt, plan, res, obs)
	})
}

// The lost wake-up window: a waiter whose context is cancelled between its wait-condition check
// and cond.Wait must still return. The harness owns that window through the verif hook.
func TestVerif_C24_PoolLostWakeup(t *testing.T) {
	c := stat.For("C24", "lost-wakeup").Rule("hook plan: the pool is exhausted by holders that keep their wire for a long time; one waiter with a cancellable context is parked by the verif hook at pool.acquire.wait (between the wait-condition check and cond.Wait, holding the pool mutex), its context is cancelled right there, the pool's cancellation goroutine gets 20000 scheduler yields to run, then the waiter continues; oracle: the waiter returns within 5 virtual ms (a lost wake-up is a bubble deadlock or a late return); every case is non-trivial when the hook fired")
	defer c.Flush()
	rapid.Check(t, func(rt *rapid.T) {
		cap := rapid.IntRange(1, 3).Draw(rt, "cap")
		plan := poolPlan{Cap: cap, Hook: true}
		hold := rapid.IntRange(200, 2000).Draw(rt, "hold")
		for i := 0; i < cap; i++ {
			plan.Actors = append(plan.Actors, []poolOp{{At: 0, Ctx: "bg", Hold: hold}})
		}
		wAt := rapid.IntRange(1, 10).Draw(rt, "at")
		plan.Actors = append(plan.Actors, []poolOp{{At: wAt, Ctx: "cancel", CtxAt: rapid.IntRange(50, 100).Draw(rt, "cancelAt")}})
		for i := rapid.IntRange(0, 2).Draw(rt, "lateWaiters"); i > 0; i-- {
			plan.Actors = append(plan.Actors, []poolOp{{At: wAt + rapid.IntRange(20, 60).Draw(rt, "lateAt"), Ctx: "bg", Hold: 1}})
		}
		saveLastCase("c24h", []byte(fmt.Sprintf("%+v", plan)))
		res, obs := runPoolPlan(t, plan)
		if res.Frozen {
			c.Inconclusive("virtual-clock-freeze")
			return
		}
		c.Eval(true, fmt.Sprintf("%+v", plan))
		c.Sample(true, func() any { return plan })
		if obs.Late > 0 && c.Known("C24.lost-wakeup") {
			return
		}
		checkPoolPlan(c, rt, plan, res, obs)
	})
}
