package rueidis

import (
	"bufio"
	"bytes"
	"fmt"
	"io"
	"os"
	"runtime/metrics"
	"strings"
	"testing"

	"pgregory.net/rapid"
	"verifkit/resp"
	"verifkit/rgen"
	"verifkit/stat"
)

var hostileLens = []string{"-2", "-9223372036854775808", "-1", "0", "1", "2147483647", "2147483648", "4294967296", "1073741824",
	"9223372036854775807", "9223372036854775808", "18446744073709551615", "18446744073709551616", "99999999999999999999999", "1e9", "", "?", "-", "--1", "+1", "0x10", " 1", "\r"}

func genMalformed(t *rapid.T) []byte {
	switch rapid.IntRange(0, 7).Draw(t, "kind") {
	case 7: // a length-prefixed frame that declares far more than it delivers, but delivers more than the decoder's first buffer
		ty := rapid.SampledFrom([]byte{'$', '!', '=', ';'}).Draw(t, "bigTy")
		decl := rapid.SampledFrom([]string{"268435456", "1073741824", "4294967296", "1099511627776"}).Draw(t, "bigDecl")
		got := rapid.SampledFrom([]int{65535, 65536, 65537, 70000, 131073, 200000}).Draw(t, "bigGot")
		pre := rapid.SampledFrom([]string{"", "*2\r\n", "%1\r\n+k\r\n", "|1\r\n+a\r\n"}).Draw(t, "bigPre")
		if ty == ';' {
			pre += "$?\r\n"
		}
		b := append([]byte(pre+string(ty)+decl+"\r\n"), make([]byte, got)...)
		for i := len(b) - got; i < len(b); i++ {
			b[i] = 'a' + byte(i%23)
		}
		return b
	case 6: // deeply nested aggregates that each declare more than they deliver
		pre := rapid.SampledFrom([]string{"*64\r\n", "*1000000\r\n", "%100000\r\n", "|5\r\n", "*1\r\n", ">3\r\n", "~65\r\n", "*?\r\n", "%1\r\n+k\r\n"}).Draw(t, "nestPre")
		k := rapid.IntRange(1, 3000).Draw(t, "nestDepth")
		tail := rapid.SampledFrom([]string{"", ":1\r\n", "$-2\r\n", "$100000000\r\nabc"}).Draw(t, "nestTail")
		return []byte(strings.Repeat(pre, k) + tail)
	case 0: // raw bytes
		return rapid.SliceOfN(rapid.Byte(), 0, 64).Draw(t, "raw")
	case 1: // bytes from the RESP alphabet
		return []byte(rapid.StringMatching(`[$*%~>|+:_#,(!=;.\-?0-9a\r\n]{0,40}`).Draw(t, "alpha"))
	case 2, 3: // a type byte with a hostile length line, then some tail
		ty := rapid.SampledFrom([]byte{'$', '*', '%', '~', '>', '|', '!', '=', ';', ':', '(', ','}).Draw(t, "ty")
		l := rapid.SampledFrom(hostileLens).Draw(t, "len")
		tail := rapid.SampledFrom([]string{"", "\r\n", "a\r\n", "$1\r\na\r\n", ":1\r\n", "+OK\r\n", ";4\r\nabcd\r\n;0\r\n", ".\r\n"}).Draw(t, "tail")
		pre := rapid.SampledFrom([]string{"", "*2\r\n", "%1\r\n+k\r\n", "$?\r\n", "*?\r\n", "|1\r\n+a\r\n", ">2\r\n+x\r\n"}).Draw(t, "pre")
		if pre == "$?\r\n" {
			ty = ';'
		}
		return []byte(pre + string(ty) + l + "\r\n" + tail)
	default: // a valid encoding, mutated
		o := rgen.Full
		o.Big = false
		enc := resp.Append(nil, rgen.Value(t, o))
		if len(enc) == 0 {
			return enc
		}
		switch rapid.IntRange(0, 3).Draw(t, "mut") {
		case 0: // truncate
			return enc[:rapid.IntRange(0, len(enc)-1).Draw(t, "cut")]
		case 1: // flip a byte
			i := rapid.IntRange(0, len(enc)-1).Draw(t, "pos")
			enc[i] = rapid.Byte().Draw(t, "byte")
			return enc
		case 2: // splice a hostile length after the first type byte
			l := rapid.SampledFrom(hostileLens).Draw(t, "len")
			i := bytes.IndexByte(enc, '\r')
			if i < 1 {
				return enc
			}
			return append(append(append([]byte{}, enc[0]), l...), enc[i:]...)
		default: // delete a range
			i := rapid.IntRange(0, len(enc)-1).Draw(t, "from")
			j := rapid.IntRange(i, len(enc)).Draw(t, "to")
			return append(append([]byte{}, enc[:i]...), enc[j:]...)
		}
	}
}

// measured runs f and returns the bytes allocated meanwhile (the test is single-threaded).
func measured(f func()) uint64 {
	// runtime/metrics needs no stop-the-world (ReadMemStats costs ~50 us, too slow for native
	// fuzzing); small objects are accounted when their span is refilled, which the 1 MiB slack absorbs
	s := []metrics.Sample{{Name: "/gc/heap/allocs:bytes"}}
	metrics.Read(s)
	a := s[0].Value.Uint64()
	f()
	metrics.Read(s)
	return s[0].Value.Uint64() - a
}

const allocSlackC13 = 1 << 20

func allocBound(n int) uint64 { return uint64(1024*n) + allocSlackC13 }

func reachesLength(in []byte) bool {
	for i, b := range in {
		if strings.IndexByte("$*%~>|!=;", b) >= 0 && i+1 < len(in) {
			return true
		}
	}
	return false
}

func c13Decode(c *stat.Collector, t stat.Fataler, in []byte, sizes []int, bufsz int) {
	saveLastCase("c13", in)
	for _, mode := range []string{"read", "stream"} {
		var err error
		var p any
		alloc := measured(func() {
			p = catchPanic(func() {
				br := bufio.NewReaderSize(&rgen.SplitReader{Data: append([]byte(nil), in...), Sizes: sizes}, bufsz)
				if mode == "read" {
					for i := 0; i < 4 && err == nil; i++ { // a peer can send several frames
						_, err = readNextMessage(br)
					}
				} else {
					_, err, _ = streamTo(br, io.Discard)
				}
			})
		})
		if p != nil {
			c.Fail(t, "C13.no-panic", fmt.Sprintf("%s of %s panicked: %v", mode, q(in), p), q(in))
		}
		if alloc > allocBound(len(in)) {
			c.Fail(t, "C13.bounded-alloc", fmt.Sprintf("%s of %d input bytes %s allocated %d bytes (bound %d)", mode, len(in), q(in), alloc, allocBound(len(in))), q(in))
		}
		_ = err
	}
}

func TestVerif_C13_Malformed(t *testing.T) {
	c := stat.For("C13", "malformed").Rule("byte strings from four generators (raw bytes, RESP-alphabet strings, type byte + hostile length line from a dictionary of negative/overflowing/oversized lengths with prefixes that put it inside aggregates, chunked strings and attributes, and valid encodings truncated/flipped/spliced) are decoded with readNextMessage (up to 4 frames) and streamTo under generated read splits; oracle: no panic and TotalAlloc delta <= 1024*len(input)+1MiB; non-trivial = input contains a length-prefixed type byte")
	defer c.Flush()
	if p := os.Getenv("VERIF_REPLAY"); p != "" {
		in, err := os.ReadFile(p)
		if err != nil {
			t.Fatal(err)
		}
		c13Decode(c, t, in, nil, 4096)
		c.Eval(true, in)
		c.Eval(true, "replay")
		return
	}
	// regression tier: the inputs that crashed or over-allocated on the pinned tree (repaired by cd12b1e), and the
	// shapes of later seeded changes, run first and do not depend on the generator
	for _, in := range []string{"$-2\r\n", "*-2\r\n", "%-1\r\n", "~-5\r\n", ">-3\r\n", "|-1\r\n+a\r\n", "$?\r\n;-5\r\n", "!-2\r\n", "=-9\r\n",
		"*1073741824\r\n", "%1073741824\r\n", "$1073741824\r\n", "$99999999999999999999\r\n", "*9223372036854775807\r\n", "%4611686018427387904\r\n", "%9223372036854775807\r\n",
		"*1000000\r\n*1000000\r\n*1000000\r\n*1000000\r\n:1\r\n", "$268435456\r\n" + strings.Repeat("x", 70000)} {
		c13Decode(c, t, []byte(in), nil, 4096)
		c13Decode(c, t, []byte(in), []int{1}, 32)
		c.Eval(true, "regression:"+in)
	}
	rapid.Check(t, func(t *rapid.T) {
		in := genMalformed(t)
		sizes, bufsz := rgen.Sizes(t), rgen.BufSize(t)
		nt := reachesLength(in)
		c.Eval(nt, in)
		c.Sample(nt, func() any { return q(in) })
		c13Decode(c, t, in, sizes, bufsz)
	})
}
