package rueidis

import (
	"fmt"
	"github.com/redis/rueidis/internal/cmds"
	"os"
	"path/filepath"
	"strings"

	"verifkit/resp"
)

// msgToValue converts a decoded RedisMessage into the harness' value model.
func msgToValue(m RedisMessage) resp.Value {
	v := resp.Value{T: m.typ}
	switch m.typ {
	case typeInteger, typeBool:
		v.I = m.intlen
	case typeNull:
		v.T = '_'
	case typeArray, typeSet, typePush, typeMap, typeAttribute:
		v.A = make([]resp.Value, 0, len(m.values()))
		for _, e := range m.values() {
			v.A = append(v.A, msgToValue(e))
		}
	default:
		v.S = m.string()
	}
	if m.attrs != nil && m.attrs != cacheMark {
		for _, e := range m.attrs.values() {
			v.Attr = append(v.Attr, msgToValue(e))
		}
	}
	return v
}

// valueToMsg builds a RedisMessage the way the decoder would (without going through bytes).
func valueToMsg(v resp.Value) RedisMessage {
	var m RedisMessage
	switch v.T {
	case ':', '#':
		m = RedisMessage{typ: v.T, intlen: v.I}
	case '_':
		m = RedisMessage{typ: typeNull}
	case '*', '~', '>', '%':
		vs := make([]RedisMessage, len(v.A))
		for i, e := range v.A {
			vs[i] = valueToMsg(e)
		}
		m = slicemsg(v.T, vs)
	default:
		m = strmsg(v.T, v.S)
	}
	if len(v.Attr) > 0 {
		vs := make([]RedisMessage, len(v.Attr))
		for i, e := range v.Attr {
			vs[i] = valueToMsg(e)
		}
		a := slicemsg(typeAttribute, vs)
		m.attrs = &a
	}
	return m
}

func catchPanic(f func()) (p any) {
	defer func() {
		if r := recover(); r != nil {
			if strings.Contains(fmt.Sprintf("%T", r), "rapid.") {
				panic(r)
			}
			p = r
		}
	}()
	f()
	return nil
}

// saveLastCase writes the input about to be tried, so that an unrecoverable crash of the
// test process (fatal error) still leaves a replay file for the driver.
func saveLastCase(name string, data []byte) {
	d := os.Getenv("VERIF_WORK")
	if d == "" {
		return
	}
	_ = os.WriteFile(filepath.Join(d, "last-case."+name), data, 0o644)
}

func q(b []byte) string {
	if len(b) > 300 {
		return fmt.Sprintf("%q...(%d bytes)", b[:300], len(b))
	}
	return fmt.Sprintf("%q", b)
}

func cmdsNew(ss ...string) cmds.Completed { return cmds.NewCompleted(ss) }
