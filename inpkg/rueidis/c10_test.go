package rueidis

import (
	"container/list"
	"fmt"
	"strings"
	"testing"
	"time"

	"pgregory.net/rapid"
	"verifkit/stat"
)

type lruSnapshotEntry struct {
	key, cmd string
	pending  bool
	size     int
	e        *cacheEntry
}

// lruSnapshot lists the entries in list order (front = next eviction victim) and checks that
// list and maps agree.
func lruSnapshot(c *lru) (out []lruSnapshotEntry, problem string) {
	if c.list == nil {
		return nil, ""
	}
	n := 0
	for ele := c.list.Front(); ele != nil; ele = ele.Next() {
		e := ele.Value.(*cacheEntry)
		kc := c.store[e.kc.key]
		if kc != e.kc {
			problem = fmt.Sprintf("list element %s/%s is not reachable from the key map", e.kc.key, e.cmd)
		} else if kc.cache[e.cmd] != ele {
			problem = fmt.Sprintf("list element %s/%s is not the one the key map points to", e.kc.key, e.cmd)
		}
		out = append(out, lruSnapshotEntry{key: e.kc.key, cmd: e.cmd, pending: e.val.typ == 0, size: e.size, e: e})
		n++
	}
	m := 0
	for key, kc := range c.store {
		if kc.key != key {
			problem = "keyCache under the wrong key"
		}
		for _, ele := range kc.cache {
			if ele != nil {
				m++
			}
		}
	}
	if m != n && problem == "" {
		problem = fmt.Sprintf("maps reference %d entries, list holds %d", m, n)
	}
	return out, problem
}

var _ = list.New

func bigValue(t *rapid.T) RedisMessage {
	if rapid.Bool().Draw(t, "nested") {
		n := rapid.IntRange(0, 12).Draw(t, "elems")
		vs := make([]RedisMessage, n)
		for i := range vs {
			vs[i] = strmsg('$', strings.Repeat("e", rapid.IntRange(0, 400).Draw(t, "elemLen")))
		}
		return slicemsg('*', vs)
	}
	return strmsg('$', strings.Repeat("v", rapid.SampledFrom([]int{0, 1, 10, 100, 500, 1000, 2000, 4000, 8192}).Draw(t, "valLen")))
}

func TestVerif_C10_LRU(t *testing.T) {
	c := stat.For("C10", "lru").Rule("rapid state machine on the built-in LRU store with CacheSizeEachConn from a few hundred bytes to 64 KiB and replies of 0..8 KiB (strings and arrays): Flight, Flights, Update, Cancel, Delete(keys|all), clock advance; after every step: accounted size == sum of sizes of completed retained entries, list and maps agree, pending entries are never evicted, and after every Update size <= max with evictions taken from the front of the recency list; non-trivial = a sequence with an Update that needs >=2 evictions, or an eviction that has to skip a pending entry at the front")
	defer c.Flush()
	rapid.Check(t, func(t *rapid.T) {
		max := rapid.SampledFrom([]int{300, 700, 1500, 3000, 8000, 20000, 65536}).Draw(t, "max")
		store := newLRU(CacheStoreOption{CacheSizeEachConn: max}).(*lru)
		now := time.UnixMilli(1_700_000_000_000)
		keys := []string{"a", "b", "c", "d", "e", "f"}
		cmdsL := []string{"GET", "HGETf", "LRANGE0-1"}
		pending := map[[2]string]bool{}
		var trace []string
		multiEvict, skipPending := false, false
		maxEvict := 0
		check := func(step string) {
			snap, problem := lruSnapshot(store)
			if problem != "" {
				c.Fail(t, "C10.structure", fmt.Sprintf("after %s: %s (trace %v)", step, problem, trace), trace)
			}
			sum := 0
			seenPending := map[[2]string]bool{}
			for _, s := range snap {
				if s.pending {
					seenPending[[2]string{s.key, s.cmd}] = true
				} else {
					sum += s.size
				}
			}
			if store.list != nil && sum != store.size {
				c.Fail(t, "C10.size-accounting", fmt.Sprintf("after %s: accounted size %d, completed entries sum to %d (trace %v)", step, store.size, sum, trace), trace)
			}
			for k := range pending {
				if !seenPending[k] {
					c.Fail(t, "C10.pending-kept", fmt.Sprintf("after %s: in-flight entry %v disappeared from the store (trace %v)", step, k, trace), trace)
				}
			}
		}
		t.Repeat(map[string]func(*rapid.T){
			"flight": func(t *rapid.T) {
				k, cm := rapid.SampledFrom(keys).Draw(t, "key"), rapid.SampledFrom(cmdsL).Draw(t, "cmd")
				ttl := time.Duration(rapid.IntRange(1, 5000).Draw(t, "ttl")) * time.Millisecond
				v, e := store.Flight(k, cm, ttl, now)
				trace = append(trace, fmt.Sprintf("Flight(%s,%s,%v)", k, cm, ttl))
				if v.typ == 0 && e == nil {
					pending[[2]string{k, cm}] = true
				}
				check("Flight")
			},
			"flights": func(t *rapid.T) {
				n := rapid.IntRange(1, 4).Draw(t, "n")
				multi := make([]CacheableTTL, n)
				for i := range multi {
					k, cm := rapid.SampledFrom(keys).Draw(t, "key"), rapid.SampledFrom([]string{"GET", "TTL", "STRLEN"}).Draw(t, "cmd")
					multi[i] = CT(Cacheable(cmdsNew(cm, k)), time.Duration(rapid.IntRange(1, 5000).Draw(t, "ttl"))*time.Millisecond)
				}
				results := make([]RedisResult, n)
				entries := map[int]CacheEntry{}
				missed := store.Flights(now, multi, results, entries)
				trace = append(trace, fmt.Sprintf("Flights(%d)->missed %v", n, missed))
				for _, i := range missed {
					pending[[2]string{multi[i].Cmd.Commands()[1], multi[i].Cmd.Commands()[0]}] = true
				}
				check("Flights")
			},
			"update": func(t *rapid.T) {
				if len(pending) == 0 {
					t.Skip("nothing in flight")
				}
				ks := sortedPending(pending)
				k := ks[rapid.IntRange(0, len(ks)-1).Draw(t, "which")]
				val := bigValue(t)
				if rapid.Bool().Draw(t, "serverTTL") {
					val.setExpireAt(now.UnixMilli() + int64(rapid.IntRange(1, 5000).Draw(t, "pttl")))
				}
				before, _ := lruSnapshot(store)
				store.Update(k[0], k[1], val)
				delete(pending, k)
				after, _ := lruSnapshot(store)
				trace = append(trace, fmt.Sprintf("Update(%s,%s,%dB) size=%d/%d", k[0], k[1], val.approximateSize(), store.size, max))
				if store.size > max {
					needs := 0
					for _, s := range after {
						if !s.pending {
							needs++
						}
					}
					if needs >= 1 && !c.Known("C10.single-eviction") {
						c.Fail(t, "C10.size-bound", fmt.Sprintf("after Update the store accounts %d bytes with max %d and still holds %d completed entries (trace %v)", store.size, max, needs, trace), trace)
					}
				}
				// eviction order: the evicted completed entries are a prefix (in list order) of the completed entries
				still := map[*cacheEntry]bool{}
				for _, s := range after {
					still[s.e] = true
				}
				evicted, keptSeen, frontPending := 0, false, false
				for i, s := range before {
					if s.pending && !(s.key == k[0] && s.cmd == k[1]) {
						if i == 0 || frontPending {
							frontPending = true
						}
						continue
					}
					if !still[s.e] {
						evicted++
						if keptSeen {
							c.Fail(t, "C10.lru-order", fmt.Sprintf("Update evicted %s/%s although an older completed entry was kept (trace %v)", s.key, s.cmd, trace), trace)
						}
						if frontPending {
							skipPending = true
						}
					} else {
						keptSeen = true
					}
				}
				if evicted >= 2 {
					multiEvict = true
				}
				maxEvict = max2(maxEvict, evicted)
				check("Update")
			},
			"cancel": func(t *rapid.T) {
				if len(pending) == 0 {
					t.Skip("nothing in flight")
				}
				ks := sortedPending(pending)
				k := ks[rapid.IntRange(0, len(ks)-1).Draw(t, "which")]
				store.Cancel(k[0], k[1], fmt.Errorf("x"))
				delete(pending, k)
				trace = append(trace, fmt.Sprintf("Cancel(%s,%s)", k[0], k[1]))
				check("Cancel")
			},
			"delete": func(t *rapid.T) {
				if rapid.IntRange(0, 5).Draw(t, "all") == 0 {
					store.Delete(nil)
					trace = append(trace, "Delete(all)")
				} else {
					ks := rapid.SliceOfN(rapid.SampledFrom(keys), 1, 3).Draw(t, "keys")
					ms := make([]RedisMessage, len(ks))
					for i, k := range ks {
						ms[i] = strmsg('$', k)
					}
					store.Delete(ms)
					trace = append(trace, fmt.Sprintf("Delete(%v)", ks))
				}
				check("Delete")
			},
			"tick": func(t *rapid.T) {
				d := rapid.IntRange(1, 3000).Draw(t, "ms")
				now = now.Add(time.Duration(d) * time.Millisecond)
				trace = append(trace, fmt.Sprintf("tick(%dms)", d))
			},
		})
		nt := multiEvict || skipPending
		var cls []string
		if multiEvict {
			cls = append(cls, "multi-evict")
		}
		if skipPending {
			cls = append(cls, "evict-skips-pending")
		}
		c.Eval(nt, strings.Join(trace, ";"), cls...)
		c.Sample(nt, func() any { return map[string]any{"max": max, "trace": trace, "max_evictions_in_one_update": maxEvict} })
	})
}

func max2(a, b int) int {
	if a > b {
		return a
	}
	return b
}

func sortedPending(p map[[2]string]bool) [][2]string {
	out := make([][2]string, 0, len(p))
	for k := range p {
		out = append(out, k)
	}
	for i := 1; i < len(out); i++ {
		for j := i; j > 0 && (out[j][0] < out[j-1][0] || out[j][0] == out[j-1][0] && out[j][1] < out[j-1][1]); j-- {
			out[j], out[j-1] = out[j-1], out[j]
		}
	}
	return out
}
