package rueidis

import (
	"fmt"
	"strings"
	"sync"
	"testing"
	"time"

	"pgregory.net/rapid"
	"verifkit/stat"
)

type c07Map struct {
	mu sync.Mutex
	m  map[string]RedisMessage
}

func (c *c07Map) Get(key string) RedisMessage {
	c.mu.Lock()
	defer c.mu.Unlock()
	return c.m[key]
}
func (c *c07Map) Set(key string, val RedisMessage) { c.mu.Lock(); c.m[key] = val; c.mu.Unlock() }
func (c *c07Map) Del(key string)                   { c.mu.Lock(); delete(c.m, key); c.mu.Unlock() }
func (c *c07Map) Flush()                           { c.mu.Lock(); c.m = map[string]RedisMessage{}; c.mu.Unlock() }

type c07Entry struct {
	pending   bool
	clientExp int64 // unix ms
	exp       int64
	val       string
}

func TestVerif_C07_StoreModel(t *testing.T) {
	c := stat.For("C07", "store-model").Rule("rapid state machine on both cache stores (built-in LRU with a huge limit, NewSimpleCacheAdapter over a map) with an explicit clock: Flight(key, cmd, ttl, now), Update with a server expiry in {none, now+pttl}, Cancel, Delete(keys|all), clock advance; model = map (key,cmd) -> {pending | value, expiry = min(flight start + client ttl, server expiry)}; oracle after every Flight: hit iff the model holds a completed entry with expiry > now, pending iff the model is pending, the hit's payload and CachePXAT equal the model's, Update returns the model's expiry; non-trivial = a history in which the server expiry is earlier than the client's, or a Flight lands within 2 ms of an expiry")
	defer c.Flush()
	rapid.Check(t, func(t *rapid.T) {
		kind := rapid.SampledFrom([]string{"lru", "adapter"}).Draw(t, "store")
		var store CacheStore
		if kind == "lru" {
			store = newLRU(CacheStoreOption{CacheSizeEachConn: 1 << 30})
		} else {
			store = NewSimpleCacheAdapter(&c07Map{m: map[string]RedisMessage{}})
		}
		now := time.UnixMilli(1_700_000_000_000)
		keys := []string{"a", "b", "c"}
		cmdsL := []string{"GET", "HGETf"}
		model := map[[2]string]*c07Entry{}
		var trace []string
		nt := false
		seq := 0
		t.Repeat(map[string]func(*rapid.T){
			"flight": func(t *rapid.T) {
				k, cm := rapid.SampledFrom(keys).Draw(t, "key"), rapid.SampledFrom(cmdsL).Draw(t, "cmd")
				ttl := time.Duration(rapid.SampledFrom([]int{1, 2, 5, 50, 1000}).Draw(t, "ttl")) * time.Millisecond
				v, e := store.Flight(k, cm, ttl, now)
				id := [2]string{k, cm}
				m := model[id]
				trace = append(trace, fmt.Sprintf("Flight(%s,%s,%v)@%d", k, cm, ttl, now.UnixMilli()%100000))
				switch {
				case m != nil && m.pending:
					if v.typ != 0 || e == nil {
						c.Fail(t, "C07.pending-waits", fmt.Sprintf("%s: a flight for %v is pending but Flight returned typ=%d entry=%v (trace %v)", kind, id, v.typ, e != nil, trace), trace)
					}
				case m != nil && m.exp > now.UnixMilli():
					if d := m.exp - now.UnixMilli(); d <= 2 {
						nt = true
					}
					if v.typ == 0 {
						c.Fail(t, "C07.hit-before-expiry", fmt.Sprintf("%s: %v holds a reply valid until %d, now %d, but Flight reported a miss (trace %v)", kind, id, m.exp, now.UnixMilli(), trace), trace)
					}
					if v.string() != m.val {
						c.Fail(t, "C07.hit-payload", fmt.Sprintf("%s: hit for %v returned %q want %q", kind, id, v.string(), m.val), trace)
					}
					if v.CachePXAT() != m.exp {
						c.Fail(t, "C07.hit-reports-expiry", fmt.Sprintf("%s: hit for %v reports CachePXAT %d, the entry expires at %d (trace %v)", kind, id, v.CachePXAT(), m.exp, trace), trace)
					}
				default:
					if m != nil && m.exp-now.UnixMilli() >= -2 {
						nt = true
					}
					if v.typ != 0 {
						c.Fail(t, "C07.no-hit-after-expiry", fmt.Sprintf("%s: %v expired (model %+v, now %d) but Flight returned a hit %q (trace %v)", kind, id, m, now.UnixMilli(), v.string(), trace), trace)
					}
					if e != nil {
						c.Fail(t, "C07.miss-owns-flight", fmt.Sprintf("%s: nothing is cached or pending for %v but Flight returned an entry to wait on (trace %v)", kind, id, trace), trace)
					}
					model[id] = &c07Entry{pending: true, clientExp: now.Add(ttl).UnixMilli()}
				}
			},
			"update": func(t *rapid.T) {
				var ids [][2]string
				for id, m := range model {
					if m.pending {
						ids = append(ids, id)
					}
				}
				if len(ids) == 0 {
					t.Skip("nothing in flight")
				}
				sortIDs(ids)
				id := ids[rapid.IntRange(0, len(ids)-1).Draw(t, "which")]
				seq++
				val := fmt.Sprintf("v%d", seq)
				msg := strmsg('$', val)
				msg.attrs = cacheMark
				var srv int64
				if rapid.Bool().Draw(t, "serverTTL") {
					srv = now.UnixMilli() + int64(rapid.SampledFrom([]int{0, 1, 3, 40, 5000}).Draw(t, "pttl"))
					msg.setExpireAt(srv)
				}
				m := model[id]
				want := m.clientExp
				if srv != 0 && srv < want {
					want = srv
					nt = true
				}
				got := store.Update(id[0], id[1], msg)
				trace = append(trace, fmt.Sprintf("Update(%s,%s,srv=%d)->%d", id[0], id[1], srv%100000, got%100000))
				if got != want {
					c.Fail(t, "C07.expiry-is-min", fmt.Sprintf("%s: Update for %v with client expiry %d and server expiry %d returned %d, want %d (trace %v)", kind, id, m.clientExp, srv, got, want, trace), trace)
				}
				*m = c07Entry{exp: want, val: val}
			},
			"cancel": func(t *rapid.T) {
				var ids [][2]string
				for id, m := range model {
					if m.pending {
						ids = append(ids, id)
					}
				}
				if len(ids) == 0 {
					t.Skip("nothing in flight")
				}
				sortIDs(ids)
				id := ids[rapid.IntRange(0, len(ids)-1).Draw(t, "which")]
				store.Cancel(id[0], id[1], fmt.Errorf("x"))
				delete(model, id)
				trace = append(trace, fmt.Sprintf("Cancel(%s,%s)", id[0], id[1]))
			},
			"delete": func(t *rapid.T) {
				var ks []string
				if rapid.IntRange(0, 4).Draw(t, "all") != 0 {
					ks = rapid.SliceOfNDistinct(rapid.SampledFrom(keys), 1, 2, func(s string) string { return s }).Draw(t, "keys")
					ms := make([]RedisMessage, len(ks))
					for i, k := range ks {
						ms[i] = strmsg('$', k)
					}
					store.Delete(ms)
				} else {
					store.Delete(nil)
				}
				for id, m := range model {
					if m.pending {
						continue
					}
					if ks == nil || strings.Contains(" "+strings.Join(ks, " ")+" ", " "+id[0]+" ") {
						delete(model, id)
					}
				}
				trace = append(trace, fmt.Sprintf("Delete(%v)", ks))
			},
			"tick": func(t *rapid.T) {
				d := rapid.SampledFrom([]int{1, 1, 2, 4, 49, 1000}).Draw(t, "ms")
				now = now.Add(time.Duration(d) * time.Millisecond)
				trace = append(trace, fmt.Sprintf("tick(%d)", d))
			},
		})
		c.Eval(nt, kind+strings.Join(trace, ";"), "store="+kind)
		c.Sample(nt, func() any { return map[string]any{"store": kind, "trace": trace} })
	})
}

func sortIDs(ids [][2]string) {
	for i := 1; i < len(ids); i++ {
		for j := i; j > 0 && (ids[j][0] < ids[j-1][0] || ids[j][0] == ids[j-1][0] && ids[j][1] < ids[j-1][1]); j-- {
			ids[j], ids[j-1] = ids[j-1], ids[j]
		}
	}
}
