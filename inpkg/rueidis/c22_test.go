package rueidis

import (
	"fmt"
	"testing"

	"pgregory.net/rapid"
	"verifkit/stat"
)

type selCase struct {
	Kind     string   `json:"selector"`
	ClientAZ string   `json:"client_az"`
	AZs      []string `json:"azs"` // index 0 is the primary
}

// refSelect: the set of acceptable answers according to the documented priorities.
func refSelect(kind, clientAZ string, azs []string) (allowed map[int]bool, rank string) {
	n := len(azs)
	allowed = map[int]bool{}
	sameAZ := func() bool {
		for i := 1; i < n && i < 255; i++ {
			if azs[i] == clientAZ {
				allowed[i] = true
			}
		}
		return len(allowed) > 0
	}
	anyReplica := func() bool {
		for i := 1; i < n; i++ {
			allowed[i] = true
		}
		return n > 1
	}
	switch kind {
	case "PreferReplica":
		if anyReplica() {
			return allowed, "any-replica"
		}
	case "AZAffinity":
		if sameAZ() {
			return allowed, "same-az-replica"
		}
		if anyReplica() {
			return allowed, "any-replica"
		}
	case "AZAffinityReplicasAndPrimary":
		if sameAZ() {
			return allowed, "same-az-replica"
		}
		if n > 0 && azs[0] == clientAZ {
			allowed[0] = true
			return allowed, "same-az-primary"
		}
		if anyReplica() {
			return allowed, "any-replica"
		}
	}
	allowed[-1] = true
	return allowed, "primary"
}

func mkSelector(kind, az string) ReadNodeSelectorFunc {
	switch kind {
	case "PreferReplica":
		return PreferReplicaNodeSelector()
	case "AZAffinity":
		return AZAffinityNodeSelector(az)
	default:
		return AZAffinityReplicasAndPrimaryNodeSelector(az)
	}
}

func c22check(c *stat.Collector, t stat.Fataler, sc selCase, calls int) (rank string) {
	sel := mkSelector(sc.Kind, sc.ClientAZ)
	nodes := make([]NodeInfo, len(sc.AZs))
	for i, az := range sc.AZs {
		nodes[i] = NodeInfo{Addr: fmt.Sprintf("n%d", i), AZ: az}
	}
	allowed, rank := refSelect(sc.Kind, sc.ClientAZ, sc.AZs)
	seen := map[int]bool{}
	for k := 0; k < calls; k++ {
		var got int
		if p := catchPanic(func() { got = sel(uint16(k), nodes) }); p != nil {
			c.Fail(t, "C22.no-panic", fmt.Sprintf("%s panicked on %d nodes: %v", sc.Kind, len(nodes), p), sc)
		}
		if len(nodes) == 0 {
			continue // every caller passes the primary at index 0: the empty list is outside the domain, only "no panic" is required
		}
		if got != -1 && (got < 0 || got >= len(nodes)) {
			c.Fail(t, "C22.valid-index", fmt.Sprintf("%s returned %d for %d nodes", sc.Kind, got, len(nodes)), sc)
		}
		if !allowed[got] {
			c.Fail(t, "C22.priority", fmt.Sprintf("%s(clientAZ=%q) returned %d; the documented priorities (%s) allow %v for AZs %q", sc.Kind, sc.ClientAZ, got, rank, keysOf(allowed), short(sc.AZs)), sc)
		}
		seen[got] = true
	}
	// rotation through equally ranked candidates: with k <= 8 candidates, 8*k calls return each of them
	if k := len(allowed); k <= 8 && calls >= 8*k && rank != "primary" && rank != "same-az-primary" {
		for i := range allowed {
			if !seen[i] {
				c.Fail(t, "C22.rotation", fmt.Sprintf("%s never returned candidate %d in %d calls (candidates %v)", sc.Kind, i, calls, keysOf(allowed)), sc)
			}
		}
	}
	return rank
}

func keysOf(m map[int]bool) []int {
	var out []int
	for k := range m {
		out = append(out, k)
	}
	for i := 1; i < len(out); i++ {
		for j := i; j > 0 && out[j] < out[j-1]; j-- {
			out[j], out[j-1] = out[j-1], out[j]
		}
	}
	if len(out) > 12 {
		out = out[:12]
	}
	return out
}

func short(s []string) []string {
	if len(s) > 12 {
		return append(append([]string{}, s[:12]...), fmt.Sprintf("...(%d)", len(s)))
	}
	return s
}

var selKinds = []string{"PreferReplica", "AZAffinity", "AZAffinityReplicasAndPrimary"}

func TestVerif_C22_Exhaustive(t *testing.T) {
	c := stat.For("C22", "exhaustive").Rule("every node list of length 1..6 over AZs {a,b} x client AZ {a,b,c} x 3 selectors, 64 calls each, against a reference written from the doc comments; non-trivial = >=2 same-AZ replicas")
	defer c.Flush()
	c.Exhaustive(true)
	for _, kind := range selKinds {
		for n := 1; n <= 6; n++ {
			for mask := 0; mask < 1<<n; mask++ {
				azs := make([]string, n)
				for i := range azs {
					azs[i] = "a"
					if mask>>i&1 == 1 {
						azs[i] = "b"
					}
				}
				for _, caz := range []string{"a", "b", "c"} {
					same := 0
					for i := 1; i < n; i++ {
						if azs[i] == caz {
							same++
						}
					}
					sc := selCase{kind, caz, azs}
					c22check(c, t, sc, 64)
					c.Eval(same >= 2, fmt.Sprint(sc))
					if same >= 2 {
						c.Sample(true, func() any { return sc })
					}
				}
			}
		}
	}
	// the empty list must not panic
	for _, kind := range selKinds {
		c22check(c, t, selCase{kind, "a", nil}, 3)
	}
}

func TestVerif_C22_Selectors(t *testing.T) {
	c := stat.For("C22", "generated").Rule("node lists of length 1..300 with AZs from a 3-letter alphabet (plus lists where the only same-AZ replica sits at index 253..256, around the 255-node search cap), any client AZ, 1..80 calls on one selector instance; oracle = reference priority chain + rotation over 8*k calls for k<=8 candidates; non-trivial = >=2 same-AZ replicas or a list longer than 255")
	defer c.Flush()
	rapid.Check(t, func(t *rapid.T) {
		kind := rapid.SampledFrom(selKinds).Draw(t, "selector")
		caz := rapid.SampledFrom([]string{"a", "b", "c", ""}).Draw(t, "clientAZ")
		var azs []string
		switch rapid.IntRange(0, 3).Draw(t, "shape") {
		case 0:
			azs = rapid.SliceOfN(rapid.SampledFrom([]string{"a", "b", "c", ""}), 1, 12).Draw(t, "azs")
		case 1:
			azs = rapid.SliceOfN(rapid.SampledFrom([]string{"a", "b", "c"}), 1, 300).Draw(t, "azsLong")
		default: // one same-AZ replica placed around the cap, everything else in another AZ
			n := rapid.IntRange(252, 300).Draw(t, "n")
			azs = make([]string, n)
			for i := range azs {
				azs[i] = "x"
			}
			pos := rapid.IntRange(250, n-1).Draw(t, "pos")
			if caz == "" {
				caz = "a"
			}
			azs[pos] = caz
			if rapid.Bool().Draw(t, "primarySameAZ") {
				azs[0] = caz
			}
		}
		calls := rapid.IntRange(1, 80).Draw(t, "calls")
		sc := selCase{kind, caz, azs}
		rank := c22check(c, t, sc, calls)
		same := 0
		for i := 1; i < len(azs); i++ {
			if azs[i] == caz {
				same++
			}
		}
		nt := same >= 2 || len(azs) > 255
		c.Eval(nt, fmt.Sprint(kind, caz, azs), "rank="+rank)
		c.Sample(nt, func() any { return selCase{kind, caz, short(azs)} })
	})
}
