package rueidis

import (
	"fmt"
	"net"
	"net/url"
	"reflect"
	"strconv"
	"strings"
	"testing"
	"time"

	"pgregory.net/rapid"
	"verifkit/stat"
)

type urlParam struct{ K, V string }

type urlCase struct {
	Scheme   string
	User     *[2]string // nil = no userinfo; [1]=="\x00" means no password part
	Host     string     // host[:port] or "" ; for unix unused
	Path     string     // "/3", "", "/x", "/1/2"; for unix the socket path
	Params   []urlParam
}

func (u urlCase) String() string {
	var sb strings.Builder
	sb.WriteString(u.Scheme + "://")
	if u.User != nil {
		if u.User[1] == "\x00" {
			sb.WriteString(url.User(u.User[0]).String())
		} else {
			sb.WriteString(url.UserPassword(u.User[0], u.User[1]).String())
		}
		sb.WriteByte('@')
	}
	if strings.ToLower(u.Scheme) != "unix" {
		sb.WriteString(u.Host)
	}
	sb.WriteString(u.Path)
	if len(u.Params) > 0 {
		sb.WriteByte('?')
		for i, p := range u.Params {
			if i > 0 {
				sb.WriteByte('&')
			}
			sb.WriteString(url.QueryEscape(p.K) + "=" + url.QueryEscape(p.V))
		}
	}
	return sb.String()
}

type urlWant struct {
	Err                                                  bool
	Addr                                                 []string
	Username, Password                                   string
	DB                                                   int
	DialTimeout, WriteTimeout                            time.Duration
	TLS, SkipVerify                                      bool
	ServerName                                           string
	RESP2, DisableCache, DisableRetry                    bool
	ClientName, MasterSet                                string
	Unix                                                 bool
}

// refParse is the reference mapping written from the property statement and the ParseURL doc.
func refParse(u urlCase) (w urlWant) {
	first := func(k string) (string, bool) {
		for _, p := range u.Params {
			if p.K == k {
				return p.V, true
			}
		}
		return "", false
	}
	hostOf := func(hostport string) (string, string) {
		host, port, _ := net.SplitHostPort(hostport)
		if host == "" {
			host = u.Host
		}
		if host == "" {
			host = "localhost"
		}
		if port == "" {
			port = "6379"
		}
		return host, net.JoinHostPort(host, port)
	}
	switch strings.ToLower(u.Scheme) { // net/url lower-cases the scheme
	case "unix":
		w.Unix = true
		w.Addr = []string{strings.TrimSpace(u.Path)}
	case "rediss", "valkeys":
		w.TLS = true
	case "redis", "valkey":
	default:
		w.Err = true
		return
	}
	if !w.Unix {
		host, addr := hostOf(u.Host)
		w.Addr = []string{addr}
		if w.TLS {
			w.ServerName = host
		}
		if u.Path != "" {
			ps := strings.Split(u.Path, "/")
			if len(ps) == 2 {
				n, err := strconv.Atoi(ps[1])
				if err != nil {
					w.Err = true
					return
				}
				w.DB = n
			} else if len(ps) > 2 {
				w.Err = true
				return
			}
		}
	}
	if u.User != nil {
		w.Username = u.User[0]
		if u.User[1] != "\x00" {
			w.Password = u.User[1]
		}
	}
	if v, ok := first("db"); ok {
		n, err := strconv.Atoi(v)
		if err != nil {
			w.Err = true
			return
		}
		w.DB = n
	}
	if v, ok := first("dial_timeout"); ok {
		d, err := time.ParseDuration(v)
		if err != nil {
			w.Err = true
			return
		}
		w.DialTimeout = d
	}
	if v, ok := first("write_timeout"); ok {
		d, err := time.ParseDuration(v)
		if err != nil {
			w.Err = true
			return
		}
		w.WriteTimeout = d
	}
	for _, p := range u.Params {
		if p.K == "addr" {
			_, a := hostOf(p.V)
			w.Addr = append(w.Addr, a)
		}
	}
	if v, ok := first("skip_verify"); ok && w.TLS {
		if v == "" {
			w.SkipVerify = true
		} else {
			b, err := strconv.ParseBool(v)
			if err != nil {
				w.Err = true
				return
			}
			w.SkipVerify = b
		}
	}
	if v, _ := first("protocol"); v == "2" {
		w.RESP2 = true
	}
	if v, _ := first("client_cache"); v == "0" {
		w.DisableCache = true
	}
	if v, _ := first("max_retries"); v == "0" {
		w.DisableRetry = true
	}
	w.ClientName, _ = first("client_name")
	w.MasterSet, _ = first("master_set")
	return
}

var urlParamValues = map[string][]string{
	"db":            {"0", "1", "15", "x", "", "-1", "1.5"},
	"dial_timeout":  {"1s", "250ms", "2m", "0", "5", "abc", ""},
	"write_timeout": {"3s", "750ms", "1h", "0", "7", "zzz", ""},
	"addr":          {"h2:6380", "h3", ":7000", "[::1]:6381", "10.0.0.2:1"},
	"protocol":      {"2", "3", "", "x"},
	"client_cache":  {"0", "1", ""},
	"client_name":   {"me", "", "a b", "x&y"},
	"max_retries":   {"0", "1", "3", ""},
	"master_set":    {"mymaster", "", "s1"},
	"skip_verify":   {"", "true", "false", "1", "0", "maybe"},
	"unknown":       {"1"},
}

func genURL(t *rapid.T) urlCase {
	var u urlCase
	u.Scheme = rapid.SampledFrom([]string{"redis", "rediss", "valkey", "valkeys", "unix", "redis", "rediss", "http", "REDIS"}).Draw(t, "scheme")
	if rapid.Bool().Draw(t, "userinfo") {
		name := rapid.SampledFrom([]string{"", "user", "u:x", "u@h", "ü"}).Draw(t, "user")
		pw := rapid.SampledFrom([]string{"\x00", "", "pw", "p@ss:w/rd?", "%41"}).Draw(t, "pw")
		u.User = &[2]string{name, pw}
	}
	if u.Scheme == "unix" {
		u.Path = rapid.SampledFrom([]string{"/tmp/redis.sock", "/var/run/r.sock", "/a/b/c"}).Draw(t, "sock")
	} else {
		u.Host = rapid.SampledFrom([]string{"localhost:6379", "h", "h:1", "10.0.0.1:6380", "[::1]:6379", "", ":6400", "example.com"}).Draw(t, "host")
		u.Path = rapid.SampledFrom([]string{"", "", "/0", "/3", "/15", "/x", "/1/2", "/"}).Draw(t, "path")
	}
	names := []string{"db", "dial_timeout", "write_timeout", "addr", "protocol", "client_cache", "client_name", "max_retries", "master_set", "skip_verify", "unknown"}
	n := rapid.IntRange(0, 7).Draw(t, "nparams")
	for i := 0; i < n; i++ {
		k := rapid.SampledFrom(names).Draw(t, "pk")
		vs := urlParamValues[k]
		// mostly valid values (the first entries), sometimes invalid ones
		idx := rapid.IntRange(0, len(vs)-1).Draw(t, "pv")
		if rapid.IntRange(0, 3).Draw(t, "validBias") > 0 {
			idx = idx % min(3, len(vs))
		}
		u.Params = append(u.Params, urlParam{k, vs[idx]})
	}
	return u
}

func optOf(opt ClientOption) urlWant {
	w := urlWant{Addr: opt.InitAddress, Username: opt.Username, Password: opt.Password, DB: opt.SelectDB,
		DialTimeout: opt.Dialer.Timeout, WriteTimeout: opt.ConnWriteTimeout, RESP2: opt.AlwaysRESP2, DisableCache: opt.DisableCache,
		DisableRetry: opt.DisableRetry, ClientName: opt.ClientName, MasterSet: opt.Sentinel.MasterSet, Unix: opt.DialCtxFn != nil}
	if opt.TLSConfig != nil {
		w.TLS, w.SkipVerify, w.ServerName = true, opt.TLSConfig.InsecureSkipVerify, opt.TLSConfig.ServerName
	}
	return w
}

func TestVerif_C44_ParseURL(t *testing.T) {
	c := stat.For("C44", "parseurl").Rule("URLs assembled from components: scheme (5 valid + invalid), escaped userinfo, host/IPv6/port/none, db path, socket path, and 0-7 query parameters in any order/repetition from the 10 supported ones with valid and invalid values; oracle = reference mapping written from the property text (each parameter sets only its own option; invalid value => error) plus the metamorphic rule that adding one parameter changes only that parameter's option; non-trivial = >=3 parameters, or both dial_timeout and write_timeout present")
	defer c.Flush()
	rapid.Check(t, func(t *rapid.T) {
		u := genURL(t)
		s := u.String()
		want := refParse(u)
		has := map[string]bool{}
		for _, p := range u.Params {
			has[p.K] = true
		}
		nt := len(u.Params) >= 3 || (has["dial_timeout"] && has["write_timeout"])
		var cls []string
		if want.Err {
			cls = append(cls, "expect-error")
		}
		if has["dial_timeout"] && has["write_timeout"] {
			cls = append(cls, "both-timeouts")
		}
		c.Eval(nt, s, cls...)
		c.Sample(nt, func() any { return s })
		var opt ClientOption
		var err error
		if p := catchPanic(func() { opt, err = ParseURL(s) }); p != nil {
			c.Fail(t, "C44.no-panic", fmt.Sprintf("ParseURL(%q) panicked: %v", s, p), s)
		}
		if want.Err {
			if err == nil {
				c.Fail(t, "C44.rejects-invalid", fmt.Sprintf("ParseURL(%q) accepted an invalid value (got %+v)", s, optOf(opt)), s)
			}
			return
		}
		if err != nil {
			c.Fail(t, "C44.accepts-valid", fmt.Sprintf("ParseURL(%q) failed: %v", s, err), s)
		}
		got := optOf(opt)
		if has["write_timeout"] && (got.WriteTimeout != want.WriteTimeout || got.DialTimeout != want.DialTimeout) && c.Known("C44.write-timeout") {
			got.WriteTimeout, got.DialTimeout = want.WriteTimeout, want.DialTimeout
		}
		if !reflect.DeepEqual(got, want) {
			c.Fail(t, "C44.mapping", fmt.Sprintf("ParseURL(%q):\n got  %+v\n want %+v", s, got, want), s)
		}
	})
}
