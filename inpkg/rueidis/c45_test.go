package rueidis

import (
	"encoding/json"
	"fmt"
	"math"
	"testing"

	"pgregory.net/rapid"
	"verifkit/stat"
)

func TestVerif_C45_Binary(t *testing.T) {
	c := stat.For("C45", "roundtrip").Rule("float32/float64 vectors drawn from raw bit patterns (every NaN payload, +-0, subnormals, infinities), byte strings and JSON-able values; oracle: ToVector(VectorString(v)) is bit-for-bit v, BinaryString(b) has b's bytes, JSON(x) equals encoding/json; non-trivial = vector contains a NaN, a zero or a subnormal")
	defer c.Flush()
	special32 := []uint32{0, 0x80000000, 0x7fc00000, 0x7fc00001, 0xffc00000, 0x7f800001, 0x7f800000, 0xff800000, 1, 0x007fffff, 0x00800000}
	special64 := []uint64{0, 1 << 63, 0x7ff8000000000000, 0x7ff8000000000001, 0xfff8000000000000, 0x7ff0000000000001, 0x7ff0000000000000, 0xfff0000000000000, 1, 0x000fffffffffffff}
	rapid.Check(t, func(t *rapid.T) {
		b32 := rapid.SliceOfN(rapid.OneOf(rapid.Uint32(), rapid.SampledFrom(special32)), 0, 20).Draw(t, "v32")
		b64 := rapid.SliceOfN(rapid.OneOf(rapid.Uint64(), rapid.SampledFrom(special64)), 0, 20).Draw(t, "v64")
		v32 := make([]float32, len(b32))
		v64 := make([]float64, len(b64))
		nt := false
		for i, b := range b32 {
			v32[i] = math.Float32frombits(b)
			if v32[i] != v32[i] || v32[i] == 0 || b&0x7f800000 == 0 {
				nt = true
			}
		}
		for i, b := range b64 {
			v64[i] = math.Float64frombits(b)
			if v64[i] != v64[i] || v64[i] == 0 || b&0x7ff0000000000000 == 0 {
				nt = true
			}
		}
		c.Eval(nt, fmt.Sprint(b32, b64))
		c.Sample(nt, func() any { return map[string]any{"bits32": fmt.Sprintf("%x", b32), "bits64": fmt.Sprintf("%x", b64)} })
		s32 := VectorString32(v32)
		if len(s32) != 4*len(v32) {
			c.Fail(t, "C45.vector32", fmt.Sprintf("VectorString32 of %d floats has %d bytes", len(v32), len(s32)), nil)
		}
		back32 := ToVector32(s32)
		if len(back32) != len(v32) {
			c.Fail(t, "C45.vector32", fmt.Sprintf("round trip length %d want %d", len(back32), len(v32)), nil)
		}
		for i := range v32 {
			if math.Float32bits(back32[i]) != b32[i] {
				c.Fail(t, "C45.vector32", fmt.Sprintf("element %d: bits %08x came back as %08x", i, b32[i], math.Float32bits(back32[i])), nil)
			}
			// little endian layout as RediSearch expects
			if got := uint32(s32[4*i]) | uint32(s32[4*i+1])<<8 | uint32(s32[4*i+2])<<16 | uint32(s32[4*i+3])<<24; got != b32[i] {
				c.Fail(t, "C45.vector32-layout", fmt.Sprintf("element %d is not little-endian IEEE754: %08x vs %08x", i, got, b32[i]), nil)
			}
		}
		s64 := VectorString64(v64)
		back64 := ToVector64(s64)
		if len(back64) != len(v64) || len(s64) != 8*len(v64) {
			c.Fail(t, "C45.vector64", fmt.Sprintf("round trip length %d (%d bytes) want %d", len(back64), len(s64), len(v64)), nil)
		}
		for i := range v64 {
			if math.Float64bits(back64[i]) != b64[i] {
				c.Fail(t, "C45.vector64", fmt.Sprintf("element %d: bits %016x came back as %016x", i, b64[i], math.Float64bits(back64[i])), nil)
			}
			var got uint64
			for k := 0; k < 8; k++ {
				got |= uint64(s64[8*i+k]) << (8 * k)
			}
			if got != b64[i] {
				c.Fail(t, "C45.vector64-layout", fmt.Sprintf("element %d is not little-endian IEEE754", i), nil)
			}
		}
		bs := rapid.SliceOfN(rapid.Byte(), 0, 64).Draw(t, "bytes")
		if s := BinaryString(bs); s != string(bs) || len(s) != len(bs) {
			c.Fail(t, "C45.binary-string", fmt.Sprintf("BinaryString(%x) = %x", bs, s), nil)
		}
		var x any
		switch rapid.IntRange(0, 4).Draw(t, "jsonKind") {
		case 0:
			x = rapid.String().Draw(t, "js")
		case 1:
			x = rapid.Int64().Draw(t, "ji")
		case 2:
			x = map[string]any{"a": rapid.String().Draw(t, "jm"), "b": []int{1, 2}, "c": nil}
		case 3:
			x = rapid.SliceOfN(rapid.Float64Range(-1e9, 1e9), 0, 5).Draw(t, "jf")
		default:
			x = struct {
				A string `json:"a"`
				B []byte `json:"b"`
			}{rapid.String().Draw(t, "ja"), bs}
		}
		want, err := json.Marshal(x)
		if err == nil {
			if got := JSON(x); got != string(want) {
				c.Fail(t, "C45.json", fmt.Sprintf("JSON(%v) = %q want %q", x, got, want), nil)
			}
		}
	})
}
