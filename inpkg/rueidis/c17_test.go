package rueidis

import (
	"fmt"
	"testing"

	"pgregory.net/rapid"
	"verifkit/resp"
	"verifkit/rgen"
	"verifkit/stat"
)

// cacheable reply trees: scalar, array, set and map types (no attributes, pushes or streams:
// those never reach the cache serializer as distinct shapes)
var cacheOpts = rgen.Opts{MaxDepth: 4, Errors: true, Big: true}

func TestVerif_C17_CacheRoundTrip(t *testing.T) {
	c := stat.For("C17", "roundtrip").Rule("generated reply trees (all scalar types, arrays, sets, maps, nesting <=4, payloads up to 70 KiB) with any 7-byte expiry are marshalled with CacheMarshal into nil and prefix-filled buffers; CacheUnmarshalView must rebuild the same tree/type/expiry and mark it a cache hit, the output length must equal CacheSize, and every strict prefix (exhaustive up to 600 bytes, sampled above) must yield ErrCacheUnmarshal without panicking; non-trivial = nesting >= 2")
	defer c.Flush()
	rapid.Check(t, func(t *rapid.T) {
		v := rgen.Value(t, cacheOpts)
		if v.T == '>' {
			v.T = '*'
		}
		m := valueToMsg(v)
		pxat := rapid.OneOf(rapid.Int64Range(0, 1<<56-1), rapid.SampledFrom([]int64{0, 1, 1<<56 - 1, 1700000000000})).Draw(t, "pxat")
		m.setExpireAt(pxat)
		depth := rgen.Depth(v)
		var out []byte
		prefix := rapid.SliceOfN(rapid.Byte(), 0, 9).Draw(t, "prefix")
		usePrefix := rapid.Bool().Draw(t, "usePrefix")
		if p := catchPanic(func() {
			if usePrefix {
				buf := make([]byte, len(prefix), len(prefix)+rapid.IntRange(0, 64).Draw(t, "cap"))
				copy(buf, prefix)
				out = m.CacheMarshal(buf)
			} else {
				out = m.CacheMarshal(nil)
			}
		}); p != nil {
			c.Fail(t, "C17.marshal-panic", fmt.Sprintf("CacheMarshal panicked: %v on %v", p, v), v)
		}
		body := out
		if usePrefix {
			if string(out[:len(prefix)]) != string(prefix) {
				c.Fail(t, "C17.marshal-appends", "CacheMarshal overwrote the caller's buffer prefix", v)
			}
			body = out[len(prefix):]
		}
		nt := depth >= 2
		c.Eval(nt, body, fmt.Sprintf("depth=%d", depth))
		c.Sample(nt, func() any { return map[string]any{"value": v.String(), "pxat": pxat, "bytes": len(body)} })
		if len(body) != m.CacheSize() {
			c.Fail(t, "C17.size", fmt.Sprintf("CacheMarshal wrote %d bytes, CacheSize()=%d for %v", len(body), m.CacheSize(), v), v)
		}
		var back RedisMessage
		var err error
		if p := catchPanic(func() { err = back.CacheUnmarshalView(append([]byte(nil), body...)) }); p != nil {
			c.Fail(t, "C17.unmarshal-panic", fmt.Sprintf("CacheUnmarshalView panicked: %v", p), v)
		}
		if err != nil {
			c.Fail(t, "C17.roundtrip", fmt.Sprintf("CacheUnmarshalView failed on CacheMarshal output: %v", err), v)
		}
		if !back.IsCacheHit() {
			c.Fail(t, "C17.cache-hit-mark", "unmarshalled message is not marked as a cache hit", v)
		}
		if back.getExpireAt() != pxat || back.CachePXAT() != map[bool]int64{true: -1, false: pxat}[pxat == 0] {
			c.Fail(t, "C17.expiry", fmt.Sprintf("expiry %d came back as %d (CachePXAT %d)", pxat, back.getExpireAt(), back.CachePXAT()), v)
		}
		back.attrs = nil
		want := v
		got := msgToValue(back)
		if !resp.Equal(got, stripEnc(want)) {
			c.Fail(t, "C17.roundtrip", fmt.Sprintf("round trip changed the value: %v -> %v", want, got), v)
		}
		// truncation: every strict prefix must be rejected cleanly
		cuts := make([]int, 0, 700)
		if len(body) <= 600 {
			for i := 0; i < len(body); i++ {
				cuts = append(cuts, i)
			}
		} else {
			for i := 0; i < 200; i++ {
				cuts = append(cuts, i)
			}
			for i := 0; i < 100; i++ {
				cuts = append(cuts, rapid.IntRange(200, len(body)-1).Draw(t, "cut"))
			}
			cuts = append(cuts, len(body)-1, len(body)-2, len(body)-9)
		}
		for _, cut := range cuts {
			var tm RedisMessage
			var terr error
			if p := catchPanic(func() { terr = tm.CacheUnmarshalView(append([]byte(nil), body[:cut]...)) }); p != nil {
				c.Fail(t, "C17.truncated-panic", fmt.Sprintf("CacheUnmarshalView panicked on a %d/%d byte prefix of %v: %v", cut, len(body), v, p), v)
			}
			if terr != ErrCacheUnmarshal {
				c.Fail(t, "C17.truncated-error", fmt.Sprintf("a %d/%d byte prefix of %v was accepted (err=%v)", cut, len(body), v, terr), v)
			}
		}
		c.AddExtra("truncations_checked", int64(len(cuts)))
	})
}

func stripEnc(v resp.Value) resp.Value {
	v.Null2, v.Chunks, v.Stream, v.Attr = 0, nil, false, nil
	if v.A != nil {
		a := make([]resp.Value, len(v.A))
		for i := range v.A {
			a[i] = stripEnc(v.A[i])
		}
		v.A = a
	}
	return v
}
