package rueidis

import (
	"bufio"
	"bytes"
	"encoding/json"
	"fmt"
	"math"
	"reflect"
	"strconv"
	"testing"

	"pgregory.net/rapid"
	"verifkit/resp"
	"verifkit/stat"
)

// wire turns a value into what the decoder produces for it (RESP3 framing, or RESP2 framing when r2).
func wireMsg(v resp.Value, r2 bool) RedisMessage {
	var enc []byte
	if r2 {
		enc = resp.AppendV2(nil, v)
	} else {
		enc = resp.Append(nil, v)
	}
	m, err := readNextMessage(bufio.NewReader(bytes.NewReader(enc)))
	if err != nil {
		panic(fmt.Sprintf("harness: cannot decode own encoding %q: %v", enc, err))
	}
	return m
}

type c16case struct {
	name string
	run  func(t *rapid.T, c *stat.Collector) (nt bool, sample any)
}

func failf(c *stat.Collector, t *rapid.T, clause string, cas any, format string, a ...any) {
	c.Fail(t, clause, fmt.Sprintf(format, a...), cas)
}

var c16cases = []c16case{
	{"int", func(t *rapid.T, c *stat.Collector) (bool, any) {
		i := rapid.OneOf(rapid.Int64(), rapid.SampledFrom([]int64{0, 1, -1, math.MaxInt64, math.MinInt64, 8, 10})).Draw(t, "i")
		asInt, asStr := wireMsg(resp.Int(i), false), wireMsg(resp.Bulk(strconv.FormatInt(i, 10)), false)
		if v, err := asInt.ToInt64(); err != nil || v != i {
			failf(c, t, "C16.int", i, "ToInt64(:%d)=%d,%v", i, v, err)
		}
		for _, m := range []RedisMessage{asInt, asStr} {
			if v, err := m.AsInt64(); err != nil || v != i {
				failf(c, t, "C16.int", i, "AsInt64(%d)=%d,%v", i, v, err)
			}
		}
		if i >= 0 {
			if v, err := asStr.AsUint64(); err != nil || v != uint64(i) {
				failf(c, t, "C16.int", i, "AsUint64(%d)=%d,%v", i, v, err)
			}
		}
		if v, err := asInt.AsBool(); err != nil || v != (i != 0) {
			failf(c, t, "C16.bool", i, "AsBool(:%d)=%v,%v", i, v, err)
		}
		// leading zeros are decimal, not octal
		lz := "0" + strconv.FormatInt(int64(rapid.IntRange(1, 999).Draw(t, "lz")), 10)
		want, _ := strconv.ParseInt(lz, 10, 64)
		mm := wireMsg(resp.Bulk(lz), false)
		if v, err := mm.AsInt64(); err != nil || v != want {
			failf(c, t, "C16.int", lz, "AsInt64(%q)=%d,%v want %d", lz, v, err, want)
		}
		return true, map[string]any{"int": i, "leading_zero": lz}
	}},
	{"uint", func(t *rapid.T, c *stat.Collector) (bool, any) {
		u := rapid.OneOf(rapid.Uint64(), rapid.SampledFrom([]uint64{0, math.MaxUint64, 1 << 63})).Draw(t, "u")
		m := wireMsg(resp.Bulk(strconv.FormatUint(u, 10)), false)
		if v, err := m.AsUint64(); err != nil || v != u {
			failf(c, t, "C16.uint", u, "AsUint64(%d)=%d,%v", u, v, err)
		}
		return u > math.MaxInt64, u
	}},
	{"float", func(t *rapid.T, c *stat.Collector) (bool, any) {
		f := genFloat(t, "f")
		m3, m2 := wireMsg(floatVal(f, true), false), wireMsg(floatVal(f, false), false)
		if v, err := m3.ToFloat64(); err != nil || !sameFloat(v, f) {
			failf(c, t, "C16.float", f, "ToFloat64(,%s)=%v,%v", fmtFloat2(f), v, err)
		}
		for _, m := range []RedisMessage{m3, m2} {
			if v, err := m.AsFloat64(); err != nil || !sameFloat(v, f) {
				failf(c, t, "C16.float", f, "AsFloat64(%s)=%v,%v", fmtFloat2(f), v, err)
			}
		}
		return math.IsNaN(f) || math.IsInf(f, 0) || f == 0, fmtFloat2(f)
	}},
	{"bool-string", func(t *rapid.T, c *stat.Collector) (bool, any) {
		b := rapid.Bool().Draw(t, "b")
		m := wireMsg(resp.Bool(b), false)
		if v, err := m.ToBool(); err != nil || v != b {
			failf(c, t, "C16.bool", b, "ToBool=%v,%v", v, err)
		}
		if v, err := m.AsBool(); err != nil || v != b {
			failf(c, t, "C16.bool", b, "AsBool=%v,%v", v, err)
		}
		s := string(rapid.SliceOfN(rapid.Byte(), 0, 40).Draw(t, "s"))
		for _, v := range []resp.Value{resp.Bulk(s), {T: '$', S: s, Chunks: []int{1, 2}}} {
			mm := wireMsg(v, false)
			if got, err := mm.ToString(); err != nil || got != s {
				failf(c, t, "C16.string", s, "ToString=%q,%v want %q", got, err, s)
			}
			if got, err := mm.AsBytes(); err != nil || string(got) != s {
				failf(c, t, "C16.string", s, "AsBytes=%q,%v want %q", got, err, s)
			}
		}
		ok := wireMsg(resp.Simple("OK"), false)
		if v, err := ok.AsBool(); err != nil || !v {
			failf(c, t, "C16.bool", "OK", "AsBool(+OK)=%v,%v", v, err)
		}
		return len(s) > 0, map[string]any{"bool": b, "string": q([]byte(s))}
	}},
	{"slices", func(t *rapid.T, c *stat.Collector) (bool, any) {
		ss := rapid.SliceOfN(rapid.Custom(func(t *rapid.T) string { return genName(t, "e") }), 0, 6).Draw(t, "ss")
		is := rapid.SliceOfN(rapid.Int64(), 0, 6).Draw(t, "is")
		fs := rapid.SliceOfN(rapid.Custom(func(t *rapid.T) float64 { return genFloat(t, "f") }), 0, 6).Draw(t, "fs")
		set := rapid.Bool().Draw(t, "asSet")
		mk := func(a []resp.Value) resp.Value {
			if set {
				return resp.Set(a...)
			}
			return resp.Arr(a...)
		}
		var sv, iv, isv, fv, fsv []resp.Value
		for _, s := range ss {
			sv = append(sv, resp.Bulk(s))
		}
		for _, i := range is {
			iv = append(iv, resp.Int(i))
			isv = append(isv, resp.Bulk(strconv.FormatInt(i, 10)))
		}
		for _, f := range fs {
			fv = append(fv, floatVal(f, true))
			fsv = append(fsv, floatVal(f, false))
		}
		m := wireMsg(mk(sv), false)
		if got, err := m.AsStrSlice(); err != nil || len(got) != len(ss) || (len(ss) > 0 && !reflect.DeepEqual(got, ss)) {
			failf(c, t, "C16.slice", ss, "AsStrSlice=%q,%v want %q", got, err, ss)
		}
		for _, vv := range [][]resp.Value{iv, isv} {
			m = wireMsg(mk(vv), false)
			if got, err := m.AsIntSlice(); err != nil || len(got) != len(is) || (len(is) > 0 && !reflect.DeepEqual(got, is)) {
				failf(c, t, "C16.slice", is, "AsIntSlice=%v,%v want %v", got, err, is)
			}
		}
		for _, vv := range [][]resp.Value{fv, fsv} {
			m = wireMsg(mk(vv), false)
			got, err := m.AsFloatSlice()
			if err != nil || len(got) != len(fs) {
				failf(c, t, "C16.slice", fs, "AsFloatSlice=%v,%v want %v", got, err, fs)
			}
			for i := range fs {
				if !sameFloat(got[i], fs[i]) && !(fs[i] == 0 && got[i] == 0) {
					failf(c, t, "C16.slice", fs, "AsFloatSlice[%d]=%v want %v", i, got[i], fs[i])
				}
			}
		}
		return len(ss) > 1 || len(is) > 1, map[string]any{"strs": ss, "ints": is}
	}},
	{"maps", func(t *rapid.T, c *stat.Collector) (bool, any) {
		ps := genPairs(t, "p", 5)
		want := lastWins(ps)
		for _, r3 := range []bool{true, false} {
			m := wireMsg(pairsVal(ps, r3), false)
			got, err := m.AsStrMap()
			if err != nil || len(got) != len(want) {
				failf(c, t, "C16.strmap", ps, "AsStrMap(r3=%v)=%v,%v want %v", r3, got, err, want)
			}
			for k, v := range want {
				if got[k] != v {
					failf(c, t, "C16.strmap", ps, "AsStrMap(r3=%v)[%q]=%q want %q (last value of a repeated field wins)", r3, k, got[k], v)
				}
			}
			mm, err := m.AsMap()
			if err != nil || len(mm) != len(want) {
				failf(c, t, "C16.map", ps, "AsMap(r3=%v) len %d,%v want %d", r3, len(mm), err, len(want))
			}
			for k, v := range want {
				e := mm[k]
				if e.string() != v {
					failf(c, t, "C16.map", ps, "AsMap[%q]=%q want %q", k, e.string(), v)
				}
			}
			if r3 {
				tm, err := m.ToMap()
				if err != nil || len(tm) != len(want) {
					failf(c, t, "C16.map", ps, "ToMap len %d,%v want %d", len(tm), err, len(want))
				}
			}
		}
		// integer maps: values as integers (RESP3) and as decimal strings (RESP2), incl. leading zeros
		n := rapid.IntRange(0, 4).Draw(t, "imN")
		var flat3, flat2 []resp.Value
		wantI := map[string]int64{}
		lead := false
		for i := 0; i < n; i++ {
			k := fmt.Sprintf("k%d", i)
			v := rapid.Int64Range(-1000, 100000).Draw(t, "imV")
			s := strconv.FormatInt(v, 10)
			if v > 0 && rapid.IntRange(0, 3).Draw(t, "imLead") == 0 {
				s = "0" + s // e.g. a zero-padded counter stored by the application
				lead = true
			}
			wantI[k] = v
			flat3 = append(flat3, resp.Bulk(k), resp.Int(v))
			flat2 = append(flat2, resp.Bulk(k), resp.Bulk(s))
		}
		for _, v := range []resp.Value{resp.Map(flat3...), resp.Arr(flat2...), resp.Map(flat2...)} {
			m := wireMsg(v, false)
			got, err := m.AsIntMap()
			if err != nil || len(got) != len(wantI) {
				failf(c, t, "C16.intmap", wantI, "AsIntMap(%v)=%v,%v want %v", v, got, err, wantI)
			}
			for k, w := range wantI {
				if got[k] != w {
					if lead && c.Known("C16.intmap-base0") {
						continue
					}
					failf(c, t, "C16.intmap", wantI, "AsIntMap(%v)[%q]=%d want %d (AsInt64 parses the same text in base 10)", v, k, got[k], w)
				}
			}
		}
		return pairsHaveDup(ps) || lead, map[string]any{"pairs": ps, "intmap": wantI}
	}},
	{"zscores", func(t *rapid.T, c *stat.Collector) (bool, any) {
		zz := genZScores(t, "z", 4)
		for shape := 0; shape < 3; shape++ {
			m := wireMsg(zscoresVal(zz, shape), false)
			got, err := m.AsZScores()
			if err != nil || len(got) != len(zz) {
				failf(c, t, "C16.zscores", zz, "AsZScores(shape %d)=%v,%v want %v", shape, got, err, zz)
			}
			for i := range zz {
				if got[i].Member != zz[i].M || !sameFloat(got[i].Score, zz[i].S) {
					failf(c, t, "C16.zscores", zz, "AsZScores(shape %d)[%d]=%+v want %+v", shape, i, got[i], zz[i])
				}
			}
		}
		if len(zz) > 0 {
			for _, r3 := range []bool{true, false} {
				m := wireMsg(resp.Arr(resp.Bulk(zz[0].M), floatVal(zz[0].S, r3)), false)
				got, err := m.AsZScore()
				if err != nil || got.Member != zz[0].M || !sameFloat(got.Score, zz[0].S) {
					failf(c, t, "C16.zscores", zz, "AsZScore=%+v,%v want %+v", got, err, zz[0])
				}
			}
		}
		// ZMPOP
		key := genName(t, "zkey")
		for _, r3 := range []bool{true, false} {
			inner := zscoresVal(zz, 1)
			if !r3 {
				a := make([]resp.Value, len(zz))
				for i, z := range zz {
					a[i] = resp.Arr(resp.Bulk(z.M), floatVal(z.S, false))
				}
				inner = resp.Arr(a...)
			}
			m := wireMsg(resp.Arr(resp.Bulk(key), inner), false)
			got, err := m.AsZMPop()
			if err != nil || got.Key != key || len(got.Values) != len(zz) {
				failf(c, t, "C16.zmpop", zz, "AsZMPop=%+v,%v", got, err)
			}
			for i := range zz {
				if got.Values[i].Member != zz[i].M || !sameFloat(got.Values[i].Score, zz[i].S) {
					failf(c, t, "C16.zmpop", zz, "AsZMPop[%d]=%+v want %+v", i, got.Values[i], zz[i])
				}
			}
		}
		return len(zz) >= 2, map[string]any{"zscores": fmt.Sprint(zz)}
	}},
	{"streams", func(t *rapid.T, c *stat.Collector) (bool, any) {
		es := genXEntries(t, "x")
		dup := false
		for _, r3 := range []bool{false, true} {
			m := wireMsg(xentriesVal(es, r3), false)
			got, err := m.AsXRange()
			if err != nil || len(got) != len(es) {
				failf(c, t, "C16.xrange", es, "AsXRange=%v,%v want %d entries", got, err, len(es))
			}
			for i, e := range es {
				dup = dup || pairsHaveDup(e.Fields)
				if got[i].ID != e.ID {
					failf(c, t, "C16.xrange", es, "entry %d id %q want %q", i, got[i].ID, e.ID)
				}
				if e.NilFV {
					if got[i].FieldValues != nil {
						failf(c, t, "C16.xrange", es, "entry %d nil fields came back as %v", i, got[i].FieldValues)
					}
					continue
				}
				if !reflect.DeepEqual(got[i].FieldValues, lastWins(e.Fields)) {
					failf(c, t, "C16.xrange", es, "entry %d fields %v want %v", i, got[i].FieldValues, lastWins(e.Fields))
				}
			}
			if !r3 {
				sl, err := m.AsXRangeSlices()
				if err != nil || len(sl) != len(es) {
					failf(c, t, "C16.xrange-slices", es, "AsXRangeSlices=%v,%v", sl, err)
				}
				for i, e := range es {
					if sl[i].ID != e.ID || len(sl[i].FieldValues) != len(e.Fields) {
						failf(c, t, "C16.xrange-slices", es, "entry %d = %+v want %+v", i, sl[i], e)
					}
					for j, f := range e.Fields {
						if sl[i].FieldValues[j] != (XRangeFieldValue{Field: f.K, Value: f.V}) {
							failf(c, t, "C16.xrange-slices", es, "entry %d pair %d = %+v want %+v (order and duplicates preserved)", i, j, sl[i].FieldValues[j], f)
						}
					}
				}
			}
		}
		// XREAD: RESP2 array of [key, entries], RESP3 map
		nk := rapid.IntRange(1, 3).Draw(t, "xreadKeys")
		var a2, a3 []resp.Value
		for i := 0; i < nk; i++ {
			k := fmt.Sprintf("stream%d", i)
			a2 = append(a2, resp.Arr(resp.Bulk(k), xentriesVal(es, false)))
			a3 = append(a3, resp.Bulk(k), xentriesVal(es, false))
		}
		for _, v := range []resp.Value{resp.Arr(a2...), resp.Map(a3...)} {
			m := wireMsg(v, false)
			got, err := m.AsXRead()
			if err != nil || len(got) != nk {
				failf(c, t, "C16.xread", es, "AsXRead=%v,%v want %d streams", got, err, nk)
			}
			for i := 0; i < nk; i++ {
				if len(got[fmt.Sprintf("stream%d", i)]) != len(es) {
					failf(c, t, "C16.xread", es, "AsXRead stream%d has %d entries want %d", i, len(got[fmt.Sprintf("stream%d", i)]), len(es))
				}
			}
			gs, err := m.AsXReadSlices()
			if err != nil || len(gs) != nk {
				failf(c, t, "C16.xread", es, "AsXReadSlices=%v,%v", gs, err)
			}
		}
		return dup || len(es) >= 2, map[string]any{"entries": fmt.Sprint(es)}
	}},
	{"scan-lmpop", func(t *rapid.T, c *stat.Collector) (bool, any) {
		cur := rapid.OneOf(rapid.Uint64(), rapid.SampledFrom([]uint64{0, math.MaxUint64})).Draw(t, "cursor")
		els := rapid.SliceOfN(rapid.Custom(func(t *rapid.T) string { return genName(t, "el") }), 0, 5).Draw(t, "els")
		var ev []resp.Value
		for _, e := range els {
			ev = append(ev, resp.Bulk(e))
		}
		m := wireMsg(resp.Arr(resp.Bulk(strconv.FormatUint(cur, 10)), resp.Arr(ev...)), false)
		got, err := m.AsScanEntry()
		if err != nil || got.Cursor != cur || len(got.Elements) != len(els) || (len(els) > 0 && !reflect.DeepEqual(got.Elements, els)) {
			failf(c, t, "C16.scan", els, "AsScanEntry=%+v,%v want cursor %d elements %q", got, err, cur, els)
		}
		key := genName(t, "lkey")
		m = wireMsg(resp.Arr(resp.Bulk(key), resp.Arr(ev...)), false)
		lp, err := m.AsLMPop()
		if err != nil || lp.Key != key || len(lp.Values) != len(els) || (len(els) > 0 && !reflect.DeepEqual(lp.Values, els)) {
			failf(c, t, "C16.lmpop", els, "AsLMPop=%+v,%v", lp, err)
		}
		return cur > math.MaxInt64 || len(els) > 1, map[string]any{"cursor": cur, "elements": els}
	}},
	{"ftsearch", func(t *rapid.T, c *stat.Collector) (bool, any) {
		f := genFtSearch(t)
		for _, r3 := range []bool{false, true} {
			var m RedisMessage
			if r3 {
				m = wireMsg(f.resp3(), false)
			} else {
				m = wireMsg(f.resp2(), false)
			}
			total, docs, err := m.AsFtSearch()
			if err != nil || total != f.Total {
				failf(c, t, "C16.ftsearch", f, "AsFtSearch(r3=%v) total=%d,%v want %d", r3, total, err, f.Total)
			}
			ambiguous := !r3 && len(f.Docs) > 0 && f.NoContent // RESP2 infers the flags from the data; NOCONTENT results carry no marker
			if len(docs) != len(f.Docs) {
				if ambiguous {
					continue
				}
				failf(c, t, "C16.ftsearch", f, "AsFtSearch(r3=%v) returned %d docs want %d (%+v)", r3, len(docs), len(f.Docs), docs)
			}
			for i, d := range f.Docs {
				if ambiguous {
					break
				}
				if docs[i].Key != d.Key {
					failf(c, t, "C16.ftsearch", f, "AsFtSearch(r3=%v) doc %d key %q want %q", r3, i, docs[i].Key, d.Key)
				}
				if f.WithScores && docs[i].Score != d.Score {
					failf(c, t, "C16.ftsearch", f, "AsFtSearch(r3=%v) doc %d score %v want %v", r3, i, docs[i].Score, d.Score)
				}
				if !f.NoContent && !reflect.DeepEqual(docs[i].Doc, lastWins(d.Doc)) {
					failf(c, t, "C16.ftsearch", f, "AsFtSearch(r3=%v) doc %d fields %v want %v", r3, i, docs[i].Doc, lastWins(d.Doc))
				}
			}
		}
		// FT.AGGREGATE
		rows := make([][]kv, rapid.IntRange(0, 3).Draw(t, "aggN"))
		for i := range rows {
			rows[i] = genPairs(t, "agg", 3)
		}
		a2 := []resp.Value{resp.Int(f.Total)}
		var r3rows []resp.Value
		for _, r := range rows {
			a2 = append(a2, resp.Arr(pairsFlat(r)...))
			r3rows = append(r3rows, resp.Map(resp.Bulk("extra_attributes"), resp.Map(pairsFlat(r)...), resp.Bulk("values"), resp.Arr()))
		}
		v3 := resp.Map(resp.Bulk("attributes"), resp.Arr(), resp.Bulk("format"), resp.Bulk("STRING"), resp.Bulk("results"), resp.Arr(r3rows...), resp.Bulk("total_results"), resp.Int(f.Total), resp.Bulk("warning"), resp.Arr())
		cursor := rapid.Int64Range(0, 1<<40).Draw(t, "aggCursor")
		for _, v := range []resp.Value{resp.Arr(a2...), v3} {
			m := wireMsg(v, false)
			total, docs, err := m.AsFtAggregate()
			if err != nil || total != f.Total || len(docs) != len(rows) {
				failf(c, t, "C16.ftaggregate", rows, "AsFtAggregate=%d,%v,%v want total %d rows %d", total, docs, err, f.Total, len(rows))
			}
			for i, r := range rows {
				if !reflect.DeepEqual(docs[i], lastWins(r)) {
					failf(c, t, "C16.ftaggregate", rows, "row %d = %v want %v", i, docs[i], lastWins(r))
				}
			}
			mc := wireMsg(resp.Arr(v, resp.Int(cursor)), false)
			cur, total, docs, err := mc.AsFtAggregateCursor()
			if err != nil || cur != cursor || total != f.Total || len(docs) != len(rows) {
				failf(c, t, "C16.ftaggregate", rows, "AsFtAggregateCursor=%d,%d,%v,%v", cur, total, docs, err)
			}
		}
		return len(f.Docs) >= 2 || len(rows) >= 2, map[string]any{"total": f.Total, "docs": fmt.Sprint(f.Docs), "withscores": f.WithScores, "nocontent": f.NoContent}
	}},
	{"geo", func(t *rapid.T, c *stat.Collector) (bool, any) {
		gs := genGeo(t)
		for _, r3 := range []bool{false, true} {
			m := wireMsg(geoVal(gs, r3), false)
			got, err := m.AsGeosearch()
			if err != nil || len(got) != len(gs) {
				failf(c, t, "C16.geo", gs, "AsGeosearch=%v,%v want %d", got, err, len(gs))
			}
			for i, g := range gs {
				w := GeoLocation{Name: g.Name, Dist: g.Dist, GeoHash: g.Hash, Longitude: g.Lon, Latitude: g.Lat}
				if got[i] != w {
					failf(c, t, "C16.geo", gs, "AsGeosearch(r3=%v)[%d]=%+v want %+v", r3, i, got[i], w)
				}
			}
		}
		return len(gs) > 0 && (gs[0].WDist || gs[0].WHash || gs[0].WCoord), fmt.Sprint(gs)
	}},
	{"json", func(t *rapid.T, c *stat.Collector) (bool, any) {
		type doc struct {
			A int64             `json:"a"`
			B string            `json:"b"`
			C []float64         `json:"c"`
			D map[string]string `json:"d"`
		}
		n := rapid.IntRange(0, 4).Draw(t, "jsonN")
		docs := make([]doc, n)
		var vals []resp.Value
		nils := 0
		for i := range docs {
			docs[i] = doc{A: rapid.Int64().Draw(t, "ja"), B: rapid.String().Draw(t, "jb"), C: []float64{1.5, float64(i)}, D: map[string]string{"k": rapid.String().Draw(t, "jd")}}
			if rapid.IntRange(0, 4).Draw(t, "jnil") == 0 {
				docs[i] = doc{}
				vals = append(vals, resp.Null())
				nils++
				continue
			}
			b, _ := json.Marshal(docs[i])
			vals = append(vals, resp.Bulk(string(b)))
		}
		var got []doc
		err := DecodeSliceOfJSON(NewResult(wireMsg(resp.Arr(vals...), false), nil), &got)
		if err != nil || len(got) != n {
			failf(c, t, "C16.json", docs, "DecodeSliceOfJSON=%v,%v", got, err)
		}
		for i := range docs {
			if !reflect.DeepEqual(got[i], docs[i]) {
				failf(c, t, "C16.json", docs, "DecodeSliceOfJSON[%d]=%+v want %+v", i, got[i], docs[i])
			}
		}
		if n > 0 && nils == 0 {
			var one doc
			m := wireMsg(vals[0], false)
			if err := m.DecodeJSON(&one); err != nil || !reflect.DeepEqual(one, docs[0]) {
				failf(c, t, "C16.json", docs, "DecodeJSON=%+v,%v", one, err)
			}
		}
		return n >= 2, map[string]any{"docs": n, "nils": nils}
	}},
	{"toany", func(t *rapid.T, c *stat.Collector) (bool, any) {
		ps := genPairs(t, "any", 3)
		v := resp.Arr(resp.Int(7), resp.Bulk("s"), resp.Bool(true), resp.Double("1.5"), resp.Null(), resp.Map(pairsFlat(ps)...), resp.Set(resp.Bulk("x")))
		m := wireMsg(v, false)
		got, err := m.ToAny()
		if err != nil {
			failf(c, t, "C16.toany", ps, "ToAny err %v", err)
		}
		wm := map[string]any{}
		for k, vv := range lastWins(ps) {
			wm[k] = vv
		}
		want := []any{int64(7), "s", true, 1.5, nil, wm, []any{"x"}}
		if !reflect.DeepEqual(got, want) {
			failf(c, t, "C16.toany", ps, "ToAny=%#v want %#v", got, want)
		}
		return len(ps) > 0, fmt.Sprint(ps)
	}},
}

func TestVerif_C16_Accessors(t *testing.T) {
	c := stat.For("C16", "accessors").Rule("structured data is generated first (int64/uint64/float64 extremes incl. NaN, +-Inf, -0; strings with arbitrary bytes; ordered pairs with repeated fields; score lists; stream entries; scan pages; LMPOP/ZMPOP; FT.SEARCH/FT.AGGREGATE result sets with WITHSCORES/NOCONTENT; GEOSEARCH with every WITH* subset; JSON documents), encoded in each reply shape the server uses (RESP2 flat arrays/bulk numbers, RESP3 maps/doubles/nested pairs), decoded by the real decoder and passed to the accessor, whose output must equal the data; non-trivial = per-group rule (repeated field, >=2 elements, special float, ...)")
	defer c.Flush()
	rapid.Check(t, func(t *rapid.T) {
		k := rapid.IntRange(0, len(c16cases)-1).Draw(t, "group")
		cs := c16cases[k]
		nt, sample := cs.run(t, c)
		c.Eval(nt, fmt.Sprint(cs.name, sample), "group="+cs.name)
		c.Sample(nt, func() any { return map[string]any{"group": cs.name, "data": sample} })
	})
}
