package rueidis

import (
	"bufio"
	"bytes"
	"fmt"
	"sync/atomic"
	"testing"

	"verifkit/resp"
	"verifkit/rgen"
	"verifkit/stat"
)

// Native coverage-guided targets of the thorough tier. The oracle is the one of the rapid checks
// (c13Decode, c15Apply, the C12 differential against the independent decoder, the C17 round
// trip); the fuzzer only replaces the generator. Seeds live in /verif/corpus/<target>/.

var fuzzEvals atomic.Int64

func fuzzTick(c *stat.Collector) {
	if fuzzEvals.Add(1)%20000 == 0 {
		c.Flush()
	}
}

func fuzzSplit(split, bufExp uint8) ([]int, int) {
	var sizes []int
	if split != 0 {
		sizes = []int{int(split%7) + 1}
	}
	return sizes, 32 << (bufExp % 9)
}

func fuzzSeeds(f *testing.F) {
	for _, s := range []string{
		"+OK\r\n", "-ERR x\r\n", ":-12\r\n", "$3\r\nabc\r\n", "$-1\r\n", "*-1\r\n", "_\r\n", "#t\r\n", ",1.5\r\n", "(123456789012345678901234567890\r\n",
		"!5\r\nERR x\r\n", "=7\r\ntxt:abc\r\n", "*2\r\n$1\r\na\r\n:1\r\n", "%1\r\n+k\r\n*1\r\n_\r\n", "~2\r\n:1\r\n:2\r\n", ">3\r\n$7\r\nmessage\r\n$1\r\nc\r\n$1\r\nm\r\n",
		"|1\r\n+ttl\r\n:3\r\n$1\r\nv\r\n", "$?\r\n;2\r\nab\r\n;0\r\n", "*?\r\n:1\r\n.\r\n", "%?\r\n+a\r\n:1\r\n.\r\n",
		"$9223372036854775807\r\n", "*9223372036854775807\r\n", "$-9223372036854775808\r\n", "*1\r\n*1\r\n*1\r\n*1\r\n*1\r\n$-1\r\n", "%2147483648\r\n", "|-1\r\n+a\r\n",
		"*3\r\n:1\r\n*2\r\n$4\r\nname\r\n$1\r\nv\r\n*2\r\n$5\r\nscore\r\n,1\r\n",
	} {
		f.Add([]byte(s), uint8(0), uint8(7))
		f.Add([]byte(s), uint8(1), uint8(0))
	}
}

// FuzzVerif_C13_Decode: arbitrary bytes never panic or over-allocate (C13); when the
// independent decoder accepts a prefix as one well-formed reply, rueidis must decode the same
// tree and consume the same bytes (C12).
func FuzzVerif_C13_Decode(f *testing.F) {
	c := stat.For("C13", "fuzz-decode").Rule("native go fuzzing over (bytes, read split, bufio size) seeded with one reply of every RESP type and hostile length lines; oracle as C13 malformed (no panic, TotalAlloc delta <= 1024*len+1MiB for readNextMessage x4 and streamTo) plus the C12 differential: if the independent RESP decoder accepts a prefix of the input as one reply, rueidis decodes an equal tree and consumes exactly that prefix; non-trivial = the input contains a length-prefixed type byte")
	defer c.Flush()
	c12 := stat.For("C12", "fuzz-differential").Rule("inputs of the C13 fuzz target that the independent decoder accepts as a well-formed reply: rueidis must decode an equal tree consuming the same number of bytes; non-trivial = nesting depth >= 2 or a streamed node or an attribute")
	defer c12.Flush()
	fuzzSeeds(f)
	f.Fuzz(func(t *testing.T, in []byte, split, bufExp uint8) {
		if len(in) > 1<<16 {
			return
		}
		sizes, bufsz := fuzzSplit(split, bufExp)
		c.Eval(reachesLength(in), in)
		fuzzTick(c)
		c13Decode(c, t, in, sizes, bufsz)
		// differential
		rr := bufio.NewReaderSize(bytes.NewReader(in), 1<<17)
		want, err := resp.ReadStrict(rr)
		if err != nil {
			return
		}
		used := len(in) - rr.Buffered()
		nt := rgen.Depth(want) >= 2 || rgen.HasStream(want) || rgen.HasAttr(want)
		c12.Eval(nt, in[:used])
		c12.Sample(nt, func() any { return q(in[:used]) })
		var msgs []RedisMessage
		var br *bufio.Reader
		var sr *rgen.SplitReader
		var derr error
		if p := catchPanic(func() { msgs, br, sr, derr = decodeAll(in, sizes, max(bufsz, 32), 1) }); p != nil {
			c12.Fail(t, "C12.decode-panic", fmt.Sprintf("panic %v decoding %s", p, q(in)), q(in))
		}
		if derr != nil {
			c12.Fail(t, "C12.decode-error", fmt.Sprintf("well-formed reply %s rejected: %v", q(in[:used]), derr), q(in))
		}
		if got := msgToValue(msgs[0]); !resp.Equal(got, want) {
			c12.Fail(t, "C12.decode-equal", fmt.Sprintf("decoded %v, independent decoder %v (input %s)", got, want, q(in[:used])), q(in))
		}
		if left := br.Buffered() + len(sr.Data); left != len(in)-used {
			c12.Fail(t, "C12.decode-consumes-exactly", fmt.Sprintf("%d bytes left after decoding, want %d (input %s)", left, len(in)-used, q(in)), q(in))
		}
	})
}

// FuzzVerif_C15_Accessors: whatever rueidis decodes, no typed accessor panics and errors/nulls
// propagate (C15).
func FuzzVerif_C15_Accessors(f *testing.F) {
	c := stat.For("C15", "fuzz-accessors").Rule("native go fuzzing over reply bytes; every input that readNextMessage accepts is passed to every exported accessor of RedisMessage and RedisResult by reflection; oracle as C15 (no panic; null -> Nil, error reply -> *RedisError, wrong top-level type -> parse error); non-trivial = the decoded reply is an aggregate")
	defer c.Flush()
	fuzzSeeds(f)
	f.Fuzz(func(t *testing.T, in []byte, split, bufExp uint8) {
		if len(in) > 1<<12 {
			return
		}
		sizes, bufsz := fuzzSplit(split, bufExp)
		var msgs []RedisMessage
		var err error
		if p := catchPanic(func() { msgs, _, _, err = decodeAll(in, sizes, bufsz, 1) }); p != nil || err != nil || len(msgs) != 1 {
			return
		}
		m := msgs[0]
		nt := m.typ == typeArray || m.typ == typeMap || m.typ == typeSet || m.typ == typePush
		c.Eval(nt, in)
		c.Sample(nt, func() any { return q(in) })
		fuzzTick(c)
		saveLastCase("c15fuzz", in)
		c15Apply(c, t, m, q(in))
	})
}

// FuzzVerif_C17_Cache: the fuzzer's bytes are read as a well-formed reply (strict reader), that
// reply is marshalled and must round-trip; every truncation is rejected cleanly (C17). Bytes
// that are not a CacheMarshal output or a prefix of one are outside the property.
func FuzzVerif_C17_Cache(f *testing.F) {
	c := stat.For("C17", "fuzz-roundtrip").Rule("native go fuzzing over (reply bytes, expiry): inputs the strict RESP reader accepts (no push, no attribute) become a RedisMessage with the given 56-bit expiry; oracle as the rapid check: CacheMarshal writes CacheSize bytes, CacheUnmarshalView rebuilds an equal tree and expiry, every strict prefix yields ErrCacheUnmarshal without panicking; non-trivial = nesting >= 2")
	defer c.Flush()
	for _, sd := range []string{"$3\r\nabc\r\n", ":-5\r\n", "_\r\n", "*2\r\n$1\r\na\r\n*1\r\n:1\r\n", "%1\r\n+k\r\n,1.5\r\n", "~1\r\n#t\r\n", "*3\r\n%1\r\n+a\r\n~2\r\n:1\r\n:2\r\n$0\r\n\r\n(12345678901234567890\r\n"} {
		f.Add([]byte(sd), int64(1700000000000))
		f.Add([]byte(sd), int64(0))
	}
	f.Fuzz(func(t *testing.T, in []byte, pxat int64) {
		if len(in) > 1<<12 {
			return
		}
		rr := bufio.NewReaderSize(bytes.NewReader(in), 1<<13)
		v, err := resp.ReadStrict(rr)
		if err != nil || rgen.HasAttr(v) || hasType(v, '>') {
			return
		}
		pxat &= 1<<56 - 1
		fuzzTick(c)
		m := valueToMsg(v)
		m.setExpireAt(pxat)
		nt := rgen.Depth(v) >= 2
		c.Eval(nt, in)
		c.Sample(nt, func() any { return map[string]any{"value": v.String(), "pxat": pxat} })
		var body []byte
		if p := catchPanic(func() { body = m.CacheMarshal(nil) }); p != nil {
			c.Fail(t, "C17.marshal-panic", fmt.Sprintf("CacheMarshal panicked: %v on %v", p, v), q(in))
		}
		if len(body) != m.CacheSize() {
			c.Fail(t, "C17.size", fmt.Sprintf("CacheMarshal wrote %d bytes, CacheSize()=%d for %v", len(body), m.CacheSize(), v), q(in))
		}
		var back RedisMessage
		var uerr error
		if p := catchPanic(func() { uerr = back.CacheUnmarshalView(append([]byte(nil), body...)) }); p != nil {
			c.Fail(t, "C17.unmarshal-panic", fmt.Sprintf("CacheUnmarshalView panicked: %v", p), q(in))
		}
		if uerr != nil {
			c.Fail(t, "C17.roundtrip", fmt.Sprintf("CacheUnmarshalView failed on CacheMarshal output of %v: %v", v, uerr), q(in))
		}
		if !back.IsCacheHit() {
			c.Fail(t, "C17.cache-hit-mark", "unmarshalled message is not marked as a cache hit", q(in))
		}
		if back.getExpireAt() != pxat {
			c.Fail(t, "C17.expiry", fmt.Sprintf("expiry %d came back as %d", pxat, back.getExpireAt()), q(in))
		}
		back.attrs = nil
		if got := msgToValue(back); !resp.Equal(got, stripEnc(v)) {
			c.Fail(t, "C17.roundtrip", fmt.Sprintf("round trip changed the value: %v -> %v", v, got), q(in))
		}
		for cut := 0; cut < len(body); cut++ {
			var tm RedisMessage
			var terr error
			if p := catchPanic(func() { terr = tm.CacheUnmarshalView(append([]byte(nil), body[:cut]...)) }); p != nil {
				c.Fail(t, "C17.truncated-panic", fmt.Sprintf("CacheUnmarshalView panicked on a %d/%d byte prefix of %v: %v", cut, len(body), v, p), q(in))
			}
			if terr != ErrCacheUnmarshal {
				c.Fail(t, "C17.truncated-error", fmt.Sprintf("a %d/%d byte prefix of %v was accepted (err=%v)", cut, len(body), v, terr), q(in))
			}
		}
	})
}

func hasType(v resp.Value, t byte) bool {
	if v.T == t {
		return true
	}
	for _, e := range v.A {
		if hasType(e, t) {
			return true
		}
	}
	return false
}
