package rueidis

// Generators of structured data and of the reply shapes Redis uses for it (RESP2 flat arrays
// and RESP3 maps/doubles/nested pairs). Used by C16 (accessor == data) and, mutated, by C15.

import (
	"fmt"
	"math"
	"strconv"

	"pgregory.net/rapid"
	"verifkit/resp"
)

func genName(t *rapid.T, label string) string {
	return rapid.OneOf(
		rapid.SampledFrom([]string{"a", "b", "c", "k1", "k2", "field", "", "1", "0", "OK", "id", "score", "extra_attributes", "x y", "\r\n"}),
		rapid.StringN(0, 6, 12),
	).Draw(t, label)
}

func genFloat(t *rapid.T, label string) float64 {
	return rapid.OneOf(
		rapid.SampledFrom([]float64{0, 1, -1, 1.5, math.Inf(1), math.Inf(-1), math.NaN(), math.Copysign(0, -1), 1e21, 5e-324, math.MaxFloat64, 3.141592653589793}),
		rapid.Float64(),
	).Draw(t, label)
}

// fmtFloat2 formats a score the way Redis does in RESP2 ("%.17g", inf/-inf/nan).
func fmtFloat2(f float64) string {
	switch {
	case math.IsInf(f, 1):
		return "inf"
	case math.IsInf(f, -1):
		return "-inf"
	case math.IsNaN(f):
		return "nan"
	}
	return strconv.FormatFloat(f, 'g', 17, 64)
}

// floatVal encodes f as RESP3 double (r3) or RESP2 bulk string.
func floatVal(f float64, r3 bool) resp.Value {
	if r3 {
		return resp.Double(fmtFloat2(f))
	}
	return resp.Bulk(fmtFloat2(f))
}

func sameFloat(a, b float64) bool {
	if math.IsNaN(a) || math.IsNaN(b) {
		return math.IsNaN(a) && math.IsNaN(b)
	}
	return a == b && math.Signbit(a) == math.Signbit(b)
}

type kv struct{ K, V string }

func genPairs(t *rapid.T, label string, maxN int) []kv {
	n := rapid.IntRange(0, maxN).Draw(t, label+"N")
	out := make([]kv, n)
	for i := range out {
		out[i] = kv{genName(t, label+"K"), genName(t, label+"V")}
	}
	if n >= 2 && rapid.Bool().Draw(t, label+"Dup") {
		out[n-1].K = out[0].K // repeated field
	}
	return out
}

func pairsHaveDup(ps []kv) bool {
	seen := map[string]bool{}
	for _, p := range ps {
		if seen[p.K] {
			return true
		}
		seen[p.K] = true
	}
	return false
}

func pairsFlat(ps []kv) []resp.Value {
	out := make([]resp.Value, 0, 2*len(ps))
	for _, p := range ps {
		out = append(out, resp.Bulk(p.K), resp.Bulk(p.V))
	}
	return out
}

// pairsVal: RESP3 map or RESP2 flat array.
func pairsVal(ps []kv, r3 bool) resp.Value {
	if r3 {
		return resp.Map(pairsFlat(ps)...)
	}
	return resp.Arr(pairsFlat(ps)...)
}

func lastWins(ps []kv) map[string]string {
	m := make(map[string]string, len(ps))
	for _, p := range ps {
		m[p.K] = p.V
	}
	return m
}

type xentry struct {
	ID     string
	Fields []kv
	NilFV  bool
}

func genXEntries(t *rapid.T, label string) []xentry {
	n := rapid.IntRange(0, 3).Draw(t, label+"N")
	out := make([]xentry, n)
	for i := range out {
		out[i] = xentry{ID: fmt.Sprintf("%d-%d", rapid.IntRange(0, 9).Draw(t, label+"ms"), i), Fields: genPairs(t, label+"F", 3)}
		if rapid.IntRange(0, 7).Draw(t, label+"nil") == 0 {
			out[i].NilFV = true // XAUTOCLAIM/XCLAIM can return a nil field list for deleted entries
			out[i].Fields = nil
		}
	}
	return out
}

func xentriesVal(es []xentry, r3map bool) resp.Value {
	a := make([]resp.Value, len(es))
	for i, e := range es {
		fv := pairsVal(e.Fields, r3map)
		if e.NilFV {
			fv = resp.Null()
		}
		a[i] = resp.Arr(resp.Bulk(e.ID), fv)
	}
	return resp.Arr(a...)
}

type zs struct {
	M string
	S float64
}

func genZScores(t *rapid.T, label string, maxN int) []zs {
	n := rapid.IntRange(0, maxN).Draw(t, label+"N")
	out := make([]zs, n)
	for i := range out {
		out[i] = zs{genName(t, label+"M"), genFloat(t, label+"S")}
	}
	return out
}

// zscoresVal: shape 0 = RESP2 flat [m, "s", ...]; 1 = RESP3 nested [[m, ,s], ...]; 2 = RESP3 flat with doubles
func zscoresVal(zz []zs, shape int) resp.Value {
	var a []resp.Value
	for _, z := range zz {
		switch shape {
		case 0:
			a = append(a, resp.Bulk(z.M), floatVal(z.S, false))
		case 1:
			a = append(a, resp.Arr(resp.Bulk(z.M), floatVal(z.S, true)))
		default:
			a = append(a, resp.Bulk(z.M), floatVal(z.S, true))
		}
	}
	return resp.Arr(a...)
}

// ---- FT.SEARCH / FT.AGGREGATE

type ftdoc struct {
	Key   string
	Score float64
	Doc   []kv
}

type ftsearch struct {
	Total      int64
	Docs       []ftdoc
	WithScores bool
	NoContent  bool
}

func genFtSearch(t *rapid.T) ftsearch {
	f := ftsearch{Total: int64(rapid.IntRange(0, 1000).Draw(t, "ftTotal")), WithScores: rapid.Bool().Draw(t, "ftWS"), NoContent: rapid.Bool().Draw(t, "ftNC")}
	n := rapid.IntRange(0, 3).Draw(t, "ftN")
	for i := 0; i < n; i++ {
		d := ftdoc{Key: fmt.Sprintf("doc:%d", i)}
		if rapid.Bool().Draw(t, "ftKeyOdd") {
			d.Key = rapid.SampledFrom([]string{"k", "doc", "1.5", "7", "nan"}).Draw(t, "ftKey") + fmt.Sprint(i)
		}
		if f.WithScores {
			d.Score = float64(rapid.IntRange(0, 100).Draw(t, "ftScore")) / 4
		}
		if !f.NoContent {
			d.Doc = genPairs(t, "ftDoc", 3)
			// in RESP2 the flags are inferred from the reply: keep field lists non-ambiguous
			for j := range d.Doc {
				if d.Doc[j].K == "" {
					d.Doc[j].K = "f"
				}
			}
		}
		f.Docs = append(f.Docs, d)
	}
	return f
}

func (f ftsearch) resp2() resp.Value {
	a := []resp.Value{resp.Int(f.Total)}
	for _, d := range f.Docs {
		a = append(a, resp.Bulk(d.Key))
		if f.WithScores {
			a = append(a, resp.Bulk(strconv.FormatFloat(d.Score, 'g', -1, 64)))
		}
		if !f.NoContent {
			a = append(a, resp.Arr(pairsFlat(d.Doc)...))
		}
	}
	return resp.Arr(a...)
}

func (f ftsearch) resp3() resp.Value {
	var results []resp.Value
	for _, d := range f.Docs {
		rec := []resp.Value{resp.Bulk("id"), resp.Bulk(d.Key)}
		if f.WithScores {
			rec = append(rec, resp.Bulk("score"), resp.Double(strconv.FormatFloat(d.Score, 'g', -1, 64)))
		}
		if !f.NoContent {
			rec = append(rec, resp.Bulk("extra_attributes"), resp.Map(pairsFlat(d.Doc)...))
		}
		rec = append(rec, resp.Bulk("values"), resp.Arr())
		results = append(results, resp.Map(rec...))
	}
	return resp.Map(
		resp.Bulk("attributes"), resp.Arr(),
		resp.Bulk("format"), resp.Bulk("STRING"),
		resp.Bulk("results"), resp.Arr(results...),
		resp.Bulk("total_results"), resp.Int(f.Total),
		resp.Bulk("warning"), resp.Arr(),
	)
}

// ---- GEOSEARCH

type geoloc struct {
	Name                string
	Dist, Lon, Lat      float64
	Hash                int64
	WDist, WHash, WCoord bool
}

func genGeo(t *rapid.T) []geoloc {
	n := rapid.IntRange(0, 4).Draw(t, "geoN")
	wd, wh, wc := rapid.Bool().Draw(t, "wdist"), rapid.Bool().Draw(t, "whash"), rapid.Bool().Draw(t, "wcoord")
	out := make([]geoloc, n)
	for i := range out {
		out[i] = geoloc{Name: genName(t, "geoName"), WDist: wd, WHash: wh, WCoord: wc}
		if wd {
			out[i].Dist = float64(rapid.IntRange(1, 100000).Draw(t, "dist")) / 16
		}
		if wh {
			out[i].Hash = rapid.Int64Range(0, 1<<52).Draw(t, "hash")
		}
		if wc {
			out[i].Lon = float64(rapid.IntRange(-180*16, 180*16).Draw(t, "lon")) / 16
			out[i].Lat = float64(rapid.IntRange(-85*16, 85*16).Draw(t, "lat")) / 16
		}
	}
	return out
}

func geoVal(gs []geoloc, r3 bool) resp.Value {
	a := make([]resp.Value, len(gs))
	for i, g := range gs {
		if !g.WDist && !g.WHash && !g.WCoord {
			a[i] = resp.Bulk(g.Name)
			continue
		}
		e := []resp.Value{resp.Bulk(g.Name)}
		if g.WDist {
			e = append(e, resp.Bulk(strconv.FormatFloat(g.Dist, 'f', 4, 64))) // Redis sends distance as bulk in both protocols
		}
		if g.WHash {
			e = append(e, resp.Int(g.Hash))
		}
		if g.WCoord {
			e = append(e, resp.Arr(floatVal(g.Lon, r3), floatVal(g.Lat, r3)))
		}
		a[i] = resp.Arr(e...)
	}
	return resp.Arr(a...)
}
