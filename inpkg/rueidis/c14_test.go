package rueidis

import (
	"bufio"
	"bytes"
	"fmt"
	"strings"
	"testing"

	"pgregory.net/rapid"
	"verifkit/resp"
	"verifkit/stat"
)

var c14Boundaries = []int{0, 1, 9, 10, 11, 99, 100, 101, 999, 1000, 1001, 9999, 10000, 10001, 99999, 100000, 100001, 999999, 1000000, 1000001}

func c14Arg(t *rapid.T, budget *int) string {
	k := rapid.IntRange(0, 9).Draw(t, "argKind")
	switch {
	case k < 3:
		return string(rapid.SliceOfN(rapid.Byte(), 0, 20).Draw(t, "bin"))
	case k < 5:
		return rapid.SampledFrom([]string{"", "\r\n", "\r", "\n", "$3\r\nabc\r\n", "*1\r\n", "\x00", "GET", "k"}).Draw(t, "special")
	case k < 8:
		n := c14Boundaries[rapid.IntRange(0, 13).Draw(t, "lenSmall")]
		return strings.Repeat("x", n)
	default:
		n := c14Boundaries[rapid.IntRange(0, len(c14Boundaries)-1).Draw(t, "lenAny")]
		if n > *budget {
			n = n % 1002
		}
		*budget -= n
		b := make([]byte, n)
		for i := range b {
			b[i] = byte(i)
		}
		return string(b)
	}
}

func TestVerif_C14_WriteCmd(t *testing.T) {
	c := stat.For("C14", "writecmd").Rule("1-5 consecutive commands with argument counts and argument lengths drawn around every decimal digit boundary (9/10/11 ... 10^6+-1) and arbitrary bytes (empty, binary, CR/LF, RESP look-alikes) are written with writeCmd/flushCmd into bufio.Writers of 16 B..1 MiB and parsed back by an independent RESP parser; non-trivial = a count or length on a digit boundary >=10, or a payload containing CR/LF")
	defer c.Flush()
	rapid.Check(t, func(t *rapid.T) {
		ncmd := rapid.IntRange(1, 5).Draw(t, "ncmd")
		budget := 3 << 20
		cmds := make([][]string, ncmd)
		nt := false
		for i := range cmds {
			var n int
			if rapid.IntRange(0, 3).Draw(t, "countKind") == 0 {
				n = c14Boundaries[rapid.IntRange(1, 13).Draw(t, "argc")]
			} else {
				n = rapid.IntRange(1, 12).Draw(t, "argcSmall")
			}
			if n >= 100 {
				// many arguments: keep them short
				cmds[i] = make([]string, n)
				for j := range cmds[i] {
					cmds[i][j] = rapid.SampledFrom([]string{"a", "", "\r\n", "bb"}).Draw(t, "shortArg")
				}
			} else {
				cmds[i] = make([]string, n)
				for j := range cmds[i] {
					cmds[i][j] = c14Arg(t, &budget)
				}
			}
			if n >= 10 {
				nt = true
			}
			for _, a := range cmds[i] {
				if len(a) >= 10 || strings.ContainsAny(a, "\r\n") {
					nt = true
				}
			}
		}
		wsize := rapid.SampledFrom([]int{16, 17, 64, 4096, 65536, 1 << 20}).Draw(t, "wsize")
		useFlush := rapid.Bool().Draw(t, "flushCmd")
		var sink bytes.Buffer
		w := bufio.NewWriterSize(&sink, wsize)
		for _, cmd := range cmds {
			var err error
			if useFlush {
				err = flushCmd(w, cmd)
			} else {
				err = writeCmd(w, cmd)
			}
			if err != nil {
				c.Fail(t, "C14.write-error", fmt.Sprintf("write failed: %v", err), nil)
			}
		}
		_ = w.Flush()
		key := stat.Hash(sink.Bytes())
		c.Eval(nt, key)
		c.Sample(nt, func() any {
			shape := make([][]int, len(cmds))
			for i, cmd := range cmds {
				for _, a := range cmd {
					shape[i] = append(shape[i], len(a))
				}
			}
			return map[string]any{"arg_lengths": shape, "writer_size": wsize, "wire_prefix": q(sink.Bytes()[:min(80, sink.Len())])}
		})
		r := bufio.NewReaderSize(bytes.NewReader(sink.Bytes()), 4096)
		for i, cmd := range cmds {
			got, err := resp.ReadCommand(r)
			if err != nil {
				c.Fail(t, "C14.decodes", fmt.Sprintf("command %d (argc %d) does not parse as an array of bulk strings: %v; wire starts %s", i, len(cmd), err, q(sink.Bytes())), nil)
			}
			if len(got) != len(cmd) {
				c.Fail(t, "C14.argv-equal", fmt.Sprintf("command %d: %d args on the wire, %d issued", i, len(got), len(cmd)), nil)
			}
			for j := range cmd {
				if got[j] != cmd[j] {
					c.Fail(t, "C14.argv-equal", fmt.Sprintf("command %d arg %d (len %d): wire %s, issued %s", i, j, len(cmd[j]), q([]byte(got[j])), q([]byte(cmd[j]))), nil)
				}
			}
		}
		if r.Buffered() != 0 {
			c.Fail(t, "C14.framing", fmt.Sprintf("%d stray bytes after the last command", r.Buffered()), nil)
		}
		if _, err := r.ReadByte(); err == nil {
			c.Fail(t, "C14.framing", "stray bytes after the last command", nil)
		}
	})
}

// every argument count and length 0..20000 around each digit boundary, exhaustively (no randomness)
func TestVerif_C14_Lengths(t *testing.T) {
	c := stat.For("C14", "lengths").Rule("writeN digit loop: every length 0..12000 plus +-2 around every power of ten up to 10^12 is written as a RESP length line and compared with strconv; non-trivial = n >= 10")
	defer c.Flush()
	var ns []int
	for n := 0; n <= 12000; n++ {
		ns = append(ns, n)
	}
	for p := 10; p <= 1_000_000_000_000; p *= 10 { // a Go string cannot be longer than memory; 10^12 is far beyond any argument
		for d := -2; d <= 2; d++ {
			ns = append(ns, p+d)
		}
	}
	for _, n := range ns {
		var sink bytes.Buffer
		w := bufio.NewWriter(&sink)
		_ = writeN(w, '$', n)
		_ = w.Flush()
		want := fmt.Sprintf("$%d\r\n", n)
		c.Eval(n >= 10, n)
		if sink.String() != want {
			c.Violation("C14.length-digits", fmt.Sprintf("writeN(%d) wrote %q want %q", n, sink.String(), want), n)
			t.Fatalf("writeN(%d) wrote %q want %q", n, sink.String(), want)
		}
	}
	c.Sample(true, func() any { return map[string]any{"n": 1000000, "line": "$1000000\r\n"} })
}
