package rueidis

import (
	"errors"
	"fmt"
	"reflect"
	"testing"

	"pgregory.net/rapid"
	"verifkit/stat"
)

type scanPage struct {
	Elements []string `json:"elements"`
	Next     uint64   `json:"next"` // cursor returned with this page
	Fail     bool     `json:"fail,omitempty"`
}

func TestVerif_C46_Scanner(t *testing.T) {
	c := stat.For("C46", "scanner").Rule("page sequences (0-6 pages of 0-5 elements, arbitrary non-zero cursors incl. repeated ones, last cursor 0 or an error at page k), a consumer that stops after n elements or never, Iter and Iter2 (odd page lengths); oracle = model iterator: yielded == concatenation up to the stop, requested cursors == 0 then each returned cursor, no request after cursor 0 / stop / error, Err() == the page error; non-trivial = >=2 pages with an early stop or a failing page")
	defer c.Flush()
	pageErr := errors.New("page failed")
	rapid.Check(t, func(t *rapid.T) {
		np := rapid.IntRange(1, 6).Draw(t, "pages")
		pages := make([]scanPage, np)
		for i := range pages {
			n := rapid.IntRange(0, 5).Draw(t, "n")
			for j := 0; j < n; j++ {
				pages[i].Elements = append(pages[i].Elements, fmt.Sprintf("p%de%d", i, j))
			}
			pages[i].Next = rapid.OneOf(rapid.Uint64Range(1, 5), rapid.Uint64Min(1)).Draw(t, "cursor")
		}
		pages[np-1].Next = 0
		failAt := -1
		if rapid.IntRange(0, 3).Draw(t, "failing") == 0 {
			failAt = rapid.IntRange(0, np-1).Draw(t, "failAt")
			pages[failAt].Fail = true
		}
		total := 0
		for _, p := range pages {
			total += len(p.Elements)
		}
		stopAfter := -1 // consumer stops after receiving this many items (-1: never)
		if rapid.Bool().Draw(t, "stops") {
			stopAfter = rapid.IntRange(1, total+1).Draw(t, "stopAfter")
		}
		iter2 := rapid.Bool().Draw(t, "iter2")

		// model
		var wantItems []string
		var wantCursors []uint64
		var wantErr error
		cur := uint64(0)
		stopped := false
		for i := 0; i < np && !stopped; i++ {
			wantCursors = append(wantCursors, cur)
			if pages[i].Fail {
				wantErr = pageErr
				break
			}
			els := pages[i].Elements
			if iter2 {
				els = els[:len(els)/2*2]
			}
			step := 1
			if iter2 {
				step = 2
			}
			for j := 0; j < len(els); j += step {
				wantItems = append(wantItems, els[j:j+step]...)
				if stopAfter >= 0 && len(wantItems)/step >= stopAfter {
					stopped = true
					break
				}
			}
			cur = pages[i].Next
			if cur == 0 {
				break
			}
		}

		var gotCursors []uint64
		idx := 0
		sc := NewScanner(func(cursor uint64) (ScanEntry, error) {
			gotCursors = append(gotCursors, cursor)
			if idx >= np {
				return ScanEntry{}, errors.New("harness: scanner asked for a page beyond the sequence")
			}
			p := pages[idx]
			idx++
			if p.Fail {
				return ScanEntry{}, pageErr
			}
			return ScanEntry{Elements: p.Elements, Cursor: p.Next}, nil
		})
		var gotItems []string
		count := 0
		if iter2 {
			for a, b := range sc.Iter2() {
				gotItems = append(gotItems, a, b)
				count++
				if stopAfter >= 0 && count >= stopAfter {
					break
				}
			}
		} else {
			for a := range sc.Iter() {
				gotItems = append(gotItems, a)
				count++
				if stopAfter >= 0 && count >= stopAfter {
					break
				}
			}
		}
		nt := np >= 2 && (stopped || failAt >= 0)
		cas := map[string]any{"pages": pages, "stop_after": stopAfter, "iter2": iter2}
		c.Eval(nt, fmt.Sprint(pages, stopAfter, iter2), fmt.Sprintf("iter2=%v", iter2))
		c.Sample(nt, func() any { return cas })
		if len(gotItems) != len(wantItems) || (len(wantItems) > 0 && !reflect.DeepEqual(gotItems, wantItems)) {
			c.Fail(t, "C46.elements", fmt.Sprintf("yielded %q want %q", gotItems, wantItems), cas)
		}
		if !reflect.DeepEqual(gotCursors, wantCursors) {
			c.Fail(t, "C46.cursors", fmt.Sprintf("requested cursors %v want %v", gotCursors, wantCursors), cas)
		}
		if sc.Err() != wantErr {
			c.Fail(t, "C46.err", fmt.Sprintf("Err()=%v want %v", sc.Err(), wantErr), cas)
		}
	})
}
