package rueidis

import (
	"bufio"
	"bytes"
	"errors"
	"fmt"
	"os"
	"reflect"
	"sort"
	"strings"
	"testing"

	"pgregory.net/rapid"
	"verifkit/resp"
	"verifkit/rgen"
	"verifkit/stat"
)

// ---- the accessor table: every exported zero-argument method of *RedisMessage and
// RedisResult found by reflection, plus DecodeJSON and DecodeSliceOfJSON.

type accessorCall struct {
	Name   string
	IsErr  bool  // last result is an error
	Err    error // the returned error (if IsErr)
	Panic  any
	Result []reflect.Value
}

var errType = reflect.TypeOf((*error)(nil)).Elem()

func callAll(recv reflect.Value, prefix string) []accessorCall {
	var out []accessorCall
	rt := recv.Type()
	for i := 0; i < rt.NumMethod(); i++ {
		m := rt.Method(i)
		mt := m.Type
		if mt.NumIn() != 1 { // receiver only
			continue
		}
		switch m.Name {
		case "CacheMarshal", "CacheUnmarshalView", "CachePTTL", "CacheTTL": // no reply access or wall clock
			continue
		}
		ac := accessorCall{Name: prefix + m.Name}
		ac.IsErr = mt.NumOut() > 0 && mt.Out(mt.NumOut()-1) == errType
		ac.Panic = catchPanic(func() { ac.Result = recv.Method(i).Call(nil) })
		if ac.Panic == nil && ac.IsErr {
			if e := ac.Result[len(ac.Result)-1]; !e.IsNil() {
				ac.Err = e.Interface().(error)
			}
		}
		out = append(out, ac)
	}
	return out
}

func applyAccessors(m RedisMessage) []accessorCall {
	mm := m
	out := callAll(reflect.ValueOf(&mm), "Message.")
	res := NewResult(m, nil)
	out = append(out, callAll(reflect.ValueOf(res), "Result.")...)
	out = append(out, callAll(reflect.ValueOf(&res), "ResultPtr.")...)
	extra := func(name string, f func() error) {
		ac := accessorCall{Name: name, IsErr: true}
		ac.Panic = catchPanic(func() { ac.Err = f() })
		out = append(out, ac)
	}
	extra("Message.DecodeJSON", func() error { var v any; return mm.DecodeJSON(&v) })
	extra("Result.DecodeJSON", func() error { var v any; return res.DecodeJSON(&v) })
	extra("DecodeSliceOfJSON", func() error { var v []any; return DecodeSliceOfJSON(res, &v) })
	extra("DecodeSliceOfJSON[struct]", func() error { var v []struct{ A int }; return DecodeSliceOfJSON(res, &v) })
	return out
}

// accessors whose error result follows the nil/error-reply propagation rule
func propagates(name string) bool {
	base := name[strings.IndexByte(name, '.')+1:]
	switch base {
	case "Error", "NonRedisError":
		return false
	}
	if strings.HasPrefix(name, "DecodeSliceOfJSON") {
		return true
	}
	return strings.HasPrefix(base, "To") || strings.HasPrefix(base, "As") || base == "DecodeJSON"
}

// wrongTypeMustFail: accessor base name -> reply types on which the accessor has no
// meaningful answer and the property demands a parse error.
var scalarTypes = "+$=,(:#"
var aggTypes = "*~%"

var wrongType = map[string]string{
	"ToInt64":   "+$=,(#*~%>",
	"ToBool":    "+$=,(:*~%>",
	"ToFloat64": "+$=(:#*~%>",
	"ToArray":   "+$=,(:#%>",
	"ToMap":     "+$=,(:#*~>",
	"ToString":  ":*~%>",
	"AsStrSlice": "+$=,(:#%>", "AsIntSlice": "+$=,(:#%>", "AsFloatSlice": "+$=,(:#%>", "AsBoolSlice": "+$=,(:#%>",
	"AsXRange": "+$=,(:#%>", "AsXRangeEntry": "+$=,(:#%>", "AsXRangeSlice": "+$=,(:#%>", "AsXRangeSlices": "+$=,(:#%>",
	"AsZScore": "+$=,(:#%>", "AsZScores": "+$=,(:#%>", "AsScanEntry": "+$=,(:#%>", "AsGeosearch": "+$=,(:#%>",
	"AsMap": "+$=,(:#>", "AsStrMap": "+$=,(:#>", "AsIntMap": "+$=,(:#>",
	"AsXRead": "+$=,(:#>", "AsXReadSlices": "+$=,(:#>",
}

func c15Apply(c *stat.Collector, t stat.Fataler, m RedisMessage, desc string) {
	top := m.typ
	for _, ac := range applyAccessors(m) {
		base := ac.Name[strings.IndexByte(ac.Name, '.')+1:]
		if ac.Panic != nil {
			id := "C15.panic." + base
			if c.Known(id) {
				continue
			}
			c.Fail(t, "C15.no-panic", fmt.Sprintf("%s panicked on %s: %v", ac.Name, desc, ac.Panic), desc)
		}
		if !ac.IsErr || !propagates(ac.Name) {
			continue
		}
		switch {
		case top == typeNull:
			if ac.Err != Nil {
				c.Fail(t, "C15.nil-propagates", fmt.Sprintf("%s on a null reply returned err=%v, want Nil", ac.Name, ac.Err), desc)
			}
		case top == typeSimpleErr || top == typeBlobErr:
			var re *RedisError
			if !errors.As(ac.Err, &re) || re == Nil {
				c.Fail(t, "C15.error-propagates", fmt.Sprintf("%s on an error reply %s returned err=%v, want *RedisError", ac.Name, desc, ac.Err), desc)
			}
		default:
			if wt, ok := wrongType[base]; ok && strings.IndexByte(wt, top) >= 0 {
				if ac.Err == nil {
					c.Fail(t, "C15.wrong-shape-error", fmt.Sprintf("%s on a reply of type %q (%s) returned no error", ac.Name, string(top), desc), desc)
				} else if strings.HasPrefix(base, "To") && !IsParseErr(ac.Err) {
					c.Fail(t, "C15.wrong-shape-error", fmt.Sprintf("%s on a reply of type %q returned %v, which is not a parse error", ac.Name, string(top), ac.Err), desc)
				}
			}
		}
	}
	// a transport / non-redis error must come back from every accessor of RedisResult
	other := errors.New("other")
	for _, ac := range callAll(reflect.ValueOf(NewErrorResult(other)), "ErrResult.") {
		if ac.Panic != nil {
			c.Fail(t, "C15.no-panic", fmt.Sprintf("%s panicked on an error result: %v", ac.Name, ac.Panic), desc)
		}
		if ac.IsErr && propagates(ac.Name) && ac.Err != other {
			c.Fail(t, "C15.error-propagates", fmt.Sprintf("%s on a failed result returned err=%v", ac.Name, ac.Err), desc)
		}
	}
}

// mutateTree removes, retypes or nulls one element somewhere in the tree and may turn a map
// into a streamed map with an odd number of children (which the decoder accepts).
func mutateTree(t *rapid.T, v resp.Value, depth int) resp.Value {
	if len(v.A) == 0 || rapid.IntRange(0, 2).Draw(t, "mutHere") == 0 || depth > 4 {
		switch rapid.IntRange(0, 6).Draw(t, "mutKind") {
		case 0:
			if len(v.A) > 0 {
				i := rapid.IntRange(0, len(v.A)-1).Draw(t, "mutDrop")
				v.A = append(append([]resp.Value{}, v.A[:i]...), v.A[i+1:]...)
				if v.T == '%' {
					v.Stream = true // only a streamed map can carry an odd number of children
				}
			}
		case 1:
			return resp.Null()
		case 2:
			return resp.Int(int64(rapid.IntRange(-1, 3).Draw(t, "mutInt")))
		case 3:
			return resp.Arr()
		case 4:
			return resp.Bulk(rapid.SampledFrom([]string{"", "x", "1", "nan", "OK"}).Draw(t, "mutStr"))
		case 5:
			if len(v.A) > 0 {
				v.A = v.A[:rapid.IntRange(0, len(v.A)-1).Draw(t, "mutTrunc")]
				if v.T == '%' {
					v.Stream = true
				}
			}
		case 6:
			return resp.Map()
		}
		return v
	}
	i := rapid.IntRange(0, len(v.A)-1).Draw(t, "mutChild")
	a := append([]resp.Value{}, v.A...)
	a[i] = mutateTree(t, a[i], depth+1)
	v.A = a
	return v
}

func genShaped(t *rapid.T) (resp.Value, string) {
	r3 := rapid.Bool().Draw(t, "r3")
	switch rapid.IntRange(0, 9).Draw(t, "shape") {
	case 0:
		return zscoresVal(genZScores(t, "z", 3), rapid.IntRange(0, 2).Draw(t, "zshape")), "zscores"
	case 1:
		return xentriesVal(genXEntries(t, "x"), r3), "xrange"
	case 2:
		es := genXEntries(t, "x")
		if r3 {
			return resp.Map(resp.Bulk("s1"), xentriesVal(es, false), resp.Bulk("s2"), xentriesVal(es, false)), "xread3"
		}
		return resp.Arr(resp.Arr(resp.Bulk("s1"), xentriesVal(es, false))), "xread2"
	case 3:
		f := genFtSearch(t)
		if r3 {
			return f.resp3(), "ftsearch3"
		}
		return f.resp2(), "ftsearch2"
	case 4:
		return geoVal(genGeo(t), r3), "geo"
	case 5:
		return pairsVal(genPairs(t, "p", 4), r3), "pairs"
	case 6:
		return resp.Arr(resp.Bulk("7"), resp.Bulks("a", "b")), "scan"
	case 7:
		return resp.Arr(resp.Bulk("k"), zscoresVal(genZScores(t, "z", 3), 1)), "zmpop"
	case 8:
		f := genFtSearch(t)
		return resp.Arr(f.resp3(), resp.Int(5)), "ftcursor"
	default:
		rows := []resp.Value{resp.Int(2), resp.Arr(pairsFlat(genPairs(t, "agg", 3))...), resp.Arr(pairsFlat(genPairs(t, "agg", 3))...)}
		return resp.Arr(rows...), "ftaggregate2"
	}
}

func decodeValue(v resp.Value) (RedisMessage, error) {
	return readNextMessage(bufio.NewReader(bytes.NewReader(resp.Append(nil, v))))
}

func oddOrEmpty(v resp.Value) bool {
	if v.T == '%' && len(v.A)%2 == 1 {
		return true
	}
	if (v.T == '*' || v.T == '~' || v.T == '%') && len(v.A) == 0 {
		return true
	}
	for _, e := range v.A {
		if oddOrEmpty(e) {
			return true
		}
	}
	return false
}

func TestVerif_C15_Accessors(t *testing.T) {
	c := stat.For("C15", "accessors").Rule("reply trees come from (a) the full value-tree generator, (b) valid reply shapes of every structured helper (scores, streams, XREAD, FT.SEARCH/AGGREGATE RESP2+RESP3, GEOSEARCH, pairs, scan, ZMPOP) with 1-3 mutations (element removed/retyped/nulled/truncated, odd streamed maps); each tree goes through the real decoder and then through every exported zero-argument accessor of RedisMessage and RedisResult found by reflection plus DecodeJSON and DecodeSliceOfJSON; oracle: no panic, null => Nil, error reply => *RedisError, failed result => its error, unambiguous wrong type => (parse) error; non-trivial = an aggregate with an odd or empty child list, or a mutated shape")
	defer c.Flush()
	if p := os.Getenv("VERIF_REPLAY"); p != "" && !strings.HasSuffix(p, ".fail") {
		in, _ := os.ReadFile(p)
		m, err := readNextMessage(bufio.NewReader(bytes.NewReader(in)))
		if err == nil {
			c15Apply(c, t, m, q(in))
		}
		c.Eval(true, "replay1")
		c.Eval(true, "replay2")
		return
	}
	rapid.Check(t, func(t *rapid.T) {
		var v resp.Value
		kind := "tree"
		mutated := false
		if rapid.IntRange(0, 2).Draw(t, "source") == 0 {
			v = rgen.Value(t, rgen.Full)
			if rapid.Bool().Draw(t, "mutTree") {
				v = mutateTree(t, v, 0)
				mutated = true
			}
		} else {
			v, kind = genShaped(t)
			n := rapid.IntRange(0, 3).Draw(t, "mutations")
			for i := 0; i < n; i++ {
				v = mutateTree(t, v, 0)
				mutated = true
			}
		}
		if v.T == '>' {
			v.T = '*'
		}
		enc := resp.Append(nil, v)
		saveLastCase("c15", enc)
		m, err := decodeValue(v)
		if err != nil {
			c.Inconclusive("harness-encoding-rejected")
			return
		}
		nt := oddOrEmpty(v) || mutated
		c.Eval(nt, enc, "src="+kind)
		c.Sample(nt, func() any { return map[string]any{"source": kind, "reply": q(enc)} })
		c15Apply(c, t, m, q(enc))
	})
}

var redirectTexts = []string{"MOVED 1 h:1", "ASK 1 h:1", "REDIRECT h:1", "MOVED 1 ::1:6379", "ASK 16383 [::1]:6379", "MOVED 1 127.0.0.1:6379", "REDIRECT ::1:6379",
	"MOVED 1 :6379", "MOVED 1 host", "MOVED  1", "ASK", "REDIRECT", "MOVED 1 h:1 extra", "TRYAGAIN x", "LOADING x", "CLUSTERDOWN x", "NOSCRIPT x", "BUSYGROUP x", "ERR x", ""}

func TestVerif_C15_ErrorClassifiers(t *testing.T) {
	c := stat.For("C15", "classifiers").Rule("error texts: every prefix of a dictionary of MOVED/ASK/REDIRECT/TRYAGAIN/... texts (IPv4, IPv6, bracketed, missing parts), the same with one byte changed, and random printable text; every RedisError method found by reflection plus IsRedisErr/IsRedisBusyGroup/IsParseErr/IsRedisNil is applied; oracle: no panic, and a complete MOVED/ASK/REDIRECT text yields its address; non-trivial = a truncated redirect text")
	defer c.Flush()
	// exhaustive part: every prefix of every dictionary text
	var texts []string
	for _, s := range redirectTexts {
		for i := 0; i <= len(s); i++ {
			texts = append(texts, s[:i])
		}
	}
	sort.Strings(texts)
	apply := func(t stat.Fataler, text string) {
		m := strmsg('-', text)
		re := (*RedisError)(&m)
		for _, ac := range callAll(reflect.ValueOf(re), "RedisError.") {
			if ac.Panic != nil {
				if c.Known("C15.panic.redirect-short") {
					continue
				}
				c.Fail(t, "C15.no-panic", fmt.Sprintf("%s panicked on error text %q: %v", ac.Name, text, ac.Panic), text)
			}
		}
		if p := catchPanic(func() { IsRedisErr(re); IsRedisBusyGroup(re); IsParseErr(re); IsRedisNil(re) }); p != nil {
			c.Fail(t, "C15.no-panic", fmt.Sprintf("Is* helpers panicked on %q: %v", text, p), text)
		}
		mm := m
		if err := mm.Error(); err == nil {
			c.Fail(t, "C15.error-propagates", fmt.Sprintf("error reply %q has nil Error()", text), text)
		}
	}
	for _, s := range texts {
		isRedirect := strings.HasPrefix(s, "MOVED") || strings.HasPrefix(s, "ASK") || strings.HasPrefix(s, "REDIRECT")
		c.Eval(isRedirect && len(strings.Fields(s)) < 3, "prefix:"+s)
		apply(t, s)
	}
	c.Sample(true, func() any { return "MOVED 1" })
	// complete texts give their address
	for _, tc := range []struct{ text, kind, addr string }{
		{"MOVED 1 h:1", "moved", "h:1"}, {"ASK 1 h:1", "ask", "h:1"}, {"REDIRECT h:1", "redirect", "h:1"},
		{"MOVED 1 127.0.0.1:6379", "moved", "127.0.0.1:6379"}, {"MOVED 1 ::1:6379", "moved", "[::1]:6379"}, {"ASK 16383 [::1]:6379", "ask", "[::1]:6379"},
	} {
		m := strmsg('-', tc.text)
		re := (*RedisError)(&m)
		var addr string
		var ok bool
		switch tc.kind {
		case "moved":
			addr, ok = re.IsMoved()
		case "ask":
			addr, ok = re.IsAsk()
		default:
			addr, ok = re.IsRedirect()
		}
		if !ok || addr != tc.addr {
			c.Violation("C15.redirect-address", fmt.Sprintf("%q classified as %v,%q want %q", tc.text, ok, addr, tc.addr), tc.text)
			t.Fatalf("%q classified as %v,%q", tc.text, ok, addr)
		}
	}
	rapid.Check(t, func(t *rapid.T) {
		var s string
		if rapid.Bool().Draw(t, "fromDict") {
			s = rapid.SampledFrom(texts).Draw(t, "text")
			if len(s) > 0 && rapid.Bool().Draw(t, "flip") {
				b := []byte(s)
				b[rapid.IntRange(0, len(b)-1).Draw(t, "pos")] = rapid.SampledFrom([]byte{' ', ':', '[', ']', 'M', '0', '.'}).Draw(t, "byte")
				s = string(b)
			}
		} else {
			s = rapid.StringMatching(`(MOVED|ASK|REDIRECT|moved|)[ :\[\]a-z0-9.]{0,12}`).Draw(t, "rand")
		}
		isRedirect := strings.HasPrefix(s, "MOVED") || strings.HasPrefix(s, "ASK") || strings.HasPrefix(s, "REDIRECT")
		nt := isRedirect && len(strings.Split(s, " ")) < 3
		c.Eval(nt, "gen:"+s)
		c.Sample(nt, func() any { return s })
		apply(t, s)
	})
}
