package cmds

// C33 (part a) "Built commands carry exactly the caller's arguments".
//
// The reflection walker is driven with sentinel arguments: every value handed to a builder
// method is unique within the walk and recognisable after formatting. The oracle never looks
// at the generator's code: it knows what was passed (walkResult.Steps), the command
// specification hack/cmds/*.json (command tokens and keywords) and the textual forms the
// property names (base-10 integers, shortest round-trip floats, seconds/milliseconds).

import (
	"fmt"
	"iter"
	"math"
	"reflect"
	"strconv"
	"strings"
	"testing"
	"time"

	"pgregory.net/rapid"
	"verifkit/stat"
)

const c33Marker = "§"

// c33Args produces sentinel arguments. set 0 is the primary sentinel set (with occasional
// extreme values), set 1 is a disjoint second set used for the metamorphic replay; a replay
// re-uses the variadic lengths recorded by the primary generator so both argvs have one shape.
type c33Args struct {
	set    int
	n      int
	lens   []int // variadic lengths: recorded (set 0) or consumed (replay)
	replay bool
	used   map[string]bool
}

func (g *c33Args) next() int { g.n++; return g.n }

func (g *c33Args) once(k string) bool {
	if g.used == nil {
		g.used = map[string]bool{}
	}
	if g.used[k] {
		return false
	}
	g.used[k] = true
	return true
}

func (g *c33Args) length(t *rapid.T, label string) int {
	if g.replay {
		if len(g.lens) == 0 {
			return 1
		}
		n := g.lens[0]
		g.lens = g.lens[1:]
		return n
	}
	n := rapid.SampledFrom([]int{1, 1, 2, 2, 3, 0}).Draw(t, label)
	g.lens = append(g.lens, n)
	return n
}

func (g *c33Args) Str(t *rapid.T, root, method string, idx int) string {
	n := g.next()
	if g.set == 1 {
		return fmt.Sprintf("%sB%d%s", c33Marker, n, c33Marker)
	}
	base := fmt.Sprintf("%sA%d%s", c33Marker, n, c33Marker)
	switch rapid.IntRange(0, 9).Draw(t, "strVariant") {
	case 0:
		return base + "\r\n"
	case 1:
		return base + "\x00"
	case 2:
		return base + " with space"
	case 3:
		return "EX" + base // looks like a keyword
	case 4:
		return "-1" + base // looks like a number
	case 5:
		return base + "\"'\\{}*$"
	}
	return base
}

func (g *c33Args) Strs(t *rapid.T, root, method string) []string {
	n := g.length(t, "nstr")
	out := make([]string, n)
	for i := range out {
		out[i] = g.Str(t, root, method, i)
	}
	return out
}

func (g *c33Args) Int(t *rapid.T, root, method string, idx int) int64 {
	n := int64(g.next())
	if g.set == 1 {
		return 8_000_000 + n
	}
	switch rapid.IntRange(0, 11).Draw(t, "intVariant") {
	case 0:
		if g.once("maxint") {
			return math.MaxInt64
		}
	case 1:
		if g.once("minint") {
			return math.MinInt64
		}
	case 2:
		return -(7_000_000 + n)
	}
	return 7_000_000 + n
}

func (g *c33Args) Uint(t *rapid.T, root, method string, idx int) uint64 {
	n := uint64(g.next())
	if g.set == 1 {
		return 9_500_000 + n
	}
	if rapid.IntRange(0, 5).Draw(t, "uintVariant") == 0 && g.once("maxuint") {
		return math.MaxUint64
	}
	return 9_000_000 + n
}

func (g *c33Args) Float(t *rapid.T, root, method string, idx int) float64 {
	n := float64(g.next())
	if g.set == 1 {
		return 1017.0625 + n
	}
	switch rapid.IntRange(0, 11).Draw(t, "floatVariant") {
	case 0:
		if g.once("1e21") {
			return 1e21
		}
	case 1:
		if g.once("denormal") {
			return 5e-324
		}
	case 2:
		if g.once("negzero") {
			return math.Copysign(0, -1)
		}
	case 3:
		if g.once("maxfloat") {
			return math.MaxFloat64
		}
	case 4:
		return -(17.03125 + n)
	case 5:
		return 0.1 + n // not exactly representable: the shortest form matters
	}
	return 17.03125 + n
}

func (g *c33Args) Dur(t *rapid.T, root, method string) time.Duration {
	n := time.Duration(g.next())
	if g.set == 1 {
		return (5000+n)*time.Second + 250*time.Millisecond + 3*time.Microsecond
	}
	return (3000+n)*time.Second + 500*time.Millisecond + 7*time.Microsecond
}

func (g *c33Args) Time(t *rapid.T, root, method string) time.Time {
	n := int64(g.next())
	if g.set == 1 {
		return time.Unix(1_800_000_000+n, 987_654_321)
	}
	return time.Unix(1_700_000_000+n, 123_456_789)
}

func (g *c33Args) N(t *rapid.T, root, method string) int { return g.length(t, "nnum") }

// ---------------------------------------------------------------------------------------

type c33Sent struct {
	Kind   string   `json:"kind"`
	Alts   []string `json:"alts"` // acceptable textual forms
	Step   int      `json:"step"`
	Method string   `json:"method"`
	Pair   int      `json:"pair,omitempty"` // >0: member/score pair of an iterator, order inside the pair is free
	Raw    int64    `json:"raw,omitempty"`  // duration (ns) or time (unix ns)
}

func (s c33Sent) accepts(e string) bool {
	for _, a := range s.Alts {
		if a == e {
			return true
		}
	}
	return false
}

func c33FloatAlts(f float64, is32 bool) []string {
	out := []string{strconv.FormatFloat(f, 'f', -1, 64), strconv.FormatFloat(f, 'g', -1, 64), strconv.FormatFloat(f, 'e', -1, 64)}
	if is32 {
		out = append(out, strconv.FormatFloat(f, 'f', -1, 32), strconv.FormatFloat(f, 'g', -1, 32), strconv.FormatFloat(f, 'e', -1, 32))
	}
	// every form must parse back to exactly the value that was passed
	keep := out[:0]
	for _, s := range out {
		bits := 64
		if is32 {
			bits = 32
		}
		v, err := strconv.ParseFloat(s, bits)
		if err == nil && math.Float64bits(v) == math.Float64bits(f) {
			keep = append(keep, s)
		}
	}
	return keep
}

func c33FloorDiv(a, b int64) int64 {
	q := a / b
	if a%b != 0 && (a < 0) != (b < 0) {
		q--
	}
	return q
}

// c33Expected lists the caller's arguments of a walk in call order with their acceptable forms.
func c33Expected(w walkResult) (exp []c33Sent) {
	pair := 0
	for si, st := range w.Steps {
		for _, a := range st.Args {
			mk := func(kind string, alts ...string) c33Sent {
				return c33Sent{Kind: kind, Alts: alts, Step: si, Method: st.Method}
			}
			switch a.Kind {
			case "string", "bytes", "kv":
				for _, s := range a.Strs {
					exp = append(exp, mk("string", s))
				}
			case "int64":
				for _, i := range a.I {
					exp = append(exp, mk("int64", strconv.FormatInt(i, 10)))
				}
			case "uint64":
				for _, u := range a.U {
					exp = append(exp, mk("uint64", strconv.FormatUint(u, 10)))
				}
			case "float64", "float32":
				for _, f := range a.F {
					exp = append(exp, mk(a.Kind, c33FloatAlts(f, a.Kind == "float32")...))
				}
			case "kf":
				for i := range a.Strs {
					pair++
					m := mk("string", a.Strs[i])
					m.Pair = pair
					f := mk("float64", c33FloatAlts(a.F[i], false)...)
					f.Pair = pair
					exp = append(exp, m, f)
				}
			case "duration":
				d := a.I[0]
				s := mk("duration", strconv.FormatInt(d/1e9, 10), strconv.FormatInt(d/1e6, 10), strconv.FormatInt(d/1e3, 10), strconv.FormatInt(d, 10))
				s.Raw = d
				exp = append(exp, s)
			case "time":
				ns := a.I[0]
				s := mk("time", strconv.FormatInt(c33FloorDiv(ns, 1e9), 10), strconv.FormatInt(c33FloorDiv(ns, 1e6), 10), strconv.FormatInt(c33FloorDiv(ns, 1e3), 10), strconv.FormatInt(ns, 10))
				s.Raw = ns
				exp = append(exp, s)
			}
		}
	}
	return
}

// c33Distinct: all acceptable forms of different sentinels are different and none is a bare zero
// (otherwise a sentinel could be confused with another element and the case proves nothing).
func c33Distinct(exp []c33Sent) bool {
	seen := map[string]int{}
	for i, s := range exp {
		if len(s.Alts) == 0 {
			return false
		}
		for _, a := range s.Alts {
			if a == "0" || a == "" {
				return false
			}
			if j, ok := seen[a]; ok && j != i {
				return false
			}
			seen[a] = i
		}
	}
	return true
}

// c33Match aligns argv with the expected sentinels. pos[i] is the argv index of exp[i]; rest
// lists the argv indexes that are not caller arguments.
func c33Match(argv []string, exp []c33Sent) (pos []int, rest []int, problem string) {
	exp = append([]c33Sent(nil), exp...)
	union := map[string]bool{}
	for _, s := range exp {
		for _, a := range s.Alts {
			union[a] = true
		}
	}
	pos = make([]int, len(exp))
	p := 0
	for i, e := range argv {
		if p < len(exp) && exp[p].accepts(e) {
			pos[p] = i
			p++
			continue
		}
		if p+1 < len(exp) && exp[p].Pair > 0 && exp[p+1].Pair == exp[p].Pair && exp[p+1].accepts(e) {
			exp[p], exp[p+1] = exp[p+1], exp[p]
			exp[p+1].Pair = -1 // the pair is now fixed
			pos[p] = i
			p++
			continue
		}
		if strings.Contains(e, c33Marker) || union[e] {
			want := "none (all arguments already emitted)"
			if p < len(exp) {
				want = fmt.Sprintf("%q (argument of %s)", exp[p].Alts, exp[p].Method)
			}
			return nil, nil, fmt.Sprintf("argv[%d]=%q is a caller argument that is altered, repeated or out of call order; next expected: %s", i, e, want)
		}
		rest = append(rest, i)
	}
	if p < len(exp) {
		return nil, nil, fmt.Sprintf("the %s argument passed to %s (step %d), expected as one of %q, is missing from the argv (or not in the required textual form)", exp[p].Kind, exp[p].Method, exp[p].Step, exp[p].Alts)
	}
	return pos, rest, ""
}

// c33ArgValue rebuilds the reflect value of a recorded argument.
func c33ArgValue(pt reflect.Type, a wArg) reflect.Value {
	switch {
	case pt == tDuration:
		return reflect.ValueOf(time.Duration(a.I[0]))
	case pt == tTime:
		return reflect.ValueOf(time.Unix(0, a.I[0]))
	case pt == tSeqSS:
		flat := a.Strs
		return reflect.ValueOf(iter.Seq2[string, string](func(yield func(string, string) bool) {
			for i := 0; i+1 < len(flat); i += 2 {
				if !yield(flat[i], flat[i+1]) {
					return
				}
			}
		}))
	case pt == tSeqSF:
		ks, fs := a.Strs, a.F
		return reflect.ValueOf(iter.Seq2[string, float64](func(yield func(string, float64) bool) {
			for i := range ks {
				if !yield(ks[i], fs[i]) {
					return
				}
			}
		}))
	}
	switch pt.Kind() {
	case reflect.String:
		return reflect.ValueOf(a.Strs[0]).Convert(pt)
	case reflect.Int64, reflect.Int:
		return reflect.ValueOf(a.I[0]).Convert(pt)
	case reflect.Uint64:
		return reflect.ValueOf(a.U[0]).Convert(pt)
	case reflect.Float64:
		return reflect.ValueOf(a.F[0])
	case reflect.Bool:
		return reflect.ValueOf(a.Strs[0] == "1")
	case reflect.Slice:
		switch pt.Elem().Kind() {
		case reflect.String:
			return reflect.ValueOf(append([]string{}, a.Strs...))
		case reflect.Int64:
			return reflect.ValueOf(append([]int64{}, a.I...))
		case reflect.Uint64:
			return reflect.ValueOf(append([]uint64{}, a.U...))
		case reflect.Float64:
			return reflect.ValueOf(append([]float64{}, a.F...))
		case reflect.Float32:
			fs := make([]float32, len(a.F))
			for i, f := range a.F {
				fs[i] = float32(f)
			}
			return reflect.ValueOf(fs)
		case reflect.Uint8:
			return reflect.ValueOf([]byte(a.Strs[0]))
		}
	}
	panic(fmt.Sprintf("c33: unsupported parameter type %v", pt))
}

// c33Rebuild runs the method path of w again with exactly the recorded arguments and then calls
// the final method (Build or Cache) and, on the same incomplete value, a second completion
// method. It returns the argv of the first completion and the panic value of the second.
func c33Rebuild(b Builder, w walkResult, second string) (argv []string, secondPanic any, secondTried bool, problem string) {
	defer func() {
		if r := recover(); r != nil {
			if isRapidControl(r) {
				panic(r)
			}
			problem = fmt.Sprint("rebuild panicked: ", r)
		}
	}()
	cur := reflect.ValueOf(b)
	for si, s := range w.Steps {
		m := cur.MethodByName(s.Method)
		mt := m.Type()
		in := make([]reflect.Value, mt.NumIn())
		for i := range in {
			in[i] = c33ArgValue(mt.In(i), s.Args[i])
		}
		if si == len(w.Steps)-1 {
			// completion: first call, then a second completion on the same value
			out := m.Call(in)[0]
			switch out.Type() {
			case tCompleted:
				c := out.Interface().(Completed)
				argv = append([]string(nil), c.cs.s...)
			case tCacheable:
				c := out.Interface().(Cacheable)
				argv = append([]string(nil), c.cs.s...)
			default:
				return nil, nil, false, "last step is not a completion"
			}
			m2 := cur.MethodByName(second)
			if !m2.IsValid() {
				return argv, nil, false, ""
			}
			secondTried = true
			secondPanic = catch(func() { m2.Call(nil) })
			if secondPanic == nil {
				secondPanic = "no panic"
			}
			return
		}
		if mt.IsVariadic() {
			cur = m.CallSlice(in)[0]
		} else {
			cur = m.Call(in)[0]
		}
	}
	return nil, nil, false, "empty path"
}

type c33Case struct {
	W      walkResult `json:"walk"`
	Replay []string   `json:"replay_argv,omitempty"`
}

func c33UnitOf(keyword, method string) string {
	switch strings.ToUpper(keyword) {
	case "EX", "EXAT":
		return "s"
	case "PX", "PXAT":
		return "ms"
	}
	switch {
	case strings.Contains(method, "Milliseconds"):
		return "ms"
	case strings.Contains(method, "Seconds"):
		return "s"
	}
	return ""
}

func TestVerif_C33_Argv(t *testing.T) {
	c := stat.For("C33", "argv").Rule("random reflection walks from every root builder to Build()/Cache() on a non-cluster builder with sentinel arguments (unique marked strings incl. CR LF, NUL, spaces, keyword- and number-like prefixes; int64/uint64 from reserved ranges plus MaxInt64/MinInt64/MaxUint64; floats with distinctive shortest forms plus 1e21, 5e-324, -0, MaxFloat64, 0.1+n; durations and times with sub-second parts; variadic lists of 0-3); oracle: (a) the argv elements that are caller arguments are exactly the supplied ones in call order, integers in base 10, floats in a shortest round-trip form that parses back to the same value (member/score pairs of an iterator may appear in either order inside the pair), (b) a duration/time is emitted in the unit named by the preceding EX/EXAT/PX/PXAT keyword or a Seconds/Milliseconds method name (truncation or floor accepted), (c) the argv starts with the command tokens of the hack/cmds entry whose name matches the root builder, (d) every other element is a keyword of that command's specification (case-insensitive), (e) replaying the method path with a disjoint sentinel set changes the argv exactly at the argument positions, rebuilding with the same arguments gives the same argv, (f) a second Build()/Cache() on the same incomplete value panics with ErrBuiltTwice; non-trivial = the walk passes a float, duration or time argument or at least 3 sentinel arguments")
	defer c.Flush()
	roots := rootMethods()
	c.Extra("roots_total", len(roots))
	// roots reaching a time.Duration / time.Time parameter are rare; one case in five starts there
	var timed []string
	for _, r := range roots {
		if c33ReachesTimed(r) {
			timed = append(timed, r)
		}
	}
	c.Extra("roots_with_duration_or_time", len(timed))
	rapid.Check(t, func(t *rapid.T) {
		h := c32Mix(rapid.Uint64().Draw(t, "rootHash"))
		root := roots[h%uint64(len(roots))]
		if len(timed) > 0 && rapid.IntRange(0, 4).Draw(t, "pool") == 0 {
			root = timed[h%uint64(len(timed))]
		}
		b := NewBuilder(NoSlot)
		g := &c33Args{}
		final := rapid.SampledFrom([]string{"", "", "", "Build"}).Draw(t, "forceFinal")
		w := walk(t, b, root, g, final)
		cs := c33Case{W: w}
		if w.Final == "" && w.Panic == "" {
			c.Inconclusive("walk-too-deep")
			return
		}
		if w.Panic != "" {
			// contract panics of individual builders and parameter types the walker cannot
			// draw are outside this property
			cl := "builder-panic"
			if strings.HasPrefix(w.Panic, "walker:") {
				cl = "walker-unsupported-param"
			}
			c.Eval(false, nil, cl)
			return
		}
		exp := c33Expected(w)
		if !c33Distinct(exp) {
			c.Eval(false, nil, "degenerate-sentinel")
			return
		}
		kinds := map[string]bool{}
		extreme := false
		for _, s := range exp {
			kinds[s.Kind] = true
		}
		for k := range g.used {
			if g.used[k] {
				extreme = true
			}
		}
		nt := kinds["float64"] || kinds["float32"] || kinds["duration"] || kinds["time"] || len(exp) >= 3
		classes := []string{"final=" + w.Final}
		for _, k := range []string{"string", "int64", "uint64", "float64", "float32", "duration", "time"} {
			if kinds[k] {
				classes = append(classes, "has-"+k)
			}
		}
		if extreme {
			classes = append(classes, "has-extreme-number")
		}
		switch {
		case len(exp) == 0:
			classes = append(classes, "sentinels=0")
		case len(exp) < 3:
			classes = append(classes, "sentinels=1-2")
		case len(exp) < 8:
			classes = append(classes, "sentinels=3-7")
		default:
			classes = append(classes, "sentinels>=8")
		}
		path := w.Path()
		fail := func(clause, msg string) {
			c.Fail(t, clause, fmt.Sprintf("%s: %s (argv %q)", path, msg, w.Argv), cs)
		}

		// (c) command tokens
		name, sc, ok := specFor(w.Argv)
		if !ok {
			c.Eval(nt, path, append(classes, "no-spec")...)
			fail("C33.command-tokens", "the argv does not start with the tokens of any command of hack/cmds/*.json")
		}
		cmdTokens := strings.Fields(name)
		if normName(name) != normName(root) {
			c.Eval(nt, path, append(classes, "spec-name-differs-from-root")...)
			fail("C33.command-tokens", fmt.Sprintf("builder %s emits the command tokens of %q", root, name))
		}
		for i, tok := range cmdTokens {
			if w.Argv[i] != tok {
				c.Eval(nt, path, classes...)
				fail("C33.command-tokens", fmt.Sprintf("command token %d is %q, the specification spells %q", i, w.Argv[i], tok))
			}
		}

		// (a) the caller's arguments, in call order, in the required textual form
		pos, rest, problem := c33Match(w.Argv, exp)
		if problem != "" {
			c.Eval(nt, path, classes...)
			fail("C33.arguments-in-call-order", problem)
		}
		for _, p := range pos {
			if p < len(cmdTokens) {
				c.Eval(nt, path, classes...)
				fail("C33.command-tokens", "a caller argument precedes the end of the command tokens")
			}
		}

		// (b) units
		for i, s := range exp {
			if s.Kind != "duration" && s.Kind != "time" {
				continue
			}
			// find the sentinel again after possible pair swaps: durations are never in pairs, so exp[i] <-> pos[i]
			kw := ""
			if pos[i] > 0 {
				kw = w.Argv[pos[i]-1]
			}
			unit := c33UnitOf(kw, s.Method)
			if unit == "" {
				classes = append(classes, "duration-unit-undetermined")
				continue
			}
			classes = append(classes, "duration-unit="+unit+","+s.Kind)
			div := int64(1e9)
			if unit == "ms" {
				div = 1e6
			}
			trunc, floor := strconv.FormatInt(s.Raw/div, 10), strconv.FormatInt(c33FloorDiv(s.Raw, div), 10)
			if got := w.Argv[pos[i]]; got != trunc && got != floor {
				c.Eval(nt, path, classes...)
				what := time.Duration(s.Raw).String()
				if s.Kind == "time" {
					what = time.Unix(0, s.Raw).UTC().Format(time.RFC3339Nano)
				}
				fail("C33.unit", fmt.Sprintf("%s(%s) after keyword %q must be emitted in %s as %s, got %q", s.Method, what, kw, unit, trunc, got))
			}
		}

		// (d) everything else is a keyword of the command
		_, words, _ := specInfo(sc)
		upper := map[string]bool{}
		for wd := range words {
			upper[strings.ToUpper(wd)] = true
		}
		nkw := 0
		for _, i := range rest {
			if i < len(cmdTokens) {
				continue
			}
			nkw++
			if !upper[strings.ToUpper(w.Argv[i])] {
				c.Eval(nt, path, classes...)
				fail("C33.only-keywords-besides-arguments", fmt.Sprintf("argv[%d]=%q is neither a caller argument nor a keyword of %s in hack/cmds", i, w.Argv[i], name))
			}
		}
		if nkw > 0 {
			classes = append(classes, "has-keywords")
		}
		if len(w.Argv) != len(cmdTokens)+len(exp)+nkw {
			c.Eval(nt, path, classes...)
			fail("C33.arguments-in-call-order", "argv length is not command tokens + arguments + keywords")
		}

		// (e) metamorphic: same path, disjoint sentinel set, same variadic lengths
		g2 := &c33Args{set: 1, replay: true, lens: append([]int(nil), g.lens...)}
		w2 := replayWalk(t, b, w, g2)
		cs.Replay = w2.Argv
		if w2.Panic != "" || w2.Final != w.Final {
			c.Eval(nt, path, classes...)
			fail("C33.replay-same-shape", fmt.Sprintf("replay with other argument values ended with final=%q panic=%q", w2.Final, w2.Panic))
		}
		w2.Steps = c33CopyMeta(w.Steps, w2.Steps)
		exp2 := c33Expected(w2)
		pos2, _, problem2 := c33Match(w2.Argv, exp2)
		if problem2 != "" {
			c.Eval(nt, path, classes...)
			fail("C33.arguments-in-call-order", "replay with the second sentinel set: "+problem2+fmt.Sprintf(" (replay argv %q)", w2.Argv))
		}
		if len(w2.Argv) != len(w.Argv) || !reflect.DeepEqual(pos, pos2) {
			c.Eval(nt, path, classes...)
			fail("C33.replay-same-shape", fmt.Sprintf("the same method path with other argument values gives another shape: %q (argument positions %v vs %v)", w2.Argv, pos, pos2))
		}
		isArg := map[int]bool{}
		for _, p := range pos {
			isArg[p] = true
		}
		for i := range w.Argv {
			if isArg[i] == (w.Argv[i] == w2.Argv[i]) {
				c.Eval(nt, path, classes...)
				fail("C33.replay-same-shape", fmt.Sprintf("argv[%d]: %q vs %q after replacing every argument value (is an argument position: %v)", i, w.Argv[i], w2.Argv[i], isArg[i]))
			}
		}

		// (e') same arguments => same argv, (f) second completion panics with ErrBuiltTwice
		second := rapid.SampledFrom([]string{"Build", "Build", "Cache"}).Draw(t, "second")
		argv3, sp, tried, problem3 := c33Rebuild(b, w, second)
		if problem3 != "" {
			c.Eval(nt, path, classes...)
			fail("C33.deterministic", problem3)
		}
		if !reflect.DeepEqual(argv3, w.Argv) {
			c.Eval(nt, path, classes...)
			fail("C33.deterministic", fmt.Sprintf("the same calls with the same arguments built %q", argv3))
		}
		if tried {
			classes = append(classes, "built-twice:"+w.Final+"+"+second)
			if fmt.Sprint(sp) != ErrBuiltTwice {
				c.Eval(nt, path, classes...)
				fail("C33.built-twice-panics", fmt.Sprintf("%s() and then %s() on the same incomplete command: want panic %q, got %v", w.Final, second, ErrBuiltTwice, sp))
			}
		}
		c.Eval(nt, fmt.Sprint(path, "|", len(exp), "|", extreme), classes...)
		c.Sample(nt, func() any { return map[string]any{"cmd": name, "path": path, "argv": w.Argv, "replay": w2.Argv, "args": exp} })
	})
}

// c33CopyMeta: replayWalk does not record From/To; nothing else differs. (Kept as a function
// so that the replay steps keep their own argument records.)
func c33CopyMeta(orig, replay []wStep) []wStep {
	out := append([]wStep(nil), replay...)
	for i := range out {
		if i < len(orig) {
			out[i].From, out[i].To = orig[i].From, orig[i].To
		}
	}
	return out
}

// c33ReachesTimed reports whether some method reachable from the root takes a time.Duration or
// time.Time parameter.
func c33ReachesTimed(root string) bool {
	m, ok := reflect.TypeOf(Builder{}).MethodByName(root)
	if !ok || m.Type.NumOut() != 1 {
		return false
	}
	seen := map[reflect.Type]bool{}
	q := []reflect.Type{m.Type.Out(0)}
	for len(q) > 0 {
		ty := q[0]
		q = q[1:]
		if seen[ty] {
			continue
		}
		seen[ty] = true
		for i := 0; i < ty.NumMethod(); i++ {
			mt := ty.Method(i).Type
			for j := 1; j < mt.NumIn(); j++ {
				if mt.In(j) == tDuration || mt.In(j) == tTime {
					return true
				}
			}
			if mt.NumOut() == 1 && mt.Out(0).Kind() == reflect.Struct && mt.Out(0).ConvertibleTo(tIncomplete) {
				q = append(q, mt.Out(0))
			}
		}
	}
	return false
}
