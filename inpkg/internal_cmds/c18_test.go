package cmds

import (
	"fmt"
	"os"
	"strings"
	"testing"
	"time"

	"pgregory.net/rapid"
	"verifkit/stat"
)

// ---- reference: Redis Cluster specification, written without tables

func refCRC16(b string) uint16 {
	var crc uint16
	for i := 0; i < len(b); i++ {
		crc ^= uint16(b[i]) << 8
		for j := 0; j < 8; j++ {
			if crc&0x8000 != 0 {
				crc = crc<<1 ^ 0x1021
			} else {
				crc <<= 1
			}
		}
	}
	return crc
}

func refSlot(key string) uint16 {
	if s := strings.IndexByte(key, '{'); s >= 0 {
		if e := strings.IndexByte(key[s+1:], '}'); e > 0 {
			key = key[s+1 : s+1+e]
		}
	}
	return refCRC16(key) % 16384
}

func genKey() *rapid.Generator[string] {
	piece := rapid.OneOf(
		rapid.SampledFrom([]string{"{", "}", "{}", "{{", "}}", "}{", "a", "b", "", "x{", "}y", "{a}", "{b}", "{ab}", "\x00", "\xff", "\r\n", " "}),
		rapid.StringN(0, 4, 8),
		rapid.Map(rapid.SliceOfN(rapid.Byte(), 0, 6), func(b []byte) string { return string(b) }),
	)
	return rapid.Map(rapid.SliceOfN(piece, 0, 8), func(ps []string) string { return strings.Join(ps, "") })
}

func TestVerif_C18_Exhaustive(t *testing.T) {
	c := stat.For("C18", "exhaustive").Rule("every key of length 0..2 over all 256 byte values (65793 keys) is compared with a bitwise CRC16-XMODEM + hash-tag reference; non-trivial = key contains '{' or '}'")
	defer c.Flush()
	c.Exhaustive(true)
	chk := func(k string) {
		nt := strings.ContainsAny(k, "{}")
		c.Eval(nt, k)
		if got, want := slot(k), refSlot(k); got != want {
			c.Violation("C18.slot-spec", fmt.Sprintf("slot(%q)=%d want %d", k, got, want), k)
			t.Fatalf("slot(%q)=%d want %d", k, got, want)
		}
	}
	chk("")
	for a := 0; a < 256; a++ {
		chk(string([]byte{byte(a)}))
		for b := 0; b < 256; b++ {
			chk(string([]byte{byte(a), byte(b)}))
		}
	}
	// every 3-byte key made only of braces and one letter (all hash-tag corner shapes)
	al := []byte("{}a")
	for _, x := range al {
		for _, y := range al {
			for _, z := range al {
				for _, w := range al {
					chk(string([]byte{x, y, z}))
					chk(string([]byte{x, y, z, w}))
				}
			}
		}
	}
	c.Sample(true, func() any { return map[string]any{"key": "{}", "slot": slot("{}")} })
	c.Sample(true, func() any { return map[string]any{"key": "a{b}", "slot": slot("a{b}")} })
}

func TestVerif_C18_Slot(t *testing.T) {
	c := stat.For("C18", "keys").Rule("generated keys biased to brace patterns; slot(), Builder paths (GET, MGET, Arbitrary.Keys, SetSlot) on cluster (InitSlot) and non-cluster (NoSlot) builders compared with the reference; cross-slot multi-key must panic only on the cluster builder; non-trivial = some key contains a brace")
	defer c.Flush()
	rapid.Check(t, func(t *rapid.T) {
		keys := rapid.SliceOfN(genKey(), 1, 4).Draw(t, "keys")
		// with probability ~1/2 force the keys to share a hash tag
		if rapid.Bool().Draw(t, "sameTag") {
			tag := rapid.SampledFrom([]string{"{t}", "{}", "{a{b}", "{\x00}", "{tt}"}).Draw(t, "tag")
			for i := range keys {
				if rapid.Bool().Draw(t, "pre") {
					keys[i] = strings.ReplaceAll(keys[i], "{", "") // keep the tag first
					keys[i] = tag + keys[i]
				} else {
					keys[i] = "p" + strings.ReplaceAll(keys[i], "{", "") + tag
				}
			}
		}
		nt := false
		slots := map[uint16]bool{}
		for _, k := range keys {
			if strings.ContainsAny(k, "{}") {
				nt = true
			}
			slots[refSlot(k)] = true
			if got, want := slot(k), refSlot(k); got != want {
				c.Fail(t, "C18.slot-spec", fmt.Sprintf("slot(%q)=%d want %d", k, got, want), keys)
			}
		}
		cross := len(slots) > 1
		cls := "same-slot"
		if cross {
			cls = "cross-slot"
		}
		c.Eval(nt, strings.Join(keys, "\x01"), cls)
		c.Sample(nt, func() any { return map[string]any{"keys": keys, "cross": cross} })

		k0 := keys[0]
		cb, nb := NewBuilder(InitSlot), NewBuilder(NoSlot)
		if g := cb.Get().Key(k0).Build(); g.Slot() != refSlot(k0) {
			c.Fail(t, "C18.builder-slot", fmt.Sprintf("cluster GET %q slot %d want %d", k0, g.Slot(), refSlot(k0)), keys)
		}
		if g := nb.Get().Key(k0).Build(); g.Slot() != NoSlot|refSlot(k0) {
			c.Fail(t, "C18.builder-slot", fmt.Sprintf("noslot GET %q slot %d want %d", k0, g.Slot(), NoSlot|refSlot(k0)), keys)
		}
		if g := cb.Get().Key(k0).Cache(); g.Slot() != refSlot(k0) {
			c.Fail(t, "C18.builder-slot", fmt.Sprintf("cluster GET.Cache %q slot %d", k0, g.Slot()), keys)
		}
		if g := cb.Ping().Build().SetSlot(k0); g.Slot() != refSlot(k0) {
			c.Fail(t, "C18.setslot", fmt.Sprintf("SetSlot(%q)=%d", k0, g.Slot()), keys)
		}
		type mk struct {
			name string
			f    func(b Builder) Completed
		}
		builders := []mk{
			{"MGET", func(b Builder) Completed { return b.Mget().Key(keys...).Build() }},
			{"DEL", func(b Builder) Completed { return b.Del().Key(keys...).Build() }},
			{"Arbitrary", func(b Builder) Completed { return b.Arbitrary("X").Keys(keys...).Args("a").Build() }},
			{"Arbitrary2", func(b Builder) Completed {
				a := b.Arbitrary("X")
				for _, k := range keys {
					a = a.Keys(k)
				}
				return a.Build()
			}},
			{"MSET", func(b Builder) Completed {
				kv := b.Mset().KeyValue()
				for _, k := range keys {
					kv = kv.KeyValue(k, "v")
				}
				return kv.Build()
			}},
			{"SINTERSTORE", func(b Builder) Completed { return b.Sinterstore().Destination(keys[0]).Key(keys[1:]...).Build() }},
		}
		for _, m := range builders {
			if m.name == "SINTERSTORE" && len(keys) < 2 {
				continue
			}
			var got Completed
			p := catch(func() { got = m.f(cb) })
			if cross {
				if p == nil {
					c.Fail(t, "C18.cross-slot-rejected", fmt.Sprintf("%s over keys %q (slots differ) was accepted by the cluster builder", m.name, keys), keys)
				} else if fmt.Sprint(p) != multiKeySlotErr {
					c.Fail(t, "C18.cross-slot-rejected", fmt.Sprintf("%s unexpected panic %v", m.name, p), keys)
				}
			} else {
				if p != nil {
					c.Fail(t, "C18.same-slot-accepted", fmt.Sprintf("%s over same-slot keys %q panicked: %v", m.name, keys, p), keys)
				} else if got.Slot() != refSlot(k0) {
					c.Fail(t, "C18.builder-slot", fmt.Sprintf("%s slot %d want %d", m.name, got.Slot(), refSlot(k0)), keys)
				}
			}
			p = catch(func() { got = m.f(nb) })
			if p != nil {
				c.Fail(t, "C18.noslot-accepts", fmt.Sprintf("%s on a non-cluster builder panicked: %v", m.name, p), keys)
			} else if got.Slot()&NoSlot == 0 {
				c.Fail(t, "C18.noslot-accepts", fmt.Sprintf("%s lost the NoSlot mark: %d", m.name, got.Slot()), keys)
			}
		}
	})
}

func catch(f func()) (p any) {
	defer func() {
		if r := recover(); r != nil {
			if isRapidControl(r) {
				panic(r)
			}
			p = r
		}
	}()
	f()
	return nil
}

// keyArgs generates string arguments that are keys with a controlled slot distribution.
type keyArgs struct {
	tags []string
	n    int
}

func (g *keyArgs) Str(t *rapid.T, root, method string, idx int) string {
	g.n++
	tag := g.tags[rapid.IntRange(0, len(g.tags)-1).Draw(t, "tag")]
	return fmt.Sprintf("%sk%d", tag, g.n)
}
func (g *keyArgs) Strs(t *rapid.T, root, method string) []string {
	n := rapid.IntRange(1, 3).Draw(t, "n")
	out := make([]string, n)
	for i := range out {
		out[i] = g.Str(t, root, method, i)
	}
	return out
}
func (g *keyArgs) Int(t *rapid.T, root, method string, idx int) int64 {
	return int64(rapid.IntRange(0, 3).Draw(t, "i"))
}
func (g *keyArgs) Uint(t *rapid.T, root, method string, idx int) uint64 { return 1 }
func (g *keyArgs) Float(t *rapid.T, root, method string, idx int) float64 {
	return 1.5
}
func (g *keyArgs) Dur(t *rapid.T, root, method string) time.Duration { return time.Second }
func (g *keyArgs) Time(t *rapid.T, root, method string) time.Time   { return time.Unix(1700000000, 0) }
func (g *keyArgs) N(t *rapid.T, root, method string) int             { return rapid.IntRange(1, 2).Draw(t, "n") }

// keysOfWalk lists the argument strings passed to methods whose name matches a spec
// argument of type "key" for this command.
// specKeyOddities: argument names that the spec types as key in one place and as something else in another, and
// builder methods that come from enum literals of the form "WORD key" (the generator gives them a key parameter).
func specKeyOddities(c specCmd) (ambiguous, enumKeys map[string]bool) {
	ambiguous, enumKeys = map[string]bool{}, map[string]bool{}
	asKey, asOther := map[string]bool{}, map[string]bool{}
	var rec func(args []specArg)
	rec = func(args []specArg) {
		for _, a := range args {
			names, types := anyStrings(a.Name), anyStrings(a.Type)
			for i, n := range names {
				if i < len(types) && types[i] == "key" {
					asKey[normName(n)] = true
					// a key argument introduced by a token is built by a method named after the token
					// (SORT ... STORE destination -> Store(destination), MIGRATE ... KEYS key... -> Keys(key...))
					if f := strings.Fields(a.Command); len(f) > 0 {
						enumKeys[normName(strings.Join(f, ""))] = true
					}
					if f := strings.Fields(a.Token); len(f) > 0 {
						enumKeys[normName(strings.Join(f, ""))] = true
					}
				} else if i < len(types) && types[i] != "block" && types[i] != "oneof" {
					asOther[normName(n)] = true
				}
			}
			for _, e := range a.Enum {
				if f := strings.Fields(e); len(f) == 2 && f[1] == "key" {
					enumKeys[normName(f[0])] = true
				}
			}
			rec(a.Block)
			rec(a.Arguments)
		}
	}
	rec(c.Arguments)
	for n := range asKey {
		if asOther[n] {
			ambiguous[n] = true
		}
	}
	return
}

func keysOfWalk(w walkResult, keyNames map[string]bool) (keys []string) {
	for i, s := range w.Steps {
		if i == 0 {
			continue
		}
		if !keyNames[normName(s.Method)] {
			continue
		}
		for _, a := range s.Args {
			if a.Kind == "string" {
				keys = append(keys, a.Strs...)
			}
		}
	}
	return
}

func TestVerif_C18_Walk(t *testing.T) {
	c := stat.For("C18", "walk").Rule("random walks through every generated builder (reflection) with key arguments drawn from 1-2 hash tags; the arguments the command spec (hack/cmds/*.json) types as 'key' decide the expected slot / cross-slot panic; non-trivial = walk passes >=2 key arguments")
	defer c.Flush()
	roots := rootMethods()
	debug := os.Getenv("VERIF_DEBUG") != ""
	rapid.Check(t, func(t *rapid.T) {
		root := roots[rapid.IntRange(0, len(roots)-1).Draw(t, "root")]
		two := rapid.Bool().Draw(t, "twoTags")
		g := &keyArgs{tags: []string{"{t1}"}}
		if two {
			g.tags = []string{"{t1}", "{t2}"}
		}
		cluster := rapid.Bool().Draw(t, "cluster")
		b := NewBuilder(NoSlot)
		if cluster {
			b = NewBuilder(InitSlot)
		}
		w := walk(t, b, root, g, "")
		if w.Final == "" && w.Panic == "" {
			c.Inconclusive("walk-too-deep")
			return
		}
		var argv0 []string
		if len(w.Argv) > 0 {
			argv0 = w.Argv
		}
		name, sc, ok := specFor(argv0)
		if w.Panic != "" && w.Panic != multiKeySlotErr {
			// contract panics of individual builders are outside this property
			c.Eval(false, nil, "other-panic")
			return
		}
		if !ok && w.Panic == "" {
			c.Eval(false, nil, "no-spec")
			return
		}
		var keyNames map[string]bool
		if ok {
			keyNames, _, _ = specInfo(sc)
			ambiguous, enumKeys := specKeyOddities(sc)
			for m := range enumKeys {
				keyNames[m] = true // e.g. GEORADIUS ... "STORE key": the builder's Store(key) takes a key
			}
			for _, st := range w.Steps[min(1, len(w.Steps)):] {
				if ambiguous[normName(st.Method)] {
					// the spec uses this argument name both for a key and for a plain string (AI.SCRIPTEXECUTE key / KEYS n key...):
					// the method name does not tell which one the walk passed
					c.Eval(false, nil, "ambiguous-key-name")
					return
				}
			}
		}
		if w.Panic == multiKeySlotErr {
			if !cluster {
				c.Fail(t, "C18.noslot-accepts", fmt.Sprintf("%s panicked with cross-slot on a non-cluster builder", w.Path()), w)
			}
			if !two {
				c.Fail(t, "C18.same-slot-accepted", fmt.Sprintf("%s: all keys share {t1} but the builder reported cross-slot", w.Path()), w)
			}
			c.Eval(true, w.Path()+"|panic", "cross-slot-panic")
			return
		}
		keys := keysOfWalk(w, keyNames)
		slots := map[uint16]bool{}
		for _, k := range keys {
			slots[refSlot(k)] = true
		}
		nt := len(keys) >= 2
		c.Eval(nt, fmt.Sprint(w.Path(), "|", len(slots), cluster), fmt.Sprintf("keys=%d", min(len(keys), 3)))
		c.Sample(nt, func() any { return map[string]any{"cmd": name, "path": w.Path(), "argv": w.Argv, "keys": keys, "slot": w.KS} })
		if debug {
			fmt.Fprintf(os.Stderr, "WALK %s cluster=%v keys=%q ks=%d argv=%q\n", w.Path(), cluster, keys, w.KS, w.Argv)
		}
		if cluster {
			switch {
			case len(slots) == 0:
				// the spec names no key here; nothing to assert about ks
			case len(slots) == 1:
				if w.KS != refSlot(keys[0]) {
					c.Fail(t, "C18.builder-slot", fmt.Sprintf("%s: keys %q -> slot %d, want %d (argv %q)", w.Path(), keys, w.KS, refSlot(keys[0]), w.Argv), w)
				}
			default:
				c.Fail(t, "C18.cross-slot-rejected", fmt.Sprintf("%s: keys %q are in different slots but the cluster builder accepted (argv %q)", w.Path(), keys, w.Argv), w)
			}
		} else {
			if w.KS&NoSlot == 0 {
				c.Fail(t, "C18.noslot-accepts", fmt.Sprintf("%s lost NoSlot: %d", w.Path(), w.KS), w)
			}
			if len(keys) > 0 {
				okSlot := false
				for _, k := range keys {
					if w.KS == NoSlot|refSlot(k) {
						okSlot = true
					}
				}
				if !okSlot {
					c.Fail(t, "C18.builder-slot", fmt.Sprintf("%s: non-cluster slot %d is the slot of none of the keys %q", w.Path(), w.KS, keys), w)
				}
			}
		}
	})
}
