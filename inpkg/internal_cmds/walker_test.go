package cmds

// Reflection walker over the generated command builders (DESIGN.md C08/C18/C32/C33).
// Starting from a root method of Builder it follows return types, drawing one of the
// available methods and its arguments at every state, until Build() or Cache().

import (
	"encoding/json"
	"fmt"
	"iter"
	"os"
	"path/filepath"
	"reflect"
	"sort"
	"strings"
	"time"

	"pgregory.net/rapid"
)

type wArg struct {
	Kind string   `json:"kind"` // string int64 uint64 float64 float32 duration time kv kf
	Strs []string `json:"strs,omitempty"`
	I    []int64  `json:"i,omitempty"`
	U    []uint64 `json:"u,omitempty"`
	F    []float64 `json:"f,omitempty"`
	Variadic bool `json:"variadic,omitempty"`
}

type wStep struct {
	Method string `json:"m"`
	Args   []wArg `json:"a,omitempty"`
	From   int    `json:"from"` // argv length before the call
	To     int    `json:"to"`   // argv length after the call
	KSBefore, KSAfter uint16
}

type walkResult struct {
	Root   string   `json:"root"`
	Steps  []wStep  `json:"steps"`
	Final  string   `json:"final"` // Build | Cache | "" (aborted)
	Argv   []string `json:"argv"`
	CF     uint16   `json:"cf"`
	KS     uint16   `json:"ks"`
	Panic  string   `json:"panic,omitempty"`
	PanicAt int     `json:"panic_at,omitempty"`
	Completed Completed `json:"-"`
	Cacheable Cacheable `json:"-"`
	HasCacheOption bool `json:"has_cache_option"` // some state on the path offered Cache()
	CacheAtEnd bool `json:"cache_at_end"` // the final state offered Cache()
}

func (w walkResult) Path() string {
	var sb strings.Builder
	sb.WriteString(w.Root)
	for _, s := range w.Steps[1:] {
		sb.WriteByte('.')
		sb.WriteString(s.Method)
	}
	return sb.String()
}

// argGen supplies argument values per parameter type; name is Root.Method for context.
type argGen interface {
	Str(t *rapid.T, root, method string, idx int) string
	Strs(t *rapid.T, root, method string) []string
	Int(t *rapid.T, root, method string, idx int) int64
	Uint(t *rapid.T, root, method string, idx int) uint64
	Float(t *rapid.T, root, method string, idx int) float64
	Dur(t *rapid.T, root, method string) time.Duration
	Time(t *rapid.T, root, method string) time.Time
	N(t *rapid.T, root, method string) int // length of variadic non-string lists
}

var (
	tIncomplete = reflect.TypeOf(Incomplete{})
	tCompleted  = reflect.TypeOf(Completed{})
	tCacheable  = reflect.TypeOf(Cacheable{})
	tDuration   = reflect.TypeOf(time.Duration(0))
	tTime       = reflect.TypeOf(time.Time{})
	tSeqSS      = reflect.TypeOf((iter.Seq2[string, string])(nil))
	tSeqSF      = reflect.TypeOf((iter.Seq2[string, float64])(nil))
	tArbitrary  = reflect.TypeOf(Arbitrary{})
)

func rootMethods() []string {
	bt := reflect.TypeOf(Builder{})
	var out []string
	for i := 0; i < bt.NumMethod(); i++ {
		m := bt.Method(i)
		if m.Name == "Arbitrary" {
			continue
		}
		out = append(out, m.Name)
	}
	sort.Strings(out)
	return out
}

func asIncomplete(v reflect.Value) (Incomplete, bool) {
	if v.Type().ConvertibleTo(tIncomplete) && v.Kind() == reflect.Struct {
		return v.Convert(tIncomplete).Interface().(Incomplete), true
	}
	return Incomplete{}, false
}

func drawArg(t *rapid.T, g argGen, root, method string, pt reflect.Type, variadic bool, idx int) (reflect.Value, wArg) {
	switch {
	case pt == tDuration:
		d := g.Dur(t, root, method)
		return reflect.ValueOf(d), wArg{Kind: "duration", I: []int64{int64(d)}}
	case pt == tTime:
		tm := g.Time(t, root, method)
		return reflect.ValueOf(tm), wArg{Kind: "time", I: []int64{tm.UnixNano()}}
	case pt == tSeqSS:
		ks := g.Strs(t, root, method)
		var flat []string
		for i, k := range ks {
			flat = append(flat, k, g.Str(t, root, method, 100+i))
		}
		f := iter.Seq2[string, string](func(yield func(string, string) bool) {
			for i := 0; i+1 < len(flat); i += 2 {
				if !yield(flat[i], flat[i+1]) {
					return
				}
			}
		})
		return reflect.ValueOf(f), wArg{Kind: "kv", Strs: flat}
	case pt == tSeqSF:
		ks := g.Strs(t, root, method)
		fs := make([]float64, len(ks))
		for i := range ks {
			fs[i] = g.Float(t, root, method, 100+i)
		}
		f := iter.Seq2[string, float64](func(yield func(string, float64) bool) {
			for i := range ks {
				if !yield(ks[i], fs[i]) {
					return
				}
			}
		})
		return reflect.ValueOf(f), wArg{Kind: "kf", Strs: ks, F: fs}
	}
	switch pt.Kind() {
	case reflect.String:
		s := g.Str(t, root, method, idx)
		return reflect.ValueOf(s).Convert(pt), wArg{Kind: "string", Strs: []string{s}}
	case reflect.Int64, reflect.Int:
		i := g.Int(t, root, method, idx)
		return reflect.ValueOf(i).Convert(pt), wArg{Kind: "int64", I: []int64{i}}
	case reflect.Uint64:
		u := g.Uint(t, root, method, idx)
		return reflect.ValueOf(u).Convert(pt), wArg{Kind: "uint64", U: []uint64{u}}
	case reflect.Float64:
		f := g.Float(t, root, method, idx)
		return reflect.ValueOf(f), wArg{Kind: "float64", F: []float64{f}}
	case reflect.Bool:
		b := rapid.Bool().Draw(t, "b")
		s := "0"
		if b {
			s = "1"
		}
		return reflect.ValueOf(b), wArg{Kind: "bool", Strs: []string{s}}
	case reflect.Slice:
		et := pt.Elem()
		switch et.Kind() {
		case reflect.String:
			ss := g.Strs(t, root, method)
			return reflect.ValueOf(ss), wArg{Kind: "string", Strs: ss, Variadic: true}
		case reflect.Int64:
			n := g.N(t, root, method)
			is := make([]int64, n)
			for i := range is {
				is[i] = g.Int(t, root, method, i)
			}
			return reflect.ValueOf(is), wArg{Kind: "int64", I: is, Variadic: true}
		case reflect.Uint64:
			n := g.N(t, root, method)
			us := make([]uint64, n)
			for i := range us {
				us[i] = g.Uint(t, root, method, i)
			}
			return reflect.ValueOf(us), wArg{Kind: "uint64", U: us, Variadic: true}
		case reflect.Float64:
			n := g.N(t, root, method)
			fs := make([]float64, n)
			for i := range fs {
				fs[i] = g.Float(t, root, method, i)
			}
			return reflect.ValueOf(fs), wArg{Kind: "float64", F: fs, Variadic: true}
		case reflect.Float32:
			n := g.N(t, root, method)
			fs := make([]float32, n)
			f64 := make([]float64, n)
			for i := range fs {
				fs[i] = float32(g.Float(t, root, method, i))
				f64[i] = float64(fs[i])
			}
			return reflect.ValueOf(fs), wArg{Kind: "float32", F: f64, Variadic: true}
		case reflect.Uint8:
			s := g.Str(t, root, method, idx)
			return reflect.ValueOf([]byte(s)), wArg{Kind: "bytes", Strs: []string{s}}
		}
	}
	panic(fmt.Sprintf("walker: unsupported parameter type %v in %s.%s", pt, root, method))
}

// walk performs one random walk from the root method to Build()/Cache().
// forceFinal: "" (either), "Build", "Cache" (prefer Cache when offered).
func walk(t *rapid.T, b Builder, root string, g argGen, forceFinal string) (res walkResult) {
	res.Root = root
	cur := reflect.ValueOf(b)
	method := root
	depth := 0
	defer func() {
		if r := recover(); r != nil {
			if isRapidControl(r) {
				panic(r)
			}
			res.Panic = fmt.Sprint(r)
			res.PanicAt = len(res.Steps)
		}
	}()
	for {
		m := cur.MethodByName(method)
		mt := m.Type()
		var in []reflect.Value
		st := wStep{Method: method}
		if inc, ok := asIncomplete(cur); ok && inc.cs != nil {
			st.From = len(inc.cs.s)
			st.KSBefore = inc.ks
		}
		for i := 0; i < mt.NumIn(); i++ {
			v, a := drawArg(t, g, root, method, mt.In(i), mt.IsVariadic() && i == mt.NumIn()-1, i)
			in = append(in, v)
			st.Args = append(st.Args, a)
		}
		res.Steps = append(res.Steps, st)
		var outs []reflect.Value
		if mt.IsVariadic() {
			outs = m.CallSlice(in)
		} else {
			outs = m.Call(in)
		}
		cur = outs[0]
		last := &res.Steps[len(res.Steps)-1]
		switch cur.Type() {
		case tCompleted:
			c := cur.Interface().(Completed)
			res.Final, res.Completed, res.Argv, res.CF, res.KS = "Build", c, append([]string(nil), c.cs.s...), c.cf, c.ks
			last.To = len(c.cs.s)
			return
		case tCacheable:
			c := cur.Interface().(Cacheable)
			res.Final, res.Cacheable, res.Argv, res.CF, res.KS = "Cache", c, append([]string(nil), c.cs.s...), c.cf, c.ks
			last.To = len(c.cs.s)
			return
		}
		inc, ok := asIncomplete(cur)
		if !ok {
			panic(fmt.Sprintf("walker: %s.%s returned %v", root, method, cur.Type()))
		}
		last.To = len(inc.cs.s)
		last.KSAfter = inc.ks
		depth++
		ct := cur.Type()
		var names []string
		hasBuild, hasCache := false, false
		for i := 0; i < ct.NumMethod(); i++ {
			n := ct.Method(i).Name
			switch n {
			case "Build":
				hasBuild = true
			case "Cache":
				hasCache = true
			default:
				names = append(names, n)
			}
		}
		if hasCache {
			res.HasCacheOption = true
		}
		res.CacheAtEnd = hasCache
		var finals []string
		if hasBuild && forceFinal != "Cache" || hasBuild && !hasCache && len(names) == 0 {
			finals = append(finals, "Build")
		}
		if hasCache && forceFinal != "Build" {
			finals = append(finals, "Cache")
		}
		if len(finals) == 0 && len(names) == 0 {
			if hasBuild {
				finals = []string{"Build"}
			} else if hasCache {
				finals = []string{"Cache"}
			} else {
				panic(fmt.Sprintf("walker: dead end at %v", ct))
			}
		}
		// stop probability grows with depth so every walk terminates
		stop := len(names) == 0
		if !stop && len(finals) > 0 {
			p := 15 + depth*8
			if p > 90 {
				p = 90
			}
			stop = rapid.IntRange(0, 99).Draw(t, "stop") < p
		}
		if depth > 60 {
			if len(finals) == 0 {
				res.Final = ""
				return
			}
			stop = true
		}
		if stop && len(finals) > 0 {
			method = finals[rapid.IntRange(0, len(finals)-1).Draw(t, "final")]
		} else {
			method = names[rapid.IntRange(0, len(names)-1).Draw(t, "method")]
		}
	}
}

func isRapidControl(r any) bool {
	s := fmt.Sprintf("%T", r)
	return strings.Contains(s, "rapid.")
}

// ---------------------------------------------------------------------------------------
// command specification (hack/cmds/*.json): the generator's *input*, used as an oracle
// source that is independent of the generator's code.

type specArg struct {
	Name      any       `json:"name"`
	Type      any       `json:"type"`
	Command   string    `json:"command"`
	Token     string    `json:"token"`
	Enum      []string  `json:"enum"`
	Block     []specArg `json:"block"`
	Arguments []specArg `json:"arguments"`
	Multiple  bool      `json:"multiple"`
	Optional  bool      `json:"optional"`
}

type specCmd struct {
	Group     string    `json:"group"`
	Arguments []specArg `json:"arguments"`
}

var specs map[string]specCmd

func repoDir() string {
	if d := os.Getenv("VERIF_REPO_PATH"); d != "" {
		return d
	}
	return "/repo"
}

func loadSpecs() map[string]specCmd {
	if specs != nil {
		return specs
	}
	specs = map[string]specCmd{}
	files, _ := filepath.Glob(filepath.Join(repoDir(), "hack", "cmds", "*.json"))
	for _, f := range files {
		b, err := os.ReadFile(f)
		if err != nil {
			panic(err)
		}
		m := map[string]specCmd{}
		if err := json.Unmarshal(b, &m); err != nil {
			panic(fmt.Sprintf("%s: %v", f, err))
		}
		for k, v := range m {
			specs[strings.ToUpper(k)] = v
		}
	}
	return specs
}

func normName(s string) string {
	var sb strings.Builder
	for _, r := range strings.ToLower(s) {
		if r >= 'a' && r <= 'z' || r >= '0' && r <= '9' {
			sb.WriteRune(r)
		}
	}
	return sb.String()
}

func anyStrings(v any) []string {
	switch x := v.(type) {
	case string:
		return []string{x}
	case []any:
		var out []string
		for _, e := range x {
			if s, ok := e.(string); ok {
				out = append(out, s)
			}
		}
		return out
	}
	return nil
}

// specKeyNames returns normalised names of arguments of type "key", and specWords returns
// every keyword (command/token/enum word) of the command's specification.
func specInfo(c specCmd) (keyNames map[string]bool, words map[string]bool, allNames map[string]bool) {
	keyNames, words, allNames = map[string]bool{}, map[string]bool{}, map[string]bool{}
	var rec func(args []specArg)
	rec = func(args []specArg) {
		for _, a := range args {
			names, types := anyStrings(a.Name), anyStrings(a.Type)
			for i, n := range names {
				allNames[normName(n)] = true
				if i < len(types) && types[i] == "key" {
					keyNames[normName(n)] = true
				}
			}
			for _, w := range strings.Fields(a.Command) {
				words[w] = true
			}
			for _, w := range strings.Fields(a.Token) {
				words[w] = true
			}
			for _, e := range a.Enum {
				for _, w := range strings.Fields(e) {
					words[w] = true
				}
			}
			rec(a.Block)
			rec(a.Arguments)
		}
	}
	rec(c.Arguments)
	return
}

// specFor finds the spec entry of a walk from the leading argv tokens.
func specFor(argv []string) (name string, c specCmd, ok bool) {
	sp := loadSpecs()
	for n := 3; n >= 1; n-- {
		if len(argv) >= n {
			k := strings.ToUpper(strings.Join(argv[:n], " "))
			if c, ok := sp[k]; ok {
				return k, c, true
			}
		}
	}
	return "", specCmd{}, false
}

// replayWalk follows the method path of w again, drawing fresh arguments from g.
func replayWalk(t *rapid.T, b Builder, w walkResult, g argGen) (res walkResult) {
	res.Root = w.Root
	defer func() {
		if r := recover(); r != nil {
			if isRapidControl(r) {
				panic(r)
			}
			res.Panic = fmt.Sprint(r)
		}
	}()
	cur := reflect.ValueOf(b)
	for _, s := range w.Steps {
		m := cur.MethodByName(s.Method)
		mt := m.Type()
		var in []reflect.Value
		st := wStep{Method: s.Method}
		for i := 0; i < mt.NumIn(); i++ {
			v, a := drawArg(t, g, w.Root, s.Method, mt.In(i), mt.IsVariadic() && i == mt.NumIn()-1, i)
			in = append(in, v)
			st.Args = append(st.Args, a)
		}
		res.Steps = append(res.Steps, st)
		var outs []reflect.Value
		if mt.IsVariadic() {
			outs = m.CallSlice(in)
		} else {
			outs = m.Call(in)
		}
		cur = outs[0]
		switch cur.Type() {
		case tCompleted:
			c := cur.Interface().(Completed)
			res.Final, res.Completed, res.Argv, res.CF, res.KS = "Build", c, append([]string(nil), c.cs.s...), c.cf, c.ks
			return
		case tCacheable:
			c := cur.Interface().(Cacheable)
			res.Final, res.Cacheable, res.Argv, res.CF, res.KS = "Cache", c, append([]string(nil), c.cs.s...), c.cf, c.ks
			return
		}
	}
	return
}

// cacheRoots lists the root builders from which some path reaches Cache().
func cacheRoots() []string {
	var out []string
	seenType := map[reflect.Type]bool{}
	var reach func(t reflect.Type, depth int) bool
	memo := map[reflect.Type]bool{}
	reach = func(t reflect.Type, depth int) bool {
		if v, ok := memo[t]; ok {
			return v
		}
		if seenType[t] || depth > 30 {
			return false
		}
		seenType[t] = true
		defer func() { seenType[t] = false }()
		for i := 0; i < t.NumMethod(); i++ {
			m := t.Method(i)
			if m.Name == "Cache" && m.Type.NumOut() == 1 && m.Type.Out(0) == tCacheable {
				memo[t] = true
				return true
			}
		}
		for i := 0; i < t.NumMethod(); i++ {
			m := t.Method(i)
			if m.Type.NumOut() == 1 && m.Type.Out(0).ConvertibleTo(tIncomplete) && m.Type.Out(0).Kind() == reflect.Struct && m.Type.Out(0) != t {
				if reach(m.Type.Out(0), depth+1) {
					memo[t] = true
					return true
				}
			}
		}
		memo[t] = false
		return false
	}
	bt := reflect.TypeOf(Builder{})
	for i := 0; i < bt.NumMethod(); i++ {
		m := bt.Method(i)
		if m.Name == "Arbitrary" || m.Type.NumOut() != 1 {
			continue
		}
		if reach(m.Type.Out(0), 0) {
			out = append(out, m.Name)
		}
	}
	sort.Strings(out)
	return out
}
