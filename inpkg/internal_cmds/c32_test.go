package cmds

// C32 "Builder tags match command semantics".
//
// Every generated root builder is walked (reflection walker of walker_test.go) to Build() or
// Cache(); the flags of the built command are compared with /verif/ref/redis_commands.json, a
// classification of every command written from the Redis command reference (not from the
// generator's lists). Only reference entries with confidence "high" can raise a violation.

import (
	"encoding/json"
	"fmt"
	"os"
	"path/filepath"
	"reflect"
	"strconv"
	"strings"
	"testing"
	"time"

	"pgregory.net/rapid"
	"verifkit/stat"
)

type c32Ref struct {
	Effect     string  `json:"effect"`     // read | write | admin | unknown
	Blocking   string  `json:"blocking"`   // always | with:BLOCK | never | unknown
	Pubsub     *string `json:"pubsub"`     // subscribe | unsubscribe | null
	Confidence string  `json:"confidence"` // high | low
}

type c32RefTable struct {
	m        map[string]c32Ref
	maxWords int
}

func c32LoadRef() (*c32RefTable, error) {
	root := os.Getenv("VERIF_ROOT")
	if root == "" {
		root = "/verif"
	}
	b, err := os.ReadFile(filepath.Join(root, "ref", "redis_commands.json"))
	if err != nil {
		return nil, err
	}
	raw := map[string]c32Ref{}
	if err := json.Unmarshal(b, &raw); err != nil {
		return nil, err
	}
	rt := &c32RefTable{m: map[string]c32Ref{}}
	for k, v := range raw {
		k = strings.ToUpper(strings.Join(strings.Fields(k), " "))
		rt.m[k] = v
		if n := len(strings.Fields(k)); n > rt.maxWords {
			rt.maxWords = n
		}
	}
	return rt, nil
}

// lookup matches the longest prefix of argv against the reference keys, case-insensitively.
func (rt *c32RefTable) lookup(argv []string) (string, c32Ref, bool) {
	for n := min(rt.maxWords, len(argv)); n >= 1; n-- {
		k := strings.ToUpper(strings.Join(argv[:n], " "))
		if r, ok := rt.m[k]; ok {
			return k, r, true
		}
	}
	return "", c32Ref{}, false
}

// c32Args: simple valid arguments; every key carries the same hash tag so that the cluster
// builder never sees a cross-slot command.
type c32Args struct{ n int }

func (g *c32Args) Str(t *rapid.T, root, method string, idx int) string {
	g.n++
	return "{t}k" + strconv.Itoa(g.n)
}
func (g *c32Args) Strs(t *rapid.T, root, method string) []string {
	n := rapid.IntRange(1, 2).Draw(t, "n")
	out := make([]string, n)
	for i := range out {
		out[i] = g.Str(t, root, method, i)
	}
	return out
}
func (g *c32Args) Int(t *rapid.T, root, method string, idx int) int64 {
	return int64(rapid.IntRange(0, 3).Draw(t, "i"))
}
func (g *c32Args) Uint(t *rapid.T, root, method string, idx int) uint64 { return 1 }
func (g *c32Args) Float(t *rapid.T, root, method string, idx int) float64 {
	return 1.5
}
func (g *c32Args) Dur(t *rapid.T, root, method string) time.Duration { return 2 * time.Second }
func (g *c32Args) Time(t *rapid.T, root, method string) time.Time   { return time.Unix(1700000000, 0) }
func (g *c32Args) N(t *rapid.T, root, method string) int             { return rapid.IntRange(1, 2).Draw(t, "n") }

// c32MinSteps: the minimum number of walker steps (root call + argument methods + Build/Cache)
// of any completion path from a root; computed by breadth-first search over method return types.
func c32MinSteps(root string) int {
	m, ok := reflect.TypeOf(Builder{}).MethodByName(root)
	if !ok || m.Type.NumOut() != 1 {
		return 0
	}
	type qe struct {
		t reflect.Type
		d int
	}
	seen := map[reflect.Type]bool{}
	q := []qe{{m.Type.Out(0), 0}}
	for len(q) > 0 {
		e := q[0]
		q = q[1:]
		if seen[e.t] {
			continue
		}
		seen[e.t] = true
		for i := 0; i < e.t.NumMethod(); i++ {
			if n := e.t.Method(i).Name; n == "Build" || n == "Cache" {
				return e.d + 2
			}
		}
		for i := 0; i < e.t.NumMethod(); i++ {
			mt := e.t.Method(i).Type
			if mt.NumOut() == 1 && mt.Out(0).Kind() == reflect.Struct && mt.Out(0).ConvertibleTo(tIncomplete) {
				q = append(q, qe{mt.Out(0), e.d + 1})
			}
		}
	}
	return 0
}

type c32Case struct {
	Cluster bool        `json:"cluster"`
	W       walkResult  `json:"walk"`
	B       *walkResult `json:"build_replay,omitempty"` // same path finished with Build() when W ended in Cache()
}

// c32Gen draws one case: a walk from root and, if it ended in Cache(), the same method path
// finished with Build().
func c32Gen(t *rapid.T, root string, canCache bool) c32Case {
	var cs c32Case
	cs.Cluster = rapid.Bool().Draw(t, "cluster")
	b := NewBuilder(NoSlot)
	if cs.Cluster {
		b = NewBuilder(InitSlot)
	}
	finals := []string{"", "Build"}
	if canCache { // forcing Cache() on a root that never offers it only makes the walk run to the depth limit
		finals = []string{"", "Build", "Cache", "Cache"}
	}
	final := rapid.SampledFrom(finals).Draw(t, "forceFinal")
	cs.W = walk(t, b, root, &c32Args{}, final)
	if cs.W.Final == "Cache" && cs.W.Panic == "" {
		w2 := cs.W
		w2.Steps = append([]wStep(nil), cs.W.Steps...)
		w2.Steps[len(w2.Steps)-1].Method = "Build"
		rb := replayWalk(t, b, w2, &c32Args{})
		cs.B = &rb
	}
	return cs
}

func c32HasMethod(w walkResult, name string) bool {
	for i, s := range w.Steps {
		if i > 0 && s.Method == name {
			return true
		}
	}
	return false
}

func c32IsAIExecute(name string) bool {
	return strings.HasPrefix(name, "AI.") && strings.HasSuffix(name, "EXECUTE")
}

// c32Check applies the oracle to one case. t is *rapid.T (random part) or *testing.T (sweep).
func c32Check(c *stat.Collector, t stat.Fataler, rt *c32RefTable, cs c32Case, minSteps int, src string) {
	w := cs.W
	if w.Final == "" && w.Panic == "" {
		c.Inconclusive("walk-too-deep")
		return
	}
	if w.Panic != "" {
		// contract panics of individual builders (and parameter types the walker cannot draw)
		// are outside this property
		cl := "builder-panic"
		if strings.HasPrefix(w.Panic, "walker:") {
			cl = "walker-unsupported-param"
		}
		c.Eval(false, nil, src, cl)
		return
	}
	var cmd Completed
	if w.Final == "Cache" {
		cmd = Completed(w.Cacheable)
	} else {
		cmd = w.Completed
	}
	name, ref, ok := rt.lookup(w.Argv)
	path := w.Path()
	detail := func(msg string) string {
		return fmt.Sprintf("%s: %s (argv %q, cf %#04x, reference %s: effect=%s blocking=%s)", path, msg, w.Argv, w.CF, name, ref.Effect, ref.Blocking)
	}
	cacheOffered := w.Final == "Cache" || w.CacheAtEnd || w.HasCacheOption
	classes := []string{src}
	if !ok {
		c.Eval(false, nil, append(classes, "unclassified")...)
		return
	}
	high := ref.Confidence == "high"
	if !high {
		classes = append(classes, "low-confidence")
	} else {
		classes = append(classes, "effect="+ref.Effect)
	}
	hasBlock := c32HasMethod(w, "Block")
	special := cacheOffered
	if cmd.IsReadOnly() {
		classes = append(classes, "tag:readonly")
	}
	if cmd.IsBlock() {
		classes = append(classes, "tag:block")
		special = true
	}
	if cmd.NoReply() {
		classes = append(classes, "tag:pubsub")
		special = true
	}
	if cacheOffered {
		if w.Final == "Cache" {
			classes = append(classes, "final=Cache")
		} else {
			classes = append(classes, "cache-offered,final=Build")
		}
	}
	if high {
		switch ref.Blocking {
		case "always":
			classes = append(classes, "ref-blocking=always")
			special = true
		case "with:BLOCK":
			if hasBlock {
				classes = append(classes, "ref-blocking=with:BLOCK,given")
			} else {
				classes = append(classes, "ref-blocking=with:BLOCK,absent")
			}
			special = true
		}
		if ref.Pubsub != nil {
			classes = append(classes, "ref-pubsub="+*ref.Pubsub)
			special = true
		}
	}
	optional := len(w.Steps) > minSteps
	if optional {
		classes = append(classes, "optional-args")
	} else {
		classes = append(classes, "minimal-path")
	}
	nt := optional || special
	c.Eval(nt, path, classes...)
	c.Sample(nt, func() any {
		return map[string]any{"cmd": name, "path": path, "argv": w.Argv, "cf": w.CF, "readonly": cmd.IsReadOnly(), "block": cmd.IsBlock(), "noreply": cmd.NoReply(), "unsub": cmd.IsUnsub(), "ref": ref}
	})
	if !high {
		return
	}

	aiKnown := false
	isAIExec := func() bool {
		if c32IsAIExecute(name) && ref.Effect == "write" {
			if !aiKnown {
				aiKnown = c.Known("C32.ai-execute-readonly")
			}
			return aiKnown
		}
		return false
	}

	// (1) read-only (auto-retried, replica-eligible) => not a write
	if cmd.IsReadOnly() && ref.Effect == "write" && !isAIExec() {
		c.Fail(t, "C32.readonly-is-read", detail("marked read-only (retried automatically, replica-eligible) but the command writes"), cs)
	}
	// (2) Cache() offered => read-only by flags and by reference
	if cacheOffered {
		if !cmd.IsReadOnly() {
			c.Fail(t, "C32.cacheable-is-readonly", detail("offers Cache() but the built command is not marked read-only"), cs)
		}
		if cs.B != nil {
			if cs.B.Panic != "" || cs.B.Final != "Build" {
				c.Fail(t, "C32.cacheable-is-readonly", detail(fmt.Sprintf("the state offering Cache() could not be finished with Build(): final=%q panic=%q", cs.B.Final, cs.B.Panic)), cs)
			}
			bc := cs.B.Completed
			if !bc.IsReadOnly() {
				c.Fail(t, "C32.cacheable-is-readonly", detail(fmt.Sprintf("Cache() is offered but Build() on the same path is not read-only (cf %#04x)", cs.B.CF)), cs)
			}
			if cs.B.CF != w.CF {
				c.Fail(t, "C32.cacheable-is-readonly", detail(fmt.Sprintf("Build() and Cache() on the same path carry different flags (%#04x vs %#04x)", cs.B.CF, w.CF)), cs)
			}
		}
		if ref.Effect == "write" && !isAIExec() {
			c.Fail(t, "C32.cacheable-is-read", detail("offers Cache() (client-side caching) but the command writes"), cs)
		}
	}
	// (3) blocking commands are marked blocking
	switch ref.Blocking {
	case "always":
		if !cmd.IsBlock() {
			c.Fail(t, "C32.blocking-marked", detail("blocking command is not marked blocking"), cs)
		}
	case "with:BLOCK":
		if hasBlock && !cmd.IsBlock() {
			c.Fail(t, "C32.blocking-marked", detail("BLOCK given but the command is not marked blocking"), cs)
		}
		if !hasBlock && cmd.IsBlock() {
			c.Fail(t, "C32.block-only-with-BLOCK", detail("no BLOCK option on the path but the command is marked blocking"), cs)
		}
	}
	// (4) Pub/Sub families
	if ref.Pubsub != nil {
		switch *ref.Pubsub {
		case "subscribe":
			if !cmd.NoReply() {
				c.Fail(t, "C32.subscribe-marked", detail("SUBSCRIBE family command is not marked as a Pub/Sub (no-reply) command"), cs)
			}
			if cmd.IsUnsub() {
				c.Fail(t, "C32.subscribe-marked", detail("SUBSCRIBE family command is marked as an unsubscribe command"), cs)
			}
		case "unsubscribe":
			if !cmd.IsUnsub() || !cmd.NoReply() {
				c.Fail(t, "C32.unsubscribe-marked", detail("UNSUBSCRIBE family command is not marked as an unsubscribe Pub/Sub command"), cs)
			}
		}
	} else if cmd.NoReply() {
		// (5) the Pub/Sub mark means "expect no in-band reply": no other command may carry it
		c.Fail(t, "C32.pubsub-mark-only-pubsub", detail("command outside the SUBSCRIBE/UNSUBSCRIBE families is marked as a Pub/Sub (no-reply) command"), cs)
	}
}

func TestVerif_C32_Tags(t *testing.T) {
	c := stat.For("C32", "tags").Rule("a deterministic sweep walks every root builder method 3 times (fixed seeds), then rapid draws a root (uniformly over all roots, one case in three among the roots that carry a flag or are blocking/PubSub/cacheable) and walks randomly (reflection) to Build() or Cache() with simple valid arguments on a cluster or non-cluster builder; the command is identified by the longest argv prefix found in ref/redis_commands.json; oracle (high-confidence reference entries only): read-only flag => reference effect is not write; Cache() offered anywhere on the path => read-only flag (also through Build() on the same path) and effect not write; reference blocking always => block flag, XREAD/XREADGROUP => block flag iff Block() is on the path; subscribe/unsubscribe families => no-reply / unsub flags, nobody else carries the no-reply flag; non-trivial = the path has more steps than the shortest completion of its root (an optional argument was taken) or the command is blocking, Pub/Sub or offers Cache()")
	defer c.Flush()
	rt, err := c32LoadRef()
	if err != nil {
		t.Fatalf("reference table: %v", err)
	}
	roots := rootMethods()
	minSteps := make(map[string]int, len(roots))
	for _, r := range roots {
		minSteps[r] = c32MinSteps(r)
	}
	c.Extra("roots_total", len(roots))
	c.Extra("reference_entries", len(rt.m))

	// every reference entry should be reachable by some root, otherwise the comparison is hollow
	// (measured, see "reference_entries_seen" below)
	seenRef := map[string]bool{}

	// ---- deterministic sweep: every root, three fixed seeds each
	shard := 0
	if s := os.Getenv("VERIF_SHARD"); s != "" {
		for _, ch := range s {
			shard = shard*31 + int(ch)
		}
		shard %= 1000
	}
	canCache := map[string]bool{}
	for _, r := range cacheRoots() {
		canCache[r] = true
	}
	c.Extra("cache_roots", len(canCache))
	visited := 0
	var interesting []string // roots whose flags or reference entry engage clauses (1)-(4)
	for _, root := range roots {
		good := 0
		hot := canCache[root]
		// three completed walks per root (a few more seeds if a walk aborts)
		for v := 0; v < 12 && good < 3; v++ {
			root := root
			cs := rapid.Custom(func(x *rapid.T) c32Case { return c32Gen(x, root, canCache[root]) }).Example(shard*100 + v)
			if cs.W.Final != "" && cs.W.Panic == "" {
				good++
				if n, ref, found := rt.lookup(cs.W.Argv); found {
					seenRef[n] = true
					if ref.Blocking != "never" || ref.Pubsub != nil || cs.W.CF != 0 {
						hot = true
					}
				}
			}
			c32Check(c, t, rt, cs, minSteps[root], "sweep")
		}
		if good > 0 {
			visited++
		}
		if hot {
			interesting = append(interesting, root)
		}
	}
	c.Extra("roots_visited", visited)
	c.Extra("roots_flagged_or_special", len(interesting))
	c.Extra("reference_entries_seen_in_sweep", len(seenRef))
	if visited != len(roots) {
		c.Inconclusive(fmt.Sprintf("sweep-completed-%d-of-%d-roots", visited, len(roots)))
	}

	// ---- random part. rapid's integer draws favour small values, so the root index is a
	// mixed 64-bit draw (uniform over the roots); one case in three picks among the roots that
	// carry a flag or are blocking/PubSub/cacheable per the reference.
	rapid.Check(t, func(t *rapid.T) {
		h := c32Mix(rapid.Uint64().Draw(t, "rootHash"))
		var root string
		if len(interesting) > 0 && rapid.IntRange(0, 2).Draw(t, "pool") == 0 {
			root = interesting[h%uint64(len(interesting))]
		} else {
			root = roots[h%uint64(len(roots))]
		}
		cs := c32Gen(t, root, canCache[root])
		c32Check(c, t, rt, cs, minSteps[root], "random")
	})
}

// c32Mix is the splitmix64 finaliser: spreads rapid's small-biased draws over all roots.
func c32Mix(x uint64) uint64 {
	x += 0x9e3779b97f4a7c15
	x = (x ^ x>>30) * 0xbf58476d1ce4e5b9
	x = (x ^ x>>27) * 0x94d049bb133111eb
	return x ^ x>>31
}
