package cmds

import (
	"fmt"
	"reflect"
	"strings"
	"testing"
	"time"

	"pgregory.net/rapid"
	"verifkit/stat"
)

// smallArgs draws arguments from a tiny alphabet so that different argument vectors can have
// the same concatenation (the shape in which a separator-less identity collides).
type smallArgs struct{}

func (smallArgs) Str(t *rapid.T, root, method string, idx int) string {
	return rapid.SampledFrom([]string{"a", "b", "ab", "ba", "aa", "", "1", "12", "2", "GET", "k"}).Draw(t, "s")
}
func (g smallArgs) Strs(t *rapid.T, root, method string) []string {
	n := rapid.IntRange(1, 3).Draw(t, "n")
	out := make([]string, n)
	for i := range out {
		out[i] = g.Str(t, root, method, i)
	}
	return out
}
func (smallArgs) Int(t *rapid.T, root, method string, idx int) int64 {
	if strings.EqualFold(method, "numkeys") {
		return 1 // cacheable scripts are documented to need numkeys=1
	}
	return rapid.SampledFrom([]int64{1, 2, 12, 21, 11, 112, 0, 121}).Draw(t, "i")
}
func (smallArgs) Uint(t *rapid.T, root, method string, idx int) uint64 {
	return rapid.SampledFrom([]uint64{1, 2, 12, 21, 11}).Draw(t, "u")
}
func (smallArgs) Float(t *rapid.T, root, method string, idx int) float64 {
	return rapid.SampledFrom([]float64{1, 2, 12, 21, 1.5, 11}).Draw(t, "f")
}
func (smallArgs) Dur(t *rapid.T, root, method string) time.Duration {
	return time.Duration(rapid.SampledFrom([]int{1, 2, 12, 21}).Draw(t, "d")) * time.Second
}
func (smallArgs) Time(t *rapid.T, root, method string) time.Time {
	return time.Unix(int64(rapid.SampledFrom([]int{1, 2, 12, 21}).Draw(t, "tm")), 0)
}
func (smallArgs) N(t *rapid.T, root, method string) int { return rapid.IntRange(1, 3).Draw(t, "n") }

type cacheID struct{ key, cmd string }

func cacheIDOf(c Cacheable) (id cacheID, panicked any) {
	panicked = catch(func() { id.key, id.cmd = CacheKey(c) })
	return
}

func concatExceptKey(argv []string, key string) string {
	// the concatenation of every element but the key (position 1; position 3 for read-only scripts)
	kp := 1
	if len(argv) > 3 && (strings.HasPrefix(argv[0], "EVAL") || strings.HasPrefix(argv[0], "FCALL")) && argv[3] == key {
		kp = 3
	}
	var sb strings.Builder
	for i, a := range argv {
		if i == kp {
			continue
		}
		sb.WriteString(a)
	}
	return sb.String()
}

func c08pair(c *stat.Collector, t stat.Fataler, a, b Cacheable, what string) (collide bool) {
	argvA, argvB := a.Commands(), b.Commands()
	if reflect.DeepEqual(argvA, argvB) {
		return false
	}
	ia, pa := cacheIDOf(a)
	ib, pb := cacheIDOf(b)
	if pa != nil || pb != nil {
		return false // documented contract panic (scripts with numkeys != 1)
	}
	cas := map[string]any{"a": argvA, "b": argvB}
	if ia == ib {
		// known: the identity is the plain concatenation of the non-key arguments
		if strings.Join(argvA, "\x00") != strings.Join(argvB, "\x00") && concatExceptKey(argvA, ia.key) == concatExceptKey(argvB, ib.key) && c.Known("C08.cachekey-concat") {
			return true
		}
		c.Fail(t, "C08.lru-identity", fmt.Sprintf("%s: %q and %q are different commands but share the cache entry (key %q, cmd %q)", what, argvA, argvB, ia.key, ia.cmd), cas)
	}
	if ia.key+ia.cmd == ib.key+ib.cmd {
		if strings.Join(argvA, "") == strings.Join(argvB, "") || ia.key+concatExceptKey(argvA, ia.key) == ib.key+concatExceptKey(argvB, ib.key) {
			if c.Known("C08.adapter-key-cmd-concat") {
				return true
			}
		}
		c.Fail(t, "C08.adapter-identity", fmt.Sprintf("%s: %q and %q are different commands but share the NewSimpleCacheAdapter entry %q", what, argvA, argvB, ia.key+ia.cmd), cas)
	}
	return false
}

func TestVerif_C08_CacheIdentity(t *testing.T) {
	c := stat.For("C08", "identity").Rule("pairs of cacheable commands: (a) the same Cache() builder path (reflection walk over every root that reaches Cache()) with two argument vectors from a tiny alphabet, (b) Arbitrary...ReadOnly/Cache pairs where B re-splits or moves bytes between A's arguments / key / command name, (c) read-only scripts with numkeys=1; oracle: different argv => different (key,cmd) identity for the built-in store and different key+cmd for NewSimpleCacheAdapter stores; non-trivial = the two argvs differ but have the same concatenation")
	defer c.Flush()
	roots := cacheRoots()
	c.Extra("cache_roots", len(roots))
	rapid.Check(t, func(t *rapid.T) {
		b := NewBuilder(NoSlot)
		var ca, cb Cacheable
		var what string
		switch rapid.IntRange(0, 3).Draw(t, "mode") {
		case 0, 1: // same builder path, different small arguments
			root := roots[rapid.IntRange(0, len(roots)-1).Draw(t, "root")]
			wa := walk(t, b, root, smallArgs{}, "Cache")
			if wa.Final != "Cache" {
				c.Eval(false, nil, "no-cache-path")
				return
			}
			wb := replayWalk(t, b, wa, smallArgs{})
			if wb.Final != "Cache" {
				c.Eval(false, nil, "no-cache-path")
				return
			}
			ca, cb, what = wa.Cacheable, wb.Cacheable, wa.Path()
		case 2: // arbitrary commands: re-split the argument bytes
			n := rapid.IntRange(2, 5).Draw(t, "argc")
			argv := make([]string, n)
			for i := range argv {
				argv[i] = rapid.SampledFrom([]string{"a", "b", "ab", "GET", "HGET", "x", "1", "12", "2", "k"}).Draw(t, "arg")
			}
			joined := strings.Join(argv, "")
			m := rapid.IntRange(2, 5).Draw(t, "argc2")
			if len(joined) < m {
				m = len(joined)
			}
			if m < 2 {
				c.Eval(false, nil, "too-short")
				return
			}
			// choose m-1 cut points
			cuts := rapid.SliceOfNDistinct(rapid.IntRange(1, len(joined)-1), m-1, m-1, func(i int) int { return i }).Draw(t, "cuts")
			sortInts(cuts)
			var bv []string
			prev := 0
			for _, cu := range cuts {
				bv = append(bv, joined[prev:cu])
				prev = cu
			}
			bv = append(bv, joined[prev:])
			ca = Cacheable(b.Arbitrary(argv[0]).Keys(argv[1]).Args(argv[2:]...).ReadOnly())
			cb = Cacheable(b.Arbitrary(bv[0]).Keys(bv[1]).Args(bv[2:]...).ReadOnly())
			what = "Arbitrary"
		default: // read-only scripts, numkeys=1
			mk := func() Cacheable {
				sha := rapid.SampledFrom([]string{"s", "s1", "sha", "1"}).Draw(t, "sha")
				key := rapid.SampledFrom([]string{"k", "1k", "k1", "a"}).Draw(t, "key")
				args := rapid.SliceOfN(rapid.SampledFrom([]string{"a", "b", "ab", "1", "k"}), 0, 3).Draw(t, "args")
				if rapid.Bool().Draw(t, "eval") {
					return b.EvalRo().Script(sha).Numkeys(1).Key(key).Arg(args...).Cache()
				}
				return b.EvalshaRo().Sha1(sha).Numkeys(1).Key(key).Arg(args...).Cache()
			}
			ca, cb, what = mk(), mk(), "script"
		}
		argvA, argvB := ca.Commands(), cb.Commands()
		same := reflect.DeepEqual(argvA, argvB)
		nt := !same && strings.Join(argvA, "") == strings.Join(argvB, "")
		collide := c08pair(c, t, ca, cb, what)
		cls := []string{"mode=" + what[:min(len(what), 9)]}
		if collide {
			cls = append(cls, "known-collision")
		}
		c.Eval(nt, fmt.Sprint(argvA, "|", argvB), cls...)
		c.Sample(nt, func() any { return map[string]any{"a": argvA, "b": argvB, "collides_known": collide} })
	})
}

func sortInts(a []int) {
	for i := 1; i < len(a); i++ {
		for j := i; j > 0 && a[j] < a[j-1]; j-- {
			a[j], a[j-1] = a[j-1], a[j]
		}
	}
}
