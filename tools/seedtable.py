#!/usr/bin/env python3
"""Print the markdown table of confirmed seeded mutations (from /verif/seeded/*/meta.json)."""
import glob, json, os

rows = []
for d in sorted(glob.glob("/verif/seeded/*/")):
    sid = os.path.basename(d.rstrip("/"))
    try:
        m = json.load(open(d + "meta.json"))
    except Exception:
        continue
    v = m.get("verification", {})
    det = v.get("detection", {})
    caught = []
    missed = []
    for cid, r in sorted(det.items()):
        if r.get("rc") == 1:
            clause = ""
            for line in r.get("violations", []):
                i = line.find("clause=")
                if i >= 0:
                    clause = line[i + 7:].split()[0]
                    break
                if "kind=" in line:
                    clause = line[line.find("kind="):].split()[0]
            caught.append("%s %s (%s, %ss)" % (cid, clause, r.get("tier", "quick"), r.get("wall_s")))
        else:
            missed.append("%s (%s, rc=%s)" % (cid, r.get("tier", "quick"), r.get("rc")))
    summary = (m.get("summary") or "").replace("|", "/").replace("\n", " ")
    if len(summary) > 230:
        summary = summary[:227] + "..."
    rows.append("| %s | %s | %s | %s |" % (sid, summary, "; ".join(caught) or "—", "; ".join(missed) or "—"))
print("| Seed | Change | Caught by (clause, tier, wall) | Not caught by |")
print("|------|--------|--------------------------------|---------------|")
print("\n".join(rows))
