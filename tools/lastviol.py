#!/usr/bin/env python3
import json,glob,os,time,sys
pid=sys.argv[1]
fs=sorted(glob.glob('/verif/work/violations/%s-*.violation.json'%pid),key=os.path.getmtime)
if fs and time.time()-os.path.getmtime(fs[-1])<float(sys.argv[2] if len(sys.argv)>2 else 120):
    v=json.load(open(fs[-1]))
    print(v['clause']); print(v['detail'][:int(sys.argv[3]) if len(sys.argv)>3 else 4000])
    p=v.get('case')
    if isinstance(p,dict) and 'callers' in p:
        print(p['cfg'], p.get('events'))
        for ci,c in enumerate(p['callers']):
            for oi,o in enumerate(c):
                print(ci,oi,o['kind'],'gap',o.get('gap_us'),'cancel',o.get('cancel_us'),'dl',o.get('deadline_us'),'done',o.get('done_ctx'),o.get('key'),[(x['uid'],x.get('class'),x.get('lat_us'),x.get('plan')) for x in o.get('cmds',[])])
    else:
        print(json.dumps(p)[:3000])
