#!/bin/bash
# usage: seedq.sh <parallel> "C01 1 --skip-suite" "C03 2" ...   (runs seedverify for each, <parallel> at a time)
par=$1; shift
printf '%s\n' "$@" | xargs -P $par -I{} bash -c 'set -- {}; timeout 7200 python3 /verif/tools/seedverify.py "$@" > /tmp/seedout/verify-$1-$2.log 2>&1'
