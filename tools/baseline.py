#!/usr/bin/env python3
"""Run the repository's own suite (guard off) per module like /root/.vp/BASELINE.json and compare with stable_pass."""
import json, os, subprocess, sys
REPO = os.environ.get("VERIF_REPO", "/repo")
base = json.load(open("/root/.vp/BASELINE.json"))
mods = sorted(os.path.dirname(os.path.join(r, f)) for r, d, fs in os.walk(REPO) for f in fs if f == "go.mod" and "/." not in r)
passed, failed = set(), set()
for m in mods:
    p = subprocess.run(["go", "test", "-mod=mod", "-json", "-vet=off", "-count=1", "-timeout", "25m", "./..."], cwd=m, stdout=subprocess.PIPE, stderr=subprocess.DEVNULL)
    for line in p.stdout.decode("utf-8", "replace").splitlines():
        try:
            e = json.loads(line)
        except Exception:
            continue
        if e.get("Test") and e.get("Action") in ("pass", "fail"):
            (passed if e["Action"] == "pass" else failed).add(e["Package"] + "::" + e["Test"])
stable = set(base["stable_pass"])
missing = sorted(stable - passed)
print("stable_pass=%d passed_now=%d missing_from_pass=%d" % (len(stable), len(passed & stable), len(missing)))
for x in missing[:50]:
    print("  NOT PASSING:", x, "(failed)" if x in failed else "(not run)")
sys.exit(1 if missing else 0)
