#!/usr/bin/env python3
"""Confirm a seeded mutation delivered by a sub-agent and run our checks against it.

usage: seedverify.py <PROP> <N> [--checks C01,C04] [--tier quick|thorough] [--skip-suite]

 1. scratch worktree of /repo HEAD under /tmp, apply /tmp/seedout/<PROP>/patch<N>.diff
 2. build + the existing tests of every touched module: the set of passing tests must contain every
    baseline stable_pass test of those modules (failing ones are re-run alone up to 3 times: the
    machine is loaded and a few upstream tests are timing sensitive)
 3. the demo test fails with the patch and passes without it
 4. ./check <ID> --tier quick for each requested check with VERIF_REPO=<patched worktree>
 5. on success copies everything to /verif/seeded/<PROP>-<N>/ with meta.json
The worktree and its build output are removed at the end.
"""
import json, os, re, shutil, subprocess, sys, time

GO = "/root/go/pkg/mod/golang.org/toolchain@v0.0.1-go1.25.0.linux-amd64/bin"
ENV = dict(os.environ, PATH=GO + ":" + os.environ["PATH"], GOTOOLCHAIN="local", GOFLAGS="-mod=mod", GOPROXY="off", GOSUMDB="off")


def sh(cmd, cwd=None, timeout=1800, env=None):
    try:
        p = subprocess.run(cmd, shell=isinstance(cmd, str), cwd=cwd, env=env or ENV, stdout=subprocess.PIPE, stderr=subprocess.STDOUT, timeout=timeout)
        return p.returncode, p.stdout.decode("utf-8", "replace")
    except subprocess.TimeoutExpired as e:
        return -999, (e.stdout or b"").decode("utf-8", "replace") + "\nTIMEOUT"


def module_of(path, root):
    d = os.path.dirname(os.path.join(root, path))
    while not os.path.exists(os.path.join(d, "go.mod")):
        d = os.path.dirname(d)
    return d


def suite(mod):
    rc, out = sh(["go", "test", "-json", "-vet=off", "-count=1", "-timeout", "25m", "./..."], cwd=mod, timeout=2400)
    passed, failed = set(), set()
    for line in out.splitlines():
        try:
            e = json.loads(line)
        except Exception:
            continue
        if e.get("Test") and e.get("Action") in ("pass", "fail"):
            (passed if e["Action"] == "pass" else failed).add(e["Package"] + "::" + e["Test"])
    return passed, failed


def main():
    prop, n = sys.argv[1], sys.argv[2]
    args = sys.argv[3:]
    checks = [prop]
    tier = "quick"
    skip_suite = "--skip-suite" in args
    if "--checks" in args:
        checks = args[args.index("--checks") + 1].split(",")
    if "--tier" in args:
        tier = args[args.index("--tier") + 1]
    src = "/tmp/seedout/%s" % prop
    if not os.path.exists(src + "/patch%s.diff" % n):
        src = "/verif/seeded/%s-%s" % (prop, n)
        patch, demo, meta = src + "/patch.diff", src + "/demo_test.go", src + "/meta.json"
    else:
        patch, demo, meta = src + "/patch%s.diff" % n, src + "/demo%s_test.go" % n, src + "/meta%s.json" % n
    wt = "/tmp/sv-%s-%s" % (prop, n)
    sh("git -C /repo worktree remove --force %s; rm -rf %s" % (wt, wt))
    rc, out = sh("git -C /repo worktree add -f --detach %s HEAD" % wt)
    res = dict(property=prop, n=n, at=time.strftime("%Y-%m-%dT%H:%M:%SZ", time.gmtime()))
    try:
        rc, out = sh("git apply --check %s && git apply %s" % (patch, patch), cwd=wt)
        if rc != 0:
            res["error"] = "patch does not apply: " + out[-400:]
            return res
        files = [l[6:] for l in open(patch).read().splitlines() if l.startswith("+++ b/")]
        res["files"] = files
        if any(f.endswith("_test.go") for f in files):
            res["error"] = "patch edits test files"
            return res
        mods = sorted({module_of(f, wt) for f in files})
        res["modules"] = [os.path.relpath(m, wt) for m in mods]
        for m in mods:
            rc, out = sh("go build ./... && go test -vet=off -count=1 -run '^$' ./...", cwd=m, timeout=1200)
            if rc != 0:
                res["error"] = "does not compile: " + out[-600:]
                return res
        res["compiles"] = True
        prev = "/tmp/seedout/%s/verify%s.json" % (prop, n)
        if skip_suite and os.path.exists(prev):
            pj = json.load(open(prev))
            if pj.get("existing_tests_pass"):
                res["suite"], res["existing_tests_pass"] = pj.get("suite"), True
        if not skip_suite:
            base = json.load(open("/root/.vp/BASELINE.json"))
            stable = set(eval(base["stable_pass"]) if isinstance(base["stable_pass"], str) else base["stable_pass"])
            missing_all = []
            for m in mods:
                passed, failed = suite(m)
                rc, out = sh("go list -m", cwd=m)
                modname = out.strip().splitlines()[-1]
                mine = {t for t in stable if t.split("::")[0] == modname or t.split("::")[0].startswith(modname + "/")}
                # nested modules have their own module path, so prefix matching could claim them: drop packages that do not belong
                rc, out = sh("go list ./...", cwd=m)
                pkgs = set(out.split())
                mine = {t for t in mine if t.split("::")[0] in pkgs}
                missing = sorted(mine - passed)
                still = []
                for t in missing:
                    pkg, name = t.split("::")
                    top = name.split("/")[0]
                    ok = False
                    for _ in range(8):
                        rc, out = sh(["go", "test", "-vet=off", "-count=1", "-run", "^" + top + "$", pkg], cwd=m, timeout=900)
                        if rc == 0:
                            ok = True
                            break
                    if not ok:
                        still.append(t)
                res.setdefault("suite", {})[os.path.relpath(m, wt)] = dict(baseline=len(mine), passed=len(mine & passed), retried=len(missing), failing=still)
                missing_all += still
            if missing_all:
                res["error"] = "existing tests fail with the patch: %s" % missing_all[:5]
                return res
            res["existing_tests_pass"] = True
        # demo
        first = " ".join(open(demo).read().splitlines()[:6])
        pkgdir = "."
        mp = re.search(r"package dir(?:ectory)?:?\s*`?([\w./-]+)", first)
        if mp and os.path.isdir(os.path.join(wt, mp.group(1).lstrip("/"))):
            pkgdir = mp.group(1).lstrip("/") or "."
        else:
            for tok in re.findall(r"[\w./-]+", first):
                if not tok.startswith("/") and tok not in (".", "..") and "/" not in tok.strip("/") + "x" and os.path.isdir(os.path.join(wt, tok)) and os.path.exists(os.path.join(wt, tok, "go.mod")):
                    pkgdir = tok
                    break
        if pkgdir == ".":
            # the package argument of the go test command given in the header (e.g. "./rueidislock/")
            marg = re.search(r"go test[^\n]*?\s(\./[\w./-]+)", first)
            if marg and os.path.isdir(os.path.join(wt, marg.group(1))):
                pkgdir = marg.group(1).strip("./") or "."
        res["demo_pkg"] = pkgdir
        dst = os.path.join(wt, pkgdir, "zz_seed_demo%s_test.go" % n)
        shutil.copy(demo, dst)
        mrun = re.search(r"-run[ =]+['\"]?([^\s'\"]+)", first)
        runpat = mrun.group(1) if mrun else "Seed"
        cmd = ["go", "test"] + (["-tags", "verif"] if "-tags verif" in first else []) + ["-vet=off", "-count=1", "-run", runpat, "."]
        rc1, out1 = sh(cmd, cwd=os.path.join(wt, pkgdir), timeout=900)
        sh("git apply -R %s" % patch, cwd=wt)
        rc0, out0 = sh(cmd, cwd=os.path.join(wt, pkgdir), timeout=900)
        sh("git apply %s" % patch, cwd=wt)
        os.remove(dst)
        res["demo"] = dict(cmd=" ".join(cmd), with_patch_rc=rc1, without_patch_rc=rc0, with_patch_tail=out1[-600:], without_patch_tail=out0[-300:])
        if not (rc1 != 0 and rc0 == 0 and "no tests to run" not in out0):
            res["error"] = "demo does not discriminate"
            return res
        res["demo_ok"] = True
        # our checks
        det = {}
        for cid in checks:
            work = "/var/tmp/svwork-%s-%s-%s" % (prop, n, cid)
            shutil.rmtree(work, ignore_errors=True)
            env = dict(ENV, VERIF_REPO=wt, VERIF_WORK=work)
            t0 = time.time()
            rc, out = sh(["/verif/check", cid, "--tier", tier], cwd="/verif", env=env, timeout=7200)
            viol = [l for l in out.splitlines() if l.startswith("VIOLATION")]
            det[cid] = dict(tier=tier, rc=rc, wall_s=round(time.time() - t0, 1), violations=[v[:500] for v in viol[:3]],
                            summary=[l for l in out.splitlines() if l.startswith("[check]")][-1:] )
            shutil.rmtree(work, ignore_errors=True)
        res["detection"] = det
        res["detected"] = any(d["rc"] == 1 for d in det.values())
        return res
    finally:
        sh("git -C /repo worktree remove --force %s; rm -rf %s" % (wt, wt))
        sh("go clean -cache >/dev/null 2>&1 || true") if False else None
        out = "/tmp/seedout/%s/verify%s.json" % (prop, n)
        os.makedirs(os.path.dirname(out), exist_ok=True)
        json.dump(res, open(out, "w"), indent=1)
        print(json.dumps(res, indent=1)[:3000])
        if res.get("demo_ok") and src.startswith("/tmp/seedout"):
            d = "/verif/seeded/%s-%s" % (prop, n)
            os.makedirs(d, exist_ok=True)
            shutil.copy(patch, d + "/patch.diff")
            shutil.copy(demo, d + "/demo_test.go")
            try:
                m = json.load(open(meta))
            except Exception:
                m = {}
            try:
                oldv = json.load(open(d + "/meta.json")).get("verification", {})
                for k, v in (oldv.get("detection") or {}).items():
                    res.setdefault("detection", {}).setdefault(k, v)  # keep results of checks not re-run now
                res["detected"] = any(x.get("rc") == 1 for x in res.get("detection", {}).values())
            except Exception:
                pass
            m["verification"] = res
            json.dump(m, open(d + "/meta.json", "w"), indent=1)
        elif res.get("demo_ok"):
            try:
                m = json.load(open(meta))
            except Exception:
                m = {}
            m.setdefault("verification", {}).setdefault("detection", {}).update(res.get("detection", {}))
            m["verification"]["detected"] = m["verification"].get("detected") or res.get("detected")
            json.dump(m, open(meta, "w"), indent=1)


if __name__ == "__main__":
    main()
