#!/bin/bash
# usage: mut.sh <name> <check id> '<shell command that edits files in the scratch copy>'
# Copies /repo to /var/tmp/rmut-<name>, applies the edit, runs the quick tier of the check against
# the copy (VERIF_REPO, private VERIF_WORK), prints the diff head and the verdict, removes everything.
name=$1; pid=$2; cmd=$3
d=/var/tmp/rmut-$name
rm -rf $d; rsync -a --exclude .git /repo/ $d/
(cd $d && bash -c "$cmd")
if diff -rq /repo $d --exclude .git >/dev/null; then echo "NOCHANGE $name: the edit did not change anything"; rm -rf $d; exit 3; fi
(cd $d && diff -ru /repo . --exclude .git | head -${MUT_DIFF_LINES:-30}) || true
export VERIF_WORK=/var/tmp/rmutwork-$name
rm -rf $VERIF_WORK
VERIF_REPO=$d timeout 1500 /verif/check $pid --tier ${MUT_TIER:-quick} 2>&1 | tail -4
rm -rf $d $VERIF_WORK
