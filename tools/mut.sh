#!/bin/bash
# usage: tools_mut.sh <name> <check id> '<sed/python command applied in scratch copy>' ; runs quick tier against a scratch copy of /repo
set -e
name=$1; pid=$2; cmd=$3
d=/var/tmp/rmut-$name
rm -rf $d; rsync -a --exclude .git /repo/ $d/
(cd $d && bash -c "$cmd")
(cd $d && diff -ru /repo . --exclude .git | head -30) || true
export VERIF_WORK=/var/tmp/rmutwork-$name
rm -rf $VERIF_WORK
VERIF_REPO=$d timeout 1500 /verif/check $pid --tier quick 2>&1 | tail -4
rm -rf $d $VERIF_WORK
