#!/usr/bin/env python3
"""Print the markdown table of thorough-tier runs from the driver's summary lines in the given log files:
last line per (property, seed) wins."""
import re, sys
rows = {}
for f in sys.argv[1:]:
    try:
        for l in open(f, errors="replace"):
            m = re.match(r"\[check\] (C\d+) tier=thorough seed=(\d+) evaluations=(\d+) distinct_nontrivial=(\d+) violations=(\d+) wall=([\d.]+)s exit=(\d+)", l)
            if m:
                rows[(m.group(1), int(m.group(2)))] = m.groups()[2:]
    except FileNotFoundError:
        pass
seeds = sorted({s for _, s in rows})
props = sorted({p for p, _ in rows})
print("| Property | " + " | ".join("seed %d: cases / non-trivial / wall / exit" % s for s in seeds) + " |")
print("|---|" + "---|" * len(seeds))
for p in props:
    cells = []
    for s in seeds:
        r = rows.get((p, s))
        cells.append("—" if not r else "%s / %s / %ss / %s" % (r[0], r[1], r[3].split(".")[0], r[4]))
    print("| %s | %s |" % (p, " | ".join(cells)))
