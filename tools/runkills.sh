#!/bin/bash
# usage: runkills.sh <kills file> <log>   - runs each "name|check|edit" line through mut.sh, one at a time
while IFS='|' read -r name chk cmd; do
  case "$name" in ''|\#*) continue;; esac
  out=$(timeout 1800 /verif/tools/mut.sh "$name" "$chk" "$cmd" 2>&1 | grep -E "NOCHANGE|^VIOLATION|^INCONCL|^\[check\]" | cut -c1-400 | tr '\n' ' ')
  echo "$name | $chk | $cmd => $out" >> "$2"
done < "$1"
