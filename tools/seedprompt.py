#!/usr/bin/env python3
"""Print the brief for a seeded-mutation sub-agent (property text + worktree path only)."""
import json, sys
pid = sys.argv[1]
rec = None
for l in open('/verif/properties.jsonl'):
    d = json.loads(l)
    if d['id'] == pid:
        rec = d
wt = "/tmp/seed-" + pid
out = "/tmp/seedout/" + pid
print(f"""You are given ONE semantic property of the Go Redis client library redis/rueidis and a private scratch git worktree of that repository at {wt} (a checkout of the current HEAD). Work ONLY inside {wt} and write your deliverables to {out}/ (create it). Do not read or write anything under /verif or /repo, and do not commit anything.

Environment for every shell call (the sandbox is offline):
export PATH=/root/go/pkg/mod/golang.org/toolchain@v0.0.1-go1.25.0.linux-amd64/bin:$PATH GOTOOLCHAIN=local GOFLAGS=-mod=mod GOPROXY=off GOSUMDB=off
Always wrap long commands in `timeout`. NEVER use `git stash` (the stash is shared between all worktrees of the repository and other people use it concurrently): to set a change aside use `git diff > somefile` and `git apply -R somefile` / `git checkout -- <files>`. The repository is a multi-module repo (root module plus add-on modules such as rueidiscompat, rueidislock, rueidisprob, rueidislimiter, rueidisaside, om, mock ... each with its own go.mod); the unit tests run without a Redis server for the most part (tests that need a server fail offline both before and after your change - ignore those, but compare against a run on the untouched tree so you know which ones).

The property (JSON record; `statement` is the property, the rest tells you where it lives in the code):
{json.dumps(rec, indent=1)}

Your job: produce TWO different, realistic changes ("seeded mutations") to redis/rueidis source files (non-test .go files) such that, for each change separately:
 1. the code still compiles (go build ./... and go vet -less test compile `go test -vet=off -count=1 -run '^$' ./...` in every module you touched);
 2. the EXISTING test suite of the touched module(s) still passes exactly as it did before the change (run `go test -vet=off -count=1 -timeout 20m ./...` in the module on the untouched tree first to learn the baseline, then with your change; same set of passing tests required; the root module takes about 2 minutes);
 3. the property above is genuinely broken: there is at least one input / configuration / operation history / interleaving / fault sequence within the property's stated domain for which the changed code violates the statement, while the unchanged code does not;
 4. the break needs something SPECIFIC to manifest - a particular input shape, size, boundary value, option combination, interleaving or fault timing - i.e. it is the kind of bug a plausible refactoring or optimisation could introduce and a handful of example-based tests would miss. Do NOT produce changes that break every call, that panic on the common path, or that are obviously sabotage (e.g. `return nil` at the top of a function). Prefer the two changes to attack different clauses/mechanisms of the property.
For each change write a small demonstration: a Go test (placed in a NEW *_test.go file in the right package of the worktree, named zz_seed_demo<N>_test.go) or a tiny program that FAILS (or prints the wrong behaviour) on the changed tree and PASSES on the unchanged tree, using only what exists in the repository (its own mock connections / test helpers are fine; no real Redis server, no network). Verify both directions yourself.

Deliverables in {out}/ for N in 1,2: `patch<N>.diff` (output of `git diff` for the source change only, without the demo file; must apply with `git apply` on the unchanged tree), `demo<N>_test.go` (the demo test file; first line a comment with the package directory it belongs to and the exact `go test -run ...` command), `meta<N>.json` with keys: property (the id), summary (one sentence: what was changed), breaks (which part of the statement is violated and for which specific inputs/conditions), manifests_when (the specific trigger), files (list), existing_tests ("pass": modules you ran and the pass/fail counts before and after). When finished, restore the worktree to the unchanged state (`git checkout -- . && git clean -fd` inside {wt}) - the diffs in {out}/ are what counts. Final answer: a short summary of the two changes and how you verified them.""")
