package lua

import (
	"math"
	"strconv"
	"strings"

	"verifkit/resp"
)

const maxReplyDepth = 100

// replyToLua converts a server reply (RESP2 terms) to a Lua value. Error replies become
// {err=...} tables here; redis.call turns a top-level one into a raised error.
func replyToLua(v resp.Value, depth int) value {
	if depth > maxReplyDepth {
		unsupported("reply nested deeper than the interpreter's limit")
	}
	switch v.T {
	case ':':
		return float64(v.I)
	case '$':
		return v.S
	case '_':
		return false
	case '+':
		t := newTable()
		t.set("ok", v.S)
		return t
	case '-':
		t := newTable()
		t.set("err", v.S)
		return t
	case '*':
		t := newTable()
		for i, e := range v.A {
			t.setInt(i+1, replyToLua(e, depth+1))
		}
		return t
	}
	unsupported("reply of RESP type " + strconv.QuoteRune(rune(v.T)) + " given to a script")
	return nil
}

// luaToReply converts a script's return value to a reply, following luaReplyToRedisReply.
func luaToReply(v value, depth int) resp.Value {
	if depth > maxReplyDepth {
		unsupported("returned table nested deeper than the interpreter's limit")
	}
	switch x := v.(type) {
	case nil:
		return resp.Null()
	case bool:
		if x {
			return resp.Int(1)
		}
		return resp.Null()
	case float64:
		return resp.Int(numberToInt(x, "returned number"))
	case string:
		return resp.Bulk(x)
	case *table:
		if x.lib != "" {
			unsupported("returning the library table '" + x.lib + "'")
		}
		if s, ok := x.get("err").(string); ok {
			return resp.Err(s)
		}
		if s, ok := x.get("ok").(string); ok {
			return resp.Simple(strings.NewReplacer("\r", " ", "\n", " ").Replace(s))
		}
		for _, f := range []string{"double", "map", "set", "big_number", "verbatim_string"} {
			if x.get(f) != nil {
				unsupported("returning a table with the RESP3 field '" + f + "'")
			}
		}
		out := []resp.Value{}
		for i := 1; ; i++ {
			e := x.getInt(i)
			if e == nil {
				break
			}
			out = append(out, luaToReply(e, depth+1))
		}
		return resp.Arr(out...)
	}
	// Redis replies null for functions and other types
	return resp.Null()
}

// numberToInt is the C cast (long long)n for the values where that cast is defined.
func numberToInt(n float64, what string) int64 {
	if math.IsNaN(n) || n >= 9223372036854775808.0 || n < -9223372036854775808.0 {
		unsupported(what + " outside the integer range")
	}
	return int64(n) // truncates toward zero
}

// fmtCommandArg formats a number passed to redis.call. See the package comment: the result is
// used only if every Redis version agrees on it.
func fmtCommandArg(n float64) string {
	if math.IsNaN(n) || math.IsInf(n, 0) {
		unsupported("NaN or infinity as a command argument")
	}
	if n == 0 && math.Signbit(n) {
		unsupported("negative zero as a command argument") // "-0" before Redis 7.2, "0" after
	}
	lua514 := strconv.FormatFloat(n, 'g', 14, 64) // lua_tolstring
	old := strconv.FormatFloat(n, 'g', 17, 64)    // Redis <= 7.0: "%.17g"
	var modern string                             // Redis >= 7.2: ll2string or fpconv_dtoa
	if n == math.Trunc(n) && math.Abs(n) < 4.6e18 {
		modern = strconv.FormatInt(int64(n), 10)
	} else {
		modern = strconv.FormatFloat(n, 'g', -1, 64)
	}
	if lua514 != old || old != modern {
		unsupported("number " + old + " as a command argument is formatted differently by different Redis versions")
	}
	return old
}
