package lua

import (
	"errors"
	"reflect"
	"testing"

	"verifkit/resp"
)

// ---- Lua -> Redis ----

func TestLuaToRedis(t *testing.T) {
	expect(t, `return 3`, resp.Int(3))
	expect(t, `return 3.99`, resp.Int(3))   // truncation toward zero
	expect(t, `return -3.99`, resp.Int(-3)) // toward zero, not floor
	expect(t, `return 0.5`, resp.Int(0))
	expect(t, `return -0.5`, resp.Int(0))
	expect(t, `return 1e15`, resp.Int(1000000000000000))
	expect(t, `return "abc"`, resp.Bulk("abc"))
	expect(t, `return ""`, resp.Bulk(""))
	expect(t, `return "10"`, resp.Bulk("10")) // numeric strings stay strings
	expect(t, `return true`, resp.Int(1))
	expect(t, `return false`, resp.Null())
	expect(t, `return nil`, resp.Null())
	expect(t, `return`, resp.Null())
	expect(t, ``, resp.Null())
	expect(t, `local x = 1`, resp.Null())
	expect(t, `return {ok="FINE"}`, resp.Simple("FINE"))
	expect(t, `return {ok="a\r\nb"}`, resp.Simple("a  b"))
	expect(t, `return {err="MY failure"}`, resp.Err("MY failure"))
	expect(t, `return {err="E", ok="O"}`, resp.Err("E")) // err is looked at first
	expect(t, `return {ok=1, 5}`, ints(5))               // non-string ok field is ignored
	expect(t, `return {err=true, 5}`, ints(5))
	expect(t, `return {1,2,3}`, ints(1, 2, 3))
	expect(t, `return {}`, resp.Arr())
	expect(t, `return {1,2,nil,4}`, ints(1, 2)) // stops at the first nil
	expect(t, `return {nil,2}`, resp.Arr())
	expect(t, `local t = {1,2,3} t[2] = nil return t`, ints(1))
	expect(t, `return {1, "a", true, false, 2.7, {3, {4}}, {ok="S"}, {err="E"}}`, resp.Arr(
		resp.Int(1), resp.Bulk("a"), resp.Int(1), resp.Null(), resp.Int(2),
		resp.Arr(resp.Int(3), ints(4)), resp.Simple("S"), resp.Err("E")))
	expect(t, `return {1, 2, x=5}`, ints(1, 2)) // non-array fields are dropped
	expect(t, `return {[1]="a", [2]="b", [4]="d"}`, bulks("a", "b"))
	expect(t, `return 1, 2, 3`, resp.Int(1)) // only the first value is used
	expect(t, `return (function() return "x", "y" end)()`, resp.Bulk("x"))
	expect(t, `return function() end`, resp.Null())
	expect(t, `return redis.error_reply("MY ERR")`, resp.Err("MY ERR"))
	expect(t, `return redis.status_reply("PONG")`, resp.Simple("PONG"))
	expect(t, `return {redis.status_reply("A"), redis.error_reply("B c")}`,
		resp.Arr(resp.Simple("A"), resp.Err("B c")))
	expect(t, `return redis.error_reply("x").err`, resp.Bulk("x"))
	expect(t, `return redis.status_reply("x").ok`, resp.Bulk("x"))

	expectUnsupported(t, `return 0/0`)
	expectUnsupported(t, `return math.huge`)
	expectUnsupported(t, `return -math.huge`)
	expectUnsupported(t, `return 2^63`)
	expect(t, `return -(2^63)`, resp.Int(-9223372036854775808))
	expect(t, `return 2^62`, resp.Int(4611686018427387904))
	expectUnsupported(t, `return {double=1.5}`)
	expectUnsupported(t, `return {map={}}`)
	expectUnsupported(t, `return {set={}}`)
	expectUnsupported(t, `local t = {} t[1] = t return t`) // infinitely nested
	expectUnsupported(t, `return redis.error_reply(5)`)
	expectUnsupported(t, `return redis.status_reply()`)
}

// ---- Redis -> Lua ----

func TestRedisToLua(t *testing.T) {
	replies := map[string]resp.Value{
		"INT":    resp.Int(42),
		"NEG":    resp.Int(-7),
		"BULK":   resp.Bulk("hello"),
		"EMPTY":  resp.Bulk(""),
		"NULL":   resp.Null(),
		"NULLA":  {T: '_', Null2: '*'},
		"STATUS": resp.Simple("OK"),
		"ERROR":  resp.Err("WRONGTYPE bad type"),
		"ARRAY":  resp.Arr(resp.Int(1), resp.Bulk("two"), resp.Null(), resp.Arr(resp.Int(4), resp.Simple("QUEUED")), resp.Err("ERR inner")),
		"EMPTYA": resp.Arr(),
		"MAP":    resp.Map(resp.Bulk("k"), resp.Int(1)),
		"DOUBLE": resp.Double("1.5"),
		"BOOL":   resp.Bool(true),
	}
	var calls [][]string
	call := func(a []string) resp.Value {
		calls = append(calls, append([]string(nil), a...))
		return replies[a[0]]
	}
	check := func(script string, want resp.Value) {
		t.Helper()
		got := mustRun(t, script, nil, nil, call)
		if !resp.Equal(got, want) {
			t.Errorf("script %q:\n got  %v\n want %v", script, got, want)
		}
	}
	// integer -> number
	check(`local v = redis.call("INT") return {type(v), v + 1}`, resp.Arr(resp.Bulk("number"), resp.Int(43)))
	check(`return redis.call("NEG")`, resp.Int(-7))
	// bulk -> string
	check(`local v = redis.call("BULK") return {type(v), v .. "!"}`, bulks("string", "hello!"))
	check(`local v = redis.call("EMPTY") return {type(v), #v}`, resp.Arr(resp.Bulk("string"), resp.Int(0)))
	// null -> false
	check(`local v = redis.call("NULL") return {type(v), v == false, v == nil}`,
		resp.Arr(resp.Bulk("boolean"), resp.Int(1), resp.Null()))
	check(`return redis.call("NULL")`, resp.Null())
	check(`return redis.call("NULLA") == false`, resp.Int(1))
	check(`if redis.call("NULL") then return "set" else return "unset" end`, resp.Bulk("unset"))
	// status -> table with ok
	check(`local v = redis.call("STATUS") return {type(v), v.ok, v["ok"]}`, bulks("table", "OK", "OK"))
	check(`return redis.call("STATUS")`, resp.Simple("OK"))
	check(`if redis.call("STATUS") then return 1 else return 0 end`, resp.Int(1))
	// error reply: redis.call raises, the script aborts
	calls = nil
	check(`redis.call("ERROR") redis.call("INT") return 1`, resp.Err("WRONGTYPE bad type"))
	if len(calls) != 1 {
		t.Errorf("script continued after a raised error: %q", calls)
	}
	// error reply: redis.pcall returns a table with err
	check(`local v = redis.pcall("ERROR") return {type(v), v.err}`, bulks("table", "WRONGTYPE bad type"))
	check(`return redis.pcall("ERROR")`, resp.Err("WRONGTYPE bad type"))
	check(`local v = redis.pcall("INT") return v`, resp.Int(42))
	// the raised error can be caught with pcall and carries the error table
	check(`local ok, e = pcall(redis.call, "ERROR") return {ok, type(e), e.err}`,
		resp.Arr(resp.Null(), resp.Bulk("table"), resp.Bulk("WRONGTYPE bad type")))
	check(`local ok, e = pcall(function() return redis.call("ERROR") end) return e`, resp.Err("WRONGTYPE bad type"))
	// array -> table, nested, 1-based
	check(`local v = redis.call("ARRAY") return {type(v), #v, v[1], v[2], v[3] == false, #v[4], v[4][1], v[4][2].ok, v[5].err, v[0] == nil, v[6] == nil}`,
		resp.Arr(resp.Bulk("table"), resp.Int(5), resp.Int(1), resp.Bulk("two"), resp.Int(1), resp.Int(2),
			resp.Int(4), resp.Bulk("QUEUED"), resp.Bulk("ERR inner"), resp.Int(1), resp.Int(1)))
	check(`return redis.call("ARRAY")`, replies["ARRAY"])
	check(`local v = redis.call("EMPTYA") return {type(v), #v}`, resp.Arr(resp.Bulk("table"), resp.Int(0)))
	// RESP3-only types are not something a RESP2 script can see
	for _, c := range []string{"MAP", "DOUBLE", "BOOL"} {
		if _, err := Run(`return redis.call("`+c+`")`, nil, nil, call); !errors.Is(err, ErrUnsupported) {
			t.Errorf("%s: want ErrUnsupported, got %v", c, err)
		}
	}
}

// ---- arguments given to redis.call ----

func TestRedisCallArguments(t *testing.T) {
	var got []string
	call := func(a []string) resp.Value {
		got = append([]string(nil), a...)
		return resp.OK()
	}
	check := func(script string, keys, argv []string, want ...string) {
		t.Helper()
		got = nil
		v := mustRun(t, script, keys, argv, call)
		if v.T == '-' {
			t.Errorf("script %q failed: %v", script, v)
		}
		if !reflect.DeepEqual(got, want) {
			t.Errorf("script %q: argv %q, want %q", script, got, want)
		}
	}
	check(`redis.call("SET", KEYS[1], ARGV[1])`, []string{"k"}, []string{"v"}, "SET", "k", "v")
	check(`redis.call("set", "k", 3)`, nil, nil, "set", "k", "3")
	check(`redis.call("set", "k", 0)`, nil, nil, "set", "k", "0")
	check(`redis.call("set", "k", -12)`, nil, nil, "set", "k", "-12")
	check(`redis.call("set", "k", 1.5)`, nil, nil, "set", "k", "1.5")
	check(`redis.call("set", "k", -0.25)`, nil, nil, "set", "k", "-0.25")
	check(`redis.call("set", "k", 1700000000000)`, nil, nil, "set", "k", "1700000000000")
	check(`redis.call("set", "k", tonumber(ARGV[1]) + 1000)`, nil, []string{"1700000000000"}, "set", "k", "1700000001000")
	check(`redis.call("set", "k", 99999999999999)`, nil, nil, "set", "k", "99999999999999")
	check(`redis.call("set", "k", 10/2)`, nil, nil, "set", "k", "5")
	check(`redis.call("x", "a\0b", "")`, nil, nil, "x", "a\x00b", "")
	check(`redis.call("HSET", KEYS[1], unpack(ARGV))`, []string{"h"}, []string{"f1", "v1", "f2", "v2"}, "HSET", "h", "f1", "v1", "f2", "v2")
	check(`redis.pcall("PING")`, nil, nil, "PING")

	// Formats on which Lua's %.14g, Redis <= 7.0's %.17g and Redis >= 7.2 disagree are refused
	// instead of guessed: 1e15 is "1e+15" for tostring but "1000000000000000" on the wire.
	for _, s := range []string{
		`redis.call("set", "k", 1e15)`,
		`redis.call("set", "k", 100000000000000)`,
		`redis.call("set", "k", 0.1)`,
		`redis.call("set", "k", 1/3)`,
		`redis.call("set", "k", 0/0)`,
		`redis.call("set", "k", math.huge)`,
	} {
		if _, err := Run(s, nil, nil, call); !errors.Is(err, ErrUnsupported) {
			t.Errorf("%s: want ErrUnsupported, got %v", s, err)
		}
	}

	// invalid arguments raise
	for _, s := range []string{
		`redis.call()`,
		`redis.call("set", "k", true)`,
		`redis.call("set", nil)`,
		`redis.call("set", {})`,
	} {
		got = nil
		v := mustRun(t, s, nil, nil, call)
		if v.T != '-' || got != nil {
			t.Errorf("%s: got %v (call %q), want an error and no call", s, v, got)
		}
	}
	if _, err := Run(`redis.pcall("set", {})`, nil, nil, call); !errors.Is(err, ErrUnsupported) {
		t.Errorf("redis.pcall with a table argument: want ErrUnsupported, got %v", err)
	}
}

// ---- number to string ----

func TestNumberFormatting(t *testing.T) {
	for _, c := range []struct{ expr, want string }{
		{`3`, "3"},
		{`1.5`, "1.5"},
		{`1e15`, "1e+15"},
		{`1700000000000`, "1700000000000"},
		{`99999999999999`, "99999999999999"},
		{`100000000000000`, "1e+14"},
		{`123456789012345`, "1.2345678901234e+14"},
		{`-7`, "-7"},
		{`0`, "0"},
		{`0.1`, "0.1"},
		{`1/3`, "0.33333333333333"},
		{`2/3`, "0.66666666666667"},
		{`100/3`, "33.333333333333"},
		{`1e-5`, "1e-05"},
		{`0.0001`, "0.0001"},
		{`1e100`, "1e+100"},
		{`2^53`, "9.007199254741e+15"},
		{`10/2`, "5"},
		{`3.0`, "3"},
		{`0x10`, "16"},
		{`0xff`, "255"},
		{`1e2`, "100"},
		{`.5`, "0.5"},
		{`5.`, "5"},
		{`3e-2`, "0.03"},
		{`math.huge`, "inf"},
		{`-math.huge`, "-inf"},
	} {
		expect(t, `return tostring(`+c.expr+`)`, resp.Bulk(c.want))
		expect(t, `return (`+c.expr+`) .. ""`, resp.Bulk(c.want))
		expect(t, `return "n=" .. (`+c.expr+`)`, resp.Bulk("n="+c.want))
	}
	expect(t, `return 1 .. 2`, resp.Bulk("12"))
	expect(t, `return tostring(nil)`, resp.Bulk("nil"))
	expect(t, `return tostring(true)`, resp.Bulk("true"))
	expect(t, `return tostring(false)`, resp.Bulk("false"))
	expect(t, `return tostring("s")`, resp.Bulk("s"))
	expectUnsupported(t, `return tostring(0/0)`) // "nan" or "-nan" depending on the platform
	expectUnsupported(t, `return tostring({})`)  // address
	expectUnsupported(t, `return tostring(print)`)
	expectErr(t, `return tostring()`, "bad argument #1 to 'tostring'")
}
