package lua

import (
	"go/ast"
	goparser "go/parser"
	gotoken "go/token"
	"os"
	"reflect"
	"strconv"
	"strings"
	"testing"

	"verifkit/resp"
)

// allRepoScripts maps the location of each script in the repository to the copy in
// scripts_test.go.
var allRepoScripts = map[string]string{
	"rueidislock/lock.go:delkey":                                                    lockDelkey,
	"rueidislock/lock.go:extend":                                                    lockExtend,
	"rueidislock/lock.go:acqms":                                                     lockAcqms,
	"rueidislock/lock.go:acqat":                                                     lockAcqat,
	"rueidislock/lock.go:fcqms":                                                     lockFcqms,
	"rueidislock/lock.go:fcqat":                                                     lockFcqat,
	"rueidislimiter/limiter.go:rateLimitScript":                                     rateLimitScript,
	"rueidisaside/aside.go:delkey":                                                  asideDelkey,
	"rueidisaside/aside.go:setkey":                                                  asideSetkey,
	"rueidisaside/aside.go:acquireLock":                                             asideAcquireLock,
	"rueidisprob/bloomfilter.go:bloomFilterAddMultiScript":                          bloomFilterAddMultiScript,
	"rueidisprob/bloomfilter.go:bloomFilterExistsMultiScript":                       bloomFilterExistsMultiScript,
	"rueidisprob/bloomfilter.go:bloomFilterExistsMultiReadOnlyScript":               bloomFilterExistsMultiReadOnlyScript,
	"rueidisprob/bloomfilter.go:bloomFilterResetScript":                             bloomFilterResetScript,
	"rueidisprob/bloomfilter.go:bloomFilterDeleteScript":                            bloomFilterDeleteScript,
	"rueidisprob/countingbloomfilter.go:countingBloomFilterAddMultiScript":          countingBloomFilterAddMultiScript,
	"rueidisprob/countingbloomfilter.go:countingBloomFilterRemoveMultiScript":       countingBloomFilterRemoveMultiScript,
	"rueidisprob/countingbloomfilter.go:countingBloomFilterDeleteScript":            countingBloomFilterDeleteScript,
	"rueidisprob/slidingbloomfilter.go:slidingBloomFilterInitializeScript":          slidingBloomFilterInitializeScript,
	"rueidisprob/slidingbloomfilter.go:slidingBloomFilterAddMultiScript":            slidingBloomFilterAddMultiScript,
	"rueidisprob/slidingbloomfilter.go:slidingBloomFilterExistsMultiScript":         slidingBloomFilterExistsMultiScript,
	"rueidisprob/slidingbloomfilter.go:slidingBloomFilterExistsReadOnlyMultiScript": slidingBloomFilterExistsReadOnlyMultiScript,
	"rueidisprob/slidingbloomfilter.go:slidingBloomFilterResetScript":               slidingBloomFilterResetScript,
	"om/hash.go:hashSaveScript":                                                     hashSaveScript,
	"om/json.go:jsonSaveScript":                                                     jsonSaveScript,
}

// TestScriptsMatchRepository re-extracts every Lua script from the repository sources (when they
// are available) and checks that the copies used by these tests are verbatim and complete.
func TestScriptsMatchRepository(t *testing.T) {
	const root = "/repo/"
	if _, err := os.Stat(root + "rueidislock/lock.go"); err != nil {
		t.Skip("repository sources not available")
	}
	files := map[string]bool{}
	for k := range allRepoScripts {
		files[k[:strings.IndexByte(k, ':')]] = true
	}
	found := map[string]string{}
	for f := range files {
		af, err := goparser.ParseFile(gotoken.NewFileSet(), root+f, nil, 0)
		if err != nil {
			t.Fatal(err)
		}
		ast.Inspect(af, func(n ast.Node) bool {
			vs, ok := n.(*ast.ValueSpec)
			if !ok {
				return true
			}
			for i, v := range vs.Values {
				var lit *ast.BasicLit
				switch x := v.(type) {
				case *ast.BasicLit:
					lit = x
				case *ast.CallExpr:
					if se, ok := x.Fun.(*ast.SelectorExpr); ok && strings.HasPrefix(se.Sel.Name, "NewLuaScript") && len(x.Args) > 0 {
						lit, _ = x.Args[0].(*ast.BasicLit)
					}
				}
				if lit == nil || lit.Kind != gotoken.STRING || i >= len(vs.Names) {
					continue
				}
				if s, err := strconv.Unquote(lit.Value); err == nil && strings.Contains(s, "redis.call") {
					found[f+":"+vs.Names[i].Name] = s
				}
			}
			return true
		})
	}
	for k, s := range found {
		if allRepoScripts[k] != s {
			t.Errorf("%s: the test's copy differs from the repository (or is missing)", k)
		}
	}
	for k := range allRepoScripts {
		if _, ok := found[k]; !ok {
			t.Errorf("%s: not found in the repository any more", k)
		}
	}
}

func TestRepoScriptsCompile(t *testing.T) {
	for k, s := range allRepoScripts {
		if _, err := Compile(s); err != nil {
			t.Errorf("%s: %v", k, err)
		}
	}
}

// scriptEnv runs scripts against a fakeRedis and checks replies and issued commands.
type scriptEnv struct {
	t *testing.T
	r *fakeRedis
}

func (e *scriptEnv) run(script string, keys, argv []string, want resp.Value, wantCmds ...string) {
	e.t.Helper()
	e.r.log = nil
	got, err := Run(script, keys, argv, e.r.call)
	if err != nil {
		e.t.Fatalf("keys %q argv %q: unexpected error: %v", keys, argv, err)
	}
	if !resp.Equal(got, want) {
		e.t.Errorf("keys %q argv %q:\n got  %v\n want %v", keys, argv, got, want)
	}
	if wantCmds != nil && !reflect.DeepEqual(e.r.log, wantCmds) {
		e.t.Errorf("keys %q argv %q: commands\n got  %q\n want %q", keys, argv, e.r.log, wantCmds)
	}
}

func (e *scriptEnv) str(key, want string) {
	e.t.Helper()
	e.r.expire(key)
	if got, ok := e.r.str[key]; !ok || got != want {
		e.t.Errorf("key %q = %q (present %v), want %q", key, got, ok, want)
	}
}

func (e *scriptEnv) missing(key string) {
	e.t.Helper()
	if e.r.exists(key) {
		e.t.Errorf("key %q should not exist", key)
	}
}

func (e *scriptEnv) pttl(key string, want int64) {
	e.t.Helper()
	if got := e.r.pttl(key); got != want {
		e.t.Errorf("pttl %q = %d, want %d", key, got, want)
	}
}

func (e *scriptEnv) hashIs(key string, want map[string]string) {
	e.t.Helper()
	e.r.expire(key)
	if got := e.r.hash[key]; !reflect.DeepEqual(got, want) {
		e.t.Errorf("hash %q = %v, want %v", key, got, want)
	}
}

func TestLockScripts(t *testing.T) {
	k := []string{"lock"}
	e := &scriptEnv{t, newFakeRedis(1000)}

	// acqms: SET NX PX, then a GET (to create a client side caching subscription), returns SET's reply
	e.run(lockAcqms, k, []string{"v1", "5000"}, resp.OK(), "SET lock v1 NX PX 5000", "GET lock")
	e.str("lock", "v1")
	e.pttl("lock", 5000)
	e.run(lockAcqms, k, []string{"v2", "5000"}, resp.Null(), "SET lock v2 NX PX 5000", "GET lock")
	e.str("lock", "v1")
	e.r.now += 5000 // the lock expires
	e.run(lockAcqms, k, []string{"v2", "700"}, resp.OK())
	e.str("lock", "v2")
	e.pttl("lock", 700)

	// acqat: same with an absolute deadline
	e = &scriptEnv{t, newFakeRedis(1000)}
	e.run(lockAcqat, k, []string{"v1", "6000"}, resp.OK(), "SET lock v1 NX PXAT 6000", "GET lock")
	e.pttl("lock", 5000)
	e.run(lockAcqat, k, []string{"v2", "9000"}, resp.Null())
	e.str("lock", "v1")
	e.pttl("lock", 5000)

	// fcqms / fcqat: forced acquisition overwrites
	e.run(lockFcqms, k, []string{"v3", "250"}, resp.OK(), "SET lock v3 PX 250", "GET lock")
	e.str("lock", "v3")
	e.pttl("lock", 250)
	e.run(lockFcqat, k, []string{"v4", "4000"}, resp.OK(), "SET lock v4 PXAT 4000", "GET lock")
	e.str("lock", "v4")
	e.pttl("lock", 3000)
	// a bad expiry makes SET fail: redis.call raises and the script reply is that error
	e.run(lockFcqms, k, []string{"v5", "abc"}, resp.Err("ERR invalid expire time in 'set' command"), "SET lock v5 PX abc")
	e.str("lock", "v4")

	// extend: only the holder may move the deadline
	e.run(lockExtend, k, []string{"v4", "8000"}, resp.Int(1), "GET lock", "PEXPIREAT lock 8000", "GET lock")
	e.pttl("lock", 7000)
	e.run(lockExtend, k, []string{"other", "9000"}, resp.Int(0), "GET lock")
	e.pttl("lock", 7000)
	e.r.now = 8000 // expired
	e.run(lockExtend, k, []string{"v4", "9000"}, resp.Int(0), "GET lock")
	e.missing("lock")

	// delkey: only the holder may delete
	e = &scriptEnv{t, newFakeRedis(1000)}
	e.run(lockDelkey, k, []string{"v1"}, resp.Int(0), "GET lock") // missing key
	e.r.str["lock"] = "v1"
	e.run(lockDelkey, k, []string{"v2"}, resp.Int(0), "GET lock")
	e.str("lock", "v1")
	e.run(lockDelkey, k, []string{"v1"}, resp.Int(1), "GET lock", "DEL lock")
	e.missing("lock")
}

func TestAsideScripts(t *testing.T) {
	k := []string{"cache:k"}
	e := &scriptEnv{t, newFakeRedis(1000)}
	// acquireLock: nil when the lock was taken, else the current holder / value
	e.run(asideAcquireLock, k, []string{"id1", "1000"}, resp.Null(), "SET cache:k id1 NX PX 1000")
	e.str("cache:k", "id1")
	e.pttl("cache:k", 1000)
	e.run(asideAcquireLock, k, []string{"id2", "1000"}, resp.Bulk("id1"), "SET cache:k id2 NX PX 1000", "GET cache:k")
	e.str("cache:k", "id1")
	// setkey: replace the placeholder by the value if we still hold it
	e.run(asideSetkey, k, []string{"id2", "value", "60000"}, resp.Int(0), "GET cache:k")
	e.str("cache:k", "id1")
	e.run(asideSetkey, k, []string{"id1", "value", "60000"}, resp.OK(), "GET cache:k", "SET cache:k value PX 60000")
	e.str("cache:k", "value")
	e.pttl("cache:k", 60000)
	// delkey
	e.run(asideDelkey, k, []string{"id1"}, resp.Int(0), "GET cache:k")
	e.str("cache:k", "value")
	e.run(asideDelkey, k, []string{"value"}, resp.Int(1), "GET cache:k", "DEL cache:k")
	e.missing("cache:k")
	e.run(asideDelkey, k, []string{"value"}, resp.Int(0), "GET cache:k")
	// the lock expires on its own and can then be taken by somebody else
	e.run(asideAcquireLock, k, []string{"id1", "1000"}, resp.Null())
	e.r.now += 1000
	e.run(asideAcquireLock, k, []string{"id2", "1000"}, resp.Null())
	e.str("cache:k", "id2")
}

func TestLimiterScript(t *testing.T) {
	k := []string{"rl:{u}", "rl:{u}:ex"}
	e := &scriptEnv{t, newFakeRedis(1000)}
	// first request of a window: both keys are created with the window's deadline + 1s
	e.run(rateLimitScript, k, []string{"1", "61000", "1000"}, ints(1, 61000),
		"get rl:{u}:ex",
		"set rl:{u} 0 pxat 62000",
		"set rl:{u}:ex 61000 pxat 62000",
		"incrby rl:{u} 1")
	e.str("rl:{u}", "1")
	e.str("rl:{u}:ex", "61000")
	e.pttl("rl:{u}", 61000)
	// inside the window: only the counter moves, the reset time stays
	e.r.now = 2000
	e.run(rateLimitScript, k, []string{"2", "62000", "2000"}, ints(3, 61000), "get rl:{u}:ex", "incrby rl:{u} 2")
	// a check without consumption
	e.run(rateLimitScript, k, []string{"0", "62000", "2000"}, ints(3, 61000), "get rl:{u}:ex", "incrby rl:{u} 0")
	// the recorded window is over although the keys still exist (deadline + 1s grace)
	e.r.now = 61500
	e.run(rateLimitScript, k, []string{"5", "121500", "61500"}, ints(5, 121500),
		"get rl:{u}:ex",
		"set rl:{u} 0 pxat 122500",
		"set rl:{u}:ex 121500 pxat 122500",
		"incrby rl:{u} 5")
	// both keys expired
	e.r.now = 200000
	e.missing("rl:{u}")
	e.run(rateLimitScript, k, []string{"1", "260000", "200000"}, ints(1, 260000))
	// realistic unix millisecond timestamps survive the number formatting
	e = &scriptEnv{t, newFakeRedis(1700000000000)}
	e.run(rateLimitScript, k, []string{"1", "1700000060000", "1700000000000"}, ints(1, 1700000060000),
		"get rl:{u}:ex",
		"set rl:{u} 0 pxat 1700000061000",
		"set rl:{u}:ex 1700000060000 pxat 1700000061000",
		"incrby rl:{u} 1")
}

func TestBloomFilterScripts(t *testing.T) {
	k := []string{"bf", "bf:c"}
	e := &scriptEnv{t, newFakeRedis(1000)}
	// three items with two hash positions each: {3,5} {3,9} {3,5}; the third is a duplicate
	e.run(bloomFilterAddMultiScript, k, []string{"2", "3", "5", "3", "9", "3", "5"}, resp.Int(2),
		"BITFIELD bf SET u1 3 1", "BITFIELD bf SET u1 5 1",
		"BITFIELD bf SET u1 3 1", "BITFIELD bf SET u1 9 1",
		"BITFIELD bf SET u1 3 1", "BITFIELD bf SET u1 5 1",
		"INCRBY bf:c 2")
	e.str("bf", "\x14\x40")
	e.str("bf:c", "2")
	// adding a known item changes nothing
	e.run(bloomFilterAddMultiScript, k, []string{"2", "3", "5"}, resp.Int(2),
		"BITFIELD bf SET u1 3 1", "BITFIELD bf SET u1 5 1", "INCRBY bf:c 0")
	// exists: {3,5} yes, {3,4} no, {100,101} no
	wantExists := resp.Arr(resp.Int(1), resp.Null(), resp.Null())
	e.run(bloomFilterExistsMultiScript, k[:1], []string{"2", "3", "5", "3", "4", "100", "101"}, wantExists,
		"BITFIELD bf GET u1 3", "BITFIELD bf GET u1 5", "BITFIELD bf GET u1 3", "BITFIELD bf GET u1 4",
		"BITFIELD bf GET u1 100", "BITFIELD bf GET u1 101")
	e.run(bloomFilterExistsMultiReadOnlyScript, k[:1], []string{"2", "3", "5", "3", "4", "100", "101"}, wantExists,
		"BITFIELD_RO bf GET u1 3", "BITFIELD_RO bf GET u1 5", "BITFIELD_RO bf GET u1 3", "BITFIELD_RO bf GET u1 4",
		"BITFIELD_RO bf GET u1 100", "BITFIELD_RO bf GET u1 101")
	// a single hash iteration and nothing to check
	e.run(bloomFilterExistsMultiScript, k[:1], []string{"1", "9", "10"}, resp.Arr(resp.Int(1), resp.Null()))
	e.run(bloomFilterExistsMultiScript, k[:1], []string{"3"}, resp.Arr())
	e.run(bloomFilterAddMultiScript, k, []string{"3"}, resp.Int(2), "INCRBY bf:c 0")
	// reset and delete
	e.run(bloomFilterResetScript, k, nil, resp.Int(1), "SET bf ", "SET bf:c 0")
	e.str("bf", "")
	e.str("bf:c", "0")
	e.run(bloomFilterExistsMultiScript, k[:1], []string{"2", "3", "5"}, resp.Arr(resp.Null()))
	e.run(bloomFilterDeleteScript, k, nil, resp.Int(1), "DEL bf", "DEL bf:c")
	e.missing("bf")
	e.missing("bf:c")
}

func TestCountingBloomFilterScripts(t *testing.T) {
	k := []string{"cbf", "cbf:c"}
	e := &scriptEnv{t, newFakeRedis(1000)}
	// two items with positions {1,2} and {1,3}
	e.run(countingBloomFilterAddMultiScript, k, []string{"2", "1", "2", "1", "3"}, resp.Int(2),
		"HINCRBY cbf 1 1", "HINCRBY cbf 2 1", "HINCRBY cbf 1 1", "HINCRBY cbf 3 1", "INCRBY cbf:c 2")
	e.hashIs("cbf", map[string]string{"1": "2", "2": "1", "3": "1"})
	// remove {1,2}: all counters positive, so it goes
	e.run(countingBloomFilterRemoveMultiScript, k, []string{"1", "2", "2"}, resp.Int(1),
		"HGET cbf 1", "HGET cbf 2", "HINCRBY cbf 1 -1", "HINCRBY cbf 2 -1", "DECRBY cbf:c 1")
	e.hashIs("cbf", map[string]string{"1": "1", "2": "0", "3": "1"})
	// remove {1,2} (not removable any more: rolled back) and {1,3} (removable)
	e.run(countingBloomFilterRemoveMultiScript, k, []string{"1", "2", "1", "3", "2"}, resp.Int(0),
		"HGET cbf 1", "HGET cbf 2", "HGET cbf 1", "HGET cbf 3", "HINCRBY cbf 1 -1", "HINCRBY cbf 3 -1", "DECRBY cbf:c 1")
	e.hashIs("cbf", map[string]string{"1": "0", "2": "0", "3": "0"})
	// unknown positions count as zero: nothing is decremented
	e.run(countingBloomFilterRemoveMultiScript, k, []string{"7", "8", "2"}, resp.Int(0),
		"HGET cbf 7", "HGET cbf 8", "DECRBY cbf:c 0")
	e.hashIs("cbf", map[string]string{"1": "0", "2": "0", "3": "0"})
	// the same position twice in one item needs a count of two
	e.r.hash["cbf"]["5"] = "1"
	e.run(countingBloomFilterRemoveMultiScript, k, []string{"5", "5", "2"}, resp.Int(0), "HGET cbf 5", "HGET cbf 5", "DECRBY cbf:c 0")
	e.hashIs("cbf", map[string]string{"1": "0", "2": "0", "3": "0", "5": "1"})
	e.r.hash["cbf"]["5"] = "2"
	e.r.str["cbf:c"] = "1"
	e.run(countingBloomFilterRemoveMultiScript, k, []string{"5", "5", "2"}, resp.Int(0),
		"HGET cbf 5", "HGET cbf 5", "HINCRBY cbf 5 -1", "HINCRBY cbf 5 -1", "DECRBY cbf:c 1")
	e.hashIs("cbf", map[string]string{"1": "0", "2": "0", "3": "0", "5": "0"})
	// three hash iterations, first item fails on its last position
	e = &scriptEnv{t, newFakeRedis(1000)}
	e.r.hash["cbf"] = map[string]string{"1": "1", "2": "1", "4": "3"}
	e.r.str["cbf:c"] = "10"
	e.run(countingBloomFilterRemoveMultiScript, k, []string{"1", "2", "3", "4", "4", "4", "3"}, resp.Int(9),
		"HGET cbf 1", "HGET cbf 2", "HGET cbf 3", "HGET cbf 4", "HGET cbf 4", "HGET cbf 4",
		"HINCRBY cbf 4 -1", "HINCRBY cbf 4 -1", "HINCRBY cbf 4 -1", "DECRBY cbf:c 1")
	e.hashIs("cbf", map[string]string{"1": "1", "2": "1", "4": "0"})
	// delete
	e.run(countingBloomFilterDeleteScript, k, nil, resp.Int(1), "DEL cbf", "DEL cbf:c")
	e.missing("cbf")
	e.missing("cbf:c")
}

func TestSlidingBloomFilterScripts(t *testing.T) {
	k := []string{"sbf", "sbf:n", "sbf:c", "sbf:nc", "sbf:lr"}
	const t0 = 1700000000123
	e := &scriptEnv{t, newFakeRedis(t0)}
	// initialize creates everything once; TIME is {seconds, microseconds}
	e.run(slidingBloomFilterInitializeScript, k, []string{"5000"}, resp.Int(1),
		"EXISTS sbf sbf:n sbf:c sbf:nc sbf:lr",
		"TIME",
		"MSET sbf  sbf:c 0 sbf:n  sbf:nc 0",
		"SET sbf:lr 1700000000123 PX 5000 NX")
	e.str("sbf", "")
	e.str("sbf:n", "")
	e.str("sbf:c", "0")
	e.str("sbf:nc", "0")
	e.str("sbf:lr", "1700000000123")
	e.pttl("sbf:lr", 5000)
	e.run(slidingBloomFilterInitializeScript, k, []string{"5000"}, resp.Int(1), "EXISTS sbf sbf:n sbf:c sbf:nc sbf:lr")

	// add {3,5} inside the first half window: no rotation, both filters get the bits
	e.r.now = t0 + 1000
	e.run(slidingBloomFilterAddMultiScript, k, []string{"2", "5000", "3", "5"}, resp.Int(1),
		"TIME",
		"SET sbf:lr 1700000001123 PX 5000 NX",
		"BITFIELD sbf SET u1 3 1", "BITFIELD sbf:n SET u1 3 1",
		"BITFIELD sbf SET u1 5 1", "BITFIELD sbf:n SET u1 5 1",
		"INCRBY sbf:nc 1", "INCRBY sbf:c 1")
	e.str("sbf", "\x14")
	e.str("sbf:n", "\x14")
	e.str("sbf:lr", "1700000000123")
	// exists, both variants, without rotation
	for script, cmd := range map[string]string{slidingBloomFilterExistsMultiScript: "BITFIELD", slidingBloomFilterExistsReadOnlyMultiScript: "BITFIELD_RO"} {
		e.run(script, k, []string{"2", "5000", "3", "5", "3", "4"}, resp.Arr(resp.Int(1), resp.Null()),
			"TIME", "SET sbf:lr 1700000001123 PX 5000 NX",
			cmd+" sbf GET u1 3", cmd+" sbf GET u1 5", cmd+" sbf GET u1 3", cmd+" sbf GET u1 4")
	}

	// half a window later the rotation lock is free: next becomes current, next is emptied
	e.r.now = t0 + 6000
	e.run(slidingBloomFilterAddMultiScript, k, []string{"2", "5000", "9", "3"}, resp.Int(2),
		"TIME",
		"SET sbf:lr 1700000006123 PX 5000 NX",
		"RENAME sbf:n sbf", "RENAME sbf:nc sbf:c", "SET sbf:n ", "SET sbf:nc 0",
		"BITFIELD sbf SET u1 9 1", "BITFIELD sbf:n SET u1 9 1",
		"BITFIELD sbf SET u1 3 1", "BITFIELD sbf:n SET u1 3 1",
		"INCRBY sbf:nc 1", "INCRBY sbf:c 1")
	e.str("sbf", "\x14\x40")
	e.str("sbf:n", "\x10\x40")
	e.str("sbf:c", "2")
	e.str("sbf:nc", "1")
	e.str("sbf:lr", "1700000006123")
	e.pttl("sbf:lr", 5000)

	// another half window: an exists call rotates too, and item {3,5} (only in the old filter) is gone
	e.r.now = t0 + 12000
	e.run(slidingBloomFilterExistsMultiScript, k, []string{"2", "5000", "3", "5", "9", "3"}, resp.Arr(resp.Null(), resp.Int(1)),
		"TIME",
		"SET sbf:lr 1700000012123 PX 5000 NX",
		"RENAME sbf:n sbf", "RENAME sbf:nc sbf:c", "SET sbf:n ", "SET sbf:nc 0",
		"BITFIELD sbf GET u1 3", "BITFIELD sbf GET u1 5", "BITFIELD sbf GET u1 9", "BITFIELD sbf GET u1 3")
	e.str("sbf", "\x10\x40")
	e.str("sbf:n", "")
	e.str("sbf:c", "1")
	e.r.now = t0 + 18000
	e.run(slidingBloomFilterExistsReadOnlyMultiScript, k, []string{"1", "5000", "9"}, resp.Arr(resp.Null()),
		"TIME", "SET sbf:lr 1700000018123 PX 5000 NX",
		"RENAME sbf:n sbf", "RENAME sbf:nc sbf:c", "SET sbf:n ", "SET sbf:nc 0",
		"BITFIELD_RO sbf GET u1 9")

	// reset rotates unconditionally and returns nothing
	e.r.str["sbf:n"] = "\xff"
	e.r.str["sbf:nc"] = "8"
	e.run(slidingBloomFilterResetScript, k[:4], nil, resp.Null(),
		"RENAME sbf:n sbf", "RENAME sbf:nc sbf:c", "SET sbf:n ", "SET sbf:nc 0")
	e.str("sbf", "\xff")
	e.str("sbf:c", "8")
	e.str("sbf:n", "")
	e.str("sbf:nc", "0")
	// on a missing filter RENAME fails, redis.call raises and nothing else runs
	e = &scriptEnv{t, newFakeRedis(t0)}
	e.run(slidingBloomFilterResetScript, k[:4], nil, resp.Err("ERR no such key"), "RENAME sbf:n sbf")
}

func TestOmHashSaveScript(t *testing.T) {
	k := []string{"user:1"}
	e := &scriptEnv{t, newFakeRedis(1000)}
	// entity without a version field: plain HSET, returns ARGV[2]
	e.run(hashSaveScript, k, []string{"", "", "Name", "bob"}, resp.Bulk(""), "HSET user:1   Name bob")
	e.hashIs("user:1", map[string]string{"": "", "Name": "bob"})
	e.pttl("user:1", -1)
	// ... with an expiry: the odd trailing argument is popped off ARGV
	e.run(hashSaveScript, k, []string{"", "", "Name", "bo", "31000"}, resp.Bulk(""), "HSET user:1   Name bo", "PEXPIREAT user:1 31000")
	e.hashIs("user:1", map[string]string{"": "", "Name": "bo"})
	e.pttl("user:1", 30000)

	// versioned entity, new record: version 0 -> 1
	k = []string{"user:2"}
	e.run(hashSaveScript, k, []string{"Ver", "0", "Name", "bob"}, resp.Bulk("1"), "HGET user:2 Ver", "HSET user:2 Ver 1 Name bob")
	e.hashIs("user:2", map[string]string{"Ver": "1", "Name": "bob"})
	// matching version: 1 -> 2, HSET adds no field and returns 0, which is still true in Lua
	e.run(hashSaveScript, k, []string{"Ver", "1", "Name", "alice", "61000"}, resp.Bulk("2"),
		"HGET user:2 Ver", "HSET user:2 Ver 2 Name alice", "PEXPIREAT user:2 61000")
	e.hashIs("user:2", map[string]string{"Ver": "2", "Name": "alice"})
	e.pttl("user:2", 60000)
	// stale version: nothing is written, nil is returned
	e.run(hashSaveScript, k, []string{"Ver", "1", "Name", "mallory", "99000"}, resp.Null(), "HGET user:2 Ver")
	e.hashIs("user:2", map[string]string{"Ver": "2", "Name": "alice"})
	e.pttl("user:2", 60000)
	// more fields
	e.run(hashSaveScript, k, []string{"Ver", "2", "Name", "carol", "Age", "33"}, resp.Bulk("3"),
		"HGET user:2 Ver", "HSET user:2 Ver 3 Name carol Age 33")
	e.hashIs("user:2", map[string]string{"Ver": "3", "Name": "carol", "Age": "33"})
	// a non numeric version makes tonumber return nil and the arithmetic fail: script error, no write
	e.r.hash["user:3"] = map[string]string{"Ver": "x"}
	got := mustRun(t, hashSaveScript, []string{"user:3"}, []string{"Ver", "x", "Name", "n"}, e.r.call)
	if got.T != '-' || !strings.Contains(got.S, "attempt to perform arithmetic") {
		t.Errorf("non numeric version: got %v", got)
	}
	e.hashIs("user:3", map[string]string{"Ver": "x"})
}

func TestOmJSONSaveScript(t *testing.T) {
	k := []string{"doc:1"}
	e := &scriptEnv{t, newFakeRedis(1000)}
	// no version field
	e.run(jsonSaveScript, k, []string{"", "0", `{"Name":"bob"}`}, resp.Bulk("0"), `JSON.SET doc:1 $ {"Name":"bob"}`)
	e.pttl("doc:1", -1)
	e.run(jsonSaveScript, k, []string{"", "0", `{"Name":"bo"}`, "31000"}, resp.Bulk("0"),
		`JSON.SET doc:1 $ {"Name":"bo"}`, "PEXPIREAT doc:1 31000")
	e.pttl("doc:1", 30000)
	if string(e.r.doc["doc:1"]["Name"]) != `"bo"` {
		t.Errorf("doc:1 = %s", e.r.doc["doc:1"])
	}

	// versioned, new document: JSON.GET on a missing key is null; the version is bumped by NUMINCRBY
	k = []string{"doc:2"}
	e.run(jsonSaveScript, k, []string{"Ver", "0", `{"Ver":0,"Name":"bob"}`, "61000"}, resp.Bulk("1"),
		"JSON.GET doc:2 Ver", `JSON.SET doc:2 $ {"Ver":0,"Name":"bob"}`, "JSON.NUMINCRBY doc:2 Ver 1", "PEXPIREAT doc:2 61000")
	e.pttl("doc:2", 60000)
	if string(e.r.doc["doc:2"]["Ver"]) != "1" {
		t.Errorf("doc:2 = %s", e.r.doc["doc:2"])
	}
	// matching version
	e.run(jsonSaveScript, k, []string{"Ver", "1", `{"Ver":1,"Name":"alice"}`}, resp.Bulk("2"),
		"JSON.GET doc:2 Ver", `JSON.SET doc:2 $ {"Ver":1,"Name":"alice"}`, "JSON.NUMINCRBY doc:2 Ver 1")
	if string(e.r.doc["doc:2"]["Ver"]) != "2" || string(e.r.doc["doc:2"]["Name"]) != `"alice"` {
		t.Errorf("doc:2 = %s", e.r.doc["doc:2"])
	}
	// stale version
	e.run(jsonSaveScript, k, []string{"Ver", "1", `{"Ver":1,"Name":"mallory"}`, "99000"}, resp.Null(), "JSON.GET doc:2 Ver")
	if string(e.r.doc["doc:2"]["Name"]) != `"alice"` {
		t.Errorf("doc:2 = %s", e.r.doc["doc:2"])
	}
	e.pttl("doc:2", 60000)
}

// TestCompiledProgramIsReusable runs one compiled program many times, also concurrently.
func TestCompiledProgramIsReusable(t *testing.T) {
	p, err := Compile(hashSaveScript)
	if err != nil {
		t.Fatal(err)
	}
	done := make(chan bool)
	for g := 0; g < 4; g++ {
		go func(g int) {
			ok := true
			r := newFakeRedis(1000)
			key := []string{"k" + strconv.Itoa(g)}
			for i := 0; i < 200; i++ {
				got, err := p.Run(key, []string{"Ver", strconv.Itoa(i), "F", "v", "5000"}, r.call)
				if err != nil || !resp.Equal(got, resp.Bulk(strconv.Itoa(i+1))) {
					ok = false
				}
			}
			done <- ok
		}(g)
	}
	for g := 0; g < 4; g++ {
		if !<-done {
			t.Error("a concurrent run produced a wrong result")
		}
	}
}
