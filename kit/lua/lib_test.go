package lua

import (
	"testing"

	"verifkit/resp"
)

func TestBaseLibrary(t *testing.T) {
	// tonumber
	expect(t, `return tonumber("42")`, resp.Int(42))
	expect(t, `return tonumber("42") == 42`, resp.Int(1))
	expect(t, `return tonumber(7)`, resp.Int(7))
	expect(t, `return tostring(tonumber("3.25"))`, resp.Bulk("3.25"))
	expect(t, `return tonumber("  12  ")`, resp.Int(12))
	expect(t, `return tonumber("0x1F")`, resp.Int(31))
	expect(t, `return tonumber("1e3")`, resp.Int(1000))
	expect(t, `return tonumber("-5")`, resp.Int(-5))
	expect(t, `return tonumber("+5")`, resp.Int(5))
	expect(t, `return tonumber("10", 10)`, resp.Int(10))
	expect(t, `return tonumber("1700000000000")`, resp.Int(1700000000000))
	for _, bad := range []string{`"abc"`, `""`, `" "`, `"12abc"`, `"1 2"`, `"--1"`, `"1e"`, `"."`, `"0x"`, `"5,5"`, `nil`, `true`, `{}`, `false`} {
		expect(t, `return tonumber(`+bad+`) == nil`, resp.Int(1))
	}
	expect(t, `return type(tonumber(false))`, resp.Bulk("nil"))
	expectErr(t, `return tonumber()`, "bad argument #1 to 'tonumber' (value expected)")
	// type
	expect(t, `return {type(nil), type(true), type(1), type("s"), type({}), type(type), type(function() end)}`,
		bulks("nil", "boolean", "number", "string", "table", "function", "function"))
	expectErr(t, `return type()`, "bad argument #1 to 'type' (value expected)")
	// unpack
	expect(t, `return {unpack({1, 2, 3})}`, ints(1, 2, 3))
	expect(t, `return {unpack({1, 2, 3}, 2)}`, ints(2, 3))
	expect(t, `return {unpack({1, 2, 3}, 2, 3)}`, ints(2, 3))
	expect(t, `return {unpack({1, 2, 3}, 1, 2)}`, ints(1, 2))
	expect(t, `return #{unpack({1, 2, 3}, 3, 2)}`, resp.Int(0))
	expect(t, `return #{unpack({})}`, resp.Int(0))
	expect(t, `return select("#", unpack({1, 2}, 1, 4))`, resp.Int(4)) // explicit range pads with nil
	expect(t, `return select("#", unpack({1, nil, 3}, 1, 3))`, resp.Int(3))
	expect(t, `local a, b = unpack({"x", "y"}) return b .. a`, resp.Bulk("yx"))
	expect(t, `return table.unpack == nil`, resp.Int(1)) // Lua 5.1 has no table.unpack
	expectErr(t, `return table.unpack({1})`, "attempt to call field 'unpack' (a nil value)")
	expectUnsupported(t, `return unpack({}, 1, 100000)`)
	// next
	expect(t, `return next({}) == nil`, resp.Int(1))
	expect(t, `local k, v = next({"a"}) return {k, v}`, resp.Arr(resp.Int(1), resp.Bulk("a")))
	expect(t, `local t = {"a", "b"} local k, v = next(t, 1) return {k, v}`, resp.Arr(resp.Int(2), resp.Bulk("b")))
	expect(t, `local t = {"a", x = "b"} local k, v = next(t, 1) return {k, v}`, bulks("x", "b"))
	expect(t, `local t = {"a"} return next(t, 1) == nil`, resp.Int(1))
	expectErr(t, `return next({}, "nokey")`, "invalid key to 'next'")
	// pairs order: array part, then the other keys in insertion order
	expect(t, `local t = {} t.z = 1 t.a = 2 t[2] = "two" t[1] = "one" t.m = 3 local o = {} for k in pairs(t) do o[#o+1] = tostring(k) end return o`,
		bulks("1", "2", "z", "a", "m"))
	expect(t, `local t = {a = 1, b = 2, c = 3} t.a = nil t.a = 4 local o = {} for k in pairs(t) do o[#o+1] = k end return o`,
		bulks("b", "c", "a")) // removed and re-inserted keys go last
	expect(t, `local t = {a = 1, b = 2, c = 3} t.b = 20 local o = {} for k, v in pairs(t) do o[#o+1] = k .. v end return o`,
		bulks("a1", "b20", "c3")) // updating keeps the position
	expect(t, `local t = {10, 20, 30} t[2] = nil local o = {} for k, v in pairs(t) do o[#o+1] = k end return o`, ints(1, 3))
	// error / assert / pcall
	expect(t, `error("boom")`, resp.Err("boom"))
	expect(t, `error("MYCODE custom failure")`, resp.Err("MYCODE custom failure"))
	expect(t, `error({err = "TABLE err"})`, resp.Err("TABLE err"))
	expect(t, `error(redis.error_reply("REPLY err"))`, resp.Err("REPLY err"))
	expect(t, `error("lvl", 2)`, resp.Err("lvl"))
	expect(t, `local function f() error("inner") end f() return 1`, resp.Err("inner"))
	expectUnsupported(t, `error()`)
	expectUnsupported(t, `error({})`)
	expectUnsupported(t, `error(42)`)
	expect(t, `return assert(1 == 1)`, resp.Int(1))
	expect(t, `return {assert(5, "unused")}`, resp.Arr(resp.Int(5), resp.Bulk("unused")))
	expect(t, `assert(false)`, resp.Err("assertion failed!"))
	expect(t, `assert(nil, "custom message")`, resp.Err("custom message"))
	expect(t, `assert(1 == 2, "no")  return 1`, resp.Err("no"))
	expectErr(t, `assert()`, "bad argument #1 to 'assert' (value expected)")
	expect(t, `return {pcall(function() return 1, 2 end)}`, ints(1, 1, 2))
	expect(t, `local ok, e = pcall(error, "caught") return {ok, e}`, resp.Arr(resp.Null(), resp.Bulk("caught")))
	expect(t, `local ok, e = pcall(function() error({code = 7}) end) return {ok, e.code}`, resp.Arr(resp.Null(), resp.Int(7)))
	expect(t, `local ok, e = pcall(function() local x = nil + 1 end) return {ok, type(e)}`, resp.Arr(resp.Null(), resp.Bulk("string")))
	expect(t, `local ok = pcall(function() error("x") end) return "continued"`, resp.Bulk("continued"))
	expect(t, `local ok, e = pcall(error) return {ok, e == nil}`, resp.Arr(resp.Null(), resp.Int(1)))
	expect(t, `local ok, v = pcall(tonumber, "12") return {ok, v}`, ints(1, 12))
	expect(t, `return {pcall(pcall, error, "e")}`, resp.Arr(resp.Int(1), resp.Null(), resp.Bulk("e")))
	expect(t, `local ok, e = pcall(nil) return {ok, e}`, resp.Arr(resp.Null(), resp.Bulk("attempt to call a nil value")))
	expect(t, `local n = 0 for i = 1, 3 do pcall(function() n = n + 1 error("x") end) end return n`, resp.Int(3))
	expectErr(t, `pcall()`, "bad argument #1 to 'pcall' (value expected)")
	expectUnsupported(t, `return pcall(function() return cjson.encode({}) end)`) // unsupported is not catchable
	// a script error after pcall still reports
	expect(t, `pcall(error, "a") error("b")`, resp.Err("b"))
}

func TestTableLibrary(t *testing.T) {
	expect(t, `local t = {} table.insert(t, "a") table.insert(t, "b") return t`, bulks("a", "b"))
	expect(t, `local t = {"a", "c"} table.insert(t, 2, "b") return t`, bulks("a", "b", "c"))
	expect(t, `local t = {"b"} table.insert(t, 1, "a") return t`, bulks("a", "b"))
	expect(t, `local t = {"a"} table.insert(t, 2, "b") return t`, bulks("a", "b")) // position n+1 appends
	expect(t, `local t = {} table.insert(t, 1, "a") return t`, bulks("a"))
	expect(t, `local t = {} table.insert(t, true) table.insert(t, false) return {#t, t[1], t[2] == false}`, ints(2, 1, 1))
	expect(t, `local t = {1} table.insert(t, nil) return #t`, resp.Int(1))
	expect(t, `local t = {"a", "b"} table.insert(t, "2", "x") return t`, bulks("a", "x", "b")) // position coerced
	expectErr(t, `table.insert({}, 1, 2, 3)`, "wrong number of arguments to 'insert'")
	expectErr(t, `table.insert({})`, "wrong number of arguments to 'insert'")
	expectErr(t, `table.insert({}, "x", 1)`, "bad argument #2 to 'insert' (number expected, got string)")
	expect(t, `local t = {} table.insert(t, 5, "far") return {t[5], t[1] == nil}`, resp.Arr(resp.Bulk("far"), resp.Int(1)))

	expect(t, `local t = {"a", "b", "c"} local r = table.remove(t) return {r, #t, t[1], t[2]}`,
		resp.Arr(resp.Bulk("c"), resp.Int(2), resp.Bulk("a"), resp.Bulk("b")))
	expect(t, `local t = {"a", "b", "c"} local r = table.remove(t, 1) return {r, #t, t[1], t[2]}`,
		resp.Arr(resp.Bulk("a"), resp.Int(2), resp.Bulk("b"), resp.Bulk("c")))
	expect(t, `local t = {"a", "b", "c"} local r = table.remove(t, 2) return {r, #t, t[1], t[2]}`,
		resp.Arr(resp.Bulk("b"), resp.Int(2), resp.Bulk("a"), resp.Bulk("c")))
	expect(t, `local t = {} return table.remove(t) == nil`, resp.Int(1))
	expect(t, `return select("#", table.remove({}))`, resp.Int(0))        // returns nothing at all
	expect(t, `return select("#", table.remove({1, 2}, 5))`, resp.Int(0)) // out of range: nothing
	expect(t, `local t = {1, 2} table.remove(t, 5) return #t`, resp.Int(2))
	expect(t, `local t = {1, 2} table.remove(t, 0) return #t`, resp.Int(2))
	expect(t, `local t = {"x"} table.remove(t) table.remove(t) return #t`, resp.Int(0))
	// the idiom of om's hashSaveScript
	expect(t, `local t = {"a", "b", "c"} local e = (#t % 2 == 1) and table.remove(t) or nil return {e, #t}`, resp.Arr(resp.Bulk("c"), resp.Int(2)))
	expect(t, `local t = {"a", "b"} local e = (#t % 2 == 1) and table.remove(t) or nil return {e == nil, #t}`, ints(1, 2))
	// queue usage
	expect(t, `local q = {} for i = 1, 5 do table.insert(q, i) end local s = 0 while #q > 0 do s = s * 10 + table.remove(q, 1) end return s`, resp.Int(12345))

	expect(t, `return table.concat({"a", "b", "c"})`, resp.Bulk("abc"))
	expect(t, `return table.concat({"a", "b", "c"}, ", ")`, resp.Bulk("a, b, c"))
	expect(t, `return table.concat({1, 2.5, "x"}, "-")`, resp.Bulk("1-2.5-x"))
	expect(t, `return table.concat({})`, resp.Bulk(""))
	expect(t, `return table.concat({}, ",")`, resp.Bulk(""))
	expect(t, `return table.concat({"a", "b", "c", "d"}, ",", 2, 3)`, resp.Bulk("b,c"))
	expect(t, `return table.concat({"a", "b", "c"}, ",", 2)`, resp.Bulk("b,c"))
	expect(t, `return table.concat({"a", "b"}, ",", 3)`, resp.Bulk(""))
	expect(t, `return table.concat({"a"}, 1)`, resp.Bulk("a")) // numeric separator is coerced
	expectErr(t, `return table.concat({"a", {}, "c"})`, "invalid value (at index 2) in table for 'concat'")
	expectErr(t, `return table.concat({"a", true})`, "invalid value (at index 2) in table for 'concat'")
	expectErr(t, `return table.concat({"a"}, ",", 1, 2)`, "invalid value (at index 2) in table for 'concat'")
	expectErr(t, `return table.concat("x")`, "bad argument #1 to 'concat' (table expected, got string)")
	expect(t, `return table.getn({1, 2, 3})`, resp.Int(3))
}

func TestMathLibrary(t *testing.T) {
	s := func(expr, want string) { t.Helper(); expect(t, `return tostring(`+expr+`)`, resp.Bulk(want)) }
	s(`math.floor(3.7)`, "3")
	s(`math.floor(-3.2)`, "-4")
	s(`math.floor(5)`, "5")
	s(`math.floor("2.5")`, "2")
	s(`math.floor(1234567 / 1000)`, "1234")
	s(`math.ceil(3.2)`, "4")
	s(`math.ceil(-3.7)`, "-3")
	s(`math.ceil(4)`, "4")
	s(`math.max(1, 5, 3)`, "5")
	s(`math.max(-1)`, "-1")
	s(`math.max(2, "10")`, "10")
	s(`math.min(4, 2, 8)`, "2")
	s(`math.min(0, -0.5)`, "-0.5")
	s(`math.abs(-4.5)`, "4.5")
	s(`math.abs(4)`, "4")
	s(`math.huge`, "inf")
	s(`-math.huge`, "-inf")
	s(`math.sqrt(16)`, "4")
	s(`math.pi`, "3.1415926535898")
	s(`math.fmod(7, 3)`, "1")
	s(`math.fmod(-7, 3)`, "-1") // C fmod keeps the sign of the dividend, unlike %
	s(`math.pow(2, 8)`, "256")
	expect(t, `return math.huge > 1e308`, resp.Int(1))
	expect(t, `return math.max(1, math.huge) == math.huge`, resp.Int(1))
	expectErr(t, `return math.max()`, "bad argument #1 to 'max' (number expected, got no value)")
	expectErr(t, `return math.min(1, "x")`, "bad argument #2 to 'min' (number expected, got string)")
	expectErr(t, `return math.abs(nil)`, "bad argument #1 to 'abs' (number expected, got nil)")
}

func TestStringLibrary(t *testing.T) {
	expect(t, `return string.len("hello")`, resp.Int(5))
	expect(t, `return string.len("")`, resp.Int(0))
	expect(t, `return string.len(12345)`, resp.Int(5)) // numbers are coerced
	expect(t, `return ("hello"):len()`, resp.Int(5))
	expect(t, `local s = "hello" return s:len()`, resp.Int(5))
	expect(t, `return ARGV == nil or ("x"):len()`, resp.Int(1))
	sub := func(args, want string) {
		t.Helper()
		expect(t, `return string.sub("hello", `+args+`)`, resp.Bulk(want))
		expect(t, `return ("hello"):sub(`+args+`)`, resp.Bulk(want))
	}
	sub(`1`, "hello")
	sub(`2`, "ello")
	sub(`2, 4`, "ell")
	sub(`1, 1`, "h")
	sub(`-3`, "llo")
	sub(`-3, -2`, "ll")
	sub(`2, -2`, "ell")
	sub(`0`, "hello")
	sub(`0, 2`, "he")
	sub(`4, 100`, "lo")
	sub(`6`, "")
	sub(`3, 2`, "")
	sub(`-100, 2`, "he")
	sub(`-100, -100`, "")
	sub(`2.9, 4.9`, "ell") // truncated like a C cast
	sub(`"2", "3"`, "el")
	expectErr(t, `return string.sub("x")`, "bad argument #2 to 'sub' (number expected, got no value)")
	expectErr(t, `return string.sub(nil, 1)`, "bad argument #1 to 'sub' (string expected, got nil)")
	expect(t, `return string.rep("ab", 3)`, resp.Bulk("ababab"))
	expect(t, `return string.rep("ab", 0)`, resp.Bulk(""))
	expect(t, `return string.rep("ab", -1)`, resp.Bulk(""))
	expect(t, `return string.rep("", 10)`, resp.Bulk(""))
	expect(t, `return ("x"):rep(2.9)`, resp.Bulk("xx"))
	expectUnsupported(t, `return string.rep("x", 1e12)`)
	expect(t, `return string.byte("A")`, resp.Int(65))
	expect(t, `return {string.byte("ABC", 1, 3)}`, ints(65, 66, 67))
	expect(t, `return {string.byte("ABC", 2)}`, ints(66))
	expect(t, `return {string.byte("ABC", -1)}`, ints(67))
	expect(t, `return {("ABC"):byte(1, -1)}`, ints(65, 66, 67))
	expect(t, `return {string.byte("ABC", 2, 100)}`, ints(66, 67))
	expect(t, `return select("#", string.byte("ABC", 10))`, resp.Int(0))
	expect(t, `return select("#", string.byte(""))`, resp.Int(0))
	expect(t, `return string.byte("\255")`, resp.Int(255))
	expect(t, `return string.char(72, 105)`, resp.Bulk("Hi"))
	expect(t, `return string.char()`, resp.Bulk(""))
	expect(t, `return string.char(0, 255)`, resp.Bulk("\x00\xff"))
	expectErr(t, `return string.char(256)`, "bad argument #1 to 'char' (invalid value)")
	expectErr(t, `return string.char(65, -1)`, "bad argument #2 to 'char' (invalid value)")
	expect(t, `return string.lower("HeLLo 123 É")`, resp.Bulk("hello 123 É")) // ASCII only (C locale)
	expect(t, `return string.upper("HeLLo 123 é")`, resp.Bulk("HELLO 123 é"))
	expect(t, `return ("Get"):upper() .. ("SET"):lower()`, resp.Bulk("GETset"))
	expect(t, `return string.reverse("abc")`, resp.Bulk("cba"))
	// find, plain only
	expect(t, `return {string.find("hello world", "o w", 1, true)}`, ints(5, 7))
	expect(t, `return {string.find("hello", "l", 1, true)}`, ints(3, 3))
	expect(t, `return {string.find("hello", "l", 4, true)}`, ints(4, 4))
	expect(t, `return {string.find("hello", "l", 5, true)}`, resp.Arr())
	expect(t, `return string.find("hello", "xyz", 1, true) == nil`, resp.Int(1))
	expect(t, `return {string.find("a.b", ".", 1, true)}`, ints(2, 2))
	expect(t, `return {string.find("a+b", "+", 1, true)}`, ints(2, 2))
	expect(t, `return {string.find("hello", "", 1, true)}`, ints(1, 0))
	expect(t, `return {string.find("hello", "", 10, true)}`, ints(6, 5))
	expect(t, `return {string.find("hello", "lo", -2, true)}`, ints(4, 5))
	expect(t, `return {string.find("hello", "h", -100, true)}`, ints(1, 1))
	expect(t, `return {("hello"):find("ell", 1, true)}`, ints(2, 4))
	expect(t, `return {string.find("hello world", "wor")}`, ints(7, 9)) // no magic characters: same as plain
	expect(t, `return {string.find("k:1:2", ":")}`, ints(2, 2))
	expectUnsupported(t, `return string.find("hello", "l+")`)
	expectUnsupported(t, `return string.find("hello", "%a")`)
	expectUnsupported(t, `return string.find("hello", "^h")`)
	// format
	f := func(args, want string) { t.Helper(); expect(t, `return string.format(`+args+`)`, resp.Bulk(want)) }
	f(`"plain"`, "plain")
	f(`"%d", 42`, "42")
	f(`"%d", -7`, "-7")
	f(`"%d", 3.99`, "3")
	f(`"%d", "12"`, "12")
	f(`"%d", 1700000000000`, "1700000000000")
	f(`"%s", "str"`, "str")
	f(`"%s", 12`, "12")
	f(`"%s", 1.5`, "1.5")
	f(`"%s-%s", "a", "b"`, "a-b")
	f(`"%f", 1.5`, "1.500000")
	f(`"%f", 1/3`, "0.333333")
	f(`"%.2f", 3.14159`, "3.14")
	f(`"%.2f", 2.675`, "2.67") // 2.675 is slightly below in binary
	f(`"%.0f", 2.5`, "2")      // round half to even on the exact value
	f(`"%.0f", 3.5`, "4")
	f(`"%.3f", -0.0005`, "-0.001")
	f(`"%.10f", 0.1`, "0.1000000000")
	f(`"%g", 100000`, "100000")
	f(`"%g", 1000000`, "1e+06")
	f(`"%g", 0.0001`, "0.0001")
	f(`"%g", 0.00001`, "1e-05")
	f(`"%g", 1.5`, "1.5")
	f(`"%g", 1/3`, "0.333333")
	f(`"%g", 123456789`, "1.23457e+08")
	f(`"%x", 255`, "ff")
	f(`"%x", 0`, "0")
	f(`"%x", 4096.9`, "1000")
	f(`"100%%"`, "100%")
	f(`"%d%%", 50`, "50%")
	f(`"%s:%d:%.1f:%x:%g", "k", 1, 2.25, 26, 0.5`, "k:1:2.2:1a:0.5")
	expect(t, `return ("%d items"):format(3)`, resp.Bulk("3 items"))
	expectErr(t, `return string.format("%d")`, "bad argument #2 to 'format' (number expected, got no value)")
	expectErr(t, `return string.format("%d", "x")`, "bad argument #2 to 'format' (number expected, got string)")
	expectErr(t, `return string.format("%s %s", "a")`, "bad argument #3 to 'format' (string expected, got no value)")
	expectErr(t, `return string.format("%s", nil)`, "bad argument #2 to 'format' (string expected, got nil)")
	expectErr(t, `return string.format("%")`, "invalid option")
	expectUnsupported(t, `return string.format("%x", -1)`)
	expectUnsupported(t, `return string.format("%f", math.huge)`)
	expectUnsupported(t, `return string.format("%d", 2^63)`)
	expectUnsupported(t, `return string.format("%c", 65)`)
	expectUnsupported(t, `return string.format("%-5s", "x")`)
	expectUnsupported(t, `return string.format("%.3s", "abcdef")`)
	expectUnsupported(t, `return string.format("%s", "a\0b")`)
	// indexing a string with an unknown method
	expectUnsupported(t, `return ("x"):nosuch()`)
	expect(t, `return ("x")[1] == nil`, resp.Int(1))
}

func TestRedisLibrary(t *testing.T) {
	expect(t, `return redis.sha1hex("")`, resp.Bulk("da39a3ee5e6b4b0d3255bfef95601890afd80709"))
	expect(t, `return redis.sha1hex("abc")`, resp.Bulk("a9993e364706816aba3e25717850c26c9cd0d89d"))
	expect(t, `return redis.sha1hex(123)`, resp.Bulk("40bd001563085fc35165329ea1ff5c5ecbdbbeef"))
	expectErr(t, `return redis.sha1hex()`, "wrong number of arguments")
	expectErr(t, `return redis.sha1hex("a", "b")`, "wrong number of arguments")
	expect(t, `redis.log(redis.LOG_WARNING, "message") return 1`, resp.Int(1))
	expect(t, `redis.log(redis.LOG_DEBUG, "a", "b") return {redis.LOG_DEBUG, redis.LOG_VERBOSE, redis.LOG_NOTICE, redis.LOG_WARNING}`, ints(0, 1, 2, 3))
	expectErr(t, `redis.log("x")`, "redis.log() requires two arguments or more.")
	expectErr(t, `redis.log("x", "y")`, "First argument must be a number (log level).")
	expectErr(t, `redis.log(9, "y")`, "Invalid debug level.")
	expect(t, `return type(redis.call)`, resp.Bulk("function"))
	expectUnsupported(t, `return redis.nosuch`)
	expectUnsupported(t, `return #redis`)
	expectUnsupported(t, `return redis`)
	expectUnsupported(t, `for k in pairs(redis) do end`)
}
