package lua

import (
	"crypto/sha1"
	"encoding/hex"
	"math"
	"strconv"
	"strings"

	"verifkit/resp"
)

// knownGlobals are names that exist (or may exist, depending on the version) in Redis' Lua
// environment but are not implemented here: using them is unsupported rather than an error.
var knownGlobals = map[string]bool{
	"xpcall": true, "rawget": true, "rawset": true, "rawequal": true, "getmetatable": true,
	"setmetatable": true, "loadstring": true, "load": true, "collectgarbage": true,
	"gcinfo": true, "print": true, "os": true, "_G": true, "_VERSION": true, "coroutine": true,
	"newproxy": true, "dofile": true, "loadfile": true, "getfenv": true, "setfenv": true,
	"module": true, "require": true, "package": true, "io": true, "debug": true, "arg": true,
}

func newInterp(keys, argv []string, call func([]string) resp.Value) *interp {
	in := &interp{call: call, budget: Budget, globals: map[string]value{}}
	strs := func(ss []string) *table {
		t := newTable()
		for i, s := range ss {
			t.setInt(i+1, s)
		}
		return t
	}
	g := in.globals
	g["KEYS"] = strs(keys)
	g["ARGV"] = strs(argv)
	reg := func(t *table, prefix, name string, fn func(in *interp, args []value) []value) {
		b := &builtin{name: prefix + name, fn: fn}
		if t == nil {
			g[name] = b
		} else {
			t.set(name, b)
		}
	}
	lib := func(name string) *table {
		t := newTable()
		t.lib = name
		g[name] = t
		return t
	}

	reg(nil, "", "tonumber", biTonumber)
	reg(nil, "", "tostring", biTostring)
	reg(nil, "", "type", biType)
	reg(nil, "", "unpack", biUnpack)
	reg(nil, "", "select", biSelect)
	reg(nil, "", "pairs", biPairs)
	reg(nil, "", "ipairs", biIpairs)
	reg(nil, "", "next", biNext)
	reg(nil, "", "error", biError)
	reg(nil, "", "assert", biAssert)
	reg(nil, "", "pcall", biPcall)

	tb := lib("table")
	tb.absent = map[string]bool{"unpack": true, "pack": true, "move": true}
	reg(tb, "table.", "insert", biTableInsert)
	reg(tb, "table.", "remove", biTableRemove)
	reg(tb, "table.", "concat", biTableConcat)
	reg(tb, "table.", "getn", biTableGetn)

	m := lib("math")
	m.set("huge", math.Inf(1))
	m.set("pi", math.Pi)
	reg(m, "math.", "floor", mathFn1("floor", math.Floor))
	reg(m, "math.", "ceil", mathFn1("ceil", math.Ceil))
	reg(m, "math.", "abs", mathFn1("abs", math.Abs))
	reg(m, "math.", "sqrt", mathFn1("sqrt", math.Sqrt))
	reg(m, "math.", "max", biMathMax)
	reg(m, "math.", "min", biMathMin)
	reg(m, "math.", "fmod", func(in *interp, a []value) []value {
		return []value{math.Mod(checkNumber(a, 0, "fmod"), checkNumber(a, 1, "fmod"))}
	})
	reg(m, "math.", "pow", func(in *interp, a []value) []value {
		return []value{cPow(checkNumber(a, 0, "pow"), checkNumber(a, 1, "pow"))}
	})

	s := lib("string")
	in.stringLib = s
	reg(s, "string.", "len", biStrLen)
	reg(s, "string.", "sub", biStrSub)
	reg(s, "string.", "rep", biStrRep)
	reg(s, "string.", "format", biStrFormat)
	reg(s, "string.", "byte", biStrByte)
	reg(s, "string.", "char", biStrChar)
	reg(s, "string.", "lower", biStrLower)
	reg(s, "string.", "upper", biStrUpper)
	reg(s, "string.", "reverse", biStrReverse)
	reg(s, "string.", "find", biStrFind)

	r := lib("redis")
	r.set("LOG_DEBUG", 0.0)
	r.set("LOG_VERBOSE", 1.0)
	r.set("LOG_NOTICE", 2.0)
	r.set("LOG_WARNING", 3.0)
	reg(r, "redis.", "call", func(in *interp, a []value) []value { return in.redisCall(a, true) })
	reg(r, "redis.", "pcall", func(in *interp, a []value) []value { return in.redisCall(a, false) })
	reg(r, "redis.", "error_reply", biRedisReply("err"))
	reg(r, "redis.", "status_reply", biRedisReply("ok"))
	reg(r, "redis.", "sha1hex", biRedisSha1hex)
	reg(r, "redis.", "log", biRedisLog)

	// present in Redis, not implemented here: every field access is unsupported
	lib("cjson")
	lib("cmsgpack")
	lib("struct")
	lib("bit")
	return in
}

// ---- argument helpers (the luaL_check* family) ----

func argError(i int, fname, msg string) {
	rtError("bad argument #" + strconv.Itoa(i+1) + " to '" + fname + "' (" + msg + ")")
}

func gotName(a []value, i int) string {
	if i >= len(a) {
		return "no value"
	}
	return typeName(a[i])
}

func arg(a []value, i int) value {
	if i < len(a) {
		return a[i]
	}
	return nil
}

func checkAny(a []value, i int, fname string) value {
	if i >= len(a) {
		argError(i, fname, "value expected")
	}
	return a[i]
}

func checkNumber(a []value, i int, fname string) float64 {
	if i < len(a) {
		if n, ok := toNumber(a[i]); ok {
			return n
		}
	}
	argError(i, fname, "number expected, got "+gotName(a, i))
	return 0
}

// checkInt is luaL_checkinteger on a 64-bit platform: a C cast, i.e. truncation.
func checkInt(a []value, i int, fname string) int {
	n := checkNumber(a, i, fname)
	if math.IsNaN(n) || math.Abs(n) > 1<<53 {
		unsupported("number outside the exactly representable integer range passed to " + fname)
	}
	return int(n)
}

func optInt(a []value, i int, fname string, def int) int {
	if arg(a, i) == nil {
		return def
	}
	return checkInt(a, i, fname)
}

func checkString(a []value, i int, fname string) string {
	if i < len(a) {
		if s, ok := toStr(a[i]); ok {
			return s
		}
	}
	argError(i, fname, "string expected, got "+gotName(a, i))
	return ""
}

func checkTable(a []value, i int, fname string) *table {
	if i < len(a) {
		if t, ok := a[i].(*table); ok {
			if t.lib != "" {
				unsupported("library table '" + t.lib + "' passed to " + fname)
			}
			return t
		}
	}
	argError(i, fname, "table expected, got "+gotName(a, i))
	return nil
}

// ---- base library ----

func biTonumber(in *interp, a []value) []value {
	base := optInt(a, 1, "tonumber", 10)
	if base != 10 {
		unsupported("tonumber with a base other than 10")
	}
	v := checkAny(a, 0, "tonumber")
	if n, ok := toNumber(v); ok {
		return []value{n}
	}
	return []value{nil}
}

func biTostring(in *interp, a []value) []value {
	switch v := checkAny(a, 0, "tostring").(type) {
	case nil:
		return []value{"nil"}
	case bool:
		if v {
			return []value{"true"}
		}
		return []value{"false"}
	case float64:
		return []value{fmtNumber(v)}
	case string:
		return []value{v}
	default:
		unsupported("tostring of a " + typeName(v) + " (prints a memory address)")
	}
	return nil
}

func biType(in *interp, a []value) []value {
	return []value{typeName(checkAny(a, 0, "type"))}
}

func biUnpack(in *interp, a []value) []value {
	t := checkTable(a, 0, "unpack")
	i := optInt(a, 1, "unpack", 1)
	var e int
	if arg(a, 2) == nil {
		e = in.tableLen(t)
	} else {
		e = checkInt(a, 2, "unpack")
	}
	if i > e {
		return nil
	}
	n := e - i + 1
	if n <= 0 || n > maxUnpack {
		unsupported("unpack of more values than the interpreter's limit")
	}
	out := make([]value, 0, n)
	for k := i; k <= e; k++ {
		out = append(out, t.getInt(k))
	}
	return out
}

func biSelect(in *interp, a []value) []value {
	n := len(a)
	if s, ok := arg(a, 0).(string); ok && strings.HasPrefix(s, "#") {
		return []value{float64(n - 1)}
	}
	i := checkInt(a, 0, "select")
	if i < 0 {
		i = n + i
	} else if i > n {
		i = n
	}
	if i < 1 {
		argError(0, "select", "index out of range")
	}
	return a[i:]
}

func biNext(in *interp, a []value) []value {
	t := checkTable(a, 0, "next")
	k, v, found := t.next(arg(a, 1))
	if !found {
		rtError("invalid key to 'next'")
	}
	if k == nil {
		return []value{nil}
	}
	return []value{k, v}
}

func biPairs(in *interp, a []value) []value {
	t := checkTable(a, 0, "pairs")
	next := in.globals["next"]
	return []value{next, t, nil}
}

var ipairsIter = &builtin{name: "ipairs_iterator", fn: func(in *interp, a []value) []value {
	t := checkTable(a, 0, "ipairs")
	i := checkInt(a, 1, "ipairs") + 1
	v := t.getInt(i)
	if v == nil {
		return []value{nil}
	}
	return []value{float64(i), v}
}}

func biIpairs(in *interp, a []value) []value {
	t := checkTable(a, 0, "ipairs")
	return []value{ipairsIter, t, 0.0}
}

func biError(in *interp, a []value) []value {
	if arg(a, 1) != nil {
		checkInt(a, 1, "error")
	}
	panic(&luaError{val: arg(a, 0)})
}

func biAssert(in *interp, a []value) []value {
	v := checkAny(a, 0, "assert")
	if !truthy(v) {
		msg := "assertion failed!"
		if arg(a, 1) != nil {
			msg = checkString(a, 1, "assert")
		}
		panic(&luaError{val: msg})
	}
	return a
}

func biPcall(in *interp, a []value) (rets []value) {
	fn := checkAny(a, 0, "pcall")
	in.pcallDepth++
	if in.pcallDepth > maxPcallDepth {
		unsupported("pcall nesting beyond the interpreter's limit")
	}
	depth, pdepth := in.depth, in.pcallDepth
	defer func() {
		in.pcallDepth = pdepth - 1
		if r := recover(); r != nil {
			le, ok := r.(*luaError)
			if !ok {
				panic(r) // unsupported constructs and the budget are not catchable
			}
			in.depth = depth
			rets = []value{false, le.val}
		}
	}()
	res := in.callValue(fn, a[1:])
	return append([]value{true}, res...)
}

// ---- table library ----

func biTableGetn(in *interp, a []value) []value {
	return []value{float64(in.tableLen(checkTable(a, 0, "getn")))}
}

func biTableInsert(in *interp, a []value) []value {
	t := checkTable(a, 0, "insert")
	e := in.tableLen(t) + 1
	var pos int
	switch len(a) {
	case 2:
		pos = e
	case 3:
		pos = checkInt(a, 1, "insert")
		if pos > e {
			e = pos
		}
		for i := e; i > pos; i-- {
			in.tick()
			t.setInt(i, t.getInt(i-1))
		}
	default:
		rtError("wrong number of arguments to 'insert'")
	}
	t.setInt(pos, a[len(a)-1])
	return nil
}

func biTableRemove(in *interp, a []value) []value {
	t := checkTable(a, 0, "remove")
	e := in.tableLen(t)
	pos := optInt(a, 1, "remove", e)
	if !(1 <= pos && pos <= e) {
		return nil
	}
	v := t.getInt(pos)
	for ; pos < e; pos++ {
		in.tick()
		t.setInt(pos, t.getInt(pos+1))
	}
	t.setInt(e, nil)
	return []value{v}
}

func biTableConcat(in *interp, a []value) []value {
	sep := ""
	if arg(a, 1) != nil {
		sep = checkString(a, 1, "concat")
	}
	t := checkTable(a, 0, "concat")
	i := optInt(a, 2, "concat", 1)
	var last int
	if arg(a, 3) == nil {
		last = in.tableLen(t)
	} else {
		last = checkInt(a, 3, "concat")
	}
	var sb strings.Builder
	add := func(k int) {
		in.tick()
		s, ok := toStr(t.getInt(k))
		if !ok {
			rtError("invalid value (at index " + strconv.Itoa(k) + ") in table for 'concat'")
		}
		sb.WriteString(s)
		if sb.Len() > maxStringLen {
			unsupported("string longer than the interpreter's limit")
		}
	}
	for ; i < last; i++ {
		add(i)
		sb.WriteString(sep)
	}
	if i == last {
		add(i)
	}
	return []value{sb.String()}
}

// ---- math library ----

func mathFn1(name string, f func(float64) float64) func(*interp, []value) []value {
	return func(in *interp, a []value) []value {
		return []value{f(checkNumber(a, 0, name))}
	}
}

func biMathMax(in *interp, a []value) []value {
	m := checkNumber(a, 0, "max")
	for i := 1; i < len(a); i++ {
		if d := checkNumber(a, i, "max"); d > m {
			m = d
		}
	}
	return []value{m}
}

func biMathMin(in *interp, a []value) []value {
	m := checkNumber(a, 0, "min")
	for i := 1; i < len(a); i++ {
		if d := checkNumber(a, i, "min"); d < m {
			m = d
		}
	}
	return []value{m}
}

// ---- string library ----

// posrelat converts a possibly negative string position.
func posrelat(pos, l int) int {
	if pos < 0 {
		pos += l + 1
	}
	if pos >= 0 {
		return pos
	}
	return 0
}

func biStrLen(in *interp, a []value) []value {
	return []value{float64(len(checkString(a, 0, "len")))}
}

func biStrSub(in *interp, a []value) []value {
	s := checkString(a, 0, "sub")
	l := len(s)
	start := posrelat(checkInt(a, 1, "sub"), l)
	end := posrelat(optInt(a, 2, "sub", -1), l)
	if start < 1 {
		start = 1
	}
	if end > l {
		end = l
	}
	if start <= end {
		return []value{s[start-1 : end]}
	}
	return []value{""}
}

func biStrRep(in *interp, a []value) []value {
	s := checkString(a, 0, "rep")
	n := checkInt(a, 1, "rep")
	if n <= 0 || len(s) == 0 {
		return []value{""}
	}
	if n > maxStringLen/len(s) {
		unsupported("string longer than the interpreter's limit")
	}
	return []value{strings.Repeat(s, n)}
}

func biStrByte(in *interp, a []value) []value {
	s := checkString(a, 0, "byte")
	l := len(s)
	posi := posrelat(optInt(a, 1, "byte", 1), l)
	pose := posrelat(optInt(a, 2, "byte", posi), l)
	if posi <= 0 {
		posi = 1
	}
	if pose > l {
		pose = l
	}
	if posi > pose {
		return nil
	}
	if pose-posi+1 > maxUnpack {
		unsupported("string.byte returning more values than the interpreter's limit")
	}
	out := make([]value, 0, pose-posi+1)
	for i := posi; i <= pose; i++ {
		out = append(out, float64(s[i-1]))
	}
	return out
}

func biStrChar(in *interp, a []value) []value {
	b := make([]byte, len(a))
	for i := range a {
		c := checkInt(a, i, "char")
		if c < 0 || c > 255 {
			argError(i, "char", "invalid value")
		}
		b[i] = byte(c)
	}
	return []value{string(b)}
}

func mapBytes(s string, f func(byte) byte) string {
	b := []byte(s)
	for i, c := range b {
		b[i] = f(c)
	}
	return string(b)
}

func biStrLower(in *interp, a []value) []value {
	return []value{mapBytes(checkString(a, 0, "lower"), func(c byte) byte {
		if c >= 'A' && c <= 'Z' {
			return c + 32
		}
		return c
	})}
}

func biStrUpper(in *interp, a []value) []value {
	return []value{mapBytes(checkString(a, 0, "upper"), func(c byte) byte {
		if c >= 'a' && c <= 'z' {
			return c - 32
		}
		return c
	})}
}

func biStrReverse(in *interp, a []value) []value {
	b := []byte(checkString(a, 0, "reverse"))
	for i, j := 0, len(b)-1; i < j; i, j = i+1, j-1 {
		b[i], b[j] = b[j], b[i]
	}
	return []value{string(b)}
}

func biStrFind(in *interp, a []value) []value {
	s := checkString(a, 0, "find")
	p := checkString(a, 1, "find")
	init := posrelat(optInt(a, 2, "find", 1), len(s)) - 1
	if init < 0 {
		init = 0
	} else if init > len(s) {
		init = len(s)
	}
	plain := truthy(arg(a, 3))
	if !plain {
		if strings.IndexByte(p, 0) >= 0 || strings.ContainsAny(p, "^$*+?.([%-") {
			unsupported("string.find with a pattern (only plain searches are implemented)")
		}
	}
	i := strings.Index(s[init:], p)
	if i < 0 {
		return []value{nil}
	}
	return []value{float64(init + i + 1), float64(init + i + len(p))}
}

func biStrFormat(in *interp, a []value) []value {
	f := checkString(a, 0, "format")
	var sb strings.Builder
	argi := 0
	for i := 0; i < len(f); i++ {
		c := f[i]
		if c != '%' {
			sb.WriteByte(c)
			continue
		}
		i++
		if i >= len(f) {
			rtError("invalid option '%' to 'format'")
		}
		if f[i] == '%' {
			sb.WriteByte('%')
			continue
		}
		prec := -1
		if f[i] == '.' {
			j := i + 1
			for j < len(f) && isDigit(f[j]) && j-i <= 2 {
				j++
			}
			if j == i+1 || j >= len(f) || f[j] != 'f' {
				unsupported("string.format directive in " + strconv.Quote(f))
			}
			prec, _ = strconv.Atoi(f[i+1 : j])
			i = j
		}
		argi++
		switch f[i] {
		case 'd':
			n := checkNumber(a, argi, "format")
			sb.WriteString(strconv.FormatInt(numberToInt(n, "string.format('%d') argument"), 10))
		case 's':
			str := checkString(a, argi, "format")
			if strings.IndexByte(str, 0) >= 0 {
				unsupported("string.format('%s') of a string with an embedded NUL")
			}
			sb.WriteString(str)
		case 'f':
			n := checkNumber(a, argi, "format")
			if math.IsNaN(n) || math.IsInf(n, 0) {
				unsupported("string.format of NaN or infinity")
			}
			if prec < 0 {
				prec = 6
			}
			sb.WriteString(strconv.FormatFloat(n, 'f', prec, 64))
		case 'g':
			n := checkNumber(a, argi, "format")
			if math.IsNaN(n) || math.IsInf(n, 0) {
				unsupported("string.format of NaN or infinity")
			}
			sb.WriteString(strconv.FormatFloat(n, 'g', 6, 64))
		case 'x':
			n := checkNumber(a, argi, "format")
			if math.IsNaN(n) || n < 0 || n >= 18446744073709551616.0 {
				unsupported("string.format('%x') of a number outside the unsigned range")
			}
			sb.WriteString(strconv.FormatUint(uint64(n), 16))
		default:
			unsupported("string.format directive in " + strconv.Quote(f))
		}
		if sb.Len() > maxStringLen {
			unsupported("string longer than the interpreter's limit")
		}
	}
	return []value{sb.String()}
}

// ---- redis library ----

func errTable(field, msg string) *table {
	t := newTable()
	t.set(field, msg)
	return t
}

func (in *interp) redisCall(a []value, raise bool) []value {
	fail := func(msg string) []value {
		t := errTable("err", msg)
		if raise {
			panic(&luaError{val: t})
		}
		return []value{t}
	}
	// Argument validation failures: the wording (and for pcall even the shape) of the error
	// differs between Redis versions, so only the raising variant is emulated.
	badArgs := func(msg string) []value {
		if !raise {
			unsupported("redis.pcall with invalid arguments")
		}
		return fail(msg)
	}
	if len(a) == 0 {
		return badArgs("ERR Please specify at least one argument for this redis lib call")
	}
	argv := make([]string, len(a))
	for i, v := range a {
		switch x := v.(type) {
		case string:
			argv[i] = x
		case float64:
			argv[i] = fmtCommandArg(x)
		default:
			return badArgs("ERR Lua redis lib command arguments must be strings or integers")
		}
	}
	if in.call == nil {
		unsupported("redis.call without a command callback")
	}
	reply := in.call(argv)
	if reply.T == '-' {
		return fail(reply.S)
	}
	return []value{replyToLua(reply, 0)}
}

func biRedisReply(field string) func(*interp, []value) []value {
	return func(in *interp, a []value) []value {
		s, ok := arg(a, 0).(string)
		if len(a) != 1 || !ok {
			// real Redis returns an error table whose text is version dependent
			unsupported("redis." + field + " reply helper called with wrong arguments")
		}
		return []value{errTable(field, s)}
	}
}

func biRedisSha1hex(in *interp, a []value) []value {
	if len(a) != 1 {
		rtError("wrong number of arguments")
	}
	s, ok := toStr(a[0])
	if !ok {
		// lua_tolstring yields NULL with length 0: the digest of the empty string
		s = ""
	}
	sum := sha1.Sum([]byte(s))
	return []value{hex.EncodeToString(sum[:])}
}

func biRedisLog(in *interp, a []value) []value {
	if len(a) < 2 {
		rtError("redis.log() requires two arguments or more.")
	}
	lv, ok := a[0].(float64)
	if !ok {
		rtError("First argument must be a number (log level).")
	}
	if lv < 0 || lv > 3 || lv != math.Trunc(lv) {
		if lv != math.Trunc(lv) {
			unsupported("redis.log with a fractional level")
		}
		rtError("Invalid debug level.")
	}
	return nil
}
