package lua

import (
	"fmt"
	"reflect"
	"testing"
)

func tableKeys(t *table) []string {
	var out []string
	var k value
	for {
		nk, _, found := t.next(k)
		if !found {
			return append(out, "!invalid")
		}
		if nk == nil {
			return out
		}
		out = append(out, fmt.Sprint(nk))
		k = nk
	}
}

func TestTableArrayAndHashParts(t *testing.T) {
	tb := newTable()
	tb.set(3.0, "c")
	tb.set(2.0, "b")
	if n, ok := tb.border(); n != 0 || ok {
		t.Errorf("border with keys 2,3 only = %d,%v; want 0 and not a sequence", n, ok)
	}
	tb.set(1.0, "a") // closes the gap: 2 and 3 migrate into the array part
	if n, ok := tb.border(); n != 3 || !ok || len(tb.arr) != 3 || tb.intKeys != 0 {
		t.Errorf("after closing the gap: border %d,%v arr %d intKeys %d", n, ok, len(tb.arr), tb.intKeys)
	}
	if got := tableKeys(tb); !reflect.DeepEqual(got, []string{"1", "2", "3"}) {
		t.Errorf("keys = %v", got)
	}
	tb.set("x", true)
	tb.set(2.0, nil) // a hole
	if _, ok := tb.border(); ok {
		t.Error("a table with a hole must not report a border")
	}
	if got := tableKeys(tb); !reflect.DeepEqual(got, []string{"1", "3", "x"}) {
		t.Errorf("keys = %v", got)
	}
	if tb.get(2.0) != nil || tb.get(3.0) != "c" || tb.getInt(3) != "c" || tb.get("x") != true || tb.get("y") != nil || tb.get(nil) != nil {
		t.Error("get after hole")
	}
	tb.set(3.0, nil)
	if n, ok := tb.border(); n != 1 || !ok {
		t.Errorf("border = %d,%v; want 1", n, ok)
	}
	tb.set(1.0, nil)
	if n, ok := tb.border(); n != 0 || !ok {
		t.Errorf("border = %d,%v; want 0", n, ok)
	}
	// float keys that are integers are the same key; other floats and negative numbers are hashed
	tb = newTable()
	tb.set(1.0, "one")
	tb.set(1.5, "x")
	tb.set(-1.0, "neg")
	tb.set(0.0, "zero")
	tb.set(float64(1<<60), "big")
	if n, ok := tb.border(); n != 1 || !ok {
		t.Errorf("border = %d,%v; want 1 (non positive and fractional keys are not holes)", n, ok)
	}
	if tb.get(1.5) != "x" || tb.get(-1.0) != "neg" || tb.get(0.0) != "zero" || tb.get(float64(1<<60)) != "big" {
		t.Error("hashed numeric keys")
	}
}

func TestTableTraversalWhileClearing(t *testing.T) {
	tb := newTable()
	for i := 1; i <= 5; i++ {
		tb.setInt(i, i)
	}
	for _, k := range []string{"a", "b", "c", "d"} {
		tb.set(k, k)
	}
	var seen []string
	var k value
	for {
		nk, _, found := tb.next(k)
		if !found {
			t.Fatalf("next(%v) became invalid while clearing", k)
		}
		if nk == nil {
			break
		}
		seen = append(seen, fmt.Sprint(nk))
		tb.set(nk, nil) // clear the current field
		if s, ok := nk.(string); ok && s == "a" {
			tb.set("c", nil) // and one that is still ahead
		}
		k = nk
	}
	if want := []string{"1", "2", "3", "4", "5", "a", "b", "d"}; !reflect.DeepEqual(seen, want) {
		t.Errorf("seen %v, want %v", seen, want)
	}
	if got := tableKeys(tb); len(got) != 0 {
		t.Errorf("table should be empty, has %v", got)
	}
	if _, _, found := tb.next("never"); found {
		t.Error("next with a key that never existed must be invalid")
	}
}

func TestTableCompaction(t *testing.T) {
	tb := newTable()
	for i := 0; i < 200; i++ {
		tb.set(fmt.Sprintf("k%03d", i), i)
	}
	for i := 0; i < 200; i++ {
		if i%10 != 0 {
			tb.set(fmt.Sprintf("k%03d", i), nil)
		}
	}
	tb.set("new", true) // insertion triggers the compaction
	if len(tb.hkeys) > 30 {
		t.Errorf("hash part not compacted: %d slots for 21 live keys", len(tb.hkeys))
	}
	var want []string
	for i := 0; i < 200; i += 10 {
		want = append(want, fmt.Sprintf("k%03d", i))
	}
	want = append(want, "new")
	if got := tableKeys(tb); !reflect.DeepEqual(got, want) {
		t.Errorf("keys after compaction = %v", got)
	}
	for i := 0; i < 200; i++ {
		v := tb.get(fmt.Sprintf("k%03d", i))
		if (i%10 == 0) != (v != nil) {
			t.Errorf("k%03d = %v", i, v)
		}
	}
	// re-inserting a cleared key moves it to the end
	tb.set("k000", nil)
	tb.set("k000", "again")
	got := tableKeys(tb)
	if got[len(got)-1] != "k000" || got[0] != "k010" {
		t.Errorf("keys after re-insertion = %v", got)
	}
}
