// Package lua is a small Lua 5.1 subset interpreter that emulates how Redis runs EVAL scripts.
//
// It exists so that a fake Redis server can execute the Lua scripts shipped with a client
// library. The guiding rule is "never guess": whenever a script uses a construct whose exact
// Redis behaviour is not implemented (or is platform / version dependent), Run returns an error
// wrapping ErrUnsupported instead of producing a plausible-looking answer.
//
// # Supported language
//
// The whole Lua 5.1 statement and expression grammar is parsed (local, assignment, multiple
// assignment, numeric and generic for, while, repeat, if, break, return, do blocks, functions,
// closures, varargs, method calls, table constructors, long strings, comments). There are no
// metatables, coroutines or goto.
//
// # Documented choices
//
//   - pairs/next order: first the array part in index order, then all other keys in insertion
//     order. The array part consists of the integer keys 1..n that were, at some point, a run of
//     consecutive non-nil keys starting at 1 (keys set out of order join it as soon as the gap
//     closes); clearing such a key leaves a skipped slot. A non-array key that is removed and
//     inserted again moves to the end. Fields may be cleared during a traversal, as in Lua.
//     Real Lua's order for non-sequence keys is unspecified.
//   - The length operator (and table.insert/remove/concat/unpack, which use it) is exact for
//     sequences. For a table that has positive integer keys beyond its border (a table "with
//     holes") real Lua's answer depends on the internal table layout, so ErrUnsupported is
//     returned.
//   - String order comparisons (< <= > >=) compare bytes, i.e. they assume the server runs with
//     the C collation locale (the default of the official images).
//   - The text of error messages produced by the interpreter itself (type errors, error("x")
//     position prefixes, ...) is not byte-exact: real Redis decorates them with script names and
//     line numbers in a version dependent way. Whether a script fails is exact; error tables
//     ({err=...}) coming from redis.call / redis.pcall / redis.error_reply are exact.
//   - Numbers given to redis.call/redis.pcall: Redis <= 7.0 formats them with "%.17g", Redis >= 7.2
//     prints integers as integers and other numbers in their shortest form, and Lua's own
//     tostring uses "%.14g". The argument is formatted only when all three agree (true for
//     every integer of magnitude below 1e14 and for many short decimals); otherwise
//     ErrUnsupported is returned. tostring and the .. operator always use "%.14g".
//   - table.unpack does not exist in Lua 5.1 (only the global unpack): as in Redis, table.unpack
//     is nil, so calling it raises a script error.
//   - Reading an undefined global and creating a new global both raise a script error, as Redis
//     does. Assigning to an existing global or to a field of a library table is version
//     dependent in Redis and therefore ErrUnsupported.
package lua

import (
	"errors"
	"fmt"

	"verifkit/resp"
)

// ErrUnsupported is returned (wrapped) when the script uses a construct outside the supported
// subset (parse-time or run-time). Callers treat it as "inconclusive".
var ErrUnsupported = errors.New("lua: unsupported construct")

// ErrSyntax is returned (wrapped) when the script is not valid Lua 5.1.
var ErrSyntax = errors.New("lua: syntax error")

// Budget is the number of statements, loop iterations and calls a single Run may execute before
// it gives up with an ErrUnsupported-wrapped "budget exceeded" error.
const Budget = 10_000_000

// Program is a compiled script. It is immutable and may be run many times, also concurrently.
type Program struct {
	main *funcProto
}

// Compile parses script.
func Compile(script string) (p *Program, err error) {
	defer func() {
		if r := recover(); r != nil {
			p = nil
			switch e := r.(type) {
			case *syntaxError:
				err = fmt.Errorf("%w: line %d: %s", ErrSyntax, e.line, e.msg)
			case *unsupportedError:
				err = fmt.Errorf("%w: %s", ErrUnsupported, e.msg)
			default:
				err = fmt.Errorf("%w: internal error while parsing: %v", ErrUnsupported, r)
			}
		}
	}()
	return &Program{main: parseChunk(script)}, nil
}

// Run executes script with EVAL semantics. See Program.Run.
func Run(script string, keys, argv []string, call func(argv []string) resp.Value) (resp.Value, error) {
	p, err := Compile(script)
	if err != nil {
		return resp.Value{}, err
	}
	return p.Run(keys, argv, call)
}

// Run executes the program with globals KEYS and ARGV. redis.call and redis.pcall invoke call
// with the command's arguments. The returned value is the script's result converted by the Redis
// Lua->RESP rules, or a resp.Err value when the script raises an error. The error is non-nil only
// for ErrUnsupported.
func (p *Program) Run(keys, argv []string, call func(argv []string) resp.Value) (resp.Value, error) {
	return p.run(keys, argv, call, Budget)
}

func (p *Program) run(keys, argv []string, call func(argv []string) resp.Value, budget int) (out resp.Value, err error) {
	defer func() {
		if r := recover(); r != nil {
			out = resp.Value{}
			switch e := r.(type) {
			case *luaError:
				out, err = errorToReply(e)
			case *unsupportedError:
				err = fmt.Errorf("%w: %s", ErrUnsupported, e.msg)
			default:
				// A bug in the interpreter (or in the call callback) must not take the process
				// down and must not be mistaken for a script result.
				err = fmt.Errorf("%w: internal error: %v", ErrUnsupported, r)
			}
		}
	}()
	if p == nil || p.main == nil {
		return resp.Value{}, fmt.Errorf("%w: nil program", ErrUnsupported)
	}
	in := newInterp(keys, argv, call)
	in.budget = budget
	rets := in.callClosure(&closure{proto: p.main}, nil)
	var first value
	if len(rets) > 0 {
		first = rets[0]
	}
	return luaToReply(first, 0), nil
}

// errorToReply converts an uncaught Lua error into the reply Redis would send.
func errorToReply(e *luaError) (resp.Value, error) {
	switch v := e.val.(type) {
	case string:
		if e.internal {
			return resp.Err("ERR " + v), nil
		}
		return resp.Err(v), nil
	case *table:
		if s, ok := v.get("err").(string); ok {
			return resp.Err(s), nil
		}
	}
	return resp.Value{}, fmt.Errorf("%w: error raised with a %s value", ErrUnsupported, typeName(e.val))
}
