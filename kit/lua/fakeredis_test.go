package lua

import (
	"encoding/json"
	"fmt"
	"strconv"
	"strings"

	"verifkit/resp"
)

// fakeRedis is a map backed store implementing exactly the commands the repository's scripts
// use. Time is a manually advanced millisecond clock.
type fakeRedis struct {
	now  int64 // unix milliseconds
	str  map[string]string
	hash map[string]map[string]string
	doc  map[string]map[string]json.RawMessage
	exp  map[string]int64 // absolute unix milliseconds
	log  []string         // every command received, space joined
}

func newFakeRedis(now int64) *fakeRedis {
	return &fakeRedis{
		now:  now,
		str:  map[string]string{},
		hash: map[string]map[string]string{},
		doc:  map[string]map[string]json.RawMessage{},
		exp:  map[string]int64{},
	}
}

func (r *fakeRedis) expire(key string) {
	if at, ok := r.exp[key]; ok && at <= r.now {
		r.del(key)
	}
}

func (r *fakeRedis) del(key string) bool {
	_, a := r.str[key]
	_, b := r.hash[key]
	_, c := r.doc[key]
	delete(r.str, key)
	delete(r.hash, key)
	delete(r.doc, key)
	delete(r.exp, key)
	return a || b || c
}

func (r *fakeRedis) exists(key string) bool {
	r.expire(key)
	_, a := r.str[key]
	_, b := r.hash[key]
	_, c := r.doc[key]
	return a || b || c
}

// pttl returns -2 for a missing key, -1 for no expiry, else the remaining milliseconds.
func (r *fakeRedis) pttl(key string) int64 {
	if !r.exists(key) {
		return -2
	}
	if at, ok := r.exp[key]; ok {
		return at - r.now
	}
	return -1
}

func notInt() resp.Value { return resp.Err("ERR value is not an integer or out of range") }

func (r *fakeRedis) incr(key string, by int64) resp.Value {
	r.expire(key)
	cur := int64(0)
	if s, ok := r.str[key]; ok {
		n, err := strconv.ParseInt(s, 10, 64)
		if err != nil {
			return notInt()
		}
		cur = n
	}
	cur += by
	r.str[key] = strconv.FormatInt(cur, 10)
	return resp.Int(cur)
}

func (r *fakeRedis) call(argv []string) resp.Value {
	r.log = append(r.log, strings.Join(argv, " "))
	atoi := func(s string) (int64, bool) {
		n, err := strconv.ParseInt(s, 10, 64)
		return n, err == nil
	}
	cmd := strings.ToUpper(argv[0])
	a := argv[1:]
	switch cmd {
	case "GET":
		r.expire(a[0])
		if s, ok := r.str[a[0]]; ok {
			return resp.Bulk(s)
		}
		return resp.Null()
	case "SET":
		key, val := a[0], a[1]
		nx := false
		var expAt int64
		for i := 2; i < len(a); i++ {
			switch strings.ToUpper(a[i]) {
			case "NX":
				nx = true
			case "PX", "PXAT":
				n, ok := atoi(a[i+1])
				if !ok || n <= 0 {
					return resp.Err("ERR invalid expire time in 'set' command")
				}
				if strings.ToUpper(a[i]) == "PX" {
					n += r.now
				}
				expAt = n
				i++
			default:
				return resp.Err("ERR syntax error")
			}
		}
		if nx && r.exists(key) {
			return resp.Null()
		}
		r.del(key)
		r.str[key] = val
		if expAt != 0 {
			r.exp[key] = expAt
		}
		return resp.OK()
	case "MSET":
		if len(a)%2 != 0 {
			return resp.Err("ERR wrong number of arguments for 'mset' command")
		}
		for i := 0; i < len(a); i += 2 {
			r.del(a[i])
			r.str[a[i]] = a[i+1]
		}
		return resp.OK()
	case "DEL":
		n := int64(0)
		for _, k := range a {
			r.expire(k)
			if r.del(k) {
				n++
			}
		}
		return resp.Int(n)
	case "EXISTS":
		n := int64(0)
		for _, k := range a {
			if r.exists(k) {
				n++
			}
		}
		return resp.Int(n)
	case "PEXPIREAT", "PEXPIRE":
		n, ok := atoi(a[1])
		if !ok {
			return notInt()
		}
		if !r.exists(a[0]) {
			return resp.Int(0)
		}
		if cmd == "PEXPIRE" {
			n += r.now
		}
		r.exp[a[0]] = n
		return resp.Int(1)
	case "PTTL":
		return resp.Int(r.pttl(a[0]))
	case "INCRBY", "DECRBY":
		n, ok := atoi(a[1])
		if !ok {
			return notInt()
		}
		if cmd == "DECRBY" {
			n = -n
		}
		return r.incr(a[0], n)
	case "RENAME":
		if !r.exists(a[0]) {
			return resp.Err("ERR no such key")
		}
		s, h, d, e := r.str[a[0]], r.hash[a[0]], r.doc[a[0]], r.exp[a[0]]
		_, isStr := r.str[a[0]]
		r.del(a[0])
		r.del(a[1])
		switch {
		case isStr:
			r.str[a[1]] = s
		case h != nil:
			r.hash[a[1]] = h
		default:
			r.doc[a[1]] = d
		}
		if e != 0 {
			r.exp[a[1]] = e
		}
		return resp.OK()
	case "TIME":
		return resp.Bulks(strconv.FormatInt(r.now/1000, 10), strconv.FormatInt(r.now%1000*1000+456, 10))
	case "HSET":
		if len(a) < 3 || len(a)%2 != 1 {
			return resp.Err("ERR wrong number of arguments for 'hset' command")
		}
		r.expire(a[0])
		h := r.hash[a[0]]
		if h == nil {
			h = map[string]string{}
			r.hash[a[0]] = h
		}
		added := int64(0)
		for i := 1; i < len(a); i += 2 {
			if _, ok := h[a[i]]; !ok {
				added++
			}
			h[a[i]] = a[i+1]
		}
		return resp.Int(added)
	case "HGET":
		r.expire(a[0])
		if v, ok := r.hash[a[0]][a[1]]; ok {
			return resp.Bulk(v)
		}
		return resp.Null()
	case "HMGET":
		r.expire(a[0])
		out := make([]resp.Value, 0, len(a)-1)
		for _, f := range a[1:] {
			if v, ok := r.hash[a[0]][f]; ok {
				out = append(out, resp.Bulk(v))
			} else {
				out = append(out, resp.Null())
			}
		}
		return resp.Arr(out...)
	case "HEXISTS":
		r.expire(a[0])
		if _, ok := r.hash[a[0]][a[1]]; ok {
			return resp.Int(1)
		}
		return resp.Int(0)
	case "HINCRBY":
		n, ok := atoi(a[2])
		if !ok {
			return notInt()
		}
		r.expire(a[0])
		h := r.hash[a[0]]
		if h == nil {
			h = map[string]string{}
			r.hash[a[0]] = h
		}
		cur := int64(0)
		if s, ok := h[a[1]]; ok {
			c, ok := atoi(s)
			if !ok {
				return resp.Err("ERR hash value is not an integer")
			}
			cur = c
		}
		cur += n
		h[a[1]] = strconv.FormatInt(cur, 10)
		return resp.Int(cur)
	case "BITFIELD", "BITFIELD_RO":
		// only "GET u1 <offset>" and "SET u1 <offset> <0|1>", one operation per command
		r.expire(a[0])
		if len(a) < 4 || strings.ToLower(a[2]) != "u1" {
			return resp.Err("ERR syntax error")
		}
		off, ok := atoi(a[3])
		if !ok || off < 0 {
			return resp.Err("ERR bit offset is not an integer or out of range")
		}
		s := []byte(r.str[a[0]])
		byteIdx, mask := int(off/8), byte(0x80)>>uint(off%8)
		old := int64(0)
		if byteIdx < len(s) && s[byteIdx]&mask != 0 {
			old = 1
		}
		switch strings.ToUpper(a[1]) {
		case "GET":
			if len(a) != 4 {
				return resp.Err("ERR syntax error")
			}
		case "SET":
			if cmd == "BITFIELD_RO" {
				return resp.Err("ERR BITFIELD_RO only supports the GET subcommand")
			}
			if len(a) != 5 || (a[4] != "0" && a[4] != "1") {
				return resp.Err("ERR syntax error")
			}
			for len(s) <= byteIdx {
				s = append(s, 0)
			}
			if a[4] == "1" {
				s[byteIdx] |= mask
			} else {
				s[byteIdx] &^= mask
			}
			r.str[a[0]] = string(s)
		default:
			return resp.Err("ERR syntax error")
		}
		return resp.Arr(resp.Int(old))
	case "JSON.SET":
		if a[1] != "$" {
			return resp.Err("ERR only the root path is implemented")
		}
		var d map[string]json.RawMessage
		if err := json.Unmarshal([]byte(a[2]), &d); err != nil {
			return resp.Err("ERR invalid JSON")
		}
		r.expire(a[0])
		e, had := r.exp[a[0]]
		r.del(a[0])
		r.doc[a[0]] = d
		if had {
			r.exp[a[0]] = e
		}
		return resp.OK()
	case "JSON.GET":
		r.expire(a[0])
		d, ok := r.doc[a[0]]
		if !ok {
			return resp.Null()
		}
		v, ok := d[a[1]]
		if !ok {
			return resp.Err("ERR Path '$." + a[1] + "' does not exist")
		}
		return resp.Bulk(string(v))
	case "JSON.NUMINCRBY":
		r.expire(a[0])
		d, ok := r.doc[a[0]]
		if !ok {
			return resp.Err("ERR could not perform this operation on a key that doesn't exist")
		}
		cur, ok1 := atoi(string(d[a[1]]))
		by, ok2 := atoi(a[2])
		if !ok1 || !ok2 {
			return resp.Err("ERR not a number")
		}
		d[a[1]] = json.RawMessage(strconv.FormatInt(cur+by, 10))
		return resp.Bulk(strconv.FormatInt(cur+by, 10))
	}
	return resp.Err(fmt.Sprintf("ERR unknown command '%s'", argv[0]))
}
