package lua

// Lua scripts copied verbatim from the repository under test (see TestScriptsMatchRepository).
const (
	// rueidislock/lock.go: delkey
	lockDelkey = `if redis.call("GET",KEYS[1]) == ARGV[1] then return redis.call("DEL",KEYS[1]) end;return 0`

	// rueidislock/lock.go: extend
	lockExtend = `if redis.call("GET",KEYS[1]) == ARGV[1] then local r = redis.call("PEXPIREAT",KEYS[1],ARGV[2]);redis.call("GET",KEYS[1]);return r end;return 0`

	// rueidislock/lock.go: acqms
	lockAcqms = `local r = redis.call("SET",KEYS[1],ARGV[1],"NX","PX",ARGV[2]);redis.call("GET",KEYS[1]);return r`

	// rueidislock/lock.go: acqat
	lockAcqat = `local r = redis.call("SET",KEYS[1],ARGV[1],"NX","PXAT",ARGV[2]);redis.call("GET",KEYS[1]);return r`

	// rueidislock/lock.go: fcqms
	lockFcqms = `local r = redis.call("SET",KEYS[1],ARGV[1],"PX",ARGV[2]);redis.call("GET",KEYS[1]);return r`

	// rueidislock/lock.go: fcqat
	lockFcqat = `local r = redis.call("SET",KEYS[1],ARGV[1],"PXAT",ARGV[2]);redis.call("GET",KEYS[1]);return r`

	// rueidislimiter/limiter.go: rateLimitScript
	rateLimitScript = `
local rate_limit_key = KEYS[1]
local increment_amount = tonumber(ARGV[1])
local next_expires_at = tonumber(ARGV[2])
local current_time = tonumber(ARGV[3])
local expires_at_key = KEYS[2]
local expires_at = tonumber(redis.call("get", expires_at_key))
if not expires_at or expires_at < current_time then
  redis.call("set", rate_limit_key, 0, "pxat", next_expires_at + 1000)
  redis.call("set", expires_at_key, next_expires_at, "pxat", next_expires_at + 1000)
  expires_at = next_expires_at
end
local current = redis.call("incrby", rate_limit_key, increment_amount)
return { current, expires_at }
`

	// rueidisaside/aside.go: delkey
	asideDelkey = `if redis.call("GET",KEYS[1]) == ARGV[1] then return redis.call("DEL",KEYS[1]) else return 0 end`

	// rueidisaside/aside.go: setkey
	asideSetkey = `if redis.call("GET",KEYS[1]) == ARGV[1] then return redis.call("SET",KEYS[1],ARGV[2],"PX",ARGV[3]) else return 0 end`

	// rueidisaside/aside.go: acquireLock
	asideAcquireLock = `if redis.call("SET", KEYS[1], ARGV[1], "NX", "PX", ARGV[2]) then return nil else return redis.call("GET", KEYS[1]) end`

	// rueidisprob/bloomfilter.go: bloomFilterAddMultiScript
	bloomFilterAddMultiScript = `
local hashIterations = tonumber(ARGV[1])
local numElements = tonumber(#ARGV) - 1
local filterKey = KEYS[1]
local counterKey = KEYS[2]

local counter = 0
local oneBits = 0
for i=1, numElements do
	local bitset = redis.call('BITFIELD', filterKey, 'SET', 'u1', ARGV[i+1], '1')

	oneBits = oneBits + bitset[1]
	if i % hashIterations == 0 then
		if oneBits ~= hashIterations then
			counter = counter + 1
		end

		oneBits = 0
	end
end

return redis.call('INCRBY', counterKey, counter)
`

	// rueidisprob/bloomfilter.go: bloomFilterExistsMultiScript
	bloomFilterExistsMultiScript = `
local hashIterations = tonumber(ARGV[1])
local numElements = tonumber(#ARGV) - 1
local filterKey = KEYS[1]

local result = {}
local oneBits = 0
for i=1, numElements do
	local index = tonumber(ARGV[i+1])
	local bitset = redis.call('BITFIELD', filterKey, 'GET', 'u1', index)

	oneBits = oneBits + bitset[1]
	if i % hashIterations == 0 then
		table.insert(result, oneBits == hashIterations)

		oneBits = 0
	end
end

return result
`

	// rueidisprob/bloomfilter.go: bloomFilterExistsMultiReadOnlyScript
	bloomFilterExistsMultiReadOnlyScript = `
local hashIterations = tonumber(ARGV[1])
local numElements = tonumber(#ARGV) - 1
local filterKey = KEYS[1]

local result = {}
local oneBits = 0
for i=1, numElements do
	local index = tonumber(ARGV[i+1])
	local bitset = redis.call('BITFIELD_RO', filterKey, 'GET', 'u1', index)

	oneBits = oneBits + bitset[1]
	if i % hashIterations == 0 then
		table.insert(result, oneBits == hashIterations)

		oneBits = 0
	end
end

return result
`

	// rueidisprob/bloomfilter.go: bloomFilterResetScript
	bloomFilterResetScript = `
local filterKey = KEYS[1]
local counterKey = KEYS[2]

redis.call('SET', filterKey, "")
redis.call('SET', counterKey, 0)

return 1
`

	// rueidisprob/bloomfilter.go: bloomFilterDeleteScript
	bloomFilterDeleteScript = `
local filterKey = KEYS[1]
local counterKey = KEYS[2]

redis.call('DEL', filterKey)
redis.call('DEL', counterKey)

return 1
`

	// rueidisprob/countingbloomfilter.go: countingBloomFilterAddMultiScript
	countingBloomFilterAddMultiScript = `
local itemCount = tonumber(ARGV[1])
local numElements = tonumber(#ARGV) - 1
local filterKey = KEYS[1]
local counterKey = KEYS[2]

for i=2, numElements+1 do
    redis.call('HINCRBY', filterKey, ARGV[i], 1)
end

return redis.call('INCRBY', counterKey, itemCount)
`

	// rueidisprob/countingbloomfilter.go: countingBloomFilterRemoveMultiScript
	countingBloomFilterRemoveMultiScript = `
local function MergeTables(t1, t2)
	for i=1, #t2 do
		table.insert(t1, t2[i])
	end

	return t1
end

local numElements = tonumber(#ARGV) - 1
local hashIterations = tonumber(ARGV[#ARGV])
local filterKey = KEYS[1]
local counterKey = KEYS[2]

local indexCounter = {}
for i=1, numElements do
	local index = ARGV[i]
	local count = redis.call('HGET', filterKey, index)

	if (not indexCounter[index]) then
		if (not count) then
			indexCounter[index] = 0
		else
			indexCounter[index] = tonumber(count)
		end
	end
end

local decreaseIndexes = {}
local deleteItemCount = 0
for i=1, numElements, hashIterations do
	local isAbleToRemove = true
	local temp = {}
	local rollbackIndex = i

	for j=i, i+hashIterations-1 do
		local index = ARGV[j]

		table.insert(temp, index)
		indexCounter[index] = indexCounter[index] - 1
		
		if indexCounter[index] < 0 then
			isAbleToRemove = false
			rollbackIndex = j
			break
		end
	end

	if isAbleToRemove then
		decreaseIndexes = MergeTables(decreaseIndexes, temp)
		deleteItemCount = deleteItemCount + 1
	else
		for j=i, rollbackIndex do
			local index = ARGV[j]
			
			indexCounter[index] = indexCounter[index] + 1
		end
	end
end

for i=1, #decreaseIndexes do
    redis.call('HINCRBY', filterKey, decreaseIndexes[i], -1)
end

return redis.call('DECRBY', counterKey, deleteItemCount)
`

	// rueidisprob/countingbloomfilter.go: countingBloomFilterDeleteScript
	countingBloomFilterDeleteScript = `
local filterKey = KEYS[1]
local counterKey = KEYS[2]

redis.call('DEL', filterKey)
redis.call('DEL', counterKey)

return 1
`

	// rueidisprob/slidingbloomfilter.go: slidingBloomFilterInitializeScript
	slidingBloomFilterInitializeScript = `
local filterKey = KEYS[1]
local nextFilterKey = KEYS[2]
local counterKey = KEYS[3]
local nextCounterKey = KEYS[4]
local lastRotationKey = KEYS[5]
local windowHalf = tonumber(ARGV[1])

if redis.call('EXISTS', filterKey, nextFilterKey, counterKey, nextCounterKey, lastRotationKey) == 0 then
	local time = redis.call('TIME')
	local current_time = tonumber(time[1]) * 1000 + math.floor(tonumber(time[2]) / 1000)

	redis.call('MSET', filterKey, "", counterKey, 0, nextFilterKey, "", nextCounterKey, 0)
	redis.call('SET', lastRotationKey, tostring(current_time), 'PX', windowHalf, 'NX')
end

return 1
`

	// rueidisprob/slidingbloomfilter.go: slidingBloomFilterAddMultiScript
	slidingBloomFilterAddMultiScript = `
local hashIterations = tonumber(ARGV[1])
local windowHalf = tonumber(ARGV[2])
local numElements = tonumber(#ARGV) - 2

local filterKey = KEYS[1]
local nextFilterKey = KEYS[2]
local counterKey = KEYS[3]
local nextCounterKey = KEYS[4]
local lastRotationKey = KEYS[5]

local time = redis.call('TIME')
local current_time = tonumber(time[1]) * 1000 + math.floor(tonumber(time[2])/1000)
local acquiredLock = redis.call('SET', lastRotationKey, tostring(current_time), 'PX', windowHalf, 'NX')

if acquiredLock then
	redis.call('RENAME', nextFilterKey, filterKey)
	redis.call('RENAME', nextCounterKey, counterKey)
	redis.call('SET', nextFilterKey, "")
	redis.call('SET', nextCounterKey, 0)
end

local counter = 0
local oneBits = 0
for i=1, numElements do
	local bitset = redis.call('BITFIELD', filterKey, 'SET', 'u1', ARGV[i+2], '1')
	redis.call('BITFIELD', nextFilterKey, 'SET', 'u1', ARGV[i+2], '1')

	oneBits = oneBits + bitset[1]
	if i % hashIterations == 0 then
		if oneBits ~= hashIterations then
			counter = counter + 1
		end

		oneBits = 0
	end
end

redis.call('INCRBY', nextCounterKey, counter)
return redis.call('INCRBY', counterKey, counter)
`

	// rueidisprob/slidingbloomfilter.go: slidingBloomFilterExistsMultiScript
	slidingBloomFilterExistsMultiScript = `
local hashIterations = tonumber(ARGV[1])
local windowHalf = tonumber(ARGV[2])
local numElements = tonumber(#ARGV) - 2

local filterKey = KEYS[1]
local nextFilterKey = KEYS[2]
local counterKey = KEYS[3]
local nextCounterKey = KEYS[4]
local lastRotationKey = KEYS[5]

local time = redis.call('TIME')
local current_time = tonumber(time[1]) * 1000 + math.floor(tonumber(time[2])/1000)
local acquiredLock = redis.call('SET', lastRotationKey, tostring(current_time), 'PX', windowHalf, 'NX')

if acquiredLock then
	redis.call('RENAME', nextFilterKey, filterKey)
	redis.call('RENAME', nextCounterKey, counterKey)
	redis.call('SET', nextFilterKey, "")
	redis.call('SET', nextCounterKey, 0)
end

local result = {}
local oneBits = 0
for i=1, numElements do
	local index = tonumber(ARGV[i+2])
	local bitset = redis.call('BITFIELD', filterKey, 'GET', 'u1', index)

	oneBits = oneBits + bitset[1]
	if i % hashIterations == 0 then
		table.insert(result, oneBits == hashIterations)

		oneBits = 0
	end
end

return result
`

	// rueidisprob/slidingbloomfilter.go: slidingBloomFilterExistsReadOnlyMultiScript
	slidingBloomFilterExistsReadOnlyMultiScript = `
local hashIterations = tonumber(ARGV[1])
local windowHalf = tonumber(ARGV[2])
local numElements = tonumber(#ARGV) - 2

local filterKey = KEYS[1]
local nextFilterKey = KEYS[2]
local counterKey = KEYS[3]
local nextCounterKey = KEYS[4]
local lastRotationKey = KEYS[5]

local time = redis.call('TIME')
local current_time = tonumber(time[1]) * 1000 + math.floor(tonumber(time[2])/1000)
local acquiredLock = redis.call('SET', lastRotationKey, tostring(current_time), 'PX', windowHalf, 'NX')

if acquiredLock then
	redis.call('RENAME', nextFilterKey, filterKey)
	redis.call('RENAME', nextCounterKey, counterKey)
	redis.call('SET', nextFilterKey, "")
	redis.call('SET', nextCounterKey, 0)
end

local result = {}
local oneBits = 0
for i=1, numElements do
	local index = tonumber(ARGV[i+2])
	local bitset = redis.call('BITFIELD_RO', filterKey, 'GET', 'u1', index)

	oneBits = oneBits + bitset[1]
	if i % hashIterations == 0 then
		table.insert(result, oneBits == hashIterations)

		oneBits = 0
	end
end

return result
`

	// rueidisprob/slidingbloomfilter.go: slidingBloomFilterResetScript
	slidingBloomFilterResetScript = `
local filterKey = KEYS[1]
local nextFilterKey = KEYS[2]
local counterKey = KEYS[3]
local nextCounterKey = KEYS[4]

redis.call('RENAME', nextFilterKey, filterKey)
redis.call('RENAME', nextCounterKey, counterKey)
redis.call('SET', nextFilterKey, "")
redis.call('SET', nextCounterKey, 0)
`

	// om/hash.go: hashSaveScript
	hashSaveScript = `
if (ARGV[1] == '')
then
  local e = (#ARGV % 2 == 1) and table.remove(ARGV) or nil
  if redis.call('HSET',KEYS[1],unpack(ARGV))
  then
    if e then redis.call('PEXPIREAT',KEYS[1],e) end
  end
  return ARGV[2]
end
local v = redis.call('HGET',KEYS[1],ARGV[1])
if (not v or v == ARGV[2])
then
  ARGV[2] = tostring(tonumber(ARGV[2])+1)
  local e = (#ARGV % 2 == 1) and table.remove(ARGV) or nil
  if redis.call('HSET',KEYS[1],unpack(ARGV))
  then
    if e then redis.call('PEXPIREAT',KEYS[1],e) end
    return ARGV[2]
  end
end
return nil
`

	// om/json.go: jsonSaveScript
	jsonSaveScript = `
if (ARGV[1] == '')
then
  redis.call('JSON.SET',KEYS[1],'$',ARGV[3])
  if #ARGV == 4 then redis.call('PEXPIREAT',KEYS[1],ARGV[4]) end
  return ARGV[2]
end
local v = redis.call('JSON.GET',KEYS[1],ARGV[1])
if (not v or v == ARGV[2])
then
  redis.call('JSON.SET',KEYS[1],'$',ARGV[3])
  local v = redis.call('JSON.NUMINCRBY',KEYS[1],ARGV[1],1)
  if #ARGV == 4 then redis.call('PEXPIREAT',KEYS[1],ARGV[4]) end
  return v
end
return nil
`
)
