package lua

// Expressions.
type expr interface{}

type (
	eNil    struct{}
	eTrue   struct{}
	eFalse  struct{}
	eVararg struct{}
	eNumber struct{ v float64 }
	eString struct{ v string }
	eLocal  struct {
		slot int
		name string
	}
	eUpval struct {
		idx  int
		name string
	}
	eGlobal struct {
		name string
		line int
	}
	eIndex struct {
		obj, key expr
		line     int
	}
	eCall struct {
		fn   expr
		args []expr
		line int
	}
	eMethod struct {
		obj  expr
		name string
		args []expr
		line int
	}
	eFunc  struct{ proto *funcProto }
	eBinop struct {
		op   string
		a, b expr
		line int
	}
	eAnd  struct{ a, b expr }
	eOr   struct{ a, b expr }
	eUnop struct {
		op   string
		a    expr
		line int
	}
	eParen struct{ e expr } // truncates multiple results to one
	eTable struct {
		items []tableItem
	}
)

type tableItem struct {
	key expr // nil for positional items
	val expr
}

// Statements.
type stmt interface{}

type (
	sLocal struct {
		slots []int
		exprs []expr
	}
	sAssign struct {
		targets []expr // eLocal, eUpval, eGlobal or eIndex
		exprs   []expr
		line    int
	}
	sCall  struct{ call expr }
	sDo    struct{ body []stmt }
	sWhile struct {
		cond expr
		body []stmt
	}
	sRepeat struct {
		body []stmt
		cond expr
	}
	sIf struct {
		conds  []expr
		blocks [][]stmt
		els    []stmt // nil when absent
	}
	sNumFor struct {
		slot               int
		start, limit, step expr // step may be nil
		body               []stmt
		line               int
	}
	sGenFor struct {
		slots []int
		exprs []expr
		body  []stmt
		line  int
	}
	sLocalFunc struct {
		slot  int
		proto *funcProto
	}
	sReturn struct{ exprs []expr }
	sBreak  struct{}
)

type upvalDesc struct {
	fromParentLocal bool // true: parent's local slot; false: parent's upvalue index
	idx             int
}

type funcProto struct {
	nparams  int
	isVararg bool
	nslots   int
	upvals   []upvalDesc
	body     []stmt
	line     int
}
