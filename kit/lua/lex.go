package lua

import (
	"math"
	"strconv"
	"strings"
)

type syntaxError struct {
	line int
	msg  string
}

type unsupportedError struct{ msg string }

func unsupported(msg string) { panic(&unsupportedError{msg: msg}) }

type tokKind int

const (
	tEOF tokKind = iota
	tName
	tNumber
	tString
	tOp      // operators and punctuation, text in tok.s
	tKeyword // reserved word, text in tok.s
)

type token struct {
	kind tokKind
	s    string
	n    float64
	line int
}

var keywords = map[string]bool{
	"and": true, "break": true, "do": true, "else": true, "elseif": true, "end": true,
	"false": true, "for": true, "function": true, "if": true, "in": true, "local": true,
	"nil": true, "not": true, "or": true, "repeat": true, "return": true, "then": true,
	"true": true, "until": true, "while": true,
}

type lexer struct {
	src  string
	pos  int
	line int
}

func (lx *lexer) fail(msg string) { panic(&syntaxError{line: lx.line, msg: msg}) }

func isDigit(c byte) bool { return c >= '0' && c <= '9' }
func isHex(c byte) bool {
	return isDigit(c) || (c >= 'a' && c <= 'f') || (c >= 'A' && c <= 'F')
}
func isAlpha(c byte) bool {
	return (c >= 'a' && c <= 'z') || (c >= 'A' && c <= 'Z') || c == '_'
}
func isSpace(c byte) bool {
	return c == ' ' || c == '\t' || c == '\n' || c == '\r' || c == '\v' || c == '\f'
}

func (lx *lexer) peek(off int) byte {
	if lx.pos+off < len(lx.src) {
		return lx.src[lx.pos+off]
	}
	return 0
}

// newline consumes one line break (\n, \r, \r\n or \n\r) at pos.
func (lx *lexer) newline() {
	c := lx.src[lx.pos]
	lx.pos++
	if lx.pos < len(lx.src) {
		d := lx.src[lx.pos]
		if (d == '\n' || d == '\r') && d != c {
			lx.pos++
		}
	}
	lx.line++
}

// longBracketLevel reports the level of a long bracket opening at pos ("[", "="*, "["),
// or -1 if there is none.
func (lx *lexer) longBracketLevel() int {
	if lx.peek(0) != '[' {
		return -1
	}
	i := 1
	for lx.peek(i) == '=' {
		i++
	}
	if lx.peek(i) == '[' {
		return i - 1
	}
	return -1
}

func (lx *lexer) readLong(level int, what string) string {
	startLine := lx.line
	lx.pos += level + 2
	if lx.pos < len(lx.src) && (lx.src[lx.pos] == '\n' || lx.src[lx.pos] == '\r') {
		lx.newline()
	}
	var sb strings.Builder
	for {
		if lx.pos >= len(lx.src) {
			panic(&syntaxError{line: startLine, msg: "unfinished long " + what})
		}
		c := lx.src[lx.pos]
		switch {
		case c == ']':
			i := 1
			for lx.peek(i) == '=' {
				i++
			}
			if i-1 == level && lx.peek(i) == ']' {
				lx.pos += i + 1
				return sb.String()
			}
			sb.WriteByte(c)
			lx.pos++
		case c == '[':
			// Lua 5.1 rejects nested [[ inside a level-0 long string (LUA_COMPAT_LSTR == 1).
			if level == 0 && lx.peek(1) == '[' {
				lx.fail("nesting of [[...]] is deprecated")
			}
			sb.WriteByte(c)
			lx.pos++
		case c == '\n' || c == '\r':
			lx.newline()
			sb.WriteByte('\n')
		default:
			sb.WriteByte(c)
			lx.pos++
		}
	}
}

func (lx *lexer) next() token {
	for lx.pos < len(lx.src) {
		c := lx.src[lx.pos]
		switch {
		case c == '\n' || c == '\r':
			lx.newline()
			continue
		case isSpace(c):
			lx.pos++
			continue
		case c == '-' && lx.peek(1) == '-':
			lx.pos += 2
			if lv := lx.longBracketLevel(); lv >= 0 {
				lx.readLong(lv, "comment")
				continue
			}
			for lx.pos < len(lx.src) && lx.src[lx.pos] != '\n' && lx.src[lx.pos] != '\r' {
				lx.pos++
			}
			continue
		}
		break
	}
	if lx.pos >= len(lx.src) {
		return token{kind: tEOF, line: lx.line}
	}
	line := lx.line
	c := lx.src[lx.pos]
	switch {
	case isAlpha(c):
		st := lx.pos
		for lx.pos < len(lx.src) && (isAlpha(lx.src[lx.pos]) || isDigit(lx.src[lx.pos])) {
			lx.pos++
		}
		w := lx.src[st:lx.pos]
		if keywords[w] {
			return token{kind: tKeyword, s: w, line: line}
		}
		return token{kind: tName, s: w, line: line}
	case isDigit(c) || (c == '.' && isDigit(lx.peek(1))):
		return token{kind: tNumber, n: lx.readNumber(), line: line}
	case c == '"' || c == '\'':
		return token{kind: tString, s: lx.readString(c), line: line}
	case c == '[':
		if lv := lx.longBracketLevel(); lv >= 0 {
			return token{kind: tString, s: lx.readLong(lv, "string"), line: line}
		}
		if lx.peek(1) == '=' {
			lx.fail("invalid long string delimiter")
		}
		lx.pos++
		return token{kind: tOp, s: "[", line: line}
	}
	three := ""
	if lx.pos+3 <= len(lx.src) {
		three = lx.src[lx.pos : lx.pos+3]
	}
	if three == "..." {
		lx.pos += 3
		return token{kind: tOp, s: "...", line: line}
	}
	if lx.pos+2 <= len(lx.src) {
		two := lx.src[lx.pos : lx.pos+2]
		switch two {
		case "==", "~=", "<=", ">=", "..":
			lx.pos += 2
			return token{kind: tOp, s: two, line: line}
		}
	}
	switch c {
	case '+', '-', '*', '/', '%', '^', '#', '<', '>', '=', '(', ')', '{', '}', ']', ';', ':', ',', '.':
		lx.pos++
		return token{kind: tOp, s: string(c), line: line}
	}
	lx.fail("unexpected symbol near '" + strconv.QuoteToASCII(string(c)) + "'")
	panic("unreachable")
}

// readNumber follows llex.c read_numeral: it swallows digits, '.', an exponent with optional
// sign and any trailing alphanumerics, then converts the lot (malformed if that fails).
func (lx *lexer) readNumber() float64 {
	st := lx.pos
	for lx.pos < len(lx.src) && (isDigit(lx.src[lx.pos]) || lx.src[lx.pos] == '.') {
		lx.pos++
	}
	if lx.pos < len(lx.src) && (lx.src[lx.pos] == 'e' || lx.src[lx.pos] == 'E') {
		lx.pos++
		if lx.pos < len(lx.src) && (lx.src[lx.pos] == '+' || lx.src[lx.pos] == '-') {
			lx.pos++
		}
	}
	for lx.pos < len(lx.src) && (isAlpha(lx.src[lx.pos]) || isDigit(lx.src[lx.pos])) {
		lx.pos++
	}
	text := lx.src[st:lx.pos]
	n, st2 := str2number(text)
	switch st2 {
	case numOK:
		return n
	case numUnsupported:
		unsupported("numeric literal " + strconv.Quote(text))
	}
	lx.fail("malformed number near '" + text + "'")
	return 0
}

func (lx *lexer) readString(q byte) string {
	lx.pos++
	var sb strings.Builder
	for {
		if lx.pos >= len(lx.src) {
			lx.fail("unfinished string")
		}
		c := lx.src[lx.pos]
		switch c {
		case q:
			lx.pos++
			return sb.String()
		case '\n', '\r':
			lx.fail("unfinished string")
		case '\\':
			lx.pos++
			if lx.pos >= len(lx.src) {
				lx.fail("unfinished string")
			}
			e := lx.src[lx.pos]
			switch e {
			case 'a':
				sb.WriteByte('\a')
			case 'b':
				sb.WriteByte('\b')
			case 'f':
				sb.WriteByte('\f')
			case 'n':
				sb.WriteByte('\n')
			case 'r':
				sb.WriteByte('\r')
			case 't':
				sb.WriteByte('\t')
			case 'v':
				sb.WriteByte('\v')
			case '\n', '\r':
				lx.newline()
				sb.WriteByte('\n')
				continue
			default:
				if !isDigit(e) {
					// Lua 5.1 keeps any other escaped character as is (\\, \", \', \q ...).
					sb.WriteByte(e)
					break
				}
				v := 0
				i := 0
				for i < 3 && lx.pos < len(lx.src) && isDigit(lx.src[lx.pos]) {
					v = v*10 + int(lx.src[lx.pos]-'0')
					lx.pos++
					i++
				}
				if v > 255 {
					lx.fail("escape sequence too large")
				}
				sb.WriteByte(byte(v))
				continue
			}
			lx.pos++
		default:
			sb.WriteByte(c)
			lx.pos++
		}
	}
}

type numStatus int

const (
	numBad numStatus = iota
	numOK
	numUnsupported
)

// str2number emulates luaO_str2d (strtod plus the "0x" integer fallback) for the inputs whose
// result does not depend on the C library: decimal numbers and non-negative hexadecimal
// integers, with optional surrounding white space. Inputs that glibc's strtod would accept in
// addition (inf, nan, hexadecimal floats, negative hex, embedded NUL) report numUnsupported.
func str2number(s string) (float64, numStatus) {
	if strings.IndexByte(s, 0) >= 0 {
		return 0, numUnsupported
	}
	i := 0
	for i < len(s) && isSpace(s[i]) {
		i++
	}
	j := len(s)
	for j > i && isSpace(s[j-1]) {
		j--
	}
	body := s[i:j]
	if body == "" {
		return 0, numBad
	}
	sign := ""
	rest := body
	if rest[0] == '+' || rest[0] == '-' {
		sign, rest = rest[:1], rest[1:]
	}
	low := strings.ToLower(rest)
	if strings.HasPrefix(low, "inf") || strings.HasPrefix(low, "nan") {
		return 0, numUnsupported
	}
	if strings.HasPrefix(low, "0x") {
		hex := rest[2:]
		if hex == "" {
			return 0, numBad
		}
		for k := 0; k < len(hex); k++ {
			if !isHex(hex[k]) {
				if hex[k] == '.' || hex[k] == 'p' || hex[k] == 'P' {
					return 0, numUnsupported
				}
				return 0, numBad
			}
		}
		if sign == "-" {
			return 0, numUnsupported // strtoul wraps negative values around
		}
		u, err := strconv.ParseUint(hex, 16, 64)
		if err != nil {
			return 0, numUnsupported // strtoul saturates
		}
		return float64(u), numOK
	}
	// decimal: digits [. digits] [e [+-] digits], at least one digit in the mantissa
	k := 0
	digits := 0
	for k < len(rest) && isDigit(rest[k]) {
		k++
		digits++
	}
	if k < len(rest) && rest[k] == '.' {
		k++
		for k < len(rest) && isDigit(rest[k]) {
			k++
			digits++
		}
	}
	if digits == 0 {
		return 0, numBad
	}
	if k < len(rest) && (rest[k] == 'e' || rest[k] == 'E') {
		k++
		if k < len(rest) && (rest[k] == '+' || rest[k] == '-') {
			k++
		}
		ed := 0
		for k < len(rest) && isDigit(rest[k]) {
			k++
			ed++
		}
		if ed == 0 {
			return 0, numBad
		}
	}
	if k != len(rest) {
		return 0, numBad
	}
	f, err := strconv.ParseFloat(sign+rest, 64)
	if err != nil {
		// out of range: strtod returns +-HUGE_VAL or a denormal/zero, as ParseFloat does
		if ne, ok := err.(*strconv.NumError); ok && ne.Err == strconv.ErrRange {
			if math.IsInf(f, 0) || f == 0 {
				return f, numOK
			}
		}
		return 0, numBad
	}
	return f, numOK
}
