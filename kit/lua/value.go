package lua

import (
	"math"
	"strconv"
)

// value is a Lua value: nil, bool, float64, string, *table, *closure or *builtin.
type value interface{}

type cell struct{ v value }

type closure struct {
	proto  *funcProto
	upvals []*cell
}

type builtin struct {
	name string
	fn   func(in *interp, args []value) []value
}

// luaError is a raised Lua error carrying an arbitrary Lua value.
type luaError struct {
	val      value
	internal bool // message produced by the interpreter itself, not by the script
}

func typeName(v value) string {
	switch v.(type) {
	case nil:
		return "nil"
	case bool:
		return "boolean"
	case float64:
		return "number"
	case string:
		return "string"
	case *table:
		return "table"
	case *closure, *builtin:
		return "function"
	}
	return "userdata"
}

func truthy(v value) bool {
	switch b := v.(type) {
	case nil:
		return false
	case bool:
		return b
	}
	return true
}

// fmtNumber formats a number like lua_Number2str ("%.14g").
func fmtNumber(f float64) string {
	switch {
	case math.IsNaN(f):
		// "nan" or "-nan" depending on the platform's sign bit conventions
		unsupported("converting NaN to a string")
	case math.IsInf(f, 1):
		return "inf"
	case math.IsInf(f, -1):
		return "-inf"
	}
	return strconv.FormatFloat(f, 'g', 14, 64)
}

// fmtNumberSafe is fmtNumber for diagnostics: it never panics.
func fmtNumberSafe(f float64) string {
	if math.IsNaN(f) {
		return "nan"
	}
	return fmtNumber(f)
}

// toNumber implements lua_tonumber: numbers and numeric strings.
func toNumber(v value) (float64, bool) {
	switch x := v.(type) {
	case float64:
		return x, true
	case string:
		f, st := str2number(x)
		switch st {
		case numOK:
			return f, true
		case numUnsupported:
			unsupported("converting the string " + strconv.Quote(x) + " to a number")
		}
	}
	return 0, false
}

// toStr implements lua_tolstring: strings and numbers.
func toStr(v value) (string, bool) {
	switch x := v.(type) {
	case string:
		return x, true
	case float64:
		return fmtNumber(x), true
	}
	return "", false
}

// ---- tables ----

// table has an array part (integer keys 1..len(arr), grown only by appending at len(arr)+1) and
// an insertion ordered hash part for every other key. Neither part ever drops a slot while keys
// are merely cleared: a cleared array slot holds nil and a cleared hash entry leaves a tombstone
// (key kept, nil value), so that next() keeps working while a traversal clears fields, which is
// exactly what Lua allows.
type table struct {
	arr     []value
	liveArr int     // non-nil slots in arr
	top     int     // highest index with a non-nil slot in arr, 0 if none
	hkeys   []value // nil key marks a dead slot
	hvals   []value
	hidx    map[value]int
	dead    int // slots whose key was removed (re-inserted elsewhere)
	cleared int // slots whose value is nil but whose key is still indexed
	// intKeys counts live positive integer keys in the hash part.
	intKeys int
	// lib marks a library table (string, table, math, redis ...): unknown fields and writes
	// are reported as unsupported instead of behaving like an ordinary table.
	lib string
	// absent lists fields of a library table that are known not to exist in Redis.
	absent map[string]bool
}

func newTable() *table { return &table{} }

func isPosInt(f float64) bool {
	return f >= 1 && f <= 1<<53 && f == math.Trunc(f)
}

func (t *table) get(k value) value {
	switch x := k.(type) {
	case nil:
		return nil
	case float64:
		if isPosInt(x) && x <= float64(len(t.arr)) {
			return t.arr[int(x)-1]
		}
		if math.IsNaN(x) {
			return nil
		}
	}
	if t.hidx == nil {
		return nil
	}
	if i, ok := t.hidx[k]; ok {
		return t.hvals[i]
	}
	return nil
}

func (t *table) getInt(i int) value {
	if i >= 1 && i <= len(t.arr) {
		return t.arr[i-1]
	}
	return t.get(float64(i))
}

func (t *table) setInt(i int, v value) { t.set(float64(i), v) }

// set stores v under k. The caller has already rejected nil and NaN keys.
func (t *table) set(k value, v value) {
	if f, ok := k.(float64); ok && isPosInt(f) {
		n := len(t.arr)
		switch {
		case f <= float64(n):
			i := int(f)
			old := t.arr[i-1]
			t.arr[i-1] = v
			switch {
			case old == nil && v != nil:
				t.liveArr++
				if i > t.top {
					t.top = i
				}
			case old != nil && v == nil:
				t.liveArr--
				for t.top > 0 && t.arr[t.top-1] == nil {
					t.top--
				}
			}
			return
		case f == float64(n+1):
			if v == nil {
				return
			}
			t.arr = append(t.arr, v)
			t.liveArr++
			t.top = len(t.arr)
			// migrate the following keys from the hash part
			for t.intKeys > 0 {
				nk := float64(len(t.arr) + 1)
				i, ok := t.hidx[nk]
				if !ok || t.hvals[i] == nil {
					break
				}
				nv := t.hvals[i]
				t.hashSet(nk, nil)
				t.arr = append(t.arr, nv)
				t.liveArr++
				t.top = len(t.arr)
			}
			return
		}
	}
	t.hashSet(k, v)
}

func (t *table) hashSet(k value, v value) {
	f, isNum := k.(float64)
	countInt := isNum && isPosInt(f)
	if i, ok := t.hidx[k]; ok {
		old := t.hvals[i]
		switch {
		case v == nil && old != nil:
			t.hvals[i] = nil
			t.cleared++
			if countInt {
				t.intKeys--
			}
		case v != nil && old != nil:
			t.hvals[i] = v
		case v != nil && old == nil:
			// re-insertion of a cleared key: it moves to the end of the order
			t.hkeys[i] = nil
			t.dead++
			t.cleared--
			delete(t.hidx, k)
			t.hashAppend(k, v, countInt)
		}
		return
	}
	if v == nil {
		return
	}
	t.hashAppend(k, v, countInt)
}

func (t *table) hashAppend(k, v value, countInt bool) {
	if t.hidx == nil {
		t.hidx = map[value]int{}
	}
	// Compaction only happens on insertion of a new key, which Lua forbids during a traversal.
	if junk := t.dead + t.cleared; junk > 16 && junk*2 > len(t.hkeys) {
		t.compact()
	}
	t.hidx[k] = len(t.hkeys)
	t.hkeys = append(t.hkeys, k)
	t.hvals = append(t.hvals, v)
	if countInt {
		t.intKeys++
	}
}

func (t *table) compact() {
	keys := make([]value, 0, len(t.hidx))
	vals := make([]value, 0, len(t.hidx))
	idx := make(map[value]int, len(t.hidx))
	for i, k := range t.hkeys {
		if k == nil || t.hvals[i] == nil {
			continue
		}
		idx[k] = len(keys)
		keys = append(keys, k)
		vals = append(vals, t.hvals[i])
	}
	t.hkeys, t.hvals, t.hidx, t.dead, t.cleared = keys, vals, idx, 0, 0
}

// border returns the length of a sequence. ok is false when the table has positive integer
// keys beyond the first nil ("holes"), in which case real Lua's answer depends on the table's
// internal layout.
func (t *table) border() (int, bool) {
	return t.top, t.liveArr == t.top && t.intKeys == 0
}

// next implements the primitive behind next() and pairs(). found is false when k is not a key
// of the table.
func (t *table) next(k value) (nk, nv value, found bool) {
	start := 0 // index into the virtual sequence arr ++ hash slots
	if k != nil {
		if f, ok := k.(float64); ok && isPosInt(f) && f <= float64(len(t.arr)) {
			start = int(f)
		} else {
			i, ok := t.hidx[k]
			if !ok {
				return nil, nil, false
			}
			start = len(t.arr) + i + 1
		}
	}
	for i := start; i < len(t.arr); i++ {
		if t.arr[i] != nil {
			return float64(i + 1), t.arr[i], true
		}
	}
	h := start - len(t.arr)
	if h < 0 {
		h = 0
	}
	for i := h; i < len(t.hkeys); i++ {
		if t.hkeys[i] != nil && t.hvals[i] != nil {
			return t.hkeys[i], t.hvals[i], true
		}
	}
	return nil, nil, true
}
