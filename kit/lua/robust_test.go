package lua

import (
	"errors"
	"math/rand"
	"strings"
	"testing"

	"verifkit/resp"
)

// tryRun compiles and runs src with a small budget. It fails the test if anything panics or if
// the error is of an unexpected kind.
func tryRun(t *testing.T, src string, rnd *rand.Rand) {
	t.Helper()
	defer func() {
		if r := recover(); r != nil {
			t.Fatalf("panic on %q: %v", src, r)
		}
	}()
	p, err := Compile(src)
	if err != nil {
		if !errors.Is(err, ErrSyntax) && !errors.Is(err, ErrUnsupported) || strings.Contains(err.Error(), "internal error") {
			t.Fatalf("Compile(%q): unexpected error kind: %v", src, err)
		}
		if p != nil {
			t.Fatalf("Compile(%q): program returned together with an error", src)
		}
		return
	}
	n := 0
	call := func(argv []string) resp.Value {
		n++
		switch (n + len(argv)) % 7 {
		case 0:
			return resp.Int(int64(n))
		case 1:
			return resp.Bulk("v")
		case 2:
			return resp.Null()
		case 3:
			return resp.OK()
		case 4:
			return resp.Err("ERR fake failure")
		case 5:
			return resp.Arr(resp.Int(1), resp.Bulk("x"), resp.Null(), resp.Arr())
		}
		return resp.Bulk("12")
	}
	keys := []string{"k1", "k2"}
	argv := []string{"1", "2", "x", ""}
	if rnd != nil && rnd.Intn(4) == 0 {
		keys, argv = nil, nil
	}
	v, err := p.run(keys, argv, call, 20000)
	if err != nil {
		// "internal error" marks a recovered Go panic, i.e. a bug in the interpreter
		if !errors.Is(err, ErrUnsupported) || strings.Contains(err.Error(), "internal error") {
			t.Fatalf("Run(%q): unexpected error kind: %v", src, err)
		}
		robustStats.unsupported++
		return
	}
	switch v.T {
	case '-':
		robustStats.scriptErrors++
	case ':', '$', '_', '+', '*':
		robustStats.results++
	default:
		t.Fatalf("Run(%q): reply of unexpected type %q", src, v.T)
	}
}

var robustStats struct{ results, scriptErrors, unsupported int }

var robustSnippets = []string{
	`local t = {1, 2, 3, x = {y = "z"}} for k, v in pairs(t) do t[k] = nil end return #t`,
	`local function f(a, ...) local b, c = ... return a and b or c, select("#", ...) end return {f(1, 2, 3)}`,
	`local s = "" for i = 10, 1, -3 do s = s .. i .. "," end return s:sub(1, -2):upper()`,
	`local ok, e = pcall(function() return redis.call("GET", KEYS[1]) .. nil end) if not ok then return e end`,
	`return string.format("%d %s %.2f %x %g%%", 1, "a", 2.5, 255, 1e20) .. [==[long ]] string]==] --[[ c ]] .. 'q\65\n'`,
	`local i = 0 repeat i = i + 1 if i % 2 == 0 then break end until i > 5 while i < 10 do i = i * 2 end return {i, -i ^ 2, 7 % -3, 0x1F, 1e3, .5}`,
	`local t = setmetatable({}, {}) return cjson.encode(t)`,
	`local a = {} a.b = {} a.b.c = function(self, n) return n + 1 end return a.b:c(1) + #ARGV + tonumber(ARGV[1])`,
	`if redis.call("EXISTS", KEYS[1]) == 0 then redis.call("SET", KEYS[1], ARGV[1], "PX", 100) elseif not ARGV[2] then return nil else return redis.pcall("INCRBY", KEYS[2], -1) end return redis.status_reply("OK")`,
	`return {table.concat({1, 2, 3}, "-"), table.remove({1}), unpack({1, 2}), math.max(1, 2), math.floor(-0.5), type(nil), tostring(1e15), next({}), string.byte("a"), string.char(65), string.rep("ab", 2), ("x"):len(), redis.sha1hex("")}`,
}

func TestRobustness(t *testing.T) {
	rnd := rand.New(rand.NewSource(20260921))
	var corpus []string
	for _, s := range allRepoScripts {
		corpus = append(corpus, s)
	}
	corpus = append(corpus, robustSnippets...)

	t.Run("truncated", func(t *testing.T) {
		for _, s := range corpus {
			for i := 0; i <= len(s); i++ {
				tryRun(t, s[:i], nil)
			}
			for i := 0; i < len(s); i += 3 {
				tryRun(t, s[i:], nil)
			}
		}
	})
	t.Run("random bytes", func(t *testing.T) {
		for i := 0; i < 3000; i++ {
			b := make([]byte, rnd.Intn(60))
			for j := range b {
				switch rnd.Intn(3) {
				case 0:
					b[j] = byte(rnd.Intn(256))
				case 1:
					b[j] = byte(32 + rnd.Intn(95))
				default:
					const chars = "(){}[]=~<>.,;:+-*/%^#\"'\\\n\t 0189xXeEaz_"
					b[j] = chars[rnd.Intn(len(chars))]
				}
			}
			tryRun(t, string(b), rnd)
		}
	})
	t.Run("mutated", func(t *testing.T) {
		for i := 0; i < 4000; i++ {
			b := []byte(corpus[rnd.Intn(len(corpus))])
			for m := rnd.Intn(4) + 1; m > 0 && len(b) > 0; m-- {
				pos := rnd.Intn(len(b))
				switch rnd.Intn(4) {
				case 0:
					b[pos] = byte(rnd.Intn(256))
				case 1:
					b = append(b[:pos], b[pos+1:]...)
				case 2:
					end := pos + rnd.Intn(12)
					if end > len(b) {
						end = len(b)
					}
					b = append(b[:pos], b[end:]...)
				default:
					choices := []string{" end ", " nil ", "(", ")", "{", "}", " .. ", "[", "]", " = ", " function ", "...", " - ", "#", "\"", " return ", " break ", ",", " 0 ", " 1e309 ", " do ", " not ", "\x00"}
					ins := choices[rnd.Intn(len(choices))]
					b = append(b[:pos], append([]byte(ins), b[pos:]...)...)
				}
			}
			tryRun(t, string(b), rnd)
		}
	})
	t.Run("token soup", func(t *testing.T) {
		words := []string{"local", "function", "end", "if", "then", "else", "elseif", "for", "in", "do", "while", "repeat", "until",
			"return", "break", "nil", "true", "false", "and", "or", "not", "x", "y", "t", "f", "KEYS", "ARGV", "redis", ".call", ".pcall",
			"pairs", "ipairs", "unpack", "select", "pcall", "error", "tostring", "tonumber", "type", "table", ".insert", ".remove", ".concat",
			"string", ".sub", ".format", "math", ".floor", ".huge", "(", ")", "{", "}", "[", "]", "=", "==", "~=", "<", "<=", ">", ">=", "+",
			"-", "*", "/", "%", "^", "#", "..", "...", ",", ";", ":", ".", "1", "0", "2.5", "0x10", "1e3", `"s"`, `'GET'`, `[[l]]`, `"%d"`, "--c\n", "\n"}
		for i := 0; i < 6000; i++ {
			var sb strings.Builder
			for n := rnd.Intn(25); n > 0; n-- {
				sb.WriteString(words[rnd.Intn(len(words))])
				sb.WriteByte(' ')
			}
			tryRun(t, sb.String(), rnd)
		}
	})
	t.Run("statement soup", func(t *testing.T) {
		robustStats.results, robustStats.scriptErrors, robustStats.unsupported = 0, 0, 0
		defer func() {
			t.Logf("valid programs: %d results, %d script errors, %d unsupported", robustStats.results, robustStats.scriptErrors, robustStats.unsupported)
			if robustStats.results < 500 || robustStats.scriptErrors < 500 {
				t.Errorf("the generated programs do not exercise the evaluator enough")
			}
		}()
		// grammatically valid programs, so that the evaluator (not only the parser) is exercised
		exprs := []string{"x", "y", "t", "nil", "true", "1", "0", "-1", "2.5", `"s"`, `"10"`, "{}", "{1, 2, x = 3}", "KEYS", "ARGV", "ARGV[1]", "t[1]", "t.x", "#t", "#x",
			"x + y", "x .. y", "x == y", "x < y", "x and y", "x or y", "not x", "-x", "x % y", "x / y", "x ^ 2", "f", "f(x)", "f(x, y)", "t[x]", "x.y", "x:len()",
			"tostring(x)", "tonumber(x)", "type(x)", "unpack(t)", "select(2, x, y)", "select('#', x)", `redis.call("GET", x)`, `redis.pcall("SET", x, y)`, "pcall(f, x)",
			"math.floor(x)", "math.max(x, y)", "string.sub(x, 1, 2)", "string.rep(x, 3)", "table.concat(t, x)", "table.remove(t)", "next(t)", "function(a) return a, x end",
			`string.format("%d:%s", x, y)`, "math.huge", "1/0", "0/0", "{f(x)}", "(f(x))", "{[x] = y}", "redis.error_reply(x)", "redis.sha1hex(x)"}
		e := func() string { return exprs[rnd.Intn(len(exprs))] }
		var stmt func(d int) string
		stmt = func(d int) string {
			k := rnd.Intn(14)
			if d > 2 && k > 6 {
				k = rnd.Intn(7)
			}
			switch k {
			case 0:
				return "local x = " + e()
			case 1:
				return "y = " + e()
			case 2:
				return "t[" + e() + "] = " + e()
			case 3:
				return "x, y = " + e() + ", " + e()
			case 4:
				return "local t = " + e()
			case 5:
				return "f(" + e() + ")"
			case 6:
				return "table.insert(t, " + e() + ")"
			case 7:
				return "if " + e() + " then " + stmt(d+1) + " else " + stmt(d+1) + " end"
			case 8:
				return "for i = " + e() + ", " + e() + " do " + stmt(d+1) + " end"
			case 9:
				return "for k, v in pairs(" + e() + ") do " + stmt(d+1) + " end"
			case 10:
				return "while " + e() + " do " + stmt(d+1) + " break end"
			case 11:
				return "local function f(a, b) " + stmt(d+1) + " return " + e() + " end"
			case 12:
				return "repeat " + stmt(d+1) + " until " + e()
			default:
				return "do " + stmt(d+1) + " return " + e() + " end"
			}
		}
		for i := 0; i < 6000; i++ {
			var sb strings.Builder
			sb.WriteString("local x, y, t, f = ARGV[1], 2, {1, 2, 3}, function(a) return a end ")
			for n := rnd.Intn(6) + 1; n > 0; n-- {
				sb.WriteString(stmt(0))
				sb.WriteByte(' ')
			}
			sb.WriteString("return " + e())
			tryRun(t, sb.String(), rnd)
		}
	})
	t.Run("pathological nesting", func(t *testing.T) {
		for _, s := range []string{
			strings.Repeat("(", 100000),
			strings.Repeat("{", 100000),
			strings.Repeat("-", 100001) + "1",
			"return " + strings.Repeat("not ", 100000) + "1",
			"return " + strings.Repeat("(", 5000) + "1" + strings.Repeat(")", 5000),
			"return " + strings.Repeat("{", 5000) + strings.Repeat("}", 5000),
			"return 1" + strings.Repeat("+1", 100000),
			"return 1" + strings.Repeat("..1", 100000),
			"return f" + strings.Repeat("()", 100000),
			"return t" + strings.Repeat(".a", 100000),
			"return t" + strings.Repeat("[1]", 100000),
			strings.Repeat("do ", 100000),
			strings.Repeat("if x then ", 100000),
			strings.Repeat("function f() ", 100000),
			strings.Repeat("while true do ", 5000) + strings.Repeat(" end", 5000),
			"return " + strings.Repeat("function() return ", 5000) + "1" + strings.Repeat(" end", 5000),
			"return [" + strings.Repeat("=", 100000) + "[",
			"--[" + strings.Repeat("=", 100000) + "[",
			"return \"" + strings.Repeat("\\", 100001),
			"return " + strings.Repeat("9", 100000),
			"return 1e" + strings.Repeat("9", 1000),
			"return 0x" + strings.Repeat("f", 1000),
			"local " + strings.Repeat("a,", 1000) + "a",
			"local t = {" + strings.Repeat("1,", 100000) + "} return #t",
			"return (" + strings.Repeat("'a'..", 1000) + "'a'):len()",
		} {
			tryRun(t, s, nil)
		}
	})
}

// FuzzRun is a native fuzz target for the same property (go test -fuzz=FuzzRun ./lua).
func FuzzRun(f *testing.F) {
	for _, s := range allRepoScripts {
		f.Add(s)
	}
	for _, s := range robustSnippets {
		f.Add(s)
	}
	f.Fuzz(func(t *testing.T, src string) {
		tryRun(t, src, nil)
	})
}
