package lua

import (
	"errors"
	"strings"
	"testing"

	"verifkit/resp"
)

func TestArithmetic(t *testing.T) {
	num := func(expr, want string) {
		t.Helper()
		expect(t, `return tostring(`+expr+`)`, resp.Bulk(want))
	}
	num(`1 + 2`, "3")
	num(`5 - 8`, "-3")
	num(`6 * 7`, "42")
	num(`7 / 2`, "3.5") // float division
	num(`1 / 4`, "0.25")
	num(`2 ^ 10`, "1024")
	num(`2 ^ 0.5`, "1.4142135623731")
	num(`2 ^ -1`, "0.5")
	num(`2 ^ 3 ^ 2`, "512") // right associative
	num(`-2 ^ 2`, "-4")     // ^ binds tighter than unary minus
	num(`(-2) ^ 2`, "4")
	num(`1 + 2 * 3`, "7") // precedence
	num(`(1 + 2) * 3`, "9")
	num(`10 - 4 - 3`, "3")   // left associative
	num(`100 / 10 / 5`, "2") // left associative
	num(`-3`, "-3")
	num(`- -3`, "3")
	num(`-(1+2)`, "-3")
	// modulo: a - floor(a/b)*b
	num(`7 % 3`, "1")
	num(`-7 % 3`, "2")
	num(`7 % -3`, "-2")
	num(`-7 % -3`, "-1")
	num(`5.5 % 2`, "1.5")
	num(`6 % 3`, "0")
	expect(t, `local x = 3 % math.huge return x ~= x`, resp.Int(1)) // 3 - floor(0)*inf is NaN in Lua 5.1
	expect(t, `local x = 5 % 0 return x ~= x`, resp.Int(1))         // NaN, not an error
	expect(t, `local x = 0/0 return x == x`, resp.Null())
	num(`1/0`, "inf")
	num(`-1/0`, "-inf")
	// string -> number coercion
	num(`"10" + 1`, "11")
	num(`"10" * "2"`, "20")
	num(`"0x10" + 0`, "16")
	num(`" 5 " + 1`, "6")
	num(`"1e2" + 0`, "100")
	num(`-"2"`, "-2")
	num(`"3" ^ 2`, "9")
	num(`10 .. 20`, "1020")
	expectErr(t, `return "abc" + 1`, "attempt to perform arithmetic on a string value")
	expectErr(t, `return "" + 1`, "attempt to perform arithmetic")
	expectErr(t, `return "1 2" + 1`, "attempt to perform arithmetic")
	expectErr(t, `return nil + 1`, "attempt to perform arithmetic on a nil value")
	expectErr(t, `local x return x + 1`, "attempt to perform arithmetic on local 'x' (a nil value)")
	expectErr(t, `return 1 + {}`, "attempt to perform arithmetic on a table value")
	expectErr(t, `return 1 + true`, "attempt to perform arithmetic on a boolean value")
	expectErr(t, `return -{}`, "attempt to perform arithmetic")
	expectErr(t, `return ARGV[1] * 2`, "attempt to perform arithmetic on field '?' (a nil value)")
	expectUnsupported(t, `return "inf" + 1`)
	expectUnsupported(t, `return "nan" + 1`)
	expectUnsupported(t, `return "0x1p4" + 1`)
	expectUnsupported(t, `return -0`)
}

func TestComparison(t *testing.T) {
	yes := func(expr string) { t.Helper(); expect(t, `return `+expr, resp.Int(1)) }
	no := func(expr string) { t.Helper(); expect(t, `return `+expr, resp.Null()) }
	yes(`1 < 2`)
	no(`2 < 1`)
	no(`1 < 1`)
	yes(`1 <= 1`)
	yes(`2 > 1`)
	yes(`2 >= 2`)
	no(`1 >= 2`)
	yes(`1 == 1`)
	yes(`1 == 1.0`)
	no(`1 == 2`)
	yes(`1 ~= 2`)
	no(`1 ~= 1`)
	yes(`"a" == "a"`)
	no(`"a" == "b"`)
	yes(`"a" < "b"`)
	yes(`"a" < "ab"`)
	yes(`"Z" < "a"`)
	yes(`"10" < "9"`) // strings compare as strings
	yes(`"a" <= "a"`)
	yes(`"b" > "a"`)
	yes(`"b" >= "b"`)
	// == between different types is false, never an error
	no(`1 == "1"`)
	yes(`1 ~= "1"`)
	no(`0 == false`)
	no(`nil == false`)
	no(`"" == false`)
	no(`{} == {}`)
	yes(`nil == nil`)
	yes(`true == true`)
	no(`true == false`)
	expect(t, `local t = {} local u = t return t == u`, resp.Int(1))
	expect(t, `local f = function() end return f == f`, resp.Int(1))
	expect(t, `return tostring == tostring`, resp.Int(1))
	expect(t, `return tostring ~= tonumber`, resp.Int(1))
	// ordering across types raises
	expectErr(t, `return 1 < "2"`, "attempt to compare number with string")
	expectErr(t, `return "1" <= 2`, "attempt to compare string with number")
	expectErr(t, `return 1 > "2"`, "attempt to compare string with number")
	expectErr(t, `return nil < 1`, "attempt to compare nil with number")
	expectErr(t, `return {} < {}`, "attempt to compare two table values")
	expectErr(t, `return true < false`, "attempt to compare two boolean values")
	expectErr(t, `return nil >= nil`, "attempt to compare two nil values")
	// NaN compares false with everything
	no(`0/0 < 1`)
	no(`0/0 >= 1`)
}

func TestLogic(t *testing.T) {
	expect(t, `return 0 and "zero is true"`, resp.Bulk("zero is true"))
	expect(t, `return "" and "empty is true"`, resp.Bulk("empty is true"))
	expect(t, `return nil and 1`, resp.Null())
	expect(t, `return false and 1`, resp.Null())
	expect(t, `return nil or "d"`, resp.Bulk("d"))
	expect(t, `return false or "d"`, resp.Bulk("d"))
	expect(t, `return 0 or "d"`, resp.Int(0))
	expect(t, `return "" or "d"`, resp.Bulk(""))
	expect(t, `return 1 and 2`, resp.Int(2))
	expect(t, `return 1 or 2`, resp.Int(1))
	expect(t, `return not nil`, resp.Int(1))
	expect(t, `return not false`, resp.Int(1))
	expect(t, `return not 0`, resp.Null())
	expect(t, `return not ""`, resp.Null())
	expect(t, `return not not nil`, resp.Null())
	expect(t, `return 1 == 1 and "yes" or "no"`, resp.Bulk("yes"))
	expect(t, `return 1 == 2 and "yes" or "no"`, resp.Bulk("no"))
	expect(t, `return nil or false`, resp.Null())
	expect(t, `return false or nil`, resp.Null())
	// short circuit: the right operand must not be evaluated
	expect(t, `local n = 0 local function f() n = n + 1 return true end local x = false and f() local y = true or f() return n`, resp.Int(0))
	expect(t, `local n = 0 local function f() n = n + 1 return true end local x = true and f() local y = false or f() return n`, resp.Int(2))
	// precedence: not > comparison > and > or; .. is right associative and below + -
	expect(t, `return 1 or 2 and nil`, resp.Int(1))
	expect(t, `return not 1 == 2`, resp.Null()) // (not 1) == 2
	expect(t, `return 1 + 2 .. ""`, resp.Bulk("3"))
	expect(t, `return "a" .. "b" .. "c" == "abc"`, resp.Int(1))
	expect(t, `return 2 * 3 == 6 and 1 + 1 < 3`, resp.Int(1))
	expect(t, `if 0 then return "t" else return "f" end`, resp.Bulk("t"))
	expect(t, `if "" then return "t" else return "f" end`, resp.Bulk("t"))
	// `and`/`or` yield exactly one value
	expect(t, `local function f() return 1, 2 end local t = {f() or 0} return #t`, resp.Int(1))
}

func TestConcatAndLength(t *testing.T) {
	expect(t, `return "a" .. "b"`, resp.Bulk("ab"))
	expect(t, `return "a" .. 1 .. "b" .. 2.5`, resp.Bulk("a1b2.5"))
	expectErr(t, `return "a" .. nil`, "attempt to concatenate a nil value")
	expectErr(t, `return "a" .. {}`, "attempt to concatenate a table value")
	expectErr(t, `return true .. "a"`, "attempt to concatenate a boolean value")
	expectErr(t, `local t = {} return "a" .. t.x`, "attempt to concatenate field 'x' (a nil value)")
	expect(t, `return #"hello"`, resp.Int(5))
	expect(t, `return #""`, resp.Int(0))
	expect(t, `return #"a\0b"`, resp.Int(3))
	expect(t, `return #{}`, resp.Int(0))
	expect(t, `return #{1,2,3}`, resp.Int(3))
	expect(t, `return #{n=1}`, resp.Int(0))
	expect(t, `return #{1,2,x=3}`, resp.Int(2))
	expect(t, `local t = {} t[1]=1 t[2]=2 t[3]=3 return #t`, resp.Int(3))
	expect(t, `local t = {} t[3]=3 t[2]=2 t[1]=1 return #t`, resp.Int(3)) // becomes a sequence
	expect(t, `local t = {1,2,3} t[3]=nil return #t`, resp.Int(2))
	expect(t, `local t = {1,2,3} t[#t+1]=4 return #t`, resp.Int(4))
	expect(t, `local t = {1,2,3} t[2]=nil t[2]=5 return #t`, resp.Int(3)) // hole filled again
	expect(t, `local t = {1,2,3} t[3]=nil t[2]=nil t[1]=nil return #t`, resp.Int(0))
	expect(t, `local t = {1,2,3} t[1]=nil t[2]=nil t[3]=nil return #t`, resp.Int(0))
	expect(t, `return #ARGV + #KEYS`, resp.Int(0))
	expectErr(t, `return #5`, "attempt to get length of a number value")
	expectErr(t, `return #nil`, "attempt to get length of a nil value")
	// a table with holes has no well defined length in Lua 5.1
	expectUnsupported(t, `local t = {1,2,3} t[2]=nil return #t`)
	expectUnsupported(t, `return #{1,nil,3}`)
	expectUnsupported(t, `local t = {} t[1]=1 t[3]=3 return #t`)
	expectUnsupported(t, `local t = {} t[5]=1 return #t`)
	expectUnsupported(t, `local t = {1,nil,3} table.insert(t, 4)`)
}

func TestStatements(t *testing.T) {
	// local: multiple names and values, missing and extra values
	expect(t, `local a, b, c = 1, 2 return {a, b, c == nil}`, ints(1, 2, 1))
	expect(t, `local a, b = 1, 2, 3 return {a, b}`, ints(1, 2))
	expect(t, `local a return a == nil`, resp.Int(1))
	expect(t, `local function f() return 1, 2, 3 end local a, b, c, d = f() return {a, b, c, d == nil}`, ints(1, 2, 3, 1))
	expect(t, `local function f() return 1, 2, 3 end local a, b, c = f(), 10 return {a, b, c == nil}`, ints(1, 10, 1))
	expect(t, `local function f() return 1, 2, 3 end local a, b = (f()) return {a, b == nil}`, ints(1, 1))
	expect(t, `local x = 1 local x = x + 1 return x`, resp.Int(2)) // the initialiser sees the old x
	expect(t, `local x = 1 do local x = 2 end return x`, resp.Int(1))
	expect(t, `local x = 1 do x = 2 end return x`, resp.Int(2))
	// assignment
	expect(t, `local a, b = 1, 2 a, b = b, a return {a, b}`, ints(2, 1)) // swap
	expect(t, `local a, b a, b = 1 return {a, b == nil}`, ints(1, 1))
	expect(t, `local t = {} t.x = 1 t["y"] = 2 t[1] = 3 return {t.x, t.y, t[1], t["x"]}`, ints(1, 2, 3, 1))
	expect(t, `local t = {} t.a, t.b = 1, 2 return {t.a, t.b}`, ints(1, 2))
	expect(t, `local t = {{}} t[1].x = 5 return t[1].x`, resp.Int(5))
	expect(t, `local t = {} local i = 1 i, t[i] = i + 1, 20 return {i, t[1], t[2] == nil}`, ints(2, 20, 1))
	expect(t, `local a, a = 1, 2 return a`, resp.Int(2)) // two distinct locals, the later one is visible
	expectUnsupported(t, `local a a, a = 1, 2 return a`) // order of assignment is undefined
	expectUnsupported(t, `local t = {} t.x, t["x"] = 1, 2 return t.x`)
	expect(t, `local t, u = {}, {} t.x, u.x = 1, 2 return {t.x, u.x}`, ints(1, 2))
	expect(t, `local t = {} t[1.0] = "a" return t[1]`, resp.Bulk("a"))
	expect(t, `local t = {} t[1] = "a" t["1"] = "b" return {t[1], t["1"]}`, bulks("a", "b"))
	expect(t, `local t = {} t[true] = 1 t[false] = 2 return {t[true], t[false]}`, ints(1, 2))
	expect(t, `local t = {} t[1.5] = 1 t[-1] = 2 t[0] = 3 return {t[1.5], t[-1], t[0]}`, ints(1, 2, 3))
	expect(t, `local k = {} local t = {} t[k] = 7 return t[k]`, resp.Int(7))
	expect(t, `local t = {x=1} t.x = nil return t.x == nil`, resp.Int(1))
	expectErr(t, `local t = {} t[nil] = 1`, "table index is nil")
	expectErr(t, `local t = {} t[0/0] = 1`, "table index is NaN")
	expect(t, `local t = {} return t[nil] == nil`, resp.Int(1))
	expect(t, `local t = {} return t[0/0] == nil`, resp.Int(1))
	// numeric for
	expect(t, `local s = 0 for i = 1, 10 do s = s + i end return s`, resp.Int(55))
	expect(t, `local t = {} for i = 1, 10, 3 do t[#t+1] = i end return t`, ints(1, 4, 7, 10))
	expect(t, `local t = {} for i = 10, 1, -4 do t[#t+1] = i end return t`, ints(10, 6, 2))
	expect(t, `local t = {} for i = 3, 1, -1 do t[#t+1] = i end return t`, ints(3, 2, 1))
	expect(t, `local t = {} for i = 1, 0 do t[#t+1] = i end return #t`, resp.Int(0))
	expect(t, `local t = {} for i = 1, 3, -1 do t[#t+1] = i end return #t`, resp.Int(0))
	expect(t, `local t = {} for i = 1, 2, 0.5 do t[#t+1] = i * 10 end return t`, ints(10, 15, 20))
	expect(t, `local t = {} for i = "1", "3" do t[#t+1] = i end return t`, ints(1, 2, 3))
	expect(t, `local n = 3 local t = {} for i = 1, n do n = 0 t[#t+1] = i end return t`, ints(1, 2, 3))  // limit evaluated once
	expect(t, `local t = {} for i = 1, 3 do local j = i i = 10 t[#t+1] = j end return t`, ints(1, 2, 3)) // the loop variable is a copy
	expect(t, `local i = 99 for i = 1, 2 do end return i`, resp.Int(99))
	expect(t, `for i = 1, 10 do if i == 4 then return i end end`, resp.Int(4))
	expect(t, `local s = 0 for i = 1, 10 do if i > 3 then break end s = s + i end return s`, resp.Int(6))
	expect(t, `local s = 0 for i = 1, 3 do for j = 1, 3 do if j == 2 then break end s = s + 1 end end return s`, resp.Int(3))
	expectErr(t, `for i = "x", 2 do end`, "'for' initial value must be a number")
	expectErr(t, `for i = 1, nil do end`, "'for' limit must be a number")
	expectErr(t, `for i = 1, 2, {} do end`, "'for' step must be a number")
	// generic for
	expect(t, `local t = {} for i, v in ipairs({"a", "b", "c"}) do t[#t+1] = i .. v end return t`, bulks("1a", "2b", "3c"))
	expect(t, `local n = 0 for i, v in ipairs({1, 2, nil, 4}) do n = n + 1 end return n`, resp.Int(2))
	expect(t, `local n = 0 for i, v in ipairs({}) do n = n + 1 end return n`, resp.Int(0))
	expect(t, `local t = {} for k, v in pairs({10, 20, x = 1, y = 2}) do t[#t+1] = k .. "=" .. v end return t`, bulks("1=10", "2=20", "x=1", "y=2"))
	expect(t, `local n = 0 for k in pairs({}) do n = n + 1 end return n`, resp.Int(0))
	expect(t, `local n = 0 for _ in pairs({a = 1, b = 2, 3}) do n = n + 1 end return n`, resp.Int(3))
	expect(t, `local s = 0 for _, v in pairs({a = 1, b = 2, 3}) do s = s + v end return s`, resp.Int(6))
	expect(t, `for k, v in pairs({5, 6, 7}) do if v == 6 then return k end end`, resp.Int(2))
	expect(t, `for k, v in next, {5} do return v end`, resp.Int(5))
	expect(t, `local function iter(s, c) if c < s then return c + 1 end end local t = {} for i in iter, 3, 0 do t[#t+1] = i end return t`, ints(1, 2, 3))
	// clearing fields while traversing is allowed
	expect(t, `local t = {1, 2, 3, a = 1, b = 2} for k in pairs(t) do t[k] = nil end return next(t) == nil`, resp.Int(1))
	expectErr(t, `for k in pairs(nil) do end`, "bad argument #1 to 'pairs' (table expected, got nil)")
	expectErr(t, `for i in ipairs("x") do end`, "bad argument #1 to 'ipairs' (table expected, got string)")
	expectErr(t, `for i in 5 do end`, "attempt to call a number value")
	// while / repeat
	expect(t, `local i, s = 0, 0 while i < 5 do i = i + 1 s = s + i end return s`, resp.Int(15))
	expect(t, `local i = 0 while true do i = i + 1 if i == 7 then break end end return i`, resp.Int(7))
	expect(t, `local i = 0 while false do i = 1 end return i`, resp.Int(0))
	expect(t, `local i = 0 while i < 10 do i = i + 1 if i == 3 then return "early" end end return "late"`, resp.Bulk("early"))
	expect(t, `local i = 0 repeat i = i + 1 until i >= 3 return i`, resp.Int(3))
	expect(t, `local i = 0 repeat i = i + 1 until true return i`, resp.Int(1))                     // body runs at least once
	expect(t, `local i = 0 repeat local done = i == 2 i = i + 1 until done return i`, resp.Int(3)) // until sees body locals
	expect(t, `local i = 0 repeat i = i + 1 if i == 2 then break end until false return i`, resp.Int(2))
	// if / elseif / else
	pick := `local x = tonumber(ARGV[1]) if x < 0 then return "neg" elseif x == 0 then return "zero" elseif x < 10 then return "small" else return "big" end`
	for arg, want := range map[string]string{"-5": "neg", "0": "zero", "7": "small", "70": "big"} {
		got := mustRun(t, pick, nil, []string{arg}, nil)
		if !resp.Equal(got, resp.Bulk(want)) {
			t.Errorf("pick(%s) = %v, want %s", arg, got, want)
		}
	}
	expect(t, `if false then return 1 end return 2`, resp.Int(2))
	expect(t, `if nil then return 1 elseif false then return 2 end`, resp.Null())
	expect(t, `local x if true then x = 1 else x = 2 end return x`, resp.Int(1))
	// do blocks, semicolons, return forms
	expect(t, `do return 5 end`, resp.Int(5))
	expect(t, `local x = 1; local y = 2; return x + y;`, resp.Int(3))
	expect(t, `do local a = 1 do local b = 2 return a + b end end`, resp.Int(3))
	expect(t, `if true then return end return 1`, resp.Null())
	expectSyntax(t, `return 1 return 2`)                   // return must end its block
	expectSyntax(t, `break`)                               // no loop to break
	expectSyntax(t, `while true do break local x = 1 end`) // break must end its block
	expectSyntax(t, `local x = function() break end`)
}

func TestFunctions(t *testing.T) {
	expect(t, `local function add(a, b) return a + b end return add(2, 3)`, resp.Int(5))
	expect(t, `local add = function(a, b) return a + b end return add(2, 3)`, resp.Int(5))
	expect(t, `local function f(a, b) return b == nil end return f(1)`, resp.Int(1)) // missing args are nil
	expect(t, `local function f(a) return a end return f(1, 2, 3)`, resp.Int(1))     // extra args dropped
	expect(t, `local function f() end return f() == nil`, resp.Int(1))               // no return value
	expect(t, `local function f() return end local t = {f()} return #t`, resp.Int(0))
	expect(t, `local function fact(n) if n <= 1 then return 1 end return n * fact(n - 1) end return fact(10)`, resp.Int(3628800))
	expect(t, `local function fib(n) if n < 2 then return n end return fib(n-1) + fib(n-2) end return fib(15)`, resp.Int(610))
	expect(t, `local isodd local function iseven(n) if n == 0 then return true end return isodd(n - 1) end isodd = function(n) if n == 0 then return false end return iseven(n - 1) end return iseven(10)`, resp.Int(1))
	// closures: shared and independent upvalues
	expect(t, `local function counter() local n = 0 return function() n = n + 1 return n end end local a, b = counter(), counter() a() a() return {a(), b()}`, ints(3, 1))
	expect(t, `local n = 0 local function inc() n = n + 1 end inc() inc() return n`, resp.Int(2))
	expect(t, `local fs = {} for i = 1, 3 do fs[i] = function() return i end end return {fs[1](), fs[2](), fs[3]()}`, ints(1, 2, 3)) // fresh variable per iteration
	expect(t, `local fs = {} for _, v in ipairs({5, 6}) do fs[#fs+1] = function() return v end end return {fs[1](), fs[2]()}`, ints(5, 6))
	expect(t, `local fs = {} local i = 0 while i < 2 do i = i + 1 local j = i fs[i] = function() j = j + 10 return j end end return {fs[1](), fs[1](), fs[2]()}`, ints(11, 21, 12))
	expect(t, `local function outer() local x = 1 local function mid() local function inner() x = x + 1 return x end return inner end return mid() end return outer()()`, resp.Int(2)) // upvalue through two levels
	expect(t, `local get, set do local v = 1 get = function() return v end set = function(x) v = x end end set(9) return get()`, resp.Int(9))
	// multiple results and adjustment
	expect(t, `local function f() return 1, 2, 3 end return {f()}`, ints(1, 2, 3))
	expect(t, `local function f() return 1, 2, 3 end return {f(), f()}`, ints(1, 1, 2, 3))
	expect(t, `local function f() return 1, 2, 3 end return {f(), 10}`, ints(1, 10))
	expect(t, `local function f() return 1, 2, 3 end return {(f())}`, ints(1))
	expect(t, `local function f() return 1, 2 end local function g(...) return select("#", ...) end return g(f(), f())`, resp.Int(3))
	expect(t, `local function f() return 1, 2 end return f() + 10`, resp.Int(11))
	expect(t, `local function f() return 1, 2 end local function g() return f() end return {g()}`, ints(1, 2))
	// functions in tables, methods
	expect(t, `local t = {} t.f = function(x) return x * 2 end return t.f(4)`, resp.Int(8))
	expect(t, `local t = {f = function(self, x) return self.k + x end, k = 10} return t:f(5)`, resp.Int(15))
	expect(t, `local t = {k = 1} function t.get(x) return x end function t:inc(d) self.k = self.k + d return self.k end return {t.get(7), t:inc(4)}`, ints(7, 5))
	expect(t, `local t = {a = {}} function t.a.f() return 3 end return t.a.f()`, resp.Int(3))
	// call syntaxes with string and table literals
	expect(t, `local function f(x) return x end return f"lit"`, resp.Bulk("lit"))
	expect(t, `local function f(x) return x[1] end return f{42}`, resp.Int(42))
	expect(t, `return type{}`, resp.Bulk("table"))
	expect(t, `return ("x"):rep(3)`, resp.Bulk("xxx"))
	// varargs
	expect(t, `local function f(...) return ... end return {f(1, 2, 3)}`, ints(1, 2, 3))
	expect(t, `local function f(...) local a, b = ... return {a, b} end return f(1, 2, 3)`, ints(1, 2))
	expect(t, `local function f(...) return select("#", ...) end return {f(), f(nil), f(nil, nil), f(1, 2, 3)}`, ints(0, 1, 2, 3))
	expect(t, `local function f(a, ...) return {a, ...} end return f(1, 2, 3)`, ints(1, 2, 3))
	expect(t, `local function f(...) return {..., 10} end return f(1, 2, 3)`, ints(1, 10))
	expect(t, `local function f(...) return (...) end return {f(1, 2)}`, ints(1))
	expect(t, `local function f(...) local t = {...} return #t end return f("a", "b")`, resp.Int(2))
	expect(t, `local function sum(...) local s = 0 for _, v in ipairs({...}) do s = s + v end return s end return sum(1, 2, 3, 4)`, resp.Int(10))
	expect(t, `return select("#", ...)`, resp.Int(0)) // the chunk itself is vararg and gets nothing
	expect(t, `return select(2, "a", "b", "c")`, resp.Bulk("b"))
	expect(t, `return {select(2, "a", "b", "c")}`, bulks("b", "c"))
	expect(t, `return {select(-1, "a", "b", "c")}`, bulks("c"))
	expect(t, `return {select(-2, "a", "b", "c")}`, bulks("b", "c"))
	expect(t, `return #{select(4, "a", "b", "c")}`, resp.Int(0))
	expect(t, `return #{select(9, "a", "b", "c")}`, resp.Int(0))
	expectErr(t, `return select(0, "a")`, "bad argument #1 to 'select' (index out of range)")
	expectErr(t, `return select(-5, "a")`, "bad argument #1 to 'select' (index out of range)")
	expectSyntax(t, `local function f() return ... end`)
	expectUnsupported(t, `local function f(...) return arg end return f(1)`)
	expectUnsupported(t, `local function f(...) return arg.n end return f(1)`)
	expect(t, `local function f(...) local arg = 5 return arg end return f(1)`, resp.Int(5))
	// calling non-functions
	expectErr(t, `local x x()`, "attempt to call local 'x' (a nil value)")
	expectErr(t, `local t = {} t.f()`, "attempt to call field 'f' (a nil value)")
	expectErr(t, `local t = {} t:f()`, "attempt to call method 'f' (a nil value)")
	expectErr(t, `("x")()`, "attempt to call")
	expectErr(t, `local n = 5 n.x()`, "attempt to index local 'n' (a number value)")
	expectErr(t, `local n n:f()`, "attempt to index a nil value")
	// global functions cannot be defined in Redis
	expectErr(t, `function foo() end`, "Script attempted to create global variable 'foo'")
	// deep but legitimate recursion works; runaway recursion is reported as unsupported
	expect(t, `local function d(n) if n == 0 then return 0 end return 1 + d(n - 1) end return d(3000)`, resp.Int(3000))
	expectUnsupported(t, `local function d(n) return 1 + d(n + 1) end return d(0)`)
}

func TestLiteralsAndComments(t *testing.T) {
	expect(t, `return 'single'`, resp.Bulk("single"))
	expect(t, `return "double"`, resp.Bulk("double"))
	expect(t, `return "it's"`, resp.Bulk("it's"))
	expect(t, `return 'say "hi"'`, resp.Bulk(`say "hi"`))
	expect(t, `return "a\nb\rc\td\\e\"f\'g"`, resp.Bulk("a\nb\rc\td\\e\"f'g"))
	expect(t, `return '\a\b\f\v'`, resp.Bulk("\a\b\f\v"))
	expect(t, `return "\65\066\0679"`, resp.Bulk("ABC9")) // \ddd takes at most three digits
	expect(t, `return "\0"`, resp.Bulk("\x00"))
	expect(t, `return "\255"`, resp.Bulk("\xff"))
	expect(t, "return \"line1\\\nline2\"", resp.Bulk("line1\nline2")) // backslash-newline
	expect(t, `return "\q"`, resp.Bulk("q"))                          // unknown escapes keep the character
	expect(t, `return [[long]]`, resp.Bulk("long"))
	expect(t, "return [[\nfirst newline skipped]]", resp.Bulk("first newline skipped"))
	expect(t, "return [[a\nb]]", resp.Bulk("a\nb"))
	expect(t, "return [[a\r\nb]]", resp.Bulk("a\nb"))
	expect(t, `return [[no \n escapes]]`, resp.Bulk(`no \n escapes`))
	expect(t, `return [==[with ]] and ]=] inside]==]`, resp.Bulk("with ]] and ]=] inside"))
	expect(t, `return [=[x]=]`, resp.Bulk("x"))
	expect(t, `return #[[]]`, resp.Int(0))
	expect(t, `return 0xA`, resp.Int(10))
	expect(t, `return 0Xff`, resp.Int(255))
	expect(t, `return 1e3`, resp.Int(1000))
	expect(t, `return 1E3`, resp.Int(1000))
	expect(t, `return 2.5e1`, resp.Int(25))
	expect(t, `return 5e-1 * 4`, resp.Int(2))
	expect(t, `return 1e+2`, resp.Int(100))
	expect(t, `return 007`, resp.Int(7))
	expect(t, "-- just a comment", resp.Null())
	expect(t, "-- comment\nreturn 1 -- trailing", resp.Int(1))
	expect(t, "--[[ block\ncomment ]] return 2", resp.Int(2))
	expect(t, "--[==[ block ]] still ]==] return 3", resp.Int(3))
	expect(t, "return 4 --[[ unfinished is fine on one line? no: ]]", resp.Int(4))
	expect(t, "--[ not a block comment\nreturn 5", resp.Int(5))
	expect(t, "return 1--[[x]]+--[[y]]2", resp.Int(3))
	expect(t, "local a=1;local b=2\r\nreturn a+b", resp.Int(3))
	expectSyntax(t, `return "unfinished`)
	expectSyntax(t, "return \"new\nline\"")
	expectSyntax(t, `return [[unfinished`)
	expectSyntax(t, `--[[ unfinished comment`)
	expectSyntax(t, `return "\300"`)
	expectSyntax(t, `return 3x`)
	expectSyntax(t, `return 1..2`)
	expectSyntax(t, `return 0x`)
	expectSyntax(t, `return 1e`)
	expectSyntax(t, `return @`)
	expectSyntax(t, `return [[a[[b]]`) // nesting of [[ is rejected by Lua 5.1
	expectSyntax(t, `x = = 1`)
	expectSyntax(t, `local 1 = 2`)
	expectSyntax(t, `return (1`)
	expectSyntax(t, `if true then`)
	expectSyntax(t, `for i = 1 do end`)
	expectSyntax(t, `f(`)
	expectSyntax(t, `local t = {1, 2`)
	expectSyntax(t, `1 + 1`)
	expectSyntax(t, `local x = 1 x`)
	expectSyntax(t, `(f)() = 1`)
	expectSyntax(t, `goto done`)
	expectSyntax(t, `return 1 // 2`)
	expectSyntax(t, `return 1 & 2`)
	expectSyntax(t, "local f = tostring\n(f)(1)") // ambiguous syntax
	expectUnsupported(t, "#!lua name=mylib\nreturn 1")
}

func TestTableConstructors(t *testing.T) {
	expect(t, `local t = {a = 1, ["b"] = 2, [1 + 2] = "x", "p", "q"} return {t.a, t.b, t[3], t[1], t[2]}`,
		resp.Arr(resp.Int(1), resp.Int(2), resp.Bulk("x"), resp.Bulk("p"), resp.Bulk("q")))
	expect(t, `return {1, 2, 3,}`, ints(1, 2, 3)) // trailing comma
	expect(t, `return {1; 2; 3;}`, ints(1, 2, 3)) // semicolons
	expect(t, `return {{1, 2}, {3}}`, resp.Arr(ints(1, 2), ints(3)))
	expect(t, `local t = {x = {y = {z = "deep"}}} return t.x.y.z`, resp.Bulk("deep"))
	expect(t, `local x = 5 local t = {x = x, [x] = "five"} return {t.x, t[5]}`, resp.Arr(resp.Int(5), resp.Bulk("five")))
	expect(t, `local t = {[1] = "a", "b"} return t[1]`, resp.Bulk("b")) // positional items are stored last
	expect(t, `local t = {"b", [1] = "a"} return t[1]`, resp.Bulk("b"))
	expect(t, `local k = "key" return ({[k .. "1"] = 7}).key1`, resp.Int(7))
	expect(t, `return #{n = nil}`, resp.Int(0))
	expectErr(t, `return {[nil] = 1}`, "table index is nil")
	expect(t, `return {unpack({1, 2, 3})}`, ints(1, 2, 3))
	expect(t, `return {unpack({1, 2, 3}), 9}`, ints(1, 9))
	expect(t, `return {0, unpack({1, 2, 3})}`, ints(0, 1, 2, 3))
	// more than one flush batch (50 items per batch in the reference compiler)
	var sb strings.Builder
	want := make([]int64, 120)
	for i := range want {
		want[i] = int64(i + 1)
		sb.WriteString(strings.Repeat(" ", i%2))
		sb.WriteString(string(rune('0'+(i+1)/100)) + string(rune('0'+(i+1)/10%10)) + string(rune('0'+(i+1)%10)) + ",")
	}
	expect(t, `return {`+sb.String()+`}`, ints(want...))
}

func TestGlobals(t *testing.T) {
	expectErr(t, `return foo`, "Script attempted to access nonexistent global variable 'foo'")
	expectErr(t, `local x = undefinedfn()`, "nonexistent global variable 'undefinedfn'")
	expectErr(t, `foo = 1`, "Script attempted to create global variable 'foo'")
	expectErr(t, `local function f() y = 2 end f()`, "Script attempted to create global variable 'y'")
	expect(t, `return {KEYS[1] == nil, ARGV[1] == nil, #KEYS, #ARGV}`, ints(1, 1, 0, 0))
	got := mustRun(t, `return {KEYS[1], KEYS[2], ARGV[1], ARGV[2], ARGV[3], #KEYS, #ARGV, KEYS[3] == nil, KEYS[0] == nil}`,
		[]string{"k1", "k2"}, []string{"a1", "", "a3"}, nil)
	want := resp.Arr(resp.Bulk("k1"), resp.Bulk("k2"), resp.Bulk("a1"), resp.Bulk(""), resp.Bulk("a3"), resp.Int(2), resp.Int(3), resp.Int(1), resp.Int(1))
	if !resp.Equal(got, want) {
		t.Errorf("KEYS/ARGV: got %v want %v", got, want)
	}
	// ARGV elements are strings, never numbers
	got = mustRun(t, `return {type(ARGV[1]), ARGV[1] == 5, ARGV[1] == "5", ARGV[1] + 1}`, nil, []string{"5"}, nil)
	if !resp.Equal(got, resp.Arr(resp.Bulk("string"), resp.Null(), resp.Int(1), resp.Int(6))) {
		t.Errorf("ARGV typing: got %v", got)
	}
	// ARGV and KEYS are ordinary mutable tables, fresh for every run of a compiled program
	p, err := Compile(`ARGV[1] = ARGV[1] .. "!" table.insert(KEYS, "x") return {ARGV[1], #KEYS}`)
	if err != nil {
		t.Fatal(err)
	}
	for i := 0; i < 3; i++ {
		got, err := p.Run([]string{"k"}, []string{"v"}, nil)
		if err != nil || !resp.Equal(got, resp.Arr(resp.Bulk("v!"), resp.Int(2))) {
			t.Errorf("run %d: got %v, %v", i, got, err)
		}
	}
	// things that exist in Redis but are outside the subset
	for _, s := range []string{
		`return cjson.encode({1})`, `return cjson.decode("[1]")`, `return cmsgpack.pack(1)`,
		`return struct.pack("I", 1)`, `return bit.band(1, 3)`,
		`redis.setresp(3)`, `redis.replicate_commands()`, `return redis.REDIS_VERSION`,
		`return setmetatable({}, {})`, `return getmetatable("")`, `return rawget({}, 1)`, `return _G`,
		`return loadstring("return 1")()`, `return xpcall(f, g)`, `print("x")`, `return os.time()`,
		`return string.gsub("a", "a", "b")`, `return string.match("a", "a")`, `return ("x"):gmatch(".")`,
		`return string.find("abc", "b+")`, `return string.find("a.c", ".")`,
		`return string.format("%5d", 1)`, `return string.format("%q", "x")`, `return string.format("%i", 1)`,
		`return string.format("%5.2f", 1)`, `return string.format("%.f", 1)`, `return string.format("%e", 1)`,
		`return table.sort({2, 1})`, `return table.maxn({})`, `return math.random()`, `return math.sin(1)`,
		`return tonumber("ff", 16)`, `return tonumber("10", 2)`,
		`KEYS = {}`, `ARGV = nil`, `tostring = nil`, `string.x = 1`, `redis.call = nil`, `math.pi = 3`,
	} {
		expectUnsupported(t, s)
	}
	if _, err := Run(`return 1`, nil, nil, nil); err != nil {
		t.Errorf("nil callback must be fine when unused: %v", err)
	}
	if _, err := Run(`return redis.call("PING")`, nil, nil, nil); !errors.Is(err, ErrUnsupported) {
		t.Errorf("redis.call with a nil callback: %v", err)
	}
}

func TestRuntimeErrorsDoNotPanic(t *testing.T) {
	expectErr(t, `local t return t.x`, "attempt to index local 't' (a nil value)")
	expectErr(t, `local t = {} return t.a.b`, "attempt to index field 'a' (a nil value)")
	expectErr(t, `return ARGV[1].x`, "attempt to index field '?' (a nil value)")
	expectErr(t, `local t t.x = 1`, "attempt to index a nil value")
	expectErr(t, `local n = 1 n.x = 1`, "attempt to index a number value")
	expectErr(t, `local b = true return b[1]`, "attempt to index local 'b' (a boolean value)")
	expectErr(t, `return (1)()`, "attempt to call")
	expectErr(t, `return nil .. "x"`, "attempt to concatenate a nil value")
	expectErr(t, `return {} + 1`, "attempt to perform arithmetic on a table value")
	expectErr(t, `return 1 < {}`, "attempt to compare number with table")
	expectErr(t, `return math.floor("x")`, "bad argument #1 to 'floor' (number expected, got string)")
	expectErr(t, `return math.floor()`, "bad argument #1 to 'floor' (number expected, got no value)")
	expectErr(t, `return ("x"):rep()`, "bad argument #2 to 'rep' (number expected, got no value)")
	expectErr(t, `return string.rep()`, "bad argument #1 to 'rep' (string expected, got no value)")
	expectErr(t, `return #ARGV[1]`, "attempt to get length of field '?' (a nil value)")
	expectErr(t, `return unpack(nil)`, "bad argument #1 to 'unpack' (table expected, got nil)")
	expectErr(t, `table.insert(nil, 1)`, "bad argument #1 to 'insert' (table expected, got nil)")
	// runtime errors start with ERR and carry no Go error
	v, err := Run(`return nil + 1`, nil, nil, nil)
	if err != nil || v.T != '-' || !strings.HasPrefix(v.S, "ERR ") {
		t.Errorf("got (%v, %v)", v, err)
	}
	// an error stops the script: later commands are not issued
	var calls int
	v = mustRun(t, `redis.call("A") local x = nil + 1 redis.call("B")`, nil, nil, func([]string) resp.Value { calls++; return resp.OK() })
	if v.T != '-' || calls != 1 {
		t.Errorf("got %v after %d calls", v, calls)
	}
	// a panicking callback is contained
	if _, err := Run(`return redis.call("X")`, nil, nil, func([]string) resp.Value { panic("boom") }); !errors.Is(err, ErrUnsupported) {
		t.Errorf("panicking callback: %v", err)
	}
}

func TestBudget(t *testing.T) {
	for _, s := range []string{
		`while true do end`,
		`repeat until false`,
		`for i = 1, math.huge do end`,
		`for i = 10, 1, 0 do end`,               // a zero step is treated like a negative one by the 5.1 VM
		`local function f() return f() end f()`, // 5.1 tail calls never overflow; the budget stops it
		`while true do pcall(error, "x") end`,   // pcall cannot swallow the budget
	} {
		v, err := Run(s, nil, nil, nil)
		if !errors.Is(err, ErrUnsupported) {
			t.Errorf("%s: got (%v, %v), want ErrUnsupported", s, v, err)
		}
	}
	_, err := Run(`while true do end`, nil, nil, nil)
	if err == nil || !strings.Contains(err.Error(), "budget exceeded") {
		t.Errorf("error should mention the budget: %v", err)
	}
	expect(t, `local n = 0 for i = 1, 10, 0 do n = n + 1 end return n`, resp.Int(0))
	// a long but finite loop fits the budget
	expect(t, `local s = 0 for i = 1, 1000000 do s = s + i end return s`, resp.Int(500000500000))
}
