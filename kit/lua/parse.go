package lua

import "strings"

type localVar struct {
	name string
	slot int
}

type funcState struct {
	parent     *funcState
	proto      *funcProto
	actives    []localVar
	upvalNames []string
	loopDepth  int
}

type parser struct {
	lx       lexer
	tok      token
	lastLine int
	fs       *funcState
	depth    int
}

const (
	// maxSyntaxDepth bounds syntactic nesting (real Lua's limit is 200 levels).
	maxSyntaxDepth = 150
	// maxChain bounds left-deep expression trees (a+b+c+..., f()()()...), which are parsed
	// iteratively but evaluated recursively.
	maxChain = 4000
)

func parseChunk(src string) *funcProto {
	if strings.HasPrefix(src, "#!") {
		unsupported("shebang line (script flags)")
	}
	p := &parser{lx: lexer{src: src, line: 1}}
	p.advance()
	fs := &funcState{proto: &funcProto{isVararg: true, line: 0}}
	p.fs = fs
	fs.proto.body = p.block()
	if p.tok.kind != tEOF {
		p.fail("'<eof>' expected near " + p.tokText())
	}
	return fs.proto
}

func (p *parser) fail(msg string) { panic(&syntaxError{line: p.tok.line, msg: msg}) }

func (p *parser) tokText() string {
	switch p.tok.kind {
	case tEOF:
		return "'<eof>'"
	case tNumber:
		return "'" + fmtNumberSafe(p.tok.n) + "'"
	}
	return "'" + p.tok.s + "'"
}

func (p *parser) advance() {
	p.lastLine = p.tok.line
	p.tok = p.lx.next()
}

func (p *parser) lookahead() token {
	cp := p.lx
	return cp.next()
}

func (p *parser) isOp(s string) bool { return p.tok.kind == tOp && p.tok.s == s }
func (p *parser) isKw(s string) bool { return p.tok.kind == tKeyword && p.tok.s == s }

func (p *parser) acceptOp(s string) bool {
	if p.isOp(s) {
		p.advance()
		return true
	}
	return false
}

func (p *parser) acceptKw(s string) bool {
	if p.isKw(s) {
		p.advance()
		return true
	}
	return false
}

func (p *parser) expectOp(s string) {
	if !p.acceptOp(s) {
		p.fail("'" + s + "' expected near " + p.tokText())
	}
}

func (p *parser) expectKw(s string) {
	if !p.acceptKw(s) {
		p.fail("'" + s + "' expected near " + p.tokText())
	}
}

func (p *parser) expectName() string {
	if p.tok.kind != tName {
		p.fail("<name> expected near " + p.tokText())
	}
	s := p.tok.s
	p.advance()
	return s
}

func (p *parser) enter() {
	p.depth++
	if p.depth > maxSyntaxDepth {
		unsupported("syntax nesting deeper than the interpreter's limit")
	}
}
func (p *parser) leave() { p.depth-- }

// ---- scopes ----

func (p *parser) declare(name string) int {
	fs := p.fs
	if len(fs.actives) >= 200 {
		p.fail("too many local variables")
	}
	slot := fs.proto.nslots
	fs.proto.nslots++
	fs.actives = append(fs.actives, localVar{name: name, slot: slot})
	return slot
}

func (p *parser) openScope() int   { return len(p.fs.actives) }
func (p *parser) closeScope(m int) { p.fs.actives = p.fs.actives[:m] }

// implicitArgSlot marks the implicit "arg" local of vararg functions, whose contents depend on
// compile-time details of the reference implementation; any use of it is unsupported.
const implicitArgSlot = -1

func findLocal(fs *funcState, name string) (int, bool) {
	for i := len(fs.actives) - 1; i >= 0; i-- {
		if fs.actives[i].name == name {
			if fs.actives[i].slot == implicitArgSlot {
				unsupported("the implicit 'arg' table of vararg functions")
			}
			return fs.actives[i].slot, true
		}
	}
	return 0, false
}

func (p *parser) findUpval(fs *funcState, name string) (int, bool) {
	for i, n := range fs.upvalNames {
		if n == name {
			return i, true
		}
	}
	if fs.parent == nil {
		return 0, false
	}
	var d upvalDesc
	if slot, ok := findLocal(fs.parent, name); ok {
		d = upvalDesc{fromParentLocal: true, idx: slot}
	} else if idx, ok := p.findUpval(fs.parent, name); ok {
		d = upvalDesc{fromParentLocal: false, idx: idx}
	} else {
		return 0, false
	}
	if len(fs.upvalNames) >= 60 {
		p.fail("too many upvalues")
	}
	fs.upvalNames = append(fs.upvalNames, name)
	fs.proto.upvals = append(fs.proto.upvals, d)
	return len(fs.upvalNames) - 1, true
}

func (p *parser) resolve(name string, line int) expr {
	if slot, ok := findLocal(p.fs, name); ok {
		return &eLocal{slot: slot, name: name}
	}
	if idx, ok := p.findUpval(p.fs, name); ok {
		return &eUpval{idx: idx, name: name}
	}
	return &eGlobal{name: name, line: line}
}

// ---- statements ----

func (p *parser) blockEnd() bool {
	if p.tok.kind == tEOF {
		return true
	}
	if p.tok.kind == tKeyword {
		switch p.tok.s {
		case "else", "elseif", "end", "until":
			return true
		}
	}
	return false
}

// block parses statements up to a block terminator. It does not open a scope.
func (p *parser) block() []stmt {
	p.enter()
	defer p.leave()
	out := []stmt{}
	for !p.blockEnd() {
		st, last := p.statement()
		if st != nil {
			out = append(out, st)
		}
		p.acceptOp(";")
		if last {
			break
		}
	}
	return out
}

func (p *parser) scopedBlock() []stmt {
	m := p.openScope()
	b := p.block()
	p.closeScope(m)
	return b
}

func (p *parser) statement() (stmt, bool) {
	line := p.tok.line
	if p.tok.kind == tKeyword {
		switch p.tok.s {
		case "if":
			return p.ifStat(line), false
		case "while":
			p.advance()
			cond := p.expr()
			p.expectKw("do")
			p.fs.loopDepth++
			body := p.scopedBlock()
			p.fs.loopDepth--
			p.matchEnd("while", line)
			return &sWhile{cond: cond, body: body}, false
		case "do":
			p.advance()
			body := p.scopedBlock()
			p.matchEnd("do", line)
			return &sDo{body: body}, false
		case "for":
			return p.forStat(line), false
		case "repeat":
			p.advance()
			m := p.openScope()
			p.fs.loopDepth++
			body := p.block()
			p.fs.loopDepth--
			if !p.acceptKw("until") {
				p.fail("'until' expected near " + p.tokText())
			}
			cond := p.expr() // sees the body's locals
			p.closeScope(m)
			return &sRepeat{body: body, cond: cond}, false
		case "function":
			return p.funcStat(line), false
		case "local":
			p.advance()
			if p.acceptKw("function") {
				name := p.expectName()
				slot := p.declare(name)
				proto := p.funcBody(false, line)
				return &sLocalFunc{slot: slot, proto: proto}, false
			}
			return p.localStat(), false
		case "return":
			p.advance()
			var exprs []expr
			if !p.blockEnd() && !p.isOp(";") {
				exprs = p.exprList()
			}
			return &sReturn{exprs: exprs}, true
		case "break":
			p.advance()
			if p.fs.loopDepth == 0 {
				p.fail("no loop to break")
			}
			return &sBreak{}, true
		}
	}
	return p.exprStat(line), false
}

func (p *parser) matchEnd(what string, line int) {
	if !p.acceptKw("end") {
		if line == p.tok.line {
			p.fail("'end' expected near " + p.tokText())
		}
		p.fail("'end' expected (to close '" + what + "') near " + p.tokText())
	}
}

func (p *parser) ifStat(line int) stmt {
	st := &sIf{}
	p.advance()
	for {
		cond := p.expr()
		p.expectKw("then")
		st.conds = append(st.conds, cond)
		st.blocks = append(st.blocks, p.scopedBlock())
		if p.acceptKw("elseif") {
			continue
		}
		break
	}
	if p.acceptKw("else") {
		st.els = p.scopedBlock()
	}
	p.matchEnd("if", line)
	return st
}

func (p *parser) forStat(line int) stmt {
	p.advance()
	n1 := p.expectName()
	if p.isOp("=") {
		p.advance()
		start := p.expr()
		p.expectOp(",")
		limit := p.expr()
		var step expr
		if p.acceptOp(",") {
			step = p.expr()
		}
		p.expectKw("do")
		m := p.openScope()
		slot := p.declare(n1)
		p.fs.loopDepth++
		body := p.block()
		p.fs.loopDepth--
		p.closeScope(m)
		p.matchEnd("for", line)
		return &sNumFor{slot: slot, start: start, limit: limit, step: step, body: body, line: line}
	}
	names := []string{n1}
	for p.acceptOp(",") {
		names = append(names, p.expectName())
	}
	if !p.acceptKw("in") {
		p.fail("'=' or 'in' expected near " + p.tokText())
	}
	exprs := p.exprList()
	p.expectKw("do")
	m := p.openScope()
	slots := make([]int, len(names))
	for i, n := range names {
		slots[i] = p.declare(n)
	}
	p.fs.loopDepth++
	body := p.block()
	p.fs.loopDepth--
	p.closeScope(m)
	p.matchEnd("for", line)
	return &sGenFor{slots: slots, exprs: exprs, body: body, line: line}
}

func (p *parser) funcStat(line int) stmt {
	p.advance()
	nline := p.tok.line
	name := p.expectName()
	var target expr = p.resolve(name, nline)
	method := false
	for p.isOp(".") || p.isOp(":") {
		isColon := p.isOp(":")
		p.advance()
		kline := p.tok.line
		key := p.expectName()
		target = &eIndex{obj: target, key: &eString{v: key}, line: kline}
		if isColon {
			method = true
			break
		}
	}
	proto := p.funcBody(method, line)
	return &sAssign{targets: []expr{target}, exprs: []expr{&eFunc{proto: proto}}, line: line}
}

func (p *parser) localStat() stmt {
	names := []string{p.expectName()}
	for p.acceptOp(",") {
		names = append(names, p.expectName())
	}
	var exprs []expr
	if p.acceptOp("=") {
		exprs = p.exprList()
	}
	st := &sLocal{exprs: exprs}
	for _, n := range names {
		st.slots = append(st.slots, p.declare(n))
	}
	return st
}

func (p *parser) exprStat(line int) stmt {
	e := p.primaryExpr()
	if p.isOp("=") || p.isOp(",") {
		targets := []expr{e}
		for p.acceptOp(",") {
			targets = append(targets, p.primaryExpr())
		}
		for _, t := range targets {
			switch t.(type) {
			case *eLocal, *eUpval, *eGlobal, *eIndex:
			default:
				p.fail("syntax error near " + p.tokText())
			}
		}
		p.expectOp("=")
		exprs := p.exprList()
		return &sAssign{targets: targets, exprs: exprs, line: line}
	}
	switch e.(type) {
	case *eCall, *eMethod:
		return &sCall{call: e}
	}
	p.fail("syntax error near " + p.tokText())
	return nil
}

// funcBody parses "(params) block end" and returns the prototype.
func (p *parser) funcBody(method bool, line int) *funcProto {
	p.enter()
	defer p.leave()
	fs := &funcState{parent: p.fs, proto: &funcProto{line: line}}
	p.fs = fs
	if method {
		p.declare("self")
		fs.proto.nparams++
	}
	p.expectOp("(")
	if !p.isOp(")") {
		for {
			if p.acceptOp("...") {
				fs.proto.isVararg = true
				// Lua 5.1 (LUA_COMPAT_VARARG) declares an implicit local "arg" here.
				fs.actives = append(fs.actives, localVar{name: "arg", slot: implicitArgSlot})
				break
			}
			p.declare(p.expectName())
			fs.proto.nparams++
			if !p.acceptOp(",") {
				break
			}
		}
	}
	p.expectOp(")")
	fs.proto.body = p.block()
	p.matchEnd("function", line)
	p.fs = fs.parent
	return fs.proto
}

// ---- expressions ----

func (p *parser) exprList() []expr {
	out := []expr{p.expr()}
	for p.acceptOp(",") {
		out = append(out, p.expr())
	}
	return out
}

type prio struct{ left, right int }

var binPrio = map[string]prio{
	"+": {6, 6}, "-": {6, 6}, "*": {7, 7}, "/": {7, 7}, "%": {7, 7},
	"^": {10, 9}, "..": {5, 4},
	"==": {3, 3}, "~=": {3, 3}, "<": {3, 3}, "<=": {3, 3}, ">": {3, 3}, ">=": {3, 3},
	"and": {2, 2}, "or": {1, 1},
}

const unaryPrio = 8

func (p *parser) expr() expr { return p.subExpr(0) }

func (p *parser) binOp() (string, bool) {
	if p.tok.kind == tOp {
		if _, ok := binPrio[p.tok.s]; ok {
			return p.tok.s, true
		}
	}
	if p.tok.kind == tKeyword && (p.tok.s == "and" || p.tok.s == "or") {
		return p.tok.s, true
	}
	return "", false
}

func (p *parser) subExpr(limit int) expr {
	p.enter()
	defer p.leave()
	var left expr
	line := p.tok.line
	switch {
	case p.isKw("not"):
		p.advance()
		left = &eUnop{op: "not", a: p.subExpr(unaryPrio), line: line}
	case p.isOp("-"):
		p.advance()
		a := p.subExpr(unaryPrio)
		if n, ok := a.(*eNumber); ok {
			if n.v == 0 {
				// luac folds the constant, and whether -0 survives depends on the other
				// constants of the function (0 and -0 share a slot in the constant table).
				unsupported("negative zero literal")
			}
			left = &eNumber{v: -n.v} // constant folding, as luac does
		} else {
			left = &eUnop{op: "-", a: a, line: line}
		}
	case p.isOp("#"):
		p.advance()
		left = &eUnop{op: "#", a: p.subExpr(unaryPrio), line: line}
	default:
		left = p.simpleExpr()
	}
	for n := 0; ; n++ {
		op, ok := p.binOp()
		if !ok || binPrio[op].left <= limit {
			return left
		}
		if n > maxChain {
			unsupported("operator chain longer than the interpreter's limit")
		}
		oline := p.tok.line
		p.advance()
		right := p.subExpr(binPrio[op].right)
		switch op {
		case "and":
			left = &eAnd{a: left, b: right}
		case "or":
			left = &eOr{a: left, b: right}
		default:
			left = &eBinop{op: op, a: left, b: right, line: oline}
		}
	}
}

func (p *parser) simpleExpr() expr {
	switch p.tok.kind {
	case tNumber:
		e := &eNumber{v: p.tok.n}
		p.advance()
		return e
	case tString:
		e := &eString{v: p.tok.s}
		p.advance()
		return e
	case tKeyword:
		switch p.tok.s {
		case "nil":
			p.advance()
			return &eNil{}
		case "true":
			p.advance()
			return &eTrue{}
		case "false":
			p.advance()
			return &eFalse{}
		case "function":
			line := p.tok.line
			p.advance()
			return &eFunc{proto: p.funcBody(false, line)}
		}
	case tOp:
		switch p.tok.s {
		case "...":
			if !p.fs.proto.isVararg {
				p.fail("cannot use '...' outside a vararg function near '...'")
			}
			p.advance()
			return &eVararg{}
		case "{":
			return p.tableCons()
		}
	}
	return p.primaryExpr()
}

func (p *parser) primaryExpr() expr {
	var e expr
	line := p.tok.line
	switch {
	case p.tok.kind == tName:
		e = p.resolve(p.tok.s, line)
		p.advance()
	case p.isOp("("):
		p.advance()
		inner := p.expr()
		if !p.acceptOp(")") {
			p.fail("')' expected near " + p.tokText())
		}
		// parentheses truncate multiple results and make the expression non-assignable
		e = &eParen{e: inner}
	default:
		p.fail("unexpected symbol near " + p.tokText())
	}
	for n := 0; ; n++ {
		if n > maxChain {
			unsupported("suffix chain longer than the interpreter's limit")
		}
		line = p.tok.line
		switch {
		case p.isOp("."):
			p.advance()
			name := p.expectName()
			e = &eIndex{obj: e, key: &eString{v: name}, line: line}
		case p.isOp("["):
			p.advance()
			k := p.expr()
			p.expectOp("]")
			e = &eIndex{obj: e, key: k, line: line}
		case p.isOp(":"):
			p.advance()
			name := p.expectName()
			args := p.callArgs()
			e = &eMethod{obj: e, name: name, args: args, line: line}
		case p.isOp("("), p.isOp("{"), p.tok.kind == tString:
			args := p.callArgs()
			e = &eCall{fn: e, args: args, line: line}
		default:
			return e
		}
	}
}

func (p *parser) callArgs() []expr {
	switch {
	case p.tok.kind == tString:
		e := &eString{v: p.tok.s}
		p.advance()
		return []expr{e}
	case p.isOp("{"):
		return []expr{p.tableCons()}
	case p.isOp("("):
		if p.tok.line != p.lastLine {
			p.fail("ambiguous syntax (function call x new statement) near '('")
		}
		p.advance()
		if p.acceptOp(")") {
			return nil
		}
		args := p.exprList()
		if !p.acceptOp(")") {
			p.fail("')' expected near " + p.tokText())
		}
		return args
	}
	p.fail("function arguments expected near " + p.tokText())
	return nil
}

func (p *parser) tableCons() expr {
	p.enter()
	defer p.leave()
	line := p.tok.line
	p.expectOp("{")
	t := &eTable{}
	for !p.isOp("}") {
		switch {
		case p.tok.kind == tName:
			la := p.lookahead()
			if la.kind == tOp && la.s == "=" {
				name := p.tok.s
				p.advance()
				p.advance()
				t.items = append(t.items, tableItem{key: &eString{v: name}, val: p.expr()})
			} else {
				t.items = append(t.items, tableItem{val: p.expr()})
			}
		case p.isOp("["):
			p.advance()
			k := p.expr()
			p.expectOp("]")
			p.expectOp("=")
			t.items = append(t.items, tableItem{key: k, val: p.expr()})
		default:
			t.items = append(t.items, tableItem{val: p.expr()})
		}
		if !p.acceptOp(",") && !p.acceptOp(";") {
			break
		}
	}
	if !p.acceptOp("}") {
		if line == p.tok.line {
			p.fail("'}' expected near " + p.tokText())
		}
		p.fail("'}' expected (to close '{') near " + p.tokText())
	}
	return t
}
