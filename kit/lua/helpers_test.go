package lua

import (
	"errors"
	"strings"
	"testing"

	"verifkit/resp"
)

// mustRun runs script and fails the test on a non-nil error.
func mustRun(t *testing.T, script string, keys, argv []string, call func([]string) resp.Value) resp.Value {
	t.Helper()
	v, err := Run(script, keys, argv, call)
	if err != nil {
		t.Fatalf("script %q: unexpected error %v", script, err)
	}
	return v
}

// expect runs a script that makes no redis calls and compares its reply.
func expect(t *testing.T, script string, want resp.Value) {
	t.Helper()
	got := mustRun(t, script, nil, nil, func(a []string) resp.Value {
		t.Errorf("script %q: unexpected redis call %q", script, a)
		return resp.Null()
	})
	if !resp.Equal(got, want) {
		t.Errorf("script %q:\n got  %v\n want %v", script, got, want)
	}
}

// expectErr expects the script to fail with an error reply containing substr.
func expectErr(t *testing.T, script string, substr string) {
	t.Helper()
	got := mustRun(t, script, nil, nil, nil)
	if got.T != '-' || !strings.Contains(got.S, substr) {
		t.Errorf("script %q: got %v, want an error reply containing %q", script, got, substr)
	}
}

// expectUnsupported expects ErrUnsupported.
func expectUnsupported(t *testing.T, script string) {
	t.Helper()
	got, err := Run(script, []string{"k"}, []string{"a"}, func([]string) resp.Value { return resp.Null() })
	if !errors.Is(err, ErrUnsupported) {
		t.Errorf("script %q: got (%v, %v), want ErrUnsupported", script, got, err)
	}
}

// expectSyntax expects a parse error.
func expectSyntax(t *testing.T, script string) {
	t.Helper()
	got, err := Run(script, nil, nil, nil)
	if !errors.Is(err, ErrSyntax) {
		t.Errorf("script %q: got (%v, %v), want ErrSyntax", script, got, err)
	}
}

func bulks(ss ...string) resp.Value { return resp.Bulks(ss...) }
func ints(is ...int64) resp.Value {
	a := make([]resp.Value, len(is))
	for i, n := range is {
		a[i] = resp.Int(n)
	}
	return resp.Arr(a...)
}
