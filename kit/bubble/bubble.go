// Package bubble runs a function inside a testing/synctest bubble (virtual clock; time only
// advances when every goroutine of the bubble is durably blocked) and classifies how it ended.
package bubble

import (
	"fmt"
	"runtime"
	"runtime/debug"
	"strings"
	"sync"
	"testing"
	"testing/synctest"
	"time"
)

type Result struct {
	Deadlock bool   // every goroutine durably blocked while the root was still running: a hang
	Leak     bool   // the root returned but goroutines of the bubble stay blocked forever
	Panic    any    // panic recovered from the root goroutine
	Stack    string // stack of that panic
	Msg      string
	// Frozen: the bubble made no progress for FreezeLimit of wall-clock time and was abandoned. This is
	// an artefact of the virtual clock (a goroutine blocked on a sync.Mutex or spinning with Gosched is
	// not durably blocked, so virtual time cannot advance while the code it waits for needs virtual
	// time), not a verdict about the code under test: the case is inconclusive.
	Frozen bool
	// Goroutines lists the stacks of the goroutines left blocked in the bubble (hang / leak diagnosis).
	Goroutines string
}

func (r Result) OK() bool { return !r.Deadlock && !r.Leak && !r.Frozen && r.Panic == nil }

func (r Result) String() string {
	switch {
	case r.Deadlock:
		return "deadlock: " + r.Msg + "\n" + r.Goroutines
	case r.Leak:
		return "leak: " + r.Msg + "\n" + r.Goroutines
	case r.Frozen:
		return "frozen (inconclusive): " + r.Msg
	case r.Panic != nil:
		return fmt.Sprintf("panic: %v\n%s", r.Panic, r.Stack)
	}
	return "ok"
}

// Run executes root as the root goroutine of a new bubble. Nothing inside may call t.Fatal:
// collect observations and assert after Run returns. Panics of other goroutines of the
// bubble cannot be recovered and kill the process (the driver reports those from the saved
// last-case file).
func Run(t *testing.T, root func()) Result {
	// Go 1.25.0 allocates the synctest "bubble special" of a sync.WaitGroup without holding the heap's
	// special lock (runtime.getOrSetBubbleSpecial): two first WaitGroup.Add calls running in parallel inside
	// bubbles corrupt a span's specials list, after which a runtime goroutine spins for ever and even the
	// freeze watchdog's stack dump (stop-the-world) hangs. rueidis creates a WaitGroup per dial, so every
	// bubble test is exposed; with one P the two Adds cannot run in parallel. Shards are processes, so
	// nothing is lost in throughput.
	onceP.Do(func() { runtime.GOMAXPROCS(1) })
	done := make(chan Result, 1)
	go func() { done <- run(t, root) }()
	tm := time.NewTimer(FreezeLimit)
	defer tm.Stop()
	select {
	case r := <-done:
		return r
	case <-tm.C:
		return Result{Frozen: true, Msg: "no progress in wall-clock time", Goroutines: bubbleGoroutines()}
	}
}

var onceP sync.Once

// FreezeLimit is the wall-clock time after which a bubble is abandoned (its goroutines leak).
var FreezeLimit = 25 * time.Second

func run(t *testing.T, root func()) (r Result) {
	defer func() {
		if p := recover(); p != nil {
			s := fmt.Sprint(p)
			switch {
			case strings.Contains(s, "main bubble goroutine has exited but blocked goroutines remain"):
				r.Leak = true
			case strings.Contains(s, "all goroutines in bubble are blocked"):
				r.Deadlock = true
			default:
				panic(p)
			}
			r.Msg = s
			r.Goroutines = bubbleGoroutines()
		}
	}()
	synctest.Test(t, func(*testing.T) {
		defer func() {
			if p := recover(); p != nil {
				if strings.Contains(fmt.Sprintf("%T", p), "rapid.") {
					panic(p)
				}
				r.Panic = p
				r.Stack = string(debug.Stack())
			}
		}()
		root()
	})
	return r
}

// bubbleGoroutines returns the stacks of goroutines that belong to a synctest bubble and are
// blocked (the ones of earlier, already reported bubbles included), trimmed to the top frames.
func bubbleGoroutines() string {
	buf := make([]byte, 1<<20)
	buf = buf[:runtime.Stack(buf, true)]
	var out []string
	for _, g := range strings.Split(string(buf), "\n\n") {
		head, _, _ := strings.Cut(g, "\n")
		if !strings.Contains(head, "synctest bubble") || strings.Contains(g, "verifkit/fakeredis.(*Conn)") {
			continue
		}
		lines := strings.Split(g, "\n")
		if len(lines) > 15 {
			lines = lines[:15]
		}
		out = append(out, strings.Join(lines, "\n"))
		if len(out) >= 40 {
			break
		}
	}
	return strings.Join(out, "\n\n")
}

// Wait blocks until every other goroutine of the bubble is durably blocked.
func Wait() { synctest.Wait() }
