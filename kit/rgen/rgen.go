// Package rgen holds rapid generators for RESP value trees and read-boundary splits.
package rgen

import (
	"io"
	"strconv"

	"pgregory.net/rapid"
	"verifkit/resp"
)

type Opts struct {
	MaxDepth int
	Attrs    bool // attributes on any node
	Streams  bool // streamed strings / aggregates
	Pushes   bool // '>' frames as nested values (top-level pushes are the caller's business)
	Null2    bool // RESP2 null encodings
	Big      bool // occasionally large payloads (up to ~70 KiB)
	Errors   bool // - and ! values
	RESP2    bool // restrict to types a RESP2 server produces (+ - : $ * null)
}

var Full = Opts{MaxDepth: 4, Attrs: true, Streams: true, Pushes: true, Null2: true, Big: true, Errors: true}

func payload(t *rapid.T, big bool) string {
	k := rapid.IntRange(0, 19).Draw(t, "pk")
	switch {
	case k < 8:
		return rapid.StringN(0, 12, 40).Draw(t, "ps")
	case k < 13:
		return string(rapid.SliceOfN(rapid.Byte(), 0, 24).Draw(t, "pb"))
	case k < 16:
		return rapid.SampledFrom([]string{"", "\r\n", "\r", "\n", "OK", "OK\r\n", "$5\r\nhello\r\n", "*1\r\n", ";0\r\n", ".\r\n", "-1", "?", "0", "QUEUED", "\x00", "12345678901234567890"}).Draw(t, "pc")
	case k < 19 || !big:
		n := rapid.IntRange(0, 600).Draw(t, "pn")
		b := make([]byte, n)
		for i := range b {
			b[i] = byte('a' + i%26)
		}
		return string(b)
	default:
		n := rapid.SampledFrom([]int{4095, 4096, 4097, 16384, 65535, 65536, 70000, 131072, 131073, 270000}).Draw(t, "pbig")
		b := make([]byte, n)
		seed := rapid.Byte().Draw(t, "pseed")
		for i := range b {
			b[i] = seed + byte(i*7)
		}
		return string(b)
	}
}

func line(t *rapid.T) string {
	// simple strings / errors cannot contain CR or LF
	s := rapid.StringMatching(`[ -~]{0,30}`).Draw(t, "line")
	return s
}

// Value draws a well-formed value tree.
func Value(t *rapid.T, o Opts) resp.Value { return value(t, o, 0) }

func value(t *rapid.T, o Opts, depth int) resp.Value {
	var v resp.Value
	scalars := []byte{'+', ':', '$', '_'}
	if o.Errors {
		scalars = append(scalars, '-')
	}
	if !o.RESP2 {
		scalars = append(scalars, '#', ',', '(', '=')
		if o.Errors {
			scalars = append(scalars, '!')
		}
	}
	aggs := []byte{'*'}
	if !o.RESP2 {
		aggs = append(aggs, '%', '~')
		if o.Pushes {
			aggs = append(aggs, '>')
		}
	}
	var ty byte
	if depth < o.MaxDepth && rapid.IntRange(0, 9).Draw(t, "agg") < 4 {
		ty = aggs[rapid.IntRange(0, len(aggs)-1).Draw(t, "aggT")]
	} else {
		ty = scalars[rapid.IntRange(0, len(scalars)-1).Draw(t, "scT")]
	}
	switch ty {
	case '+':
		v = resp.Simple(rapid.OneOf(rapid.Just("OK"), rapid.Just("QUEUED"), rapid.Just("PONG"), rapid.Just("OKAY"), rapid.Just("O"), rapid.Just(""), rapid.Custom(line)).Draw(t, "simple"))
	case '-':
		v = resp.Err(rapid.OneOf(rapid.Just("ERR x"), rapid.Just("MOVED 1 a:1"), rapid.Just("NOSCRIPT"), rapid.Custom(line)).Draw(t, "err"))
	case ':':
		v = resp.Int(rapid.OneOf(rapid.Int64(), rapid.Int64Range(-20, 1100), rapid.SampledFrom([]int64{0, -1, 9223372036854775807, -9223372036854775808})).Draw(t, "int"))
	case '$', '!', '=':
		v = resp.Value{T: ty, S: payload(t, o.Big)}
		if ty == '=' {
			v.S = "txt:" + v.S
		}
		if ty == '$' && o.Streams && rapid.IntRange(0, 5).Draw(t, "chunked") == 0 {
			v.Chunks = rapid.SliceOfN(rapid.IntRange(1, 40), 0, 5).Draw(t, "chunks")
			if v.Chunks == nil {
				v.Chunks = []int{}
			}
		}
	case '_':
		v = resp.Null()
		if o.Null2 || o.RESP2 {
			v.Null2 = rapid.SampledFrom([]byte{0, '$', '*'}).Draw(t, "null2")
			if o.RESP2 && v.Null2 == 0 {
				v.Null2 = '$'
			}
		}
	case '#':
		v = resp.Bool(rapid.Bool().Draw(t, "bool"))
	case ',':
		v = resp.Double(rapid.OneOf(
			rapid.SampledFrom([]string{"inf", "-inf", "nan", "0", "-0", "1.5", "3", "1e21", "5e-324", "-1.7976931348623157e308"}),
			rapid.Map(rapid.Float64(), func(f float64) string { return strconv.FormatFloat(f, 'g', -1, 64) }),
		).Draw(t, "double"))
	case '(':
		v = resp.Value{T: '(', S: rapid.StringMatching(`-?[0-9]{1,40}`).Draw(t, "bignum")}
	case '*', '~', '>', '%':
		n := rapid.IntRange(0, 5).Draw(t, "n")
		eo, ed := o, depth+1
		if o.Big && rapid.IntRange(0, 11).Draw(t, "wide") == 0 {
			// a wide aggregate of small scalars: decoders grow their element slices in steps (64, 128, ...)
			n = rapid.SampledFrom([]int{63, 64, 65, 66, 127, 128, 129, 200}).Draw(t, "wideN")
			eo.Big, eo.Attrs, ed = false, false, o.MaxDepth
		}
		if ty == '>' && n == 0 {
			n = 1
		}
		if ty == '%' {
			n *= 2
		}
		v = resp.Value{T: ty, A: make([]resp.Value, 0, n)}
		for i := 0; i < n; i++ {
			v.A = append(v.A, value(t, eo, ed))
		}
		if ty == '>' {
			// a push starts with its kind; keep a kind the client does not act on when nested
			v.A[0] = resp.Bulk("vpush")
		}
		if o.Streams && ty != '>' && rapid.IntRange(0, 5).Draw(t, "streamed") == 0 {
			v.Stream = true
		}
	}
	if o.Attrs && !o.RESP2 && rapid.IntRange(0, 7).Draw(t, "attr") == 0 {
		n := rapid.IntRange(1, 2).Draw(t, "attrN")
		oo := o
		oo.Attrs = false
		oo.MaxDepth = min(o.MaxDepth, depth+1)
		for i := 0; i < n; i++ {
			v.Attr = append(v.Attr, resp.Bulk(rapid.StringN(0, 5, 10).Draw(t, "attrK")), value(t, oo, depth+1))
		}
		// attributes are RESP3-only; a RESP3 server encodes null as "_", never in the RESP2 forms
		v.Null2 = 0
	}
	return v
}

// Depth returns the nesting depth of v; HasStream whether any node is streamed.
func Depth(v resp.Value) int {
	d := 0
	for _, e := range v.A {
		d = max(d, Depth(e))
	}
	for _, e := range v.Attr {
		d = max(d, Depth(e))
	}
	if v.T == '*' || v.T == '~' || v.T == '>' || v.T == '%' {
		return d + 1
	}
	return d
}

func HasStream(v resp.Value) bool {
	if v.Stream || v.Chunks != nil {
		return true
	}
	for _, e := range v.A {
		if HasStream(e) {
			return true
		}
	}
	for _, e := range v.Attr {
		if HasStream(e) {
			return true
		}
	}
	return false
}

func HasAttr(v resp.Value) bool {
	if len(v.Attr) > 0 {
		return true
	}
	for _, e := range v.A {
		if HasAttr(e) {
			return true
		}
	}
	return false
}

// SplitReader returns at most sizes[i] bytes on the i-th Read (cycling), so that read
// boundaries fall anywhere inside the encoding.
type SplitReader struct {
	Data  []byte
	Sizes []int
	i     int
	Reads int
}

func (r *SplitReader) Read(p []byte) (int, error) {
	if len(r.Data) == 0 {
		return 0, io.EOF
	}
	n := len(p)
	if len(r.Sizes) > 0 {
		s := r.Sizes[r.i%len(r.Sizes)]
		r.i++
		if s < 1 {
			s = 1
		}
		n = min(n, s)
	}
	n = min(n, len(r.Data))
	copy(p, r.Data[:n])
	r.Data = r.Data[n:]
	r.Reads++
	return n, nil
}

func Sizes(t *rapid.T) []int {
	switch rapid.IntRange(0, 4).Draw(t, "splitKind") {
	case 0:
		return nil // everything at once
	case 1:
		return []int{1}
	case 2:
		return []int{rapid.IntRange(1, 7).Draw(t, "split")}
	default:
		return rapid.SliceOfN(rapid.IntRange(1, 64), 1, 8).Draw(t, "splits")
	}
}

func BufSize(t *rapid.T) int {
	return rapid.SampledFrom([]int{32, 33, 64, 512, 4096, 65536}).Draw(t, "bufio")
}
