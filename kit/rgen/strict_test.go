package rgen

import (
	"bufio"
	"bytes"
	"testing"

	"pgregory.net/rapid"
	"verifkit/resp"
)

// every generated value, encoded by the kit encoder, is accepted by the strict reader as the same tree
func TestStrictAcceptsGenerated(t *testing.T) {
	rapid.Check(t, func(t *rapid.T) {
		v := Value(t, Full)
		enc := resp.Append(nil, v)
		r := bufio.NewReader(bytes.NewReader(enc))
		got, err := resp.ReadStrict(r)
		if err != nil {
			t.Fatalf("strict reader rejected %q: %v", enc, err)
		}
		if !resp.Equal(got, v) || r.Buffered() != 0 {
			t.Fatalf("strict reader decoded %v from %q, want %v", got, enc, v)
		}
	})
}
