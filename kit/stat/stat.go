// Package stat collects what a generated check actually explored (evaluations, distinct
// non-trivial cases, class histogram, samples, violations, known-finding exclusions) and
// writes it where the driver (/verif/check) merges shards into /verif/evidence/<ID>.json.
//
// It must not import rueidis: it is linked into in-package tests of rueidis itself.
package stat

import (
	"encoding/binary"
	"encoding/json"
	"fmt"
	"hash/fnv"
	"os"
	"path/filepath"
	"sort"
	"sync"
)

type Violation struct {
	Clause string `json:"clause"`
	Detail string `json:"detail"`
	Case   any    `json:"case,omitempty"`
}

type Collector struct {
	mu           sync.Mutex
	prop, part   string
	rule         string
	evaluations  int64
	nt           map[uint64]struct{}
	classes      map[string]int64
	samples      []any
	ntSamples    int
	violations   map[string]Violation
	excluded     map[string]int64
	inconclusive map[string]int64
	assumptions  []string
	exhaustive   bool
	extra        map[string]any
}

var (
	regMu sync.Mutex
	reg   = map[string]*Collector{}

	knownOnce sync.Once
	known     map[string]bool
)

func dir() string {
	if d := os.Getenv("VERIF_STATS_DIR"); d != "" {
		return d
	}
	return os.TempDir()
}

func shard() string {
	s := os.Getenv("VERIF_SHARD")
	if s == "" {
		s = "0"
	}
	// native fuzzing runs the target in several worker processes: one stats file per process
	for _, a := range os.Args {
		if a == "-test.fuzzworker" || a == "-test.fuzzworker=true" {
			return fmt.Sprintf("%s-w%d", s, os.Getpid())
		}
	}
	return s
}

// For returns the collector of (property, part). part distinguishes several tests that
// contribute to one property (e.g. "store-model" and "end-to-end").
func For(prop, part string) *Collector {
	regMu.Lock()
	defer regMu.Unlock()
	k := prop + "." + part
	c := reg[k]
	if c == nil {
		c = &Collector{prop: prop, part: part, nt: map[uint64]struct{}{}, classes: map[string]int64{},
			violations: map[string]Violation{}, excluded: map[string]int64{}, inconclusive: map[string]int64{}, extra: map[string]any{}}
		reg[k] = c
	}
	return c
}

// Rule states how cases are generated and what makes one non-trivial.
func (c *Collector) Rule(r string) *Collector { c.mu.Lock(); c.rule = r; c.mu.Unlock(); return c }

func (c *Collector) Assume(a ...string) *Collector {
	c.mu.Lock()
	c.assumptions = append(c.assumptions, a...)
	c.mu.Unlock()
	return c
}

func (c *Collector) Exhaustive(b bool) { c.mu.Lock(); c.exhaustive = b; c.mu.Unlock() }

func (c *Collector) Extra(k string, v any) { c.mu.Lock(); c.extra[k] = v; c.mu.Unlock() }

func (c *Collector) AddExtra(k string, n int64) {
	c.mu.Lock()
	if v, ok := c.extra[k].(int64); ok {
		c.extra[k] = v + n
	} else {
		c.extra[k] = n
	}
	c.mu.Unlock()
}

func Hash(parts ...any) uint64 {
	h := fnv.New64a()
	for _, p := range parts {
		switch v := p.(type) {
		case string:
			h.Write([]byte(v))
		case []byte:
			h.Write(v)
		default:
			fmt.Fprintf(h, "%#v", v)
		}
		h.Write([]byte{0xff})
	}
	return h.Sum64()
}

// Eval records one evaluated case. key identifies the case (distinctness); nontrivial says
// whether it satisfies the property's non-triviality rule.
func (c *Collector) Eval(nontrivial bool, key any, classes ...string) {
	var h uint64
	if nontrivial {
		switch k := key.(type) {
		case uint64:
			h = k
		default:
			h = Hash(k)
		}
	}
	c.mu.Lock()
	c.evaluations++
	if nontrivial {
		c.nt[h] = struct{}{}
	}
	for _, cl := range classes {
		c.classes[cl]++
	}
	c.mu.Unlock()
}

func (c *Collector) Class(classes ...string) {
	c.mu.Lock()
	for _, cl := range classes {
		c.classes[cl]++
	}
	c.mu.Unlock()
}

func (c *Collector) ClassN(cl string, n int64) {
	c.mu.Lock()
	c.classes[cl] += n
	c.mu.Unlock()
}

// Sample keeps a few of the explored cases (first two, then non-trivial ones up to 8).
func (c *Collector) Sample(nontrivial bool, v func() any) {
	c.mu.Lock()
	defer c.mu.Unlock()
	if len(c.samples) < 2 || (nontrivial && c.ntSamples < 6) {
		if nontrivial {
			c.ntSamples++
		}
		c.samples = append(c.samples, v())
	}
}

func loadKnown() {
	known = map[string]bool{}
	p := os.Getenv("VERIF_KNOWN")
	if p == "" {
		p = "/verif/known_findings.json"
	}
	b, err := os.ReadFile(p)
	if err != nil {
		return
	}
	var f struct {
		Findings []struct {
			ID     string `json:"id"`
			Status string `json:"status"`
		} `json:"findings"`
	}
	if json.Unmarshal(b, &f) != nil {
		return
	}
	for _, x := range f.Findings {
		if x.Status == "open" {
			known[x.ID] = true
		}
	}
}

// Known reports whether the finding id is listed as an open known finding; if so the case
// is counted as excluded and the caller skips the clause for this case only.
func (c *Collector) Known(id string) bool {
	knownOnce.Do(loadKnown)
	if known[id] {
		c.mu.Lock()
		c.excluded[id]++
		c.mu.Unlock()
		return true
	}
	return false
}

func (c *Collector) Inconclusive(reason string) {
	c.mu.Lock()
	c.inconclusive[reason]++
	c.mu.Unlock()
}

// Violation records a violation of an oracle clause (the last record per clause wins, which
// under rapid's shrinking is the smallest case) and flushes immediately.
func (c *Collector) Violation(clause, detail string, cas any) {
	c.mu.Lock()
	c.violations[clause] = Violation{Clause: clause, Detail: detail, Case: cas}
	c.mu.Unlock()
	c.flush(false)
}

type out struct {
	Property     string           `json:"property"`
	Part         string           `json:"part"`
	Shard        string           `json:"shard"`
	Rule         string           `json:"rule"`
	Evaluations  int64            `json:"evaluations"`
	NT           int              `json:"nt"`
	Classes      map[string]int64 `json:"classes"`
	Samples      []any            `json:"samples"`
	Violations   []Violation      `json:"violations"`
	Excluded     map[string]int64 `json:"excluded_known"`
	Inconclusive map[string]int64 `json:"inconclusive"`
	Assumptions  []string         `json:"assumptions"`
	Exhaustive   bool             `json:"exhaustive"`
	Extra        map[string]any   `json:"extra"`
}

func (c *Collector) Flush() { c.flush(true) }

func (c *Collector) flush(withNT bool) {
	c.mu.Lock()
	defer c.mu.Unlock()
	o := out{Property: c.prop, Part: c.part, Shard: shard(), Rule: c.rule, Evaluations: c.evaluations, NT: len(c.nt),
		Classes: c.classes, Samples: c.samples, Excluded: c.excluded, Inconclusive: c.inconclusive,
		Assumptions: c.assumptions, Exhaustive: c.exhaustive, Extra: c.extra}
	keys := make([]string, 0, len(c.violations))
	for k := range c.violations {
		keys = append(keys, k)
	}
	sort.Strings(keys)
	for _, k := range keys {
		o.Violations = append(o.Violations, c.violations[k])
	}
	base := filepath.Join(dir(), fmt.Sprintf("%s.%s.%s", c.prop, c.part, shard()))
	b, err := json.Marshal(o)
	if err != nil {
		// a sample or case that cannot be marshalled must not lose the counts
		o.Samples = []any{fmt.Sprintf("unmarshalable sample: %v", err)}
		for i := range o.Violations {
			o.Violations[i].Case = fmt.Sprintf("%+v", o.Violations[i].Case)
		}
		b, _ = json.Marshal(o)
	}
	_ = os.WriteFile(base+".json.tmp", b, 0o644)
	_ = os.Rename(base+".json.tmp", base+".json")
	if !withNT {
		return
	}
	hs := make([]byte, 0, 8*len(c.nt))
	for h := range c.nt {
		hs = binary.LittleEndian.AppendUint64(hs, h)
	}
	_ = os.WriteFile(base+".nt", hs, 0o644)
}

// FlushAll flushes every collector (call from TestMain or defer in each test).
func FlushAll() {
	regMu.Lock()
	cs := make([]*Collector, 0, len(reg))
	for _, c := range reg {
		cs = append(cs, c)
	}
	regMu.Unlock()
	for _, c := range cs {
		c.Flush()
	}
}

// Fataler is the part of *rapid.T / *testing.T used by Fail.
type Fataler interface {
	Fatalf(format string, args ...any)
}

// Fail records a violation of clause and fails the current (rapid) case so that it shrinks.
func (c *Collector) Fail(t Fataler, clause, detail string, cas any) {
	c.Violation(clause, detail, cas)
	t.Fatalf("VERIF-VIOLATION clause=%s %s", clause, detail)
}
