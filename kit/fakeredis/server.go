// Package fakeredis is a wire-level fake Redis written for the verification harness. It speaks
// RESP2/RESP3 through its own codec (verifkit/resp), executes a small command set under one
// "world" mutex (Redis' single thread), fills each connection's output queue at execution time
// (so byte order on a connection equals execution order, which is what puts invalidation pushes
// in Redis order), logs every frame it receives and sends with a global sequence number, and
// takes latency and fault plans through hooks.
//
// Everything that owns a channel or timer must be created inside the synctest bubble, so a
// World is created inside the bubble.
package fakeredis

import (
	"bufio"
	"fmt"
	"io"
	"net"
	"sort"
	"strings"
	"sync"
	"time"

	"verifkit/resp"
)

// ---- events

type Event struct {
	Seq    int64       `json:"seq"`
	At     int64       `json:"at_us"` // microseconds since the World's epoch
	Server string      `json:"server"`
	Conn   int         `json:"conn"`
	Kind   string      `json:"kind"` // open close recv exec reply push fault
	Req    int         `json:"req"`  // index of the request on its connection
	Argv   []string    `json:"argv,omitempty"`
	Reply  *resp.Value `json:"reply,omitempty"`
	Note   string      `json:"note,omitempty"`
	// Arr (recv events): when the client started the Write that carried the last byte of the request, which
	// can be earlier than At, the moment the server got round to reading and parsing it (a slow command ahead).
	Arr int64 `json:"arr_us,omitempty"`
}

func (e Event) String() string {
	s := fmt.Sprintf("#%d +%dus %s/c%d %s", e.Seq, e.At, e.Server, e.Conn, e.Kind)
	if e.Argv != nil {
		s += fmt.Sprintf(" r%d %q", e.Req, e.Argv)
	}
	if e.Reply != nil {
		s += " " + e.Reply.String()
	}
	if e.Note != "" {
		s += " (" + e.Note + ")"
	}
	return s
}

// ---- faults

type FaultKind int

const (
	NoFault        FaultKind = iota
	DropBeforeExec           // close the connection without executing the command
	DropAfterExec            // execute, then close without replying
	DropMidReply             // execute, write only the first half of the reply bytes, then close
	ErrorReply               // do not execute; reply with Fault.Err
	Hang                     // stop reading and writing on this connection for ever (peer stops responding)
)

type Fault struct {
	Kind FaultKind
	Err  string
}

// ---- world

// World groups the fake servers of one scenario: shared clock epoch, global event sequence,
// address registry for dialing.
type World struct {
	mu      sync.Mutex // the single Redis thread of every server in this world
	epoch   time.Time
	seq     int64
	Events  []Event
	servers map[string]*Server
	stop    chan struct{}
	stopped bool
	wg      sync.WaitGroup
	Dials   map[string]int // dial attempts per address
	// DialHook may refuse or delay a dial (addr, attempt index) -> error
	DialHook func(addr string, attempt int) error
	// DialStorms counts dials that were slowed down by the dial-storm brake
	DialStorms int
	stormAt    int64
	stormN     int
	// CmdStorms counts commands slowed down by the command-storm brake: a client loop that keeps a server busy
	// without ever blocking (an endless redirect loop with zero latency, say) would hold virtual time still for ever
	// while the event log grows; after 5000 commands at one virtual instant every further one costs a virtual ms.
	CmdStorms int
	cmdAt     int64
	cmdN      int
}

func NewWorld() *World {
	return &World{epoch: time.Now(), servers: map[string]*Server{}, stop: make(chan struct{}), Dials: map[string]int{}}
}

func (w *World) Since() int64 { return time.Since(w.epoch).Microseconds() }

// Lock/Unlock expose the world mutex to tests that inspect state.
func (w *World) Lock()   { w.mu.Lock() }
func (w *World) Unlock() { w.mu.Unlock() }

func (w *World) logLocked(e Event) {
	w.seq++
	e.Seq = w.seq
	e.At = w.Since()
	w.Events = append(w.Events, e)
}

// Snapshot returns a copy of the event log.
func (w *World) Snapshot() []Event {
	w.mu.Lock()
	defer w.mu.Unlock()
	return append([]Event(nil), w.Events...)
}

func (w *World) Server(addr string) *Server {
	w.mu.Lock()
	defer w.mu.Unlock()
	return w.servers[addr]
}

// Dial connects to the server registered under addr (for ClientOption.DialCtxFn).
func (w *World) Dial(addr string) (net.Conn, error) {
	w.mu.Lock()
	s := w.servers[addr]
	n := w.Dials[addr]
	w.Dials[addr] = n + 1
	hook := w.DialHook
	stopped := w.stopped
	// Dial-storm brake: a client loop that reconnects again and again without ever blocking would keep
	// the bubble from becoming idle, so virtual time could never advance and the loop would never end.
	// After 100 dials at one virtual instant every further dial costs a virtual millisecond.
	now := w.Since()
	if now == w.stormAt {
		w.stormN++
	} else {
		w.stormAt, w.stormN = now, 0
	}
	storm := w.stormN > 100
	if storm {
		w.DialStorms++
	}
	w.mu.Unlock()
	if storm {
		time.Sleep(time.Millisecond)
	}
	if stopped {
		return nil, fmt.Errorf("fakeredis: world stopped")
	}
	if hook != nil {
		if err := hook(addr, n); err != nil {
			return nil, err
		}
	}
	if s == nil {
		return nil, &net.OpError{Op: "dial", Net: "tcp", Err: fmt.Errorf("connection refused: no fake server at %s", addr)}
	}
	return s.dial()
}

// Stop closes every connection and ends every server goroutine. The bubble's root goroutine
// must call it (and wait) before returning.
func (w *World) Stop() {
	w.mu.Lock()
	if w.stopped {
		w.mu.Unlock()
		return
	}
	w.stopped = true
	close(w.stop)
	var conns []*Conn
	for _, s := range w.servers {
		conns = append(conns, s.conns...)
		for _, t := range s.expTimers {
			t.Stop()
		}
	}
	w.mu.Unlock()
	for _, c := range conns {
		c.kill("world stopped")
	}
	w.wg.Wait()
}

// ---- server

type Hooks struct {
	// Latency is slept (virtual time) before executing a command.
	Latency func(c *Conn, req int, argv []string) time.Duration
	// Fault decides the fate of a request.
	Fault func(c *Conn, req int, argv []string) Fault
	// Command lets a scenario answer a command itself (cluster/sentinel personalities, redirects).
	// Called with the world locked. handled=false falls through to the built-in commands.
	Command func(c *Conn, req int, argv []string) (reply resp.Value, handled bool)
	// AfterExec is called with the world locked after every executed command.
	AfterExec func(c *Conn, req int, argv []string, reply resp.Value)
}

type Server struct {
	W       *World
	Addr    string
	Hooks   Hooks
	Version string // reported by HELLO
	// protocol personality
	NoHello         bool              // HELLO is an unknown command (old server): the client must fall back to RESP2
	Proto2          bool              // HELLO 3 is answered with proto 2
	Users           map[string]string // user -> password; empty: no auth required
	Role            string            // master | slave
	MasterAddr      string
	ReadOnlyReplica bool
	ExpireAfterMs   bool // Redis semantics of the expiry instant: a key lives through its expiry millisecond (PTTL may be 0)
	AZ              string

	conns          []*Conn
	nextConn       int
	db             map[int]*keyspace
	expTimers      map[string]*time.Timer
	scripts        map[string]string // sha1 -> body
	ExecLog        []ExecEntry       // VEXEC executions
	NoScriptCache  bool              // SCRIPT LOAD succeeds but EVALSHA never finds (not used by default)
	ScriptLoadFail int               // fail this many SCRIPT LOAD calls
	LuaRuns        []LuaRun
	pubsub         map[string]map[*Conn]bool // channel -> subscribers
	ppubsub        map[string]map[*Conn]bool // pattern -> subscribers
	spubsub        map[string]map[*Conn]bool // shard channel -> subscribers
	tracked        map[string]map[*Conn]bool // key -> connections to invalidate
	Down           bool                      // refuses commands with connection close
}

type ExecEntry struct {
	UID  string
	Conn int
	Req  int
	Seq  int64
}

type LuaRun struct {
	SHA  string
	Cmd  string
	Conn int
	Seq  int64
}

func (w *World) NewServer(addr string) *Server {
	s := &Server{W: w, Addr: addr, Version: "7.4.0", Role: "master", db: map[int]*keyspace{}, expTimers: map[string]*time.Timer{},
		scripts: map[string]string{}, pubsub: map[string]map[*Conn]bool{}, ppubsub: map[string]map[*Conn]bool{}, spubsub: map[string]map[*Conn]bool{},
		tracked: map[string]map[*Conn]bool{}, Users: map[string]string{}}
	w.mu.Lock()
	w.servers[addr] = s
	w.mu.Unlock()
	return s
}

// ---- connection

type outItem struct {
	data       []byte
	closeAfter bool
}

type Conn struct {
	ID       int
	S        *Server
	nc       net.Conn
	arrivals *arrivalLog
	mu       sync.Mutex
	cnd      *sync.Cond
	out      []outItem
	dead     bool
	hung     bool
	nreq     int
	// BurstIdx is the position of the current command within the burst of commands that arrived
	// together (0 = the server had to wait for it); scenarios use it to delay only burst starts.
	BurstIdx int

	// session
	Proto                              int
	User                               string
	Authed                             bool
	Name                               string
	DB                                 int
	LibName, LibVer                    string
	NoTouch, NoEvict, ReadOnly, Asking bool
	Capa                               []string
	Tracking                           bool
	TrackMode                          string // optin optout bcast ""(default)
	TrackPrefixes                      []string
	TrackNoLoop                        bool
	CachingNext                        bool // CLIENT CACHING YES seen, applies to the next command or MULTI..EXEC
	inMulti                            bool
	multiDirty                         bool
	multiQ                             [][]string
	multiCaching                       bool
	watch                              map[string]int64
	watchDirty                         bool
	subs, psubs, ssubs                 map[string]bool
	SetupLog                           [][]string // every command received before the first "user" command
	Tag                                string     // scenario-defined label
}

func (s *Server) dial() (net.Conn, error) {
	cli, srv := net.Pipe()
	s.W.mu.Lock()
	if s.Down || s.W.stopped {
		s.W.mu.Unlock()
		cli.Close()
		srv.Close()
		return nil, &net.OpError{Op: "dial", Net: "tcp", Err: fmt.Errorf("connection refused: %s is down", s.Addr)}
	}
	c := &Conn{ID: s.nextConn, S: s, nc: srv, Proto: 2, User: "default", subs: map[string]bool{}, psubs: map[string]bool{}, ssubs: map[string]bool{}}
	c.Authed = len(s.Users) == 0
	c.arrivals = &arrivalLog{w: s.W}
	c.cnd = sync.NewCond(&c.mu)
	s.nextConn++
	s.conns = append(s.conns, c)
	s.W.logLocked(Event{Server: s.Addr, Conn: c.ID, Kind: "open"})
	s.W.wg.Add(2)
	s.W.mu.Unlock()
	go c.readLoop()
	go c.writeLoop()
	return &clientConn{Conn: cli, addr: s.Addr, arrivals: c.arrivals}, nil
}

// arrivalLog remembers when the client end started to write each chunk of bytes (net.Pipe is
// unbuffered: a Write returns only when the server reads, which a slow command ahead can delay;
// what matters to a client is when it put the bytes on the wire).
type arrivalLog struct {
	mu    sync.Mutex
	w     *World
	sent  int64
	marks []arrivalMark
}

type arrivalMark struct{ upTo, at int64 }

func (a *arrivalLog) wrote(n int) {
	a.mu.Lock()
	a.sent += int64(n)
	a.marks = append(a.marks, arrivalMark{a.sent, a.w.Since()})
	a.mu.Unlock()
}

// arrival returns when the client started the Write that carried the byte at offset off
// (1-based count of bytes consumed by the server).
func (a *arrivalLog) arrival(off int64) int64 {
	a.mu.Lock()
	defer a.mu.Unlock()
	for len(a.marks) > 1 && a.marks[0].upTo < off {
		a.marks = a.marks[1:]
	}
	if len(a.marks) == 0 {
		return a.w.Since()
	}
	return a.marks[0].at
}

// countingReader counts the bytes the server took from the connection.
type countingReader struct {
	r     io.Reader
	total int64
}

func (c *countingReader) Read(p []byte) (int, error) {
	n, err := c.r.Read(p)
	c.total += int64(n)
	return n, err
}

// clientConn gives the client end a stable remote address.
type clientConn struct {
	net.Conn
	addr     string
	arrivals *arrivalLog
}

func (c *clientConn) Write(p []byte) (int, error) {
	c.arrivals.wrote(len(p))
	return c.Conn.Write(p)
}

type fakeAddr string

func (a fakeAddr) Network() string { return "tcp" }
func (a fakeAddr) String() string  { return string(a) }

func (c *clientConn) RemoteAddr() net.Addr { return fakeAddr(c.addr) }

func (c *Conn) enqueue(b []byte, closeAfter bool) {
	c.mu.Lock()
	if !c.dead {
		c.out = append(c.out, outItem{data: b, closeAfter: closeAfter})
		c.cnd.Signal()
	}
	c.mu.Unlock()
}

// kill closes the connection from the server side (both directions).
func (c *Conn) kill(note string) {
	c.mu.Lock()
	already := c.dead
	c.dead = true
	c.cnd.Broadcast()
	c.mu.Unlock()
	c.nc.Close()
	if !already {
		c.S.W.mu.Lock()
		c.S.dropConnLocked(c)
		c.S.W.logLocked(Event{Server: c.S.Addr, Conn: c.ID, Kind: "close", Note: note})
		c.S.W.mu.Unlock()
	}
}

func (c *Conn) writeLoop() {
	defer c.S.W.wg.Done()
	for {
		c.mu.Lock()
		for len(c.out) == 0 && !c.dead {
			c.cnd.Wait()
		}
		if c.dead {
			c.mu.Unlock()
			return
		}
		it := c.out[0]
		c.out = c.out[1:]
		hung := c.hung
		c.mu.Unlock()
		if hung {
			continue // swallow: the peer stopped responding
		}
		if len(it.data) > 0 {
			if _, err := c.nc.Write(it.data); err != nil {
				c.kill("write error: " + err.Error())
				return
			}
		}
		if it.closeAfter {
			c.kill("fault: dropped by plan")
			return
		}
	}
}

func (c *Conn) sleep(d time.Duration) bool {
	if d <= 0 {
		return true
	}
	t := time.NewTimer(d)
	defer t.Stop()
	select {
	case <-t.C:
		// a connection that was closed meanwhile is freed with whatever it had buffered, like in Redis
		return !c.isDead()
	case <-c.S.W.stop:
		return false
	}
}

func (c *Conn) isDead() bool {
	c.mu.Lock()
	defer c.mu.Unlock()
	return c.dead
}

func (c *Conn) readLoop() {
	defer c.S.W.wg.Done()
	ar := &countingReader{r: c.nc}
	r := bufio.NewReaderSize(ar, 64<<10)
	for {
		if r.Buffered() == 0 {
			c.BurstIdx = 0
		} else {
			c.BurstIdx++
		}
		argv, err := resp.ReadCommand(r)
		if err != nil {
			c.kill("peer closed: " + err.Error())
			return
		}
		if c.isDead() {
			return // killed while commands were still buffered: they are discarded
		}
		req := c.nreq
		c.nreq++
		s := c.S
		s.W.mu.Lock()
		s.W.logLocked(Event{Server: s.Addr, Conn: c.ID, Kind: "recv", Req: req, Argv: argv, Arr: c.arrivals.arrival(ar.total - int64(r.Buffered()))})
		hung := c.hung
		if now := s.W.Since(); now == s.W.cmdAt {
			s.W.cmdN++
		} else {
			s.W.cmdAt, s.W.cmdN = now, 0
		}
		cmdStorm := s.W.cmdN > 5000
		if cmdStorm {
			s.W.CmdStorms++
		}
		s.W.mu.Unlock()
		if cmdStorm && !c.sleep(time.Millisecond) {
			return
		}
		if hung {
			continue
		}
		var f Fault
		if s.Hooks.Fault != nil {
			f = s.Hooks.Fault(c, req, argv)
		}
		if s.Hooks.Latency != nil {
			if !c.sleep(s.Hooks.Latency(c, req, argv)) {
				return
			}
		}
		switch f.Kind {
		case Hang:
			s.W.mu.Lock()
			s.W.logLocked(Event{Server: s.Addr, Conn: c.ID, Kind: "fault", Req: req, Argv: argv, Note: "hang"})
			s.W.mu.Unlock()
			c.mu.Lock()
			c.hung = true
			c.mu.Unlock()
			continue
		case DropBeforeExec:
			s.W.mu.Lock()
			s.W.logLocked(Event{Server: s.Addr, Conn: c.ID, Kind: "fault", Req: req, Argv: argv, Note: "drop-before-exec"})
			s.W.mu.Unlock()
			c.kill("fault: drop before exec")
			return
		case ErrorReply:
			s.W.mu.Lock()
			v := resp.Err(f.Err)
			s.W.logLocked(Event{Server: s.Addr, Conn: c.ID, Kind: "reply", Req: req, Argv: argv, Reply: &v, Note: "fault: error reply"})
			c.enqueue(c.encode(v), false)
			s.W.mu.Unlock()
			continue
		}
		s.W.mu.Lock()
		if s.Down {
			s.W.mu.Unlock()
			c.kill("server down")
			return
		}
		replies, closeConn := s.dispatch(c, req, argv)
		var buf []byte
		for i := range replies {
			buf = append(buf, c.encode(replies[i])...)
		}
		for i := range replies {
			s.W.logLocked(Event{Server: s.Addr, Conn: c.ID, Kind: "reply", Req: req, Argv: argv, Reply: &replies[i]})
		}
		switch f.Kind {
		case DropAfterExec:
			s.W.logLocked(Event{Server: s.Addr, Conn: c.ID, Kind: "fault", Req: req, Argv: argv, Note: "drop-after-exec"})
			c.enqueue(nil, true)
		case DropMidReply:
			s.W.logLocked(Event{Server: s.Addr, Conn: c.ID, Kind: "fault", Req: req, Argv: argv, Note: "drop-mid-reply"})
			c.enqueue(buf[:len(buf)/2], true)
		default:
			if len(buf) > 0 {
				c.enqueue(buf, closeConn)
			} else if closeConn {
				c.enqueue(nil, true)
			}
		}
		s.W.mu.Unlock()
	}
}

func (c *Conn) encode(v resp.Value) []byte {
	if c.Proto >= 3 {
		return resp.Append(nil, v)
	}
	return resp.AppendV2(nil, v)
}

// pushLocked queues an out-of-band frame (pub/sub message, invalidation) on the connection.
func (c *Conn) pushLocked(kind string, elems ...resp.Value) {
	v := resp.Push(append([]resp.Value{resp.Bulk(kind)}, elems...)...)
	c.S.W.logLocked(Event{Server: c.S.Addr, Conn: c.ID, Kind: "push", Req: -1, Reply: &v})
	c.enqueue(c.encode(v), false)
}

func (s *Server) dropConnLocked(c *Conn) {
	for _, m := range []map[string]map[*Conn]bool{s.pubsub, s.ppubsub, s.spubsub, s.tracked} {
		for k, set := range m {
			delete(set, c)
			if len(set) == 0 {
				delete(m, k)
			}
		}
	}
}

// ---- API for "other clients" and scenario control (lock the world themselves)

// Conns returns the connections opened so far (including closed ones).
func (s *Server) Conns() []*Conn {
	s.W.mu.Lock()
	defer s.W.mu.Unlock()
	return append([]*Conn(nil), s.conns...)
}

func (s *Server) LiveConns() []*Conn {
	var out []*Conn
	for _, c := range s.Conns() {
		c.mu.Lock()
		d := c.dead
		c.mu.Unlock()
		if !d {
			out = append(out, c)
		}
	}
	return out
}

func (c *Conn) Dead() bool {
	c.mu.Lock()
	defer c.mu.Unlock()
	return c.dead
}

// Kill drops a connection as a network failure would.
func (c *Conn) Kill() { c.kill("killed by scenario") }

// Do executes a command as another client would (no connection, no tracking of its own).
func (s *Server) Do(argv ...string) resp.Value {
	s.W.mu.Lock()
	defer s.W.mu.Unlock()
	s.W.logLocked(Event{Server: s.Addr, Conn: -1, Kind: "exec", Req: -1, Argv: argv, Note: "external client"})
	return s.execData(nil, argv)
}

func (s *Server) SetDown(down bool) {
	s.W.mu.Lock()
	s.Down = down
	conns := append([]*Conn(nil), s.conns...)
	s.W.mu.Unlock()
	if down {
		for _, c := range conns {
			c.kill("server down")
		}
	}
}

// Sessions describes live connections for oracles.
func (s *Server) String() string {
	var names []string
	for _, c := range s.Conns() {
		names = append(names, fmt.Sprintf("c%d(%s)", c.ID, c.Name))
	}
	sort.Strings(names)
	return s.Addr + "[" + strings.Join(names, " ") + "]"
}
