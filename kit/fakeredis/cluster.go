package fakeredis

// Cluster personality of the fake server.
//
// A Cluster groups several Servers of one World and holds the server-side truth of a Redis
// Cluster: which shard (primary + replicas) serves which slot, per-slot migration state, node
// health and endpoint announcement, and optional per-node stale views (a node that still believes
// another shard owns a slot, which is how redirect loops arise in real clusters). Every member
// gets a Hooks.Command that answers CLUSTER SLOTS / CLUSTER SHARDS (Redis 7 reply shapes) and
// decides for each keyed command, the way getNodeByQuery() in cluster.c does, whether this node
// executes it or answers -MOVED / -ASK / -TRYAGAIN / -CROSSSLOT / -CLUSTERDOWN.
//
// Simplification (documented, relied upon by the scenarios): the fake does not move data between
// nodes. Which keys of a migrating slot have "already been moved" is part of the migration state
// (StartMigration), and a scenario that wants a value to be readable wherever the command is
// finally executed seeds it on every node. The keyed commands KECHO/KSET need no data at all.
//
// Topology mutations are methods that take the world lock; the hooks run with the world locked.

import (
	"fmt"
	"sort"
	"strconv"
	"strings"
	"sync"

	"verifkit/resp"
)

// ---- slots

var crc16tab = func() (t [256]uint16) {
	for i := 0; i < 256; i++ {
		crc := uint16(i) << 8
		for j := 0; j < 8; j++ {
			if crc&0x8000 != 0 {
				crc = crc<<1 ^ 0x1021
			} else {
				crc <<= 1
			}
		}
		t[i] = crc
	}
	return
}()

// CRC16 is CRC-16/XMODEM (poly 0x1021, init 0), the checksum of the Redis Cluster specification.
func CRC16(s string) uint16 {
	var crc uint16
	for i := 0; i < len(s); i++ {
		crc = crc<<8 ^ crc16tab[byte(crc>>8)^s[i]]
	}
	return crc
}

// KeySlot is the hash slot of a key: if the key contains "{...}" with a non-empty content, only
// the content of the first such pair is hashed.
func KeySlot(key string) int {
	if i := strings.IndexByte(key, '{'); i >= 0 {
		if j := strings.IndexByte(key[i+1:], '}'); j > 0 {
			key = key[i+1 : i+1+j]
		}
	}
	return int(CRC16(key) & 16383)
}

// ---- keyed test commands

var clusterCmdOnce sync.Once

// KECHO <key> <uid> (read-only) and KSET <key> <uid> (write) reply "<uid>@<addr of the executing
// node>": keyed commands whose reply identifies both the command and the node that executed it.
// They are registered when the first Cluster is created (commands.go assigns the table in its own
// init, which runs after this file's).
func ensureClusterCommands() {
	clusterCmdOnce.Do(func() {
		table["KECHO"] = cmdInfo{false, key1, cmdKEcho, 3}
		table["KSET"] = cmdInfo{true, key1, cmdKSet, 3}
	})
}

func cmdKEcho(s *Server, c *Conn, db int, a []string) resp.Value {
	return resp.Bulk(a[2] + "@" + s.Addr)
}

func cmdKSet(s *Server, c *Conn, db int, a []string) resp.Value {
	cid, req := -1, -1
	if c != nil {
		cid, req = c.ID, c.nreq-1
	}
	s.ExecLog = append(s.ExecLog, ExecEntry{UID: a[2], Conn: cid, Req: req, Seq: s.W.seq})
	return resp.Bulk(a[2] + "@" + s.Addr)
}

// ClusterKeys returns the key arguments of a command the way the cluster personality sees them
// (nil: not a keyed command).
func ClusterKeys(argv []string) []string {
	if len(argv) == 0 {
		return nil
	}
	name := strings.ToUpper(argv[0])
	switch name {
	case "WATCH":
		return argv[1:]
	case "EVAL", "EVALSHA", "EVAL_RO", "EVALSHA_RO", "FCALL", "FCALL_RO":
		if len(argv) < 3 {
			return nil
		}
		n, err := strconv.Atoi(argv[2])
		if err != nil || n <= 0 || 3+n > len(argv) {
			return nil
		}
		return argv[3 : 3+n]
	case "SPUBLISH", "SSUBSCRIBE", "SUNSUBSCRIBE":
		if len(argv) > 1 {
			return argv[1:2]
		}
		return nil
	}
	if ci, ok := table[name]; ok && len(argv) >= ci.arity {
		return ci.keys(argv)
	}
	return nil
}

func clusterIsWrite(name string) bool {
	switch name {
	case "EVAL", "EVALSHA", "FCALL", "SPUBLISH":
		return true
	}
	return IsWriteCommand(name)
}

// ---- model

type ClusterNode struct {
	Srv *Server
	ID  string
	// Health as reported by CLUSTER SHARDS: "online" (default), "fail", "loading". CLUSTER SLOTS lists
	// only online replicas (a failing primary stays listed until a failover).
	Health string
	// Endpoint announcement: "" or "ip" = the node's address; "null" = unknown endpoint (null in
	// CLUSTER SLOTS, empty string in CLUSTER SHARDS: "use the host you asked"); "?" = unknown hostname.
	Endpoint string
	shard    int
}

type clusterShard struct {
	primary  string
	replicas []string
	// primPos: position of the primary in the "nodes" list of CLUSTER SHARDS (clamped).
	primPos int
}

type migration struct {
	from, to int
	moved    map[string]bool // keys that already live on the target
	all      bool            // every key counts as moved (reads of missing keys are ASK-redirected)
}

// TopologyAnswer records one CLUSTER SLOTS / CLUSTER SHARDS answer (what a client was told).
type TopologyAnswer struct {
	Seq   int64  `json:"seq"`
	At    int64  `json:"at_us"`
	Node  string `json:"node"`
	Conn  int    `json:"conn"`
	Kind  string `json:"kind"`
	Epoch int    `json:"epoch"` // number of topology mutations applied before the answer
}

type Cluster struct {
	W       *World
	nodes   map[string]*ClusterNode
	order   []string
	shards  []*clusterShard
	owner   [16384]int16
	migr    map[int]*migration
	views   map[string]map[int]int // node -> slot -> shard it believes to be the owner
	epoch   int
	Answers []TopologyAnswer
	// Before lets a scenario answer a command ahead of the cluster logic (scripted TRYAGAIN, LOADING ...).
	// Called with the world locked.
	Before func(n *ClusterNode, c *Conn, req int, argv []string) (resp.Value, bool)
	// TLSPort > 0 adds "tls-port" to every node of CLUSTER SHARDS (port + TLSPort).
	TLSPort int
}

func NewCluster(w *World) *Cluster {
	ensureClusterCommands()
	cl := &Cluster{W: w, nodes: map[string]*ClusterNode{}, migr: map[int]*migration{}, views: map[string]map[int]int{}}
	for i := range cl.owner {
		cl.owner[i] = -1
	}
	return cl
}

// AddShard registers a shard (without slots) and installs the cluster hooks on its servers.
func (cl *Cluster) AddShard(primary *Server, replicas ...*Server) int {
	cl.W.mu.Lock()
	defer cl.W.mu.Unlock()
	idx := len(cl.shards)
	sh := &clusterShard{primary: primary.Addr}
	cl.shards = append(cl.shards, sh)
	cl.addNodeLocked(primary, idx)
	for _, r := range replicas {
		sh.replicas = append(sh.replicas, r.Addr)
		cl.addNodeLocked(r, idx)
	}
	cl.syncRolesLocked(idx)
	return idx
}

// AddReplica attaches another replica to a shard.
func (cl *Cluster) AddReplica(shard int, r *Server) {
	cl.W.mu.Lock()
	defer cl.W.mu.Unlock()
	cl.shards[shard].replicas = append(cl.shards[shard].replicas, r.Addr)
	cl.addNodeLocked(r, shard)
	cl.syncRolesLocked(shard)
	cl.epoch++
}

func (cl *Cluster) addNodeLocked(s *Server, shard int) {
	n := &ClusterNode{Srv: s, ID: fmt.Sprintf("%040x", 0xa000+len(cl.order)), Health: "online", shard: shard}
	cl.nodes[s.Addr] = n
	cl.order = append(cl.order, s.Addr)
	prevCmd, prevAfter := s.Hooks.Command, s.Hooks.AfterExec
	s.Hooks.Command = func(c *Conn, req int, argv []string) (resp.Value, bool) {
		if prevCmd != nil {
			if v, ok := prevCmd(c, req, argv); ok {
				return v, true
			}
		}
		return cl.command(n, c, req, argv)
	}
	s.Hooks.AfterExec = func(c *Conn, req int, argv []string, reply resp.Value) {
		if prevAfter != nil {
			prevAfter(c, req, argv, reply)
		}
		// resetClient(): ASKING covers the next command, or the next MULTI..EXEC block
		if !c.inMulti && !strings.EqualFold(argv[0], "ASKING") {
			c.Asking = false
		}
	}
}

func (cl *Cluster) syncRolesLocked(shard int) {
	sh := cl.shards[shard]
	if n := cl.nodes[sh.primary]; n != nil {
		n.Srv.Role, n.Srv.MasterAddr = "master", ""
	}
	for _, r := range sh.replicas {
		if n := cl.nodes[r]; n != nil {
			n.Srv.Role, n.Srv.MasterAddr = "slave", sh.primary
		}
	}
}

// Node returns the member with that address (nil if unknown).
func (cl *Cluster) Node(addr string) *ClusterNode {
	cl.W.mu.Lock()
	defer cl.W.mu.Unlock()
	return cl.nodes[addr]
}

// AssignSlots gives the inclusive range to a shard (shard -1: nobody serves it) and drops any
// migration state and stale view of those slots.
func (cl *Cluster) AssignSlots(lo, hi, shard int) {
	cl.W.mu.Lock()
	defer cl.W.mu.Unlock()
	for s := lo; s <= hi && s < 16384; s++ {
		if s < 0 {
			continue
		}
		cl.owner[s] = int16(shard)
		delete(cl.migr, s)
	}
	cl.epoch++
}

// MoveSlots is AssignSlots for a resharding that has completed: every node agrees immediately.
func (cl *Cluster) MoveSlots(lo, hi, shard int) { cl.AssignSlots(lo, hi, shard) }

// StartMigration puts one slot into MIGRATING state on its owner and IMPORTING state on the primary
// of shard `to`. Keys in moved (all keys if all) count as already transferred: the owner answers
// -ASK for them, the target serves them after ASKING; the other keys are still served by the owner.
func (cl *Cluster) StartMigration(slot, to int, moved []string, all bool) bool {
	cl.W.mu.Lock()
	defer cl.W.mu.Unlock()
	from := int(cl.owner[slot])
	if from < 0 || from == to || to < 0 || to >= len(cl.shards) {
		return false
	}
	m := &migration{from: from, to: to, moved: map[string]bool{}, all: all}
	for _, k := range moved {
		m.moved[k] = true
	}
	cl.migr[slot] = m
	return true
}

// FinishMigration hands the slot to the importing shard (CLUSTER SETSLOT NODE on every node).
func (cl *Cluster) FinishMigration(slot int) bool {
	cl.W.mu.Lock()
	defer cl.W.mu.Unlock()
	m := cl.migr[slot]
	if m == nil {
		return false
	}
	cl.owner[slot] = int16(m.to)
	delete(cl.migr, slot)
	cl.epoch++
	return true
}

// AbortMigration returns the slot to STABLE state on both sides.
func (cl *Cluster) AbortMigration(slot int) {
	cl.W.mu.Lock()
	delete(cl.migr, slot)
	cl.W.mu.Unlock()
}

// SetView makes one node believe that the slots of the range belong to `shard` whatever the
// truth is (a node that missed a configuration update). Its redirects and its CLUSTER SLOTS /
// SHARDS answers follow that belief. ClearView heals the node.
func (cl *Cluster) SetView(node string, lo, hi, shard int) {
	cl.W.mu.Lock()
	defer cl.W.mu.Unlock()
	v := cl.views[node]
	if v == nil {
		v = map[int]int{}
		cl.views[node] = v
	}
	for s := lo; s <= hi; s++ {
		v[s] = shard
	}
}

func (cl *Cluster) ClearView(node string) {
	cl.W.mu.Lock()
	delete(cl.views, node)
	cl.W.mu.Unlock()
}

// Failover promotes the replica with that address; the old primary becomes a replica of it.
func (cl *Cluster) Failover(replica string) bool {
	cl.W.mu.Lock()
	defer cl.W.mu.Unlock()
	n := cl.nodes[replica]
	if n == nil {
		return false
	}
	sh := cl.shards[n.shard]
	for i, r := range sh.replicas {
		if r == replica {
			sh.replicas[i] = sh.primary
			sh.primary = replica
			cl.syncRolesLocked(n.shard)
			cl.epoch++
			return true
		}
	}
	return false
}

func (cl *Cluster) SetHealth(addr, health string) {
	cl.W.mu.Lock()
	if n := cl.nodes[addr]; n != nil {
		n.Health = health
		cl.epoch++
	}
	cl.W.mu.Unlock()
}

func (cl *Cluster) SetEndpoint(addr, kind string) {
	cl.W.mu.Lock()
	if n := cl.nodes[addr]; n != nil {
		n.Endpoint = kind
	}
	cl.W.mu.Unlock()
}

// SetPrimaryPos sets where the primary appears in the node list of CLUSTER SHARDS.
func (cl *Cluster) SetPrimaryPos(shard, pos int) {
	cl.W.mu.Lock()
	cl.shards[shard].primPos = pos
	cl.W.mu.Unlock()
}

// Owner returns the primary that truly serves the slot.
func (cl *Cluster) Owner(slot int) (string, bool) {
	cl.W.mu.Lock()
	defer cl.W.mu.Unlock()
	if o := cl.owner[slot]; o >= 0 {
		return cl.shards[o].primary, true
	}
	return "", false
}

// ShardNodes returns primary and replicas of a shard.
func (cl *Cluster) ShardNodes(shard int) (primary string, replicas []string) {
	cl.W.mu.Lock()
	defer cl.W.mu.Unlock()
	sh := cl.shards[shard]
	return sh.primary, append([]string(nil), sh.replicas...)
}

// Servers returns the member servers in registration order.
func (cl *Cluster) Servers() []*Server {
	cl.W.mu.Lock()
	defer cl.W.mu.Unlock()
	out := make([]*Server, 0, len(cl.order))
	for _, a := range cl.order {
		out = append(out, cl.nodes[a].Srv)
	}
	return out
}

// ---- command hook

func (cl *Cluster) ownerAs(n *ClusterNode, slot int) int {
	if v := cl.views[n.Srv.Addr]; v != nil {
		if sh, ok := v[slot]; ok {
			return sh
		}
	}
	return int(cl.owner[slot])
}

func (cl *Cluster) command(n *ClusterNode, c *Conn, req int, argv []string) (resp.Value, bool) {
	if cl.Before != nil {
		if v, ok := cl.Before(n, c, req, argv); ok {
			return v, true
		}
	}
	name := strings.ToUpper(argv[0])
	switch name {
	case "HELLO":
		v := n.Srv.cmdHello(c, argv)
		if v.T == '%' {
			for i := 0; i+1 < len(v.A); i += 2 {
				if v.A[i].S == "mode" {
					v.A[i+1] = resp.Bulk("cluster")
				}
			}
		}
		return v, true
	case "CLUSTER":
		if c.inMulti {
			return resp.Value{}, false
		}
		return cl.clusterCmd(n, c, argv), true
	case "SELECT":
		if len(argv) == 2 && argv[1] != "0" {
			return resp.Err("ERR SELECT is not allowed in cluster mode"), true
		}
		return resp.Value{}, false
	}
	keys := ClusterKeys(argv)
	if len(keys) == 0 {
		return resp.Value{}, false
	}
	slot := KeySlot(keys[0])
	for _, k := range keys[1:] {
		if KeySlot(k) != slot {
			return resp.Err("CROSSSLOT Keys in request don't hash to the same slot"), true
		}
	}
	return cl.route(n, c, name, slot, keys)
}

// route mirrors getNodeByQuery() of cluster.c for one command (the EXEC-time re-check of a queued
// transaction is not modelled: members are checked when they are queued).
func (cl *Cluster) route(n *ClusterNode, c *Conn, name string, slot int, keys []string) (resp.Value, bool) {
	serve := resp.Value{}
	owner := cl.ownerAs(n, slot)
	if owner < 0 || owner >= len(cl.shards) {
		return resp.Err("CLUSTERDOWN Hash slot not served"), true
	}
	me := n.Srv.Addr
	mySh := cl.shards[n.shard]
	m := cl.migr[slot]
	iAmPrimary := mySh.primary == me
	missing, existing := 0, 0
	if m != nil {
		for _, k := range keys {
			gone := m.all || m.moved[k] // gone from the source == present on the target
			if n.shard == m.to {
				gone = !gone
			}
			if gone {
				missing++
			} else {
				existing++
			}
		}
	}
	if owner == n.shard && iAmPrimary {
		if m != nil && m.from == n.shard && missing > 0 {
			if existing > 0 {
				return resp.Err("TRYAGAIN Multiple keys request during rehashing of slot"), true
			}
			return resp.Err(fmt.Sprintf("ASK %d %s", slot, cl.shards[m.to].primary)), true
		}
		return serve, false
	}
	if m != nil && m.to == n.shard && iAmPrimary && c != nil && c.Asking {
		if len(keys) > 1 && missing > 0 {
			return resp.Err("TRYAGAIN Multiple keys request during rehashing of slot"), true
		}
		return serve, false
	}
	if owner == n.shard && !iAmPrimary && c != nil && c.ReadOnly && !clusterIsWrite(name) {
		return serve, false
	}
	return resp.Err(fmt.Sprintf("MOVED %d %s", slot, cl.shards[owner].primary)), true
}

func (cl *Cluster) clusterCmd(n *ClusterNode, c *Conn, argv []string) resp.Value {
	if len(argv) < 2 {
		return errArity("CLUSTER")
	}
	sub := strings.ToUpper(argv[1])
	switch sub {
	case "SLOTS":
		cl.Answers = append(cl.Answers, TopologyAnswer{Seq: cl.W.seq, At: cl.W.Since(), Node: n.Srv.Addr, Conn: c.ID, Kind: "slots", Epoch: cl.epoch})
		return cl.encodeSlots(n)
	case "SHARDS":
		if major(n.Srv.Version) < 7 {
			break
		}
		cl.Answers = append(cl.Answers, TopologyAnswer{Seq: cl.W.seq, At: cl.W.Since(), Node: n.Srv.Addr, Conn: c.ID, Kind: "shards", Epoch: cl.epoch})
		return cl.encodeShards(n)
	case "MYID":
		return resp.Bulk(n.ID)
	case "KEYSLOT":
		if len(argv) != 3 {
			return errArity("CLUSTER|KEYSLOT")
		}
		return resp.Int(int64(KeySlot(argv[2])))
	case "INFO":
		return resp.Bulk("cluster_state:ok\r\ncluster_slots_assigned:16384\r\ncluster_known_nodes:" + strconv.Itoa(len(cl.order)) + "\r\n")
	}
	return resp.Err("ERR unknown subcommand '" + argv[1] + "'. Try CLUSTER HELP.")
}

func major(version string) int {
	v, _, _ := strings.Cut(version, ".")
	m, _ := strconv.Atoi(v)
	return m
}

func hostPort(addr string) (string, int64) {
	i := strings.LastIndexByte(addr, ':')
	if i < 0 {
		return addr, 0
	}
	p, _ := strconv.ParseInt(addr[i+1:], 10, 64)
	return strings.Trim(addr[:i], "[]"), p
}

type slotRange struct {
	lo, hi, shard int
}

// rangesAs returns the maximal ranges of equal owner as node n sees them, in slot order.
func (cl *Cluster) rangesAs(n *ClusterNode) []slotRange {
	var out []slotRange
	cur := slotRange{shard: -1}
	for s := 0; s < 16384; s++ {
		o := cl.ownerAs(n, s)
		if o >= len(cl.shards) {
			o = -1
		}
		if o == cur.shard && o >= 0 {
			cur.hi = s
			continue
		}
		if cur.shard >= 0 {
			out = append(out, cur)
		}
		cur = slotRange{lo: s, hi: s, shard: o}
	}
	if cur.shard >= 0 {
		out = append(out, cur)
	}
	return out
}

// CLUSTER SLOTS (Redis 7): one entry per range: start, end, primary, online replicas; a node is
// [preferred endpoint | null, port, id, metadata map].
func (cl *Cluster) encodeSlots(asked *ClusterNode) resp.Value {
	node := func(addr string) resp.Value {
		n := cl.nodes[addr]
		host, port := hostPort(addr)
		var ep resp.Value
		md := []resp.Value{}
		switch n.Endpoint {
		case "null":
			ep = resp.Null()
			md = append(md, resp.Bulk("ip"), resp.Bulk(host))
		case "?":
			ep = resp.Bulk("?")
			md = append(md, resp.Bulk("ip"), resp.Bulk(host))
		default:
			ep = resp.Bulk(host)
		}
		return resp.Arr(ep, resp.Int(port), resp.Bulk(n.ID), resp.Map(md...))
	}
	top := []resp.Value{}
	for _, r := range cl.rangesAs(asked) {
		sh := cl.shards[r.shard]
		a := []resp.Value{resp.Int(int64(r.lo)), resp.Int(int64(r.hi)), node(sh.primary)}
		for _, rep := range sh.replicas {
			if cl.nodes[rep].Health == "online" {
				a = append(a, node(rep))
			}
		}
		top = append(top, resp.Arr(a...))
	}
	return resp.Arr(top...)
}

// CLUSTER SHARDS (Redis 7): one map per shard: "slots" (flat start/end list) and "nodes" (maps with
// id, port, [tls-port], ip, endpoint, role, replication-offset, health); every node is listed.
func (cl *Cluster) encodeShards(asked *ClusterNode) resp.Value {
	per := make([][]resp.Value, len(cl.shards))
	for _, r := range cl.rangesAs(asked) {
		per[r.shard] = append(per[r.shard], resp.Int(int64(r.lo)), resp.Int(int64(r.hi)))
	}
	node := func(addr string, primary bool) resp.Value {
		n := cl.nodes[addr]
		host, port := hostPort(addr)
		kv := []resp.Value{resp.Bulk("id"), resp.Bulk(n.ID), resp.Bulk("port"), resp.Int(port)}
		if cl.TLSPort > 0 {
			kv = append(kv, resp.Bulk("tls-port"), resp.Int(port+int64(cl.TLSPort)))
		}
		ep := host
		switch n.Endpoint {
		case "null":
			ep = ""
		case "?":
			ep = "?"
		}
		role, off := "replica", int64(72156)
		if primary {
			role = "master"
		}
		if n.Health == "loading" {
			off = 0
		}
		kv = append(kv, resp.Bulk("ip"), resp.Bulk(host), resp.Bulk("endpoint"), resp.Bulk(ep), resp.Bulk("role"), resp.Bulk(role),
			resp.Bulk("replication-offset"), resp.Int(off), resp.Bulk("health"), resp.Bulk(n.Health))
		return resp.Map(kv...)
	}
	top := []resp.Value{}
	for i, sh := range cl.shards {
		nodes := []resp.Value{}
		pos := sh.primPos
		if pos < 0 {
			pos = 0
		}
		if pos > len(sh.replicas) {
			pos = len(sh.replicas)
		}
		for j, rep := range sh.replicas {
			if j == pos {
				nodes = append(nodes, node(sh.primary, true))
			}
			nodes = append(nodes, node(rep, false))
		}
		if pos >= len(sh.replicas) {
			nodes = append(nodes, node(sh.primary, true))
		}
		slots := per[i]
		if slots == nil {
			slots = []resp.Value{}
		}
		top = append(top, resp.Map(resp.Bulk("slots"), resp.Arr(slots...), resp.Bulk("nodes"), resp.Arr(nodes...)))
	}
	return resp.Arr(top...)
}

// Describe renders the truth for diagnostics.
func (cl *Cluster) Describe() string {
	cl.W.mu.Lock()
	defer cl.W.mu.Unlock()
	var b strings.Builder
	n0 := &ClusterNode{Srv: &Server{Addr: ""}}
	for _, r := range cl.rangesAs(n0) {
		sh := cl.shards[r.shard]
		fmt.Fprintf(&b, "%d-%d -> %s %v\n", r.lo, r.hi, sh.primary, sh.replicas)
	}
	slots := make([]int, 0, len(cl.migr))
	for s := range cl.migr {
		slots = append(slots, s)
	}
	sort.Ints(slots)
	for _, s := range slots {
		m := cl.migr[s]
		fmt.Fprintf(&b, "slot %d migrating %s -> %s\n", s, cl.shards[m.from].primary, cl.shards[m.to].primary)
	}
	return b.String()
}
