package fakeredis

import (
	"fmt"
	"sort"
	"strconv"
	"strings"

	"verifkit/resp"
)

// QueueHook lets a scenario reject a command at MULTI queue time (e.g. -MOVED inside MULTI).
type QueueHook func(c *Conn, argv []string) (errReply resp.Value, reject bool)

// dispatch runs one command of a connection with the world locked and returns the frames to
// send as its reply (pub/sub commands answer with pushes; most commands with one frame).
func (s *Server) dispatch(c *Conn, req int, argv []string) (out []resp.Value, closeConn bool) {
	if len(argv) == 0 {
		return []resp.Value{resp.Err("ERR empty command")}, false
	}
	name := strings.ToUpper(argv[0])
	one := func(v resp.Value) ([]resp.Value, bool) {
		if s.Hooks.AfterExec != nil {
			s.Hooks.AfterExec(c, req, argv, v)
		}
		return []resp.Value{v}, false
	}
	if !c.Authed && name != "HELLO" && name != "AUTH" && name != "QUIT" {
		return one(resp.Err("NOAUTH Authentication required."))
	}
	if s.Hooks.Command != nil && !c.inMulti {
		if v, ok := s.Hooks.Command(c, req, argv); ok {
			s.afterCommand(c, name)
			return one(v)
		}
	}
	// transaction queueing
	if c.inMulti {
		switch name {
		case "EXEC", "DISCARD", "MULTI", "WATCH", "QUIT", "RESET":
		default:
			if strings.HasSuffix(name, "SUBSCRIBE") {
				c.multiDirty = true
				return one(resp.Err("ERR Command not allowed inside a transaction"))
			}
			if _, known := table[name]; !known && !sessionCommand(name) {
				c.multiDirty = true
				return one(resp.Err(fmt.Sprintf("ERR unknown command '%s', with args beginning with: ", argv[0])))
			}
			if s.Hooks.Command != nil {
				if v, ok := s.Hooks.Command(c, req, argv); ok && v.IsErr() {
					c.multiDirty = true
					return one(v)
				}
			}
			c.multiQ = append(c.multiQ, argv)
			return one(resp.Simple("QUEUED"))
		}
	}
	switch name {
	case "HELLO":
		v := s.cmdHello(c, argv)
		return one(v)
	case "AUTH":
		var user, pass string
		if len(argv) == 2 {
			user, pass = "default", argv[1]
		} else if len(argv) == 3 {
			user, pass = argv[1], argv[2]
		} else {
			return one(errArity("AUTH"))
		}
		if !s.checkAuth(user, pass) {
			return one(resp.Err("WRONGPASS invalid username-password pair or user is disabled."))
		}
		c.User, c.Authed = user, true
		return one(resp.OK())
	case "QUIT":
		return []resp.Value{resp.OK()}, true
	case "PING":
		defer s.afterCommand(c, name)
		if c.Proto < 3 && (len(c.subs)+len(c.psubs)+len(c.ssubs)) > 0 {
			msg := ""
			if len(argv) > 1 {
				msg = argv[1]
			}
			return one(resp.Arr(resp.Bulk("pong"), resp.Bulk(msg)))
		}
		if len(argv) > 1 {
			return one(resp.Bulk(argv[1]))
		}
		return one(resp.Simple("PONG"))
	case "ECHO":
		defer s.afterCommand(c, name)
		if len(argv) != 2 {
			return one(errArity("ECHO"))
		}
		return one(resp.Bulk(argv[1]))
	case "SELECT":
		defer s.afterCommand(c, name)
		if len(argv) != 2 {
			return one(errArity("SELECT"))
		}
		n, err := strconv.Atoi(argv[1])
		if err != nil || n < 0 || n > 15 {
			return one(resp.Err("ERR DB index is out of range"))
		}
		c.DB = n
		return one(resp.OK())
	case "READONLY":
		c.ReadOnly = true
		return one(resp.OK())
	case "READWRITE":
		c.ReadOnly = false
		return one(resp.OK())
	case "ASKING":
		c.Asking = true
		return one(resp.OK())
	case "CLIENT":
		return one(s.cmdClient(c, argv))
	case "INFO":
		defer s.afterCommand(c, name)
		return one(resp.Bulk(fmt.Sprintf("# Server\r\nredis_version:%s\r\navailability_zone:%s\r\n# Replication\r\nrole:%s\r\n", s.Version, s.AZ, s.Role)))
	case "ROLE":
		defer s.afterCommand(c, name)
		if s.Role == "master" {
			return one(resp.Arr(resp.Bulk("master"), resp.Int(0), resp.Arr()))
		}
		h, p, _ := strings.Cut(s.MasterAddr, ":")
		pn, _ := strconv.Atoi(p)
		return one(resp.Arr(resp.Bulk("slave"), resp.Bulk(h), resp.Int(int64(pn)), resp.Bulk("connected"), resp.Int(0)))
	case "MULTI":
		if c.inMulti {
			return one(resp.Err("ERR MULTI calls can not be nested"))
		}
		c.inMulti, c.multiDirty, c.multiQ = true, false, nil
		return one(resp.OK())
	case "DISCARD":
		if !c.inMulti {
			return one(resp.Err("ERR DISCARD without MULTI"))
		}
		c.inMulti, c.multiQ, c.watch, c.watchDirty = false, nil, nil, false
		s.afterCommand(c, name)
		return one(resp.OK())
	case "WATCH":
		if c.inMulti {
			return one(resp.Err("ERR WATCH inside MULTI is not allowed"))
		}
		if c.watch == nil {
			c.watch = map[string]int64{}
		}
		for _, k := range argv[1:] {
			c.watch[k] = 1
		}
		return one(resp.OK())
	case "UNWATCH":
		c.watch, c.watchDirty = nil, false
		return one(resp.OK())
	case "EXEC":
		if !c.inMulti {
			return one(resp.Err("ERR EXEC without MULTI"))
		}
		q, dirty, wdirty := c.multiQ, c.multiDirty, c.watchDirty
		c.inMulti, c.multiQ, c.multiDirty, c.watch, c.watchDirty = false, nil, false, nil, false
		defer s.afterCommand(c, name)
		if dirty {
			return one(resp.Err("EXECABORT Transaction discarded because of previous errors."))
		}
		if wdirty {
			n := resp.Null()
			n.Null2 = '*'
			return one(n)
		}
		res := make([]resp.Value, 0, len(q))
		for _, qa := range q {
			r, _ := s.runCommand(c, req, qa)
			res = append(res, r...)
		}
		return one(resp.Arr(res...))
	case "SUBSCRIBE", "PSUBSCRIBE", "SSUBSCRIBE":
		if len(argv) < 2 {
			return one(errArity(name))
		}
		kind := strings.ToLower(name)
		mine, all := c.subSets(s, kind)
		for _, ch := range argv[1:] {
			mine[ch] = true
			set := all[ch]
			if set == nil {
				set = map[*Conn]bool{}
				all[ch] = set
			}
			set[c] = true
			out = append(out, resp.Push(resp.Bulk(kind), resp.Bulk(ch), resp.Int(int64(c.subCount(kind)))))
		}
		return out, false
	case "UNSUBSCRIBE", "PUNSUBSCRIBE", "SUNSUBSCRIBE":
		kind := strings.ToLower(name)
		skind := map[string]string{"unsubscribe": "subscribe", "punsubscribe": "psubscribe", "sunsubscribe": "ssubscribe"}[kind]
		mine, all := c.subSets(s, skind)
		chans := argv[1:]
		if len(chans) == 0 {
			for ch := range mine {
				chans = append(chans, ch)
			}
			sort.Strings(chans)
			if len(chans) == 0 {
				return []resp.Value{resp.Push(resp.Bulk(kind), resp.Null(), resp.Int(int64(c.subCount(skind))))}, false
			}
		}
		for _, ch := range chans {
			delete(mine, ch)
			if set := all[ch]; set != nil {
				delete(set, c)
				if len(set) == 0 {
					delete(all, ch)
				}
			}
			out = append(out, resp.Push(resp.Bulk(kind), resp.Bulk(ch), resp.Int(int64(c.subCount(skind)))))
		}
		return out, false
	}
	r, cl := s.runCommand(c, req, argv)
	s.afterCommand(c, name)
	if s.Hooks.AfterExec != nil && len(r) == 1 {
		s.Hooks.AfterExec(c, req, argv, r[0])
	}
	return r, cl
}

func sessionCommand(name string) bool {
	switch name {
	case "PING", "ECHO", "SELECT", "CLIENT", "INFO", "ROLE", "EVAL", "EVALSHA", "EVAL_RO", "EVALSHA_RO", "SCRIPT", "READONLY", "READWRITE", "ASKING", "HELLO", "AUTH", "UNWATCH":
		return true
	}
	return false
}

// afterCommand mirrors resetClient(): the CLIENT CACHING flag covers the next command, or the
// next transaction, and is dropped afterwards.
func (s *Server) afterCommand(c *Conn, name string) {
	if !c.inMulti && name != "CLIENT" {
		c.CachingNext = false
	}
}

// runCommand executes a non-session command (also the members of a transaction).
func (s *Server) runCommand(c *Conn, req int, argv []string) ([]resp.Value, bool) {
	name := strings.ToUpper(argv[0])
	caching := c.TrackMode != "optin" || c.CachingNext
	switch name {
	case "EVAL", "EVAL_RO":
		if len(argv) < 3 {
			return []resp.Value{errArity(name)}, false
		}
		s.scripts[sha1hex(argv[1])] = argv[1]
		return []resp.Value{s.runScript(c, name, argv[1], argv[2:], caching)}, false
	case "EVALSHA", "EVALSHA_RO":
		if len(argv) < 3 {
			return []resp.Value{errArity(name)}, false
		}
		body, ok := s.scripts[strings.ToLower(argv[1])]
		if !ok {
			return []resp.Value{resp.Err("NOSCRIPT No matching script. Please use EVAL.")}, false
		}
		return []resp.Value{s.runScript(c, name, body, argv[2:], caching)}, false
	case "SCRIPT":
		if len(argv) < 2 {
			return []resp.Value{errArity(name)}, false
		}
		switch strings.ToUpper(argv[1]) {
		case "LOAD":
			if len(argv) != 3 {
				return []resp.Value{errArity("SCRIPT|LOAD")}, false
			}
			if s.ScriptLoadFail > 0 {
				s.ScriptLoadFail--
				return []resp.Value{resp.Err("ERR fakeredis: SCRIPT LOAD failing by plan")}, false
			}
			sha := sha1hex(argv[2])
			s.scripts[sha] = argv[2]
			return []resp.Value{resp.Bulk(sha)}, false
		case "FLUSH":
			s.scripts = map[string]string{}
			return []resp.Value{resp.OK()}, false
		case "EXISTS":
			var out []resp.Value
			for _, h := range argv[2:] {
				if _, ok := s.scripts[strings.ToLower(h)]; ok {
					out = append(out, resp.Int(1))
				} else {
					out = append(out, resp.Int(0))
				}
			}
			return []resp.Value{resp.Arr(out...)}, false
		}
		return []resp.Value{resp.Err("ERR unknown subcommand")}, false
	case "PING":
		return []resp.Value{resp.Simple("PONG")}, false
	case "ECHO":
		if len(argv) != 2 {
			return []resp.Value{errArity("ECHO")}, false
		}
		return []resp.Value{resp.Bulk(argv[1])}, false
	case "SELECT", "CLIENT", "INFO", "ROLE", "READONLY", "READWRITE", "UNWATCH":
		// inside a transaction these run like outside
		r, cl := s.dispatchSimple(c, req, argv)
		return r, cl
	}
	if s.ReadOnlyReplica && IsWriteCommand(name) {
		return []resp.Value{resp.Err("READONLY You can't write against a read only replica.")}, false
	}
	return []resp.Value{s.execDataOpt(c, argv, caching)}, false
}

func (s *Server) dispatchSimple(c *Conn, req int, argv []string) ([]resp.Value, bool) {
	was := c.inMulti
	c.inMulti = false
	r, cl := s.dispatch(c, req, argv)
	c.inMulti = was
	return r, cl
}

func (c *Conn) subSets(s *Server, kind string) (mine map[string]bool, all map[string]map[*Conn]bool) {
	switch kind {
	case "psubscribe":
		return c.psubs, s.ppubsub
	case "ssubscribe":
		return c.ssubs, s.spubsub
	}
	return c.subs, s.pubsub
}

func (c *Conn) subCount(kind string) int {
	if kind == "ssubscribe" {
		return len(c.ssubs)
	}
	return len(c.subs) + len(c.psubs)
}

func (s *Server) checkAuth(user, pass string) bool {
	if len(s.Users) == 0 {
		return true // no password configured: Redis accepts AUTH for the default user only with... keep permissive
	}
	p, ok := s.Users[user]
	return ok && p == pass
}

func (s *Server) cmdHello(c *Conn, argv []string) resp.Value {
	if s.NoHello {
		return resp.Err("ERR unknown command 'HELLO', with args beginning with: ")
	}
	proto := c.Proto
	i := 1
	if len(argv) > 1 {
		n, err := strconv.Atoi(argv[1])
		if err != nil || n < 2 || n > 3 {
			return resp.Err("NOPROTO unsupported protocol version")
		}
		proto = n
		i = 2
	}
	user, authed, name := c.User, c.Authed, c.Name
	for i < len(argv) {
		switch strings.ToUpper(argv[i]) {
		case "AUTH":
			if i+2 >= len(argv) {
				return errSyntax
			}
			if !s.checkAuth(argv[i+1], argv[i+2]) {
				return resp.Err("WRONGPASS invalid username-password pair or user is disabled.")
			}
			user, authed = argv[i+1], true
			i += 3
		case "SETNAME":
			if i+1 >= len(argv) {
				return errSyntax
			}
			name = argv[i+1]
			i += 2
		default:
			return errSyntax
		}
	}
	if !authed {
		return resp.Err("NOAUTH HELLO must be called with the client already authenticated, otherwise the HELLO <proto> AUTH <user> <pass> option can be used to authenticate the client and select the RESP protocol version at the same time")
	}
	if s.Proto2 && proto == 3 {
		proto = 2
	}
	c.User, c.Authed, c.Name, c.Proto = user, authed, name, proto
	kv := []resp.Value{
		resp.Bulk("server"), resp.Bulk("redis"),
		resp.Bulk("version"), resp.Bulk(s.Version),
		resp.Bulk("proto"), resp.Int(int64(proto)),
		resp.Bulk("id"), resp.Int(int64(c.ID + 1)),
		resp.Bulk("mode"), resp.Bulk("standalone"),
		resp.Bulk("role"), resp.Bulk(s.Role),
		resp.Bulk("modules"), resp.Arr(),
	}
	if s.AZ != "" {
		kv = append(kv, resp.Bulk("availability_zone"), resp.Bulk(s.AZ))
	}
	return resp.Map(kv...)
}

func (s *Server) cmdClient(c *Conn, argv []string) resp.Value {
	if len(argv) < 2 {
		return errArity("CLIENT")
	}
	onoff := func(v string) (bool, bool) {
		switch strings.ToUpper(v) {
		case "ON", "YES":
			return true, true
		case "OFF", "NO":
			return false, true
		}
		return false, false
	}
	switch strings.ToUpper(argv[1]) {
	case "ID":
		return resp.Int(int64(c.ID + 1))
	case "GETNAME":
		if c.Name == "" {
			return resp.Null()
		}
		return resp.Bulk(c.Name)
	case "SETNAME":
		if len(argv) != 3 {
			return errArity("CLIENT|SETNAME")
		}
		c.Name = argv[2]
		return resp.OK()
	case "SETINFO":
		if len(argv) != 4 {
			return errArity("CLIENT|SETINFO")
		}
		switch strings.ToUpper(argv[2]) {
		case "LIB-NAME":
			c.LibName = argv[3]
		case "LIB-VER":
			c.LibVer = argv[3]
		default:
			return resp.Err("ERR Unrecognized option '" + argv[2] + "'")
		}
		return resp.OK()
	case "NO-TOUCH":
		if len(argv) != 3 {
			return errArity("CLIENT|NO-TOUCH")
		}
		b, ok := onoff(argv[2])
		if !ok {
			return errSyntax
		}
		c.NoTouch = b
		return resp.OK()
	case "NO-EVICT":
		if len(argv) != 3 {
			return errArity("CLIENT|NO-EVICT")
		}
		b, ok := onoff(argv[2])
		if !ok {
			return errSyntax
		}
		c.NoEvict = b
		return resp.OK()
	case "CAPA":
		c.Capa = append(c.Capa, argv[2:]...)
		return resp.OK()
	case "CACHING":
		if len(argv) != 3 {
			return errArity("CLIENT|CACHING")
		}
		if !c.Tracking || (c.TrackMode != "optin" && c.TrackMode != "optout") {
			return resp.Err("ERR CLIENT CACHING can be called only when the client is in tracking mode with OPTIN or OPTOUT mode enabled")
		}
		b, ok := onoff(argv[2])
		if !ok {
			return errSyntax
		}
		if c.TrackMode == "optin" {
			c.CachingNext = b
		}
		return resp.OK()
	case "TRACKING":
		if len(argv) < 3 {
			return errArity("CLIENT|TRACKING")
		}
		on, ok := onoff(argv[2])
		if !ok {
			return errSyntax
		}
		if !on {
			c.Tracking, c.TrackMode, c.TrackPrefixes, c.TrackNoLoop, c.CachingNext = false, "", nil, false, false
			for k, set := range s.tracked {
				delete(set, c)
				if len(set) == 0 {
					delete(s.tracked, k)
				}
			}
			return resp.OK()
		}
		if c.Proto < 3 {
			return resp.Err("ERR Client tracking is only supported in RESP3 unless REDIRECT is used")
		}
		mode, noloop := "", false
		var prefixes []string
		for i := 3; i < len(argv); i++ {
			switch strings.ToUpper(argv[i]) {
			case "OPTIN":
				if mode != "" {
					return resp.Err("ERR You can't specify both OPTIN mode and OPTOUT mode")
				}
				mode = "optin"
			case "OPTOUT":
				if mode != "" {
					return resp.Err("ERR You can't specify both OPTIN mode and OPTOUT mode")
				}
				mode = "optout"
			case "BCAST":
				if mode != "" {
					return resp.Err("ERR OPTIN and OPTOUT are not compatible with BCAST")
				}
				mode = "bcast"
			case "NOLOOP":
				noloop = true
			case "PREFIX":
				if i+1 >= len(argv) {
					return errSyntax
				}
				prefixes = append(prefixes, argv[i+1])
				i++
			default:
				return errSyntax
			}
		}
		if len(prefixes) > 0 && mode != "bcast" {
			return resp.Err("ERR PREFIX option requires BCAST mode to be enabled")
		}
		if mode == "" {
			mode = "default"
		}
		c.Tracking, c.TrackMode, c.TrackPrefixes, c.TrackNoLoop = true, mode, prefixes, noloop
		return resp.OK()
	}
	return resp.Err("ERR unknown subcommand '" + argv[1] + "'. Try CLIENT HELP.")
}
