package fakeredis

import "sort"

// ConnState is a copy of a connection's session state, taken under the world lock.
type ConnState struct {
	ID                 int
	Dead               bool
	Proto              int
	User               string
	Authed             bool
	Name               string
	DB                 int
	LibName, LibVer    string
	NoTouch, NoEvict   bool
	ReadOnly           bool
	Capa               []string
	Tracking           bool
	TrackMode          string
	TrackPrefixes      []string
	TrackNoLoop        bool
	InMulti            bool
	Queued             int      // commands queued in the open transaction
	Watching           []string // keys under WATCH
	WatchDirty         bool
	Subs, PSubs, SSubs []string
	Requests           int // commands received so far
}

func sortedKeys(m map[string]bool) []string {
	out := make([]string, 0, len(m))
	for k := range m {
		out = append(out, k)
	}
	sort.Strings(out)
	return out
}

// Snapshot returns the connection's session state. It takes the world lock, so it must not be
// called from Hooks.Command / Hooks.AfterExec (which run with the lock held); Hooks.Fault and
// Hooks.Latency run without it, before the command is executed.
func (c *Conn) Snapshot() ConnState {
	c.S.W.mu.Lock()
	defer c.S.W.mu.Unlock()
	st := ConnState{
		ID: c.ID, Proto: c.Proto, User: c.User, Authed: c.Authed, Name: c.Name, DB: c.DB,
		LibName: c.LibName, LibVer: c.LibVer, NoTouch: c.NoTouch, NoEvict: c.NoEvict, ReadOnly: c.ReadOnly,
		Capa:     append([]string(nil), c.Capa...),
		Tracking: c.Tracking, TrackMode: c.TrackMode, TrackPrefixes: append([]string(nil), c.TrackPrefixes...), TrackNoLoop: c.TrackNoLoop,
		InMulti: c.inMulti, Queued: len(c.multiQ), WatchDirty: c.watchDirty,
		Subs: sortedKeys(c.subs), PSubs: sortedKeys(c.psubs), SSubs: sortedKeys(c.ssubs),
	}
	for k := range c.watch {
		st.Watching = append(st.Watching, k)
	}
	sort.Strings(st.Watching)
	c.mu.Lock()
	st.Dead, st.Requests = c.dead, c.nreq
	c.mu.Unlock()
	return st
}

// SubCount returns the number of channels, patterns and shard channels the connection is subscribed to.
func (c *Conn) SubCount() int {
	c.S.W.mu.Lock()
	defer c.S.W.mu.Unlock()
	return len(c.subs) + len(c.psubs) + len(c.ssubs)
}
