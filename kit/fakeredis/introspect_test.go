package fakeredis

import (
	"bufio"
	"reflect"
	"testing"
	"testing/synctest"

	"verifkit/resp"
)

func TestIntrospectSnapshot(t *testing.T) {
	synctest.Test(t, func(t *testing.T) {
		w := NewWorld()
		s := w.NewServer("a:1")
		s.Users = map[string]string{"u": "p"}
		nc, err := w.Dial("a:1")
		if err != nil {
			t.Fatal(err)
		}
		r := bufio.NewReader(nc)
		do := func(argv ...string) resp.Value {
			vs := make([]resp.Value, len(argv))
			for i, a := range argv {
				vs[i] = resp.Bulk(a)
			}
			if _, err := nc.Write(resp.Append(nil, resp.Arr(vs...))); err != nil {
				t.Fatal(err)
			}
			v, err := resp.Read(r)
			if err != nil {
				t.Fatal(err)
			}
			return v
		}
		c := s.Conns()[0]
		if st := c.Snapshot(); st.Authed || st.Proto != 2 || st.Tracking || st.InMulti || len(st.Subs) != 0 {
			t.Fatalf("fresh connection: %+v", st)
		}
		do("HELLO", "3", "AUTH", "u", "p", "SETNAME", "me")
		do("SELECT", "2")
		do("CLIENT", "TRACKING", "ON", "BCAST", "PREFIX", "a", "NOLOOP")
		do("CLIENT", "NO-TOUCH", "ON")
		do("CLIENT", "SETINFO", "LIB-NAME", "x")
		do("WATCH", "k1", "k0")
		do("MULTI")
		do("SET", "k", "v")
		st := c.Snapshot()
		if !st.Authed || st.User != "u" || st.Proto != 3 || st.Name != "me" || st.DB != 2 || !st.NoTouch || st.NoEvict || st.LibName != "x" {
			t.Fatalf("session: %+v", st)
		}
		if !st.Tracking || st.TrackMode != "bcast" || !st.TrackNoLoop || !reflect.DeepEqual(st.TrackPrefixes, []string{"a"}) {
			t.Fatalf("tracking: %+v", st)
		}
		if !st.InMulti || st.Queued != 1 || !reflect.DeepEqual(st.Watching, []string{"k0", "k1"}) || st.Requests != 8 {
			t.Fatalf("transaction: %+v", st)
		}
		do("EXEC")
		do("SUBSCRIBE", "b")
		do("SUBSCRIBE", "a")
		do("PSUBSCRIBE", "p*")
		st = c.Snapshot()
		if st.InMulti || len(st.Watching) != 0 || !reflect.DeepEqual(st.Subs, []string{"a", "b"}) || !reflect.DeepEqual(st.PSubs, []string{"p*"}) || c.SubCount() != 3 {
			t.Fatalf("subscriptions: %+v", st)
		}
		do("CLIENT", "TRACKING", "OFF")
		if st = c.Snapshot(); st.Tracking || st.TrackMode != "" {
			t.Fatalf("tracking off: %+v", st)
		}
		c.Kill()
		if st = c.Snapshot(); !st.Dead {
			t.Fatalf("killed: %+v", st)
		}
		w.Stop()
	})
}
