package fakeredis

import (
	"bufio"
	"testing"
	"testing/synctest"
	"time"

	"verifkit/resp"
)

func TestInspectAddons(t *testing.T) {
	synctest.Test(t, func(t *testing.T) {
		w := NewWorld()
		s := w.NewServer("a:1")
		nc, err := w.Dial("a:1")
		if err != nil {
			t.Fatal(err)
		}
		r := bufio.NewReader(nc)
		do := func(argv ...string) resp.Value {
			vs := make([]resp.Value, len(argv))
			for i, a := range argv {
				vs[i] = resp.Bulk(a)
			}
			if _, err := nc.Write(resp.Append(nil, resp.Arr(vs...))); err != nil {
				t.Fatal(err)
			}
			v, err := resp.Read(r)
			if err != nil {
				t.Fatal(err)
			}
			return v
		}
		do("HELLO", "3", "SETNAME", "me")
		if cs := s.ConnsNamed("me"); len(cs) != 1 || cs[0].ClientName() != "me" {
			t.Fatalf("ConnsNamed: %v", cs)
		}
		if cs := s.ConnsNamed("other"); len(cs) != 0 {
			t.Fatalf("ConnsNamed(other): %v", cs)
		}
		do("CLIENT", "TRACKING", "ON")
		if _, ok := s.PeekString("k"); ok {
			t.Fatal("missing key reported")
		}
		do("SET", "k", "v", "PX", "100")
		do("HSET", "h", "f", "x")
		n := len(w.Snapshot())
		if v, ok := s.PeekString("k"); !ok || v != "v" {
			t.Fatalf("PeekString = %q %v", v, ok)
		}
		if _, ok := s.PeekString("h"); ok {
			t.Fatal("hash reported as string")
		}
		w.Lock()
		at, ok := s.PeekExpireAtLocked("k")
		w.Unlock()
		if !ok || at != time.Now().UnixMilli()+100 {
			t.Fatalf("PeekExpireAtLocked = %d %v", at, ok)
		}
		if len(w.Snapshot()) != n {
			t.Fatal("peeking logged events")
		}
		// peeking does not track: a later write must not push an invalidation to this connection
		s.Do("SET", "k", "w", "PX", "100")
		time.Sleep(99 * time.Millisecond)
		if v, ok := s.PeekString("k"); !ok || v != "w" {
			t.Fatalf("before expiry: %q %v", v, ok)
		}
		time.Sleep(time.Millisecond)
		if _, ok := s.PeekString("k"); ok {
			t.Fatal("expired key still visible")
		}
		for _, e := range w.Snapshot() {
			if e.Kind == "push" {
				t.Fatalf("unexpected push %v", e)
			}
		}
		nc.Close()
		w.Stop()
	})
}
