package fakeredis

import (
	"strings"

	"verifkit/resp"
)

// SCRIPT LOAD|FLUSH|EXISTS for external clients: Server.Do only reaches the data-command table,
// while connections handle SCRIPT in runCommand (dispatch.go) before they get there. Registering
// the command here lets a scenario change the script cache "as another client" with
// srv.Do("SCRIPT", "FLUSH") / srv.Do("SCRIPT", "LOAD", body); the connection path is unchanged.
//
// ScriptLoadFail is a fault plan for the client under test: an external SCRIPT LOAD (c == nil)
// neither fails nor consumes it.
func init() {
	table["SCRIPT"] = cmdInfo{false, noKeys, cmdScriptExternal, 2}
}

func cmdScriptExternal(s *Server, c *Conn, db int, a []string) resp.Value {
	switch strings.ToUpper(a[1]) {
	case "LOAD":
		if len(a) != 3 {
			return errArity("SCRIPT|LOAD")
		}
		if c != nil && s.ScriptLoadFail > 0 {
			s.ScriptLoadFail--
			return resp.Err("ERR fakeredis: SCRIPT LOAD failing by plan")
		}
		sha := sha1hex(a[2])
		s.scripts[sha] = a[2]
		return resp.Bulk(sha)
	case "FLUSH":
		s.scripts = map[string]string{}
		return resp.OK()
	case "EXISTS":
		out := make([]resp.Value, 0, len(a)-2)
		for _, h := range a[2:] {
			if _, ok := s.scripts[strings.ToLower(h)]; ok {
				out = append(out, resp.Int(1))
			} else {
				out = append(out, resp.Int(0))
			}
		}
		return resp.Arr(out...)
	}
	return resp.Err("ERR unknown subcommand")
}
