package fakeredis

import (
	"math/bits"
	"strconv"
	"strings"

	"verifkit/resp"
)

// Sparse bitmaps.
//
// Redis materialises a bitmap as a string of (highest offset)/8 bytes; commands.go does the same
// and copies that string on every BITFIELD. That is fine up to a few hundred kilobytes, but a Bloom
// filter of the probabilistic add-on may legally have 2^32 bits (512 MiB). This file keeps string
// values that bit commands grow beyond SparseThresholdBytes in a paged representation (1 KiB pages
// allocated on first write, string length tracked separately) so that SETBIT / GETBIT / BITFIELD /
// BITFIELD_RO / BITCOUNT on huge offsets cost a page, not the bitmap.
//
// Semantics stay those of a Redis string:
//   - values up to SparseThresholdBytes are handled by the byte-string code of commands.go, exactly
//     as before (BITFIELD is delegated to cmdBitfield);
//   - a value becomes sparse only when a bit write needs more than the threshold; it is then an entry
//     of kind 'b' whose j field holds the *sparseBitmap. Key-level commands (DEL, EXISTS, RENAME,
//     EXPIRE family, TTL, KEYS, DBSIZE, FLUSH*, WATCH, tracking) do not look at the kind. Commands of
//     other types answer WRONGTYPE as they do for any string. String commands (GET, GETDEL, APPEND,
//     GETRANGE, INCR family, MGET, SET ... GET) first turn the value back into a byte string
//     (refused above SparseMaterialiseLimit), STRLEN and TYPE answer from the sparse form, plain SET
//     simply replaces it.
//   - version counter, expiry and invalidation behaviour are those of the dense code: every bit write
//     bumps the key, the expiry is kept.
var (
	SparseThresholdBytes   int64 = 1 << 16
	SparseMaterialiseLimit int64 = 64 << 20
)

const sparsePage = 1024

type sparseBitmap struct {
	pages  map[int64][]byte
	length int64 // length of the string in bytes
}

func newSparse(dense string) *sparseBitmap {
	b := &sparseBitmap{pages: map[int64][]byte{}, length: int64(len(dense))}
	for i := 0; i < len(dense); i++ {
		if dense[i] != 0 {
			b.page(int64(i), true)[int64(i)%sparsePage] = dense[i]
		}
	}
	return b
}

func (b *sparseBitmap) page(i int64, create bool) []byte {
	p := b.pages[i/sparsePage]
	if p == nil && create {
		p = make([]byte, sparsePage)
		b.pages[i/sparsePage] = p
	}
	return p
}

func (b *sparseBitmap) byteAt(i int64) byte {
	if i >= b.length {
		return 0
	}
	if p := b.page(i, false); p != nil {
		return p[i%sparsePage]
	}
	return 0
}

func (b *sparseBitmap) grow(n int64) {
	if n > b.length {
		b.length = n
	}
}

func (b *sparseBitmap) getBits(off, w int64) int64 {
	var v int64
	for i := int64(0); i < w; i++ {
		bit := off + i
		v = v<<1 | int64(b.byteAt(bit/8)>>(7-uint(bit%8))&1)
	}
	return v
}

func (b *sparseBitmap) setBits(off, w, val int64) {
	b.grow((off + w + 7) / 8)
	for i := int64(0); i < w; i++ {
		bit := off + i
		mask := byte(1) << (7 - uint(bit%8))
		if val>>uint(w-1-i)&1 == 1 {
			b.page(bit/8, true)[(bit/8)%sparsePage] |= mask
		} else if p := b.page(bit/8, false); p != nil {
			p[(bit/8)%sparsePage] &^= mask
		}
	}
}

func (b *sparseBitmap) dense() string {
	out := make([]byte, b.length)
	for pi, p := range b.pages {
		base := pi * sparsePage
		if base >= b.length {
			continue
		}
		copy(out[base:], p)
	}
	return string(out)
}

// popcount of the bytes [from, to] (inclusive), restricted to the bits [firstBit, lastBit] when
// bitwise is set.
func (b *sparseBitmap) count(from, to int64) int64 {
	n := int64(0)
	for pi, p := range b.pages {
		base := pi * sparsePage
		if base > to || base+sparsePage <= from {
			continue
		}
		for j, x := range p {
			if i := base + int64(j); x != 0 && i >= from && i <= to && i < b.length {
				n += int64(bits.OnesCount8(x))
			}
		}
	}
	return n
}

func sparseOf(e *entry) *sparseBitmap {
	if e == nil || e.kind != 'b' {
		return nil
	}
	return e.j.(*sparseBitmap)
}

// bitValue gives read access to the string value of e in either representation.
type bitValue struct {
	dense  string
	sparse *sparseBitmap
}

func bitValueOf(e *entry) bitValue {
	if e == nil {
		return bitValue{}
	}
	if sb := sparseOf(e); sb != nil {
		return bitValue{sparse: sb}
	}
	return bitValue{dense: e.s}
}

func (v bitValue) length() int64 {
	if v.sparse != nil {
		return v.sparse.length
	}
	return int64(len(v.dense))
}

func (v bitValue) byteAt(i int64) byte {
	if v.sparse != nil {
		return v.sparse.byteAt(i)
	}
	if i < int64(len(v.dense)) {
		return v.dense[i]
	}
	return 0
}

func (v bitValue) count(from, to int64) int64 {
	if v.sparse != nil {
		return v.sparse.count(from, to)
	}
	n := int64(0)
	for i := from; i <= to && i < int64(len(v.dense)); i++ {
		n += int64(bits.OnesCount8(v.dense[i]))
	}
	return n
}

// makeSparse replaces the (string or missing) value of key by its sparse form and returns it.
func (s *Server) makeSparse(db int, key string, e *entry) (*entry, *sparseBitmap) {
	if sb := sparseOf(e); sb != nil {
		return e, sb
	}
	ne := &entry{kind: 'b'}
	dense := ""
	if e != nil {
		dense, ne.ver, ne.expireAt = e.s, e.ver, e.expireAt
	}
	sb := newSparse(dense)
	ne.j = sb
	s.ks(db).m[key] = ne
	return ne, sb
}

// materialise turns a sparse value back into a byte string (same version, same expiry).
func (s *Server) materialise(db int, key string, e *entry) *resp.Value {
	sb := sparseOf(e)
	if sb == nil {
		return nil
	}
	if sb.length > SparseMaterialiseLimit {
		v := resp.Err("ERR fakeredis: the bitmap at this key is " + strconv.FormatInt(sb.length, 10) + " bytes long and kept sparse; it is not turned into a byte string for this command")
		return &v
	}
	s.ks(db).m[key] = &entry{kind: 's', s: sb.dense(), ver: e.ver, expireAt: e.expireAt}
	return nil
}

type bitfieldOp struct {
	kind   byte // g s i
	w, off int64
	val    int64
}

// parseBitfield mirrors the argument checks of cmdBitfield and additionally reports how long the
// string has to be for the writes.
func parseBitfield(a []string, ro bool) (ops []bitfieldOp, need int64, bad *resp.Value) {
	fail := func(v resp.Value) ([]bitfieldOp, int64, *resp.Value) { return nil, 0, &v }
	field := func(enc, offs string) (w, off int64, bad *resp.Value) {
		if len(enc) < 2 || (enc[0] != 'u' && enc[0] != 'U') {
			v := resp.Err("ERR fakeredis: only unsigned BITFIELD encodings are implemented")
			return 0, 0, &v
		}
		w, err := strconv.ParseInt(enc[1:], 10, 64)
		if err != nil || w < 1 || w > 63 {
			v := resp.Err("ERR Invalid bitfield type. Use something like i16 u8. Note that u64 is not supported but i64 is.")
			return 0, 0, &v
		}
		mul := int64(1)
		if strings.HasPrefix(offs, "#") {
			mul, offs = w, offs[1:]
		}
		off, err = strconv.ParseInt(offs, 10, 64)
		if err != nil || off < 0 {
			v := resp.Err("ERR bit offset is not an integer or out of range")
			return 0, 0, &v
		}
		return w, off * mul, nil
	}
	for i := 2; i < len(a); {
		switch strings.ToUpper(a[i]) {
		case "GET":
			if i+2 >= len(a) {
				return fail(errSyntax)
			}
			w, off, bad := field(a[i+1], a[i+2])
			if bad != nil {
				return nil, 0, bad
			}
			ops = append(ops, bitfieldOp{kind: 'g', w: w, off: off})
			i += 3
		case "SET", "INCRBY":
			if ro {
				return fail(resp.Err("ERR BITFIELD_RO only supports the GET subcommand"))
			}
			if i+3 >= len(a) {
				return fail(errSyntax)
			}
			w, off, bad := field(a[i+1], a[i+2])
			if bad != nil {
				return nil, 0, bad
			}
			val, err := strconv.ParseInt(a[i+3], 10, 64)
			if err != nil {
				return fail(errNotInt)
			}
			k := byte('s')
			if strings.ToUpper(a[i]) == "INCRBY" {
				k = 'i'
			}
			ops = append(ops, bitfieldOp{kind: k, w: w, off: off, val: val})
			if n := (off + w + 7) / 8; n > need {
				need = n
			}
			i += 4
		case "OVERFLOW":
			i += 2
		default:
			return fail(errSyntax)
		}
	}
	return ops, need, nil
}

func cmdBitfieldSparse(s *Server, c *Conn, db int, a []string) resp.Value {
	ro := strings.ToUpper(a[0]) == "BITFIELD_RO"
	e := s.get(db, a[1])
	if e != nil && e.kind != 's' && e.kind != 'b' {
		return errWrongType
	}
	ops, need, bad := parseBitfield(a, ro)
	if e == nil || e.kind == 's' {
		// small values stay byte strings and keep the code path they always had
		cur := int64(0)
		if e != nil {
			cur = int64(len(e.s))
		}
		if bad != nil || need == 0 || (need <= SparseThresholdBytes && cur <= SparseThresholdBytes) {
			return cmdBitfield(s, c, db, a)
		}
	}
	if bad != nil {
		return *bad
	}
	var sb *sparseBitmap
	if need > 0 {
		e, sb = s.makeSparse(db, a[1], e)
	} else {
		sb = sparseOf(e)
	}
	out := make([]resp.Value, 0, len(ops))
	for _, op := range ops {
		switch op.kind {
		case 'g':
			out = append(out, resp.Int(sb.getBits(op.off, op.w)))
		case 's':
			out = append(out, resp.Int(sb.getBits(op.off, op.w)))
			sb.setBits(op.off, op.w, op.val&(1<<uint(op.w)-1))
		case 'i':
			nv := (sb.getBits(op.off, op.w) + op.val) & (1<<uint(op.w) - 1)
			sb.setBits(op.off, op.w, nv)
			out = append(out, resp.Int(nv))
		}
	}
	if need > 0 {
		s.bump(db, a[1], e, c)
	}
	return resp.Arr(out...)
}

func parseBitOffset(sv string) (int64, bool) {
	off, err := strconv.ParseInt(sv, 10, 64)
	return off, err == nil && off >= 0 && off < 1<<32
}

var errBitOffset = resp.Err("ERR bit offset is not an integer or out of range")

func cmdSetBit(s *Server, c *Conn, db int, a []string) resp.Value {
	if len(a) != 4 {
		return errArity("SETBIT")
	}
	off, ok := parseBitOffset(a[2])
	if !ok {
		return errBitOffset
	}
	if a[3] != "0" && a[3] != "1" {
		return resp.Err("ERR bit is not an integer or out of range")
	}
	e := s.get(db, a[1])
	if e != nil && e.kind != 's' && e.kind != 'b' {
		return errWrongType
	}
	val := int64(a[3][0] - '0')
	need := off/8 + 1
	if e == nil || e.kind == 's' {
		cur := ""
		if e != nil {
			cur = e.s
		}
		if need <= SparseThresholdBytes && int64(len(cur)) <= SparseThresholdBytes {
			data := []byte(cur)
			for int64(len(data)) < need {
				data = append(data, 0)
			}
			mask := byte(1) << (7 - uint(off%8))
			old := int64(0)
			if data[off/8]&mask != 0 {
				old = 1
			}
			if val == 1 {
				data[off/8] |= mask
			} else {
				data[off/8] &^= mask
			}
			s.setString(db, a[1], string(data), c, true)
			return resp.Int(old)
		}
	}
	e, sb := s.makeSparse(db, a[1], e)
	old := sb.getBits(off, 1)
	sb.setBits(off, 1, val)
	s.bump(db, a[1], e, c)
	return resp.Int(old)
}

func cmdGetBit(s *Server, c *Conn, db int, a []string) resp.Value {
	if len(a) != 3 {
		return errArity("GETBIT")
	}
	off, ok := parseBitOffset(a[2])
	if !ok {
		return errBitOffset
	}
	e := s.get(db, a[1])
	if e != nil && e.kind != 's' && e.kind != 'b' {
		return errWrongType
	}
	return resp.Int(int64(bitValueOf(e).byteAt(off/8) >> (7 - uint(off%8)) & 1))
}

// BITCOUNT key [start end [BYTE|BIT]]
func cmdBitCount(s *Server, c *Conn, db int, a []string) resp.Value {
	if len(a) != 2 && len(a) != 4 && len(a) != 5 {
		return errSyntax
	}
	bitwise := false
	if len(a) == 5 {
		switch strings.ToUpper(a[4]) {
		case "BIT":
			bitwise = true
		case "BYTE":
		default:
			return errSyntax
		}
	}
	var start, end int64
	if len(a) >= 4 {
		var err1, err2 error
		start, err1 = strconv.ParseInt(a[2], 10, 64)
		end, err2 = strconv.ParseInt(a[3], 10, 64)
		if err1 != nil || err2 != nil {
			return errNotInt
		}
	}
	e := s.get(db, a[1])
	if e != nil && e.kind != 's' && e.kind != 'b' {
		return errWrongType
	}
	v := bitValueOf(e)
	n := v.length()
	if n == 0 {
		return resp.Int(0)
	}
	if len(a) == 2 {
		return resp.Int(v.count(0, n-1))
	}
	total := n
	if bitwise {
		total = n * 8
	}
	if start < 0 {
		start = max(total+start, 0)
	}
	if end < 0 {
		end = max(total+end, 0)
	}
	if end >= total {
		end = total - 1
	}
	if start > end {
		return resp.Int(0)
	}
	if !bitwise {
		return resp.Int(v.count(start, end))
	}
	// whole bytes in the middle, single bits at the ragged ends
	cnt := int64(0)
	first, last := start/8, end/8
	for bit := start; bit <= end && bit/8 == first; bit++ {
		cnt += int64(v.byteAt(bit/8) >> (7 - uint(bit%8)) & 1)
	}
	if last > first {
		for bit := last * 8; bit <= end; bit++ {
			cnt += int64(v.byteAt(bit/8) >> (7 - uint(bit%8)) & 1)
		}
		if last-1 >= first+1 {
			cnt += v.count(first+1, last-1)
		}
	}
	return resp.Int(cnt)
}

// stringCommandOnSparse wraps a string command so that it sees a byte string.
func stringCommandOnSparse(name string, ci cmdInfo) cmdInfo {
	inner := ci.fn
	ci.fn = func(s *Server, c *Conn, db int, a []string) resp.Value {
		for _, k := range ci.keys(a) {
			e := s.get(db, k)
			sb := sparseOf(e)
			if sb == nil {
				continue
			}
			switch name {
			case "STRLEN":
				return resp.Int(sb.length)
			case "TYPE":
				return resp.Simple("string")
			case "SET":
				withGet := false
				for _, o := range a[3:] {
					if strings.EqualFold(o, "GET") {
						withGet = true
					}
				}
				if !withGet {
					continue // replaced as a whole
				}
			}
			if bad := s.materialise(db, k, e); bad != nil {
				return *bad
			}
		}
		return inner(s, c, db, a)
	}
	return ci
}

func init() {
	table["BITFIELD"] = cmdInfo{true, key1, cmdBitfieldSparse, 2}
	table["BITFIELD_RO"] = cmdInfo{false, key1, cmdBitfieldSparse, 2}
	table["SETBIT"] = cmdInfo{true, key1, cmdSetBit, 4}
	table["GETBIT"] = cmdInfo{false, key1, cmdGetBit, 3}
	table["BITCOUNT"] = cmdInfo{false, key1, cmdBitCount, 2}
	for _, name := range []string{"GET", "GETDEL", "APPEND", "STRLEN", "GETRANGE", "INCR", "DECR", "INCRBY", "DECRBY", "MGET", "SET", "TYPE"} {
		if ci, ok := table[name]; ok {
			table[name] = stringCommandOnSparse(name, ci)
		}
	}
}
