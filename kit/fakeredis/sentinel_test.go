package fakeredis

import (
	"bufio"
	"net"
	"strings"
	"testing"
	"testing/synctest"

	"verifkit/resp"
)

type senRaw struct {
	t  *testing.T
	nc net.Conn
	r  *bufio.Reader
}

func senDial(t *testing.T, w *World, addr string) *senRaw {
	nc, err := w.Dial(addr)
	if err != nil {
		t.Fatal(err)
	}
	return &senRaw{t: t, nc: nc, r: bufio.NewReader(nc)}
}

func (rc *senRaw) send(argv ...string) {
	vs := make([]resp.Value, len(argv))
	for i, a := range argv {
		vs[i] = resp.Bulk(a)
	}
	if _, err := rc.nc.Write(resp.Append(nil, resp.Arr(vs...))); err != nil {
		rc.t.Fatal(err)
	}
}

func (rc *senRaw) read() resp.Value {
	v, err := resp.Read(rc.r)
	if err != nil {
		rc.t.Fatal(err)
	}
	return v
}

func (rc *senRaw) do(argv ...string) resp.Value {
	rc.send(argv...)
	return rc.read()
}

func senField(v resp.Value, key string) (string, bool) {
	for i := 0; i+1 < len(v.A); i += 2 {
		if v.A[i].S == key {
			return v.A[i+1].S, true
		}
	}
	return "", false
}

func TestSentinelPersonality(t *testing.T) {
	synctest.Test(t, func(t *testing.T) {
		w := NewWorld()
		defer w.Stop()
		sens := []string{"10.0.0.1:26379", "10.0.0.2:26379"}
		nodes := []string{"10.0.1.1:6379", "10.0.1.2:6379", "10.0.1.3:6379"}
		g := NewSentinelGroup(w, "mymaster", sens, nodes, 0)

		// RESP2 connection to sentinel 0: flat arrays
		c2 := senDial(t, w, sens[0])
		if v := c2.do("SENTINEL", "GET-MASTER-ADDR-BY-NAME", "mymaster"); v.T != '*' || len(v.A) != 2 || v.A[0].S != "10.0.1.1" || v.A[1].S != "6379" || v.A[1].T != '$' {
			t.Fatalf("get-master-addr: %s", v)
		}
		if v := c2.do("SENTINEL", "GET-MASTER-ADDR-BY-NAME", "other"); !v.IsNull() {
			t.Fatalf("unknown master set must give a null reply: %s", v)
		}
		reps := c2.do("SENTINEL", "REPLICAS", "mymaster")
		if reps.T != '*' || len(reps.A) != 2 || reps.A[0].T != '*' {
			t.Fatalf("RESP2 replicas must be an array of flat arrays: %s", reps)
		}
		if ip, _ := senField(reps.A[0], "ip"); ip != "10.0.1.2" {
			t.Fatalf("replica ip: %s", reps)
		}
		if fl, _ := senField(reps.A[1], "flags"); fl != "slave" {
			t.Fatalf("flags: %s", reps)
		}
		if _, down := senField(reps.A[0], "s-down-time"); down {
			t.Fatalf("healthy replica must not carry s-down-time")
		}
		if v := c2.do("SENTINEL", "REPLICAS", "nope"); !v.IsErr() || !strings.Contains(v.S, "No such master") {
			t.Fatalf("unknown name: %s", v)
		}
		peers := c2.do("SENTINEL", "SENTINELS", "mymaster")
		if len(peers.A) != 1 {
			t.Fatalf("peers: %s", peers)
		}
		if ip, _ := senField(peers.A[0], "ip"); ip != "10.0.0.2" {
			t.Fatalf("peer ip: %s", peers)
		}
		if port, _ := senField(peers.A[0], "port"); port != "26379" {
			t.Fatalf("peer port: %s", peers)
		}
		if v := c2.do("GET", "k"); !v.IsErr() || !strings.HasPrefix(v.S, "ERR unknown command") {
			t.Fatalf("a sentinel refuses data commands: %s", v)
		}
		if v := c2.do("ROLE"); v.A[0].S != "sentinel" {
			t.Fatalf("role: %s", v)
		}
		if v := c2.do("PING"); v.S != "PONG" {
			t.Fatalf("ping: %s", v)
		}

		// RESP3 connection: real maps
		c3 := senDial(t, w, sens[1])
		if v := c3.do("HELLO", "3"); v.T != '%' {
			t.Fatalf("hello: %s", v)
		}
		reps = c3.do("SENTINEL", "REPLICAS", "mymaster")
		if reps.T != '*' || len(reps.A) != 2 || reps.A[0].T != '%' {
			t.Fatalf("RESP3 replicas must be an array of maps: %s", reps)
		}

		// view and truth are independent
		g.SetSDown(sens[0], nodes[1], true)
		reps = c2.do("SENTINEL", "REPLICAS", "mymaster")
		if fl, _ := senField(reps.A[0], "flags"); fl != "s_down,slave,disconnected" {
			t.Fatalf("s_down flags: %s", reps)
		}
		if _, down := senField(reps.A[0], "s-down-time"); !down {
			t.Fatalf("s_down replica must carry s-down-time")
		}
		reps = c3.do("SENTINEL", "REPLICAS", "mymaster")
		if fl, _ := senField(reps.A[0], "flags"); fl != "slave" {
			t.Fatalf("the other sentinel's view must be untouched: %s", reps)
		}
		g.SetViewMaster(sens[1], nodes[2]) // sentinel 1 now claims node 2 although node 2 says slave
		if v := c3.do("SENTINEL", "GET-MASTER-ADDR-BY-NAME", "mymaster"); v.A[0].S != "10.0.1.3" {
			t.Fatalf("view change: %s", v)
		}
		n2 := senDial(t, w, nodes[2])
		if v := n2.do("ROLE"); v.A[0].S != "slave" || v.A[1].S != "10.0.1.1" || v.A[2].I != 6379 {
			t.Fatalf("truth must be unchanged: %s", v)
		}

		// events: subscribe on sentinel 0 (RESP3 push frames), failover announces on every sentinel
		c3b := senDial(t, w, sens[0])
		c3b.do("HELLO", "3")
		c3b.send("SUBSCRIBE", "+switch-master", "+sdown")
		c3b.read()
		c3b.read()
		w.Lock()
		if n0, n1 := g.SubscribersLocked(sens[0], "+switch-master"), g.SubscribersLocked(sens[1], "+switch-master"); n0 != 1 || n1 != 0 {
			w.Unlock()
			t.Fatalf("subscribers: %d %d", n0, n1)
		}
		w.Unlock()
		g.Failover(nodes[1])
		ev := c3b.read()
		if ev.T != '>' || ev.A[0].S != "message" || ev.A[1].S != "+switch-master" || ev.A[2].S != "mymaster 10.0.1.1 6379 10.0.1.2 6379" {
			t.Fatalf("switch-master event: %s", ev)
		}
		if v := c2.do("SENTINEL", "GET-MASTER-ADDR-BY-NAME", "mymaster"); v.A[0].S != "10.0.1.2" {
			t.Fatalf("after failover: %s", v)
		}
		reps = c2.do("SENTINEL", "REPLICAS", "mymaster")
		if ip, _ := senField(reps.A[0], "ip"); ip != "10.0.1.1" {
			t.Fatalf("old master must be listed as replica: %s", reps)
		}
		if v := n2.do("ROLE"); v.A[0].S != "slave" || v.A[1].S != "10.0.1.2" {
			t.Fatalf("replica must follow the new master: %s", v)
		}
		n1 := senDial(t, w, nodes[1])
		if v := n1.do("ROLE"); v.A[0].S != "master" {
			t.Fatalf("promoted node: %s", v)
		}
		if got := g.TrueMasters(); len(got) != 1 || got[0] != nodes[1] {
			t.Fatalf("true masters: %v", got)
		}
		g.PublishEvent(sens[0], "+sdown", g.ReplicaEventMsg(sens[0], nodes[2]))
		ev = c3b.read()
		if ev.A[2].S != "slave 10.0.1.3:6379 10.0.1.3 6379 @ mymaster 10.0.1.2 6379" {
			t.Fatalf("sdown event: %s", ev)
		}
		if m := g.MasterEventMsg(nodes[1]); m != "master mymaster 10.0.1.2 6379" {
			t.Fatalf("master event: %s", m)
		}

		// OnQuery runs after the answer was computed: a flip from there does not alter that answer
		g.OnQuery = func(s *Server, c *Conn, sub string, answer resp.Value) {
			if sub == "GET-MASTER-ADDR-BY-NAME" {
				g.PromoteLocked(nodes[0])
			}
		}
		if v := c2.do("SENTINEL", "GET-MASTER-ADDR-BY-NAME", "mymaster"); v.A[0].S != "10.0.1.2" {
			t.Fatalf("answer: %s", v)
		}
		if v := n1.do("ROLE"); v.A[0].S != "slave" {
			t.Fatalf("flipped right after the answer: %s", v)
		}
		if g.Queries[sens[0]+" GET-MASTER-ADDR-BY-NAME"] < 4 {
			t.Fatalf("query counter: %v", g.Queries)
		}
		if n := g.KillConns(sens[0]); n != 2 {
			t.Fatalf("killed %d connections", n)
		}
	})
}
