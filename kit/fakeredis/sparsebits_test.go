package fakeredis

import (
	"fmt"
	"runtime"
	"strconv"
	"testing"

	"pgregory.net/rapid"
	"verifkit/resp"
)

func sparseTestServer() (*World, *Server) {
	w := NewWorld()
	return w, w.NewServer("127.0.0.1:6379")
}

// The same generated command sequence against a server that keeps everything dense (the code of
// commands.go) and one that turns every bit write into the sparse form: all replies and the final
// string must agree.
func TestSparseBitsDifferential(t *testing.T) {
	rapid.Check(t, func(rt *rapid.T) {
		type cmd []string
		off := rapid.OneOf(rapid.IntRange(0, 40), rapid.IntRange(0, 5000), rapid.SampledFrom([]int{7, 8, 1023 * 8, 1024 * 8, 1024*8 - 1, 2048 * 8}))
		width := rapid.SampledFrom([]int{1, 1, 1, 2, 7, 8, 9, 16, 33, 63})
		var cmds []cmd
		n := rapid.IntRange(1, 40).Draw(rt, "n")
		for i := 0; i < n; i++ {
			key := rapid.SampledFrom([]string{"k", "k", "k2"}).Draw(rt, "key")
			o := strconv.Itoa(off.Draw(rt, "off"))
			enc := "u" + strconv.Itoa(width.Draw(rt, "w"))
			val := strconv.Itoa(rapid.IntRange(0, 1000).Draw(rt, "val"))
			switch rapid.IntRange(0, 15).Draw(rt, "kind") {
			case 0, 1, 2:
				cmds = append(cmds, cmd{"BITFIELD", key, "SET", enc, o, val})
			case 3:
				cmds = append(cmds, cmd{"BITFIELD", key, "INCRBY", enc, o, val, "GET", "u8", "0", "OVERFLOW", "WRAP", "SET", "u1", "#" + o, "1"})
			case 4, 5:
				cmds = append(cmds, cmd{"BITFIELD", key, "GET", enc, o})
			case 6:
				cmds = append(cmds, cmd{"BITFIELD_RO", key, "GET", enc, o, "GET", "u1", "#3"})
			case 7:
				cmds = append(cmds, cmd{"SETBIT", key, o, strconv.Itoa(rapid.IntRange(0, 1).Draw(rt, "bit"))})
			case 8:
				cmds = append(cmds, cmd{"GETBIT", key, o})
			case 9:
				switch rapid.IntRange(0, 2).Draw(rt, "bc") {
				case 0:
					cmds = append(cmds, cmd{"BITCOUNT", key})
				case 1:
					cmds = append(cmds, cmd{"BITCOUNT", key, strconv.Itoa(rapid.IntRange(-20, 20).Draw(rt, "s")), strconv.Itoa(rapid.IntRange(-20, 700).Draw(rt, "e"))})
				default:
					cmds = append(cmds, cmd{"BITCOUNT", key, strconv.Itoa(rapid.IntRange(-70, 70).Draw(rt, "s")), strconv.Itoa(rapid.IntRange(-70, 6000).Draw(rt, "e")), "BIT"})
				}
			case 10:
				cmds = append(cmds, cmd{"GET", key}, cmd{"STRLEN", key}, cmd{"TYPE", key})
			case 11:
				cmds = append(cmds, cmd{"APPEND", key, "x"})
			case 12:
				cmds = append(cmds, cmd{"SET", key, rapid.SampledFrom([]string{"", "abc", "\xff\x00\x01"}).Draw(rt, "sv")})
			case 13:
				cmds = append(cmds, cmd{"RENAME", "k", "k2"}, cmd{"EXISTS", "k", "k2"})
			case 14:
				cmds = append(cmds, cmd{"DEL", key})
			default:
				cmds = append(cmds, cmd{"BITFIELD", key, "SET", "i8", o, val}, cmd{"BITFIELD_RO", key, "SET", "u1", o, "1"}, cmd{"HSET", key, "f", "v"}, cmd{"SETBIT", key, o, "2"}, cmd{"GETRANGE", key, "0", "3"}, cmd{"MGET", "k", "k2"})
			}
		}
		cmds = append(cmds, cmd{"GET", "k"}, cmd{"GET", "k2"}, cmd{"STRLEN", "k"}, cmd{"BITCOUNT", "k2"})
		run := func(threshold int64) []string {
			old := SparseThresholdBytes
			SparseThresholdBytes = threshold
			defer func() { SparseThresholdBytes = old }()
			w, srv := sparseTestServer()
			defer w.Stop()
			var out []string
			for _, c := range cmds {
				out = append(out, fmt.Sprintf("%q -> %s", []string(c), srv.Do(c...).String()))
			}
			return out
		}
		dense, sparse := run(1<<30), run(0)
		for i := range dense {
			if dense[i] != sparse[i] {
				rt.Fatalf("step %d differs:\n dense  %s\n sparse %s", i, dense[i], sparse[i])
			}
		}
	})
}

func TestSparseBitsHugeOffsets(t *testing.T) {
	w, srv := sparseTestServer()
	defer w.Stop()
	var before, after runtime.MemStats
	runtime.ReadMemStats(&before)
	is := func(v resp.Value, want string) {
		t.Helper()
		if v.String() != want {
			t.Fatalf("got %s, want %s", v.String(), want)
		}
	}
	last := strconv.FormatInt(1<<32-1, 10)
	is(srv.Do("BITFIELD", "bf", "SET", "u1", last, "1"), resp.Arr(resp.Int(0)).String())
	is(srv.Do("BITFIELD", "bf", "SET", "u1", last, "1"), resp.Arr(resp.Int(1)).String())
	is(srv.Do("BITFIELD", "bf", "SET", "u1", "958505837", "1", "GET", "u1", "958505837", "GET", "u1", "958505836"), resp.Arr(resp.Int(0), resp.Int(1), resp.Int(0)).String())
	is(srv.Do("BITFIELD_RO", "bf", "GET", "u1", last, "GET", "u2", "4294967294"), resp.Arr(resp.Int(1), resp.Int(1)).String())
	is(srv.Do("GETBIT", "bf", last), resp.Int(1).String())
	is(srv.Do("GETBIT", "bf", "4294967294"), resp.Int(0).String())
	is(srv.Do("SETBIT", "bf", "1000000000", "1"), resp.Int(0).String())
	is(srv.Do("SETBIT", "bf", "1000000000", "0"), resp.Int(1).String())
	is(srv.Do("SETBIT", "bf", "4294967296", "1"), errBitOffset.String())
	is(srv.Do("BITCOUNT", "bf"), resp.Int(2).String())
	is(srv.Do("BITCOUNT", "bf", "-1", "-1"), resp.Int(1).String())
	is(srv.Do("BITCOUNT", "bf", "958505837", "958505837", "BIT"), resp.Int(1).String())
	is(srv.Do("STRLEN", "bf"), resp.Int(1<<29).String())
	is(srv.Do("TYPE", "bf"), resp.Simple("string").String())
	is(srv.Do("EXISTS", "bf"), resp.Int(1).String())
	is(srv.Do("HGET", "bf", "f"), errWrongType.String())
	if v := srv.Do("GET", "bf"); !v.IsErr() {
		t.Fatalf("GET of a 512 MiB sparse bitmap was materialised: %s", v.String()[:40])
	}
	// the value keeps its expiry and moves with RENAME
	is(srv.Do("PEXPIRE", "bf", "100000"), resp.Int(1).String())
	is(srv.Do("BITFIELD", "bf", "SET", "u1", "5", "1"), resp.Arr(resp.Int(0)).String())
	if ttl := srv.Do("PTTL", "bf"); ttl.I <= 0 {
		t.Fatalf("expiry lost by a bit write: %s", ttl.String())
	}
	is(srv.Do("RENAME", "bf", "bf2"), resp.OK().String())
	is(srv.Do("BITFIELD", "bf2", "GET", "u1", last), resp.Arr(resp.Int(1)).String())
	is(srv.Do("BITFIELD", "bf", "GET", "u1", last), resp.Arr(resp.Int(0)).String())
	// plain SET replaces, a small value is a byte string again
	is(srv.Do("SET", "bf2", ""), resp.OK().String())
	is(srv.Do("BITFIELD", "bf2", "SET", "u1", "9", "1"), resp.Arr(resp.Int(0)).String())
	is(srv.Do("GET", "bf2"), resp.Bulk("\x00\x40").String())
	// a moderately large sparse value can still be read as a string
	is(srv.Do("SETBIT", "m", strconv.Itoa(8*(1<<20)), "1"), resp.Int(0).String())
	if v := srv.Do("GET", "m"); v.T != '$' || len(v.S) != 1<<20+1 || v.S[1<<20] != 0x80 {
		t.Fatalf("materialised value wrong: type %c length %d", v.T, len(v.S))
	}
	is(srv.Do("DEL", "bf", "bf2", "m"), resp.Int(2).String())
	runtime.ReadMemStats(&after)
	if grown := after.TotalAlloc - before.TotalAlloc; grown > 32<<20 {
		t.Fatalf("huge offsets allocated %d bytes in total", grown)
	}
}
