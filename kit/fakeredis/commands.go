package fakeredis

import (
	"bufio"
	"bytes"
	"crypto/sha1"
	"encoding/hex"
	"encoding/json"
	"errors"
	"fmt"
	"math"
	"path"
	"sort"
	"strconv"
	"strings"
	"time"

	"verifkit/lua"
	"verifkit/resp"
)

// ---- key space

type entry struct {
	kind     byte // s h l j
	s        string
	h        map[string]string
	hOrder   []string
	l        []string
	j        any
	ver      int64
	expireAt int64 // unix ms; 0 = none
}

type keyspace struct {
	m map[string]*entry
}

func (s *Server) ks(db int) *keyspace {
	k := s.db[db]
	if k == nil {
		k = &keyspace{m: map[string]*entry{}}
		s.db[db] = k
	}
	return k
}

func nowMs() int64 { return time.Now().UnixMilli() }

var errWrongType = resp.Err("WRONGTYPE Operation against a key holding the wrong kind of value")

// get returns the live entry of key (expiring it lazily).
func (s *Server) get(db int, key string) *entry {
	k := s.ks(db)
	e := k.m[key]
	if e != nil && e.expireAt != 0 && s.expiredAt(e.expireAt) {
		s.deleteKey(db, key, nil)
		return nil
	}
	return e
}

// expiredAt says whether a key with that expiry is gone now. By default a key stops being readable when the clock
// reaches its expiry millisecond; with Server.ExpireAfterMs it lives through that millisecond, as in Redis
// (keyIsExpired: now > when), where PTTL can therefore answer 0 for an existing key.
func (s *Server) expiredAt(at int64) bool {
	if s.ExpireAfterMs {
		return at < nowMs()
	}
	return at <= nowMs()
}

func (s *Server) deleteKey(db int, key string, by *Conn) bool {
	k := s.ks(db)
	if _, ok := k.m[key]; !ok {
		return false
	}
	delete(k.m, key)
	s.clearTimer(db, key)
	s.touched(db, key, by)
	return true
}

func (s *Server) timerKey(db int, key string) string { return strconv.Itoa(db) + "\x00" + key }

func (s *Server) clearTimer(db int, key string) {
	tk := s.timerKey(db, key)
	if t := s.expTimers[tk]; t != nil {
		t.Stop()
		delete(s.expTimers, tk)
	}
}

// setExpire installs an absolute expiry (unix ms) and an active-expiry timer that deletes the
// key and emits the invalidation, as Redis' expiry cycle does.
func (s *Server) setExpire(db int, key string, at int64) {
	e := s.ks(db).m[key]
	if e == nil {
		return
	}
	s.clearTimer(db, key)
	e.expireAt = at
	if at == 0 {
		return
	}
	// fire exactly when the clock reaches the expiry millisecond, so that the deletion (and its
	// invalidation push) happens at the instant the key stops being readable
	fire := at
	if s.ExpireAfterMs {
		fire = at + 1
	}
	d := time.Until(time.UnixMilli(fire))
	if d < 0 {
		d = 0
	}
	tk := s.timerKey(db, key)
	s.expTimers[tk] = time.AfterFunc(d, func() {
		s.W.mu.Lock()
		defer s.W.mu.Unlock()
		if s.W.stopped {
			return
		}
		if cur := s.ks(db).m[key]; cur != nil && cur.expireAt != 0 && s.expiredAt(cur.expireAt) {
			s.W.logLocked(Event{Server: s.Addr, Conn: -1, Kind: "exec", Req: -1, Argv: []string{"<expire>", key}})
			s.deleteKey(db, key, nil)
		}
	})
}

// touched is called for every modification of key: bumps WATCH state and sends invalidations.
func (s *Server) touched(db int, key string, by *Conn) {
	for _, c := range s.conns {
		if c.watch != nil {
			if _, ok := c.watch[key]; ok && c.DB == db {
				c.watchDirty = true
			}
		}
	}
	if set := s.tracked[key]; set != nil {
		var cs []*Conn
		for c := range set {
			cs = append(cs, c)
		}
		sort.Slice(cs, func(i, j int) bool { return cs[i].ID < cs[j].ID })
		delete(s.tracked, key)
		for _, c := range cs {
			if c.TrackNoLoop && c == by {
				continue
			}
			c.pushLocked("invalidate", resp.Arr(resp.Bulk(key)))
		}
	}
	for _, c := range s.conns {
		if c.Tracking && c.TrackMode == "bcast" && !c.Dead() {
			if c.TrackNoLoop && c == by {
				continue
			}
			match := len(c.TrackPrefixes) == 0
			for _, p := range c.TrackPrefixes {
				if strings.HasPrefix(key, p) {
					match = true
				}
			}
			if match {
				c.pushLocked("invalidate", resp.Arr(resp.Bulk(key)))
			}
		}
	}
}

func (s *Server) bump(db int, key string, e *entry, by *Conn) {
	e.ver++
	s.touched(db, key, by)
}

// trackRead remembers that c has read key if its tracking mode asks for it.
func (s *Server) trackRead(c *Conn, key string, caching bool) {
	if c == nil || !c.Tracking || c.TrackMode == "bcast" {
		return
	}
	if c.TrackMode == "optin" && !caching {
		return
	}
	set := s.tracked[key]
	if set == nil {
		set = map[*Conn]bool{}
		s.tracked[key] = set
	}
	set[c] = true
}

// ---- command table

type cmdInfo struct {
	write bool
	keys  func(argv []string) []string
	fn    func(s *Server, c *Conn, db int, argv []string) resp.Value
	arity int // minimum number of elements
}

func key1(argv []string) []string {
	if len(argv) > 1 {
		return argv[1:2]
	}
	return nil
}
func keysAll(argv []string) []string { return argv[1:] }
func keysEven(argv []string) []string {
	var out []string
	for i := 1; i < len(argv); i += 2 {
		out = append(out, argv[i])
	}
	return out
}
func noKeys([]string) []string { return nil }

func errArity(name string) resp.Value {
	return resp.Err("ERR wrong number of arguments for '" + strings.ToLower(name) + "' command")
}

var errNotInt = resp.Err("ERR value is not an integer or out of range")
var errSyntax = resp.Err("ERR syntax error")

var table map[string]cmdInfo

func init() {
	table = map[string]cmdInfo{
		"GET": {false, key1, cmdGet, 2}, "SET": {true, key1, cmdSet, 3}, "SETNX": {true, key1, cmdSetNX, 3},
		"GETDEL": {true, key1, cmdGetDel, 2}, "APPEND": {true, key1, cmdAppend, 3}, "STRLEN": {false, key1, cmdStrlen, 2},
		"GETRANGE": {false, key1, cmdGetRange, 4},
		"INCR":     {true, key1, cmdIncr, 2}, "DECR": {true, key1, cmdIncr, 2}, "INCRBY": {true, key1, cmdIncr, 3}, "DECRBY": {true, key1, cmdIncr, 3},
		"MGET": {false, keysAll, cmdMGet, 2}, "MSET": {true, keysEven, cmdMSet, 3}, "MSETNX": {true, keysEven, cmdMSetNX, 3},
		"DEL": {true, keysAll, cmdDel, 2}, "UNLINK": {true, keysAll, cmdDel, 2}, "EXISTS": {false, keysAll, cmdExists, 2},
		"EXPIRE": {true, key1, cmdExpire, 3}, "PEXPIRE": {true, key1, cmdExpire, 3}, "EXPIREAT": {true, key1, cmdExpire, 3}, "PEXPIREAT": {true, key1, cmdExpire, 3},
		"PERSIST": {true, key1, cmdPersist, 2}, "TTL": {false, key1, cmdTTL, 2}, "PTTL": {false, key1, cmdTTL, 2},
		"RENAME": {true, func(a []string) []string { return a[1:] }, cmdRename, 3}, "TYPE": {false, key1, cmdType, 2},
		"DBSIZE": {false, noKeys, cmdDBSize, 1}, "KEYS": {false, noKeys, cmdKeys, 2},
		"FLUSHALL": {true, noKeys, cmdFlush, 1}, "FLUSHDB": {true, noKeys, cmdFlush, 1},
		"HSET": {true, key1, cmdHSet, 4}, "HGET": {false, key1, cmdHGet, 3}, "HMGET": {false, key1, cmdHMGet, 3}, "HGETALL": {false, key1, cmdHGetAll, 2},
		"HDEL": {true, key1, cmdHDel, 3}, "HEXISTS": {false, key1, cmdHExists, 3}, "HINCRBY": {true, key1, cmdHIncrBy, 4}, "HLEN": {false, key1, cmdHLen, 2},
		"LPUSH": {true, key1, cmdPush, 3}, "RPUSH": {true, key1, cmdPush, 3}, "LPOP": {true, key1, cmdPop, 2}, "RPOP": {true, key1, cmdPop, 2},
		"LRANGE": {false, key1, cmdLRange, 4}, "LLEN": {false, key1, cmdLLen, 2},
		"BITFIELD": {true, key1, cmdBitfield, 2}, "BITFIELD_RO": {false, key1, cmdBitfield, 2},
		"JSON.SET": {true, key1, cmdJSONSet, 4}, "JSON.GET": {false, key1, cmdJSONGet, 2}, "JSON.MGET": {false, func(a []string) []string { return a[1 : len(a)-1] }, cmdJSONMGet, 3},
		"JSON.MSET": {true, func(a []string) []string {
			var out []string
			for i := 1; i+2 < len(a)+0 && i < len(a); i += 3 {
				out = append(out, a[i])
			}
			return out
		}, cmdJSONMSet, 4}, "JSON.NUMINCRBY": {true, key1, cmdJSONNumIncrBy, 4},
		"TIME": {false, noKeys, cmdTime, 1}, "PUBLISH": {true, noKeys, cmdPublish, 3}, "SPUBLISH": {true, noKeys, cmdPublish, 3},
		"VEXEC": {true, noKeys, cmdVExec, 2}, "VREPLY": {false, noKeys, cmdVReply, 3},
	}
}

// IsWriteCommand reports how the fake classifies a command (scenarios use it for READONLY replicas).
func IsWriteCommand(name string) bool {
	ci, ok := table[strings.ToUpper(name)]
	return ok && ci.write
}

// execData runs a data command (c may be nil for external clients and scripts pass their conn).
func (s *Server) execData(c *Conn, argv []string) resp.Value {
	return s.execDataOpt(c, argv, false)
}

func (s *Server) execDataOpt(c *Conn, argv []string, caching bool) resp.Value {
	if len(argv) == 0 {
		return resp.Err("ERR empty command")
	}
	name := strings.ToUpper(argv[0])
	ci, ok := table[name]
	if !ok {
		return resp.Err(fmt.Sprintf("ERR unknown command '%s', with args beginning with: ", argv[0]))
	}
	if len(argv) < ci.arity {
		return errArity(name)
	}
	db := 0
	if c != nil {
		db = c.DB
	}
	v := ci.fn(s, c, db, argv)
	if !ci.write {
		// Redis remembers the keys of a read after the command has run (call() -> trackingRememberKeys): a key that the
		// read itself expires lazily invalidates the clients that tracked it before, and this client tracks it from now on
		for _, k := range ci.keys(argv) {
			s.trackRead(c, k, caching)
		}
	}
	return v
}

// ---- strings

func cmdGet(s *Server, c *Conn, db int, a []string) resp.Value {
	e := s.get(db, a[1])
	if e == nil {
		return resp.Null()
	}
	if e.kind != 's' {
		return errWrongType
	}
	return resp.Bulk(e.s)
}

func (s *Server) setString(db int, key, val string, by *Conn, keepTTL bool) *entry {
	k := s.ks(db)
	e := k.m[key]
	var ver, exp int64
	if e != nil {
		ver = e.ver
		exp = e.expireAt
	}
	ne := &entry{kind: 's', s: val, ver: ver}
	k.m[key] = ne
	if keepTTL && exp != 0 {
		ne.expireAt = exp
	} else {
		s.clearTimer(db, key)
	}
	s.bump(db, key, ne, by)
	return ne
}

func cmdSet(s *Server, c *Conn, db int, a []string) resp.Value {
	key, val := a[1], a[2]
	var nx, xx, get, keep bool
	var at int64
	for i := 3; i < len(a); i++ {
		switch strings.ToUpper(a[i]) {
		case "NX":
			nx = true
		case "XX":
			xx = true
		case "GET":
			get = true
		case "KEEPTTL":
			keep = true
		case "EX", "PX", "EXAT", "PXAT":
			if i+1 >= len(a) {
				return errSyntax
			}
			n, err := strconv.ParseInt(a[i+1], 10, 64)
			if err != nil {
				return errNotInt
			}
			switch strings.ToUpper(a[i]) {
			case "EX":
				if n <= 0 {
					return resp.Err("ERR invalid expire time in 'set' command")
				}
				at = nowMs() + n*1000
			case "PX":
				if n <= 0 {
					return resp.Err("ERR invalid expire time in 'set' command")
				}
				at = nowMs() + n
			case "EXAT":
				at = n * 1000
			case "PXAT":
				at = n
			}
			i++
		default:
			return errSyntax
		}
	}
	old := s.get(db, key)
	var prev resp.Value = resp.Null()
	if old != nil && old.kind == 's' {
		prev = resp.Bulk(old.s)
	} else if old != nil && get {
		return errWrongType
	}
	if nx && old != nil || xx && old == nil {
		if get {
			return prev
		}
		return resp.Null()
	}
	s.setString(db, key, val, c, keep)
	if at != 0 {
		s.setExpire(db, key, at)
	}
	if get {
		return prev
	}
	return resp.OK()
}

func cmdSetNX(s *Server, c *Conn, db int, a []string) resp.Value {
	if s.get(db, a[1]) != nil {
		return resp.Int(0)
	}
	s.setString(db, a[1], a[2], c, false)
	return resp.Int(1)
}

func cmdGetDel(s *Server, c *Conn, db int, a []string) resp.Value {
	v := cmdGet(s, c, db, a)
	if v.T == '$' {
		s.deleteKey(db, a[1], c)
	}
	return v
}

func cmdAppend(s *Server, c *Conn, db int, a []string) resp.Value {
	e := s.get(db, a[1])
	if e != nil && e.kind != 's' {
		return errWrongType
	}
	cur := ""
	if e != nil {
		cur = e.s
	}
	s.setString(db, a[1], cur+a[2], c, true)
	return resp.Int(int64(len(cur) + len(a[2])))
}

func cmdStrlen(s *Server, c *Conn, db int, a []string) resp.Value {
	e := s.get(db, a[1])
	if e == nil {
		return resp.Int(0)
	}
	if e.kind != 's' {
		return errWrongType
	}
	return resp.Int(int64(len(e.s)))
}

func cmdGetRange(s *Server, c *Conn, db int, a []string) resp.Value {
	e := s.get(db, a[1])
	st, err1 := strconv.Atoi(a[2])
	en, err2 := strconv.Atoi(a[3])
	if err1 != nil || err2 != nil {
		return errNotInt
	}
	if e == nil {
		return resp.Bulk("")
	}
	if e.kind != 's' {
		return errWrongType
	}
	n := len(e.s)
	if st < 0 {
		st = max(n+st, 0)
	}
	if en < 0 {
		en = n + en
	}
	if en >= n {
		en = n - 1
	}
	if st > en || n == 0 {
		return resp.Bulk("")
	}
	return resp.Bulk(e.s[st : en+1])
}

func cmdIncr(s *Server, c *Conn, db int, a []string) resp.Value {
	by := int64(1)
	name := strings.ToUpper(a[0])
	if name == "INCRBY" || name == "DECRBY" {
		n, err := strconv.ParseInt(a[2], 10, 64)
		if err != nil {
			return errNotInt
		}
		by = n
	}
	if name == "DECR" || name == "DECRBY" {
		by = -by
	}
	e := s.get(db, a[1])
	cur := int64(0)
	if e != nil {
		if e.kind != 's' {
			return errWrongType
		}
		n, err := strconv.ParseInt(e.s, 10, 64)
		if err != nil {
			return errNotInt
		}
		cur = n
	}
	cur += by
	s.setString(db, a[1], strconv.FormatInt(cur, 10), c, true)
	return resp.Int(cur)
}

func cmdMGet(s *Server, c *Conn, db int, a []string) resp.Value {
	out := make([]resp.Value, 0, len(a)-1)
	for _, k := range a[1:] {
		e := s.get(db, k)
		if e == nil || e.kind != 's' {
			out = append(out, resp.Null())
		} else {
			out = append(out, resp.Bulk(e.s))
		}
	}
	return resp.Arr(out...)
}

func cmdMSet(s *Server, c *Conn, db int, a []string) resp.Value {
	if len(a)%2 != 1 {
		return errArity("MSET")
	}
	for i := 1; i+1 < len(a); i += 2 {
		s.setString(db, a[i], a[i+1], c, false)
	}
	return resp.OK()
}

func cmdMSetNX(s *Server, c *Conn, db int, a []string) resp.Value {
	if len(a)%2 != 1 {
		return errArity("MSETNX")
	}
	for i := 1; i+1 < len(a); i += 2 {
		if s.get(db, a[i]) != nil {
			return resp.Int(0)
		}
	}
	for i := 1; i+1 < len(a); i += 2 {
		s.setString(db, a[i], a[i+1], c, false)
	}
	return resp.Int(1)
}

// ---- generic

func cmdDel(s *Server, c *Conn, db int, a []string) resp.Value {
	n := int64(0)
	for _, k := range a[1:] {
		if s.get(db, k) != nil && s.deleteKey(db, k, c) {
			n++
		}
	}
	return resp.Int(n)
}

func cmdExists(s *Server, c *Conn, db int, a []string) resp.Value {
	n := int64(0)
	for _, k := range a[1:] {
		if s.get(db, k) != nil {
			n++
		}
	}
	return resp.Int(n)
}

func cmdExpire(s *Server, c *Conn, db int, a []string) resp.Value {
	n, err := strconv.ParseInt(a[2], 10, 64)
	if err != nil {
		return errNotInt
	}
	e := s.get(db, a[1])
	if e == nil {
		return resp.Int(0)
	}
	var at int64
	switch strings.ToUpper(a[0]) {
	case "EXPIRE":
		at = nowMs() + n*1000
	case "PEXPIRE":
		at = nowMs() + n
	case "EXPIREAT":
		at = n * 1000
	default:
		at = n
	}
	if at <= nowMs() {
		s.deleteKey(db, a[1], c)
		return resp.Int(1)
	}
	s.setExpire(db, a[1], at)
	return resp.Int(1)
}

func cmdPersist(s *Server, c *Conn, db int, a []string) resp.Value {
	e := s.get(db, a[1])
	if e == nil || e.expireAt == 0 {
		return resp.Int(0)
	}
	s.setExpire(db, a[1], 0)
	return resp.Int(1)
}

func cmdTTL(s *Server, c *Conn, db int, a []string) resp.Value {
	e := s.get(db, a[1])
	if e == nil {
		return resp.Int(-2)
	}
	if e.expireAt == 0 {
		return resp.Int(-1)
	}
	ms := e.expireAt - nowMs()
	if strings.ToUpper(a[0]) == "TTL" {
		return resp.Int((ms + 500) / 1000)
	}
	return resp.Int(ms)
}

func cmdRename(s *Server, c *Conn, db int, a []string) resp.Value {
	e := s.get(db, a[1])
	if e == nil {
		return resp.Err("ERR no such key")
	}
	at := e.expireAt
	s.deleteKey(db, a[1], c)
	s.deleteKey(db, a[2], c)
	ne := *e
	ne.expireAt = 0
	s.ks(db).m[a[2]] = &ne
	s.bump(db, a[2], &ne, c)
	if at != 0 {
		s.setExpire(db, a[2], at)
	}
	return resp.OK()
}

func cmdType(s *Server, c *Conn, db int, a []string) resp.Value {
	e := s.get(db, a[1])
	if e == nil {
		return resp.Simple("none")
	}
	return resp.Simple(map[byte]string{'s': "string", 'h': "hash", 'l': "list", 'j': "ReJSON-RL"}[e.kind])
}

func cmdDBSize(s *Server, c *Conn, db int, a []string) resp.Value {
	n := 0
	for k := range s.ks(db).m {
		if s.get(db, k) != nil {
			n++
		}
	}
	return resp.Int(int64(n))
}

func cmdKeys(s *Server, c *Conn, db int, a []string) resp.Value {
	var ks []string
	for k := range s.ks(db).m {
		if s.get(db, k) != nil {
			if ok, _ := path.Match(a[1], k); ok || a[1] == "*" {
				ks = append(ks, k)
			}
		}
	}
	sort.Strings(ks)
	return resp.Bulks(ks...)
}

func cmdFlush(s *Server, c *Conn, db int, a []string) resp.Value {
	dbs := []int{db}
	if strings.ToUpper(a[0]) == "FLUSHALL" {
		dbs = dbs[:0]
		for d := range s.db {
			dbs = append(dbs, d)
		}
	}
	for _, d := range dbs {
		for k := range s.ks(d).m {
			s.clearTimer(d, k)
		}
		s.db[d] = &keyspace{m: map[string]*entry{}}
	}
	for _, cc := range s.conns {
		if cc.watch != nil && len(cc.watch) > 0 {
			cc.watchDirty = true
		}
	}
	// a flush invalidates everything: null invalidation to every tracking connection
	s.tracked = map[string]map[*Conn]bool{}
	for _, cc := range s.conns {
		if cc.Tracking && !cc.Dead() {
			cc.pushLocked("invalidate", resp.Null())
		}
	}
	return resp.OK()
}

// ---- hashes

func (s *Server) hash(db int, key string, create bool) (*entry, *resp.Value) {
	e := s.get(db, key)
	if e == nil {
		if !create {
			return nil, nil
		}
		e = &entry{kind: 'h', h: map[string]string{}}
		s.ks(db).m[key] = e
		return e, nil
	}
	if e.kind != 'h' {
		return nil, &errWrongType
	}
	return e, nil
}

func cmdHSet(s *Server, c *Conn, db int, a []string) resp.Value {
	if len(a)%2 != 0 {
		return errArity("HSET")
	}
	e, bad := s.hash(db, a[1], true)
	if bad != nil {
		return *bad
	}
	n := int64(0)
	for i := 2; i+1 < len(a); i += 2 {
		if _, ok := e.h[a[i]]; !ok {
			n++
			e.hOrder = append(e.hOrder, a[i])
		}
		e.h[a[i]] = a[i+1]
	}
	s.bump(db, a[1], e, c)
	return resp.Int(n)
}

func cmdHGet(s *Server, c *Conn, db int, a []string) resp.Value {
	e, bad := s.hash(db, a[1], false)
	if bad != nil {
		return *bad
	}
	if e == nil {
		return resp.Null()
	}
	if v, ok := e.h[a[2]]; ok {
		return resp.Bulk(v)
	}
	return resp.Null()
}

func cmdHMGet(s *Server, c *Conn, db int, a []string) resp.Value {
	e, bad := s.hash(db, a[1], false)
	if bad != nil {
		return *bad
	}
	out := make([]resp.Value, 0, len(a)-2)
	for _, f := range a[2:] {
		if e != nil {
			if v, ok := e.h[f]; ok {
				out = append(out, resp.Bulk(v))
				continue
			}
		}
		out = append(out, resp.Null())
	}
	return resp.Arr(out...)
}

func cmdHGetAll(s *Server, c *Conn, db int, a []string) resp.Value {
	e, bad := s.hash(db, a[1], false)
	if bad != nil {
		return *bad
	}
	var out []resp.Value
	if e != nil {
		for _, f := range e.hOrder {
			if v, ok := e.h[f]; ok {
				out = append(out, resp.Bulk(f), resp.Bulk(v))
			}
		}
	}
	return resp.Map(out...)
}

func cmdHDel(s *Server, c *Conn, db int, a []string) resp.Value {
	e, bad := s.hash(db, a[1], false)
	if bad != nil {
		return *bad
	}
	if e == nil {
		return resp.Int(0)
	}
	n := int64(0)
	for _, f := range a[2:] {
		if _, ok := e.h[f]; ok {
			delete(e.h, f)
			n++
		}
	}
	if n > 0 {
		if len(e.h) == 0 {
			s.deleteKey(db, a[1], c)
		} else {
			s.bump(db, a[1], e, c)
		}
	}
	return resp.Int(n)
}

func cmdHExists(s *Server, c *Conn, db int, a []string) resp.Value {
	e, bad := s.hash(db, a[1], false)
	if bad != nil {
		return *bad
	}
	if e != nil {
		if _, ok := e.h[a[2]]; ok {
			return resp.Int(1)
		}
	}
	return resp.Int(0)
}

func cmdHLen(s *Server, c *Conn, db int, a []string) resp.Value {
	e, bad := s.hash(db, a[1], false)
	if bad != nil {
		return *bad
	}
	if e == nil {
		return resp.Int(0)
	}
	return resp.Int(int64(len(e.h)))
}

func cmdHIncrBy(s *Server, c *Conn, db int, a []string) resp.Value {
	by, err := strconv.ParseInt(a[3], 10, 64)
	if err != nil {
		return errNotInt
	}
	e, bad := s.hash(db, a[1], true)
	if bad != nil {
		return *bad
	}
	cur := int64(0)
	if v, ok := e.h[a[2]]; ok {
		n, err := strconv.ParseInt(v, 10, 64)
		if err != nil {
			return resp.Err("ERR hash value is not an integer")
		}
		cur = n
	} else {
		e.hOrder = append(e.hOrder, a[2])
	}
	cur += by
	e.h[a[2]] = strconv.FormatInt(cur, 10)
	s.bump(db, a[1], e, c)
	return resp.Int(cur)
}

// ---- lists (just enough for blocking-pop style scenarios)

func cmdPush(s *Server, c *Conn, db int, a []string) resp.Value {
	e := s.get(db, a[1])
	if e == nil {
		e = &entry{kind: 'l'}
		s.ks(db).m[a[1]] = e
	} else if e.kind != 'l' {
		return errWrongType
	}
	for _, v := range a[2:] {
		if strings.ToUpper(a[0]) == "LPUSH" {
			e.l = append([]string{v}, e.l...)
		} else {
			e.l = append(e.l, v)
		}
	}
	s.bump(db, a[1], e, c)
	return resp.Int(int64(len(e.l)))
}

func cmdPop(s *Server, c *Conn, db int, a []string) resp.Value {
	e := s.get(db, a[1])
	if e == nil {
		return resp.Null()
	}
	if e.kind != 'l' {
		return errWrongType
	}
	var v string
	if strings.ToUpper(a[0]) == "LPOP" {
		v, e.l = e.l[0], e.l[1:]
	} else {
		v, e.l = e.l[len(e.l)-1], e.l[:len(e.l)-1]
	}
	if len(e.l) == 0 {
		s.deleteKey(db, a[1], c)
	} else {
		s.bump(db, a[1], e, c)
	}
	return resp.Bulk(v)
}

func cmdLRange(s *Server, c *Conn, db int, a []string) resp.Value {
	e := s.get(db, a[1])
	if e == nil {
		return resp.Arr()
	}
	if e.kind != 'l' {
		return errWrongType
	}
	st, err1 := strconv.Atoi(a[2])
	en, err2 := strconv.Atoi(a[3])
	if err1 != nil || err2 != nil {
		return errNotInt
	}
	n := len(e.l)
	if st < 0 {
		st = max(n+st, 0)
	}
	if en < 0 {
		en = n + en
	}
	if en >= n {
		en = n - 1
	}
	if st > en {
		return resp.Arr()
	}
	return resp.Bulks(e.l[st : en+1]...)
}

func cmdLLen(s *Server, c *Conn, db int, a []string) resp.Value {
	e := s.get(db, a[1])
	if e == nil {
		return resp.Int(0)
	}
	if e.kind != 'l' {
		return errWrongType
	}
	return resp.Int(int64(len(e.l)))
}

// ---- BITFIELD (unsigned fields only: that is what the probabilistic filters use)

func cmdBitfield(s *Server, c *Conn, db int, a []string) resp.Value {
	ro := strings.ToUpper(a[0]) == "BITFIELD_RO"
	e := s.get(db, a[1])
	if e != nil && e.kind != 's' {
		return errWrongType
	}
	var data []byte
	if e != nil {
		data = []byte(e.s)
	}
	var out []resp.Value
	dirty := false
	getBits := func(off, w int64) int64 {
		var v int64
		for i := int64(0); i < w; i++ {
			bit := off + i
			b := byte(0)
			if int(bit/8) < len(data) {
				b = data[bit/8] >> (7 - uint(bit%8)) & 1
			}
			v = v<<1 | int64(b)
		}
		return v
	}
	setBits := func(off, w, val int64) {
		need := int((off + w + 7) / 8)
		for len(data) < need {
			data = append(data, 0)
		}
		for i := int64(0); i < w; i++ {
			bit := off + i
			b := byte(val >> uint(w-1-i) & 1)
			mask := byte(1) << (7 - uint(bit%8))
			if b == 1 {
				data[bit/8] |= mask
			} else {
				data[bit/8] &^= mask
			}
		}
	}
	parse := func(enc, offs string) (w, off int64, bad *resp.Value) {
		if len(enc) < 2 || (enc[0] != 'u' && enc[0] != 'U') {
			v := resp.Err("ERR fakeredis: only unsigned BITFIELD encodings are implemented")
			return 0, 0, &v
		}
		w, err := strconv.ParseInt(enc[1:], 10, 64)
		if err != nil || w < 1 || w > 63 {
			v := resp.Err("ERR Invalid bitfield type. Use something like i16 u8. Note that u64 is not supported but i64 is.")
			return 0, 0, &v
		}
		mul := int64(1)
		if strings.HasPrefix(offs, "#") {
			mul = w
			offs = offs[1:]
		}
		off, err = strconv.ParseInt(offs, 10, 64)
		if err != nil || off < 0 {
			v := resp.Err("ERR bit offset is not an integer or out of range")
			return 0, 0, &v
		}
		return w, off * mul, nil
	}
	for i := 2; i < len(a); {
		switch strings.ToUpper(a[i]) {
		case "GET":
			if i+2 >= len(a) {
				return errSyntax
			}
			w, off, bad := parse(a[i+1], a[i+2])
			if bad != nil {
				return *bad
			}
			out = append(out, resp.Int(getBits(off, w)))
			i += 3
		case "SET":
			if ro {
				return resp.Err("ERR BITFIELD_RO only supports the GET subcommand")
			}
			if i+3 >= len(a) {
				return errSyntax
			}
			w, off, bad := parse(a[i+1], a[i+2])
			if bad != nil {
				return *bad
			}
			val, err := strconv.ParseInt(a[i+3], 10, 64)
			if err != nil {
				return errNotInt
			}
			out = append(out, resp.Int(getBits(off, w)))
			setBits(off, w, val&(1<<uint(w)-1))
			dirty = true
			i += 4
		case "INCRBY":
			if ro {
				return resp.Err("ERR BITFIELD_RO only supports the GET subcommand")
			}
			if i+3 >= len(a) {
				return errSyntax
			}
			w, off, bad := parse(a[i+1], a[i+2])
			if bad != nil {
				return *bad
			}
			by, err := strconv.ParseInt(a[i+3], 10, 64)
			if err != nil {
				return errNotInt
			}
			nv := (getBits(off, w) + by) & (1<<uint(w) - 1)
			setBits(off, w, nv)
			out = append(out, resp.Int(nv))
			dirty = true
			i += 4
		case "OVERFLOW":
			i += 2
		default:
			return errSyntax
		}
	}
	if dirty {
		s.setString(db, a[1], string(data), c, true)
	}
	return resp.Arr(out...)
}

// ---- minimal RedisJSON: root and top-level field paths

func jsonPath(p string) (field string, root, legacy bool, ok bool) {
	switch {
	case p == "$":
		return "", true, false, true
	case p == ".":
		return "", true, true, true
	case strings.HasPrefix(p, "$.") && !strings.ContainsAny(p[2:], ".[*"):
		return p[2:], false, false, true
	case strings.HasPrefix(p, ".") && !strings.ContainsAny(p[1:], ".[*"):
		return p[1:], false, true, true
	case !strings.ContainsAny(p, ".[*$"):
		return p, false, true, true
	}
	return "", false, false, false
}

var errJSONPath = resp.Err("ERR fakeredis: only $, ., $.field and .field JSON paths are implemented")

func jsonMarshal(v any) string {
	var buf bytes.Buffer
	enc := json.NewEncoder(&buf)
	enc.SetEscapeHTML(false)
	_ = enc.Encode(v)
	return strings.TrimRight(buf.String(), "\n")
}

func jsonDecode(s string) (any, error) {
	dec := json.NewDecoder(strings.NewReader(s))
	dec.UseNumber()
	var v any
	if err := dec.Decode(&v); err != nil {
		return nil, err
	}
	return v, nil
}

func cmdJSONSet(s *Server, c *Conn, db int, a []string) resp.Value {
	field, root, _, ok := jsonPath(a[2])
	if !ok {
		return errJSONPath
	}
	v, err := jsonDecode(a[3])
	if err != nil {
		return resp.Err("ERR invalid JSON: " + err.Error())
	}
	e := s.get(db, a[1])
	if e != nil && e.kind != 'j' {
		return errWrongType
	}
	nx, xx := false, false
	for _, o := range a[4:] {
		switch strings.ToUpper(o) {
		case "NX":
			nx = true
		case "XX":
			xx = true
		}
	}
	if root {
		if nx && e != nil || xx && e == nil {
			return resp.Null()
		}
		ne := &entry{kind: 'j', j: v}
		if e != nil {
			ne.ver, ne.expireAt = e.ver, e.expireAt
		}
		s.ks(db).m[a[1]] = ne
		s.bump(db, a[1], ne, c)
		return resp.OK()
	}
	if e == nil {
		return resp.Err("ERR new objects must be created at the root")
	}
	obj, isObj := e.j.(map[string]any)
	if !isObj {
		return resp.Null()
	}
	_, exists := obj[field]
	if nx && exists || xx && !exists {
		return resp.Null()
	}
	obj[field] = v
	s.bump(db, a[1], e, c)
	return resp.OK()
}

func jsonGetOne(e *entry, p string) (resp.Value, bool) {
	field, root, legacy, ok := jsonPath(p)
	if !ok {
		return errJSONPath, false
	}
	var v any
	found := true
	if root {
		v = e.j
	} else {
		obj, isObj := e.j.(map[string]any)
		if isObj {
			v, found = obj[field]
		} else {
			found = false
		}
	}
	if legacy {
		if !found {
			return resp.Err("ERR Path '" + p + "' does not exist"), false
		}
		return resp.Bulk(jsonMarshal(v)), true
	}
	if !found {
		return resp.Bulk("[]"), true
	}
	return resp.Bulk(jsonMarshal([]any{v})), true
}

func cmdJSONGet(s *Server, c *Conn, db int, a []string) resp.Value {
	e := s.get(db, a[1])
	if e == nil {
		return resp.Null()
	}
	if e.kind != 'j' {
		return errWrongType
	}
	p := "."
	if len(a) > 2 {
		p = a[len(a)-1]
	}
	v, _ := jsonGetOne(e, p)
	return v
}

func cmdJSONMGet(s *Server, c *Conn, db int, a []string) resp.Value {
	p := a[len(a)-1]
	var out []resp.Value
	for _, k := range a[1 : len(a)-1] {
		e := s.get(db, k)
		if e == nil || e.kind != 'j' {
			out = append(out, resp.Null())
			continue
		}
		v, ok := jsonGetOne(e, p)
		if !ok {
			out = append(out, resp.Null())
		} else {
			out = append(out, v)
		}
	}
	return resp.Arr(out...)
}

func cmdJSONMSet(s *Server, c *Conn, db int, a []string) resp.Value {
	if (len(a)-1)%3 != 0 {
		return errArity("JSON.MSET")
	}
	for i := 1; i+2 < len(a); i += 3 {
		if r := cmdJSONSet(s, c, db, []string{"JSON.SET", a[i], a[i+1], a[i+2]}); r.IsErr() {
			return r
		}
	}
	return resp.OK()
}

func cmdJSONNumIncrBy(s *Server, c *Conn, db int, a []string) resp.Value {
	field, root, legacy, ok := jsonPath(a[2])
	if !ok || root {
		return errJSONPath
	}
	e := s.get(db, a[1])
	if e == nil {
		return resp.Err("ERR could not perform this operation on a key that doesn't exist")
	}
	if e.kind != 'j' {
		return errWrongType
	}
	obj, isObj := e.j.(map[string]any)
	if !isObj {
		return resp.Err("ERR not an object")
	}
	by, err := strconv.ParseFloat(a[3], 64)
	if err != nil {
		return resp.Err("ERR value is not a number")
	}
	cur, has := obj[field]
	if !has {
		if legacy {
			return resp.Err("ERR Path '" + a[2] + "' does not exist")
		}
		return resp.Bulk("[]")
	}
	num, isNum := cur.(json.Number)
	if !isNum {
		if legacy {
			return resp.Err("ERR wrong type of path value - expected a number but found something else")
		}
		return resp.Bulk("[null]")
	}
	f, _ := num.Float64()
	f += by
	var nv json.Number
	if f == math.Trunc(f) && math.Abs(f) < 1e15 {
		nv = json.Number(strconv.FormatInt(int64(f), 10))
	} else {
		nv = json.Number(strconv.FormatFloat(f, 'g', -1, 64))
	}
	obj[field] = nv
	s.bump(db, a[1], e, c)
	if legacy {
		return resp.Bulk(string(nv))
	}
	return resp.Bulk("[" + string(nv) + "]")
}

// ---- misc

func cmdTime(s *Server, c *Conn, db int, a []string) resp.Value {
	now := time.Now()
	return resp.Bulks(strconv.FormatInt(now.Unix(), 10), strconv.FormatInt(int64(now.Nanosecond()/1000), 10))
}

func cmdPublish(s *Server, c *Conn, db int, a []string) resp.Value {
	return resp.Int(s.publishLocked(strings.ToUpper(a[0]) == "SPUBLISH", a[1], a[2]))
}

func (s *Server) publishLocked(shard bool, ch, msg string) int64 {
	n := int64(0)
	deliver := func(set map[*Conn]bool, kind string, elems ...resp.Value) {
		var cs []*Conn
		for c := range set {
			cs = append(cs, c)
		}
		sort.Slice(cs, func(i, j int) bool { return cs[i].ID < cs[j].ID })
		for _, c := range cs {
			c.pushLocked(kind, elems...)
			n++
		}
	}
	if shard {
		deliver(s.spubsub[ch], "smessage", resp.Bulk(ch), resp.Bulk(msg))
		return n
	}
	deliver(s.pubsub[ch], "message", resp.Bulk(ch), resp.Bulk(msg))
	var pats []string
	for p := range s.ppubsub {
		pats = append(pats, p)
	}
	sort.Strings(pats)
	for _, p := range pats {
		if globMatch(p, ch) {
			deliver(s.ppubsub[p], "pmessage", resp.Bulk(p), resp.Bulk(ch), resp.Bulk(msg))
		}
	}
	return n
}

// Publish lets a scenario publish as another client.
func (s *Server) Publish(ch, msg string) int64 {
	s.W.mu.Lock()
	defer s.W.mu.Unlock()
	s.W.logLocked(Event{Server: s.Addr, Conn: -1, Kind: "exec", Req: -1, Argv: []string{"PUBLISH", ch, msg}, Note: "external client"})
	return s.publishLocked(false, ch, msg)
}

func (s *Server) SPublish(ch, msg string) int64 {
	s.W.mu.Lock()
	defer s.W.mu.Unlock()
	s.W.logLocked(Event{Server: s.Addr, Conn: -1, Kind: "exec", Req: -1, Argv: []string{"SPUBLISH", ch, msg}, Note: "external client"})
	return s.publishLocked(true, ch, msg)
}

func globMatch(pat, s string) bool {
	ok, err := path.Match(pat, s)
	return err == nil && ok
}

func cmdVExec(s *Server, c *Conn, db int, a []string) resp.Value {
	cid, req := -1, -1
	if c != nil {
		cid, req = c.ID, c.nreq-1
	}
	s.ExecLog = append(s.ExecLog, ExecEntry{UID: a[1], Conn: cid, Req: req, Seq: s.W.seq})
	n := 0
	for _, e := range s.ExecLog {
		if e.UID == a[1] {
			n++
		}
	}
	return resp.Bulk(fmt.Sprintf("VEXEC:%s:%d", a[1], n))
}

// VREPLY <uid> <raw reply bytes>: replies with exactly those bytes.
func cmdVReply(s *Server, c *Conn, db int, a []string) resp.Value {
	raw := []byte(a[2])
	v, err := resp.Read(bufio.NewReader(bytes.NewReader(raw)))
	if err != nil {
		return resp.Err("ERR fakeredis: VREPLY payload is not a RESP value: " + err.Error())
	}
	v.Raw = raw
	return v
}

// ---- scripting

func sha1hex(s string) string {
	h := sha1.Sum([]byte(s))
	return hex.EncodeToString(h[:])
}

func (s *Server) runScript(c *Conn, cmd, body string, rest []string, caching bool) resp.Value {
	if len(rest) < 1 {
		return errArity(cmd)
	}
	nk, err := strconv.Atoi(rest[0])
	if err != nil || nk < 0 || nk > len(rest)-1 {
		return resp.Err("ERR Number of keys can't be greater than number of args")
	}
	keys, args := rest[1:1+nk], rest[1+nk:]
	ro := strings.HasSuffix(strings.ToUpper(cmd), "_RO")
	s.LuaRuns = append(s.LuaRuns, LuaRun{SHA: sha1hex(body), Cmd: strings.ToUpper(cmd), Conn: connID(c), Seq: s.W.seq})
	v, rerr := lua.Run(body, keys, args, func(argv []string) resp.Value {
		if len(argv) == 0 {
			return resp.Err("ERR Please specify at least one argument for this redis lib call")
		}
		if ro && IsWriteCommand(argv[0]) {
			return resp.Err("ERR Write commands are not allowed from read-only scripts.")
		}
		r := s.execDataOpt(c, argv, caching)
		return toRESP2(r)
	})
	if rerr != nil {
		if errors.Is(rerr, lua.ErrUnsupported) {
			return resp.Err("ERR FAKEREDIS-LUA-UNSUPPORTED " + rerr.Error())
		}
		return resp.Err("ERR Error compiling script (new function): " + rerr.Error())
	}
	return v
}

func connID(c *Conn) int {
	if c == nil {
		return -1
	}
	return c.ID
}

// toRESP2 converts a reply to what a script sees (RESP2 conversion of maps/doubles/bools).
func toRESP2(v resp.Value) resp.Value {
	switch v.T {
	case '%', '~', '>':
		out := make([]resp.Value, len(v.A))
		for i := range v.A {
			out[i] = toRESP2(v.A[i])
		}
		return resp.Arr(out...)
	case '*':
		out := make([]resp.Value, len(v.A))
		for i := range v.A {
			out[i] = toRESP2(v.A[i])
		}
		return resp.Arr(out...)
	case '#':
		return resp.Int(v.I)
	case ',', '(', '=':
		return resp.Bulk(v.S)
	case '!':
		return resp.Err(v.S)
	}
	return v
}
