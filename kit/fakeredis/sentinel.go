package fakeredis

import (
	"fmt"
	"sort"
	"strconv"
	"strings"

	"verifkit/resp"
)

// Sentinel personality.
//
// A SentinelGroup ties several Servers of one World together: some act as Redis Sentinel
// processes monitoring one master set, the others are the data nodes of that set. The group keeps
// two things apart on purpose:
//
//   - the TRUTH: each data node's own Role/MasterAddr (what the node answers to ROLE / INFO);
//   - the VIEW of every sentinel: what that sentinel answers to SENTINEL GET-MASTER-ADDR-BY-NAME,
//     SENTINEL REPLICAS and SENTINEL SENTINELS. A view may lag behind or contradict the truth.
//
// so that a scenario can produce "the sentinel says master, the node answers ROLE slave" and
// similar situations. Sentinel nodes answer the commands a sentinel-aware client sends (HELLO,
// CLIENT ..., PING, AUTH, (P)SUBSCRIBE/(P)UNSUBSCRIBE through the built-in code, SENTINEL ...,
// ROLE, INFO here) with the reply shapes of Redis Sentinel 7 (maps are real maps in RESP3 and flat
// arrays in RESP2) and refuse data commands like a real sentinel does. Events are published on the
// sentinel's Pub/Sub channels (+switch-master, +sdown, -sdown, +slave, +reboot, +sentinel ...) with
// the "<instance-type> <name> <ip> <port> @ <master-name> <master-ip> <master-port>" payloads.
//
// Methods without the Locked suffix take the world lock themselves; the Locked variants are for
// use inside Hooks (which run with the world locked), e.g. from SentinelGroup.OnQuery.

// SentinelReplica is one entry of a sentinel's replica table.
type SentinelReplica struct {
	Addr         string `json:"addr"`
	SDown        bool   `json:"s_down,omitempty"`       // subjectively down: flags s_down, field s-down-time
	ODown        bool   `json:"o_down,omitempty"`       // flags o_down, field o-down-time (masters only in real life)
	Disconnected bool   `json:"disconnected,omitempty"` // flags disconnected
}

// SentinelView is what one sentinel reports.
type SentinelView struct {
	Master   string            `json:"master"` // "" = the sentinel does not know the master set's address (null reply)
	Replicas []SentinelReplica `json:"replicas"`
	Peers    []string          `json:"peers"` // the other sentinels this one knows
	Epoch    int               `json:"epoch"`
}

type SentinelGroup struct {
	W         *World
	Name      string // master set name
	Sentinels []*Server
	Nodes     []*Server
	views     map[string]*SentinelView
	// Intercept, if set, sees every command a sentinel node receives first (world locked);
	// handled=true answers the command with the returned value.
	Intercept func(s *Server, c *Conn, req int, argv []string) (resp.Value, bool)
	// OnQuery, if set, runs (world locked) right after a sentinel computed the answer of a
	// SENTINEL subcommand (sub is upper case: SENTINELS, GET-MASTER-ADDR-BY-NAME, REPLICAS ...)
	// and before that answer is queued; it may change truth and views with the *Locked methods
	// (the answer already computed is not affected). Frames pushed from here would overtake the
	// answer on the same connection, so publish from a goroutine instead when order matters.
	OnQuery func(s *Server, c *Conn, sub string, answer resp.Value)
	// Queries counts answered SENTINEL subcommands per "sentinel-addr SUB".
	Queries map[string]int
}

// NewSentinelGroup creates the servers (sentinels first) and a consistent initial state: node
// `master` is the master, every other node its replica, every sentinel knows all of it.
func NewSentinelGroup(w *World, name string, sentinelAddrs, nodeAddrs []string, master int) *SentinelGroup {
	g := &SentinelGroup{W: w, Name: name, views: map[string]*SentinelView{}, Queries: map[string]int{}}
	for _, a := range sentinelAddrs {
		s := w.NewServer(a)
		s.Role = "sentinel"
		g.Sentinels = append(g.Sentinels, s)
	}
	for _, a := range nodeAddrs {
		g.Nodes = append(g.Nodes, w.NewServer(a))
	}
	w.mu.Lock()
	g.PromoteLocked(nodeAddrs[master])
	for _, s := range g.Sentinels {
		v := &SentinelView{}
		for _, o := range g.Sentinels {
			if o != s {
				v.Peers = append(v.Peers, o.Addr)
			}
		}
		g.views[s.Addr] = v
		g.SetViewMasterLocked(s.Addr, nodeAddrs[master])
		s := s
		s.Hooks.Command = func(c *Conn, req int, argv []string) (resp.Value, bool) { return g.command(s, c, req, argv) }
	}
	w.mu.Unlock()
	return g
}

func (g *SentinelGroup) node(addr string) *Server {
	for _, n := range g.Nodes {
		if n.Addr == addr {
			return n
		}
	}
	return nil
}

func (g *SentinelGroup) sentinel(addr string) *Server {
	for _, s := range g.Sentinels {
		if s.Addr == addr {
			return s
		}
	}
	return nil
}

// ---- truth

// PromoteLocked makes addr the master and every other data node a replica of it (truth only).
func (g *SentinelGroup) PromoteLocked(addr string) {
	for _, n := range g.Nodes {
		if n.Addr == addr {
			n.Role, n.MasterAddr, n.ReadOnlyReplica = "master", "", false
		} else {
			n.Role, n.MasterAddr, n.ReadOnlyReplica = "slave", addr, true
		}
	}
}

func (g *SentinelGroup) Promote(addr string) {
	g.W.mu.Lock()
	defer g.W.mu.Unlock()
	g.PromoteLocked(addr)
}

// SetRoleLocked changes one node's own idea of its role (truth only, other nodes untouched).
func (g *SentinelGroup) SetRoleLocked(addr, role, masterAddr string) {
	if n := g.node(addr); n != nil {
		n.Role, n.MasterAddr, n.ReadOnlyReplica = role, masterAddr, role != "master"
	}
}

func (g *SentinelGroup) SetRole(addr, role, masterAddr string) {
	g.W.mu.Lock()
	defer g.W.mu.Unlock()
	g.SetRoleLocked(addr, role, masterAddr)
}

// TrueMasterLocked returns the addresses of the nodes that currently answer ROLE as master.
func (g *SentinelGroup) TrueMastersLocked() []string {
	var out []string
	for _, n := range g.Nodes {
		if n.Role == "master" {
			out = append(out, n.Addr)
		}
	}
	return out
}

func (g *SentinelGroup) TrueMasters() []string {
	g.W.mu.Lock()
	defer g.W.mu.Unlock()
	return g.TrueMastersLocked()
}

// ---- views

// ViewLocked returns the live view of a sentinel (mutable, world must be locked).
func (g *SentinelGroup) ViewLocked(sentinel string) *SentinelView { return g.views[sentinel] }

// View returns a copy of a sentinel's view.
func (g *SentinelGroup) View(sentinel string) SentinelView {
	g.W.mu.Lock()
	defer g.W.mu.Unlock()
	v := g.views[sentinel]
	if v == nil {
		return SentinelView{}
	}
	out := *v
	out.Replicas = append([]SentinelReplica(nil), v.Replicas...)
	out.Peers = append([]string(nil), v.Peers...)
	return out
}

// SetViewMasterLocked makes the sentinel report master as the master and every other data node
// as its replica; flags of replicas the view already had are kept.
func (g *SentinelGroup) SetViewMasterLocked(sentinel, master string) {
	v := g.views[sentinel]
	if v == nil {
		return
	}
	old := map[string]SentinelReplica{}
	for _, r := range v.Replicas {
		old[r.Addr] = r
	}
	v.Master = master
	v.Replicas = v.Replicas[:0:0]
	for _, n := range g.Nodes {
		if n.Addr == master {
			continue
		}
		r := old[n.Addr]
		r.Addr = n.Addr
		v.Replicas = append(v.Replicas, r)
	}
	v.Epoch++
}

func (g *SentinelGroup) SetViewMaster(sentinel, master string) {
	g.W.mu.Lock()
	defer g.W.mu.Unlock()
	g.SetViewMasterLocked(sentinel, master)
}

// SetViewLocked replaces a sentinel's master and replica table verbatim.
func (g *SentinelGroup) SetViewLocked(sentinel, master string, replicas ...SentinelReplica) {
	if v := g.views[sentinel]; v != nil {
		v.Master = master
		v.Replicas = append([]SentinelReplica(nil), replicas...)
		v.Epoch++
	}
}

func (g *SentinelGroup) SetView(sentinel, master string, replicas ...SentinelReplica) {
	g.W.mu.Lock()
	defer g.W.mu.Unlock()
	g.SetViewLocked(sentinel, master, replicas...)
}

// SetPeers sets the sentinels a sentinel reports with SENTINEL SENTINELS.
func (g *SentinelGroup) SetPeers(sentinel string, peers ...string) {
	g.W.mu.Lock()
	defer g.W.mu.Unlock()
	if v := g.views[sentinel]; v != nil {
		v.Peers = append([]string(nil), peers...)
	}
}

// SetSDownLocked marks (or clears) a replica as subjectively down in one sentinel's table.
func (g *SentinelGroup) SetSDownLocked(sentinel, replica string, down bool) {
	if v := g.views[sentinel]; v != nil {
		for i := range v.Replicas {
			if v.Replicas[i].Addr == replica {
				v.Replicas[i].SDown = down
				v.Replicas[i].Disconnected = down
			}
		}
	}
}

func (g *SentinelGroup) SetSDown(sentinel, replica string, down bool) {
	g.W.mu.Lock()
	defer g.W.mu.Unlock()
	g.SetSDownLocked(sentinel, replica, down)
}

// ---- events

// SentinelInstance formats the instance details of a sentinel event:
// "<kind> <name> <ip> <port>" for the master itself, with " @ <master-name> <mip> <mport>" appended
// for replicas and sentinels.
func SentinelInstance(kind, name, addr, masterName, masterAddr string) string {
	ip, port := senSplit(addr)
	s := kind + " " + name + " " + ip + " " + port
	if kind != "master" {
		mip, mport := senSplit(masterAddr)
		s += " @ " + masterName + " " + mip + " " + mport
	}
	return s
}

func senSplit(addr string) (string, string) {
	i := strings.LastIndex(addr, ":")
	if i < 0 {
		return addr, "0"
	}
	return strings.Trim(addr[:i], "[]"), addr[i+1:]
}

// PublishEventLocked publishes msg on channel ch of one sentinel; returns the number of receivers.
func (g *SentinelGroup) PublishEventLocked(sentinel, ch, msg string) int64 {
	s := g.sentinel(sentinel)
	if s == nil {
		return 0
	}
	g.W.logLocked(Event{Server: s.Addr, Conn: -1, Kind: "exec", Req: -1, Argv: []string{"PUBLISH", ch, msg}, Note: "sentinel event"})
	return s.publishLocked(false, ch, msg)
}

func (g *SentinelGroup) PublishEvent(sentinel, ch, msg string) int64 {
	g.W.mu.Lock()
	defer g.W.mu.Unlock()
	return g.PublishEventLocked(sentinel, ch, msg)
}

// SubscribersLocked counts the connections of one sentinel that are subscribed to channel ch
// (plain SUBSCRIBE), so that a scenario can publish an event only when somebody listens.
func (g *SentinelGroup) SubscribersLocked(sentinel, ch string) int {
	s := g.sentinel(sentinel)
	if s == nil {
		return 0
	}
	return len(s.pubsub[ch])
}

// SwitchMasterMsg is the payload of +switch-master.
func (g *SentinelGroup) SwitchMasterMsg(oldMaster, newMaster string) string {
	oip, oport := senSplit(oldMaster)
	nip, nport := senSplit(newMaster)
	return g.Name + " " + oip + " " + oport + " " + nip + " " + nport
}

// ReplicaEventMsg is the payload of +slave / +sdown / -sdown / +reboot for a replica as seen by
// the given sentinel (the master named after "@" is the sentinel's current master).
func (g *SentinelGroup) ReplicaEventMsg(sentinel, replica string) string {
	g.W.mu.Lock()
	defer g.W.mu.Unlock()
	return g.replicaEventMsgLocked(sentinel, replica)
}

func (g *SentinelGroup) replicaEventMsgLocked(sentinel, replica string) string {
	m := ""
	if v := g.views[sentinel]; v != nil {
		m = v.Master
	}
	return SentinelInstance("slave", replica, replica, g.Name, m)
}

// MasterEventMsg is the payload of +reboot / +sdown ... for the master itself.
func (g *SentinelGroup) MasterEventMsg(master string) string {
	return SentinelInstance("master", g.Name, master, "", "")
}

// AnnounceLocked lets one sentinel learn a failover: its view moves to newMaster and it publishes
// +switch-master <name> <oldip> <oldport> <newip> <newport> (old = the master it reported so far).
func (g *SentinelGroup) AnnounceLocked(sentinel, newMaster string) int64 {
	v := g.views[sentinel]
	if v == nil {
		return 0
	}
	old := v.Master
	g.SetViewMasterLocked(sentinel, newMaster)
	return g.PublishEventLocked(sentinel, "+switch-master", g.SwitchMasterMsg(old, newMaster))
}

func (g *SentinelGroup) Announce(sentinel, newMaster string) int64 {
	g.W.mu.Lock()
	defer g.W.mu.Unlock()
	return g.AnnounceLocked(sentinel, newMaster)
}

// Failover is the complete, instantaneous failover: truth flips and every sentinel announces it.
func (g *SentinelGroup) Failover(newMaster string) {
	g.W.mu.Lock()
	defer g.W.mu.Unlock()
	g.PromoteLocked(newMaster)
	for _, s := range g.Sentinels {
		g.AnnounceLocked(s.Addr, newMaster)
	}
}

// KillConns drops every live connection of the server at addr (sentinel or data node).
func (g *SentinelGroup) KillConns(addr string) int {
	var s *Server
	if s = g.node(addr); s == nil {
		s = g.sentinel(addr)
	}
	if s == nil {
		return 0
	}
	n := 0
	for _, c := range s.LiveConns() {
		c.Kill()
		n++
	}
	return n
}

// ---- command handling of a sentinel node (world locked)

func (g *SentinelGroup) command(s *Server, c *Conn, req int, argv []string) (resp.Value, bool) {
	if g.Intercept != nil {
		if v, ok := g.Intercept(s, c, req, argv); ok {
			return v, true
		}
	}
	name := strings.ToUpper(argv[0])
	switch name {
	case "SENTINEL":
		if len(argv) < 2 {
			return errArity("sentinel"), true
		}
		sub := strings.ToUpper(argv[1])
		v := g.sentinelCmd(s, sub, argv)
		g.Queries[s.Addr+" "+sub]++
		if g.OnQuery != nil {
			g.OnQuery(s, c, sub, v)
		}
		return v, true
	case "ROLE":
		return resp.Arr(resp.Bulk("sentinel"), resp.Arr(resp.Bulk(g.Name))), true
	case "INFO":
		v := g.views[s.Addr]
		ip, port := senSplit(v.Master)
		return resp.Bulk(fmt.Sprintf("# Server\r\nredis_version:%s\r\nredis_mode:sentinel\r\n# Sentinel\r\nsentinel_masters:1\r\nmaster0:name=%s,status=ok,address=%s:%s,slaves=%d,sentinels=%d\r\n",
			s.Version, g.Name, ip, port, len(v.Replicas), len(v.Peers)+1)), true
	}
	if _, data := table[name]; data || name == "EVAL" || name == "EVALSHA" || name == "EVAL_RO" || name == "EVALSHA_RO" || name == "SCRIPT" ||
		name == "MULTI" || name == "EXEC" || name == "WATCH" || name == "UNWATCH" || name == "DISCARD" || name == "SELECT" || name == "READONLY" || name == "READWRITE" {
		if name != "PUBLISH" { // a sentinel accepts PUBLISH (hello channel)
			return resp.Err(fmt.Sprintf("ERR unknown command '%s', with args beginning with: %s", argv[0], senArgsPreview(argv[1:]))), true
		}
	}
	return resp.Value{}, false
}

func senArgsPreview(a []string) string {
	var b strings.Builder
	for _, x := range a {
		b.WriteString("'" + x + "' ")
	}
	return b.String()
}

func (g *SentinelGroup) sentinelCmd(s *Server, sub string, argv []string) resp.Value {
	v := g.views[s.Addr]
	needName := func() (resp.Value, bool) {
		if len(argv) != 3 {
			return resp.Err("ERR wrong number of arguments for 'sentinel|" + strings.ToLower(sub) + "' command"), false
		}
		if argv[2] != g.Name {
			return resp.Err("ERR No such master with that name"), false
		}
		return resp.Value{}, true
	}
	switch sub {
	case "GET-MASTER-ADDR-BY-NAME":
		if len(argv) != 3 {
			return resp.Err("ERR wrong number of arguments for 'sentinel|get-master-addr-by-name' command")
		}
		if argv[2] != g.Name || v.Master == "" {
			n := resp.Null()
			n.Null2 = '*'
			return n
		}
		ip, port := senSplit(v.Master)
		return resp.Arr(resp.Bulk(ip), resp.Bulk(port))
	case "REPLICAS", "SLAVES":
		if e, ok := needName(); !ok {
			return e
		}
		out := make([]resp.Value, 0, len(v.Replicas))
		for _, r := range v.Replicas {
			out = append(out, g.replicaInfo(v, r))
		}
		return resp.Arr(out...)
	case "SENTINELS":
		if e, ok := needName(); !ok {
			return e
		}
		out := make([]resp.Value, 0, len(v.Peers))
		for i, p := range v.Peers {
			out = append(out, g.peerInfo(v, p, i))
		}
		return resp.Arr(out...)
	case "MASTER":
		if e, ok := needName(); !ok {
			return e
		}
		return g.masterInfo(v)
	case "MASTERS":
		return resp.Arr(g.masterInfo(v))
	case "MYID":
		return resp.Bulk(senRunID("sentinel", s.Addr))
	}
	return resp.Err("ERR unknown subcommand '" + argv[1] + "'. Try SENTINEL HELP.")
}

func senRunID(kind, addr string) string {
	h := uint64(1469598103934665603)
	for _, b := range []byte(kind + "/" + addr) {
		h = (h ^ uint64(b)) * 1099511628211
	}
	return fmt.Sprintf("%016x%016x%08x", h, h*0x9e3779b97f4a7c15, uint32(h>>7))
}

func senKV(kv ...string) resp.Value {
	out := make([]resp.Value, len(kv))
	for i, s := range kv {
		out[i] = resp.Bulk(s)
	}
	return resp.Map(out...)
}

func (g *SentinelGroup) replicaInfo(v *SentinelView, r SentinelReplica) resp.Value {
	ip, port := senSplit(r.Addr)
	mip, mport := senSplit(v.Master)
	var flags []string
	if r.SDown {
		flags = append(flags, "s_down")
	}
	if r.ODown {
		flags = append(flags, "o_down")
	}
	flags = append(flags, "slave")
	if r.Disconnected {
		flags = append(flags, "disconnected")
	}
	kv := []string{
		"name", r.Addr, "ip", ip, "port", port, "runid", senRunID("node", r.Addr),
		"flags", strings.Join(flags, ","),
		"link-pending-commands", "0", "link-refcount", "1",
		"last-ping-sent", "0", "last-ok-ping-reply", "127", "last-ping-reply", "127",
	}
	if r.SDown {
		kv = append(kv, "s-down-time", "31337")
	}
	if r.ODown {
		kv = append(kv, "o-down-time", "31337")
	}
	status := "ok"
	if r.SDown {
		status = "err"
	}
	kv = append(kv,
		"down-after-milliseconds", "5000", "info-refresh", "4200",
		"role-reported", "slave", "role-reported-time", "104200",
		"master-link-down-time", "0", "master-link-status", status,
		"master-host", mip, "master-port", mport,
		"slave-priority", "100", "slave-repl-offset", "123456", "replica-announced", "1")
	return senKV(kv...)
}

func (g *SentinelGroup) peerInfo(v *SentinelView, addr string, i int) resp.Value {
	ip, port := senSplit(addr)
	id := senRunID("sentinel", addr)
	return senKV(
		"name", id, "ip", ip, "port", port, "runid", id, "flags", "sentinel",
		"link-pending-commands", "0", "link-refcount", "1",
		"last-ping-sent", "0", "last-ok-ping-reply", "88", "last-ping-reply", "88",
		"down-after-milliseconds", "5000", "last-hello-message", "412",
		"voted-leader", "?", "voted-leader-epoch", strconv.Itoa(v.Epoch))
}

func (g *SentinelGroup) masterInfo(v *SentinelView) resp.Value {
	ip, port := senSplit(v.Master)
	return senKV(
		"name", g.Name, "ip", ip, "port", port, "runid", senRunID("node", v.Master), "flags", "master",
		"link-pending-commands", "0", "link-refcount", "1",
		"last-ping-sent", "0", "last-ok-ping-reply", "100", "last-ping-reply", "100",
		"down-after-milliseconds", "5000", "info-refresh", "4100",
		"role-reported", "master", "role-reported-time", "99000",
		"config-epoch", strconv.Itoa(v.Epoch), "num-slaves", strconv.Itoa(len(v.Replicas)),
		"num-other-sentinels", strconv.Itoa(len(v.Peers)), "quorum", "2",
		"failover-timeout", "60000", "parallel-syncs", "1")
}

// Describe renders truth and views (for failure messages).
func (g *SentinelGroup) Describe() string {
	g.W.mu.Lock()
	defer g.W.mu.Unlock()
	var b strings.Builder
	for _, n := range g.Nodes {
		fmt.Fprintf(&b, "%s=%s ", n.Addr, n.Role)
	}
	addrs := make([]string, 0, len(g.views))
	for a := range g.views {
		addrs = append(addrs, a)
	}
	sort.Strings(addrs)
	for _, a := range addrs {
		v := g.views[a]
		fmt.Fprintf(&b, "| %s says master=%s replicas=", a, v.Master)
		for _, r := range v.Replicas {
			b.WriteString(r.Addr)
			if r.SDown {
				b.WriteString("(s_down)")
			}
			b.WriteString(",")
		}
		b.WriteString(" ")
	}
	return b.String()
}
