package fakeredis

import "verifkit/resp"

// PushInvalidate queues ONE `invalidate` push that names several keys on the connection with the
// given id, as RESP3 allows (`>2 $10 invalidate *N key...`; Redis itself sends such frames from its
// tracking table when several tracked keys are invalidated together, e.g. when the table is trimmed).
// The keys are forgotten in the server's tracking table for that connection, as Redis does for every
// key it has announced. Nothing is sent (and false returned) when the connection does not exist, is
// closed, does not speak RESP3 or has tracking switched off.
func (s *Server) PushInvalidate(connID int, keys []string) bool {
	s.W.mu.Lock()
	defer s.W.mu.Unlock()
	if s.W.stopped || len(keys) == 0 {
		return false
	}
	var c *Conn
	for _, x := range s.conns {
		if x.ID == connID {
			c = x
		}
	}
	if c == nil || c.Dead() || c.Proto < 3 || !c.Tracking {
		return false
	}
	s.W.logLocked(Event{Server: s.Addr, Conn: -1, Kind: "exec", Req: -1, Argv: append([]string{"<push-invalidate>"}, keys...), Note: "scenario"})
	elems := make([]resp.Value, len(keys))
	for i, k := range keys {
		elems[i] = resp.Bulk(k)
		if set := s.tracked[k]; set != nil {
			delete(set, c)
			if len(set) == 0 {
				delete(s.tracked, k)
			}
		}
	}
	c.pushLocked("invalidate", resp.Arr(elems...))
	return true
}
