package fakeredis

import (
	"bufio"
	"testing"

	"verifkit/resp"
)

func TestPushInvalidateMultiKey(t *testing.T) {
	w := NewWorld()
	defer w.Stop()
	srv := w.NewServer("127.0.0.1:6379")
	nc, err := w.Dial("127.0.0.1:6379")
	if err != nil {
		t.Fatal(err)
	}
	defer nc.Close()
	r := bufio.NewReader(nc)
	send := func(argv ...string) resp.Value {
		vs := make([]resp.Value, len(argv))
		for i, a := range argv {
			vs[i] = resp.Bulk(a)
		}
		if _, err := nc.Write(resp.Append(nil, resp.Arr(vs...))); err != nil {
			t.Fatal(err)
		}
		v, err := resp.Read(r)
		if err != nil {
			t.Fatal(err)
		}
		return v
	}
	if srv.PushInvalidate(0, []string{"a"}) {
		t.Fatal("pushed on a RESP2 connection without tracking")
	}
	send("HELLO", "3")
	if srv.PushInvalidate(0, []string{"a"}) {
		t.Fatal("pushed on a connection without tracking")
	}
	if v := send("CLIENT", "TRACKING", "ON"); v.S != "OK" {
		t.Fatalf("tracking: %v", v)
	}
	send("GET", "a")
	if srv.PushInvalidate(7, []string{"a"}) {
		t.Fatal("pushed on an unknown connection")
	}
	if !srv.PushInvalidate(0, []string{"a", "b", "c"}) {
		t.Fatal("not pushed")
	}
	v, err := resp.Read(r)
	if err != nil {
		t.Fatal(err)
	}
	want := resp.Push(resp.Bulk("invalidate"), resp.Arr(resp.Bulk("a"), resp.Bulk("b"), resp.Bulk("c")))
	if !resp.Equal(v, want) {
		t.Fatalf("got %v want %v", v, want)
	}
	// "a" was announced: a later write must not announce it again
	srv.Do("SET", "a", "1")
	if v := send("PING"); v.S != "PONG" {
		t.Fatalf("expected PONG right away (no second invalidation of a), got %v", v)
	}
}
