package fakeredis

// Read-only inspection helpers for oracles of the add-on checks (C34 locks, C39 cache-aside):
// they look at the key space and at the sessions without logging an event, without touching
// tracking state and without expiring keys lazily, so that observing does not disturb the run.

// ConnsNamed returns the connections (closed ones included) whose client name, as set by
// HELLO ... SETNAME or CLIENT SETNAME, equals name.
func (s *Server) ConnsNamed(name string) []*Conn {
	s.W.mu.Lock()
	defer s.W.mu.Unlock()
	var out []*Conn
	for _, c := range s.conns {
		if c.Name == name {
			out = append(out, c)
		}
	}
	return out
}

// ClientName returns the connection's client name; call it with the world locked (hooks) or
// through Server.ConnsNamed.
func (c *Conn) ClientName() string { return c.Name }

// PeekStringLocked returns the string value of key in db 0 if the key exists, holds a string
// and has not reached its expiry time. The world must be locked by the caller: use it inside
// Hooks.Command / Hooks.AfterExec, which run with the world locked.
func (s *Server) PeekStringLocked(key string) (val string, ok bool) {
	e := s.ks(0).m[key]
	if e == nil || e.kind != 's' || (e.expireAt != 0 && e.expireAt <= nowMs()) {
		return "", false
	}
	return e.s, true
}

// PeekString is PeekStringLocked for callers outside hooks.
func (s *Server) PeekString(key string) (val string, ok bool) {
	s.W.mu.Lock()
	defer s.W.mu.Unlock()
	return s.PeekStringLocked(key)
}

// PeekExpireAtLocked returns the absolute expiry (unix ms, 0 = none) of an existing key.
func (s *Server) PeekExpireAtLocked(key string) (at int64, ok bool) {
	e := s.ks(0).m[key]
	if e == nil || (e.expireAt != 0 && e.expireAt <= nowMs()) {
		return 0, false
	}
	return e.expireAt, true
}
