package fakeredis

import (
	"bufio"
	"net"
	"testing"

	"verifkit/resp"
)

type rawClient struct {
	nc net.Conn
	r  *bufio.Reader
}

func (c *rawClient) do(t *testing.T, argv ...string) resp.Value {
	t.Helper()
	if _, err := c.nc.Write(resp.Append(nil, resp.Bulks(argv...))); err != nil {
		t.Fatalf("write %q: %v", argv, err)
	}
	v, err := resp.Read(c.r)
	if err != nil {
		t.Fatalf("read reply of %q: %v", argv, err)
	}
	return v
}

// An external client (Server.Do) changes the script cache the connections see, and the
// ScriptLoadFail plan only concerns connections.
func TestScriptExternal(t *testing.T) {
	w := NewWorld()
	defer w.Stop()
	srv := w.NewServer("a:1")
	nc, err := w.Dial("a:1")
	if err != nil {
		t.Fatal(err)
	}
	cl := &rawClient{nc: nc, r: bufio.NewReader(nc)}
	const body = "return ARGV[1]"
	sha := sha1hex(body)

	if v := cl.do(t, "EVALSHA", sha, "0", "x"); !v.IsErr() || v.S[:8] != "NOSCRIPT" {
		t.Fatalf("EVALSHA before load: %s", v)
	}
	if v := srv.Do("SCRIPT", "EXISTS", sha); v.String() != resp.Arr(resp.Int(0)).String() {
		t.Fatalf("EXISTS before load: %s", v)
	}
	w.Lock()
	srv.ScriptLoadFail = 1
	w.Unlock()
	if v := srv.Do("SCRIPT", "LOAD", body); v.IsErr() || v.S != sha {
		t.Fatalf("external LOAD must not be failed by the plan: %s", v)
	}
	if v := cl.do(t, "EVALSHA", sha, "0", "x"); v.IsErr() || v.S != "x" {
		t.Fatalf("EVALSHA after external load: %s", v)
	}
	if v := srv.Do("SCRIPT", "EXISTS", sha, "00"); v.String() != resp.Arr(resp.Int(1), resp.Int(0)).String() {
		t.Fatalf("EXISTS after load: %s", v)
	}
	// the fault plan is still armed for the connection: first LOAD fails, second succeeds
	if v := cl.do(t, "SCRIPT", "LOAD", body); !v.IsErr() {
		t.Fatalf("connection LOAD should fail by plan: %s", v)
	}
	if v := cl.do(t, "SCRIPT", "LOAD", body); v.IsErr() || v.S != sha {
		t.Fatalf("second connection LOAD: %s", v)
	}
	if v := srv.Do("SCRIPT", "FLUSH"); v.IsErr() {
		t.Fatalf("external FLUSH: %s", v)
	}
	if v := cl.do(t, "EVALSHA", sha, "0", "x"); !v.IsErr() || v.S[:8] != "NOSCRIPT" {
		t.Fatalf("EVALSHA after external flush: %s", v)
	}
	// EVAL caches the body for later EVALSHA, as Redis does
	if v := cl.do(t, "EVAL", body, "0", "y"); v.IsErr() || v.S != "y" {
		t.Fatalf("EVAL: %s", v)
	}
	if v := cl.do(t, "EVALSHA_RO", sha, "0", "z"); v.IsErr() || v.S != "z" {
		t.Fatalf("EVALSHA_RO after EVAL: %s", v)
	}
	if v := srv.Do("SCRIPT", "LOAD"); !v.IsErr() {
		t.Fatalf("arity: %s", v)
	}
	if v := srv.Do("SCRIPT", "NOPE"); !v.IsErr() {
		t.Fatalf("unknown subcommand: %s", v)
	}
	w.Lock()
	n := len(srv.LuaRuns)
	w.Unlock()
	if n != 3 {
		t.Fatalf("LuaRuns = %d, want 3 (NOSCRIPT replies do not run anything)", n)
	}
}
