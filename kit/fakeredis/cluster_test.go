package fakeredis

import (
	"bufio"
	"net"
	"strings"
	"testing"
	"testing/synctest"

	"verifkit/resp"
)

type cluRaw struct {
	t  *testing.T
	nc net.Conn
	r  *bufio.Reader
}

func cluDial(t *testing.T, w *World, addr string) *cluRaw {
	nc, err := w.Dial(addr)
	if err != nil {
		t.Fatal(err)
	}
	return &cluRaw{t: t, nc: nc, r: bufio.NewReader(nc)}
}

func (rc *cluRaw) do(argv ...string) resp.Value {
	vs := make([]resp.Value, len(argv))
	for i, a := range argv {
		vs[i] = resp.Bulk(a)
	}
	if _, err := rc.nc.Write(resp.Append(nil, resp.Arr(vs...))); err != nil {
		rc.t.Fatal(err)
	}
	v, err := resp.Read(rc.r)
	if err != nil {
		rc.t.Fatal(err)
	}
	return v
}

func TestClusterKeySlot(t *testing.T) {
	// vectors of the Redis Cluster specification / redis-cli CLUSTER KEYSLOT
	for k, want := range map[string]int{"123456789": 12739, "foo": 12182, "bar": 5061, "": 0, "somekey": 11058, "foo{hash_tag}": 2515, "bar{hash_tag}": 2515,
		"foo{bar}{zap}": 5061} {
		if got := KeySlot(k); got != want {
			t.Errorf("KeySlot(%q) = %d, want %d", k, got, want)
		}
	}
	// hash-tag rules of the specification: first '{', first '}' after it, empty content = whole key
	for k, same := range map[string]string{"{user1000}.following": "user1000", "foo{{bar}}zap": "{bar", "foo{}{bar}": "foo{}{bar}", "{}foo": "{}foo", "foo{bar": "foo{bar", "a}b{c}": "c"} {
		if int(CRC16(same)&16383) != KeySlot(k) {
			t.Errorf("KeySlot(%q) does not hash %q", k, same)
		}
	}
	if CRC16("123456789") != 0x31C3 {
		t.Errorf("CRC16 check value %#x", CRC16("123456789"))
	}
}

// cluKeyIn finds a key of the form prefix<n> that hashes to slot.
func cluKeyIn(slot int, prefix string) string {
	for i := 0; ; i++ {
		k := prefix + cluItoa(i)
		if KeySlot(k) == slot {
			return k
		}
	}
}

func cluItoa(i int) string {
	if i == 0 {
		return "0"
	}
	var b []byte
	for ; i > 0; i /= 10 {
		b = append([]byte{byte('0' + i%10)}, b...)
	}
	return string(b)
}

func cluErrPrefix(v resp.Value, p string) bool { return v.IsErr() && strings.HasPrefix(v.S, p) }

func TestClusterRouting(t *testing.T) {
	synctest.Test(t, func(t *testing.T) {
		w := NewWorld()
		defer w.Stop()
		a, ar, b, sp := w.NewServer("127.0.0.1:7001"), w.NewServer("127.0.0.1:7011"), w.NewServer("127.0.0.1:7002"), w.NewServer("127.0.0.1:7003")
		cl := NewCluster(w)
		sa := cl.AddShard(a, ar)
		sb := cl.AddShard(b)
		ss := cl.AddShard(sp)
		cl.AssignSlots(0, 8000, sa)
		cl.AssignSlots(8001, 16000, sb) // 16001..16383 unowned
		ka, kb, ku := cluKeyIn(100, "a"), cluKeyIn(9000, "b"), cluKeyIn(16100, "u")
		ka2 := "{" + ka + "}:2"
		ca, cb, car, csp := cluDial(t, w, a.Addr), cluDial(t, w, b.Addr), cluDial(t, w, ar.Addr), cluDial(t, w, sp.Addr)
		for _, c := range []*cluRaw{ca, cb, car, csp} {
			if v := c.do("HELLO", "3"); v.T != '%' {
				t.Fatalf("HELLO: %s", v)
			}
		}
		if v := ca.do("KECHO", ka, "u1"); v.S != "u1@"+a.Addr {
			t.Fatalf("owner serves: %s", v)
		}
		if v := ca.do("KECHO", kb, "u2"); !cluErrPrefix(v, "MOVED 9000 "+b.Addr) {
			t.Fatalf("non-owner redirects: %s", v)
		}
		if v := ca.do("KECHO", ku, "u3"); !cluErrPrefix(v, "CLUSTERDOWN") {
			t.Fatalf("unowned slot: %s", v)
		}
		if v := ca.do("MGET", ka, kb); !cluErrPrefix(v, "CROSSSLOT") {
			t.Fatalf("cross slot: %s", v)
		}
		if v := ca.do("MGET", ka, ka2); v.T != '*' {
			t.Fatalf("same slot multi-key: %s", v)
		}
		if v := ca.do("PING"); v.S != "PONG" {
			t.Fatalf("keyless: %s", v)
		}
		// replica: MOVED unless READONLY and a read
		if v := car.do("KECHO", ka, "u4"); !cluErrPrefix(v, "MOVED 100 "+a.Addr) {
			t.Fatalf("replica without READONLY: %s", v)
		}
		car.do("READONLY")
		if v := car.do("KECHO", ka, "u5"); v.S != "u5@"+ar.Addr {
			t.Fatalf("replica READONLY read: %s", v)
		}
		if v := car.do("KSET", ka, "u6"); !cluErrPrefix(v, "MOVED 100 "+a.Addr) {
			t.Fatalf("replica READONLY write: %s", v)
		}
		if v := car.do("KECHO", kb, "u7"); !cluErrPrefix(v, "MOVED 9000 "+b.Addr) {
			t.Fatalf("replica foreign slot: %s", v)
		}
		car.do("READWRITE")
		if v := car.do("KECHO", ka, "u8"); !cluErrPrefix(v, "MOVED") {
			t.Fatalf("replica after READWRITE: %s", v)
		}
		// transaction on the wrong node: member rejected at queue time, EXEC aborts
		if v := ca.do("MULTI"); v.S != "OK" {
			t.Fatal(v)
		}
		if v := ca.do("KSET", kb, "u9"); !cluErrPrefix(v, "MOVED 9000") {
			t.Fatalf("queued member on wrong node: %s", v)
		}
		if v := ca.do("EXEC"); !cluErrPrefix(v, "EXECABORT") {
			t.Fatalf("EXEC after rejected member: %s", v)
		}
		ca.do("MULTI")
		if v := ca.do("KSET", ka, "u10"); v.S != "QUEUED" {
			t.Fatal(v)
		}
		if v := ca.do("EXEC"); v.T != '*' || len(v.A) != 1 || v.A[0].S != "u10@"+a.Addr {
			t.Fatalf("EXEC: %s", v)
		}
		// migration of slot 100 to the spare shard: ka moved, ka2 not
		if !cl.StartMigration(100, ss, []string{ka}, false) {
			t.Fatal("StartMigration")
		}
		if v := ca.do("KECHO", ka, "m1"); !cluErrPrefix(v, "ASK 100 "+sp.Addr) {
			t.Fatalf("migrating, key gone: %s", v)
		}
		if v := ca.do("KECHO", ka2, "m2"); v.S != "m2@"+a.Addr {
			t.Fatalf("migrating, key present: %s", v)
		}
		if v := ca.do("MGET", ka, ka2); !cluErrPrefix(v, "TRYAGAIN") {
			t.Fatalf("migrating, some keys gone: %s", v)
		}
		if v := csp.do("KECHO", ka, "m3"); !cluErrPrefix(v, "MOVED 100 "+a.Addr) {
			t.Fatalf("importing without ASKING: %s", v)
		}
		csp.do("ASKING")
		if v := csp.do("KECHO", ka, "m4"); v.S != "m4@"+sp.Addr {
			t.Fatalf("importing with ASKING: %s", v)
		}
		if v := csp.do("KECHO", ka, "m5"); !cluErrPrefix(v, "MOVED") {
			t.Fatalf("ASKING covers one command only: %s", v)
		}
		csp.do("ASKING")
		if v := csp.do("MGET", ka, ka2); !cluErrPrefix(v, "TRYAGAIN") {
			t.Fatalf("importing, multi-key with missing key: %s", v)
		}
		// ASKING covers a whole MULTI..EXEC block
		csp.do("ASKING")
		csp.do("MULTI")
		if v := csp.do("KSET", ka, "m6"); v.S != "QUEUED" {
			t.Fatalf("ASKING MULTI member 1: %s", v)
		}
		if v := csp.do("KECHO", ka, "m7"); v.S != "QUEUED" {
			t.Fatalf("ASKING MULTI member 2: %s", v)
		}
		if v := csp.do("EXEC"); v.T != '*' || len(v.A) != 2 {
			t.Fatalf("ASKING MULTI EXEC: %s", v)
		}
		if v := csp.do("KECHO", ka, "m8"); !cluErrPrefix(v, "MOVED") {
			t.Fatalf("ASKING is gone after EXEC: %s", v)
		}
		if !cl.FinishMigration(100) {
			t.Fatal("FinishMigration")
		}
		if v := ca.do("KECHO", ka2, "m9"); !cluErrPrefix(v, "MOVED 100 "+sp.Addr) {
			t.Fatalf("after migration, old owner: %s", v)
		}
		if v := csp.do("KECHO", ka2, "m10"); v.S != "m10@"+sp.Addr {
			t.Fatalf("after migration, new owner: %s", v)
		}
		// stale view: b believes a owns 9000 while the truth moved it to the spare: redirect loop a <-> ... no: sp -> ok, b -> MOVED a? b believes sa
		cl.MoveSlots(9000, 9000, ss)
		cl.SetView(b.Addr, 9000, 9000, sa)
		cl.SetView(a.Addr, 9000, 9000, sb)
		if v := cb.do("KECHO", kb, "v1"); !cluErrPrefix(v, "MOVED 9000 "+a.Addr) {
			t.Fatalf("stale view b: %s", v)
		}
		if v := ca.do("KECHO", kb, "v2"); !cluErrPrefix(v, "MOVED 9000 "+b.Addr) {
			t.Fatalf("stale view a: %s", v)
		}
		cl.ClearView(a.Addr)
		cl.ClearView(b.Addr)
		if v := ca.do("KECHO", kb, "v3"); !cluErrPrefix(v, "MOVED 9000 "+sp.Addr) {
			t.Fatalf("healed: %s", v)
		}
		// failover: the replica becomes the primary
		if !cl.Failover(ar.Addr) {
			t.Fatal("Failover")
		}
		if v := car.do("KSET", ka2+"x", "f1"); !cluErrPrefix(v, "MOVED") && v.S != "f1@"+ar.Addr {
			t.Fatalf("after failover: %s", v)
		}
		k5 := cluKeyIn(5, "f")
		if v := car.do("KSET", k5, "f2"); v.S != "f2@"+ar.Addr {
			t.Fatalf("promoted replica serves writes: %s", v)
		}
		if v := ca.do("KSET", k5, "f3"); !cluErrPrefix(v, "MOVED 5 "+ar.Addr) {
			t.Fatalf("demoted primary redirects: %s", v)
		}
		if a.Role != "slave" || ar.Role != "master" || a.MasterAddr != ar.Addr {
			t.Fatalf("roles after failover: %s %s %s", a.Role, ar.Role, a.MasterAddr)
		}
	})
}

func TestClusterTopologyReplies(t *testing.T) {
	synctest.Test(t, func(t *testing.T) {
		w := NewWorld()
		defer w.Stop()
		a, ar1, ar2, b := w.NewServer("127.0.0.1:7001"), w.NewServer("127.0.0.1:7011"), w.NewServer("127.0.0.1:7021"), w.NewServer("127.0.0.1:7002")
		cl := NewCluster(w)
		sa := cl.AddShard(a, ar1, ar2)
		sb := cl.AddShard(b)
		cl.AssignSlots(0, 99, sa)
		cl.AssignSlots(200, 299, sa)
		cl.AssignSlots(100, 199, sb)
		cl.SetHealth(ar2.Addr, "fail")
		cl.SetEndpoint(ar1.Addr, "?")
		cl.SetEndpoint(b.Addr, "null")
		cl.SetPrimaryPos(sa, 1)
		c := cluDial(t, w, a.Addr)
		c.do("HELLO", "3")
		v := c.do("CLUSTER", "SLOTS")
		if v.T != '*' || len(v.A) != 3 {
			t.Fatalf("CLUSTER SLOTS: %s", v)
		}
		r0, r1, r2 := v.A[0], v.A[1], v.A[2]
		if r0.A[0].I != 0 || r0.A[1].I != 99 || r1.A[0].I != 100 || r1.A[1].I != 199 || r2.A[0].I != 200 || r2.A[1].I != 299 {
			t.Fatalf("ranges: %s", v)
		}
		if len(r0.A) != 4 || r0.A[2].A[0].S != "127.0.0.1" || r0.A[2].A[1].I != 7001 || r0.A[3].A[0].S != "?" || r0.A[3].A[1].I != 7011 {
			t.Fatalf("shard a (failed replica omitted, ? endpoint listed): %s", r0)
		}
		if len(r0.A[2].A) != 4 || r0.A[2].A[3].T != '%' || len(r0.A[2].A[2].S) != 40 {
			t.Fatalf("node shape: %s", r0.A[2])
		}
		if len(r1.A) != 3 || !r1.A[2].A[0].IsNull() || r1.A[2].A[1].I != 7002 {
			t.Fatalf("shard b (null endpoint): %s", r1)
		}
		v = c.do("CLUSTER", "SHARDS")
		if v.T != '*' || len(v.A) != 2 || v.A[0].T != '%' {
			t.Fatalf("CLUSTER SHARDS: %s", v)
		}
		get := func(m resp.Value, k string) resp.Value {
			for i := 0; i+1 < len(m.A); i += 2 {
				if m.A[i].S == k {
					return m.A[i+1]
				}
			}
			t.Fatalf("no %q in %s", k, m)
			return resp.Value{}
		}
		s0 := v.A[0]
		if sl := get(s0, "slots"); len(sl.A) != 4 || sl.A[0].I != 0 || sl.A[1].I != 99 || sl.A[2].I != 200 || sl.A[3].I != 299 {
			t.Fatalf("shards slots: %s", sl)
		}
		ns := get(s0, "nodes")
		if len(ns.A) != 3 {
			t.Fatalf("every node is listed: %s", ns)
		}
		if get(ns.A[0], "role").S != "replica" || get(ns.A[1], "role").S != "master" || get(ns.A[1], "port").I != 7001 || get(ns.A[1], "endpoint").S != "127.0.0.1" {
			t.Fatalf("primary position: %s", ns)
		}
		if get(ns.A[0], "endpoint").S != "?" || get(ns.A[2], "health").S != "fail" || get(ns.A[0], "health").S != "online" {
			t.Fatalf("endpoint/health: %s", ns)
		}
		if get(get(v.A[1], "nodes").A[0], "endpoint").S != "" {
			t.Fatalf("null endpoint in shards is the empty string: %s", v.A[1])
		}
		// RESP2 connection: maps become flat arrays
		c2 := cluDial(t, w, b.Addr)
		v = c2.do("CLUSTER", "SHARDS")
		if v.T != '*' || v.A[0].T != '*' || v.A[0].A[0].S != "slots" {
			t.Fatalf("RESP2 shards: %s", v)
		}
		// old server: no CLUSTER SHARDS
		b.Version = "6.2.0"
		if v = c2.do("CLUSTER", "SHARDS"); !v.IsErr() {
			t.Fatalf("CLUSTER SHARDS on 6.2: %s", v)
		}
		if v = c2.do("CLUSTER", "KEYSLOT", "foo"); v.I != 12182 {
			t.Fatalf("KEYSLOT: %s", v)
		}
		// a stale node reports its own belief
		cl.SetView(b.Addr, 0, 99, sb)
		v = c2.do("CLUSTER", "SLOTS")
		if len(v.A) != 2 || v.A[0].A[0].I != 0 || v.A[0].A[1].I != 199 || v.A[0].A[2].A[1].I != 7002 {
			t.Fatalf("stale CLUSTER SLOTS: %s", v)
		}
		if len(cl.Answers) != 4 {
			t.Fatalf("answers logged: %d", len(cl.Answers))
		}
	})
}
