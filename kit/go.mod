module verifkit

go 1.25.0

require pgregory.net/rapid v1.3.0
