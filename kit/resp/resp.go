// Package resp is an independent RESP2/RESP3 value model, encoder and decoder written for the
// verification harness (it shares no code with rueidis' resp.go).
package resp

import (
	"bufio"
	"errors"
	"fmt"
	"io"
	"strconv"
)

// Value is a RESP value tree.
type Value struct {
	T    byte    `json:"t"`           // + - : $ * _ # , ( ! = % ~ >
	S    string  `json:"s,omitempty"` // payload of + - $ ! = ( ,
	I    int64   `json:"i,omitempty"` // payload of : and # (0/1)
	A    []Value `json:"a,omitempty"` // elements of * ~ > ; flattened key,value of %
	Attr []Value `json:"attr,omitempty"`
	// encoding choices that do not change the decoded value
	Null2  byte   `json:"null2,omitempty"`  // for T=='_': 0 -> "_\r\n", '$' -> "$-1\r\n", '*' -> "*-1\r\n"
	Chunks []int  `json:"chunks,omitempty"` // for $: encode as streamed string with these chunk sizes
	Stream bool   `json:"stream,omitempty"` // for * ~ % >: encode as streamed aggregate
	Raw    []byte `json:"-"`                // if set, these bytes are written verbatim instead of encoding the value
}

func Simple(s string) Value { return Value{T: '+', S: s} }
func Err(s string) Value    { return Value{T: '-', S: s} }
func Int(i int64) Value     { return Value{T: ':', I: i} }
func Bulk(s string) Value   { return Value{T: '$', S: s} }
func Null() Value           { return Value{T: '_'} }
func Bool(b bool) Value {
	v := Value{T: '#'}
	if b {
		v.I = 1
	}
	return v
}
func Double(s string) Value { return Value{T: ',', S: s} }
func Arr(a ...Value) Value {
	if a == nil {
		a = []Value{}
	}
	return Value{T: '*', A: a}
}
func Map(kv ...Value) Value {
	if kv == nil {
		kv = []Value{}
	}
	return Value{T: '%', A: kv}
}
func Set(a ...Value) Value {
	if a == nil {
		a = []Value{}
	}
	return Value{T: '~', A: a}
}
func Push(a ...Value) Value { return Value{T: '>', A: a} }
func OK() Value             { return Simple("OK") }
func Bulks(ss ...string) Value {
	a := make([]Value, len(ss))
	for i, s := range ss {
		a[i] = Bulk(s)
	}
	return Arr(a...)
}

func (v Value) IsErr() bool  { return v.T == '-' || v.T == '!' }
func (v Value) IsNull() bool { return v.T == '_' }

// Append encodes v (RESP3 framing, honouring the encoding choices in v).
func Append(dst []byte, v Value) []byte {
	if v.Raw != nil {
		return append(dst, v.Raw...)
	}
	if len(v.Attr) > 0 {
		dst = append(dst, '|')
		dst = strconv.AppendInt(dst, int64(len(v.Attr)/2), 10)
		dst = append(dst, '\r', '\n')
		for _, a := range v.Attr {
			dst = Append(dst, a)
		}
	}
	switch v.T {
	case '+', '-', '(', ',':
		dst = append(dst, v.T)
		dst = append(dst, v.S...)
		dst = append(dst, '\r', '\n')
	case ':':
		dst = append(dst, ':')
		dst = strconv.AppendInt(dst, v.I, 10)
		dst = append(dst, '\r', '\n')
	case '#':
		if v.I != 0 {
			dst = append(dst, "#t\r\n"...)
		} else {
			dst = append(dst, "#f\r\n"...)
		}
	case '_':
		switch v.Null2 {
		case '$':
			dst = append(dst, "$-1\r\n"...)
		case '*':
			dst = append(dst, "*-1\r\n"...)
		default:
			dst = append(dst, "_\r\n"...)
		}
	case '$', '!', '=':
		if v.T == '$' && v.Chunks != nil {
			dst = append(dst, "$?\r\n"...)
			rest := v.S
			for _, n := range v.Chunks {
				if n <= 0 || len(rest) == 0 {
					continue
				}
				if n > len(rest) {
					n = len(rest)
				}
				dst = append(dst, ';')
				dst = strconv.AppendInt(dst, int64(n), 10)
				dst = append(dst, '\r', '\n')
				dst = append(dst, rest[:n]...)
				dst = append(dst, '\r', '\n')
				rest = rest[n:]
			}
			if len(rest) > 0 {
				dst = append(dst, ';')
				dst = strconv.AppendInt(dst, int64(len(rest)), 10)
				dst = append(dst, '\r', '\n')
				dst = append(dst, rest...)
				dst = append(dst, '\r', '\n')
			}
			dst = append(dst, ";0\r\n"...)
			return dst
		}
		dst = append(dst, v.T)
		dst = strconv.AppendInt(dst, int64(len(v.S)), 10)
		dst = append(dst, '\r', '\n')
		dst = append(dst, v.S...)
		dst = append(dst, '\r', '\n')
	case '*', '~', '>', '%':
		dst = append(dst, v.T)
		if v.Stream && v.T != '>' {
			dst = append(dst, "?\r\n"...)
			for _, e := range v.A {
				dst = Append(dst, e)
			}
			dst = append(dst, ".\r\n"...)
			return dst
		}
		n := len(v.A)
		if v.T == '%' {
			n /= 2
		}
		dst = strconv.AppendInt(dst, int64(n), 10)
		dst = append(dst, '\r', '\n')
		for _, e := range v.A {
			dst = Append(dst, e)
		}
	default:
		panic(fmt.Sprintf("resp.Append: bad type %q", v.T))
	}
	return dst
}

// AppendV2 encodes v in RESP2 framing: maps and sets become flat arrays, booleans integers,
// doubles and big numbers bulk strings, null "$-1", pushes plain arrays, attributes dropped.
func AppendV2(dst []byte, v Value) []byte {
	if v.Raw != nil {
		return append(dst, v.Raw...)
	}
	switch v.T {
	case '_':
		if v.Null2 == '*' {
			return append(dst, "*-1\r\n"...)
		}
		return append(dst, "$-1\r\n"...)
	case '#':
		return Append(dst, Int(v.I))
	case ',', '(', '=':
		return Append(dst, Bulk(v.S))
	case '!':
		return Append(dst, Err(v.S))
	case '*', '~', '>', '%':
		dst = append(dst, '*')
		dst = strconv.AppendInt(dst, int64(len(v.A)), 10)
		dst = append(dst, '\r', '\n')
		for _, e := range v.A {
			dst = AppendV2(dst, e)
		}
		return dst
	case '$':
		return Append(dst, Bulk(v.S))
	}
	v.Attr = nil
	return Append(dst, v)
}

var ErrProto = errors.New("resp: protocol error")

func readLine(r *bufio.Reader) (string, error) {
	var line []byte
	for {
		part, err := r.ReadSlice('\n')
		line = append(line, part...)
		if err == bufio.ErrBufferFull {
			continue
		}
		if err != nil {
			return "", err
		}
		if len(line) >= 2 && line[len(line)-2] == '\r' {
			return string(line[:len(line)-2]), nil
		}
		// a lone \n inside a simple string: keep reading
	}
}

// Read decodes one value (used by the fake server for commands, and by tests of the kit).
func Read(r *bufio.Reader) (Value, error) {
	var attr []Value
	for {
		line, err := readLine(r)
		if err != nil {
			return Value{}, err
		}
		if len(line) == 0 {
			return Value{}, ErrProto
		}
		t, rest := line[0], line[1:]
		var v Value
		switch t {
		case '+', '-', '(', ',':
			v = Value{T: t, S: rest}
		case ':':
			i, err := strconv.ParseInt(rest, 10, 64)
			if err != nil {
				return Value{}, ErrProto
			}
			v = Value{T: ':', I: i}
		case '#':
			v = Value{T: '#'}
			if rest == "t" {
				v.I = 1
			}
		case '_':
			v = Value{T: '_'}
		case '$', '!', '=':
			if rest == "?" {
				var s []byte
				for {
					l, err := readLine(r)
					if err != nil {
						return Value{}, err
					}
					if len(l) < 2 || l[0] != ';' {
						return Value{}, ErrProto
					}
					n, err := strconv.Atoi(l[1:])
					if err != nil || n < 0 {
						return Value{}, ErrProto
					}
					if n == 0 {
						break
					}
					buf := make([]byte, n+2)
					if _, err := io.ReadFull(r, buf); err != nil {
						return Value{}, err
					}
					s = append(s, buf[:n]...)
				}
				v = Value{T: t, S: string(s)}
				break
			}
			n, err := strconv.Atoi(rest)
			if err != nil {
				return Value{}, ErrProto
			}
			if n == -1 {
				v = Value{T: '_', Null2: '$'}
				break
			}
			if n < 0 || n > 512<<20 {
				return Value{}, ErrProto
			}
			buf := make([]byte, n+2)
			if _, err := io.ReadFull(r, buf); err != nil {
				return Value{}, err
			}
			v = Value{T: t, S: string(buf[:n])}
		case '*', '~', '>', '%', '|':
			if rest == "?" {
				v = Value{T: t, A: []Value{}}
				for {
					b, err := r.Peek(1)
					if err != nil {
						return Value{}, err
					}
					if b[0] == '.' {
						if _, err := readLine(r); err != nil {
							return Value{}, err
						}
						break
					}
					e, err := Read(r)
					if err != nil {
						return Value{}, err
					}
					v.A = append(v.A, e)
				}
				break
			}
			n, err := strconv.Atoi(rest)
			if err != nil {
				return Value{}, ErrProto
			}
			if n == -1 && t == '*' {
				v = Value{T: '_', Null2: '*'}
				break
			}
			if n < 0 || n > 1<<24 {
				return Value{}, ErrProto
			}
			if t == '%' || t == '|' {
				n *= 2
			}
			v = Value{T: t, A: make([]Value, 0, n)}
			for i := 0; i < n; i++ {
				e, err := Read(r)
				if err != nil {
					return Value{}, err
				}
				v.A = append(v.A, e)
			}
			if t == '|' {
				attr = v.A
				continue
			}
		default:
			return Value{}, ErrProto
		}
		v.Attr = attr
		return v, nil
	}
}

// ReadCommand reads one client command (array of bulk strings).
func ReadCommand(r *bufio.Reader) ([]string, error) {
	v, err := Read(r)
	if err != nil {
		return nil, err
	}
	if v.T != '*' {
		return nil, ErrProto
	}
	out := make([]string, len(v.A))
	for i, e := range v.A {
		if e.T != '$' {
			return nil, ErrProto
		}
		out[i] = e.S
	}
	return out, nil
}

// Equal compares decoded meaning (type, payload, children, attributes), ignoring encoding choices.
func Equal(a, b Value) bool {
	if a.T != b.T || a.S != b.S || a.I != b.I || len(a.A) != len(b.A) || len(a.Attr) != len(b.Attr) {
		return false
	}
	for i := range a.A {
		if !Equal(a.A[i], b.A[i]) {
			return false
		}
	}
	for i := range a.Attr {
		if !Equal(a.Attr[i], b.Attr[i]) {
			return false
		}
	}
	return true
}

func (v Value) String() string {
	switch v.T {
	case '+', '-', '$', '!', '=', '(', ',':
		return fmt.Sprintf("%c%q", v.T, v.S)
	case ':':
		return fmt.Sprintf(":%d", v.I)
	case '#':
		return fmt.Sprintf("#%d", v.I)
	case '_':
		return "_"
	}
	s := string(v.T) + "["
	for i, e := range v.A {
		if i > 0 {
			s += " "
		}
		s += e.String()
	}
	return s + "]"
}
