package resp

import (
	"bufio"
	"io"
	"math"
	"strconv"
	"strings"
)

// ReadStrict decodes one reply and accepts only what the RESP2/RESP3 specifications call
// well-formed, in the canonical spelling servers use (the domain of property C12): every
// line ends with CRLF and contains no other CR or LF, lengths and integers are canonical
// decimal numbers, payloads are followed by CRLF, booleans are t/f, nulls are `_`, `$-1` or
// `*-1`, streamed strings are `$?` with `;n` chunks, streamed aggregates are `*? ~? %?` closed
// by `.`, an attribute precedes a value. Anything else is ErrProto (or an I/O error when the
// input ends early). It is deliberately narrower than Read, which the fake server uses.
func ReadStrict(r *bufio.Reader) (Value, error) { return readStrict(r, 0) }

func strictLine(r *bufio.Reader) (string, error) {
	line, err := r.ReadString('\n')
	if err != nil {
		if err == io.EOF {
			err = io.ErrUnexpectedEOF
		}
		return "", err
	}
	if len(line) < 2 || line[len(line)-2] != '\r' {
		return "", ErrProto
	}
	line = line[:len(line)-2]
	if strings.ContainsAny(line, "\r\n") {
		return "", ErrProto
	}
	return line, nil
}

func canonicalUint(s string) (int, bool) {
	if s == "" || len(s) > 10 || (len(s) > 1 && s[0] == '0') {
		return 0, false
	}
	for i := 0; i < len(s); i++ {
		if s[i] < '0' || s[i] > '9' {
			return 0, false
		}
	}
	n, err := strconv.Atoi(s)
	return n, err == nil
}

func canonicalInt(s string) bool {
	if strings.HasPrefix(s, "-") {
		s = s[1:]
		if s == "0" {
			return false
		}
	}
	if s == "" || (len(s) > 1 && s[0] == '0') {
		return false
	}
	for i := 0; i < len(s); i++ {
		if s[i] < '0' || s[i] > '9' {
			return false
		}
	}
	return true
}

func payload(r *bufio.Reader, n int) (string, error) {
	if n > 512<<20 {
		return "", ErrProto
	}
	// never allocate more than the input can hold
	buf := make([]byte, 0, min(n+2, 1<<16))
	for len(buf) < n+2 {
		chunk := min(n+2-len(buf), 1<<16)
		start := len(buf)
		buf = append(buf, make([]byte, chunk)...)
		if _, err := io.ReadFull(r, buf[start:]); err != nil {
			if err == io.EOF {
				err = io.ErrUnexpectedEOF
			}
			return "", err
		}
	}
	if buf[n] != '\r' || buf[n+1] != '\n' {
		return "", ErrProto
	}
	return string(buf[:n]), nil
}

func readStrict(r *bufio.Reader, depth int) (Value, error) {
	if depth > 2000 {
		return Value{}, ErrProto
	}
	var attr []Value
	for {
		line, err := strictLine(r)
		if err != nil {
			return Value{}, err
		}
		if len(line) == 0 {
			return Value{}, ErrProto
		}
		t, rest := line[0], line[1:]
		var v Value
		switch t {
		case '+', '-':
			v = Value{T: t, S: rest}
		case '(':
			if d := strings.TrimPrefix(rest, "-"); d == "" || strings.Trim(d, "0123456789") != "" {
				return Value{}, ErrProto
			}
			v = Value{T: t, S: rest}
		case ',':
			if rest != "inf" && rest != "-inf" && rest != "nan" {
				f, err := strconv.ParseFloat(rest, 64)
				if err != nil || math.IsInf(f, 0) || math.IsNaN(f) || strings.ContainsAny(rest, "xXpP_iInN") || strings.HasPrefix(rest, "+") {
					return Value{}, ErrProto
				}
			}
			v = Value{T: t, S: rest}
		case ':':
			if !canonicalInt(rest) {
				return Value{}, ErrProto
			}
			i, err := strconv.ParseInt(rest, 10, 64)
			if err != nil {
				return Value{}, ErrProto
			}
			v = Value{T: ':', I: i}
		case '#':
			if rest != "t" && rest != "f" {
				return Value{}, ErrProto
			}
			v = Value{T: '#'}
			if rest == "t" {
				v.I = 1
			}
		case '_':
			if rest != "" {
				return Value{}, ErrProto
			}
			v = Value{T: '_'}
		case '$', '!', '=':
			if rest == "?" && t == '$' {
				var s []byte
				for {
					l, err := strictLine(r)
					if err != nil {
						return Value{}, err
					}
					if len(l) < 2 || l[0] != ';' {
						return Value{}, ErrProto
					}
					n, ok := canonicalUint(l[1:])
					if !ok {
						return Value{}, ErrProto
					}
					if n == 0 {
						break
					}
					p, err := payload(r, n)
					if err != nil {
						return Value{}, err
					}
					s = append(s, p...)
				}
				v = Value{T: t, S: string(s)}
				break
			}
			if rest == "-1" && t == '$' {
				v = Value{T: '_', Null2: '$'}
				break
			}
			n, ok := canonicalUint(rest)
			if !ok {
				return Value{}, ErrProto
			}
			p, err := payload(r, n)
			if err != nil {
				return Value{}, err
			}
			if t == '=' && (len(p) < 4 || p[3] != ':') {
				return Value{}, ErrProto
			}
			v = Value{T: t, S: p}
		case '*', '~', '>', '%', '|':
			if rest == "?" && (t == '*' || t == '~' || t == '%') {
				v = Value{T: t, A: []Value{}}
				for {
					b, err := r.Peek(1)
					if err != nil {
						if err == io.EOF {
							err = io.ErrUnexpectedEOF
						}
						return Value{}, err
					}
					if b[0] == '.' {
						l, err := strictLine(r)
						if err != nil {
							return Value{}, err
						}
						if l != "." {
							return Value{}, ErrProto
						}
						break
					}
					e, err := readStrict(r, depth+1)
					if err != nil {
						return Value{}, err
					}
					v.A = append(v.A, e)
				}
				if t == '%' && len(v.A)%2 != 0 {
					return Value{}, ErrProto
				}
				break
			}
			if rest == "-1" && t == '*' {
				v = Value{T: '_', Null2: '*'}
				break
			}
			n, ok := canonicalUint(rest)
			if !ok || n > 1<<24 {
				return Value{}, ErrProto
			}
			if t == '%' || t == '|' {
				n *= 2
			}
			if (t == '|' || t == '>') && n == 0 {
				return Value{}, ErrProto
			}
			v = Value{T: t, A: make([]Value, 0, min(n, 1024))}
			for i := 0; i < n; i++ {
				e, err := readStrict(r, depth+1)
				if err != nil {
					return Value{}, err
				}
				v.A = append(v.A, e)
			}
			if t == '|' {
				if attr != nil {
					return Value{}, ErrProto
				}
				attr = v.A
				continue
			}
		default:
			return Value{}, ErrProto
		}
		v.Attr = attr
		return v, nil
	}
}
