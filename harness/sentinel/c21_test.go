package sentinel

import (
	"encoding/json"
	"fmt"
	"sort"
	"testing"

	"pgregory.net/rapid"
	"verifkit/stat"
)

// ---- C21, sentinel client: static truth (no failover), generated predicate / ReplicaOnly

func genC21SentinelPlan(rt *rapid.T) plan {
	p := plan{Client: "sentinel"}
	p.Mode = rapid.SampledFrom([]string{"sendtoreplicas", "sendtoreplicas", "sendtoreplicas", "sendtoreplicas", "replicaonly", "primary"}).Draw(rt, "mode")
	p.Pred = predSpec{Kind: "nil"}
	if p.Mode == "sendtoreplicas" {
		p.Pred = genPred(rt, false)
	}
	genClientCfg(rt, &p)
	genSentinelTopology(rt, &p, true)
	genHistory(rt, &p, false)
	genTraffic(rt, &p, opKinds)
	return p
}

func classesOf(cl map[string]bool) []string {
	var out []string
	for k, v := range cl {
		if v {
			out = append(out, k)
		}
	}
	sort.Strings(out)
	return out
}

// trafficClasses describes the batches of a plan with respect to the predicate.
func trafficClasses(p plan, received map[int]bool, cl map[string]bool) (mixedSeen bool) {
	for oi, op := range p.Ops {
		if !received[oi] {
			continue
		}
		batch := len(op.Cmds) > 1
		switch {
		case p.mixed(op):
			cl["batch-mixed-predicate"] = true
			mixedSeen = true
		case batch && p.qualifies(op):
			cl["batch-all-true"] = true
		case batch:
			cl["batch-all-false"] = true
		case p.qualifies(op):
			cl["single-true"] = true
		default:
			cl["single-false"] = true
		}
		cl["op-"+op.Kind] = true
	}
	return
}

func c21SentinelCheck(c *stat.Collector, rt stat.Fataler, p plan, rec *runRec) (nt bool, classes []string) {
	cl := map[string]bool{"mode-" + p.Mode: true, "pred-" + p.Pred.Kind: true, "resp2": p.RESP2}
	if rec.NewClientErr != "" {
		cl["newclient-failed"] = true
		return false, classesOf(cl)
	}
	o := observe(rec.Events)
	idx := opIndex(p)
	primary := nodeAddr(p.Master) // the truth never changes in these plans
	received := map[int]bool{}
	onReplica, onPrimary := false, false
	for _, u := range o.user {
		oi, ok := idx[u.UID]
		if !ok {
			continue
		}
		op := p.Ops[oi]
		received[oi] = true
		if u.Ev.Server == primary {
			onPrimary = true
			continue
		}
		onReplica = true
		if p.Mode != "replicaonly" && !p.qualifies(op) {
			why := "SendToReplicas is not set"
			if p.Pred.Kind != "nil" {
				why = fmt.Sprintf("SendToReplicas (%+v) is false for it", p.Pred)
				if len(op.Cmds) > 1 {
					why = fmt.Sprintf("SendToReplicas (%+v) is not true for every command of its batch %+v", p.Pred, op.Cmds)
				}
			}
			c.Fail(rt, "C21.sentinel-replica-only-if-allowed", fmt.Sprintf("%s (op %d %s) was received by replica %s (primary is %s) although %s and the client is not ReplicaOnly", u.Ev.Argv, oi, op.Kind, u.Ev.Server, primary, why), p)
		}
	}
	cl["traffic-on-replica"] = onReplica
	cl["traffic-on-primary"] = onPrimary
	mixed := trafficClasses(p, received, cl)
	return mixed || (p.Mode == "replicaonly" && onReplica), classesOf(cl)
}

func TestVerif_C21_SentinelReplicas(t *testing.T) {
	c := stat.For("C21", "sentinel-"+queueLabel()).Rule("sentinel client in a synctest bubble, 1-3 sentinels (some with a wrong initial view), 2-4 data nodes with fixed roles; client with a generated SendToReplicas predicate (always, never, read-only names, name set, key parity), ReplicaOnly, or neither; +sdown/-sdown/+slave/+reboot events (replica re-selection), connection kills, refused dials; traffic Do, DoMulti(2-4), DoCache, DoMultiCache, DoStream, DoMultiStream, blocking, Receive with unique keys. Oracle from the per-node log: a command received by a node other than the master requires ReplicaOnly or the predicate true for it (for every member of its batch). Non-trivial = a received batch with mixed predicate values, or ReplicaOnly traffic on a replica")
	defer c.Flush()
	defer singleP()()
	rapid.Check(t, func(rt *rapid.T) {
		p := genC21SentinelPlan(rt)
		saveCase("c21sen", p)
		rec := runSentinel(t, p)
		if rec.Res.Frozen {
			noteFrozen("c21sen", p, rec)
			c.Inconclusive("virtual-clock-freeze")
			return
		}
		if !rec.Res.OK() || rec.Pending > 0 || (rec.NewClientErr == "" && !rec.CloseOK) {
			c.Inconclusive("bubble-not-clean")
			return
		}
		nt, classes := c21SentinelCheck(c, rt, p, rec)
		key, _ := json.Marshal(p)
		c.Eval(nt, string(key), classes...)
		c.Sample(nt, func() any { return p })
	})
}

// ---- C21, standalone client with replicas

func genC21StandalonePlan(rt *rapid.T) plan {
	p := plan{Client: "standalone", Mode: "sendtoreplicas"}
	p.Pred = genPred(rt, false)
	genClientCfg(rt, &p)
	p.Nodes = rapid.IntRange(2, 4).Draw(rt, "nodes") // node 0 primary
	if rapid.IntRange(0, 2).Draw(rt, "useSelector") > 0 {
		codes := []int{-2, -1, 0, 1, 1, 2, 3, 7, 1000, 1001, 1005}
		p.Sel = &selSpec{Rets: rapid.SliceOfN(rapid.SampledFrom(codes), 1, 5).Draw(rt, "selRets")}
	}
	p.AZInfo = rapid.IntRange(0, 3).Draw(rt, "azInfo") > 0
	nE := rapid.IntRange(0, 3).Draw(rt, "events")
	t := 0
	for i := 0; i < nE; i++ {
		t += rapid.SampledFrom([]int{0, 1, 20, 500}).Draw(rt, "gap")
		p.Hist = append(p.Hist, evSpec{AtMs: t, Kind: "kill-node", Node: rapid.IntRange(0, p.Nodes-1).Draw(rt, "killNode")})
	}
	p.EndMs = t + 100
	g := &opGen{}
	n := rapid.IntRange(6, 24).Draw(rt, "ops")
	for i := 0; i < n; i++ {
		p.Ops = append(p.Ops, g.op(rt, rapid.IntRange(0, p.EndMs).Draw(rt, "at"), opKinds))
	}
	return p
}

func c21StandaloneCheck(c *stat.Collector, rt stat.Fataler, p plan, rec *runRec) (nt bool, classes []string) {
	cl := map[string]bool{"pred-" + p.Pred.Kind: true, "resp2": p.RESP2, "selector": p.Sel != nil, "az-info(candidate-list-filled)": p.AZInfo}
	if rec.NewClientErr != "" {
		cl["newclient-failed"] = true
		return false, classesOf(cl)
	}
	o := observe(rec.Events)
	idx := opIndex(p)
	primary := nodeAddr(0)
	selN := -1
	for _, sc := range rec.SelCalls {
		selN = sc.N
	}
	received := map[int]bool{}
	outOfRange := false
	for oi, r := range rec.Ops {
		if r.Panic != "" {
			c.Fail(rt, "C21.standalone-no-panic", fmt.Sprintf("op %d %+v panicked: %s", oi, p.Ops[oi], r.Panic), p)
		}
	}
	for _, u := range o.user {
		oi, ok := idx[u.UID]
		if !ok {
			continue
		}
		op, r := p.Ops[oi], rec.Ops[oi]
		received[oi] = true
		q := p.qualifies(op)
		// DoCache / DoMultiCache never consult the predicate in this client: they belong to "all other commands"
		if u.Ev.Server != primary {
			cl["traffic-on-replica"] = true
			if !q {
				why := fmt.Sprintf("SendToReplicas (%+v) is false for it", p.Pred)
				if len(op.Cmds) > 1 {
					why = fmt.Sprintf("SendToReplicas (%+v) is not true for every command of its batch %+v", p.Pred, op.Cmds)
				}
				c.Fail(rt, "C21.standalone-replica-only-if-predicate", fmt.Sprintf("%s (op %d %s) was received by replica %s although %s", u.Ev.Argv, oi, op.Kind, u.Ev.Server, why), p)
			}
		} else {
			cl["traffic-on-primary"] = true
		}
		if p.Sel != nil && q && r.Done && op.Kind != "cache" && op.Kind != "multicache" && selN >= 0 {
			ret := p.Sel.eval(r.Slot, selN)
			if ret < 0 || ret >= selN {
				outOfRange = true
				if ret < 0 {
					cl["selector-negative"] = true
				} else {
					cl["selector-too-large"] = true
				}
				if u.Ev.Server != primary {
					c.Fail(rt, "C21.standalone-selector-out-of-range-primary", fmt.Sprintf("%s (op %d %s, slot %d) was received by %s although ReadNodeSelector returned %d for a candidate list of %d nodes; the primary is %s", u.Ev.Argv, oi, op.Kind, r.Slot, u.Ev.Server, ret, selN, primary), p)
				}
			} else {
				cl["selector-in-range"] = true
			}
		}
	}
	mixed := trafficClasses(p, received, cl)
	return mixed || outOfRange, classesOf(cl)
}

func TestVerif_C21_StandaloneReplicas(t *testing.T) {
	c := stat.For("C21", "standalone-"+queueLabel()).Rule("standalone client with 1-3 replica addresses in a synctest bubble; generated SendToReplicas predicate (always, never, read-only names, name set, key parity), optional ReadNodeSelector returning per-slot generated indices (negative, 0, valid, beyond the list, len, len+1, len+5) with and without EnableReplicaAZInfo (without it the candidate list is empty), connection kills; traffic Do, DoMulti(2-4), DoCache, DoMultiCache, DoStream, DoMultiStream, blocking, Receive with unique keys. Oracle from the per-node log: a command received by a replica address requires the predicate true for it (for every member of its batch); when the selector's answer for the call is outside the candidate list the command must be on the primary; no call panics. Non-trivial = a received batch with mixed predicate values or an out-of-range selector answer")
	defer c.Flush()
	defer singleP()()
	rapid.Check(t, func(rt *rapid.T) {
		p := genC21StandalonePlan(rt)
		saveCase("c21sta", p)
		rec := runStandalone(t, p)
		if rec.Res.Frozen {
			noteFrozen("c21sta", p, rec)
			c.Inconclusive("virtual-clock-freeze")
			return
		}
		if !rec.Res.OK() || rec.Pending > 0 || (rec.NewClientErr == "" && !rec.CloseOK) {
			c.Inconclusive("bubble-not-clean")
			return
		}
		nt, classes := c21StandaloneCheck(c, rt, p, rec)
		key, _ := json.Marshal(p)
		c.Eval(nt, string(key), classes...)
		c.Sample(nt, func() any { return p })
	})
}
