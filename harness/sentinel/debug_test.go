package sentinel

import (
	"os"

	"verifkit/stat"
)

func debugCheck(p plan, rec *runRec) (msg string) {
	d := &debugFataler{}
	defer func() {
		if e := recover(); e != nil {
			if e == any(d) {
				msg = d.msg
				return
			}
			panic(e)
		}
	}()
	os.Setenv("VERIF_STATS_DIR", os.TempDir())
	c := stat.For("DBG", "debug")
	if !rec.Res.OK() {
		return "bubble: " + rec.Res.String()
	}
	switch os.Getenv("SEN_CHECK") {
	case "C21sen":
		c21SentinelCheck(c, d, p, rec)
	case "C21sta":
		c21StandaloneCheck(c, d, p, rec)
	default:
		c23Check(c, d, p, rec)
	}
	return ""
}
