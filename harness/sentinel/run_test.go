// Package sentinel holds the checks for the sentinel client (C23) and for replica routing of the
// standalone-with-replicas and sentinel clients (C21): generated scenarios run inside a
// testing/synctest bubble against the sentinel personality of the fake server, oracles read the
// per-node event log.
//
// Everything in a scenario is instantaneous in virtual time (no server latency) and every
// "staleness" is counted in answers, not in time. Reason: the sentinel client holds one sync.Mutex
// across a whole refresh (dial, SENTINEL queries, ROLE, closing old connections) and the event
// handlers wait for that mutex; a goroutine blocked on a sync.Mutex is not durably blocked for
// synctest, so virtual time could not advance while a refresh that needs virtual time holds the
// mutex and a push handler waits for it (the bubble would freeze). Likewise a refresh that cannot
// succeed is retried in a hot loop without any pause; the plan generator therefore keeps one
// "anchor" sentinel that becomes truthful after a bounded number of answers.
package sentinel

import (
	"context"
	"crypto/tls"
	"encoding/json"
	"errors"
	"fmt"
	"io"
	"net"
	"os"
	"path/filepath"
	"runtime"
	"strconv"
	"strings"
	"sync"
	"testing"
	"time"
	"unsafe"

	"github.com/redis/rueidis"
	"pgregory.net/rapid"
	"verif/harness/sim"
	"verifkit/bubble"
	"verifkit/fakeredis"
	"verifkit/resp"
)

const masterSet = "mymaster"

func sentinelAddr(i int) string { return fmt.Sprintf("10.0.0.%d:26379", i+1) }
func nodeAddr(i int) string     { return fmt.Sprintf("10.0.1.%d:6379", i+1) }

func nodeIndex(addr string) int {
	for i := 0; i < 16; i++ {
		if nodeAddr(i) == addr {
			return i
		}
	}
	return -1
}

func saveCase(name string, v any) {
	d := os.Getenv("VERIF_WORK")
	if d == "" {
		return
	}
	b, _ := json.Marshal(v)
	_ = os.WriteFile(filepath.Join(d, "last-case."+name+".json"), b, 0o644)
}

// noteFrozen keeps the plan and the goroutine dump of an abandoned bubble for later diagnosis.
func noteFrozen(name string, p plan, rec *runRec) {
	d := os.Getenv("VERIF_WORK")
	if d == "" {
		return
	}
	b, _ := json.Marshal(map[string]any{"plan": p, "goroutines": rec.Res.Goroutines})
	_ = os.WriteFile(filepath.Join(d, fmt.Sprintf("frozen.%s.%d.json", name, time.Now().UnixNano())), b, 0o644)
}

// singleP runs a test on one P. Go 1.25.0's runtime allocates synctest bubble specials
// (runtime.getOrSetBubbleSpecial, reached from sync.WaitGroup.Add inside a bubble) from a fixalloc
// without taking mheap_.speciallock; two goroutines doing that at the same time corrupt a span's
// specials list and the process hangs for ever inside the runtime (seen about once per 75 runs of
// 400 cases: these scenarios start many dials, each with a new WaitGroup in rueidis' mux, at the
// same virtual instant). With a single P the allocation cannot run concurrently. The returned
// function restores the previous setting.
func singleP() func() {
	prev := runtime.GOMAXPROCS(1)
	return func() { runtime.GOMAXPROCS(prev) }
}

func queueLabel() string {
	if q := os.Getenv("RUEIDIS_QUEUE_TYPE"); q != "" {
		return q
	}
	return "ring"
}

func isCtxErr(err error) bool {
	return errors.Is(err, context.Canceled) || errors.Is(err, context.DeadlineExceeded)
}

// ---- plan

// predSpec describes the generated SendToReplicas predicate; eval is the reference the oracle uses.
type predSpec struct {
	Kind   string   `json:"kind"` // nil always never readonly names parity
	Names  []string `json:"names,omitempty"`
	Parity int      `json:"parity,omitempty"`
}

var readOnlyNames = map[string]bool{"GET": true, "STRLEN": true, "EXISTS": true}

func uidNum(uid string) int {
	n := 0
	for _, c := range uid {
		if c >= '0' && c <= '9' {
			n = n*10 + int(c-'0')
		}
	}
	return n
}

func (p predSpec) eval(name, uid string) bool {
	switch p.Kind {
	case "always":
		return true
	case "readonly":
		return readOnlyNames[name]
	case "names":
		for _, n := range p.Names {
			if n == name {
				return true
			}
		}
		return false
	case "parity":
		return uidNum(uid)%2 == p.Parity
	}
	return false // nil, never
}

// fn is the predicate handed to the client: it looks only at the command's argv.
func (p predSpec) fn() func(rueidis.Completed) bool {
	if p.Kind == "nil" {
		return nil
	}
	return func(c rueidis.Completed) bool {
		argv := c.Commands()
		uid := ""
		if len(argv) > 1 {
			uid = strings.TrimLeft(argv[1], "kch")
		}
		return p.eval(strings.ToUpper(argv[0]), uid)
	}
}

// selSpec is the generated ReadNodeSelector: Rets[slot%len]; codes >= 1000 mean len(nodes)+(code-1000).
type selSpec struct {
	Rets []int `json:"rets"`
}

func (s selSpec) eval(slot uint16, n int) int {
	c := s.Rets[int(slot)%len(s.Rets)]
	if c >= 1000 {
		return n + c - 1000
	}
	return c
}

type cmdSpec struct {
	UID  string `json:"uid"`
	Name string `json:"name"`
}

type opSpec struct {
	AtMs       int       `json:"at_ms"`
	Kind       string    `json:"kind"` // do block multi cache multicache stream multistream receive
	Cmds       []cmdSpec `json:"cmds"`
	DeadlineMs int       `json:"deadline_ms"`
	Final      bool      `json:"final,omitempty"`
}

type evSpec struct {
	AtMs     int    `json:"at_ms"` // -1: before the client is created
	Kind     string `json:"kind"`  // failover trapflip trappush sdown -sdown slave reboot-slave reboot-master kill-sentinel kill-node view dialfail sentinel-event
	Sentinel int    `json:"sentinel"`
	Node     int    `json:"node"`
	Nth      int    `json:"nth,omitempty"`      // trapflip: fires on the n-th list-watch answer after arming
	Stale    []int  `json:"stale,omitempty"`    // failover: per sentinel, answers it still gives from its old view before it learns (0 at once, -1 never)
	Silent   []bool `json:"silent,omitempty"`   // failover: per sentinel, learns without publishing +switch-master
	RoleLag  int    `json:"role_lag,omitempty"` // failover: ROLE answers the promoted node still gives as "slave"
	Count    int    `json:"count,omitempty"`    // dialfail: refused dials
}

type plan struct {
	Client     string   `json:"client"` // sentinel standalone
	Mode       string   `json:"mode"`   // primary replicaonly sendtoreplicas (standalone: sendtoreplicas)
	Pred       predSpec `json:"pred"`
	Sel        *selSpec `json:"sel,omitempty"`
	AZInfo     bool     `json:"az_info,omitempty"`
	Multiplex  int      `json:"multiplex"`
	RESP2      bool     `json:"resp2,omitempty"`
	NoCache    bool     `json:"no_cache,omitempty"`
	Retry      bool     `json:"retry"`
	Pipelining bool     `json:"pipelining,omitempty"`
	Sentinels  int      `json:"sentinels"`
	Nodes      int      `json:"nodes"`
	Master     int      `json:"master"`
	Anchor     int      `json:"anchor"`
	InitViews  []int    `json:"init_views,omitempty"`
	InitAddr   []int    `json:"init_addr,omitempty"`
	Hist       []evSpec `json:"hist,omitempty"`
	EndMs      int      `json:"end_ms"`
	Ops        []opSpec `json:"ops"`
}

// qualifies: would SendToReplicas allow this op to go to a replica (every member for a batch).
func (p plan) qualifies(op opSpec) bool {
	if p.Pred.Kind == "nil" {
		return false
	}
	for _, c := range op.Cmds {
		if !p.Pred.eval(c.Name, c.UID) {
			return false
		}
	}
	return len(op.Cmds) > 0
}

func (p plan) mixed(op opSpec) bool {
	if len(op.Cmds) < 2 || p.Pred.Kind == "nil" {
		return false
	}
	t, f := false, false
	for _, c := range op.Cmds {
		if p.Pred.eval(c.Name, c.UID) {
			t = true
		} else {
			f = true
		}
	}
	return t && f
}

// ---- run record

type opResult struct {
	StartUs int64    `json:"start_us"`
	EndUs   int64    `json:"end_us"`
	Errs    []string `json:"errs,omitempty"`
	Panic   string   `json:"panic,omitempty"`
	Done    bool     `json:"done"`
	Slot    uint16   `json:"slot"` // key slot of the first command as the client computed it
}

type truthChange struct {
	AtUs   int64  `json:"at_us"`
	Master string `json:"master"`
	Trap   bool   `json:"trap,omitempty"`
	During bool   `json:"during_refresh,omitempty"` // sprung by the client's ROLE query: announced while that refresh was still running
}

type selCall struct {
	Slot uint16
	N    int
	Ret  int
}

type runRec struct {
	Res          bubble.Result
	NewClientErr string
	T0Us         int64
	Ops          []opResult
	Events       []fakeredis.Event
	Truth        []truthChange
	AppliedUs    []int64
	SelCalls     []selCall
	ConvergeUs   int64
	CloseOK      bool
	Pending      int
	DialStorms   int
	Final        string // fakeredis description of truth and views at the end
}

// ---- tagged dialer

// taggedDialer routes dials to the fake world and, before handing the connection to the client,
// sends one marker command (CLIENT SETNAME vk-<kind>) so that the server log tells which option
// set a connection was made with: "s" for sentinel addresses, "r" for the sentinel client's private
// replica option, "m" otherwise. rueidis passes &option.Dialer, so the owning option is found by
// pointer arithmetic: the replica option is the one with ReplicaOnly set. When the user option
// itself is ReplicaOnly both copies carry the flag; the client's first data connection is then
// always dialled with the replica option (initial refresh), so that pointer identifies it.
func taggedDialer(w *fakeredis.World, replicaOnlyClient bool) func(context.Context, string, *net.Dialer, *tls.Config) (net.Conn, error) {
	off := unsafe.Offsetof(rueidis.ClientOption{}.Dialer)
	var mu sync.Mutex
	var first *net.Dialer
	return func(ctx context.Context, addr string, d *net.Dialer, _ *tls.Config) (net.Conn, error) {
		if err := ctx.Err(); err != nil {
			return nil, err
		}
		kind := "m"
		if strings.HasSuffix(addr, ":26379") {
			kind = "s"
		} else if d != nil && replicaOnlyClient {
			mu.Lock()
			if first == nil {
				first = d
			}
			if first == d {
				kind = "r"
			}
			mu.Unlock()
		} else if d != nil {
			opt := (*rueidis.ClientOption)(unsafe.Add(unsafe.Pointer(d), -int(off)))
			if opt.ReplicaOnly {
				kind = "r"
			}
		}
		nc, err := w.Dial(addr)
		if err != nil {
			return nil, err
		}
		name := "vk-" + kind
		if _, err := nc.Write([]byte(fmt.Sprintf("*3\r\n$6\r\nCLIENT\r\n$7\r\nSETNAME\r\n$%d\r\n%s\r\n", len(name), name))); err != nil {
			nc.Close()
			return nil, err
		}
		var ok [5]byte
		if _, err := io.ReadFull(nc, ok[:]); err != nil {
			nc.Close()
			return nil, err
		}
		return nc, nil
	}
}

// ---- scenario state (everything but dialFail is guarded by the world lock)

type scen struct {
	p        plan
	w        *fakeredis.World
	g        *fakeredis.SentinelGroup
	rec      *runRec
	pending  []int
	silent   []bool
	lag      map[string]int
	lagFrom  map[string]string
	trap     *evSpec
	trapLeft int
	pushTrap *evSpec // armed: the next ROLE answer "master" of the true master on a master-option connection springs a failover announced at once
	dmu      sync.Mutex
	dialFail map[string]int
}

func (sc *scen) finalSub() string {
	if sc.p.Mode == "primary" {
		return "GET-MASTER-ADDR-BY-NAME"
	}
	return "REPLICAS"
}

func (sc *scen) truthLocked() string {
	if m := sc.g.TrueMastersLocked(); len(m) > 0 {
		return m[0]
	}
	return ""
}

// announceLocked: sentinel i learns the current truth (publishing +switch-master unless silent).
func (sc *scen) announceLocked(i int) {
	truth := sc.truthLocked()
	sa := sentinelAddr(i)
	sc.pending[i] = 0
	if v := sc.g.ViewLocked(sa); v == nil || v.Master == truth {
		return
	}
	if sc.silent[i] {
		sc.g.SetViewMasterLocked(sa, truth)
	} else {
		sc.g.AnnounceLocked(sa, truth)
	}
}

func (sc *scen) announceAsync(i int) {
	go func() {
		sc.w.Lock()
		sc.announceLocked(i)
		sc.w.Unlock()
	}()
}

func (sc *scen) failoverLocked(ev *evSpec, viaTrap bool) {
	sc.failoverLockedKind(ev, viaTrap, false)
}

func (sc *scen) failoverLockedKind(ev *evSpec, viaTrap, during bool) {
	newM := nodeAddr(ev.Node)
	old := sc.truthLocked()
	if newM == old {
		return
	}
	sc.g.PromoteLocked(newM)
	for k := range sc.lag {
		delete(sc.lag, k)
	}
	if ev.RoleLag > 0 {
		sc.lag[newM] = ev.RoleLag
		sc.lagFrom[newM] = old
	}
	sc.rec.Truth = append(sc.rec.Truth, truthChange{AtUs: sc.w.Since(), Master: newM, Trap: viaTrap, During: during})
	for i := 0; i < sc.p.Sentinels; i++ {
		st := 0
		if i < len(ev.Stale) {
			st = ev.Stale[i]
		}
		sc.silent[i] = i < len(ev.Silent) && ev.Silent[i]
		switch {
		case st == 0 && viaTrap:
			sc.pending[i] = 0
			sc.announceAsync(i) // after the answer that sprang the trap has been queued
		case st == 0:
			sc.announceLocked(i)
		default:
			sc.pending[i] = st
		}
	}
}

func (sc *scen) onQuery(s *fakeredis.Server, c *fakeredis.Conn, sub string, _ resp.Value) {
	if sub != sc.finalSub() {
		return
	}
	i := -1
	for k := 0; k < sc.p.Sentinels; k++ {
		if sentinelAddr(k) == s.Addr {
			i = k
		}
	}
	if i < 0 {
		return
	}
	if sc.trap != nil {
		sc.trapLeft--
		if sc.trapLeft <= 0 {
			ev := sc.trap
			sc.trap = nil
			sc.failoverLocked(ev, true)
		}
		return
	}
	if sc.pending[i] > 0 {
		sc.pending[i]--
		if sc.pending[i] == 0 {
			sc.announceAsync(i)
		}
	}
}

func (sc *scen) nodeCommand(n *fakeredis.Server) func(c *fakeredis.Conn, req int, argv []string) (resp.Value, bool) {
	return func(c *fakeredis.Conn, req int, argv []string) (resp.Value, bool) {
		if len(argv) == 1 && strings.EqualFold(argv[0], "ROLE") && sc.lag[n.Addr] > 0 {
			sc.lag[n.Addr]--
			h, p, _ := strings.Cut(sc.lagFrom[n.Addr], ":")
			pn := int64(0)
			fmt.Sscanf(p, "%d", &pn)
			return resp.Arr(resp.Bulk("slave"), resp.Bulk(h), resp.Int(pn), resp.Bulk("connected"), resp.Int(0)), true
		}
		return resp.Value{}, false
	}
}

// nodeAfterExec springs the armed push trap: the client's ROLE query (only sent by a refresh or a
// switch, i.e. while the client holds its mutex) has just been answered "master" by the true master;
// before that answer is queued the failover happens and every sentinel announces it, then this
// goroutine yields many times so that the +switch-master push travels to the client's event handler
// while the ROLE answer is still on its way: the event arrives DURING the refresh. No virtual time
// is involved (a handler waiting for the client's mutex would keep the virtual clock from advancing).
func (sc *scen) nodeAfterExec(n *fakeredis.Server) func(c *fakeredis.Conn, req int, argv []string, reply resp.Value) {
	return func(c *fakeredis.Conn, req int, argv []string, reply resp.Value) {
		if sc.pushTrap == nil || len(argv) != 1 || !strings.EqualFold(argv[0], "ROLE") || c.Name != "vk-m" {
			return
		}
		if n.Addr != sc.truthLocked() || len(reply.A) == 0 || reply.A[0].S != "master" {
			return
		}
		listening := false
		for i := 0; i < sc.p.Sentinels; i++ {
			if sc.g.SubscribersLocked(sentinelAddr(i), "+switch-master") > 0 {
				listening = true
			}
		}
		if !listening {
			return
		}
		ev := sc.pushTrap
		sc.pushTrap = nil
		sc.failoverLockedKind(ev, true, true)
		for i := 0; i < 200; i++ {
			runtime.Gosched()
		}
	}
}

func (sc *scen) dialHook(addr string, attempt int) error {
	sc.dmu.Lock()
	defer sc.dmu.Unlock()
	if sc.dialFail[addr] > 0 {
		sc.dialFail[addr]--
		return &net.OpError{Op: "dial", Net: "tcp", Err: fmt.Errorf("connection refused by plan: %s", addr)}
	}
	return nil
}

func (sc *scen) apply(ev *evSpec) {
	var kill []string
	sc.w.Lock()
	sa := sentinelAddr(ev.Sentinel)
	na := nodeAddr(ev.Node)
	switch ev.Kind {
	case "failover":
		sc.failoverLocked(ev, false)
	case "trappush":
		sc.pushTrap = ev
		for i := 0; i < sc.p.Sentinels; i++ {
			kill = append(kill, sentinelAddr(i)) // make the client refresh
		}
	case "trapflip":
		sc.trap, sc.trapLeft = ev, ev.Nth
		for i := 0; i < sc.p.Sentinels; i++ {
			kill = append(kill, sentinelAddr(i)) // make the client ask again
		}
	case "sdown":
		sc.g.SetSDownLocked(sa, na, true)
		sc.g.PublishEventLocked(sa, "+sdown", fakeredis.SentinelInstance("slave", na, na, masterSet, sc.g.ViewLocked(sa).Master))
	case "-sdown":
		sc.g.SetSDownLocked(sa, na, false)
		sc.g.PublishEventLocked(sa, "-sdown", fakeredis.SentinelInstance("slave", na, na, masterSet, sc.g.ViewLocked(sa).Master))
	case "slave":
		sc.g.PublishEventLocked(sa, "+slave", fakeredis.SentinelInstance("slave", na, na, masterSet, sc.g.ViewLocked(sa).Master))
	case "reboot-slave":
		sc.g.PublishEventLocked(sa, "+reboot", fakeredis.SentinelInstance("slave", na, na, masterSet, sc.g.ViewLocked(sa).Master))
	case "reboot-master":
		sc.g.PublishEventLocked(sa, "+reboot", fakeredis.SentinelInstance("master", masterSet, na, "", ""))
	case "sentinel-event":
		// a sentinel (re)discovered: real payload carries the "@ master" part
		other := sentinelAddr(ev.Node % sc.p.Sentinels)
		sc.g.PublishEventLocked(sa, "+sentinel", fakeredis.SentinelInstance("sentinel", "0123456789abcdef0123456789abcdef01234567", other, masterSet, sc.g.ViewLocked(sa).Master))
	case "kill-sentinel":
		kill = append(kill, sa)
	case "kill-node":
		kill = append(kill, na)
	case "view":
		sc.g.SetViewMasterLocked(sa, na)
		sc.pending[ev.Sentinel] = -1
	case "dialfail":
		addr := na
		if ev.Sentinel >= 0 {
			addr = sa
		}
		sc.dmu.Lock()
		sc.dialFail[addr] = ev.Count
		sc.dmu.Unlock()
	}
	sc.rec.AppliedUs = append(sc.rec.AppliedUs, sc.w.Since())
	sc.w.Unlock()
	for _, a := range kill {
		sc.g.KillConns(a)
	}
}

func (sc *scen) converge() {
	sc.w.Lock()
	sc.trap = nil
	sc.pushTrap = nil
	for k := range sc.lag {
		delete(sc.lag, k)
	}
	truth := sc.truthLocked()
	for i := 0; i < sc.p.Sentinels; i++ {
		sa := sentinelAddr(i)
		sc.pending[i] = 0
		sc.g.SetViewMasterLocked(sa, truth)
		for n := 0; n < sc.p.Nodes; n++ {
			sc.g.SetSDownLocked(sa, nodeAddr(n), false)
		}
	}
	sc.dmu.Lock()
	for k := range sc.dialFail {
		delete(sc.dialFail, k)
	}
	sc.dmu.Unlock()
	sc.rec.ConvergeUs = sc.w.Since()
	sc.w.Unlock()
}

// ---- op execution (shared by both client kinds)

func buildCmd(b rueidis.Builder, c cmdSpec, block bool) rueidis.Completed {
	k := "k" + c.UID
	if block {
		return b.Arbitrary(c.Name).Keys(k).Blocking()
	}
	switch c.Name {
	case "GET":
		return b.Get().Key(k).Build()
	case "STRLEN":
		return b.Strlen().Key(k).Build()
	case "EXISTS":
		return b.Exists().Key(k).Build()
	case "SET":
		return b.Set().Key(k).Value("v").Build()
	case "INCR":
		return b.Incr().Key(k).Build()
	case "DEL":
		return b.Del().Key(k).Build()
	}
	return b.Arbitrary(c.Name).Keys(k).Build()
}

func buildCache(b rueidis.Builder, c cmdSpec) rueidis.Cacheable {
	k := "k" + c.UID
	if c.Name == "STRLEN" {
		return b.Strlen().Key(k).Cache()
	}
	return b.Get().Key(k).Cache()
}

func execOp(client rueidis.Client, w *fakeredis.World, op opSpec, r *opResult, mu *sync.Mutex) {
	ctx, cancel := context.WithTimeout(context.Background(), time.Duration(op.DeadlineMs)*time.Millisecond)
	defer cancel()
	start := w.Since()
	var errs []string
	var slot uint16
	pan := ""
	func() {
		defer func() {
			if e := recover(); e != nil {
				pan = fmt.Sprint(e)
			}
		}()
		note := func(err error) {
			if err != nil && !rueidis.IsRedisNil(err) {
				errs = append(errs, err.Error())
			}
		}
		b := client.B()
		switch op.Kind {
		case "do", "block":
			c := buildCmd(b, op.Cmds[0], op.Kind == "block")
			slot = c.Slot()
			note(client.Do(ctx, c).Error())
		case "multi":
			cs := make(rueidis.Commands, len(op.Cmds))
			for i, c := range op.Cmds {
				cs[i] = buildCmd(b, c, false)
			}
			slot = cs[0].Slot()
			for _, rr := range client.DoMulti(ctx, cs...) {
				note(rr.Error())
			}
		case "cache":
			c := buildCache(b, op.Cmds[0])
			slot = c.Slot()
			note(client.DoCache(ctx, c, time.Minute).Error())
		case "multicache":
			cs := make([]rueidis.CacheableTTL, len(op.Cmds))
			for i, c := range op.Cmds {
				cs[i] = rueidis.CT(buildCache(b, c), time.Minute)
			}
			slot = cs[0].Cmd.Slot()
			for _, rr := range client.DoMultiCache(ctx, cs...) {
				note(rr.Error())
			}
		case "stream":
			c := buildCmd(b, op.Cmds[0], false)
			slot = c.Slot()
			s := client.DoStream(ctx, c)
			for s.HasNext() {
				if _, err := s.WriteTo(io.Discard); err != nil {
					note(err)
					break
				}
			}
			if err := s.Error(); err != nil && err != io.EOF {
				note(err)
			}
		case "multistream":
			cs := make(rueidis.Commands, len(op.Cmds))
			for i, c := range op.Cmds {
				cs[i] = buildCmd(b, c, false)
			}
			slot = cs[0].Slot()
			s := client.DoMultiStream(ctx, cs...)
			for s.HasNext() {
				if _, err := s.WriteTo(io.Discard); err != nil {
					note(err)
					break
				}
			}
			if err := s.Error(); err != nil && err != io.EOF {
				note(err)
			}
		case "receive":
			c := b.Subscribe().Channel("ch" + op.Cmds[0].UID).Build()
			slot = c.Slot()
			rctx, rcancel := context.WithTimeout(ctx, 20*time.Millisecond)
			err := client.Receive(rctx, c, func(rueidis.PubSubMessage) {})
			rcancel()
			if err != nil && !isCtxErr(err) {
				note(err)
			}
		}
	}()
	end := w.Since()
	mu.Lock()
	r.StartUs, r.EndUs, r.Errs, r.Panic, r.Slot, r.Done = start, end, errs, pan, slot, true
	mu.Unlock()
}

// opName of the command a cache op really sends
func sentName(op opSpec, c cmdSpec) string {
	if op.Kind == "cache" || op.Kind == "multicache" {
		if c.Name == "STRLEN" {
			return "STRLEN"
		}
		return "GET"
	}
	if op.Kind == "receive" {
		return "SUBSCRIBE"
	}
	return c.Name
}

func baseOption(p plan, w *fakeredis.World, addrs []string) rueidis.ClientOption {
	opt := sim.Option(w, addrs...)
	opt.DialCtxFn = taggedDialer(w, p.Client == "sentinel" && p.Mode == "replicaonly")
	opt.Sentinel.Dialer = opt.Dialer
	opt.PipelineMultiplex = p.Multiplex
	opt.AlwaysPipelining = p.Pipelining
	opt.DisableRetry = !p.Retry
	opt.DisableCache = p.NoCache
	opt.BlockingPoolSize = 2
	if p.RESP2 {
		opt.AlwaysRESP2 = true
		opt.DisableCache = true
	}
	if queueLabel() == "ring" {
		opt.WriteBufferEachConn = 1 << 16
	}
	return opt
}

// runOps starts one goroutine per op and waits for them (bounded).
func runOps(client rueidis.Client, w *fakeredis.World, p plan, rec *runRec, t0 time.Time, mu *sync.Mutex, extra func()) {
	var wg sync.WaitGroup
	for i := range p.Ops {
		wg.Add(1)
		go func(i int) {
			defer wg.Done()
			op := p.Ops[i]
			if d := time.Duration(op.AtMs)*time.Millisecond - time.Since(t0); d > 0 {
				time.Sleep(d)
			}
			execOp(client, w, op, &rec.Ops[i], mu)
		}(i)
	}
	if extra != nil {
		wg.Add(1)
		go func() { defer wg.Done(); extra() }()
	}
	budget := time.Duration(p.EndMs)*time.Millisecond + 2*time.Minute
	if !sim.WaitTimeout(&wg, budget) {
		mu.Lock()
		for i := range rec.Ops {
			if !rec.Ops[i].Done {
				rec.Pending++
			}
		}
		mu.Unlock()
	}
	rec.CloseOK = sim.CallTimeout(time.Minute, client.Close)
	rec.DialStorms = w.DialStorms
	w.Stop()
	rec.Events = w.Snapshot()
	time.Sleep(5 * time.Second)
	if rec.Pending > 0 {
		sim.WaitTimeout(&wg, time.Minute)
	}
}

// runSentinel executes a sentinel-client plan.
func runSentinel(t *testing.T, p plan) *runRec {
	rec := &runRec{Ops: make([]opResult, len(p.Ops))}
	var mu sync.Mutex
	rec.Res = bubble.Run(t, func() {
		w := fakeredis.NewWorld()
		var sAddrs, nAddrs []string
		for i := 0; i < p.Sentinels; i++ {
			sAddrs = append(sAddrs, sentinelAddr(i))
		}
		for i := 0; i < p.Nodes; i++ {
			nAddrs = append(nAddrs, nodeAddr(i))
		}
		g := fakeredis.NewSentinelGroup(w, masterSet, sAddrs, nAddrs, p.Master)
		sc := &scen{p: p, w: w, g: g, rec: rec, pending: make([]int, p.Sentinels), silent: make([]bool, p.Sentinels),
			lag: map[string]int{}, lagFrom: map[string]string{}, dialFail: map[string]int{}}
		for i, v := range p.InitViews {
			if v != p.Master {
				g.SetViewMaster(sentinelAddr(i), nodeAddr(v))
				sc.pending[i] = -1
			}
		}
		g.OnQuery = sc.onQuery
		for _, n := range g.Nodes {
			n.Hooks.Command = sc.nodeCommand(n)
			n.Hooks.AfterExec = sc.nodeAfterExec(n)
		}
		w.DialHook = sc.dialHook
		rec.Truth = append(rec.Truth, truthChange{AtUs: w.Since(), Master: nodeAddr(p.Master)})
		hist := p.Hist
		for len(hist) > 0 && hist[0].AtMs < 0 {
			sc.apply(&hist[0])
			hist = hist[1:]
		}
		var init []string
		for _, i := range p.InitAddr {
			init = append(init, sentinelAddr(i))
		}
		opt := baseOption(p, w, init)
		opt.Sentinel.MasterSet = masterSet
		switch p.Mode {
		case "replicaonly":
			opt.ReplicaOnly = true
		case "sendtoreplicas":
			opt.SendToReplicas = p.Pred.fn()
		}
		client, err := rueidis.NewClient(opt)
		if err != nil {
			rec.NewClientErr = err.Error()
			w.Stop()
			rec.Events = w.Snapshot()
			time.Sleep(5 * time.Second)
			return
		}
		t0 := time.Now()
		rec.T0Us = w.Since()
		director := func() {
			for i := range hist {
				if d := time.Duration(hist[i].AtMs)*time.Millisecond - time.Since(t0); d > 0 {
					time.Sleep(d)
				}
				sc.apply(&hist[i])
			}
			if d := time.Duration(p.EndMs)*time.Millisecond - time.Since(t0); d > 0 {
				time.Sleep(d)
			}
			sc.converge()
		}
		runOps(client, w, p, rec, t0, &mu, director)
		rec.Final = "" // filled lazily by callers that need it
	})
	return rec
}

// runStandalone executes a standalone-with-replicas plan: node 0 is the primary, the others replicas.
func runStandalone(t *testing.T, p plan) *runRec {
	rec := &runRec{Ops: make([]opResult, len(p.Ops))}
	var mu sync.Mutex
	rec.Res = bubble.Run(t, func() {
		w := fakeredis.NewWorld()
		var servers []*fakeredis.Server
		for i := 0; i < p.Nodes; i++ {
			s := w.NewServer(nodeAddr(i))
			s.AZ = fmt.Sprintf("az-%d", i%2)
			if i > 0 {
				s.Role, s.MasterAddr, s.ReadOnlyReplica = "slave", nodeAddr(0), true
			}
			servers = append(servers, s)
		}
		opt := baseOption(p, w, []string{nodeAddr(0)})
		for i := 1; i < p.Nodes; i++ {
			opt.Standalone.ReplicaAddress = append(opt.Standalone.ReplicaAddress, nodeAddr(i))
		}
		opt.SendToReplicas = p.Pred.fn()
		opt.EnableReplicaAZInfo = p.AZInfo
		if p.Sel != nil {
			sel := *p.Sel
			opt.ReadNodeSelector = func(slot uint16, nodes []rueidis.NodeInfo) int {
				ret := sel.eval(slot, len(nodes))
				mu.Lock()
				rec.SelCalls = append(rec.SelCalls, selCall{Slot: slot, N: len(nodes), Ret: ret})
				mu.Unlock()
				return ret
			}
		}
		client, err := rueidis.NewClient(opt)
		if err != nil {
			rec.NewClientErr = err.Error()
			w.Stop()
			rec.Events = w.Snapshot()
			time.Sleep(5 * time.Second)
			return
		}
		t0 := time.Now()
		rec.T0Us = w.Since()
		director := func() {
			for i := range p.Hist {
				ev := p.Hist[i]
				if d := time.Duration(ev.AtMs)*time.Millisecond - time.Since(t0); d > 0 {
					time.Sleep(d)
				}
				if ev.Kind == "kill-node" {
					for _, c := range servers[ev.Node].LiveConns() {
						c.Kill()
					}
				}
			}
		}
		runOps(client, w, p, rec, t0, &mu, director)
	})
	return rec
}

// ---- observations from the event log

type roleAns struct {
	AtUs int64
	Seq  int64
	Role string
}

type userRecv struct {
	Ev   fakeredis.Event
	UID  string
	Kind byte // option set of the connection: 'm' 'r' or 0
}

type masterReport struct {
	AtUs   int64
	Node   string
	Via    string
	Server string
	Conn   int
}

type switchPush struct {
	AtUs   int64
	Server string
	Conn   int
	New    string
}

type obs struct {
	connKind      map[string]map[int]byte
	closeAt       map[string]map[int]int64
	roles         map[string]map[byte][]roleAns
	reports       []masterReport
	pushes        []switchPush
	user          []userRecv
	wrongRoleSeen bool
}

func isSentinelAddr(a string) bool { return strings.HasSuffix(a, ":26379") }

func userUID(argv []string) (string, bool) {
	if len(argv) < 2 || sim.ClientInternal(argv) {
		return "", false
	}
	a := argv[1]
	switch {
	case strings.HasPrefix(a, "ch"):
		return a[2:], true
	case strings.HasPrefix(a, "k"):
		return a[1:], true
	}
	return "", false
}

func observe(events []fakeredis.Event) *obs {
	o := &obs{connKind: map[string]map[int]byte{}, closeAt: map[string]map[int]int64{}, roles: map[string]map[byte][]roleAns{}}
	for _, e := range events {
		if e.Conn < 0 {
			continue
		}
		switch e.Kind {
		case "recv":
			if len(e.Argv) == 3 && e.Argv[0] == "CLIENT" && e.Argv[1] == "SETNAME" && strings.HasPrefix(e.Argv[2], "vk-") && e.Req == 0 {
				if o.connKind[e.Server] == nil {
					o.connKind[e.Server] = map[int]byte{}
				}
				o.connKind[e.Server][e.Conn] = e.Argv[2][3]
			}
			if !isSentinelAddr(e.Server) {
				if uid, ok := userUID(e.Argv); ok {
					o.user = append(o.user, userRecv{Ev: e, UID: uid, Kind: o.connKind[e.Server][e.Conn]})
				}
			}
		case "close":
			if o.closeAt[e.Server] == nil {
				o.closeAt[e.Server] = map[int]int64{}
			}
			o.closeAt[e.Server][e.Conn] = e.At
		case "reply":
			if e.Reply == nil || len(e.Argv) == 0 {
				continue
			}
			if !isSentinelAddr(e.Server) && len(e.Argv) == 1 && strings.EqualFold(e.Argv[0], "ROLE") && len(e.Reply.A) > 0 {
				k := o.connKind[e.Server][e.Conn]
				if o.roles[e.Server] == nil {
					o.roles[e.Server] = map[byte][]roleAns{}
				}
				role := e.Reply.A[0].S
				o.roles[e.Server][k] = append(o.roles[e.Server][k], roleAns{AtUs: e.At, Seq: e.Seq, Role: role})
				if (k == 'm' && role != "master") || (k == 'r' && role != "slave") {
					o.wrongRoleSeen = true
				}
			}
			if isSentinelAddr(e.Server) && len(e.Argv) == 3 && strings.EqualFold(e.Argv[0], "SENTINEL") && strings.EqualFold(e.Argv[1], "GET-MASTER-ADDR-BY-NAME") && len(e.Reply.A) == 2 {
				o.reports = append(o.reports, masterReport{AtUs: e.At, Node: net.JoinHostPort(e.Reply.A[0].S, e.Reply.A[1].S), Via: "get-master-addr-by-name", Server: e.Server, Conn: e.Conn})
			}
		case "push":
			if e.Reply == nil || len(e.Reply.A) < 3 || e.Reply.A[0].S != "message" || !isSentinelAddr(e.Server) {
				continue
			}
			f := strings.Split(e.Reply.A[2].S, " ")
			switch e.Reply.A[1].S {
			case "+switch-master":
				if len(f) == 5 && f[0] == masterSet {
					n := net.JoinHostPort(f[3], f[4])
					o.reports = append(o.reports, masterReport{AtUs: e.At, Node: n, Via: "+switch-master", Server: e.Server, Conn: e.Conn})
					o.pushes = append(o.pushes, switchPush{AtUs: e.At, Server: e.Server, Conn: e.Conn, New: n})
				}
			case "+reboot":
				if len(f) >= 4 && f[0] == "master" && f[1] == masterSet {
					o.reports = append(o.reports, masterReport{AtUs: e.At, Node: net.JoinHostPort(f[2], f[3]), Via: "+reboot", Server: e.Server, Conn: e.Conn})
				}
			}
		}
	}
	return o
}

// opIndex maps a command uid to its op.
func opIndex(p plan) map[string]int {
	m := map[string]int{}
	for i, op := range p.Ops {
		for _, c := range op.Cmds {
			m[c.UID] = i
		}
	}
	return m
}

// ---- shared generator pieces

var cmdNames = []string{"GET", "GET", "STRLEN", "EXISTS", "SET", "INCR", "DEL"}

func genPred(rt *rapid.T, allowNil bool) predSpec {
	kinds := []string{"always", "never", "readonly", "readonly", "names", "parity", "parity"}
	if allowNil {
		kinds = append(kinds, "nil")
	}
	p := predSpec{Kind: rapid.SampledFrom(kinds).Draw(rt, "predKind")}
	switch p.Kind {
	case "names":
		p.Names = rapid.SliceOfNDistinct(rapid.SampledFrom([]string{"GET", "STRLEN", "EXISTS", "SET", "INCR", "DEL", "SUBSCRIBE"}), 1, 4, rapid.ID[string]).Draw(rt, "predNames")
	case "parity":
		p.Parity = rapid.IntRange(0, 1).Draw(rt, "predParity")
	}
	return p
}

type opGen struct {
	uid int
}

func (g *opGen) cmd(rt *rapid.T, names []string) cmdSpec {
	g.uid++
	return cmdSpec{UID: fmt.Sprint(g.uid), Name: rapid.SampledFrom(names).Draw(rt, "cmdName")}
}

func (g *opGen) op(rt *rapid.T, atMs int, kinds []string) opSpec {
	op := opSpec{AtMs: atMs, Kind: rapid.SampledFrom(kinds).Draw(rt, "opKind"), DeadlineMs: 2000}
	switch op.Kind {
	case "do", "stream":
		op.Cmds = []cmdSpec{g.cmd(rt, cmdNames)}
	case "block":
		op.Cmds = []cmdSpec{g.cmd(rt, []string{"GET", "STRLEN", "SET"})}
	case "multi", "multistream":
		n := rapid.IntRange(2, 4).Draw(rt, "batch")
		for i := 0; i < n; i++ {
			op.Cmds = append(op.Cmds, g.cmd(rt, cmdNames))
		}
	case "cache":
		op.Cmds = []cmdSpec{g.cmd(rt, []string{"GET", "STRLEN"})}
	case "multicache":
		n := rapid.IntRange(2, 3).Draw(rt, "batch")
		for i := 0; i < n; i++ {
			op.Cmds = append(op.Cmds, g.cmd(rt, []string{"GET", "STRLEN"}))
		}
	case "receive":
		g.uid++
		op.Cmds = []cmdSpec{{UID: fmt.Sprint(g.uid), Name: "SUBSCRIBE"}}
	}
	return op
}

var opKinds = []string{"do", "do", "do", "multi", "multi", "multi", "cache", "multicache", "stream", "multistream", "block", "receive"}

func genClientCfg(rt *rapid.T, p *plan) {
	p.Multiplex = rapid.SampledFrom([]int{-1, 0, 1, 2}).Draw(rt, "multiplex")
	p.RESP2 = rapid.IntRange(0, 5).Draw(rt, "resp2") == 0
	p.NoCache = rapid.IntRange(0, 4).Draw(rt, "noCache") == 0
	p.Retry = rapid.IntRange(0, 3).Draw(rt, "retry") != 0
	p.Pipelining = rapid.Bool().Draw(rt, "pipelining")
}

// TestDebug_Replay re-runs a saved plan (SEN_PLAN=file, SEN_CHECK=C23|C21sen|C21sta) several times and
// prints the event log of the first run that violates a clause (development aid; skipped otherwise).
func TestDebug_Replay(t *testing.T) {
	f := os.Getenv("SEN_PLAN")
	if f == "" {
		t.Skip("SEN_PLAN not set")
	}
	b, err := os.ReadFile(f)
	if err != nil {
		t.Fatal(err)
	}
	var p plan
	if err := json.Unmarshal(b, &p); err != nil {
		t.Fatal(err)
	}
	runs := 200
	if n, err := strconv.Atoi(os.Getenv("SEN_RUNS")); err == nil && n > 0 {
		runs = n
	}
	for i := 0; i < runs; i++ {
		var rec *runRec
		if p.Client == "standalone" {
			rec = runStandalone(t, p)
		} else {
			rec = runSentinel(t, p)
		}
		msg := debugCheck(p, rec)
		if msg != "" || os.Getenv("SEN_DUMP") != "" {
			for _, e := range rec.Events {
				if len(e.Argv) > 0 && e.Argv[0] == "CLIENT" && len(e.Argv) > 1 && e.Argv[1] != "SETNAME" {
					continue
				}
				t.Log(e.String())
			}
			t.Logf("truth: %+v newclient=%q res=%s pending=%d", rec.Truth, rec.NewClientErr, rec.Res, rec.Pending)
			for i, r := range rec.Ops {
				t.Logf("op %d %+v -> %+v", i, p.Ops[i], r)
			}
			t.Fatalf("run %d: %s", i, msg)
		}
	}
}

type debugFataler struct{ msg string }

func (d *debugFataler) Fatalf(format string, args ...any) {
	d.msg = fmt.Sprintf(format, args...)
	panic(d)
}
