package sentinel

import (
	"encoding/json"
	"fmt"
	"math"
	"sort"
	"testing"

	"pgregory.net/rapid"
	"verifkit/stat"
)

// ---- generator

var gapsMs = []int{0, 1, 20, 500, 3000, 12000, 12000}

func genHistory(rt *rapid.T, p *plan, dynamic bool) {
	nE := rapid.IntRange(0, 8).Draw(rt, "events")
	kinds := []string{"kill-sentinel", "kill-node", "dialfail", "sentinel-event", "sdown", "-sdown", "slave", "reboot-slave"}
	if p.Mode != "primary" {
		kinds = append(kinds, "sdown", "-sdown", "slave", "reboot-slave")
	}
	if dynamic {
		kinds = append(kinds, "failover", "failover", "failover", "failover", "failover", "trapflip", "trapflip", "trapflip", "reboot-master", "reboot-master")
		if p.Sentinels > 1 {
			kinds = append(kinds, "view")
		}
		if p.Mode != "replicaonly" {
			kinds = append(kinds, "trappush", "trappush", "trappush")
		}
	}
	truth := p.Master
	anchorDown := map[int]bool{}
	t := 0
	for i := 0; i < nE; i++ {
		t += rapid.SampledFrom(gapsMs).Draw(rt, "gap")
		ev := evSpec{AtMs: t, Kind: rapid.SampledFrom(kinds).Draw(rt, "evKind")}
		ev.Sentinel = rapid.IntRange(0, p.Sentinels-1).Draw(rt, "evSentinel")
		ev.Node = rapid.IntRange(0, p.Nodes-1).Draw(rt, "evNode")
		switch ev.Kind {
		case "trappush":
			// sprung by the client's own ROLE query during the refresh the event provokes: every sentinel
			// learns and announces at once, so the push reaches the client while that refresh is running
			ev.Node = (truth + rapid.IntRange(1, p.Nodes-1).Draw(rt, "newMaster")) % p.Nodes
			ev.Stale, ev.Silent = make([]int, p.Sentinels), make([]bool, p.Sentinels)
			truth = ev.Node
		case "failover", "trapflip":
			ev.Node = (truth + rapid.IntRange(1, p.Nodes-1).Draw(rt, "newMaster")) % p.Nodes
			for s := 0; s < p.Sentinels; s++ {
				choices := []int{0, 0, 1, 2, -1}
				if s == p.Anchor {
					choices = []int{0, 0, 0, 1, 2}
				}
				ev.Stale = append(ev.Stale, rapid.SampledFrom(choices).Draw(rt, "stale"))
				ev.Silent = append(ev.Silent, rapid.IntRange(0, 7).Draw(rt, "silent") == 0)
			}
			ev.RoleLag = rapid.SampledFrom([]int{0, 0, 0, 1, 2}).Draw(rt, "roleLag")
			if ev.Kind == "trapflip" {
				ev.Nth = rapid.SampledFrom([]int{1, 1, 2}).Draw(rt, "nth")
				if i == 0 && rapid.IntRange(0, 7).Draw(rt, "trapAtStart") == 0 {
					ev.AtMs = -1
				}
			}
			truth = ev.Node
		case "sdown":
			if ev.Sentinel == p.Anchor {
				n := 0
				for k := 0; k < p.Nodes; k++ {
					if !anchorDown[k] && k != ev.Node {
						n++
					}
				}
				if n < 2 {
					ev.Kind = "slave" // the anchor must keep an eligible replica whichever node is the master
				} else {
					anchorDown[ev.Node] = true
				}
			}
		case "view":
			if ev.Sentinel == p.Anchor {
				ev.Sentinel = (p.Anchor + 1) % p.Sentinels
			}
		case "dialfail":
			if rapid.Bool().Draw(rt, "dialfailNode") {
				ev.Sentinel = -1
				ev.Count = rapid.IntRange(1, 3).Draw(rt, "dialfails")
			} else {
				ev.Count = rapid.IntRange(1, 2).Draw(rt, "dialfails")
			}
		case "reboot-master":
			if rapid.Bool().Draw(rt, "rebootTrue") {
				ev.Node = truth
			}
		}
		p.Hist = append(p.Hist, ev)
	}
	p.EndMs = t + 1000
}

func genTraffic(rt *rapid.T, p *plan, kinds []string) {
	g := &opGen{}
	deltas := []int{0, 0, 0, 1, 5, 100, 2000, 6000}
	n := rapid.IntRange(6, 24).Draw(rt, "ops")
	for i := 0; i < n; i++ {
		at := 0
		if len(p.Hist) > 0 && rapid.IntRange(0, 9).Draw(rt, "nearEvent") < 6 {
			ev := p.Hist[rapid.IntRange(0, len(p.Hist)-1).Draw(rt, "nearIdx")]
			at = max(ev.AtMs, 0) + rapid.SampledFrom(deltas).Draw(rt, "delta")
		} else {
			at = rapid.IntRange(0, p.EndMs).Draw(rt, "at")
		}
		p.Ops = append(p.Ops, g.op(rt, at, kinds))
	}
	// final probes long after the views converged: single commands, primary traffic where the
	// predicate leaves any, read-only where possible (a read is retried over a dead idle connection)
	for _, d := range []int{0, 10, 500} {
		g.uid++
		uid := fmt.Sprint(g.uid)
		name := "GET"
		for _, cand := range []string{"GET", "STRLEN", "EXISTS", "SET", "INCR", "DEL"} {
			if !(p.Mode == "sendtoreplicas" && p.Pred.eval(cand, uid)) {
				name = cand
				break
			}
		}
		p.Ops = append(p.Ops, opSpec{AtMs: p.EndMs + 10000 + d, Kind: "do", Cmds: []cmdSpec{{UID: uid, Name: name}}, DeadlineMs: 5000, Final: true})
	}
}

func genSentinelTopology(rt *rapid.T, p *plan, staleInit bool) {
	p.Sentinels = rapid.IntRange(1, 3).Draw(rt, "sentinels")
	p.Nodes = rapid.IntRange(2, 4).Draw(rt, "nodes")
	p.Master = rapid.IntRange(0, p.Nodes-1).Draw(rt, "master")
	p.Anchor = rapid.IntRange(0, p.Sentinels-1).Draw(rt, "anchor")
	for s := 0; s < p.Sentinels; s++ {
		v := p.Master
		if s != p.Anchor && staleInit && rapid.IntRange(0, 2).Draw(rt, "staleInit") == 0 {
			v = (p.Master + rapid.IntRange(1, p.Nodes-1).Draw(rt, "staleInitNode")) % p.Nodes
		}
		p.InitViews = append(p.InitViews, v)
	}
	perm := rapid.Permutation(seq(p.Sentinels)).Draw(rt, "initOrder")
	p.InitAddr = perm[:rapid.IntRange(1, p.Sentinels).Draw(rt, "initKnown")]
}

func seq(n int) []int {
	out := make([]int, n)
	for i := range out {
		out[i] = i
	}
	return out
}

func genC23Plan(rt *rapid.T) plan {
	p := plan{Client: "sentinel"}
	p.Mode = rapid.SampledFrom([]string{"primary", "primary", "sendtoreplicas", "sendtoreplicas", "replicaonly"}).Draw(rt, "mode")
	p.Pred = predSpec{Kind: "nil"}
	if p.Mode == "sendtoreplicas" {
		p.Pred = genPred(rt, false)
	}
	genClientCfg(rt, &p)
	genSentinelTopology(rt, &p, true)
	genHistory(rt, &p, true)
	genTraffic(rt, &p, opKinds)
	return p
}

// ---- oracle

const c23QuietUs = 5_000_000 // quiescence demanded after a +switch-master push before traffic must be on the new master

func wantRole(kind byte) string {
	if kind == 'r' {
		return "slave"
	}
	return "master"
}

// expectedKind: 'm' primary traffic, 'r' replica traffic
func expectedKind(p plan, op opSpec) byte {
	switch p.Mode {
	case "replicaonly":
		return 'r'
	case "sendtoreplicas":
		if p.qualifies(op) {
			return 'r'
		}
	}
	return 'm'
}

func c23Check(c *stat.Collector, rt stat.Fataler, p plan, rec *runRec) (nt bool, classes []string) {
	cl := map[string]bool{"mode-" + p.Mode: true}
	defer func() {
		for k, v := range cl {
			if v {
				classes = append(classes, k)
			}
		}
		sort.Strings(classes)
	}()
	if rec.NewClientErr != "" {
		cl["newclient-failed"] = true
		return false, nil
	}
	o := observe(rec.Events)
	idx := opIndex(p)
	truthAt := func(at int64) string {
		m := ""
		for _, tc := range rec.Truth {
			if tc.AtUs <= at {
				m = tc.Master
			}
		}
		return m
	}
	nextChange := func(at int64) int64 {
		for _, tc := range rec.Truth {
			if tc.AtUs > at {
				return tc.AtUs
			}
		}
		return math.MaxInt64
	}
	failovers, traps, during := len(rec.Truth)-1, 0, 0
	for _, tc := range rec.Truth {
		if tc.During {
			during++
		} else if tc.Trap {
			traps++
		}
	}
	cl["failover-announced-during-refresh(sprung-by-ROLE-query)"] = during > 0
	for _, tc := range rec.Truth {
		for _, ps := range o.pushes {
			if tc.During && ps.AtUs == tc.AtUs && ps.New == tc.Master {
				cl["switch-master-delivered-during-refresh"] = true
			}
		}
	}
	for node, byKind := range o.roles {
		for k, as := range byKind {
			for i := 1; i < len(as); i++ {
				if as[i-1].Role == wantRole(k) && as[i].Role != wantRole(k) && (k == 'm' || k == 'r') {
					cl["recheck-of-adopted-node-answers-wrong-role"] = true
					_ = node
				}
			}
		}
	}
	cl["failovers>=1"] = failovers >= 1
	cl["failovers>=2"] = failovers >= 2
	cl["trap-fired(role-flip-right-after-sentinel-answer)"] = traps > 0
	cl["wrong-role-answer-seen"] = o.wrongRoleSeen
	cl["resp2"] = p.RESP2
	for _, r := range o.reports {
		if r.Via == "get-master-addr-by-name" && r.Node != truthAt(r.AtUs) {
			cl["stale-sentinel-answer"] = true
		}
	}
	for _, e := range rec.Events {
		if e.Kind == "close" && e.Note == "killed by scenario" {
			cl["connection-killed"] = true
		}
	}
	if rec.DialStorms > 0 {
		cl["dial-storm-brake"] = true
	}

	// clauses per received user command
	checked := 0
	for _, u := range o.user {
		oi, ok := idx[u.UID]
		if !ok {
			continue
		}
		op, r := p.Ops[oi], rec.Ops[oi]
		if !r.Done {
			continue
		}
		want := expectedKind(p, op)
		checked++
		answers := o.roles[u.Ev.Server][u.Kind]
		where := fmt.Sprintf("%s (op %d %s, %s traffic, call started at %dus) received by %s on a connection of option set %q at %dus",
			u.Ev.Argv, oi, op.Kind, map[byte]string{'m': "primary", 'r': "replica"}[want], r.StartUs, u.Ev.Server, string(u.Kind), u.Ev.At)
		verified := false
		rescued := false
		lastAt := int64(-1)
		for _, a := range answers {
			if a.AtUs <= u.Ev.At && a.Role == wantRole(want) {
				verified = true
			}
			if a.AtUs < r.StartUs && a.AtUs > lastAt {
				lastAt = a.AtUs
			}
			if a.AtUs >= r.StartUs && a.AtUs <= u.Ev.At && a.Role == wantRole(want) {
				rescued = true
			}
		}
		// answers of one virtual instant are ties: the instant counts as "wrong role" only if no answer of
		// that instant had the right role (in SendToReplicas mode a refresh abandons a still running
		// replica check when the master check fails; that check may finish, on its own connection, in
		// the same instant in which a later round verified and adopted the node)
		wrongAtLast, rightAtLast := "", false
		for _, a := range answers {
			if a.AtUs == lastAt {
				if a.Role == wantRole(want) {
					rightAtLast = true
				} else {
					wrongAtLast = a.Role
				}
			}
		}
		if !verified {
			c.Fail(rt, "C23.role-verified", fmt.Sprintf("%s although that node never answered ROLE as %s on such a connection before (answers: %v)", where, wantRole(want), answers), p)
		}
		if wrongAtLast != "" && !rightAtLast && !rescued {
			c.Fail(rt, "C23.no-traffic-after-wrong-role", fmt.Sprintf("%s although the node's latest ROLE answer before the call started was %q at %dus and it gave no %q answer in between", where, wrongAtLast, lastAt, wantRole(want)), p)
		}
		if want == 'm' {
			reported := false
			for _, rp := range o.reports {
				if rp.Node == u.Ev.Server && rp.AtUs <= u.Ev.At {
					reported = true
				}
			}
			if !reported {
				c.Fail(rt, "C23.reported-as-master", fmt.Sprintf("%s although no sentinel reply or event had named that node as master before", where), p)
			}
			// every report the client received is followed by a ROLE query of the named node (also when the client
			// is already on that node): after the latest report that named this node strictly before the command,
			// the node must have answered ROLE as master. A report on a connection that went down at that very
			// instant may not have reached the client; runs slowed by the dial-storm brake spread one refresh
			// over several instants and are not judged.
			var latest *masterReport
			for i := range o.reports {
				rp := &o.reports[i]
				if rp.Node != u.Ev.Server || rp.AtUs >= u.Ev.At {
					continue
				}
				if at, closed := o.closeAt[rp.Server][rp.Conn]; closed && at <= rp.AtUs {
					continue
				}
				if latest == nil || rp.AtUs >= latest.AtUs {
					latest = rp
				}
			}
			if latest != nil && rec.DialStorms == 0 {
				cl["role-after-latest-report-checked"] = true
				asked := false
				for _, a := range answers {
					if a.Role == "master" && a.AtUs >= latest.AtUs && a.AtUs <= u.Ev.At {
						asked = true
					}
				}
				if !asked {
					c.Fail(rt, "C23.role-verified-after-report", fmt.Sprintf("%s: the latest sentinel report naming that node as master reached the client at %dus (%s on %s) and the node has not answered ROLE as master to the client since (answers: %v)", where, latest.AtUs, latest.Via, latest.Server, answers), p)
				}
			}
		}
	}
	cl["user-commands-checked"] = checked > 0

	// +switch-master: after quiescence primary traffic is on the announced master until the truth changes again
	var lastOpen *switchPush
	for i := range o.pushes {
		ps := o.pushes[i]
		if at, closed := o.closeAt[ps.Server][ps.Conn]; closed && at <= ps.AtUs {
			continue
		}
		if truthAt(ps.AtUs) != ps.New {
			cl["push-names-outdated-master"] = true
			continue
		}
		cl["switch-master-delivered"] = true
		from, to := ps.AtUs+c23QuietUs, nextChange(ps.AtUs)
		if to == math.MaxInt64 {
			lastOpen = &o.pushes[i]
		}
		if from >= to {
			continue
		}
		for _, u := range o.user {
			oi, ok := idx[u.UID]
			if !ok || !rec.Ops[oi].Done || expectedKind(p, p.Ops[oi]) != 'm' {
				continue
			}
			r := rec.Ops[oi]
			if r.StartUs < from || r.StartUs >= to || u.Ev.At >= to {
				continue
			}
			cl["window-after-switch-master-checked"] = true
			if u.Ev.Server != ps.New {
				c.Fail(rt, "C23.follows-switch-master", fmt.Sprintf("%s (op %d, started at %dus) was received by %s although the client had received +switch-master to %s at %dus and nothing changed since", u.Ev.Argv, oi, r.StartUs, u.Ev.Server, ps.New, ps.AtUs), p)
			}
		}
	}
	cutData := false
	for _, ev := range p.Hist {
		if ev.Kind == "kill-node" || (ev.Kind == "dialfail" && ev.Sentinel < 0) {
			cutData = true
		}
	}
	if lastOpen != nil && rec.ConvergeUs > 0 {
		for oi, op := range p.Ops {
			r := rec.Ops[oi]
			if !op.Final || expectedKind(p, op) != 'm' || r.StartUs < lastOpen.AtUs+c23QuietUs {
				continue
			}
			// a connection killed while idle is noticed by its next user only: that call fails unless it is a
			// retried read, so arrival is demanded only for retried reads or when no data connection was cut
			if cutData && !(p.Retry && readOnlyNames[op.Cmds[0].Name]) {
				cl["final-probe-skipped(cut-connection,no-retry)"] = true
				continue
			}
			cl["final-probe-checked"] = true
			for _, cm := range op.Cmds {
				got := false
				for _, u := range o.user {
					if u.UID == cm.UID && u.Ev.Server == lastOpen.New && u.Ev.At >= r.StartUs {
						got = true
					}
				}
				if !got {
					c.Fail(rt, "C23.moves-to-new-master", fmt.Sprintf("final probe op %d command %s (started %dus, done=%v, errors %v) never reached %s, the master announced by the last +switch-master at %dus; all sentinels agree and every node is reachable since %dus",
						oi, cm.UID, r.StartUs, r.Done, r.Errs, lastOpen.New, lastOpen.AtUs, rec.ConvergeUs), p)
				}
			}
		}
	}
	return (o.wrongRoleSeen || failovers >= 2) && checked > 0, nil
}

func TestVerif_C23_FollowMaster(t *testing.T) {
	c := stat.For("C23", "follow-master-"+queueLabel()).Rule("sentinel client in a synctest bubble against the sentinel personality of the fake server: 1-3 sentinels (each with its own, possibly stale or wrong view; one anchor sentinel learns every failover after at most 2 answers), 2-4 data nodes with true roles; history of failovers (per sentinel: announced at once / after n more answers / never, with or without +switch-master; promoted node still answering ROLE slave for 0-2 queries), failovers sprung right after a sentinel answered (role flip between the answer and the client's ROLE check, also of the node the client is already on), failovers sprung by the client's own ROLE query and announced by every sentinel while that refresh is still running (+switch-master arrives during a refresh), view changes, +sdown/-sdown/+slave/+reboot/+sentinel events, sentinel and data connection kills, refused dials; client modes primary / SendToReplicas(generated predicate) / ReplicaOnly, multiplex, RESP2, retry; user traffic (Do, DoMulti, DoCache, DoMultiCache, DoStream, DoMultiStream, blocking, Receive; unique keys) placed on and around the events plus final probes after all views converged; every connection is tagged with the option set it was dialled with. Oracle from the per-node log: each user command reached a node that had answered ROLE with the role its traffic kind needs on a connection of that option set, whose latest such answer before the call started was not the wrong role, and (primary) that a sentinel reply or event had named as master and that has answered ROLE as master since the latest such report received strictly before the command (also when the client was already on that node); 5 s after a delivered +switch-master primary traffic is only on the announced master until the truth changes again, and final probes reach it. Non-trivial = the client saw a wrong-role ROLE answer or the plan had >=2 failovers, and user commands were checked")
	defer c.Flush()
	defer singleP()()
	rapid.Check(t, func(rt *rapid.T) {
		p := genC23Plan(rt)
		saveCase("c23", p)
		rec := runSentinel(t, p)
		if rec.Res.Frozen {
			noteFrozen("c23", p, rec)
			c.Inconclusive("virtual-clock-freeze")
			return
		}
		if !rec.Res.OK() || rec.Pending > 0 || (rec.NewClientErr == "" && !rec.CloseOK) {
			c.Inconclusive("bubble-not-clean")
			if os := rec.Res.String(); testing.Verbose() {
				t.Logf("bubble: %s pending=%d closeOK=%v", os, rec.Pending, rec.CloseOK)
			}
			return
		}
		nt, classes := c23Check(c, rt, p, rec)
		key, _ := json.Marshal(p)
		c.Eval(nt, string(key), classes...)
		c.Sample(nt, func() any { return p })
	})
}
