package cluster

import (
	"fmt"
	"testing"
	"time"

	"pgregory.net/rapid"
	"verifkit/stat"
)

func genC21Plan(rt *rapid.T) kPlan {
	var p kPlan
	p.Topo = genTopo(rt, kGenOpt{Bias: "c21"})
	p.Cfg = genCfg(rt)
	p.Cfg.MaxRedir = 0
	switch rapid.IntRange(0, 9).Draw(rt, "replicaMode") {
	case 0:
		p.Cfg.ReplicaOnly = true
	case 1:
		// neither: every command must go to a primary
	default:
		p.Cfg.Pred = rapid.SampledFrom([]string{"always", "never", "readonly", "readonly", "kecho", "slot-odd", "uid-odd", "uid-odd"}).Draw(rt, "pred")
		p.Cfg.Selector = rapid.SampledFrom([]string{"", "replica", "replica", "readnode", "readnode"}).Draw(rt, "selector")
		if p.Cfg.Selector != "" {
			p.Cfg.SelTable = rapid.SliceOfN(rapid.SampledFrom([]string{"valid", "valid", "zero", "neg", "big"}), 1, 5).Draw(rt, "selTable")
		}
	}
	g := &kGen{rt: rt}
	g.slots = genSlots(rt, p.Topo, rapid.IntRange(2, 6).Draw(rt, "nSlots"), false)
	nc := rapid.IntRange(1, 3).Draw(rt, "callers")
	for c := 0; c < nc; c++ {
		no := rapid.IntRange(1, 4).Draw(rt, "ops")
		var ops []kOp
		for i := 0; i < no; i++ {
			op := kOp{GapUs: genGap(rt), Kind: rapid.SampledFrom([]string{"do", "do", "multi", "multi", "multi", "cache", "multicache", "stream", "tx"}).Draw(rt, "kind")}
			switch op.Kind {
			case "do":
				op.Items = []kItem{{Cmds: []kCmd{g.cmd([]string{"kecho", "kecho", "kset", "get"}, g.slot())}}}
			case "stream":
				op.Items = []kItem{{Cmds: []kCmd{g.cmd([]string{"kecho", "kset"}, g.slot())}}}
			case "cache":
				op.Items = []kItem{{Cmds: []kCmd{g.cmd([]string{"get"}, g.slot())}}}
			case "multi":
				n := rapid.IntRange(2, 6).Draw(rt, "n")
				for k := 0; k < n; k++ {
					op.Items = append(op.Items, kItem{Cmds: []kCmd{g.cmd([]string{"kecho", "kecho", "kset", "get"}, g.slot())}})
				}
			case "multicache":
				n := rapid.IntRange(2, 5).Draw(rt, "n")
				for k := 0; k < n; k++ {
					op.Items = append(op.Items, kItem{Cmds: []kCmd{g.cmd([]string{"get"}, g.slot())}})
				}
			case "tx":
				// with MULTI/EXEC in the batch the cluster client sends everything to the primary
				op.Kind = "multi"
				slot := g.slot()
				g.blk++
				it := kItem{Tx: true, ID: fmt.Sprintf("b%d", g.blk)}
				for m := 0; m < rapid.IntRange(1, 3).Draw(rt, "members"); m++ {
					it.Cmds = append(it.Cmds, g.cmd([]string{"kecho", "kset", "get"}, slot))
				}
				op.Items = []kItem{{Cmds: []kCmd{g.cmd([]string{"kecho"}, slot)}}, it}
			}
			ops = append(ops, op)
		}
		p.Callers = append(p.Callers, ops)
	}
	p.Events, _, _ = genEvents(rt, p.Topo, g, []string{"move", "health", "health", "switch"}, 1, 8000)
	return p
}

func c21Check(c *stat.Collector, rt stat.Fataler, plan kPlan, run kRun) (nt bool, classes []string) {
	cls := map[string]bool{}
	if run.Pending > 0 || run.Res.Deadlock {
		c.Fail(rt, "C21.no-hang", fmt.Sprintf("%d calls never returned %v (%s)", run.Pending, run.PendingOps, run.Res), plan)
	}
	if run.Res.Panic != nil {
		c.Fail(rt, "C21.no-panic", run.Res.String(), plan)
	}
	obs := kObserve(plan, run)
	cfg := plan.Cfg
	switch {
	case cfg.ReplicaOnly:
		cls["replica-only-client"] = true
	case cfg.Pred == "":
		cls["no-replica-option"] = true
	default:
		cls["pred-"+cfg.Pred] = true
		cls["selector-"+map[string]string{"": "default", "replica": "ReplicaSelector", "readnode": "ReadNodeSelector"}[cfg.Selector]] = true
	}
	for _, sc := range run.SelCalls {
		if sc.Ret < 0 || sc.Ret >= len(sc.Addrs) {
			cls["selector-returned-out-of-range"] = true
		} else {
			cls["selector-returned-valid"] = true
		}
	}
	for ci := range plan.Callers {
		for oi := range plan.Callers[ci] {
			op := &plan.Callers[ci][oi]
			r := run.result(plan, ci, oi)
			if !r.Done {
				continue
			}
			where := fmt.Sprintf("caller %d op %d (%s)", ci, oi, op.Kind)
			pos := op.positions()
			hasInit := false
			for _, p := range pos {
				if p.Role != "cmd" {
					hasInit = true
				}
			}
			nTrue, nFalse := 0, 0
			for _, p := range pos {
				if p.Role != "cmd" {
					continue
				}
				cm := p.Cmd
				pred := cfg.Pred != "" && kPred(cfg.Pred, cm.argv())
				if pred {
					nTrue++
				} else {
					nFalse++
				}
				ss := obs.Sends[cm.UID]
				if len(ss) == 0 {
					continue
				}
				s0 := ss[0]
				prims, group, _ := obs.primaryCandidates(cm.Slot, r.StartUs, s0.R.At)
				what := fmt.Sprintf("%s command %s %v (slot %d)", where, cm.UID, cm.argv(), cm.Slot)
				onPrimary := prims[s0.R.Server]
				if !onPrimary {
					cls["sent-to-replica"] = true
				}
				hasReplica := len(group) > len(prims)
				// (1) a replica only when SendToReplicas says so or the client is ReplicaOnly; everything else to the primary
				if !pred && !cfg.ReplicaOnly && !onPrimary {
					c.Fail(rt, "C21.replica-only-when-allowed", fmt.Sprintf("%s: SendToReplicas (%q) is false for it and the client is not ReplicaOnly, yet it was first sent to %s; primaries of the slot in the topology answers the client held: %v", what, cfg.Pred, s0.R.Server, keysOf(prims)), plan)
				}
				// (2) a selector answer outside the candidate list means the primary
				if pred && cfg.Selector != "" && !hasInit {
					_, kind := kSel(cfg.SelTable, cm.Slot, 1)
					if hasReplica {
						cls["selector-"+kind+"-for-replica-eligible-command"] = true
					}
					if (kind == "neg" || kind == "big") && !onPrimary {
						c.Fail(rt, "C21.selector-out-of-range-falls-back", fmt.Sprintf("%s: the %s answers out of range (%s) for slot %d, yet the command was first sent to %s instead of the primary %v", what, cfg.Selector, kind, cm.Slot, s0.R.Server, keysOf(prims)), plan)
					}
					if (kind == "neg" || kind == "big") && hasReplica {
						cls["out-of-range-fallback-observed"] = true
					}
				}
				if pred && hasReplica {
					cls["replica-eligible-command"] = true
				}
			}
			if len(pos) > 1 && nTrue > 0 && nFalse > 0 && !hasInit {
				cls["batch-mixed-predicate"] = true
			}
			if hasInit {
				cls["batch-with-transaction"] = true
			}
			cls["call-"+op.Kind] = true
		}
	}
	for _, e := range plan.Events {
		cls["event-"+e.Kind] = true
	}
	for k := range cls {
		classes = append(classes, k)
	}
	nt = cls["batch-mixed-predicate"] || cls["out-of-range-fallback-observed"]
	return nt, classes
}

func TestVerif_C21_ClusterReplicas(t *testing.T) {
	c := stat.For("C21", "cluster-"+queueLabel()).Rule("cluster part: timed plans in a synctest bubble against the cluster personality of the fake server: 2-5 primaries x 0-2 replicas (replicas with ?/null endpoints or fail/loading health), CLUSTER SLOTS or SHARDS; client options: SendToReplicas from {always, never, read-only commands, by command name, by slot parity, by a hash of the command's tag} with the default selector, ReplicaSelector or ReadNodeSelector answering per slot a valid index, 0, a negative or a too large index; or ReplicaOnly; or none; 1-3 callers x 1-4 calls of Do, DoMulti (2-6 commands, also with a MULTI..EXEC block), DoCache, DoMultiCache, DoStream with uniquely tagged keyed reads and writes; at most one event (slot move, replica health change, role switch); oracle from the servers' logs: the first send of a command for which SendToReplicas is false (client not ReplicaOnly) goes to the primary of its slot in a topology answer the client held; with a selector whose answer for the slot is out of range the first send of a replica-eligible command goes to the primary; non-trivial = a batch with both predicate values, or an out-of-range selector answer for a replica-eligible command whose shard has replicas")
	defer c.Flush()
	rapid.Check(t, func(rt *rapid.T) {
		plan := genC21Plan(rt)
		saveCase("c21", plan)
		t0 := time.Now()
		run := kRunPlan(t, plan)
		kSlow("c21", plan, t0)
		if run.Res.Frozen {
			c.Inconclusive("virtual-clock-freeze")
			return
		}
		if run.NewErr != "" {
			c.Inconclusive("new-client-failed: " + run.NewErr)
			return
		}
		nt, classes := c21Check(c, rt, plan, run)
		c.Eval(nt, planKey(plan), classes...)
		c.Sample(nt, func() any { return plan })
	})
}
