package cluster

// C31 for the cluster client: the multi-key helpers (MGet, MGetCache, JsonMGet, JsonMGetCache, MSet, MSetNX, MDel,
// JsonMSet) against a static fake cluster that stores real values and refuses cross-slot commands.

import (
	"context"
	"encoding/json"
	"fmt"
	"sort"
	"strconv"
	"strings"
	"testing"
	"time"

	"github.com/redis/rueidis"
	"pgregory.net/rapid"
	"verif/harness/sim"
	"verifkit/bubble"
	"verifkit/fakeredis"
	"verifkit/resp"
	"verifkit/stat"
)

// ---------------------------------------------------------------- plan

type hKey struct {
	Key   string `json:"key"`
	Slot  int    `json:"slot"`
	State string `json:"state"` // missing | string | json | hash
}

type hCall struct {
	GapUs  int      `json:"gap_us"`
	Helper string   `json:"helper"` // mget mgetcache jsonmget jsonmgetcache mset msetnx mdel jsonmset
	Keys   []string `json:"keys"`   // in call order, duplicates possible (map-taking helpers: the distinct keys)
	Path   string   `json:"path,omitempty"`
	Order  string   `json:"order,omitempty"` // how the slot sequence was drawn
}

type hPlan struct {
	Version   string  `json:"version"`
	Primaries int     `json:"primaries"`
	Mode      string  `json:"mode"` // cache | nocache | resp2
	BaseLatUs int     `json:"base_lat_us"`
	Keys      []hKey  `json:"alphabet"`
	Calls     []hCall `json:"calls"`
}

func (p hPlan) ownerAddr(slot int) string {
	per := (16384 + p.Primaries - 1) / p.Primaries
	return addrOf(slot/per, 0)
}

func hStr(key string, ver int) string { return "v(" + key + ")#" + strconv.Itoa(ver) }
func hJSON(key string, ver int) string {
	b, _ := json.Marshal(map[string]any{"a": key + "#" + strconv.Itoa(ver), "n": ver})
	return string(b)
}

func isReadHelper(h string) bool {
	return h == "mget" || h == "mgetcache" || h == "jsonmget" || h == "jsonmgetcache"
}

// hSlotOrder draws the sequence of slots (indexes into the plan's slots) of a key list.
func hSlotOrder(rt *rapid.T, nSlots, n int) (seq []int, kind string) {
	kind = rapid.SampledFrom([]string{"abaa", "abaa", "aabb", "abab", "single", "random", "random"}).Draw(rt, "order")
	perm := rapid.Permutation([]int{0, 1, 2, 3}[:nSlots]).Draw(rt, "slotPerm")
	a, b := perm[0], perm[1%nSlots]
	switch kind {
	case "abaa":
		// a slot is revisited after another slot's group was opened, and the next key stays in it
		seq = []int{a, b, a, a}
		for len(seq) < n {
			seq = append(seq, perm[rapid.IntRange(0, nSlots-1).Draw(rt, "tail")])
		}
		lead := rapid.IntRange(0, 2).Draw(rt, "lead")
		for i := 0; i < lead; i++ {
			seq = append([]int{perm[rapid.IntRange(0, nSlots-1).Draw(rt, "head")]}, seq...)
		}
	case "aabb":
		for i := 0; len(seq) < n; i++ {
			run := rapid.IntRange(1, 4).Draw(rt, "run")
			for k := 0; k < run && len(seq) < n; k++ {
				seq = append(seq, perm[i%nSlots])
			}
		}
	case "abab":
		for i := 0; len(seq) < n; i++ {
			seq = append(seq, perm[i%nSlots])
		}
	case "single":
		for len(seq) < n {
			seq = append(seq, a)
		}
	default:
		for len(seq) < n {
			seq = append(seq, perm[rapid.IntRange(0, nSlots-1).Draw(rt, "any")])
		}
	}
	if len(seq) > 12 {
		seq = seq[:12]
	}
	return seq, kind
}

func genC31Plan(rt *rapid.T) hPlan {
	var p hPlan
	p.Version = rapid.SampledFrom([]string{"7.2.4", "8.0.1"}).Draw(rt, "version")
	p.Primaries = rapid.IntRange(2, 4).Draw(rt, "primaries")
	p.Mode = rapid.SampledFrom([]string{"cache", "cache", "nocache", "resp2"}).Draw(rt, "mode")
	p.BaseLatUs = rapid.SampledFrom([]int{0, 20, 200}).Draw(rt, "baseLat")
	nSlots := rapid.IntRange(2, 4).Draw(rt, "slots")
	seen := map[int]bool{}
	var slots []int
	for len(slots) < nSlots {
		s := rapid.IntRange(0, 16383).Draw(rt, "slot")
		if rapid.IntRange(0, 3).Draw(rt, "sameNode") == 0 && len(slots) > 0 {
			// another slot of a node that already has one: different MGETs for one connection
			per := (16384 + p.Primaries - 1) / p.Primaries
			base := slots[0] / per * per
			s = base + rapid.IntRange(0, min(per, 16384-base)-1).Draw(rt, "slotNear")
		}
		if !seen[s] {
			seen[s] = true
			slots = append(slots, s)
		}
	}
	bySlot := make([][]int, nSlots) // indexes into p.Keys
	for si, s := range slots {
		n := rapid.IntRange(2, 4).Draw(rt, "keysOfSlot")
		for k := 0; k < n; k++ {
			key := "{" + keyFor(s, 0) + "}:" + string(rune('a'+si)) + strconv.Itoa(k)
			if k == 1 && rapid.Bool().Draw(rt, "plainKey") {
				key = keyFor(s, 1) // a key without a hash tag in the same slot
			}
			st := rapid.SampledFrom([]string{"missing", "string", "string", "json", "json", "hash"}).Draw(rt, "state")
			bySlot[si] = append(bySlot[si], len(p.Keys))
			p.Keys = append(p.Keys, hKey{Key: key, Slot: s, State: st})
		}
	}
	nCalls := rapid.IntRange(1, 4).Draw(rt, "calls")
	for ci := 0; ci < nCalls; ci++ {
		call := hCall{
			GapUs:  rapid.SampledFrom([]int{0, 0, 50, 700}).Draw(rt, "gap"),
			Helper: rapid.SampledFrom([]string{"mget", "mget", "mget", "mgetcache", "mgetcache", "jsonmget", "jsonmget", "jsonmget", "jsonmgetcache", "mset", "msetnx", "mdel", "jsonmset"}).Draw(rt, "helper"),
		}
		n := rapid.IntRange(1, 12).Draw(rt, "n")
		if rapid.IntRange(0, 19).Draw(rt, "empty") == 0 {
			n = 0
		}
		if n > 0 {
			seq, kind := hSlotOrder(rt, nSlots, n)
			call.Order = kind
			next := make([]int, nSlots)
			for _, si := range seq {
				ks := bySlot[si]
				var k int
				switch rapid.IntRange(0, 3).Draw(rt, "pick") {
				case 0:
					k = ks[rapid.IntRange(0, len(ks)-1).Draw(rt, "anyKey")] // possibly a duplicate
				default:
					k = ks[next[si]%len(ks)]
					next[si]++
				}
				call.Keys = append(call.Keys, p.Keys[k].Key)
			}
		}
		switch call.Helper {
		case "jsonmget", "jsonmgetcache":
			call.Path = rapid.SampledFrom([]string{"$", "$", "$.a", ".a", "$.zz"}).Draw(rt, "path")
		case "jsonmset":
			call.Path = "$"
		}
		if !isReadHelper(call.Helper) && call.Helper != "mdel" {
			// these take a map: the distinct keys
			var ks []string
			dup := map[string]bool{}
			for _, k := range call.Keys {
				if !dup[k] {
					dup[k] = true
					ks = append(ks, k)
				}
			}
			call.Keys = ks
		}
		p.Calls = append(p.Calls, call)
	}
	return p
}

// ---------------------------------------------------------------- run

type hCallObs struct {
	Done      bool
	Read      map[string]rueidis.RedisMessage
	ReadErr   string
	HasErr    bool
	Write     map[string]error
	Values    map[string]string            // what the call wrote (write helpers)
	Ref       map[string]resp.Value        // the key's own reply to the single-key form of the command, right after the call
	Before    map[string]map[string]string // key -> node -> state, right before the call
	After     map[string]map[string]string
	EvFrom    int // events of the call: [EvFrom, EvTo)
	EvTo      int
	StartedUs int64
}

type hRun struct {
	Res    bubble.Result
	NewErr string
	Calls  []*hCallObs
	Events []fakeredis.Event
	Hung   bool
}

func hRunPlan(t *testing.T, plan hPlan) (run hRun) {
	for range plan.Calls {
		run.Calls = append(run.Calls, &hCallObs{})
	}
	ring := queueLabel() == "ring"
	slotOf := map[string]int{}
	for _, k := range plan.Keys {
		slotOf[k.Key] = k.Slot
	}
	run.Res = bubble.Run(t, func() {
		w := fakeredis.NewWorld()
		cl := fakeredis.NewCluster(w)
		per := (16384 + plan.Primaries - 1) / plan.Primaries
		var servers []*fakeredis.Server
		for i := 0; i < plan.Primaries; i++ {
			s := w.NewServer(addrOf(i, 0))
			s.Version = plan.Version
			s.Hooks.Latency = func(c *fakeredis.Conn, req int, argv []string) time.Duration {
				if kLatencyZero(argv) || strings.EqualFold(argv[0], "CLUSTER") || c.BurstIdx != 0 {
					return 0
				}
				return time.Duration(plan.BaseLatUs) * time.Microsecond
			}
			idx := cl.AddShard(s)
			cl.AssignSlots(i*per, min(16383, (i+1)*per-1), idx)
			servers = append(servers, s)
		}
		owner := func(key string) *fakeredis.Server { return w.Server(plan.ownerAddr(slotOf[key])) }
		for _, k := range plan.Keys {
			switch k.State {
			case "string":
				owner(k.Key).Do("SET", k.Key, hStr(k.Key, 0))
			case "json":
				owner(k.Key).Do("JSON.SET", k.Key, "$", hJSON(k.Key, 0))
			case "hash":
				owner(k.Key).Do("HSET", k.Key, "f", "x")
			}
		}
		snapshot := func() map[string]map[string]string {
			out := map[string]map[string]string{}
			for _, k := range plan.Keys {
				m := map[string]string{}
				for _, s := range servers {
					st := "missing"
					switch ty := s.Do("TYPE", k.Key); ty.S {
					case "none":
					case "string":
						st = "s:" + s.Do("GET", k.Key).S
					case "ReJSON-RL":
						st = "j:" + s.Do("JSON.GET", k.Key, ".").S
					default:
						st = "other:" + ty.S
					}
					m[s.Addr] = st
				}
				out[k.Key] = m
			}
			return out
		}
		opt := sim.Option(w, servers[0].Addr)
		opt.PipelineMultiplex = -1
		opt.AlwaysPipelining = true
		if ring {
			opt.WriteBufferEachConn = 1 << 20
		}
		switch plan.Mode {
		case "nocache":
			opt.DisableCache = true
		case "resp2":
			opt.AlwaysRESP2 = true
			opt.DisableCache = true
		}
		opt.DisableRetry = true
		client, err := rueidis.NewClient(opt)
		if err != nil {
			run.NewErr = err.Error()
			if client != nil {
				client.Close()
			}
			w.Stop()
			time.Sleep(10 * time.Second)
			return
		}
		done := make(chan struct{})
		go func() {
			defer close(done)
			for ci, call := range plan.Calls {
				time.Sleep(time.Duration(call.GapUs) * time.Microsecond)
				o := run.Calls[ci]
				o.Before = snapshot()
				o.EvFrom = len(w.Snapshot())
				o.StartedUs = w.Since()
				ctx := context.Background()
				kvs := map[string]string{}
				for _, k := range call.Keys {
					if call.Helper == "jsonmset" {
						kvs[k] = hJSON(k, ci+1)
					} else {
						kvs[k] = hStr(k, ci+1)
					}
				}
				var rerr error
				switch call.Helper {
				case "mget":
					o.Read, rerr = rueidis.MGet(client, ctx, call.Keys)
				case "mgetcache":
					o.Read, rerr = rueidis.MGetCache(client, ctx, time.Minute, call.Keys)
				case "jsonmget":
					o.Read, rerr = rueidis.JsonMGet(client, ctx, call.Keys, call.Path)
				case "jsonmgetcache":
					o.Read, rerr = rueidis.JsonMGetCache(client, ctx, time.Minute, call.Keys, call.Path)
				case "mset":
					o.Write, o.Values = rueidis.MSet(client, ctx, kvs), kvs
				case "msetnx":
					o.Write, o.Values = rueidis.MSetNX(client, ctx, kvs), kvs
				case "mdel":
					o.Write = rueidis.MDel(client, ctx, call.Keys)
				case "jsonmset":
					o.Write, o.Values = rueidis.JsonMSet(client, ctx, kvs, call.Path), kvs
				}
				if rerr != nil {
					o.HasErr, o.ReadErr = true, rerr.Error()
				}
				o.EvTo = len(w.Snapshot())
				o.After = snapshot()
				o.Ref = map[string]resp.Value{}
				family := call.Helper
				if family == "mgetcache" && plan.Mode != "cache" {
					family = "mget" // without a client-side cache MGetCache is MGet
				}
				for _, k := range call.Keys {
					var v resp.Value
					switch family {
					case "mget":
						v = owner(k).Do("MGET", k)
					case "mgetcache":
						v = owner(k).Do("GET", k)
					case "jsonmget":
						v = owner(k).Do("JSON.MGET", k, call.Path)
					case "jsonmgetcache":
						v = owner(k).Do("JSON.GET", k, call.Path)
					default:
						continue
					}
					if (family == "mget" || family == "jsonmget") && v.T == '*' && len(v.A) == 1 {
						v = v.A[0]
					}
					o.Ref[k] = v
				}
				o.Done = true
			}
		}()
		select {
		case <-done:
		case <-time.After(time.Minute):
			run.Hung = true
		}
		sim.CallTimeout(time.Minute, client.Close)
		time.Sleep(2 * time.Second)
		w.Stop()
		run.Events = w.Snapshot()
		time.Sleep(15 * time.Second)
	})
	return
}

// ---------------------------------------------------------------- oracle

// hTrigger: does the slot sequence revisit a slot that already has a group, after the group of another slot
// was opened, and stay in it for the next key (A .. B .. A A)?
func hTrigger(slots []int) bool {
	order := map[int]int{} // slot -> position of its group
	last := -1             // slot whose group was opened most recently
	for i, s := range slots {
		if _, ok := order[s]; !ok {
			order[s] = len(order)
			last = s
			continue
		}
		if s != last && i+1 < len(slots) && slots[i+1] == s {
			return true
		}
	}
	return false
}

func c31ClusterCheck(c *stat.Collector, rt stat.Fataler, plan hPlan, run hRun) (nt bool, classes []string) {
	cls := map[string]bool{}
	if run.Hung || run.Res.Deadlock {
		c.Fail(rt, "C31.cluster-no-hang", fmt.Sprintf("the history never finished (%s)", run.Res), plan)
	}
	if run.Res.Panic != nil {
		c.Fail(rt, "C31.cluster-no-panic", run.Res.String(), plan)
	}
	slotOf := map[string]int{}
	inAlphabet := map[string]bool{}
	for _, k := range plan.Keys {
		slotOf[k.Key] = k.Slot
		inAlphabet[k.Key] = true
	}
	for ci, call := range plan.Calls {
		o := run.Calls[ci]
		if !o.Done {
			continue
		}
		where := fmt.Sprintf("call %d %s(%q)", ci, call.Helper, call.Keys)
		if call.Path != "" {
			where += " path " + call.Path
		}
		distinct := map[string]bool{}
		var slots []int
		nodes := map[string]bool{}
		for _, k := range call.Keys {
			distinct[k] = true
			slots = append(slots, slotOf[k])
			nodes[plan.ownerAddr(slotOf[k])] = true
		}
		// frames of the call
		var frames []string
		for _, e := range run.Events[o.EvFrom:min(o.EvTo, len(run.Events))] {
			if e.Kind != "recv" || len(e.Argv) == 0 {
				continue
			}
			ks := fakeredis.ClusterKeys(e.Argv)
			if len(ks) == 0 {
				continue
			}
			frames = append(frames, e.Server+": "+strings.Join(e.Argv, " "))
			for _, k := range ks {
				if fakeredis.KeySlot(k) != fakeredis.KeySlot(ks[0]) {
					c.Fail(rt, "C31.cluster-no-cross-slot-command", fmt.Sprintf("%s: %s read %q, whose keys are in slots %d and %d", where, e.Server, e.Argv, fakeredis.KeySlot(ks[0]), fakeredis.KeySlot(k)), plan)
				}
				if !distinct[k] {
					c.Fail(rt, "C31.cluster-frames-name-input-keys", fmt.Sprintf("%s: %s read %q, %q is not a key of the call", where, e.Server, e.Argv, k), plan)
				}
			}
		}
		if len(call.Keys) == 0 {
			cls["empty-input"] = true
			n := len(o.Read) + len(o.Write)
			if o.HasErr || n != 0 || len(frames) != 0 {
				c.Fail(rt, "C31.cluster-empty-input", fmt.Sprintf("%s: want an empty map, no error and no command; got %d entries, err=%q, commands %q", where, n, o.ReadErr, frames), plan)
			}
			continue
		}
		cls["helper-"+call.Helper+"-"+plan.Mode] = true
		cls["order-"+call.Order] = true
		if len(distinct) < len(call.Keys) {
			cls["duplicate-keys"] = true
		}
		if len(nodes) >= 2 {
			cls["keys-on->=2-nodes"] = true
		}
		trigger := hTrigger(slots)
		if trigger {
			cls["slot-order-A-B-A-A"] = true
			if call.Helper == "mget" || call.Helper == "jsonmget" || (call.Helper == "mgetcache" && plan.Mode != "cache") {
				cls["slot-order-A-B-A-A-in-grouped-read"] = true
			}
		}
		if isReadHelper(call.Helper) {
			// a healthy static cluster: nothing can fail but a reply of the server, and those are entries of the map
			if o.HasErr {
				c.Fail(rt, "C31.cluster-read-error", fmt.Sprintf("%s returned the error %q instead of a map; commands: %q", where, o.ReadErr, frames), plan)
			}
			var got []string
			for k := range o.Read {
				got = append(got, k)
			}
			sort.Strings(got)
			if len(got) != len(distinct) {
				c.Fail(rt, "C31.cluster-key-set", fmt.Sprintf("%s returned the keys %q; commands: %q", where, got, frames), plan)
			}
			for _, k := range got {
				if !distinct[k] {
					c.Fail(rt, "C31.cluster-key-set", fmt.Sprintf("%s returned the keys %q; commands: %q", where, got, frames), plan)
				}
			}
			states := map[string]bool{}
			for k := range distinct {
				ref := o.Ref[k]
				if err := sim.Match(o.Read[k], ref); err != nil {
					c.Fail(rt, "C31.cluster-own-reply", fmt.Sprintf("%s: entry of %q: %v (the key's own reply: %s); commands: %q", where, k, err, ref.String(), frames), plan)
				}
				switch {
				case ref.T == '_':
					states["nil"] = true
				case ref.IsErr():
					states["error"] = true
				default:
					states["value"] = true
				}
			}
			if len(states) >= 2 {
				cls["read-mix-of-present-absent-wrongtype"] = true
			}
			// reads change nothing
			if fmt.Sprint(o.Before) != fmt.Sprint(o.After) {
				c.Fail(rt, "C31.cluster-keyspace", fmt.Sprintf("%s changed the keyspace: before %v after %v", where, o.Before, o.After), plan)
			}
			continue
		}
		// write helpers
		var got []string
		for k := range o.Write {
			got = append(got, k)
		}
		sort.Strings(got)
		if len(got) != len(distinct) {
			c.Fail(rt, "C31.cluster-key-set", fmt.Sprintf("%s returned the keys %q; commands: %q", where, got, frames), plan)
		}
		for _, k := range got {
			if !distinct[k] {
				c.Fail(rt, "C31.cluster-key-set", fmt.Sprintf("%s returned the keys %q; commands: %q", where, got, frames), plan)
			}
		}
		for _, hk := range plan.Keys {
			k := hk.Key
			own := plan.ownerAddr(hk.Slot)
			before, after := o.Before[k], o.After[k]
			for node, st := range after {
				if node != own && st != "missing" {
					c.Fail(rt, "C31.cluster-keyspace", fmt.Sprintf("%s: key %q exists on %s, which does not serve its slot", where, k, node), plan)
				}
			}
			if !distinct[k] {
				if before[own] != after[own] {
					c.Fail(rt, "C31.cluster-keyspace", fmt.Sprintf("%s: key %q is not a key of the call but changed from %q to %q", where, k, before[own], after[own]), plan)
				}
				continue
			}
			entry := o.Write[k]
			existed := before[own] != "missing"
			switch call.Helper {
			case "mset":
				if entry != nil || after[own] != "s:"+o.Values[k] {
					c.Fail(rt, "C31.cluster-write", fmt.Sprintf("%s: key %q: entry %v, stored %q, want no error and %q; commands: %q", where, k, entry, after[own], "s:"+o.Values[k], frames), plan)
				}
			case "msetnx":
				// per key SET NX on a cluster: the key's own reply is OK (set) or nil (it exists, nothing changes)
				if existed {
					cls["msetnx-existing-key"] = true
					if entry == nil || !rueidis.IsRedisNil(entry) || after[own] != before[own] {
						c.Fail(rt, "C31.cluster-write", fmt.Sprintf("%s: key %q existed (%q): entry %v, stored %q, want the nil reply of its own SET NX and no change; commands: %q", where, k, before[own], entry, after[own], frames), plan)
					}
				} else if entry != nil || after[own] != "s:"+o.Values[k] {
					c.Fail(rt, "C31.cluster-write", fmt.Sprintf("%s: key %q did not exist: entry %v, stored %q, want no error and %q; commands: %q", where, k, entry, after[own], "s:"+o.Values[k], frames), plan)
				}
			case "mdel":
				if entry != nil || after[own] != "missing" {
					c.Fail(rt, "C31.cluster-write", fmt.Sprintf("%s: key %q: entry %v, afterwards %q, want no error and the key gone; commands: %q", where, k, entry, after[own], frames), plan)
				}
			case "jsonmset":
				want := "j:" + o.Values[k]
				if existed && !strings.HasPrefix(before[own], "j:") {
					// JSON.SET on a key of another type: the key's own reply is an error and the key keeps its value
					cls["jsonmset-wrong-type-key"] = true
					if entry == nil || after[own] != before[own] {
						c.Fail(rt, "C31.cluster-write", fmt.Sprintf("%s: key %q held %q: entry %v, afterwards %q, want the error reply of its own JSON.SET and no change; commands: %q", where, k, before[own], entry, after[own], frames), plan)
					}
				} else if entry != nil || after[own] != want {
					c.Fail(rt, "C31.cluster-write", fmt.Sprintf("%s: key %q: entry %v, stored %q, want no error and %q; commands: %q", where, k, entry, after[own], want, frames), plan)
				}
			}
		}
	}
	for k := range cls {
		classes = append(classes, k)
	}
	nt = cls["slot-order-A-B-A-A"] || (cls["duplicate-keys"] && cls["keys-on->=2-nodes"]) || cls["read-mix-of-present-absent-wrongtype"]
	return nt, classes
}

func TestVerif_C31_ClusterHelpers(t *testing.T) {
	c := stat.For("C31", "helpers-cluster-"+queueLabel()).Rule("histories of 1-4 helper calls in a synctest bubble, cluster client against a static fake cluster of 2-4 primaries (CLUSTER SLOTS or SHARDS) whose nodes store real values, answer MOVED for foreign slots and CROSSSLOT for multi-key commands over several slots: helper in {MGet, MGetCache, JsonMGet, JsonMGetCache, MSet, MSetNX, MDel, JsonMSet}, client-side cache on / DisableCache / RESP2; 0-12 keys from an alphabet of 2-4 slots x 2-4 keys (hash tags and plain keys, slots on one node and on several), slot sequence drawn as A B A A (+ head and tail), runs (A A B B), alternating (A B A B), single slot or random, duplicates, per-key state in {missing, string f(key), JSON document f(key), hash}, JSON paths $ $.a .a $.zz, values written by earlier calls of the history; oracle: the returned map's key set == distinct input keys and no call-level error, each read entry == the reply the owning node gives for that key alone to the same command family right after the call (MGET, also for MGetCache without a cache / GET / JSON.MGET / JSON.GET: value, nil for absent, the key's own error), write entries nil (MSetNX: the nil reply for a key that existed, JsonMSet: the error for a key of another type) with the keyspace of every node compared before / after (exactly the given keys changed, to the given values, on the node that serves them), every keyed command read by a node during the call keeps to one slot and names only input keys, empty input => empty map and no command; non-trivial = a slot sequence of the form A..B..A A, or duplicates over >= 2 nodes, or a read that mixes present / absent / wrong-type keys")
	defer c.Flush()
	rapid.Check(t, func(rt *rapid.T) {
		plan := genC31Plan(rt)
		saveCase("c31cluster", plan)
		run := hRunPlan(t, plan)
		if run.Res.Frozen {
			c.Inconclusive("virtual-clock-freeze")
			return
		}
		if run.NewErr != "" {
			c.Inconclusive("new-client-failed")
			return
		}
		nt, classes := c31ClusterCheck(c, rt, plan, run)
		b, _ := json.Marshal(plan)
		c.Eval(nt, string(b), classes...)
		c.Sample(nt, func() any { return plan })
	})
}
