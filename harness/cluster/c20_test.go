package cluster

import (
	"fmt"
	"sort"
	"strconv"
	"strings"
	"testing"
	"time"

	"pgregory.net/rapid"
	"verifkit/stat"
)

// c20TxItems draws a batch around one slot (the cluster client requires that when MULTI/EXEC, which have no key,
// are in the batch): loose commands and 1-2 MULTI..EXEC blocks.
func c20TxItems(rt *rapid.T, g *kGen, slot int) (items []kItem) {
	nItems := rapid.IntRange(1, 4).Draw(rt, "txItems")
	blocks := 0
	for k := 0; k < nItems; k++ {
		if blocks < 2 && (rapid.IntRange(0, 2).Draw(rt, "isBlock") != 0 || (k == nItems-1 && blocks == 0)) {
			blocks++
			g.blk++
			it := kItem{Tx: true, ID: "b" + strconv.Itoa(g.blk)}
			nm := rapid.IntRange(1, 3).Draw(rt, "members")
			for m := 0; m < nm; m++ {
				cm := g.cmd([]string{"kecho", "kset", "kset", "get"}, slot)
				g.script(&cm, 10)
				it.Cmds = append(it.Cmds, cm)
			}
			items = append(items, it)
		} else {
			cm := g.cmd([]string{"kecho", "kset"}, slot)
			g.script(&cm, 10)
			items = append(items, kItem{Cmds: []kCmd{cm}})
		}
	}
	return items
}

// c20CarveLateSlot takes one slot out of the topology the client learns first (nobody serves it then).
func c20CarveLateSlot(rt *rapid.T, tp *kTopo) (slot int, ok bool) {
	var cand [][2]int // shard, range index
	for si, sh := range tp.Shards {
		for ri := range sh.Ranges {
			cand = append(cand, [2]int{si, ri})
		}
	}
	if len(cand) == 0 {
		return 0, false
	}
	pick := rapid.SampledFrom(cand).Draw(rt, "lateRange")
	sh := &tp.Shards[pick[0]]
	r := sh.Ranges[pick[1]]
	slot = r[0]
	switch rapid.IntRange(0, 2).Draw(rt, "latePos") {
	case 1:
		slot = r[1]
	case 2:
		slot = rapid.IntRange(r[0], r[1]).Draw(rt, "lateIn")
	}
	var rest [][2]int
	rest = append(rest, sh.Ranges[:pick[1]]...)
	if r[0] <= slot-1 {
		rest = append(rest, [2]int{r[0], slot - 1})
	}
	if slot+1 <= r[1] {
		rest = append(rest, [2]int{slot + 1, r[1]})
	}
	rest = append(rest, sh.Ranges[pick[1]+1:]...)
	sh.Ranges = rest
	for _, s := range tp.Shards {
		if len(s.Ranges) > 0 {
			return slot, true
		}
	}
	return 0, false // never: the topology had a single one-slot range
}

// c20Late: a slot nobody serves in the topology the client learned first gets an owner A at a generated instant,
// and a caller of its own then issues single-slot batches with MULTI..EXEC blocks for it: the first of them finds no
// connection for the slot, makes the client refresh its topology on the spot and is routed by that answer. What
// the node named by that answer does with the transaction:
//
//	plain       serves it
//	migrating   the slot is being migrated from A to B: -ASK for the keys that have already moved
//	stale-view  the slot went to B, but every node except the primaries of A and B missed that (they still announce A):
//	            A answers -MOVED
//	move-again  the slot moves on to B while A is working on the first command of the batch: -MOVED for the members
//	retry       a member is answered TRYAGAIN/LOADING once
func c20Late(rt *rapid.T, p *kPlan, g *kGen, slot int) (ops []kOp, evs []kEvent) {
	nSh := len(p.Topo.Shards)
	a := rapid.IntRange(0, nSh-1).Draw(rt, "lateOwner")
	b := rapid.IntRange(0, nSh-2).Draw(rt, "lateNext")
	if b >= a {
		b++
	}
	at := rapid.IntRange(50, 1500).Draw(rt, "lateAt")
	variant := rapid.SampledFrom([]string{"plain", "migrating", "migrating", "stale-view", "stale-view", "move-again", "move-again", "retry"}).Draw(rt, "lateVariant")
	first := at + rapid.IntRange(1, 400).Draw(rt, "lateFirstGap")
	nOps := rapid.IntRange(1, 3).Draw(rt, "lateOps")
	for i := 0; i < nOps; i++ {
		op := kOp{GapUs: rapid.IntRange(0, 300).Draw(rt, "gap"), Kind: "multi", Items: c20TxItems(rt, g, slot)}
		if i == 0 {
			op.GapUs = first
		}
		ops = append(ops, op)
	}
	switch variant {
	case "plain":
		evs = append(evs, kEvent{AtUs: at, Kind: "move", Slot: slot, Hi: slot, To: a})
	case "retry":
		evs = append(evs, kEvent{AtUs: at, Kind: "move", Slot: slot, Hi: slot, To: a})
		// one member of the first block, made retryable (read-only), fails once with a retryable error
		for ii := range ops[0].Items {
			if it := &ops[0].Items[ii]; it.Tx {
				cm := &it.Cmds[rapid.IntRange(0, len(it.Cmds)-1).Draw(rt, "lateRetryMember")]
				if cm.Kind == "kset" {
					cm.Kind = "kecho"
				}
				cm.Script = []string{rapid.SampledFrom([]string{"tryagain", "tryagain", "loading"}).Draw(rt, "lateRetryWith")}
				break
			}
		}
	case "migrating":
		evs = append(evs, kEvent{AtUs: at, Kind: "move", Slot: slot, Hi: slot, To: a})
		ev := kEvent{AtUs: at, Kind: "migrate", Slot: slot, To: b, All: rapid.Bool().Draw(rt, "allMoved")}
		for _, k := range g.keys[slot] {
			if rapid.IntRange(0, 2).Draw(rt, "keyMoved") != 0 {
				ev.Moved = append(ev.Moved, k)
			}
		}
		evs = append(evs, ev)
		switch rapid.IntRange(0, 3).Draw(rt, "migrationEnd") {
		case 0:
			evs = append(evs, kEvent{AtUs: first + rapid.IntRange(500, 8000).Draw(rt, "finishAfter"), Kind: "finish", Slot: slot})
		case 1:
			evs = append(evs, kEvent{AtUs: first + rapid.IntRange(500, 8000).Draw(rt, "abortAfter"), Kind: "abort", Slot: slot})
		}
	case "stale-view":
		evs = append(evs, kEvent{AtUs: at, Kind: "move", Slot: slot, Hi: slot, To: b})
		heal := rapid.Bool().Draw(rt, "lateHeal")
		healAt := first + rapid.IntRange(2000, 60000).Draw(rt, "lateHealAfter")
		for si, sh := range p.Topo.Shards {
			for ni, n := range append([]string{sh.Primary}, sh.Replicas...) {
				if ni == 0 && (si == a || si == b) {
					continue
				}
				evs = append(evs, kEvent{AtUs: at, Kind: "view", Node: n, Slot: slot, Hi: slot, To: a})
				if heal {
					evs = append(evs, kEvent{AtUs: healAt, Kind: "heal", Node: n})
				}
			}
		}
	case "move-again":
		evs = append(evs, kEvent{AtUs: at, Kind: "move", Slot: slot, Hi: slot, To: a})
		// the refresh on pick takes one topology latency; A then sleeps the base latency before it reads the batch
		evs = append(evs, kEvent{AtUs: first + p.Cfg.TopoLatUs + p.Cfg.BaseLatUs/2, Kind: "move", Slot: slot, Hi: slot, To: b})
	}
	return ops, evs
}

// c20Reshard: a resharding from shard A to shard X caught in the middle, all of it unknown to the client: some of A's
// slots have been handed over (A answers -MOVED X), others are being migrated (A answers -ASK X for the keys that have
// moved), so that one batch over these slots is redirected to X in both ways at once. Later some migrations complete.
func c20Reshard(rt *rapid.T, p *kPlan, g *kGen) (hot []int, gen func() []kEvent) {
	var owned []int
	for _, s := range g.slots {
		if p.Topo.ownerOf(s) >= 0 {
			owned = append(owned, s)
		}
	}
	if len(owned) == 0 || len(p.Topo.Shards) < 2 {
		return nil, func() []kEvent { return nil }
	}
	a := p.Topo.ownerOf(rapid.SampledFrom(owned).Draw(rt, "reshardFrom"))
	x := rapid.IntRange(0, len(p.Topo.Shards)-2).Draw(rt, "reshardTo")
	if x >= a {
		x++
	}
	seen := map[int]bool{}
	for _, s := range g.slots {
		seen[s] = true
		if p.Topo.ownerOf(s) == a {
			hot = append(hot, s)
		}
	}
	want := rapid.IntRange(2, 4).Draw(rt, "reshardSlots")
	for tries := 0; len(hot) < want && tries < 16; tries++ {
		r := rapid.SampledFrom(p.Topo.Shards[a].Ranges).Draw(rt, "reshardRange")
		if s := rapid.IntRange(r[0], r[1]).Draw(rt, "reshardSlot"); !seen[s] {
			seen[s] = true
			hot = append(hot, s)
			g.slots = append(g.slots, s)
		}
	}
	if len(hot) > 4 {
		hot = hot[:4]
	}
	gen = func() (evs []kEvent) {
		if len(hot) < 2 {
			return nil
		}
		nMoved := rapid.IntRange(1, len(hot)-1).Draw(rt, "reshardDone")
		for i, s := range hot {
			at := rapid.IntRange(0, 50).Draw(rt, "reshardAt")
			if rapid.IntRange(0, 3).Draw(rt, "reshardLater") == 0 {
				at = rapid.IntRange(50, 2000).Draw(rt, "reshardAtLater")
			}
			if i < nMoved {
				evs = append(evs, kEvent{AtUs: at, Kind: "move", Slot: s, Hi: s, To: x})
				continue
			}
			ev := kEvent{AtUs: at, Kind: "migrate", Slot: s, To: x, All: rapid.IntRange(0, 2).Draw(rt, "allMoved") != 0}
			for _, k := range g.keys[s] {
				if rapid.IntRange(0, 2).Draw(rt, "keyMoved") != 0 {
					ev.Moved = append(ev.Moved, k)
				}
			}
			evs = append(evs, ev)
			if rapid.IntRange(0, 2).Draw(rt, "reshardFinish") == 0 {
				evs = append(evs, kEvent{AtUs: at + rapid.IntRange(300, 6000).Draw(rt, "finishAfter"), Kind: "finish", Slot: s})
			}
		}
		return evs
	}
	return hot, gen
}

func genC20Plan(rt *rapid.T) kPlan {
	var p kPlan
	p.Topo = genTopo(rt, kGenOpt{Bias: "c20"})
	p.Cfg = genCfg(rt)
	p.Cfg.RESP2 = rapid.IntRange(0, 11).Draw(rt, "resp2") == 0
	g := &kGen{rt: rt}
	lateSlot, late := 0, false
	if rapid.IntRange(0, 2).Draw(rt, "late") == 0 {
		lateSlot, late = c20CarveLateSlot(rt, &p.Topo)
	}
	g.slots = genSlots(rt, p.Topo, rapid.IntRange(3, 6).Draw(rt, "nSlots"), false)
	var hot []int
	reshardEvents := func() []kEvent { return nil }
	if rapid.IntRange(0, 4).Draw(rt, "reshard") < 2 {
		hot, reshardEvents = c20Reshard(rt, &p, g)
	}
	// batches of a plan with a resharding concentrate on the slots that are being handed over
	slotOf := func() int {
		if len(hot) >= 2 && rapid.IntRange(0, 2).Draw(rt, "hotSlot") != 0 {
			return rapid.SampledFrom(hot).Draw(rt, "hot")
		}
		return g.slot()
	}
	nc := rapid.IntRange(1, 4).Draw(rt, "callers")
	for c := 0; c < nc; c++ {
		no := rapid.IntRange(1, 4).Draw(rt, "ops")
		var ops []kOp
		for i := 0; i < no; i++ {
			gap := rapid.IntRange(0, 300).Draw(rt, "gap") // callers overlap: their batches meet on the same connections
			if rapid.IntRange(0, 11).Draw(rt, "longGap") == 0 {
				gap = rapid.IntRange(100000, 1300000).Draw(rt, "gapLong")
			}
			kinds := []string{"multi", "multi", "multicache", "tx", "tx", "do"}
			if len(hot) >= 2 {
				kinds = []string{"multi", "multicache", "multicache", "multicache", "tx", "do"}
			}
			op := kOp{GapUs: gap, Kind: rapid.SampledFrom(kinds).Draw(rt, "kind")}
			switch op.Kind {
			case "do":
				op.Items = []kItem{{Cmds: []kCmd{g.cmd([]string{"kecho", "kset"}, g.slot())}}}
			case "multi":
				n := rapid.IntRange(2, 7).Draw(rt, "n")
				for k := 0; k < n; k++ {
					cm := g.cmd([]string{"kecho", "kecho", "kset", "get"}, slotOf())
					g.script(&cm, 10)
					op.Items = append(op.Items, kItem{Cmds: []kCmd{cm}})
				}
			case "multicache":
				n := rapid.IntRange(2, 6).Draw(rt, "n")
				for k := 0; k < n; k++ {
					cm := g.cmd([]string{"get"}, slotOf())
					g.script(&cm, 12)
					op.Items = append(op.Items, kItem{Cmds: []kCmd{cm}})
				}
			case "tx":
				op.Kind = "multi"
				op.Items = c20TxItems(rt, g, g.slot())
			}
			ops = append(ops, op)
		}
		p.Callers = append(p.Callers, ops)
	}
	var lateEvents []kEvent
	if late {
		var ops []kOp
		ops, lateEvents = c20Late(rt, &p, g, lateSlot)
		p.Callers = append(p.Callers, ops)
	}
	if queueLabel() == "ring" {
		// a batch travels as one burst: only its first command may carry latency (see AGENT_NOTES, bubble rules)
		for ci := range p.Callers {
			for oi := range p.Callers[ci] {
				op := &p.Callers[ci][oi]
				first := true
				for ii := range op.Items {
					for k := range op.Items[ii].Cmds {
						if !first {
							op.Items[ii].Cmds[k].LatUs = 0
						}
						first = false
					}
				}
			}
		}
	}
	var unhealed, kills bool
	p.Events, unhealed, kills = genEvents(rt, p.Topo, g, []string{"move", "move", "move", "migrate", "migrate", "migrate", "migrate", "migrate", "loop", "kill", "health"}, 5, 3000)
	p.Events = append(p.Events, reshardEvents()...)
	p.Events = append(p.Events, lateEvents...)
	sort.SliceStable(p.Events, func(a, b int) bool { return p.Events[a].AtUs < p.Events[b].AtUs })
	if kills && !unhealed {
		// a node left with a stale view (late-slot shape) that is promoted by a failover answers -MOVED back to
		// the node that redirected to it: an unhealed loop, which MaxMovedRedirections 0 follows until the context
		// ends (documented), so such plans need deadlines as well
		healed := map[string]bool{}
		for _, e := range p.Events {
			if e.Kind == "heal" {
				healed[e.Node] = true
			}
		}
		for _, e := range p.Events {
			if e.Kind == "view" && !healed[e.Node] {
				unhealed = true
			}
		}
	}
	for ci := range p.Callers {
		for oi := range p.Callers[ci] {
			op := &p.Callers[ci][oi]
			switch {
			case unhealed && p.Cfg.MaxRedir == 0:
				op.DeadlineUs = rapid.IntRange(5000, 60000).Draw(rt, "deadline")
			case kills && rapid.Bool().Draw(rt, "deadlineOnKill"):
				op.DeadlineUs = rapid.IntRange(2000, 200000).Draw(rt, "deadline")
			}
		}
	}
	return p
}

func c20Check(c *stat.Collector, rt stat.Fataler, plan kPlan, run kRun) (nt bool, classes []string) {
	cls := map[string]bool{}
	if run.Pending > 0 || run.Res.Deadlock {
		c.Fail(rt, "C20.no-hang", fmt.Sprintf("%d calls never returned %v (%s)", run.Pending, run.PendingOps, run.Res), plan)
	}
	if run.Res.Panic != nil {
		c.Fail(rt, "C20.no-panic", run.Res.String(), plan)
	}
	obs := kObserve(plan, run)
	faulty, _ := kFaulty(plan, run)
	// planned blocks by member uid
	type blockRef struct {
		it     *kItem
		ci, oi int
	}
	blockOf := map[string]blockRef{}
	opOf := map[string][2]int{}
	plan.eachCmd(func(ci, oi int, op *kOp, cm *kCmd, it *kItem) {
		opOf[cm.UID] = [2]int{ci, oi}
		if it.Tx {
			blockOf[cm.UID] = blockRef{it, ci, oi}
		}
	})
	// (1) every result position holds the reply to its own command
	for ci := range plan.Callers {
		for oi := range plan.Callers[ci] {
			op := &plan.Callers[ci][oi]
			r := run.result(plan, ci, oi)
			if !r.Done {
				continue
			}
			where := fmt.Sprintf("caller %d op %d (%s)", ci, oi, op.Kind)
			pos := op.positions()
			if len(r.Results) != len(pos) {
				c.Fail(rt, "C20.positional", fmt.Sprintf("%s returned %d results for %d commands", where, len(r.Results), len(pos)), plan)
			}
			firstNodes := map[string]bool{}
			redirected := false
			hasTx := false
			for pi, p := range pos {
				if clause, detail := kOwnReply(plan, obs, op, r, p, r.Results[pi], faulty); clause != "" {
					what := p.Role
					if p.Cmd != nil {
						what = fmt.Sprintf("%s %v", p.Cmd.UID, p.Cmd.argv())
					}
					c.Fail(rt, "C20.positional", fmt.Sprintf("%s position %d (%s): %s", where, pi, what, detail), plan)
				}
				if p.Block != nil {
					hasTx = true
				}
				if p.Role != "cmd" {
					continue
				}
				ss := obs.Sends[p.Cmd.UID]
				if len(ss) > 0 {
					firstNodes[ss[0].R.Server] = true
				}
				if n, _ := followed(ss); n > 0 {
					redirected = true
				}
				for _, s := range ss {
					if kind, _, _ := isRedirect(s.Eff); kind == "" && s.Eff != nil && s.Eff.IsErr() && len(ss) > 1 {
						cls["member-retried"] = true
					}
				}
				// a redirected block must be sent again (as a whole): with an unlimited budget a member never ends as a redirect
				if p.Block != nil && plan.Cfg.MaxRedir == 0 && !faulty {
					if err := r.Results[pi].Error(); err != nil && isRedirectErr(err) {
						c.Fail(rt, "C20.tx-resent", fmt.Sprintf("%s: member %s of block %s ended with %v although MaxMovedRedirections is unlimited; sends: %s", where, p.Cmd.UID, p.Block.ID, err, describeSends(ss)), plan)
					}
				}
				// the same for every other command of a batch: a -MOVED/-ASK answer is not the reply to the command, the command
				// has to be sent again where the answer points, unless the redirect budget has run out (an unlimited one cannot).
				// A limited budget of m counts the rounds of the batch in which something was redirected; a command takes part in
				// consecutive rounds from the first on, so one whose k-th send (k < m) is its last cannot have been cut off by the budget.
				if p.Block == nil && len(pos) > 1 && !faulty {
					if err := r.Results[pi].Error(); err != nil && isRedirectErr(err) && (plan.Cfg.MaxRedir == 0 || len(ss)-1 < plan.Cfg.MaxRedir) {
						c.Fail(rt, "C20.positional", fmt.Sprintf("%s position %d (%s %v): the batch returned the redirection %v for it after %d send(s) with MaxMovedRedirections=%d (0 = unlimited): the redirected command was not sent again; sends: %s", where, pi, p.Cmd.UID, p.Cmd.argv(), err, len(ss), plan.Cfg.MaxRedir, describeSends(ss)), plan)
					}
				}
			}
			// one round of a batch = the k-th sends of its commands (a command that is redirected or retried in a round
			// takes part in the next one): was one node the target of a -MOVED and of an -ASK in the same round?
			if len(pos) > 1 {
				type roundTarget struct {
					k    int
					addr string
				}
				movedTo, askTo, retriedAt := map[roundTarget]bool{}, map[roundTarget]bool{}, map[roundTarget]bool{}
				for _, p := range pos {
					if p.Role != "cmd" {
						continue
					}
					ss := obs.Sends[p.Cmd.UID]
					for k, s := range ss {
						if k+1 >= len(ss) {
							break // only answers that were followed by another send
						}
						switch kind, addr, _ := isRedirect(s.Eff); kind {
						case "MOVED":
							movedTo[roundTarget{k, addr}] = true
						case "ASK":
							askTo[roundTarget{k, addr}] = true
						default:
							if s.Eff != nil && s.Eff.IsErr() {
								retriedAt[roundTarget{k, s.R.Server}] = true
							}
						}
					}
				}
				for rtg := range askTo {
					if movedTo[rtg] || retriedAt[rtg] {
						what := "moved"
						if !movedTo[rtg] {
							what = "retried"
						}
						if op.Kind == "multicache" {
							cls["multicache-round-with-"+what+"+ask-to-one-node"] = true
						} else if !hasTx {
							cls["multi-round-with-"+what+"+ask-to-one-node"] = true
						}
					}
				}
			}
			// a transaction batch for a slot that no topology answer received before the call lists: the client has no
			// connection for the slot, refreshes its topology when it picks the nodes and picks again
			if hasTx {
				slot, sent, listed := -1, false, false
				for _, p := range pos {
					if p.Role == "cmd" {
						slot = p.Cmd.Slot
						sent = sent || len(obs.Sends[p.Cmd.UID]) > 0
					}
				}
				for _, v := range obs.Views {
					if v.At < r.StartUs && slot >= 0 && len(v.nodesOf(slot)) > 0 {
						listed = true
					}
				}
				if slot >= 0 && sent && !listed {
					cls["tx-refresh-on-pick"] = true
					for _, p := range pos {
						if p.Role != "cmd" || p.Block == nil {
							continue
						}
						ss := obs.Sends[p.Cmd.UID]
						for k, s := range ss {
							if k+1 >= len(ss) {
								break
							}
							switch kind, _, _ := isRedirect(s.Eff); kind {
							case "MOVED":
								cls["tx-refresh-on-pick-then-moved"] = true
							case "ASK":
								cls["tx-refresh-on-pick-then-ask"] = true
							default:
								if s.Eff != nil && s.Eff.IsErr() {
									cls["tx-refresh-on-pick-then-retried"] = true
								}
							}
						}
					}
				}
			}
			if len(pos) > 1 {
				if len(firstNodes) >= 2 {
					cls["batch-split>=2-nodes"] = true
					if redirected {
						cls["split-batch-with-redirect"] = true
					}
				}
				if op.Kind == "multicache" {
					cls["multicache"] = true
					if redirected {
						cls["multicache-redirected"] = true
					}
				}
			}
			if hasTx {
				cls["tx-batch"] = true
			}
		}
	}
	// (2) every MULTI..EXEC span on a connection is one block, complete, in order, nothing foreign inside
	attempts := map[string][]*kSpan{} // block id -> attempts
	for _, sp := range obs.Spans {
		where := fmt.Sprintf("%s/c%d MULTI at r%d (+%dus)", sp.Multi.Server, sp.Multi.Conn, sp.Multi.Req, sp.Multi.At)
		var argvs []string
		for _, m := range sp.Members {
			argvs = append(argvs, strings.Join(m.Argv, " "))
		}
		unfinished := sp.Exec == nil
		if unfinished && !(faulty || sp.Multi.Doubtful) {
			c.Fail(rt, "C20.tx-contiguous", fmt.Sprintf("%s: the connection log ends inside the transaction %v although nothing failed", where, argvs), plan)
		}
		// the client's own cache wrapper: MULTI, PTTL k, GET k, EXEC
		if len(sp.Members) > 0 && sp.Members[0].name() == "PTTL" {
			ok := len(sp.Members) == 2 && sp.Members[1].name() == "GET" && len(sp.Members[0].Argv) == 2 && len(sp.Members[1].Argv) == 2 && sp.Members[0].Argv[1] == sp.Members[1].Argv[1]
			if !ok && !unfinished {
				c.Fail(rt, "C20.tx-contiguous", fmt.Sprintf("%s: cache transaction is not MULTI, PTTL k, GET k, EXEC: %v", where, argvs), plan)
			}
			continue
		}
		var ref *blockRef
		for _, m := range sp.Members {
			if b, ok := blockOf[uidOf(m.Argv)]; ok {
				ref = &b
				break
			}
		}
		if ref == nil {
			if len(sp.Members) == 0 {
				continue // MULTI, EXEC with nothing in between: an empty block (not generated) or a block cut by a failure
			}
			c.Fail(rt, "C20.tx-contiguous", fmt.Sprintf("%s: commands of no transaction of the plan between MULTI and EXEC: %v", where, argvs), plan)
		}
		var want, got []string
		for _, cm := range ref.it.Cmds {
			want = append(want, cm.UID)
		}
		for _, m := range sp.Members {
			got = append(got, uidOf(m.Argv)+"("+m.name()+")")
		}
		same := len(want) == len(sp.Members)
		for i := 0; same && i < len(want); i++ {
			same = uidOf(sp.Members[i].Argv) == want[i]
		}
		if !same && !(unfinished && len(sp.Members) < len(want)) {
			c.Fail(rt, "C20.tx-contiguous", fmt.Sprintf("%s: between MULTI and EXEC the server read %v, the block %s of caller %d op %d is %v", where, got, ref.it.ID, ref.ci, ref.oi, want), plan)
		}
		attempts[ref.it.ID] = append(attempts[ref.it.ID], sp)
		// is the check meaningful here: did another call's request arrive on this connection at the same instant?
		reqs := obs.Conns[sp.Multi.Server+"/"+strconv.Itoa(sp.Multi.Conn)]
		for _, r := range reqs {
			if u := uidOf(r.Argv); u != "" && (r.Req == sp.Multi.Req-1 || (sp.Exec != nil && r.Req == sp.Exec.Req+1)) {
				if o, ok := opOf[u]; ok && (o[0] != ref.ci || o[1] != ref.oi) && (r.At == sp.Multi.At || (sp.Exec != nil && r.At == sp.Exec.At)) {
					cls["tx-with-foreign-neighbour"] = true
				}
			}
		}
	}
	// (3) a member of a block is never sent outside a MULTI..EXEC span
	for uid, ref := range blockOf {
		for _, s := range obs.Sends[uid] {
			if s.Span == nil {
				c.Fail(rt, "C20.tx-member-outside-block", fmt.Sprintf("member %s of block %s (caller %d op %d) was sent on its own to %s/c%d r%d; sends: %s", uid, ref.it.ID, ref.ci, ref.oi, s.R.Server, s.R.Conn, s.R.Req, describeSends(obs.Sends[uid])), plan)
			}
		}
	}
	for id, as := range attempts {
		_ = id
		if len(as) < 2 {
			continue
		}
		for _, sp := range as[:len(as)-1] {
			for _, m := range sp.Members {
				switch kind, _, _ := isRedirect(m.Reply); kind {
				case "MOVED":
					cls["tx-redirected-moved"] = true
				case "ASK":
					cls["tx-redirected-ask"] = true
				default:
					if m.Reply != nil && m.Reply.IsErr() {
						cls["tx-retried"] = true
					}
				}
			}
		}
		if as[len(as)-1].Asked {
			cls["tx-resent-after-asking"] = true
		}
		nodes := map[string]bool{}
		for _, sp := range as {
			nodes[sp.Multi.Server] = true
		}
		if len(nodes) > 1 {
			cls["tx-moved-to-other-node"] = true
		}
	}
	for _, e := range plan.Events {
		cls["event-"+e.Kind] = true
	}
	if faulty {
		cls["faulty"] = true
	}
	for k := range cls {
		classes = append(classes, k)
	}
	nt = cls["split-batch-with-redirect"] || cls["tx-redirected-moved"] || cls["tx-redirected-ask"]
	return nt, classes
}

func TestVerif_C20_Batches(t *testing.T) {
	c := stat.For("C20", "batches-"+queueLabel()).Rule("timed plans in a synctest bubble against the cluster personality of the fake server (topologies as in C19): 1-4 overlapping callers x 1-4 calls: DoMulti of 2-7 uniquely tagged keyed commands over 3-6 slots, DoMultiCache of 2-6 GETs, single-slot DoMulti batches with 1-2 MULTI..EXEC blocks (1-3 members) and loose commands around them; slot moves, migrations with a generated set of moved keys (ASK), contradicting views (loops), kills, scripted TRYAGAIN/LOADING/CLUSTERDOWN (retries), MaxMovedRedirections 0-3; oracle from the servers' logs: result i is the reply the servers gave to the last send of command i (MULTI/EXEC: of the last attempt of their block), on every server connection each MULTI..EXEC span holds exactly the members of one block of the plan in order (or the client's own PTTL/GET cache pair) and is complete, no member of a block is ever sent outside such a span, and with an unlimited redirect budget no member ends as a redirect error; non-trivial = a batch first sent to >= 2 nodes with a redirected member, or a transaction block that was sent again after a MOVED/ASK answer to a member")
	defer c.Flush()
	rapid.Check(t, func(rt *rapid.T) {
		plan := genC20Plan(rt)
		if plan.askCacheWithoutCache() && c.Known("C20.domulticache-ask-nocache-panic") {
			plan.Cfg.RESP2 = false
		}
		saveCase("c20", plan)
		t0 := time.Now()
		run := kRunPlan(t, plan)
		kSlow("c20", plan, t0)
		if run.Res.Frozen {
			c.Inconclusive("virtual-clock-freeze")
			return
		}
		if run.NewErr != "" {
			c.Inconclusive("new-client-failed")
			return
		}
		nt, classes := c20Check(c, rt, plan, run)
		c.Eval(nt, planKey(plan), classes...)
		c.Sample(nt, func() any { return plan })
	})
}
