package cluster

import (
	"fmt"
	"strconv"
	"strings"
	"testing"
	"time"

	"pgregory.net/rapid"
	"verifkit/stat"
)

func genC20Plan(rt *rapid.T) kPlan {
	var p kPlan
	p.Topo = genTopo(rt, kGenOpt{Bias: "c20"})
	p.Cfg = genCfg(rt)
	p.Cfg.RESP2 = rapid.IntRange(0, 11).Draw(rt, "resp2") == 0
	g := &kGen{rt: rt}
	g.slots = genSlots(rt, p.Topo, rapid.IntRange(3, 6).Draw(rt, "nSlots"), false)
	nc := rapid.IntRange(1, 4).Draw(rt, "callers")
	for c := 0; c < nc; c++ {
		no := rapid.IntRange(1, 4).Draw(rt, "ops")
		var ops []kOp
		for i := 0; i < no; i++ {
			gap := rapid.IntRange(0, 300).Draw(rt, "gap") // callers overlap: their batches meet on the same connections
			if rapid.IntRange(0, 11).Draw(rt, "longGap") == 0 {
				gap = rapid.IntRange(100000, 1300000).Draw(rt, "gapLong")
			}
			op := kOp{GapUs: gap, Kind: rapid.SampledFrom([]string{"multi", "multi", "multicache", "tx", "tx", "do"}).Draw(rt, "kind")}
			switch op.Kind {
			case "do":
				op.Items = []kItem{{Cmds: []kCmd{g.cmd([]string{"kecho", "kset"}, g.slot())}}}
			case "multi":
				n := rapid.IntRange(2, 7).Draw(rt, "n")
				for k := 0; k < n; k++ {
					cm := g.cmd([]string{"kecho", "kecho", "kset", "get"}, g.slot())
					g.script(&cm, 10)
					op.Items = append(op.Items, kItem{Cmds: []kCmd{cm}})
				}
			case "multicache":
				n := rapid.IntRange(2, 6).Draw(rt, "n")
				for k := 0; k < n; k++ {
					cm := g.cmd([]string{"get"}, g.slot())
					g.script(&cm, 12)
					op.Items = append(op.Items, kItem{Cmds: []kCmd{cm}})
				}
			case "tx":
				// a batch around one slot (the cluster client requires that when MULTI/EXEC, which have no key, are in the batch):
				// loose commands and 1-2 MULTI..EXEC blocks
				op.Kind = "multi"
				slot := g.slot()
				nItems := rapid.IntRange(1, 4).Draw(rt, "txItems")
				blocks := 0
				for k := 0; k < nItems; k++ {
					if blocks < 2 && (rapid.IntRange(0, 2).Draw(rt, "isBlock") != 0 || (k == nItems-1 && blocks == 0)) {
						blocks++
						g.blk++
						it := kItem{Tx: true, ID: "b" + strconv.Itoa(g.blk)}
						nm := rapid.IntRange(1, 3).Draw(rt, "members")
						for m := 0; m < nm; m++ {
							cm := g.cmd([]string{"kecho", "kset", "kset", "get"}, slot)
							g.script(&cm, 10)
							it.Cmds = append(it.Cmds, cm)
						}
						op.Items = append(op.Items, it)
					} else {
						cm := g.cmd([]string{"kecho", "kset"}, slot)
						g.script(&cm, 10)
						op.Items = append(op.Items, kItem{Cmds: []kCmd{cm}})
					}
				}
			}
			if queueLabel() == "ring" {
				// a batch travels as one burst: only its first command may carry latency (see AGENT_NOTES, bubble rules)
				first := true
				for ii := range op.Items {
					for k := range op.Items[ii].Cmds {
						if !first {
							op.Items[ii].Cmds[k].LatUs = 0
						}
						first = false
					}
				}
			}
			ops = append(ops, op)
		}
		p.Callers = append(p.Callers, ops)
	}
	var unhealed, kills bool
	p.Events, unhealed, kills = genEvents(rt, p.Topo, g, []string{"move", "move", "move", "migrate", "migrate", "migrate", "migrate", "migrate", "loop", "kill", "health"}, 5, 3000)
	for ci := range p.Callers {
		for oi := range p.Callers[ci] {
			op := &p.Callers[ci][oi]
			switch {
			case unhealed && p.Cfg.MaxRedir == 0:
				op.DeadlineUs = rapid.IntRange(5000, 60000).Draw(rt, "deadline")
			case kills && rapid.Bool().Draw(rt, "deadlineOnKill"):
				op.DeadlineUs = rapid.IntRange(2000, 200000).Draw(rt, "deadline")
			}
		}
	}
	return p
}

func c20Check(c *stat.Collector, rt stat.Fataler, plan kPlan, run kRun) (nt bool, classes []string) {
	cls := map[string]bool{}
	if run.Pending > 0 || run.Res.Deadlock {
		c.Fail(rt, "C20.no-hang", fmt.Sprintf("%d calls never returned %v (%s)", run.Pending, run.PendingOps, run.Res), plan)
	}
	if run.Res.Panic != nil {
		c.Fail(rt, "C20.no-panic", run.Res.String(), plan)
	}
	obs := kObserve(plan, run)
	faulty, _ := kFaulty(plan, run)
	// planned blocks by member uid
	type blockRef struct {
		it     *kItem
		ci, oi int
	}
	blockOf := map[string]blockRef{}
	opOf := map[string][2]int{}
	plan.eachCmd(func(ci, oi int, op *kOp, cm *kCmd, it *kItem) {
		opOf[cm.UID] = [2]int{ci, oi}
		if it.Tx {
			blockOf[cm.UID] = blockRef{it, ci, oi}
		}
	})
	// (1) every result position holds the reply to its own command
	for ci := range plan.Callers {
		for oi := range plan.Callers[ci] {
			op := &plan.Callers[ci][oi]
			r := run.result(plan, ci, oi)
			if !r.Done {
				continue
			}
			where := fmt.Sprintf("caller %d op %d (%s)", ci, oi, op.Kind)
			pos := op.positions()
			if len(r.Results) != len(pos) {
				c.Fail(rt, "C20.positional", fmt.Sprintf("%s returned %d results for %d commands", where, len(r.Results), len(pos)), plan)
			}
			firstNodes := map[string]bool{}
			redirected := false
			hasTx := false
			for pi, p := range pos {
				if clause, detail := kOwnReply(plan, obs, op, r, p, r.Results[pi], faulty); clause != "" {
					what := p.Role
					if p.Cmd != nil {
						what = fmt.Sprintf("%s %v", p.Cmd.UID, p.Cmd.argv())
					}
					c.Fail(rt, "C20.positional", fmt.Sprintf("%s position %d (%s): %s", where, pi, what, detail), plan)
				}
				if p.Block != nil {
					hasTx = true
				}
				if p.Role != "cmd" {
					continue
				}
				ss := obs.Sends[p.Cmd.UID]
				if len(ss) > 0 {
					firstNodes[ss[0].R.Server] = true
				}
				if n, _ := followed(ss); n > 0 {
					redirected = true
				}
				for _, s := range ss {
					if kind, _, _ := isRedirect(s.Eff); kind == "" && s.Eff != nil && s.Eff.IsErr() && len(ss) > 1 {
						cls["member-retried"] = true
					}
				}
				// a redirected block must be sent again (as a whole): with an unlimited budget a member never ends as a redirect
				if p.Block != nil && plan.Cfg.MaxRedir == 0 && !faulty {
					if err := r.Results[pi].Error(); err != nil && isRedirectErr(err) {
						c.Fail(rt, "C20.tx-resent", fmt.Sprintf("%s: member %s of block %s ended with %v although MaxMovedRedirections is unlimited; sends: %s", where, p.Cmd.UID, p.Block.ID, err, describeSends(ss)), plan)
					}
				}
			}
			if len(pos) > 1 {
				if len(firstNodes) >= 2 {
					cls["batch-split>=2-nodes"] = true
					if redirected {
						cls["split-batch-with-redirect"] = true
					}
				}
				if op.Kind == "multicache" {
					cls["multicache"] = true
					if redirected {
						cls["multicache-redirected"] = true
					}
				}
			}
			if hasTx {
				cls["tx-batch"] = true
			}
		}
	}
	// (2) every MULTI..EXEC span on a connection is one block, complete, in order, nothing foreign inside
	attempts := map[string][]*kSpan{} // block id -> attempts
	for _, sp := range obs.Spans {
		where := fmt.Sprintf("%s/c%d MULTI at r%d (+%dus)", sp.Multi.Server, sp.Multi.Conn, sp.Multi.Req, sp.Multi.At)
		var argvs []string
		for _, m := range sp.Members {
			argvs = append(argvs, strings.Join(m.Argv, " "))
		}
		unfinished := sp.Exec == nil
		if unfinished && !(faulty || sp.Multi.Doubtful) {
			c.Fail(rt, "C20.tx-contiguous", fmt.Sprintf("%s: the connection log ends inside the transaction %v although nothing failed", where, argvs), plan)
		}
		// the client's own cache wrapper: MULTI, PTTL k, GET k, EXEC
		if len(sp.Members) > 0 && sp.Members[0].name() == "PTTL" {
			ok := len(sp.Members) == 2 && sp.Members[1].name() == "GET" && len(sp.Members[0].Argv) == 2 && len(sp.Members[1].Argv) == 2 && sp.Members[0].Argv[1] == sp.Members[1].Argv[1]
			if !ok && !unfinished {
				c.Fail(rt, "C20.tx-contiguous", fmt.Sprintf("%s: cache transaction is not MULTI, PTTL k, GET k, EXEC: %v", where, argvs), plan)
			}
			continue
		}
		var ref *blockRef
		for _, m := range sp.Members {
			if b, ok := blockOf[uidOf(m.Argv)]; ok {
				ref = &b
				break
			}
		}
		if ref == nil {
			if len(sp.Members) == 0 {
				continue // MULTI, EXEC with nothing in between: an empty block (not generated) or a block cut by a failure
			}
			c.Fail(rt, "C20.tx-contiguous", fmt.Sprintf("%s: commands of no transaction of the plan between MULTI and EXEC: %v", where, argvs), plan)
		}
		var want, got []string
		for _, cm := range ref.it.Cmds {
			want = append(want, cm.UID)
		}
		for _, m := range sp.Members {
			got = append(got, uidOf(m.Argv)+"("+m.name()+")")
		}
		same := len(want) == len(sp.Members)
		for i := 0; same && i < len(want); i++ {
			same = uidOf(sp.Members[i].Argv) == want[i]
		}
		if !same && !(unfinished && len(sp.Members) < len(want)) {
			c.Fail(rt, "C20.tx-contiguous", fmt.Sprintf("%s: between MULTI and EXEC the server read %v, the block %s of caller %d op %d is %v", where, got, ref.it.ID, ref.ci, ref.oi, want), plan)
		}
		attempts[ref.it.ID] = append(attempts[ref.it.ID], sp)
		// is the check meaningful here: did another call's request arrive on this connection at the same instant?
		reqs := obs.Conns[sp.Multi.Server+"/"+strconv.Itoa(sp.Multi.Conn)]
		for _, r := range reqs {
			if u := uidOf(r.Argv); u != "" && (r.Req == sp.Multi.Req-1 || (sp.Exec != nil && r.Req == sp.Exec.Req+1)) {
				if o, ok := opOf[u]; ok && (o[0] != ref.ci || o[1] != ref.oi) && (r.At == sp.Multi.At || (sp.Exec != nil && r.At == sp.Exec.At)) {
					cls["tx-with-foreign-neighbour"] = true
				}
			}
		}
	}
	// (3) a member of a block is never sent outside a MULTI..EXEC span
	for uid, ref := range blockOf {
		for _, s := range obs.Sends[uid] {
			if s.Span == nil {
				c.Fail(rt, "C20.tx-member-outside-block", fmt.Sprintf("member %s of block %s (caller %d op %d) was sent on its own to %s/c%d r%d; sends: %s", uid, ref.it.ID, ref.ci, ref.oi, s.R.Server, s.R.Conn, s.R.Req, describeSends(obs.Sends[uid])), plan)
			}
		}
	}
	for id, as := range attempts {
		_ = id
		if len(as) < 2 {
			continue
		}
		for _, sp := range as[:len(as)-1] {
			for _, m := range sp.Members {
				switch kind, _, _ := isRedirect(m.Reply); kind {
				case "MOVED":
					cls["tx-redirected-moved"] = true
				case "ASK":
					cls["tx-redirected-ask"] = true
				default:
					if m.Reply != nil && m.Reply.IsErr() {
						cls["tx-retried"] = true
					}
				}
			}
		}
		if as[len(as)-1].Asked {
			cls["tx-resent-after-asking"] = true
		}
		nodes := map[string]bool{}
		for _, sp := range as {
			nodes[sp.Multi.Server] = true
		}
		if len(nodes) > 1 {
			cls["tx-moved-to-other-node"] = true
		}
	}
	for _, e := range plan.Events {
		cls["event-"+e.Kind] = true
	}
	if faulty {
		cls["faulty"] = true
	}
	for k := range cls {
		classes = append(classes, k)
	}
	nt = cls["split-batch-with-redirect"] || cls["tx-redirected-moved"] || cls["tx-redirected-ask"]
	return nt, classes
}

func TestVerif_C20_Batches(t *testing.T) {
	c := stat.For("C20", "batches-"+queueLabel()).Rule("timed plans in a synctest bubble against the cluster personality of the fake server (topologies as in C19): 1-4 overlapping callers x 1-4 calls: DoMulti of 2-7 uniquely tagged keyed commands over 3-6 slots, DoMultiCache of 2-6 GETs, single-slot DoMulti batches with 1-2 MULTI..EXEC blocks (1-3 members) and loose commands around them; slot moves, migrations with a generated set of moved keys (ASK), contradicting views (loops), kills, scripted TRYAGAIN/LOADING/CLUSTERDOWN (retries), MaxMovedRedirections 0-3; oracle from the servers' logs: result i is the reply the servers gave to the last send of command i (MULTI/EXEC: of the last attempt of their block), on every server connection each MULTI..EXEC span holds exactly the members of one block of the plan in order (or the client's own PTTL/GET cache pair) and is complete, no member of a block is ever sent outside such a span, and with an unlimited redirect budget no member ends as a redirect error; non-trivial = a batch first sent to >= 2 nodes with a redirected member, or a transaction block that was sent again after a MOVED/ASK answer to a member")
	defer c.Flush()
	rapid.Check(t, func(rt *rapid.T) {
		plan := genC20Plan(rt)
		if plan.askCacheWithoutCache() && c.Known("C20.domulticache-ask-nocache-panic") {
			plan.Cfg.RESP2 = false
		}
		saveCase("c20", plan)
		t0 := time.Now()
		run := kRunPlan(t, plan)
		kSlow("c20", plan, t0)
		if run.Res.Frozen {
			c.Inconclusive("virtual-clock-freeze")
			return
		}
		if run.NewErr != "" {
			c.Inconclusive("new-client-failed")
			return
		}
		nt, classes := c20Check(c, rt, plan, run)
		c.Eval(nt, planKey(plan), classes...)
		c.Sample(nt, func() any { return plan })
	})
}
