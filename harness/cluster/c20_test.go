package cluster

import "verifkit/stat"

func c20Check(c *stat.Collector, rt stat.Fataler, plan kPlan, run kRun) (nt bool, classes []string) {
	return false, nil
}
