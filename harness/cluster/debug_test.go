package cluster

import (
	"encoding/json"
	"fmt"
	"os"
	"strconv"
	"testing"

	"verifkit/stat"
)

// TestDebug_Cluster_Replay runs the plan stored in the file named by VERIF_CLUSTER_PLAN and prints the
// server log (development aid; skipped otherwise).
func TestDebug_Cluster_Replay(t *testing.T) {
	path := os.Getenv("VERIF_CLUSTER_PLAN")
	if path == "" {
		t.Skip("VERIF_CLUSTER_PLAN not set")
	}
	b, err := os.ReadFile(path)
	if err != nil {
		t.Fatal(err)
	}
	var plan kPlan
	if err := json.Unmarshal(b, &plan); err != nil {
		t.Fatal(err)
	}
	if n, _ := strconv.Atoi(os.Getenv("VERIF_CLUSTER_REPEAT")); n > 0 {
		// repeat until the named check fails (the client's own randomness makes runs differ)
		for i := 0; i < n; i++ {
			run := kRunPlan(t, plan)
			msg := dbgCheck(os.Getenv("VERIF_CLUSTER_CHECK"), plan, run)
			if msg != "" {
				t.Logf("run %d: %s", i, msg)
				dbgViews(t, plan, run)
				dbgDump(t, run)
				return
			}
		}
		t.Logf("no failure in %d runs", n)
		return
	}
	run := kRunPlan(t, plan)
	dbgDump(t, run)
}

type dbgFatal struct{ msg string }

func (d *dbgFatal) Fatalf(format string, args ...any) {
	d.msg = fmt.Sprintf(format, args...)
	panic(d)
}

func dbgCheck(which string, plan kPlan, run kRun) (msg string) {
	defer func() {
		if p := recover(); p != nil {
			if d, ok := p.(*dbgFatal); ok {
				msg = d.msg
				return
			}
			panic(p)
		}
	}()
	c := stat.For("DBG", which)
	f := &dbgFatal{}
	switch which {
	case "c20":
		c20Check(c, f, plan, run)
	case "c21":
		c21Check(c, f, plan, run)
	case "c28":
		c28Check(c, f, plan, run)
	default:
		c19Check(c, f, plan, run)
	}
	return ""
}

func dbgDump(t *testing.T, run kRun) {
	t.Logf("bubble: %s newclient=%q pending=%v closeOK=%v", run.Res, run.NewErr, run.PendingOps, run.CloseOK)
	if run.Res.Frozen && os.Getenv("VERIF_CLUSTER_STACKS") != "" {
		t.Log(run.Res.Goroutines)
	}
	for _, e := range run.Events {
		if e.Kind == "recv" || e.Kind == "reply" && os.Getenv("VERIF_CLUSTER_REPLIES") != "" || e.Kind == "close" || e.Kind == "open" {
			s := e.String()
			if len(s) > 300 {
				s = s[:300] + "..."
			}
			t.Log(s)
		}
	}
	for _, r := range run.Results {
		for i, rr := range r.Results {
			m, err := rr.ToMessage()
			t.Logf("caller %d op %d [%d] +%d..+%dus: %v %v", r.Caller, r.Op, i, r.StartUs, r.EndUs, m.String(), err)
		}
	}
}

func dbgViews(t *testing.T, plan kPlan, run kRun) {
	obs := kObserve(plan, run)
	for _, tp := range run.Taps {
		t.Logf("tap %s +%dus", tp.Key, tp.At)
	}
	for _, v := range obs.Views {
		t.Logf("view from %s sent +%dus answered +%dus", v.Server, v.SentAt, v.At)
	}
}
