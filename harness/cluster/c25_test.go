package cluster

// C25 for the cluster client: dedicated sessions (clusterClient.Dedicate / Dedicated) against a static fake
// cluster; the released / closed handles are used again while other sessions run on the recycled connections.

import (
	"context"
	"encoding/json"
	"errors"
	"fmt"
	"strconv"
	"strings"
	"sync"
	"testing"
	"time"

	"github.com/redis/rueidis"
	"pgregory.net/rapid"
	"verif/harness/sim"
	"verifkit/bubble"
	"verifkit/fakeredis"
	"verifkit/stat"
)

// ---------------------------------------------------------------- plan

type dStep struct {
	GapUs int    `json:"gap_us"`
	Kind  string `json:"kind"` // kset kecho watch multi tx-do tx-multi
	N     int    `json:"n,omitempty"`
}

type dStale struct {
	GapUs int    `json:"gap_us"`
	Kind  string `json:"kind"` // do domulti tx receive sethooks
}

type dSession struct {
	Mode    string   `json:"mode"` // dedicate | dedicated
	Slot    int      `json:"slot"`
	After   int      `json:"after"` // starts when that session has been released (-1: at StartUs after the plan's start)
	StartUs int      `json:"start_us"`
	Steps   []dStep  `json:"steps"`
	End     string   `json:"end"` // release | close (Close, the stale calls, then release) | close-release (Close, release, then the stale calls)
	Stale   []dStale `json:"stale,omitempty"`
}

type dBg struct {
	GapUs int `json:"gap_us"`
	Slot  int `json:"slot"`
}

type dPlan struct {
	Version    string     `json:"version"`
	Primaries  int        `json:"primaries"`
	Pipelining bool       `json:"pipelining"`
	RESP2      bool       `json:"resp2,omitempty"`
	BaseLatUs  int        `json:"base_lat_us"`
	Sessions   []dSession `json:"sessions"`
	Bg         []dBg      `json:"bg,omitempty"`
}

func (p dPlan) ownerAddr(slot int) string {
	per := (16384 + p.Primaries - 1) / p.Primaries
	return addrOf(slot/per, 0)
}

// dCmd is one command a session issues; Call groups the commands of one Do / DoMulti call.
type dCmd struct {
	Argv []string
	Step int
	Call int
	Want string   // "" = not compared | exact string
	Arr  []string // expected array (EXEC)
}

func dTag(si, n int) string { return "s" + strconv.Itoa(si) + "-" + strconv.Itoa(n) }

// dSessionOf: which session a command on the wire belongs to (-1: none, -2: shared background traffic).
func dSessionOf(argv []string) int {
	for _, a := range argv[1:] {
		if i := strings.Index(a, "}:"); i >= 0 {
			a = a[i+2:]
		}
		if strings.HasPrefix(a, "bg-") {
			return -2
		}
		if len(a) > 2 && a[0] == 's' {
			if j := strings.IndexByte(a, '-'); j > 1 {
				if n, err := strconv.Atoi(a[1:j]); err == nil {
					return n
				}
			}
		}
	}
	return -1
}

type dGen struct {
	p    dPlan
	si   int
	n    int
	call int
	out  []dCmd
}

func (g *dGen) uid() string { g.n++; return dTag(g.si, g.n) }

func (g *dGen) keyed(name string, slot int, inTx bool) (cm dCmd, reply string) {
	uid := g.uid()
	key := keyFor(slot, g.n%2)
	if g.n%3 == 0 {
		key = "x{" + key + "}" + strconv.Itoa(g.n%4)
	}
	reply = uid + "@" + g.p.ownerAddr(slot)
	cm = dCmd{Argv: []string{name, key, uid}, Call: g.call, Want: reply}
	if inTx {
		cm.Want = "QUEUED"
	}
	return cm, reply
}

func (g *dGen) tx(slot, n int, oneCall bool) {
	next := func() {
		if !oneCall {
			g.call++
		}
	}
	g.out = append(g.out, dCmd{Argv: []string{"MULTI"}, Call: g.call, Want: "OK"})
	next()
	var arr []string
	for k := 0; k < n; k++ {
		name := "KSET"
		if k%2 == 1 {
			name = "KECHO"
		}
		cm, reply := g.keyed(name, slot, true)
		g.out = append(g.out, cm)
		arr = append(arr, reply)
		next()
	}
	g.out = append(g.out, dCmd{Argv: []string{"EXEC"}, Call: g.call, Arr: arr})
}

// dSessionCmds: the commands of a session in the order the server must read them.
func dSessionCmds(p dPlan, si int) []dCmd {
	s := p.Sessions[si]
	g := &dGen{p: p, si: si}
	for sti, st := range s.Steps {
		from := len(g.out)
		switch st.Kind {
		case "kset", "kecho":
			cm, _ := g.keyed(strings.ToUpper(st.Kind), s.Slot, false)
			g.out = append(g.out, cm)
		case "watch":
			g.out = append(g.out, dCmd{Argv: []string{"WATCH", "{" + keyFor(s.Slot, 0) + "}:" + g.uid()}, Call: g.call, Want: "OK"})
		case "multi":
			for k := 0; k < st.N; k++ {
				name := "KECHO"
				if k%2 == 1 {
					name = "KSET"
				}
				cm, _ := g.keyed(name, s.Slot, false)
				g.out = append(g.out, cm)
			}
		case "tx-do":
			g.tx(s.Slot, st.N, false)
		case "tx-multi":
			g.tx(s.Slot, st.N, true)
		}
		for k := from; k < len(g.out); k++ {
			g.out[k].Step = sti
		}
		g.call++
	}
	return g.out
}

func dStaleTag(si, k int) string { return "s" + strconv.Itoa(si) + "-x" + strconv.Itoa(k) }

func genC25Plan(rt *rapid.T) dPlan {
	var p dPlan
	p.Version = rapid.SampledFrom([]string{"7.2.4", "8.0.1"}).Draw(rt, "version")
	p.Primaries = rapid.SampledFrom([]int{1, 1, 2, 3}).Draw(rt, "primaries")
	p.Pipelining = rapid.Bool().Draw(rt, "pipelining")
	p.RESP2 = rapid.IntRange(0, 7).Draw(rt, "resp2") == 0
	p.BaseLatUs = rapid.SampledFrom([]int{0, 20, 100, 400}).Draw(rt, "baseLat")
	// sessions meet on few slots, so that a released connection is handed to the next session of the node
	slots := []int{rapid.IntRange(0, 16383).Draw(rt, "slotA"), rapid.IntRange(0, 16383).Draw(rt, "slotB")}
	ns := rapid.SampledFrom([]int{1, 2, 2, 3, 3}).Draw(rt, "sessions")
	for si := 0; si < ns; si++ {
		s := dSession{
			Mode:  rapid.SampledFrom([]string{"dedicate", "dedicated"}).Draw(rt, "mode"),
			Slot:  slots[rapid.SampledFrom([]int{0, 0, 0, 0, 1}).Draw(rt, "slot")],
			After: -1,
			End:   rapid.SampledFrom([]string{"release", "release", "release", "close", "close-release"}).Draw(rt, "end"),
		}
		if si > 0 && rapid.IntRange(0, 3).Draw(rt, "chained") != 0 {
			s.After = rapid.IntRange(0, si-1).Draw(rt, "after")
			s.StartUs = rapid.SampledFrom([]int{0, 0, 1, 50, 300}).Draw(rt, "startAfter")
		} else {
			s.StartUs = rapid.IntRange(0, 1500).Draw(rt, "start")
		}
		nSteps := rapid.IntRange(0, 5).Draw(rt, "steps")
		if s.After >= 0 && nSteps == 0 {
			nSteps = 2 // a session that is handed a recycled connection uses it
		}
		for k := 0; k < nSteps; k++ {
			kinds := []string{"kset", "kecho", "watch", "multi", "tx-do", "tx-do", "tx-multi"}
			if k == 0 {
				// the first call binds the session to the node of its slot: a bare MULTI has no slot (callers WATCH first)
				kinds = []string{"kset", "kecho", "watch", "watch", "multi", "tx-multi"}
			}
			st := dStep{GapUs: rapid.SampledFrom([]int{0, 0, 10, 200, 900}).Draw(rt, "gap"), Kind: rapid.SampledFrom(kinds).Draw(rt, "step")}
			switch st.Kind {
			case "multi":
				st.N = rapid.IntRange(2, 4).Draw(rt, "n")
			case "tx-do", "tx-multi":
				st.N = rapid.IntRange(1, 3).Draw(rt, "n")
			}
			s.Steps = append(s.Steps, st)
		}
		nStale := rapid.IntRange(0, 4).Draw(rt, "stale")
		for k := 0; k < nStale; k++ {
			s.Stale = append(s.Stale, dStale{
				GapUs: rapid.SampledFrom([]int{0, 1, 1, 30, 250, 1000}).Draw(rt, "staleGap"),
				Kind:  rapid.SampledFrom([]string{"do", "do", "domulti", "tx", "receive", "sethooks"}).Draw(rt, "staleKind"),
			})
		}
		p.Sessions = append(p.Sessions, s)
	}
	nBg := rapid.IntRange(0, 4).Draw(rt, "bg")
	for k := 0; k < nBg; k++ {
		p.Bg = append(p.Bg, dBg{GapUs: rapid.IntRange(0, 1200).Draw(rt, "bgGap"), Slot: slots[rapid.IntRange(0, 1).Draw(rt, "bgSlot")]})
	}
	return p
}

// ---------------------------------------------------------------- run

type dRes struct {
	S        string
	A        []string
	IsArr    bool
	Err      string
	Recycled bool
}

func dResOf(r rueidis.RedisResult) (out dRes) {
	if err := r.Error(); err != nil {
		return dRes{Err: err.Error(), Recycled: errors.Is(err, rueidis.ErrDedicatedClientRecycled)}
	}
	m, _ := r.ToMessage()
	if m.IsArray() {
		out.IsArr = true
		vs, _ := m.ToArray()
		for _, v := range vs {
			s, err := v.ToString()
			if err != nil {
				s = "(" + err.Error() + ")"
			}
			out.A = append(out.A, s)
		}
		return out
	}
	s, err := m.ToString()
	if err != nil {
		return dRes{Err: "not a string: " + err.Error()}
	}
	return dRes{S: s}
}

type dStaleObs struct {
	AtUs    int64
	Done    bool
	Results []dRes // one per command of the call (receive / sethooks: one entry carrying the error)
}

type dSessObs struct {
	Started  bool
	Results  []dRes
	Issued   int
	EndedUs  int64 // the instant the first of Close / release returned
	Ended    bool
	Stale    []*dStaleObs
	Finished bool
}

type dRun struct {
	Res     bubble.Result
	NewErr  string
	Sess    []*dSessObs
	Events  []fakeredis.Event
	Pending []string
	Bg      []dRes
}

func dRunPlan(t *testing.T, plan dPlan) (run dRun) {
	var mu sync.Mutex
	cmdsOf := make([][]dCmd, len(plan.Sessions))
	for si, s := range plan.Sessions {
		cmdsOf[si] = dSessionCmds(plan, si)
		o := &dSessObs{Results: make([]dRes, len(cmdsOf[si]))}
		for range s.Stale {
			o.Stale = append(o.Stale, &dStaleObs{})
		}
		run.Sess = append(run.Sess, o)
	}
	run.Bg = make([]dRes, len(plan.Bg))
	ring := queueLabel() == "ring"
	run.Res = bubble.Run(t, func() {
		w := fakeredis.NewWorld()
		cl := fakeredis.NewCluster(w)
		per := (16384 + plan.Primaries - 1) / plan.Primaries
		var init []string
		for i := 0; i < plan.Primaries; i++ {
			s := w.NewServer(addrOf(i, 0))
			s.Version = plan.Version
			s.Hooks.Latency = func(c *fakeredis.Conn, req int, argv []string) time.Duration {
				if kLatencyZero(argv) || strings.EqualFold(argv[0], "CLUSTER") || c.BurstIdx != 0 {
					return 0
				}
				return time.Duration(plan.BaseLatUs) * time.Microsecond
			}
			idx := cl.AddShard(s)
			cl.AssignSlots(i*per, min(16383, (i+1)*per-1), idx)
			init = append(init, s.Addr)
		}
		opt := sim.Option(w, init[0])
		opt.AlwaysPipelining = plan.Pipelining
		opt.PipelineMultiplex = -1
		if ring {
			opt.WriteBufferEachConn = 1 << 20
		}
		if plan.RESP2 {
			opt.AlwaysRESP2 = true
			opt.DisableCache = true
		}
		opt.RetryDelay = func(attempts int, _ rueidis.Completed, _ error) time.Duration {
			if attempts > 3 {
				return -1
			}
			return 300 * time.Microsecond
		}
		client, err := rueidis.NewClient(opt)
		if err != nil {
			run.NewErr = err.Error()
			if client != nil {
				client.Close()
			}
			w.Stop()
			time.Sleep(10 * time.Second)
			return
		}
		build := func(b rueidis.Builder, argv []string) rueidis.Completed {
			switch argv[0] {
			case "MULTI":
				return b.Multi().Build()
			case "EXEC":
				return b.Exec().Build()
			case "WATCH":
				return b.Watch().Key(argv[1]).Build()
			case "KECHO":
				return b.Arbitrary("KECHO").Keys(argv[1]).Args(argv[2]).ReadOnly()
			case "SUBSCRIBE":
				return b.Subscribe().Channel(argv[1]).Build()
			}
			return b.Arbitrary(argv[0]).Keys(argv[1]).Args(argv[2:]...).Build()
		}
		released := make([]chan struct{}, len(plan.Sessions))
		for i := range released {
			released[i] = make(chan struct{})
		}
		var wg sync.WaitGroup
		for si := range plan.Sessions {
			wg.Add(1)
			go func(si int) {
				defer wg.Done()
				s := plan.Sessions[si]
				o := run.Sess[si]
				cmds := cmdsOf[si]
				if s.After >= 0 {
					<-released[s.After]
				}
				time.Sleep(time.Duration(s.StartUs) * time.Microsecond)
				var once sync.Once
				ended := func() {
					once.Do(func() {
						mu.Lock()
						o.EndedUs, o.Ended = w.Since(), true
						mu.Unlock()
						close(released[si])
					})
				}
				stale := func(dc rueidis.DedicatedClient) {
					for k, sc := range s.Stale {
						time.Sleep(time.Duration(sc.GapUs) * time.Microsecond)
						so := o.Stale[k]
						mu.Lock()
						so.AtUs = w.Since()
						mu.Unlock()
						tag := dStaleTag(si, k)
						key := keyFor(s.Slot, k%2)
						var res []dRes
						switch sc.Kind {
						case "do":
							res = []dRes{dResOf(dc.Do(context.Background(), build(dc.B(), []string{"KSET", key, tag})))}
						case "domulti":
							for _, r := range dc.DoMulti(context.Background(), build(dc.B(), []string{"KECHO", key, tag}), build(dc.B(), []string{"KSET", key, tag})) {
								res = append(res, dResOf(r))
							}
						case "tx":
							for _, r := range dc.DoMulti(context.Background(), dc.B().Multi().Build(), build(dc.B(), []string{"KSET", key, tag}), dc.B().Exec().Build()) {
								res = append(res, dResOf(r))
							}
						case "receive":
							ctx, cancel := context.WithTimeout(context.Background(), 2*time.Millisecond)
							err := dc.Receive(ctx, build(dc.B(), []string{"SUBSCRIBE", tag}), func(rueidis.PubSubMessage) {})
							cancel()
							r := dRes{Err: fmt.Sprint(err), Recycled: errors.Is(err, rueidis.ErrDedicatedClientRecycled)}
							res = []dRes{r}
						case "sethooks":
							ch := dc.SetPubSubHooks(rueidis.PubSubHooks{OnMessage: func(rueidis.PubSubMessage) {}})
							r := dRes{Err: "no error on the returned channel"}
							if ch == nil {
								r.Err = "nil channel"
							} else {
								select {
								case err, ok := <-ch:
									if ok {
										r = dRes{Err: fmt.Sprint(err), Recycled: errors.Is(err, rueidis.ErrDedicatedClientRecycled)}
									} else {
										r.Err = "channel closed without an error"
									}
								case <-time.After(2 * time.Millisecond):
								}
							}
							res = []dRes{r}
						}
						mu.Lock()
						so.Results, so.Done = res, true
						mu.Unlock()
					}
				}
				body := func(dc rueidis.DedicatedClient) {
					mu.Lock()
					o.Started = true
					mu.Unlock()
					step := -1
					for ci := 0; ci < len(cmds); {
						if cmds[ci].Step != step {
							step = cmds[ci].Step
							time.Sleep(time.Duration(s.Steps[step].GapUs) * time.Microsecond)
						}
						n := 1
						for ci+n < len(cmds) && cmds[ci+n].Call == cmds[ci].Call {
							n++
						}
						var rs []dRes
						if n == 1 {
							rs = []dRes{dResOf(dc.Do(context.Background(), build(dc.B(), cmds[ci].Argv)))}
						} else {
							multi := make(rueidis.Commands, n)
							for k := 0; k < n; k++ {
								multi[k] = build(dc.B(), cmds[ci+k].Argv)
							}
							for _, r := range dc.DoMulti(context.Background(), multi...) {
								rs = append(rs, dResOf(r))
							}
						}
						mu.Lock()
						copy(o.Results[ci:], rs)
						ci += n
						o.Issued = ci
						mu.Unlock()
					}
				}
				var handle rueidis.DedicatedClient
				switch s.Mode {
				case "dedicate":
					dc, cancel := client.Dedicate()
					handle = dc
					body(dc)
					switch s.End {
					case "release":
						cancel()
						ended()
						stale(dc)
					case "close":
						dc.Close()
						ended()
						stale(dc)
						cancel()
					case "close-release":
						dc.Close()
						ended()
						cancel()
						stale(dc)
					}
				case "dedicated":
					_ = client.Dedicated(func(dc rueidis.DedicatedClient) error {
						handle = dc
						body(dc)
						switch s.End {
						case "close":
							dc.Close()
							ended()
							stale(dc)
						case "close-release":
							dc.Close()
							ended()
						}
						return nil
					})
					ended()
					if s.End != "close" {
						stale(handle)
					}
				}
				mu.Lock()
				o.Finished = true
				mu.Unlock()
			}(si)
		}
		if len(plan.Bg) > 0 {
			wg.Add(1)
			go func() {
				defer wg.Done()
				for k, b := range plan.Bg {
					time.Sleep(time.Duration(b.GapUs) * time.Microsecond)
					r := dResOf(client.Do(context.Background(), client.B().Arbitrary("KSET").Keys(keyFor(b.Slot, 0)).Args("bg-"+strconv.Itoa(k)).Build()))
					mu.Lock()
					run.Bg[k] = r
					mu.Unlock()
				}
			}()
		}
		finished := sim.WaitTimeout(&wg, time.Minute)
		mu.Lock()
		if !finished {
			for si, o := range run.Sess {
				if !o.Finished {
					run.Pending = append(run.Pending, fmt.Sprintf("session %d (issued %d commands, ended=%v)", si, o.Issued, o.Ended))
				}
			}
		}
		mu.Unlock()
		sim.CallTimeout(time.Minute, client.Close)
		time.Sleep(2 * time.Second)
		w.Stop()
		run.Events = w.Snapshot()
		if !finished {
			sim.WaitTimeout(&wg, time.Minute)
		}
		time.Sleep(15 * time.Second)
	})
	return
}

// ---------------------------------------------------------------- oracle

type dReq struct {
	Server string
	Conn   int
	Req    int
	Argv   []string
	At     int64
	Sess   int
}

func c25ClusterCheck(c *stat.Collector, rt stat.Fataler, plan dPlan, run dRun) (nt bool, classes []string) {
	cls := map[string]bool{}
	if len(run.Pending) > 0 || run.Res.Deadlock {
		c.Fail(rt, "C25.cluster-no-hang", fmt.Sprintf("sessions never finished: %v (%s)", run.Pending, run.Res), plan)
	}
	if run.Res.Panic != nil {
		c.Fail(rt, "C25.cluster-no-panic", run.Res.String(), plan)
	}
	conns := map[string][]*dReq{}
	var all []*dReq
	for i := range run.Events {
		e := &run.Events[i]
		if e.Kind != "recv" || len(e.Argv) == 0 {
			continue
		}
		r := &dReq{Server: e.Server, Conn: e.Conn, Req: e.Req, Argv: e.Argv, At: e.At, Sess: dSessionOf(e.Argv)}
		key := e.Server + "/" + strconv.Itoa(e.Conn)
		conns[key] = append(conns[key], r)
		all = append(all, r)
	}
	show := func(rs []*dReq) string {
		var b []string
		for _, r := range rs {
			b = append(b, fmt.Sprintf("r%d+%dus %s", r.Req, r.At, strings.Join(r.Argv, " ")))
		}
		return strings.Join(b, " | ")
	}
	type block struct {
		key      string
		from, to int   // indexes into conns[key]
		t0, t1   int64 // arrival of the first and the last command
	}
	blocks := map[int]block{}
	for si, s := range plan.Sessions {
		o := run.Sess[si]
		cmds := dSessionCmds(plan, si)
		if !o.Finished {
			continue
		}
		where := fmt.Sprintf("session %d (%s, slot %d, ended by %s at +%dus)", si, s.Mode, s.Slot, s.End, o.EndedUs)
		// (1) every call on the handle after release / Close returned is rejected
		for k, so := range o.Stale {
			if !so.Done {
				continue
			}
			cls["stale-"+s.Stale[k].Kind+"-after-"+s.End] = true
			for j, r := range so.Results {
				if !r.Recycled {
					got := r.Err
					if got == "" {
						got = fmt.Sprintf("the reply %q %q", r.S, r.A)
					}
					c.Fail(rt, "C25.cluster-recycled-rejects", fmt.Sprintf("%s: stale call %d (%s, tag %s) at +%dus, result %d: want ErrDedicatedClientRecycled, got %s", where, k, s.Stale[k].Kind, dStaleTag(si, k), so.AtUs, j, got), plan)
				}
			}
		}
		// (2) nothing of the session reaches a server at an instant later than the one its release / Close returned at
		var own []*dReq
		for _, r := range all {
			if r.Sess != si {
				continue
			}
			if r.At > o.EndedUs {
				c.Fail(rt, "C25.cluster-nothing-after-release", fmt.Sprintf("%s: %s/c%d read %v at +%dus", where, r.Server, r.Conn, r.Argv, r.At), plan)
			}
			own = append(own, r)
		}
		// (3) the session's commands are one contiguous block on one connection, in the order issued
		if len(cmds) > 0 {
			firstTagged := -1
			for k, cm := range cmds {
				if dSessionOf(cm.Argv) == si {
					firstTagged = k
					break
				}
			}
			if len(own) == 0 {
				c.Fail(rt, "C25.cluster-contiguous-block", fmt.Sprintf("%s: none of its %d commands reached a server", where, len(cmds)), plan)
			}
			key := own[0].Server + "/" + strconv.Itoa(own[0].Conn)
			for _, r := range own {
				if k := r.Server + "/" + strconv.Itoa(r.Conn); k != key {
					c.Fail(rt, "C25.cluster-one-connection", fmt.Sprintf("%s: its commands arrived on %s and on %s", where, key, k), plan)
				}
			}
			reqs := conns[key]
			pos := -1
			for i, r := range reqs {
				if r == own[0] {
					pos = i
				}
			}
			from := pos - firstTagged
			ok := from >= 0 && from+len(cmds) <= len(reqs)
			for k := 0; ok && k < len(cmds); k++ {
				ok = strings.Join(reqs[from+k].Argv, " ") == strings.Join(cmds[k].Argv, " ")
			}
			if !ok {
				var want []string
				for _, cm := range cmds {
					want = append(want, strings.Join(cm.Argv, " "))
				}
				lo, hi := max(0, from-1), min(len(reqs), max(from, 0)+len(cmds)+3)
				c.Fail(rt, "C25.cluster-contiguous-block", fmt.Sprintf("%s issued %v; connection %s read around it: %s", where, want, key, show(reqs[lo:hi])), plan)
			}
			blocks[si] = block{key: key, from: from, to: from + len(cmds) - 1, t0: reqs[from].At, t1: reqs[from+len(cmds)-1].At}
			if from > 0 {
				for _, r := range reqs[:from] {
					if r.Sess >= 0 && r.Sess != si {
						cls["connection-used-by-an-earlier-session"] = true
					}
				}
			}
			// (4) every reply is the reply to the session's own command; EXEC ran exactly the session's own members
			for k, cm := range cmds {
				got := o.Results[k]
				switch {
				case cm.Arr != nil:
					if got.Err != "" || !got.IsArr || strings.Join(got.A, ",") != strings.Join(cm.Arr, ",") {
						c.Fail(rt, "C25.cluster-own-replies", fmt.Sprintf("%s: EXEC (command %d) returned %q err=%q, its transaction should have run exactly %q", where, k, got.A, got.Err, cm.Arr), plan)
					}
				case cm.Want != "":
					if got.Err != "" || got.IsArr || got.S != cm.Want {
						c.Fail(rt, "C25.cluster-own-replies", fmt.Sprintf("%s: command %d %v returned %q err=%q, want %q", where, k, cm.Argv, got.S, got.Err, cm.Want), plan)
					}
				}
			}
			for _, cm := range cmds {
				if cm.Argv[0] == "MULTI" {
					cls["session-with-transaction"] = true
				}
				if cm.Argv[0] == "WATCH" {
					cls["session-with-watch"] = true
				}
			}
		} else {
			cls["session-without-commands"] = true
		}
		cls["mode-"+s.Mode] = true
		cls["end-"+s.End] = true
	}
	// no foreign command inside a block is implied by (3); was the check meaningful: did the stale calls of one session
	// happen while another session was using the connection the first one had given back?
	for si := range plan.Sessions {
		bi, ok := blocks[si]
		if !ok {
			continue
		}
		for k, so := range run.Sess[si].Stale {
			if !so.Done {
				continue
			}
			cls["stale-call-on-a-session-that-had-a-connection"] = true
			if so.AtUs > run.Sess[si].EndedUs {
				cls["stale-call-at-a-later-instant"] = true
			}
			for sj, bj := range blocks {
				if sj != si && bj.key == bi.key && bj.from > bi.to && bj.t0 <= so.AtUs && so.AtUs <= bj.t1 {
					cls["stale-call-while-connection-serves-another-session"] = true
					if k := plan.Sessions[si].Stale[k].Kind; k != "sethooks" {
						cls["stale-command-call-while-connection-serves-another-session"] = true
					}
				}
			}
		}
	}
	for k, b := range plan.Bg {
		if r := run.Bg[k]; r.Err != "" || r.S != "bg-"+strconv.Itoa(k)+"@"+plan.ownerAddr(b.Slot) {
			c.Fail(rt, "C25.cluster-own-replies", fmt.Sprintf("shared-connection command %d returned %q err=%q", k, r.S, r.Err), plan)
		}
	}
	if len(plan.Bg) > 0 {
		cls["shared-traffic"] = true
	}
	for k := range cls {
		classes = append(classes, k)
	}
	nt = cls["stale-call-on-a-session-that-had-a-connection"]
	return nt, classes
}

func TestVerif_C25_ClusterDedicated(t *testing.T) {
	c := stat.For("C25", "cluster-dedicated-"+queueLabel()).Rule("timed plans in a synctest bubble, cluster client against a static fake cluster of 1-3 primaries (CLUSTER SLOTS or SHARDS), synchronous or pipelined mode, RESP3 or RESP2: 1-3 dedicated sessions (client.Dedicate() or client.Dedicated(fn)) on 1-2 slots, started at generated instants or when an earlier session has been released (so that it is handed the recycled connection); steps of one slot each from {KSET, KECHO, WATCH, DoMulti of 2-4 keyed commands, MULTI/1-3 keyed commands/EXEC through separate Do calls or one DoMulti}, every keyed command tagged with its session, generated pauses; ended by release, by Close (stale calls made before the final release) or by Close + release; afterwards 0-4 calls on the stale handle {Do, DoMulti, DoMulti of MULTI/KSET/EXEC, Receive with a deadline, SetPubSubHooks} with pauses of 0-1000 us, while later sessions and shared-connection commands run; oracle from the per-node logs and the results: every call made after release / Close returned yields ErrDedicatedClientRecycled, no command tagged with a session is read by any server connection at an instant later than the one its release / Close returned at, the commands of a session are read by one connection as one contiguous block in the order issued (nothing foreign inside, MULTI/EXEC included), every reply is the reply to the session's own command and EXEC ran exactly the session's members; no hang; non-trivial = a call on the stale handle of a session that had bound a connection")
	defer c.Flush()
	rapid.Check(t, func(rt *rapid.T) {
		plan := genC25Plan(rt)
		saveCase("c25cluster", plan)
		run := dRunPlan(t, plan)
		if run.Res.Frozen {
			c.Inconclusive("virtual-clock-freeze")
			return
		}
		if run.NewErr != "" {
			c.Inconclusive("new-client-failed")
			return
		}
		nt, classes := c25ClusterCheck(c, rt, plan, run)
		c.Eval(nt, planKey2(plan), classes...)
		c.Sample(nt, func() any { return plan })
	})
}

func planKey2(p dPlan) string {
	b, _ := json.Marshal(p)
	return string(b)
}
