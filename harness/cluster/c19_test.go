package cluster

import (
	"errors"
	"fmt"
	"strconv"
	"testing"
	"time"

	"github.com/redis/rueidis"
	"pgregory.net/rapid"
	"verif/harness/sim"
	"verifkit/stat"
)

func genC19Plan(rt *rapid.T) kPlan {
	var p kPlan
	p.Topo = genTopo(rt, kGenOpt{Bias: "c19"})
	p.Cfg = genCfg(rt)
	p.Cfg.RESP2 = rapid.IntRange(0, 9).Draw(rt, "resp2") == 0
	g := &kGen{rt: rt}
	g.slots = genSlots(rt, p.Topo, rapid.IntRange(2, 5).Draw(rt, "nSlots"), true)
	nc := rapid.IntRange(1, 3).Draw(rt, "callers")
	for c := 0; c < nc; c++ {
		no := rapid.IntRange(1, 5).Draw(rt, "ops")
		var ops []kOp
		for i := 0; i < no; i++ {
			op := kOp{GapUs: genGap(rt), Kind: rapid.SampledFrom([]string{"do", "do", "do", "do", "cache", "cache", "multi", "multi", "multicache"}).Draw(rt, "kind")}
			switch op.Kind {
			case "do":
				cm := g.cmd([]string{"kecho", "kecho", "kset", "get"}, g.slot())
				g.script(&cm, 8)
				op.Items = []kItem{{Cmds: []kCmd{cm}}}
			case "cache":
				cm := g.cmd([]string{"get"}, g.slot())
				g.script(&cm, 10)
				op.Items = []kItem{{Cmds: []kCmd{cm}}}
			case "multi":
				n := rapid.IntRange(1, 4).Draw(rt, "n")
				for k := 0; k < n; k++ {
					cm := g.cmd([]string{"kecho", "kecho", "kset", "get"}, g.slot())
					g.script(&cm, 10)
					op.Items = append(op.Items, kItem{Cmds: []kCmd{cm}})
				}
			case "multicache":
				n := rapid.IntRange(1, 4).Draw(rt, "n")
				for k := 0; k < n; k++ {
					op.Items = append(op.Items, kItem{Cmds: []kCmd{g.cmd([]string{"get"}, g.slot())}})
				}
			}
			ops = append(ops, op)
		}
		p.Callers = append(p.Callers, ops)
	}
	var unhealed, kills bool
	p.Events, unhealed, kills = genEvents(rt, p.Topo, g, []string{"move", "move", "move", "migrate", "migrate", "migrate", "loop", "loop", "kill", "unassign", "health"}, 4, 12000)
	for ci := range p.Callers {
		for oi := range p.Callers[ci] {
			op := &p.Callers[ci][oi]
			switch {
			case unhealed && p.Cfg.MaxRedir == 0:
				op.DeadlineUs = rapid.IntRange(5000, 60000).Draw(rt, "deadline")
			case kills && rapid.Bool().Draw(rt, "deadlineOnKill"), rapid.IntRange(0, 9).Draw(rt, "deadlineAnyway") == 0:
				op.DeadlineUs = rapid.IntRange(2000, 200000).Draw(rt, "deadline")
			}
		}
	}
	return p
}

// kFaulty: calls may end with transport or context errors that no reply in the log explains.
func kFaulty(plan kPlan, run kRun) (faulty bool, deadlineFired bool) {
	for _, e := range plan.Events {
		if e.Kind == "kill" {
			faulty = true
		}
	}
	for _, r := range run.Results {
		for _, rr := range r.Results {
			if err := rr.NonRedisError(); err != nil && isCtxErr(err) {
				deadlineFired = true
			}
		}
	}
	return faulty || deadlineFired, deadlineFired
}

// kOwnReply checks that result rr of a command is the reply the servers gave to the command's last
// send (err: description of the mismatch).
func kOwnReply(plan kPlan, obs *kObs, op *kOp, r *kResult, pos kPos, rr rueidis.RedisResult, faulty bool) (clause, detail string) {
	nre := rr.NonRedisError()
	if nre != nil && !sim.IsReplyError(nre) { // the cache paths hand error replies over as errors
		if errors.Is(nre, rueidis.ErrDoCacheAborted) && pos.Role == "cmd" {
			// a topology event between the PTTL and the GET of the client's cache transaction (they travel in one burst,
			// but the server may take time between them): PTTL was refused, GET was queued, EXEC aborted, and there is
			// no reply to the GET itself that could be handed over. A tie between a command and an event: accepted.
			if ss := obs.Sends[pos.Cmd.UID]; len(ss) > 0 {
				last := ss[len(ss)-1]
				if last.Span != nil && last.R.Reply != nil && !last.R.Reply.IsErr() && last.Span.Exec != nil && last.Span.Exec.Reply != nil && last.Span.Exec.Reply.IsErr() {
					return "", ""
				}
			}
		}
		switch {
		case isCtxErr(nre) && op.DeadlineUs > 0, faulty:
			return "", ""
		case errors.Is(nre, rueidis.ErrNoSlot):
			// legitimate when a topology answer the client held during the call does not list the slot of the
			// command, or of another command of the same batch (a batch is routed as a whole and fails as a whole)
			for _, it := range op.Items {
				for _, cm := range it.Cmds {
					if _, _, unowned := obs.primaryCandidates(cm.Slot, r.StartUs, r.EndUs); unowned {
						return "", ""
					}
				}
			}
			if pos.Cmd == nil {
				return "", ""
			}
			return "no-slot", fmt.Sprintf("ErrNoSlot although every topology answer held during the call lists slot %d", pos.Cmd.Slot)
		}
		return "unexpected-error", fmt.Sprintf("failed with %v although no node was killed and no deadline fired", nre)
	}
	switch pos.Role {
	case "cmd":
		ss := obs.Sends[pos.Cmd.UID]
		if len(ss) == 0 {
			return "own-reply", "the call returned a reply but the command never reached a server"
		}
		last := ss[len(ss)-1]
		want := last.Eff
		if pos.Block != nil {
			want = last.R.Reply // inside a caller's transaction the position holds QUEUED or the queueing error
		}
		if want == nil {
			if faulty {
				return "", ""
			}
			return "own-reply", "the call returned a reply but the server log has none for the last send: " + describeSends(ss)
		}
		if err := sim.MatchResult(rr, *want); err != nil {
			return "own-reply", fmt.Sprintf("%v; sends: %s", err, describeSends(ss))
		}
	case "multi", "exec":
		// the reply of the last attempt of the block
		var lastSpan *kSpan
		for _, sp := range obs.Spans {
			for _, m := range sp.Members {
				if u := uidOf(m.Argv); u != "" && len(pos.Block.Cmds) > 0 && u == pos.Block.Cmds[0].UID {
					lastSpan = sp
				}
			}
		}
		if len(pos.Block.Cmds) == 0 {
			return "", "" // an empty transaction cannot be told apart in the log
		}
		if lastSpan == nil {
			return "own-reply", "the transaction never reached a server although " + pos.Role + " has a reply"
		}
		req := lastSpan.Multi
		if pos.Role == "exec" {
			req = lastSpan.Exec
		}
		if req == nil || req.Reply == nil {
			if faulty {
				return "", ""
			}
			return "own-reply", "no logged reply for " + pos.Role + " of the last attempt"
		}
		if err := sim.MatchResult(rr, *req.Reply); err != nil {
			return "own-reply", fmt.Sprintf("%s of block %s: %v", pos.Role, pos.Block.ID, err)
		}
	}
	return "", ""
}

func c19Check(c *stat.Collector, rt stat.Fataler, plan kPlan, run kRun) (nt bool, classes []string) {
	cls := map[string]bool{}
	if run.Pending > 0 || run.Res.Deadlock {
		c.Fail(rt, "C19.no-hang", fmt.Sprintf("%d calls never returned %v (%s)", run.Pending, run.PendingOps, run.Res), plan)
	}
	if run.Res.Panic != nil {
		c.Fail(rt, "C19.no-panic", run.Res.String(), plan)
	}
	obs := kObserve(plan, run)
	faulty, _ := kFaulty(plan, run)
	m := plan.Cfg.MaxRedir
	topoChanged := false
	if len(obs.Views) > 0 {
		first := obs.Views[0]
		for _, v := range obs.Views[1:] {
			if fmt.Sprint(v.Ranges) != fmt.Sprint(first.Ranges) {
				topoChanged = true
			}
		}
	}
	if plan.Topo.Version[0] >= '8' {
		cls["topology-from-shards"] = true
	} else {
		cls["topology-from-slots"] = true
	}
	for ci := range plan.Callers {
		for oi := range plan.Callers[ci] {
			op := &plan.Callers[ci][oi]
			r := run.result(plan, ci, oi)
			if !r.Done {
				continue
			}
			where := fmt.Sprintf("caller %d op %d (%s)", ci, oi, op.Kind)
			pos := op.positions()
			if len(r.Results) != len(pos) {
				c.Fail(rt, "C19.final-reply", fmt.Sprintf("%s returned %d results for %d commands", where, len(r.Results), len(pos)), plan)
			}
			batchFollowed, batchLimitErr := 0, false
			for pi, p := range pos {
				if p.Role != "cmd" {
					continue
				}
				cm := p.Cmd
				ss := obs.Sends[cm.UID]
				rr := r.Results[pi]
				what := fmt.Sprintf("%s command %s %v (slot %d)", where, cm.UID, cm.argv(), cm.Slot)
				// (1) first send goes to the primary of the slot in the topology the client learned
				if len(ss) > 0 {
					s0 := ss[0]
					prims, _, _ := obs.primaryCandidates(cm.Slot, r.StartUs, s0.R.At)
					if !prims[s0.R.Server] {
						views, _ := obs.candidateViews(r.StartUs, s0.R.At)
						desc := ""
						for _, v := range views {
							desc += fmt.Sprintf(" [+%dus from %s: %v]", v.At, v.Server, v.nodesOf(cm.Slot))
						}
						c.Fail(rt, "C19.first-send-primary", fmt.Sprintf("%s issued at +%dus was first sent to %s at +%dus; the topology answers the client held list for the slot:%s (MOVED-learned owners included: %v)",
							what, r.StartUs, s0.R.Server, s0.R.At, desc, keysOf(prims)), plan)
					}
					if topoChanged && len(obs.Views) > 0 {
						if ns := obs.Views[0].nodesOf(cm.Slot); len(ns) == 0 || ns[0] != s0.R.Server {
							cls["routed-by-later-topology"] = true
						}
					}
				}
				// (2) redirects: MOVED -> next send at the named node; ASK -> named node, right after ASKING
				for i := 0; i+1 < len(ss); i++ {
					kind, addr, _ := isRedirect(ss[i].Eff)
					if kind == "" {
						continue
					}
					cls[map[string]string{"MOVED": "moved", "ASK": "ask"}[kind]] = true
					if faulty || ss[i].R.Doubtful {
						// a killed node or a fired deadline closes connections under other calls: the send that followed
						// the redirect may have been lost on such a connection and the log would show a later retry instead
						cls["redirect-in-faulty-plan"] = true
						continue
					}
					next := ss[i+1]
					if next.R.Server != addr {
						c.Fail(rt, "C19."+map[string]string{"MOVED": "moved", "ASK": "ask"}[kind]+"-resend", fmt.Sprintf("%s: after -%s to %s the next send went to %s; sends: %s", what, kind, addr, next.R.Server, describeSends(ss)), plan)
					}
					if kind == "ASK" && !next.Asked {
						c.Fail(rt, "C19.ask-asking", fmt.Sprintf("%s: the send that follows -ASK is not preceded by ASKING on its connection; sends: %s", what, describeSends(ss)), plan)
					}
				}
				if len(ss) > 0 {
					if kind, _, _ := isRedirect(ss[len(ss)-1].Eff); kind != "" {
						cls["last-reply-is-redirect"] = true
					}
				}
				// (3) the caller gets the final reply
				if clause, detail := kOwnReply(plan, obs, op, r, p, rr, faulty); clause != "" {
					name := "C19.final-reply"
					if clause == "no-slot" || clause == "unexpected-error" {
						name = "C19." + clause
					}
					c.Fail(rt, name, what+": "+detail, plan)
				}
				// (4) redirect limit
				n, chain := followed(ss)
				if n >= 2 {
					cls["redirect-chain>=2"] = true
				}
				if n >= 1 {
					cls["redirected"] = true
				}
				if m > 0 && n > m {
					c.Fail(rt, "C19.redirect-limit", fmt.Sprintf("%s followed %d redirects with MaxMovedRedirections=%d: %v", what, n, m, chain), plan)
				}
				batchFollowed += n
				if err := rr.Error(); err != nil && isRedirectErr(err) {
					cls["returned-redirect-error"] = true
					if len(pos) == 1 {
						switch {
						case faulty:
						case m == 0:
							c.Fail(rt, "C19.redirect-followed", fmt.Sprintf("%s returned the redirect %v although MaxMovedRedirections is 0 (unlimited): %v", what, err, chain), plan)
						case n != m:
							c.Fail(rt, "C19.redirect-followed", fmt.Sprintf("%s returned the redirect %v after following %d redirects, MaxMovedRedirections=%d allows %d: %v", what, err, n, m, m, chain), plan)
						default:
							cls["limit-reached"] = true
						}
					} else {
						batchLimitErr = true
					}
				}
			}
			if batchLimitErr && !faulty {
				switch {
				case m == 0:
					c.Fail(rt, "C19.redirect-followed", fmt.Sprintf("%s returned a redirect error although MaxMovedRedirections is 0 (unlimited)", where), plan)
				case batchFollowed < m:
					c.Fail(rt, "C19.redirect-followed", fmt.Sprintf("%s returned a redirect error after following %d redirects in the whole batch, MaxMovedRedirections=%d", where, batchFollowed, m), plan)
				default:
					cls["limit-reached"] = true
				}
			}
			if len(pos) > 1 {
				cls["batch"] = true
			}
			if op.Kind == "cache" || op.Kind == "multicache" {
				cls["cache-call"] = true
			}
		}
	}
	for _, e := range plan.Events {
		cls["event-"+e.Kind] = true
	}
	if topoChanged {
		cls["topology-change-learned"] = true
	}
	if faulty {
		cls["faulty"] = true
	}
	for _, mv := range obs.Moved {
		known := false
		for _, v := range obs.Views {
			for _, r := range v.Ranges {
				for _, n := range r.Nodes {
					if n == mv.Addr && v.At <= mv.At {
						known = true
					}
				}
			}
		}
		if !known {
			cls["moved-to-unknown-node"] = true
		}
	}
	for k := range cls {
		classes = append(classes, k)
	}
	nt = cls["redirect-chain>=2"] || cls["routed-by-later-topology"]
	return nt, classes
}

func TestVerif_C19_Routing(t *testing.T) {
	c := stat.For("C19", "routing-"+queueLabel()).Rule("timed plans in a synctest bubble against the cluster personality of the fake server: 2-5 primaries x 0-2 replicas (+ optional spare shard), slot ranges with holes, CLUSTER SLOTS or CLUSTER SHARDS by server version, replicas with ?/null endpoints or fail/loading health; 1-3 callers x 1-5 Do/DoCache/DoMulti/DoMultiCache calls of uniquely tagged keyed commands (plain and hash-tag keys) over 2-5 slots; events at generated instants: slot(s) moved to another shard (known or spare), slot migration with a generated set of already moved keys (ASK) then finished/aborted, two nodes with contradicting views (redirect loop) healed or not, node kill + failover, slot unassigned, replica health change; scripted TRYAGAIN/LOADING/CLUSTERDOWN answers; MaxMovedRedirections 0-3; oracle from the servers' logs: first send of every command goes to the primary listed for its slot in a topology answer the client held when it issued the command (answers parsed by the test; owners named by a MOVED since then included), after -MOVED the next send is at the named node, after -ASK at the named node right after ASKING on the same connection, the result is the reply to the last send, at most MaxMovedRedirections redirects are followed and a redirect error is only returned when exactly that many were followed; no hang. non-trivial = a command that followed >= 2 redirects, or a command first routed by a topology learned during the plan")
	defer c.Flush()
	rapid.Check(t, func(rt *rapid.T) {
		plan := genC19Plan(rt)
		if plan.askCacheWithoutCache() && c.Known("C19.docache-ask-nocache-panic") {
			plan.Cfg.RESP2 = false
		}
		saveCase("c19", plan)
		t0 := time.Now()
		run := kRunPlan(t, plan)
		kSlow("c19", plan, t0)
		if run.Res.Frozen {
			c.Inconclusive("virtual-clock-freeze")
			return
		}
		if run.NewErr != "" {
			c.Inconclusive("new-client-failed")
			return
		}
		nt, classes := c19Check(c, rt, plan, run)
		c.Eval(nt, planKey(plan), classes...)
		c.Sample(nt, func() any { return plan })
	})
}

var _ = strconv.Itoa
