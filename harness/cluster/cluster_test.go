// Package cluster holds the black-box checks of the rueidis cluster client (C19 routing, C20 batches
// and transactions, C21 replica routing): generated timed plans against the cluster personality
// of the fake server (verifkit/fakeredis.Cluster) inside a testing/synctest bubble. This file is
// the shared part: plan types, generators, the runner and the observations derived from the
// servers' event log.
package cluster

import (
	"bytes"
	"context"
	"crypto/tls"
	"encoding/json"
	"errors"
	"fmt"
	"io"
	"net"
	"os"
	"path/filepath"
	"sort"
	"strconv"
	"strings"
	"sync"
	"testing"
	"time"

	"github.com/redis/rueidis"
	"pgregory.net/rapid"
	"verif/harness/sim"
	"verifkit/bubble"
	"verifkit/fakeredis"
	"verifkit/resp"
)

// ---------------------------------------------------------------- plan

type kShard struct {
	Primary  string   `json:"primary"`
	Replicas []string `json:"replicas,omitempty"`
	Ranges   [][2]int `json:"ranges,omitempty"` // no ranges: a spare shard the client does not know at first
	PrimPos  int      `json:"prim_pos,omitempty"`
}

type kOdd struct {
	Addr     string `json:"addr"`
	Endpoint string `json:"endpoint,omitempty"` // null | ?
	Health   string `json:"health,omitempty"`   // fail | loading
}

type kTopo struct {
	Version string   `json:"version"` // major < 8: the client asks CLUSTER SLOTS, else CLUSTER SHARDS
	Shards  []kShard `json:"shards"`
	Odd     []kOdd   `json:"odd,omitempty"`
	Init    []string `json:"init"`
}

type kCmd struct {
	UID    string   `json:"uid"`
	Kind   string   `json:"kind"` // kecho (read-only) | kset (write) | ksetr (write marked ToRetryable) | get
	Key    string   `json:"key"`
	Slot   int      `json:"slot"`
	LatUs  int      `json:"lat_us,omitempty"`
	Script []string `json:"script,omitempty"` // scripted outcome of the k-th arrival: "" | tryagain | loading | clusterdown | err | nil | drop-before | drop-after
}

// kItem is one command, or (Tx) a MULTI .. EXEC block around its commands.
type kItem struct {
	Tx   bool   `json:"tx,omitempty"`
	ID   string `json:"id,omitempty"`
	Cmds []kCmd `json:"cmds"`
}

type kOp struct {
	GapUs      int     `json:"gap_us"`
	Kind       string  `json:"kind"` // do | multi | cache | multicache | stream
	Items      []kItem `json:"items"`
	DeadlineUs int     `json:"deadline_us,omitempty"`
}

type kEvent struct {
	AtUs  int      `json:"at_us"`
	Kind  string   `json:"kind"` // move unassign migrate finish abort loop view heal kill revive failover health
	Slot  int      `json:"slot,omitempty"`
	Hi    int      `json:"hi,omitempty"`
	To    int      `json:"to,omitempty"`
	To2   int      `json:"to2,omitempty"`
	Node  string   `json:"node,omitempty"`
	Node2 string   `json:"node2,omitempty"`
	Moved []string `json:"moved,omitempty"`
	All   bool     `json:"all,omitempty"`
}

type kCfg struct {
	MaxRedir int  `json:"max_redir"`
	Retry    bool `json:"retry"`
	RetryMax int  `json:"retry_max"` // RetryDelay answers -1 after this many attempts
	// RetryTable (C28): delay in us answered for attempt i+1, -1 = negative; beyond the table: negative. Overrides RetryMax.
	RetryTable []int `json:"retry_table,omitempty"`
	RESP2      bool  `json:"resp2,omitempty"`
	Multiplex  int   `json:"multiplex"`
	BaseLatUs  int   `json:"base_lat_us"` // latency of the first user command of a burst
	TopoLatUs  int   `json:"topo_lat_us,omitempty"`
	RefreshUs  int   `json:"refresh_us,omitempty"` // ShardsRefreshInterval
	PreferInit bool  `json:"prefer_init,omitempty"`
	// replica routing (C21)
	Pred        string   `json:"pred,omitempty"` // "" (nil) always never readonly kecho slot-odd uid-odd
	ReplicaOnly bool     `json:"replica_only,omitempty"`
	Selector    string   `json:"selector,omitempty"`  // "" | replica | readnode
	SelTable    []string `json:"sel_table,omitempty"` // kind of answer for slot % len: valid zero neg big
}

type kPlan struct {
	Topo    kTopo    `json:"topo"`
	Cfg     kCfg     `json:"cfg"`
	Callers [][]kOp  `json:"callers"`
	Events  []kEvent `json:"events,omitempty"`
}

// ---------------------------------------------------------------- small helpers (copied from package props)

func saveCase(name string, v any) {
	d := os.Getenv("VERIF_WORK")
	if d == "" {
		return
	}
	b, _ := json.Marshal(v)
	_ = os.WriteFile(filepath.Join(d, "last-case."+name+".json"), b, 0o644)
}

func queueLabel() string {
	if q := os.Getenv("RUEIDIS_QUEUE_TYPE"); q != "" {
		return q
	}
	return "ring"
}

func isCtxErr(err error) bool {
	return errors.Is(err, context.Canceled) || errors.Is(err, context.DeadlineExceeded)
}

var slowN int

// kSlow keeps plans that took long in wall-clock time (development aid, only with VERIF_CLUSTER_SLOW set).
func kSlow(name string, p kPlan, t0 time.Time) {
	if d := os.Getenv("VERIF_CLUSTER_SLOW"); d != "" && time.Since(t0) > 3*time.Second {
		slowN++
		b, _ := json.Marshal(p)
		_ = os.WriteFile(filepath.Join(d, fmt.Sprintf("slow-%s-%d-%ds.json", name, slowN, int(time.Since(t0).Seconds()))), b, 0o644)
	}
}

func planKey(p kPlan) string {
	b, _ := json.Marshal(p)
	return string(b)
}

// ---------------------------------------------------------------- slot -> key table

var (
	slotKeysOnce sync.Once
	slotKeys     [16384][2]string
)

// keyFor returns the i-th (0/1) precomputed plain key of a slot.
func keyFor(slot, i int) string {
	slotKeysOnce.Do(func() {
		missing := 2 * 16384
		for n := 0; missing > 0; n++ {
			k := "k" + strconv.Itoa(n)
			s := fakeredis.KeySlot(k)
			switch {
			case slotKeys[s][0] == "":
				slotKeys[s][0] = k
				missing--
			case slotKeys[s][1] == "":
				slotKeys[s][1] = k
				missing--
			}
		}
	})
	return slotKeys[slot][i]
}

// uidOf recognises the plan's commands on the wire.
func uidOf(argv []string) string {
	if len(argv) == 0 {
		return ""
	}
	switch argv[0] {
	case "KECHO", "KSET":
		if len(argv) == 3 {
			return argv[2]
		}
	case "GET":
		if len(argv) == 2 {
			if i := strings.Index(argv[1], "}:"); i >= 0 {
				return argv[1][i+2:]
			}
		}
	}
	return ""
}

func (c kCmd) argv() []string {
	switch c.Kind {
	case "kecho":
		return []string{"KECHO", c.Key, c.UID}
	case "kset", "ksetr":
		return []string{"KSET", c.Key, c.UID}
	}
	return []string{"GET", c.Key}
}

// kPred evaluates a SendToReplicas specification on a command.
func kPred(spec string, argv []string) bool {
	switch spec {
	case "always":
		return true
	case "readonly":
		return argv[0] == "KECHO" || argv[0] == "GET"
	case "kecho":
		return argv[0] == "KECHO"
	case "slot-odd":
		if ks := fakeredis.ClusterKeys(argv); len(ks) > 0 {
			return fakeredis.KeySlot(ks[0])%2 == 1
		}
	case "uid-odd":
		if u := uidOf(argv); u != "" {
			n, _ := strconv.Atoi(strings.TrimLeft(u, "u"))
			return n%2 == 1
		}
	}
	return false
}

// kSel computes the selector answer for a slot given n candidates.
func kSel(table []string, slot, n int) (idx int, kind string) {
	if len(table) == 0 || n <= 0 {
		return 0, "zero"
	}
	kind = table[slot%len(table)]
	switch kind {
	case "valid":
		return slot % n, kind
	case "neg":
		return -1 - slot%3, kind
	case "big":
		return n + slot%3, kind
	}
	return 0, "zero"
}

// ---------------------------------------------------------------- positions of a call

type kPos struct {
	Role  string // cmd | multi | exec
	Cmd   *kCmd
	Block *kItem // the transaction block the position belongs to (nil: outside)
}

func (op *kOp) positions() []kPos {
	var out []kPos
	for i := range op.Items {
		it := &op.Items[i]
		if it.Tx {
			out = append(out, kPos{Role: "multi", Block: it})
		}
		for j := range it.Cmds {
			p := kPos{Role: "cmd", Cmd: &it.Cmds[j]}
			if it.Tx {
				p.Block = it
			}
			out = append(out, p)
		}
		if it.Tx {
			out = append(out, kPos{Role: "exec", Block: it})
		}
	}
	return out
}

func (p *kPlan) eachCmd(f func(ci, oi int, op *kOp, cm *kCmd, it *kItem)) {
	for ci := range p.Callers {
		for oi := range p.Callers[ci] {
			op := &p.Callers[ci][oi]
			for ii := range op.Items {
				for k := range op.Items[ii].Cmds {
					f(ci, oi, op, &op.Items[ii].Cmds[k], &op.Items[ii])
				}
			}
		}
	}
}

func (p *kPlan) nodes() []string {
	var out []string
	for _, sh := range p.Topo.Shards {
		out = append(out, sh.Primary)
		out = append(out, sh.Replicas...)
	}
	return out
}

func (p *kPlan) hasOpKind(kinds ...string) bool {
	for _, ops := range p.Callers {
		for _, op := range ops {
			for _, k := range kinds {
				if op.Kind == k {
					return true
				}
			}
		}
	}
	return false
}

func (p *kPlan) hasEvent(kind string) bool {
	for _, e := range p.Events {
		if e.Kind == kind {
			return true
		}
	}
	return false
}

// askCacheWithoutCache: the plan can run into the recorded defect "DoCache/DoMultiCache answered by -ASK
// on a client without client-side cache crashes the process" (cluster.go askingMultiCache sends the
// opt-in led MULTI/PTTL/cmd/EXEC batch to a pipe whose cache store is nil; pipe._backgroundRead then
// calls p.cache.Update on it). A crash cannot be skipped per clause, so such plans are run with the cache on.
func (p *kPlan) askCacheWithoutCache() bool {
	return p.Cfg.RESP2 && p.hasOpKind("cache", "multicache") && p.hasEvent("migrate")
}

// ---------------------------------------------------------------- run

type kResult struct {
	Caller, Op     int
	StartUs, EndUs int64
	Results        []rueidis.RedisResult
	Done           bool
}

type kSelCall struct {
	AtUs  int64
	Slot  int
	Addrs []string
	Ret   int
}

type kRetryCall struct {
	AtUs    int64
	Attempt int
	UID     string
	Err     string
	DelayUs int
}

type kRun struct {
	RetryCalls []kRetryCall
	Res        bubble.Result
	Results    []*kResult
	Events     []fakeredis.Event
	Pending    int
	PendingOps []string
	CloseOK    bool
	CloseAtUs  int64 // when the test closed the client
	NewErr     string
	SelCalls   []kSelCall
	Taps       []kTap
}

func (run *kRun) result(plan kPlan, ci, oi int) *kResult {
	n := 0
	for c := 0; c < ci; c++ {
		n += len(plan.Callers[c])
	}
	return run.Results[n+oi]
}

// kTap is the client-side instant at which a CLUSTER SLOTS / CLUSTER SHARDS request was written to a
// connection: requests of one refresh round are written at one instant, but a request queued behind
// a slow command is read (and answered) by the server much later, after the round has long been
// decided by another node's answer.
type kTap struct {
	Key string // server/conn
	At  int64
}

// tapConn is the client end of a connection: it records when CLUSTER requests are written and gives the
// connection a send buffer (net.Pipe has none: a write would block until the fake server, which may be
// sleeping out the latency of an earlier command, reads again, and everything queued behind it in the
// client would be written late).
type tapConn struct {
	net.Conn
	tail    []byte
	onFrame func()
	q       chan []byte
	done    chan struct{}
	once    sync.Once
}

var tapPattern = []byte("$7\r\nCLUSTER\r\n")

func newTapConn(nc net.Conn, onFrame func()) *tapConn {
	t := &tapConn{Conn: nc, onFrame: onFrame, q: make(chan []byte, 4096), done: make(chan struct{})}
	go func() {
		for {
			select {
			case b := <-t.q:
				if _, err := t.Conn.Write(b); err != nil {
					t.Close()
					return
				}
			case <-t.done:
				return
			}
		}
	}()
	return t
}

func (t *tapConn) Close() error {
	t.once.Do(func() { close(t.done) })
	return t.Conn.Close()
}

func (t *tapConn) Write(b []byte) (int, error) {
	buf := append(t.tail, b...)
	for i := 0; ; {
		j := bytes.Index(buf[i:], tapPattern)
		if j < 0 {
			break
		}
		t.onFrame()
		i += j + len(tapPattern)
	}
	// keep a tail in which a pattern split over two writes can still be found; it is shorter than the pattern and
	// the pattern's only '$' is its first byte, so no frame is counted twice
	n := len(tapPattern) - 1
	if len(buf) > n {
		buf = buf[len(buf)-n:]
	}
	t.tail = append([]byte(nil), buf...)
	// a write on a closed connection must fail (as on a real socket): the writer goroutine of a pipe whose
	// reader has gone is woken with a PING and only leaves when writing it fails
	select {
	case <-t.done:
		return 0, net.ErrClosed
	default:
	}
	select {
	case t.q <- append([]byte(nil), b...):
		return len(b), nil
	case <-t.done:
		return 0, net.ErrClosed
	}
}

func kLatencyZero(argv []string) bool {
	switch strings.ToUpper(argv[0]) {
	case "HELLO", "AUTH", "SELECT", "READONLY", "READWRITE", "PING", "INFO", "ROLE":
		return true
	case "CLIENT":
		return !(len(argv) > 1 && strings.EqualFold(argv[1], "CACHING"))
	}
	return false
}

func kRunPlan(t *testing.T, plan kPlan) (run kRun) {
	var mu sync.Mutex
	for ci, ops := range plan.Callers {
		for oi := range ops {
			run.Results = append(run.Results, &kResult{Caller: ci, Op: oi})
		}
	}
	byUID := map[string]*kCmd{}
	plan.eachCmd(func(_, _ int, _ *kOp, cm *kCmd, _ *kItem) { byUID[cm.UID] = cm })
	ring := queueLabel() == "ring"
	run.Res = bubble.Run(t, func() {
		w := fakeredis.NewWorld()
		cl := fakeredis.NewCluster(w)
		var servers []*fakeredis.Server
		arrivals := map[string]int{}
		for _, sh := range plan.Topo.Shards {
			p := w.NewServer(sh.Primary)
			var reps []*fakeredis.Server
			for _, r := range sh.Replicas {
				reps = append(reps, w.NewServer(r))
			}
			idx := cl.AddShard(p, reps...)
			cl.SetPrimaryPos(idx, sh.PrimPos)
			for _, r := range sh.Ranges {
				cl.AssignSlots(r[0], r[1], idx)
			}
			servers = append(servers, p)
			servers = append(servers, reps...)
		}
		for _, o := range plan.Topo.Odd {
			if o.Endpoint != "" {
				cl.SetEndpoint(o.Addr, o.Endpoint)
			}
			if o.Health != "" {
				cl.SetHealth(o.Addr, o.Health)
			}
		}
		for _, s := range servers {
			s.Version = plan.Topo.Version
			s.Hooks.Latency = func(c *fakeredis.Conn, req int, argv []string) time.Duration {
				if kLatencyZero(argv) {
					return 0
				}
				if strings.EqualFold(argv[0], "CLUSTER") {
					return time.Duration(plan.Cfg.TopoLatUs) * time.Microsecond
				}
				d := 0
				if cm := byUID[uidOf(argv)]; cm != nil && !(ring && c.BurstIdx != 0) {
					d = cm.LatUs
				}
				if c.BurstIdx == 0 {
					d += plan.Cfg.BaseLatUs
				}
				return time.Duration(d) * time.Microsecond
			}
		}
		// every node can answer a GET of the plan wherever it is finally executed (the fake does not move data)
		plan.eachCmd(func(_, _ int, _ *kOp, cm *kCmd, _ *kItem) {
			if cm.Kind == "get" {
				for _, s := range servers {
					s.Do("SET", cm.Key, "v:"+cm.UID+"@"+s.Addr)
				}
			}
		})
		cl.Before = func(n *fakeredis.ClusterNode, c *fakeredis.Conn, req int, argv []string) (resp.Value, bool) {
			cm := byUID[uidOf(argv)]
			if cm == nil || len(cm.Script) == 0 {
				return resp.Value{}, false
			}
			k := arrivals[cm.UID] // world lock held
			arrivals[cm.UID] = k + 1
			if k < len(cm.Script) {
				switch cm.Script[k] {
				case "tryagain":
					return resp.Err("TRYAGAIN Multiple keys request during rehashing of slot"), true
				case "loading":
					return resp.Err("LOADING Redis is loading the dataset in memory"), true
				case "clusterdown":
					return resp.Err("CLUSTERDOWN The cluster is down"), true
				case "err":
					return resp.Err("ERR plain " + cm.UID), true
				case "nil":
					return resp.Null(), true
				}
			}
			return resp.Value{}, false
		}
		for _, s := range servers {
			// connection drops: before the server executes the command / after it executed it, without a reply
			s.Hooks.Fault = func(c *fakeredis.Conn, req int, argv []string) fakeredis.Fault {
				cm := byUID[uidOf(argv)]
				if cm == nil || len(cm.Script) == 0 {
					return fakeredis.Fault{}
				}
				w.Lock()
				k, kind := arrivals[cm.UID], ""
				if k < len(cm.Script) {
					kind = cm.Script[k]
				}
				if kind == "drop-before" {
					arrivals[cm.UID] = k + 1 // the command is never dispatched, so cl.Before does not count this arrival
				}
				w.Unlock()
				switch kind {
				case "drop-before":
					return fakeredis.Fault{Kind: fakeredis.DropBeforeExec}
				case "drop-after":
					return fakeredis.Fault{Kind: fakeredis.DropAfterExec}
				}
				return fakeredis.Fault{}
			}
		}
		opt := sim.Option(w, plan.Topo.Init...)
		dialSem := make(chan struct{}, 1)
		opt.DialCtxFn = func(ctx context.Context, addr string, d *net.Dialer, cfg *tls.Config) (net.Conn, error) {
			if err := ctx.Err(); err != nil {
				return nil, err
			}
			dialSem <- struct{}{}
			nc, err := w.Dial(addr)
			id := -1
			if err == nil {
				id = len(w.Server(addr).Conns()) - 1
			}
			<-dialSem
			if err != nil {
				return nil, err
			}
			key := addr + "/" + strconv.Itoa(id)
			return newTapConn(nc, func() {
				mu.Lock()
				run.Taps = append(run.Taps, kTap{Key: key, At: w.Since()})
				mu.Unlock()
			}), nil
		}
		opt.DisableRetry = !plan.Cfg.Retry
		opt.PipelineMultiplex = plan.Cfg.Multiplex
		// Always the pipelining mode: in the synchronous mode a command issued while another one is in flight on
		// the connection is written only when that one has been answered; the write instants of CLUSTER requests
		// would then not tell which requests belong to one refresh round (see candidateViews).
		opt.AlwaysPipelining = true
		opt.ClusterOption.MaxMovedRedirections = plan.Cfg.MaxRedir
		opt.ClusterOption.PreferInitAddressRefresh = plan.Cfg.PreferInit
		if plan.Cfg.RefreshUs > 0 {
			opt.ClusterOption.ShardsRefreshInterval = time.Duration(plan.Cfg.RefreshUs) * time.Microsecond
		}
		if ring {
			opt.WriteBufferEachConn = 1 << 20
		}
		if plan.Cfg.RESP2 {
			opt.AlwaysRESP2 = true
			opt.DisableCache = true
		}
		opt.RetryDelay = func(attempts int, cmd rueidis.Completed, err error) time.Duration {
			d := -1
			switch {
			case plan.Cfg.RetryTable != nil:
				if attempts-1 < len(plan.Cfg.RetryTable) {
					d = plan.Cfg.RetryTable[attempts-1]
				}
			case attempts <= plan.Cfg.RetryMax:
				d = attempts * 300
			}
			mu.Lock()
			if len(run.RetryCalls) < 100000 {
				run.RetryCalls = append(run.RetryCalls, kRetryCall{AtUs: w.Since(), Attempt: attempts, UID: uidOf(cmd.Commands()), Err: fmt.Sprint(err), DelayUs: d})
			}
			mu.Unlock()
			if d < 0 {
				return -1
			}
			return time.Duration(d) * time.Microsecond
		}
		clock := sim.NewClock()
		if plan.Cfg.Pred != "" {
			spec := plan.Cfg.Pred
			opt.SendToReplicas = func(cmd rueidis.Completed) bool { return kPred(spec, cmd.Commands()) }
		}
		opt.ReplicaOnly = plan.Cfg.ReplicaOnly
		record := func(slot uint16, ns []rueidis.NodeInfo, ret int) {
			addrs := make([]string, len(ns))
			for i, n := range ns {
				addrs[i] = n.Addr
			}
			mu.Lock()
			if len(run.SelCalls) < 200000 {
				run.SelCalls = append(run.SelCalls, kSelCall{AtUs: clock.Us(), Slot: int(slot), Addrs: addrs, Ret: ret})
			}
			mu.Unlock()
		}
		interesting := map[int]bool{}
		plan.eachCmd(func(_, _ int, _ *kOp, cm *kCmd, _ *kItem) { interesting[cm.Slot] = true })
		switch plan.Cfg.Selector {
		case "replica":
			opt.ReplicaSelector = func(slot uint16, replicas []rueidis.NodeInfo) int {
				ret, _ := kSel(plan.Cfg.SelTable, int(slot), len(replicas))
				if interesting[int(slot)] {
					record(slot, replicas, ret)
				}
				return ret
			}
		case "readnode":
			opt.ReadNodeSelector = func(slot uint16, nodes []rueidis.NodeInfo) int {
				ret, _ := kSel(plan.Cfg.SelTable, int(slot), len(nodes))
				record(slot, nodes, ret)
				return ret
			}
		}
		client, err := rueidis.NewClient(opt)
		if err != nil {
			run.NewErr = err.Error()
			if client != nil {
				client.Close()
			}
			w.Stop()
			run.Events = w.Snapshot()
			time.Sleep(10 * time.Second)
			return
		}
		build := func(cm *kCmd) rueidis.Completed {
			switch cm.Kind {
			case "kecho":
				return client.B().Arbitrary("KECHO").Keys(cm.Key).Args(cm.UID).ReadOnly()
			case "kset":
				return client.B().Arbitrary("KSET").Keys(cm.Key).Args(cm.UID).Build()
			case "ksetr":
				return client.B().Arbitrary("KSET").Keys(cm.Key).Args(cm.UID).Build().ToRetryable()
			}
			return client.B().Get().Key(cm.Key).Build()
		}
		var wg sync.WaitGroup
		for ci, ops := range plan.Callers {
			wg.Add(1)
			go func(ci int, ops []kOp) {
				defer wg.Done()
				for oi := range ops {
					op := &ops[oi]
					time.Sleep(time.Duration(op.GapUs) * time.Microsecond)
					r := run.result(plan, ci, oi)
					ctx := context.Background()
					var cancel context.CancelFunc = func() {}
					if op.DeadlineUs > 0 {
						ctx, cancel = context.WithTimeout(ctx, time.Duration(op.DeadlineUs)*time.Microsecond)
					}
					pos := op.positions()
					mu.Lock()
					r.StartUs = w.Since()
					mu.Unlock()
					var out []rueidis.RedisResult
					switch op.Kind {
					case "do":
						out = []rueidis.RedisResult{client.Do(ctx, build(pos[0].Cmd))}
					case "stream":
						s := client.DoStream(ctx, build(pos[0].Cmd))
						for s.HasNext() {
							if _, err := s.WriteTo(io.Discard); err != nil {
								break
							}
						}
						out = []rueidis.RedisResult{}
					case "multi":
						cmds := make(rueidis.Commands, len(pos))
						for i, p := range pos {
							switch p.Role {
							case "multi":
								cmds[i] = client.B().Multi().Build()
							case "exec":
								cmds[i] = client.B().Exec().Build()
							default:
								cmds[i] = build(p.Cmd)
							}
						}
						out = client.DoMulti(ctx, cmds...)
					case "cache":
						out = []rueidis.RedisResult{client.DoCache(ctx, client.B().Get().Key(pos[0].Cmd.Key).Cache(), time.Minute)}
					case "multicache":
						cts := make([]rueidis.CacheableTTL, len(pos))
						for i, p := range pos {
							cts[i] = rueidis.CT(client.B().Get().Key(p.Cmd.Key).Cache(), time.Minute)
						}
						out = client.DoMultiCache(ctx, cts...)
					}
					mu.Lock()
					r.Results = out
					r.EndUs = w.Since()
					r.Done = true
					mu.Unlock()
					cancel()
				}
			}(ci, ops)
		}
		for _, e := range plan.Events {
			e := e
			time.AfterFunc(time.Duration(e.AtUs)*time.Microsecond, func() {
				switch e.Kind {
				case "move":
					cl.MoveSlots(e.Slot, e.Hi, e.To)
				case "unassign":
					cl.AssignSlots(e.Slot, e.Hi, -1)
				case "migrate":
					cl.StartMigration(e.Slot, e.To, e.Moved, e.All)
				case "finish":
					cl.FinishMigration(e.Slot)
				case "abort":
					cl.AbortMigration(e.Slot)
				case "loop":
					cl.SetView(e.Node, e.Slot, e.Hi, e.To)
					cl.SetView(e.Node2, e.Slot, e.Hi, e.To2)
				case "view":
					// one node misses a configuration update: it keeps believing (and answering in CLUSTER SLOTS / SHARDS) that shard To owns the range
					cl.SetView(e.Node, e.Slot, e.Hi, e.To)
				case "heal":
					cl.ClearView(e.Node)
					cl.ClearView(e.Node2)
				case "kill":
					if s := w.Server(e.Node); s != nil {
						s.SetDown(true)
					}
				case "revive":
					if s := w.Server(e.Node); s != nil {
						s.SetDown(false)
					}
				case "failover":
					cl.Failover(e.Node)
				case "health":
					cl.SetHealth(e.Node, e.Node2)
				}
			})
		}
		finished := sim.WaitTimeout(&wg, 5*time.Minute)
		mu.Lock()
		if !finished {
			for _, r := range run.Results {
				if !r.Done {
					run.Pending++
					run.PendingOps = append(run.PendingOps, fmt.Sprintf("caller %d op %d (%s, started +%dus)", r.Caller, r.Op, plan.Callers[r.Caller][r.Op].Kind, r.StartUs))
				}
			}
		}
		mu.Unlock()
		run.CloseAtUs = w.Since()
		run.CloseOK = sim.CallTimeout(time.Minute, client.Close)
		time.Sleep(2 * time.Second)
		w.Stop()
		run.Events = w.Snapshot()
		if !finished {
			sim.WaitTimeout(&wg, time.Minute)
		}
		// delayed topology refreshes and the 5 s grace of replaced connections must run out inside the bubble
		time.Sleep(15 * time.Second)
	})
	return
}

// ---------------------------------------------------------------- observations

type kReq struct {
	// Doubtful: the connection was closed from the server side (kill) or by the client before the end of
	// the plan (a fired deadline closes the shared connection): a logged reply may not have been delivered.
	Doubtful bool
	Server   string
	Conn     int
	Req      int
	Argv     []string
	At       int64
	Seq      int64
	Reply    *resp.Value
	ReplyAt  int64
}

func (r *kReq) name() string { return strings.ToUpper(r.Argv[0]) }

// kSpan is one MULTI .. EXEC span seen on a connection.
type kSpan struct {
	Multi   *kReq
	Exec    *kReq // nil: the connection log ends inside the transaction
	Members []*kReq
	Asked   bool // the request right before MULTI was ASKING
}

type kSend struct {
	UID   string
	R     *kReq
	Span  *kSpan
	Asked bool        // ASKING right before the command (or before the MULTI of its span)
	Eff   *resp.Value // the command's own reply (taken from the EXEC array when it was queued)
}

type kTopoView struct {
	SentAt  int64 // when the client wrote the request
	At, Seq int64
	Server  string
	Ranges  []kRange
}

type kRange struct {
	Lo, Hi int
	Nodes  []string // primary first
}

func (v *kTopoView) nodesOf(slot int) []string {
	for _, r := range v.Ranges {
		if r.Lo <= slot && slot <= r.Hi {
			return r.Nodes
		}
	}
	return nil
}

type kObs struct {
	Conns    map[string][]*kReq // "server/conn" -> requests in order
	ConnKeys []string
	Sends    map[string][]*kSend // uid -> sends in arrival order
	Spans    []*kSpan
	Views    []*kTopoView // topology answers the client received, in order
	Moved    []kMovedHint
	Down     map[string]bool // nodes that were ever down
}

type kMovedHint struct {
	At   int64
	Slot int
	Addr string
}

func isRedirect(v *resp.Value) (kind, addr string, slot int) {
	if v == nil || v.T != '-' {
		return "", "", 0
	}
	f := strings.Fields(v.S)
	if len(f) == 3 && (f[0] == "MOVED" || f[0] == "ASK") {
		s, _ := strconv.Atoi(f[1])
		return f[0], f[2], s
	}
	return "", "", 0
}

func kObserve(plan kPlan, run kRun) *kObs {
	events := run.Events
	o := &kObs{Conns: map[string][]*kReq{}, Sends: map[string][]*kSend{}, Down: map[string]bool{}}
	for _, e := range plan.Events {
		if e.Kind == "kill" {
			o.Down[e.Node] = true
		}
	}
	idx := map[string]*kReq{}
	closed := map[string]bool{}
	doubtful := map[string]bool{}
	taps := map[string][]int64{}
	for _, t := range run.Taps {
		taps[t.Key] = append(taps[t.Key], t.At)
	}
	clusterReqs := map[string]int{}
	for i := range events {
		e := &events[i]
		key := e.Server + "/" + strconv.Itoa(e.Conn)
		switch e.Kind {
		case "close":
			if !closed[key] {
				closed[key] = true
				if e.At < run.CloseAtUs || !(strings.HasPrefix(e.Note, "peer closed") || e.Note == "world stopped") {
					doubtful[key] = true
				}
			}
		case "recv":
			r := &kReq{Server: e.Server, Conn: e.Conn, Req: e.Req, Argv: e.Argv, At: e.At, Seq: e.Seq}
			if _, ok := o.Conns[key]; !ok {
				o.ConnKeys = append(o.ConnKeys, key)
			}
			o.Conns[key] = append(o.Conns[key], r)
			idx[key+"#"+strconv.Itoa(e.Req)] = r
			if len(e.Argv) == 2 && strings.EqualFold(e.Argv[0], "CLUSTER") {
				clusterReqs[key]++ // replies on a connection come in request order: the k-th reply belongs to the k-th write
			}
		case "reply":
			if r := idx[key+"#"+strconv.Itoa(e.Req)]; r != nil && r.Reply == nil && !closed[key] {
				r.Reply = e.Reply
				r.ReplyAt = e.At
				if len(r.Argv) == 2 && strings.EqualFold(r.Argv[0], "CLUSTER") {
					if v := kParseTopo(strings.ToUpper(r.Argv[1]), e.Server, e.Reply); v != nil {
						v.At, v.Seq, v.SentAt = e.At, e.Seq, r.At
						if ts := taps[key]; clusterReqs[key] <= len(ts) && clusterReqs[key] > 0 {
							v.SentAt = ts[clusterReqs[key]-1]
						}
						o.Views = append(o.Views, v)
					}
				}
				if kind, addr, slot := isRedirect(e.Reply); kind == "MOVED" {
					o.Moved = append(o.Moved, kMovedHint{At: e.At, Slot: slot, Addr: addr})
				}
			}
		}
	}
	for _, key := range o.ConnKeys {
		var cur *kSpan
		reqs := o.Conns[key]
		if doubtful[key] {
			for _, r := range reqs {
				r.Doubtful = true
			}
		}
		for i, r := range reqs {
			prevAsking := i > 0 && reqs[i-1].name() == "ASKING"
			switch r.name() {
			case "MULTI":
				cur = &kSpan{Multi: r, Asked: prevAsking}
				o.Spans = append(o.Spans, cur)
				continue
			case "EXEC":
				if cur != nil {
					cur.Exec = r
				}
				cur = nil
				continue
			case "DISCARD":
				cur = nil
				continue
			}
			if cur != nil {
				cur.Members = append(cur.Members, r)
			}
			if uid := uidOf(r.Argv); uid != "" {
				s := &kSend{UID: uid, R: r, Span: cur, Asked: prevAsking}
				if cur != nil {
					s.Asked = cur.Asked
				}
				o.Sends[uid] = append(o.Sends[uid], s)
			}
		}
	}
	for _, ss := range o.Sends {
		sort.Slice(ss, func(a, b int) bool { return ss[a].R.Seq < ss[b].R.Seq })
		for _, s := range ss {
			s.Eff = s.R.Reply
			if s.Span == nil || s.R.Reply == nil || s.R.Reply.IsErr() {
				continue
			}
			ex := s.Span.Exec
			if ex == nil || ex.Reply == nil {
				s.Eff = nil
				continue
			}
			if ex.Reply.T != '*' {
				s.Eff = ex.Reply
				continue
			}
			q := 0
			for _, m := range s.Span.Members {
				if m == s.R {
					break
				}
				if m.Reply != nil && !m.Reply.IsErr() {
					q++
				}
			}
			if q < len(ex.Reply.A) {
				s.Eff = &ex.Reply.A[q]
			} else {
				s.Eff = nil
			}
		}
	}
	sort.Slice(o.Spans, func(a, b int) bool { return o.Spans[a].Multi.Seq < o.Spans[b].Multi.Seq })
	return o
}

func kDict(v resp.Value) map[string]resp.Value {
	m := map[string]resp.Value{}
	if v.T != '%' && v.T != '*' {
		return m
	}
	for i := 0; i+1 < len(v.A); i += 2 {
		m[v.A[i].S] = v.A[i+1]
	}
	return m
}

// kParseTopo reads a CLUSTER SLOTS / CLUSTER SHARDS answer the way the property describes: every
// listed range belongs to its group's primary; unhealthy nodes and nodes without a usable endpoint
// are skipped (a group whose primary is skipped is not usable); an empty or null endpoint means
// the host of the node that answered.
func kParseTopo(sub, server string, v *resp.Value) *kTopoView {
	if v == nil || v.T != '*' || len(v.A) == 0 {
		return nil
	}
	host := server
	if i := strings.LastIndexByte(server, ':'); i >= 0 {
		host = server[:i]
	}
	addr := func(ep resp.Value, port int64) string {
		h := ep.S
		if ep.T == '_' || h == "" {
			h = host
		}
		if h == "?" {
			return ""
		}
		return h + ":" + strconv.FormatInt(port, 10)
	}
	view := &kTopoView{Server: server}
	switch sub {
	case "SLOTS":
		for _, e := range v.A {
			if e.T != '*' || len(e.A) < 3 {
				continue
			}
			var nodes []string
			for i, n := range e.A[2:] {
				if len(n.A) < 2 {
					continue
				}
				a := addr(n.A[0], n.A[1].I)
				if a == "" {
					if i == 0 {
						nodes = nil
						break
					}
					continue
				}
				nodes = append(nodes, a)
			}
			if len(e.A[2].A) < 2 || addr(e.A[2].A[0], e.A[2].A[1].I) == "" {
				continue
			}
			view.Ranges = append(view.Ranges, kRange{Lo: int(e.A[0].I), Hi: int(e.A[1].I), Nodes: nodes})
		}
	case "SHARDS":
		for _, e := range v.A {
			d := kDict(e)
			var nodes []string
			prim := -1
			for _, n := range d["nodes"].A {
				nd := kDict(n)
				if nd["health"].S != "online" {
					continue
				}
				a := addr(nd["endpoint"], nd["port"].I)
				if a == "" {
					continue
				}
				if nd["role"].S == "master" {
					prim = len(nodes)
				}
				nodes = append(nodes, a)
			}
			if prim < 0 {
				continue
			}
			nodes[0], nodes[prim] = nodes[prim], nodes[0]
			sl := d["slots"].A
			for i := 0; i+1 < len(sl); i += 2 {
				view.Ranges = append(view.Ranges, kRange{Lo: int(sl[i].I), Hi: int(sl[i+1].I), Nodes: nodes})
			}
		}
	default:
		return nil
	}
	return view
}

// candidateViews returns the topology answers the client may be routing by for a command that was
// issued at t0 and reached a server at t1. The client adopts the first non-empty answer of each
// refresh round and ignores the others, which may arrive much later (a request queued behind a slow
// command) although they were requested together; the log cannot tell which answer won a round.
// What is certain: requests written at one instant S form (at least) one round whose winner is
// the earliest answer to them; so an answer V is out of date for sure once some round written
// strictly after V arrived has been answered strictly before t0. Every other answer up to t1 is
// a candidate.
func (o *kObs) candidateViews(t0, t1 int64) (views []*kTopoView, since int64) {
	minAt := map[int64]int64{} // SentAt -> earliest answer
	for _, v := range o.Views {
		if m, ok := minAt[v.SentAt]; !ok || v.At < m {
			minAt[v.SentAt] = v.At
		}
	}
	since = -1
	for _, v := range o.Views {
		if v.At > t1 {
			continue
		}
		superseded := false
		for s, m := range minAt {
			if s > v.At && m < t0 {
				superseded = true
				break
			}
		}
		if !superseded {
			views = append(views, v)
			if since < 0 || v.At < since {
				since = v.At
			}
		}
	}
	return views, since
}

// primaryCandidates: the addresses a command for slot may legitimately be sent to first when it has
// to go to the primary: the primary of the slot in a candidate view, or the node named by a MOVED
// reply for that slot which the client received since that view (a MOVED naming a node the client
// has no connection to updates its slot table at once).
func (o *kObs) primaryCandidates(slot int, t0, t1 int64) (prims map[string]bool, group map[string]bool, unowned bool) {
	prims, group = map[string]bool{}, map[string]bool{}
	views, since := o.candidateViews(t0, t1)
	for _, v := range views {
		ns := v.nodesOf(slot)
		if len(ns) == 0 {
			unowned = true
			continue
		}
		prims[ns[0]] = true
		for _, n := range ns {
			group[n] = true
		}
	}
	if len(views) == 0 {
		unowned = true
	}
	for _, m := range o.Moved {
		if m.Slot == slot && m.At >= since && m.At <= t1 {
			prims[m.Addr] = true
			group[m.Addr] = true
		}
	}
	return
}

func keysOf(m map[string]bool) []string {
	out := make([]string, 0, len(m))
	for k := range m {
		out = append(out, k)
	}
	sort.Strings(out)
	return out
}

// followed counts the sends of a command that follow a MOVED/ASK answer to its previous send.
func followed(ss []*kSend) (n int, chain []string) {
	for i, s := range ss {
		if i > 0 && !ss[i-1].R.Doubtful {
			if kind, _, _ := isRedirect(ss[i-1].Eff); kind != "" {
				n++
			}
		}
		kind, _, _ := isRedirect(s.Eff)
		if kind == "" {
			kind = "-"
		}
		chain = append(chain, s.R.Server+":"+kind)
	}
	return
}

func isRedirectErr(err error) bool {
	var re *rueidis.RedisError
	if !errors.As(err, &re) {
		return false
	}
	if _, ok := re.IsMoved(); ok {
		return true
	}
	_, ok := re.IsAsk()
	return ok
}

// ---------------------------------------------------------------- generators

type kGenOpt struct {
	Bias string // c19 | c20 | c21
}

func addrOf(shard, node int) string { return fmt.Sprintf("127.0.0.1:%d", 7000+10*shard+node) }

func genTopo(rt *rapid.T, g kGenOpt) kTopo {
	var tp kTopo
	tp.Version = rapid.SampledFrom([]string{"7.2.4", "8.0.1"}).Draw(rt, "version")
	nPrim := rapid.IntRange(2, 5).Draw(rt, "primaries")
	repChoices := []int{0, 0, 1, 1, 2}
	if g.Bias == "c21" {
		repChoices = []int{0, 1, 1, 2, 2}
	}
	for i := 0; i < nPrim; i++ {
		sh := kShard{Primary: addrOf(i, 0), PrimPos: rapid.IntRange(0, 2).Draw(rt, "primPos")}
		for j := 0; j < rapid.SampledFrom(repChoices).Draw(rt, "replicas"); j++ {
			sh.Replicas = append(sh.Replicas, addrOf(i, j+1))
		}
		tp.Shards = append(tp.Shards, sh)
	}
	// slot ranges: cut the slot space into pieces, deal them to the primaries, leave some unowned
	nPieces := nPrim * rapid.IntRange(1, 2).Draw(rt, "piecesPerPrimary")
	cuts := map[int]bool{}
	for tries := 0; len(cuts) < nPieces-1 && tries < 64; tries++ {
		cuts[rapid.IntRange(1, 16383).Draw(rt, "cut")] = true
	}
	bounds := []int{0}
	for c := range cuts {
		bounds = append(bounds, c)
	}
	sort.Ints(bounds)
	bounds = append(bounds, 16384)
	perm := rapid.Permutation([]int{0, 1, 2, 3, 4}[:nPrim]).Draw(rt, "deal")
	for p := 0; p+1 < len(bounds); p++ {
		lo, hi := bounds[p], bounds[p+1]-1
		if p >= nPrim && rapid.IntRange(0, 7).Draw(rt, "gap") == 0 {
			continue // nobody serves this piece
		}
		if hi-lo > 4 && rapid.IntRange(0, 5).Draw(rt, "shrink") == 0 {
			hi -= rapid.IntRange(1, 3).Draw(rt, "shrinkBy") // a small hole before the next range
		}
		sh := perm[p%nPrim]
		tp.Shards[sh].Ranges = append(tp.Shards[sh].Ranges, [2]int{lo, hi})
	}
	if g.Bias != "c21" && rapid.IntRange(0, 2).Draw(rt, "spare") == 0 {
		sp := kShard{Primary: addrOf(nPrim, 0)}
		if rapid.Bool().Draw(rt, "spareReplica") {
			sp.Replicas = []string{addrOf(nPrim, 1)}
		}
		tp.Shards = append(tp.Shards, sp)
	}
	for _, sh := range tp.Shards {
		if rapid.IntRange(0, 5).Draw(rt, "nullEndpoint") == 0 {
			tp.Odd = append(tp.Odd, kOdd{Addr: sh.Primary, Endpoint: "null"})
		}
		for _, r := range sh.Replicas {
			switch rapid.IntRange(0, 9).Draw(rt, "oddReplica") {
			case 0:
				tp.Odd = append(tp.Odd, kOdd{Addr: r, Endpoint: "?"})
			case 1:
				tp.Odd = append(tp.Odd, kOdd{Addr: r, Health: rapid.SampledFrom([]string{"fail", "loading"}).Draw(rt, "health")})
			case 2:
				tp.Odd = append(tp.Odd, kOdd{Addr: r, Endpoint: "null"})
			}
		}
	}
	var all []string
	for _, sh := range tp.Shards {
		all = append(all, sh.Primary)
		all = append(all, sh.Replicas...)
	}
	nInit := rapid.IntRange(1, min(3, len(all))).Draw(rt, "nInit")
	tp.Init = append([]string(nil), rapid.Permutation(all).Draw(rt, "init")[:nInit]...)
	return tp
}

func (tp kTopo) ownerOf(slot int) int {
	for i, sh := range tp.Shards {
		for _, r := range sh.Ranges {
			if r[0] <= slot && slot <= r[1] {
				return i
			}
		}
	}
	return -1
}

// genSlots picks the few slots the plan's commands and events concentrate on.
func genSlots(rt *rapid.T, tp kTopo, n int, allowUnowned bool) []int {
	var owned [][2]int
	for _, sh := range tp.Shards {
		owned = append(owned, sh.Ranges...)
	}
	seen := map[int]bool{}
	var out []int
	for tries := 0; len(out) < n && tries < 4*n+8; tries++ { // a tiny slot space may not have n different slots
		r := rapid.SampledFrom(owned).Draw(rt, "slotRange")
		s := r[0]
		switch rapid.IntRange(0, 3).Draw(rt, "slotPos") {
		case 1:
			s = r[1]
		case 2, 3:
			s = rapid.IntRange(r[0], r[1]).Draw(rt, "slotIn")
		}
		if allowUnowned && rapid.IntRange(0, 11).Draw(rt, "unownedSlot") == 0 {
			s = rapid.IntRange(0, 16383).Draw(rt, "anySlot")
		}
		if !seen[s] {
			seen[s] = true
			out = append(out, s)
		}
	}
	return out
}

type kGen struct {
	rt    *rapid.T
	uid   int
	blk   int
	slots []int
	keys  map[int][]string // keys used per slot
}

func (g *kGen) cmd(kinds []string, slot int) kCmd {
	g.uid++
	uid := "u" + strconv.Itoa(g.uid)
	kind := rapid.SampledFrom(kinds).Draw(g.rt, "cmdKind")
	base := keyFor(slot, rapid.IntRange(0, 1).Draw(g.rt, "base"))
	key := base
	if kind == "get" {
		key = "{" + base + "}:" + uid
	} else if rapid.IntRange(0, 2).Draw(g.rt, "hashtag") == 0 {
		key = "x{" + base + "}" + strconv.Itoa(rapid.IntRange(0, 2).Draw(g.rt, "tagSuffix"))
	}
	cm := kCmd{UID: uid, Kind: kind, Key: key, Slot: slot, LatUs: rapid.SampledFrom([]int{0, 0, 0, 100, 700, 3000}).Draw(g.rt, "lat")}
	if g.keys == nil {
		g.keys = map[int][]string{}
	}
	g.keys[slot] = append(g.keys[slot], key)
	return cm
}

func (g *kGen) script(cm *kCmd, oneIn int) {
	if rapid.IntRange(0, oneIn-1).Draw(g.rt, "scripted") == 0 {
		n := rapid.IntRange(1, 2).Draw(g.rt, "scriptLen")
		for i := 0; i < n; i++ {
			cm.Script = append(cm.Script, rapid.SampledFrom([]string{"tryagain", "tryagain", "loading", "clusterdown", ""}).Draw(g.rt, "scriptStep"))
		}
	}
}

func (g *kGen) slot() int { return rapid.SampledFrom(g.slots).Draw(g.rt, "slot") }

func genGap(rt *rapid.T) int {
	if rapid.IntRange(0, 9).Draw(rt, "longGap") == 0 {
		return rapid.IntRange(100000, 1300000).Draw(rt, "gapLong") // long enough for a delayed topology refresh to complete
	}
	return rapid.IntRange(0, 4000).Draw(rt, "gap")
}

// genEvents draws topology events over the plan's slots.
func genEvents(rt *rapid.T, tp kTopo, g *kGen, kinds []string, maxN, horizonUs int) (evs []kEvent, unhealedLoop, kills bool) {
	n := rapid.IntRange(0, maxN).Draw(rt, "events")
	nSh := len(tp.Shards)
	for i := 0; i < n; i++ {
		at := rapid.IntRange(0, horizonUs).Draw(rt, "evAt")
		slot := g.slot()
		lo, hi := slot, slot
		if rapid.Bool().Draw(rt, "wholeRange") {
			if o := tp.ownerOf(slot); o >= 0 {
				for _, r := range tp.Shards[o].Ranges {
					if r[0] <= slot && slot <= r[1] {
						lo, hi = r[0], r[1]
					}
				}
			}
		}
		switch rapid.SampledFrom(kinds).Draw(rt, "evKind") {
		case "move":
			evs = append(evs, kEvent{AtUs: at, Kind: "move", Slot: lo, Hi: hi, To: rapid.IntRange(0, nSh-1).Draw(rt, "to")})
		case "unassign":
			evs = append(evs, kEvent{AtUs: at, Kind: "unassign", Slot: slot, Hi: slot})
		case "migrate":
			if rapid.Bool().Draw(rt, "migratingFromStart") {
				at = rapid.IntRange(0, 50).Draw(rt, "migrateAt") // the slot is already migrating when most commands arrive
			}
			ev := kEvent{AtUs: at, Kind: "migrate", Slot: slot, To: rapid.IntRange(0, nSh-1).Draw(rt, "to"), All: rapid.Bool().Draw(rt, "allMoved")}
			for _, k := range g.keys[slot] {
				if rapid.IntRange(0, 2).Draw(rt, "keyMoved") != 0 {
					ev.Moved = append(ev.Moved, k)
				}
			}
			evs = append(evs, ev)
			switch rapid.IntRange(0, 5).Draw(rt, "migrationEnd") {
			case 0, 1, 2:
				evs = append(evs, kEvent{AtUs: at + rapid.IntRange(horizonUs/4, 2*horizonUs).Draw(rt, "finishAfter"), Kind: "finish", Slot: slot})
			case 3:
				evs = append(evs, kEvent{AtUs: at + rapid.IntRange(horizonUs/4, 2*horizonUs).Draw(rt, "abortAfter"), Kind: "abort", Slot: slot})
			}
		case "loop":
			x := tp.ownerOf(slot)
			if x < 0 || nSh < 2 {
				continue
			}
			y := rapid.IntRange(0, nSh-2).Draw(rt, "loopWith")
			if y >= x {
				y++
			}
			evs = append(evs, kEvent{AtUs: at, Kind: "loop", Slot: lo, Hi: hi, Node: tp.Shards[x].Primary, To: y, Node2: tp.Shards[y].Primary, To2: x})
			if rapid.IntRange(0, 2).Draw(rt, "heal") != 0 {
				evs = append(evs, kEvent{AtUs: at + rapid.IntRange(200, 20000).Draw(rt, "healAfter"), Kind: "heal", Node: tp.Shards[x].Primary, Node2: tp.Shards[y].Primary})
			} else {
				unhealedLoop = true
			}
		case "kill":
			sh := tp.Shards[rapid.IntRange(0, nSh-1).Draw(rt, "killShard")]
			evs = append(evs, kEvent{AtUs: at, Kind: "kill", Node: sh.Primary})
			kills = true
			if len(sh.Replicas) > 0 && rapid.IntRange(0, 2).Draw(rt, "failover") != 0 {
				evs = append(evs, kEvent{AtUs: at + rapid.IntRange(100, 30000).Draw(rt, "failoverAfter"), Kind: "failover", Node: sh.Replicas[0]})
			}
			if rapid.IntRange(0, 2).Draw(rt, "revive") == 0 {
				evs = append(evs, kEvent{AtUs: at + rapid.IntRange(100, 50000).Draw(rt, "reviveAfter"), Kind: "revive", Node: sh.Primary})
			}
		case "switch":
			// a manual failover: the first replica and the primary swap roles, nobody dies
			sh := tp.Shards[rapid.IntRange(0, nSh-1).Draw(rt, "switchShard")]
			if len(sh.Replicas) > 0 {
				evs = append(evs, kEvent{AtUs: at, Kind: "failover", Node: sh.Replicas[0]})
			}
		case "health":
			sh := tp.Shards[rapid.IntRange(0, nSh-1).Draw(rt, "healthShard")]
			if len(sh.Replicas) > 0 {
				evs = append(evs, kEvent{AtUs: at, Kind: "health", Node: rapid.SampledFrom(sh.Replicas).Draw(rt, "healthNode"), Node2: rapid.SampledFrom([]string{"fail", "online"}).Draw(rt, "healthTo")})
			}
		}
	}
	sort.SliceStable(evs, func(a, b int) bool { return evs[a].AtUs < evs[b].AtUs })
	return
}

func genCfg(rt *rapid.T) kCfg {
	return kCfg{
		MaxRedir:   rapid.SampledFrom([]int{0, 0, 1, 2, 3}).Draw(rt, "maxRedir"),
		Retry:      rapid.IntRange(0, 3).Draw(rt, "retry") != 0,
		RetryMax:   rapid.IntRange(1, 5).Draw(rt, "retryMax"),
		Multiplex:  rapid.SampledFrom([]int{-1, -1, 0, 1}).Draw(rt, "multiplex"),
		BaseLatUs:  rapid.SampledFrom([]int{20, 100, 400}).Draw(rt, "baseLat"),
		TopoLatUs:  rapid.SampledFrom([]int{0, 0, 300, 2000}).Draw(rt, "topoLat"),
		RefreshUs:  rapid.SampledFrom([]int{0, 0, 0, 5000, 40000}).Draw(rt, "refresh"),
		PreferInit: rapid.IntRange(0, 5).Draw(rt, "preferInit") == 0,
	}
}

// ---------------------------------------------------------------- clauses shared by the three checks

func describeSends(ss []*kSend) string {
	var b []string
	for _, s := range ss {
		r := "(no reply)"
		if s.Eff != nil {
			r = s.Eff.String()
		}
		ask := ""
		if s.Asked {
			ask = " after ASKING"
		}
		b = append(b, fmt.Sprintf("+%dus %s/c%d r%d%s -> %s", s.R.At, s.R.Server, s.R.Conn, s.R.Req, ask, r))
	}
	return strings.Join(b, " ; ")
}
