package cluster

import (
	"fmt"
	"strings"
	"testing"
	"time"

	"pgregory.net/rapid"
	"verif/harness/sim"
	"verifkit/resp"
	"verifkit/stat"
)

var c28Outcomes = []string{"", "drop-before", "drop-before", "drop-after", "loading", "loading", "tryagain", "clusterdown", "err", "nil"}

func genC28Plan(rt *rapid.T) kPlan {
	var p kPlan
	p.Topo = genTopo(rt, kGenOpt{Bias: "c28"})
	p.Cfg = genCfg(rt)
	p.Cfg.MaxRedir = 0
	p.Cfg.RefreshUs = 0
	p.Cfg.Retry = rapid.IntRange(0, 4).Draw(rt, "retry") != 0
	// RetryDelay as a table over the attempt number: non-negative for the first attempts and negative afterwards,
	// also with a negative answer in the middle; beyond the table the answer is negative
	p.Cfg.RetryTable = []int{}
	for i, n := 0, rapid.IntRange(0, 5).Draw(rt, "tableLen"); i < n; i++ {
		p.Cfg.RetryTable = append(p.Cfg.RetryTable, rapid.SampledFrom([]int{0, 0, 100, 100, 2000, 20000, -1}).Draw(rt, "delay"))
	}
	g := &kGen{rt: rt}
	g.slots = genSlots(rt, p.Topo, rapid.IntRange(2, 4).Draw(rt, "nSlots"), false)
	mk := func(kinds []string) kCmd {
		cm := g.cmd(kinds, g.slot())
		for i, n := 0, rapid.IntRange(0, 5).Draw(rt, "outcomes"); i < n; i++ {
			cm.Script = append(cm.Script, rapid.SampledFrom(c28Outcomes).Draw(rt, "outcome"))
		}
		return cm
	}
	all := []string{"kecho", "kecho", "kset", "ksetr", "get"}
	nc := rapid.IntRange(1, 3).Draw(rt, "callers")
	for c := 0; c < nc; c++ {
		var ops []kOp
		for i, no := 0, rapid.IntRange(1, 4).Draw(rt, "ops"); i < no; i++ {
			op := kOp{GapUs: rapid.IntRange(0, 5000).Draw(rt, "gap"), Kind: rapid.SampledFrom([]string{"do", "do", "multi", "multi", "cache", "multicache"}).Draw(rt, "kind")}
			switch op.Kind {
			case "do":
				op.Items = []kItem{{Cmds: []kCmd{mk(all)}}}
			case "cache":
				op.Items = []kItem{{Cmds: []kCmd{mk([]string{"get"})}}}
			case "multi":
				for k, n := 0, rapid.IntRange(2, 5).Draw(rt, "n"); k < n; k++ {
					op.Items = append(op.Items, kItem{Cmds: []kCmd{mk(all)}})
				}
			case "multicache":
				for k, n := 0, rapid.IntRange(2, 4).Draw(rt, "n"); k < n; k++ {
					op.Items = append(op.Items, kItem{Cmds: []kCmd{mk([]string{"get"})}})
				}
			}
			if rapid.IntRange(0, 7).Draw(rt, "withDeadline") == 0 {
				op.DeadlineUs = rapid.IntRange(1000, 100000).Draw(rt, "deadline")
			}
			ops = append(ops, op)
		}
		p.Callers = append(p.Callers, ops)
	}
	return p
}

func c28Retryable(kind string) bool { return kind == "kecho" || kind == "get" || kind == "ksetr" }

// c28Failure classifies what the client can have seen of a send: "reply" (a reply that is returned as it is),
// "retryable-reply" (LOADING, TRYAGAIN, CLUSTERDOWN) or "transport" (no reply delivered).
func c28Failure(s *kSend) (kind string, doubtful bool) {
	if s.Eff == nil {
		return "transport", false
	}
	if s.Eff.IsErr() {
		for _, p := range []string{"LOADING", "TRYAGAIN", "CLUSTERDOWN"} {
			if strings.HasPrefix(s.Eff.S, p) {
				return "retryable-reply:" + p, s.R.Doubtful
			}
		}
	}
	// a reply logged on a connection the server cut at some point may not have been delivered
	return "reply", s.R.Doubtful
}

func c28Check(c *stat.Collector, rt stat.Fataler, plan kPlan, run kRun) (nt bool, classes []string) {
	cls := map[string]bool{}
	if run.Pending > 0 || run.Res.Deadlock {
		c.Fail(rt, "C28.bounded", fmt.Sprintf("%d calls never returned %v (%s)", run.Pending, run.PendingOps, run.Res), plan)
	}
	if run.Res.Panic != nil {
		c.Fail(rt, "C28.no-panic", run.Res.String(), plan)
	}
	obs := kObserve(plan, run)
	callsOf := map[string][]kRetryCall{}
	for _, rc := range run.RetryCalls {
		callsOf[rc.UID] = append(callsOf[rc.UID], rc)
	}
	anyDrop := false
	plan.eachCmd(func(_, _ int, _ *kOp, cm *kCmd, _ *kItem) {
		for _, o := range cm.Script {
			if strings.HasPrefix(o, "drop") {
				anyDrop = true
			}
		}
	})
	if !plan.Cfg.Retry {
		cls["retries-disabled"] = true
	}
	for ci := range plan.Callers {
		for oi := range plan.Callers[ci] {
			op := &plan.Callers[ci][oi]
			r := run.result(plan, ci, oi)
			if !r.Done {
				continue
			}
			where := fmt.Sprintf("caller %d op %d (%s)", ci, oi, op.Kind)
			pos := op.positions()
			if len(r.Results) != len(pos) {
				c.Fail(rt, "C28.returned-as-is", fmt.Sprintf("%s returned %d results for %d commands", where, len(r.Results), len(pos)), plan)
			}
			resent, notResent := 0, 0
			for pi, p := range pos {
				cm := p.Cmd
				ss := obs.Sends[cm.UID]
				what := fmt.Sprintf("%s command %s %v (%s)", where, cm.UID, cm.argv(), cm.Kind)
				used := map[int]bool{}
				for k := 0; k+1 < len(ss); k++ {
					// send k+1 exists: justify it
					fk, doubtful := c28Failure(ss[k])
					if fk == "reply" && !doubtful {
						c.Fail(rt, "C28.retry-only-after-retryable-failure", fmt.Sprintf("%s was sent again after the reply %s, which is neither a transport error nor LOADING/TRYAGAIN/CLUSTERDOWN; sends: %s", what, ss[k].Eff.String(), describeSends(ss)), plan)
					}
					if !c28Retryable(cm.Kind) {
						c.Fail(rt, "C28.retry-only-retryable-command", fmt.Sprintf("%s is a write that is not marked retryable, yet it was sent again; sends: %s", what, describeSends(ss)), plan)
					}
					if !plan.Cfg.Retry {
						c.Fail(rt, "C28.disable-retry", fmt.Sprintf("%s was sent again although DisableRetry is set; sends: %s", what, describeSends(ss)), plan)
					}
					// a non-negative RetryDelay answer for this command between the two sends (same instant counts: ties)
					found := false
					for i, rc := range callsOf[cm.UID] {
						if !used[i] && rc.DelayUs >= 0 && rc.AtUs >= ss[k].R.At && rc.AtUs <= ss[k+1].R.At {
							used[i], found = true, true
							break
						}
					}
					if !found {
						var log []string
						for _, rc := range callsOf[cm.UID] {
							log = append(log, fmt.Sprintf("+%dus attempt %d -> %d", rc.AtUs, rc.Attempt, rc.DelayUs))
						}
						c.Fail(rt, "C28.retry-only-while-delay-non-negative", fmt.Sprintf("%s: send %d (+%dus) follows send %d (+%dus) although RetryDelay gave no non-negative delay for the command in between; RetryDelay calls for it: %v (table %v); sends: %s",
							what, k+2, ss[k+1].R.At, k+1, ss[k].R.At, log, plan.Cfg.RetryTable, describeSends(ss)), plan)
					}
					cls["retry-after-"+strings.ToLower(strings.TrimPrefix(fk, "retryable-reply:"))] = true
					if cm.Kind == "ksetr" {
						cls["retryable-write-retried"] = true
					}
				}
				if len(ss) > 1 {
					resent++
				} else {
					notResent++
				}
				if len(ss) >= 3 {
					cls["command-sent>=3-times"] = true
				}
				if len(ss) > 0 {
					last := ss[len(ss)-1]
					fk, _ := c28Failure(last)
					if fk != "reply" {
						switch {
						case !c28Retryable(cm.Kind):
							cls["failed-write-not-retried"] = true
						case !plan.Cfg.Retry:
							cls["failed-not-retried-retries-disabled"] = true
						default:
							for _, rc := range callsOf[cm.UID] {
								if rc.DelayUs < 0 && rc.AtUs >= last.R.At {
									cls["stopped-by-negative-delay"] = true
									if len(ss) > 1 {
										cls["stopped-by-negative-delay-after-retries"] = true
									}
								}
							}
						}
					}
					if last.Eff != nil && last.Eff.IsErr() && strings.HasPrefix(last.Eff.S, "ERR plain") {
						cls["ordinary-error-returned"] = true
					}
					if last.Eff != nil && last.Eff.T == '_' {
						cls["nil-returned"] = true
					}
				}
				// the caller gets the outcome of the last attempt as it is
				rr := r.Results[pi]
				nre := rr.NonRedisError()
				if nre != nil && !sim.IsReplyError(nre) {
					if isCtxErr(nre) && op.DeadlineUs > 0 {
						cls["deadline-fired"] = true
						continue
					}
					if anyDrop {
						continue // a dropped connection fails everything in flight on it, whatever the log shows for the command
					}
					c.Fail(rt, "C28.returned-as-is", fmt.Sprintf("%s failed with %v although no connection was dropped and no deadline fired; sends: %s", what, nre, describeSends(ss)), plan)
				}
				if len(ss) == 0 {
					c.Fail(rt, "C28.returned-as-is", fmt.Sprintf("%s returned a reply but never reached a server", what), plan)
				}
				last := ss[len(ss)-1]
				var want *resp.Value = last.Eff
				if want == nil {
					c.Fail(rt, "C28.returned-as-is", fmt.Sprintf("%s returned a reply although its last send got none; sends: %s", what, describeSends(ss)), plan)
				}
				if err := sim.MatchResult(rr, *want); err != nil {
					c.Fail(rt, "C28.returned-as-is", fmt.Sprintf("%s: %v; sends: %s", what, err, describeSends(ss)), plan)
				}
			}
			if len(pos) > 1 && resent > 0 && notResent > 0 {
				cls["batch-partly-retried"] = true
			}
			cls["call-"+op.Kind] = true
		}
	}
	for k := range cls {
		classes = append(classes, k)
	}
	nt = cls["command-sent>=3-times"] || cls["stopped-by-negative-delay-after-retries"]
	return nt, classes
}

func TestVerif_C28_ClusterRetry(t *testing.T) {
	c := stat.For("C28", "cluster-"+queueLabel()).Rule("cluster client: fault plans in a synctest bubble against the cluster personality of the fake server (2-5 primaries, static topology): 1-3 callers x 1-4 calls of Do / DoMulti(2-5) / DoCache / DoMultiCache(2-4) of uniquely tagged keyed commands (read-only, write, write marked ToRetryable); for the k-th arrival of each command one of {ok, connection dropped before execution, dropped after execution, LOADING, TRYAGAIN, CLUSTERDOWN, ordinary ERR, nil}; RetryDelay = generated table over the attempt number (0-20 ms or negative, negative beyond the table), DisableRetry in a fifth of the plans, deadlines on some calls; oracle from the per-node server logs and the log of RetryDelay calls: a further send of a command exists only if the previous send ended without a delivered reply or with LOADING/TRYAGAIN/CLUSTERDOWN, the command is read-only or marked retryable, retries are enabled, and RetryDelay answered a non-negative delay for that command between the two sends; the caller gets the reply to the last send unchanged; every call returns; non-trivial = a command sent at least 3 times, or retries of a command ended by a negative RetryDelay answer")
	defer c.Flush()
	rapid.Check(t, func(rt *rapid.T) {
		plan := genC28Plan(rt)
		saveCase("c28", plan)
		t0 := time.Now()
		run := kRunPlan(t, plan)
		kSlow("c28", plan, t0)
		if run.Res.Frozen {
			c.Inconclusive("virtual-clock-freeze")
			return
		}
		if run.NewErr != "" {
			c.Inconclusive("new-client-failed")
			return
		}
		nt, classes := c28Check(c, rt, plan, run)
		c.Eval(nt, planKey(plan), classes...)
		c.Sample(nt, func() any { return plan })
	})
}
