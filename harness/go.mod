module verif/harness

go 1.25.0

require (
	github.com/redis/rueidis v1.0.76
	github.com/redis/rueidis/mock v1.0.76
	github.com/redis/rueidis/om v0.0.0
	github.com/redis/rueidis/rueidisaside v0.0.0
	github.com/redis/rueidis/rueidiscompat v1.0.76
	github.com/redis/rueidis/rueidiscompatmock v0.0.0
	github.com/redis/rueidis/rueidishook v0.0.0
	github.com/redis/rueidis/rueidislimiter v0.0.0
	github.com/redis/rueidis/rueidisprob v0.0.0
	go.uber.org/mock v0.6.0
	pgregory.net/rapid v1.3.0
	verifkit v0.0.0
)

require (
	github.com/oklog/ulid/v2 v2.1.1 // indirect
	github.com/twmb/murmur3 v1.1.8 // indirect
	golang.org/x/sys v0.43.0 // indirect
)

replace (
	github.com/redis/rueidis => /repo
	github.com/redis/rueidis/mock => /repo/mock
	github.com/redis/rueidis/om => /repo/om
	github.com/redis/rueidis/rueidisaside => /repo/rueidisaside
	github.com/redis/rueidis/rueidiscompat => /repo/rueidiscompat
	github.com/redis/rueidis/rueidiscompatmock => /repo/rueidiscompatmock
	github.com/redis/rueidis/rueidishook => /repo/rueidishook
	github.com/redis/rueidis/rueidislimiter => /repo/rueidislimiter
	github.com/redis/rueidis/rueidisprob => /repo/rueidisprob
	verifkit => /verif/kit
)
