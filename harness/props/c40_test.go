package props

// C40 "Object-mapping saves are optimistic and round-trip": generated histories over
// om.NewHashRepository / om.NewJSONRepository (single client, fake server, synctest bubble).

import (
	"context"
	"encoding/json"
	"errors"
	"fmt"
	"math"
	"os"
	"reflect"
	"runtime"
	"sort"
	"strconv"
	"strings"
	"sync"
	"testing"
	"time"
	"unicode/utf8"

	"github.com/redis/rueidis"
	"github.com/redis/rueidis/om"
	"pgregory.net/rapid"
	"verif/harness/sim"
	"verifkit/bubble"
	"verifkit/fakeredis"
	"verifkit/resp"
	"verifkit/stat"
)

// ---- entity types

type c40Inner struct {
	A string  `json:"a"`
	N int64   `json:"n"`
	F float64 `json:"f"`
}

// c40H uses exactly the field kinds the hash converter table (om/conv.go) lists: string, int64, bool,
// struct (JSON encoded, time.Time included), pointers to those, []byte, []float32, []float64, []struct.
type c40H struct {
	Key   string     `json:"key" redis:",key"`
	Ver   int64      `json:"ver" redis:",ver"`
	Exat  time.Time  `json:"exat" redis:",exat"`
	Str   string     `json:"str"`
	I64   int64      `json:"i64"`
	B     bool       `json:"b"`
	T     time.Time  `json:"t"`
	In    c40Inner   `json:"in"`
	PS    *string    `json:"ps"`
	PI    *int64     `json:"pi"`
	PB    *bool      `json:"pb"`
	PIn   *c40Inner  `json:"pin"`
	Bytes []byte     `json:"bytes"`
	F32   []float32  `json:"f32"`
	F64   []float64  `json:"f64"`
	Ins   []c40Inner `json:"ins"`
	NoTag string
}

// c40J adds the kinds only the JSON repository supports (it stores json.Marshal of the entity).
type c40J struct {
	Key   string     `json:"key" redis:",key"`
	Ver   int64      `json:"ver" redis:",ver"`
	Exat  time.Time  `json:"exat" redis:",exat"`
	Str   string     `json:"str"`
	I64   int64      `json:"i64"`
	B     bool       `json:"b"`
	T     time.Time  `json:"t"`
	In    c40Inner   `json:"in"`
	PS    *string    `json:"ps"`
	PI    *int64     `json:"pi"`
	PB    *bool      `json:"pb"`
	PIn   *c40Inner  `json:"pin"`
	Bytes []byte     `json:"bytes"`
	F32   []float32  `json:"f32"`
	F64   []float64  `json:"f64"`
	Ins   []c40Inner `json:"ins"`
	NoTag string
	I     int               `json:"i"`
	I8    int8              `json:"i8"`
	I16   int16             `json:"i16"`
	I32   int32             `json:"i32"`
	U8    uint8             `json:"u8"`
	U16   uint16            `json:"u16"`
	U32   uint32            `json:"u32"`
	U64   uint64            `json:"u64"`
	Fl32  float32           `json:"fl32"`
	Fl64  float64           `json:"fl64"`
	PF    *float64          `json:"pf"`
	Strs  []string          `json:"strs"`
	Ints  []int             `json:"ints"`
	M     map[string]string `json:"m"`
	Arr   [2]int8           `json:"arr"`
}

// c40Vals is the generated content of one entity state (plan data; applied to c40H / c40J by field name).
type c40Vals struct {
	Str    string            `json:"str"`
	I64    int64             `json:"i64"`
	B      bool              `json:"b"`
	TSec   int64             `json:"t_sec"`
	TNsec  int64             `json:"t_nsec"`
	In     c40Inner          `json:"in"`
	PS     *string           `json:"ps"`
	PI     *int64            `json:"pi"`
	PB     *bool             `json:"pb"`
	PIn    *c40Inner         `json:"pin"`
	Bytes  []byte            `json:"bytes"`
	F32    []float32         `json:"f32"`
	F64    []float64         `json:"f64"`
	Ins    []c40Inner        `json:"ins"`
	NoTag  string            `json:"notag"`
	I      int               `json:"i"`
	I8     int8              `json:"i8"`
	I16    int16             `json:"i16"`
	I32    int32             `json:"i32"`
	U8     uint8             `json:"u8"`
	U16    uint16            `json:"u16"`
	U32    uint32            `json:"u32"`
	U64    uint64            `json:"u64"`
	Fl32   float32           `json:"fl32"`
	Fl64   float64           `json:"fl64"`
	PF     *float64          `json:"pf"`
	Strs   []string          `json:"strs"`
	Ints   []int             `json:"ints"`
	M      map[string]string `json:"m"`
	Arr    [2]int8           `json:"arr"`
	ExatMs int64             `json:"exat_ms"` // 0: no expiry; else expiry = virtual now + this many ms (far future)
}

// c40Elem is one entity of a SaveMulti batch: a copy of slot Ent's current in-memory entity with new values
// ("fresh"; a second copy of the same slot is a duplicate writer on the same version) or a copy of an outdated
// in-memory state of that slot ("stale").
type c40Elem struct {
	Ent  int    `json:"ent"`
	Mode string `json:"mode"` // fresh stale
}

type c40Step struct {
	Kind   string    `json:"kind"` // new save fetch race stale remove multi
	Ent    int       `json:"ent"`
	Elems  []c40Elem `json:"elems,omitempty"` // multi: one per entry of Vals
	Key    string    `json:"key,omitempty"`   // new: "" => keep the ULID of NewEntity
	Vals   []c40Vals `json:"vals,omitempty"`
	OffUs  []int     `json:"off_us,omitempty"` // race: start offset of each Save
	Cached bool      `json:"cached,omitempty"` // verification read through FetchCache instead of Fetch
}

type c40Plan struct {
	Repo      string    `json:"repo"` // hash | json
	LatUs     []int     `json:"lat_us"`
	Multiplex int       `json:"multiplex"` // ClientOption.PipelineMultiplex (-1: one connection)
	Steps     []c40Step `json:"steps"`
	Quoted    []string  `json:"quoted,omitempty"` // Go-quoted copies of the binary strings (the JSON dump of a plan is lossy for them)
}

// ---- generators

var c40Int64s = []int64{0, 1, -1, 42, math.MaxInt64, math.MinInt64, math.MaxInt32, 1 << 53, -(1 << 53) - 1}
var c40Floats = []float64{0, 1, -1.5, 0.1, math.MaxFloat64, -math.MaxFloat64, math.SmallestNonzeroFloat64, 1e21, 1e-7, 123456789.125, math.Copysign(0, -1)}
var c40Floats32 = []float32{0, 1, -1.5, 0.1, math.MaxFloat32, -math.MaxFloat32, math.SmallestNonzeroFloat32, 1e21, 16777217}

func c40GenUTF8(rt *rapid.T, label string) string {
	return rapid.OneOf(
		rapid.SampledFrom([]string{"", "a", "hello world", "<tag> & \"quote\" \\ back", "日本語 ✓  ", "line\nbreak\ttab\x00nul", "null", "0", "t", "{\"a\":1}"}),
		rapid.StringN(0, 12, 40),
	).Draw(rt, label)
}

func c40GenBytes(rt *rapid.T, label string) []byte {
	return rapid.OneOf(
		rapid.SampledFrom([][]byte{nil, {}, {0}, {0xff, 0xfe, 0xfd}, {0xc3, 0x28}, []byte("plain"), {'\r', '\n', '$', '-', '1', '\r', '\n'}, {0xed, 0xa0, 0x80}}),
		rapid.SliceOfN(rapid.Byte(), 0, 24),
	).Draw(rt, label)
}

func c40GenInner(rt *rapid.T, label string) c40Inner {
	return c40Inner{A: c40GenUTF8(rt, label+".a"), N: rapid.SampledFrom(c40Int64s).Draw(rt, label+".n"), F: rapid.SampledFrom(c40Floats).Draw(rt, label+".f")}
}

func c40GenVals(rt *rapid.T, hash bool) c40Vals {
	var v c40Vals
	if hash && rapid.Bool().Draw(rt, "binaryStr") {
		v.Str = string(c40GenBytes(rt, "strBytes")) // hash fields are raw strings: any bytes
	} else {
		v.Str = c40GenUTF8(rt, "str")
	}
	v.I64 = rapid.OneOf(rapid.SampledFrom(c40Int64s), rapid.Int64()).Draw(rt, "i64")
	v.B = rapid.Bool().Draw(rt, "b")
	if rapid.Bool().Draw(rt, "hasT") {
		v.TSec = rapid.Int64Range(-62135596800, 253402300799).Draw(rt, "tsec")
		v.TNsec = rapid.SampledFrom([]int64{0, 1, 999999999, 123456000}).Draw(rt, "tnsec")
	} else {
		v.TSec, v.TNsec = -62135596800, 0 // the zero time
	}
	v.In = c40GenInner(rt, "in")
	if rapid.Bool().Draw(rt, "hasPS") {
		s := c40GenUTF8(rt, "ps")
		if hash && rapid.Bool().Draw(rt, "psBinary") {
			s = string(c40GenBytes(rt, "psBytes"))
		}
		v.PS = &s
	}
	if rapid.Bool().Draw(rt, "hasPI") {
		n := rapid.SampledFrom(c40Int64s).Draw(rt, "pi")
		v.PI = &n
	}
	if rapid.Bool().Draw(rt, "hasPB") {
		b := rapid.Bool().Draw(rt, "pb")
		v.PB = &b
	}
	if rapid.Bool().Draw(rt, "hasPIn") {
		in := c40GenInner(rt, "pin")
		v.PIn = &in
	}
	v.Bytes = c40GenBytes(rt, "bytes")
	v.F32 = rapid.SliceOfN(rapid.SampledFrom(c40Floats32), 0, 4).Draw(rt, "f32")
	v.F64 = rapid.SliceOfN(rapid.SampledFrom(c40Floats), 0, 4).Draw(rt, "f64")
	nIns := rapid.IntRange(0, 2).Draw(rt, "nIns")
	for i := 0; i < nIns; i++ {
		v.Ins = append(v.Ins, c40GenInner(rt, "ins"))
	}
	v.NoTag = c40GenUTF8(rt, "notag")
	if rapid.IntRange(0, 3).Draw(rt, "exat") == 0 {
		v.ExatMs = int64(rapid.IntRange(3600_000, 7200_000).Draw(rt, "exatMs"))
	}
	if hash {
		return v
	}
	v.I = rapid.SampledFrom([]int{0, -1, math.MaxInt64, math.MinInt64, 7}).Draw(rt, "i")
	v.I8 = rapid.SampledFrom([]int8{0, math.MaxInt8, math.MinInt8}).Draw(rt, "i8")
	v.I16 = rapid.SampledFrom([]int16{0, math.MaxInt16, math.MinInt16}).Draw(rt, "i16")
	v.I32 = rapid.SampledFrom([]int32{0, math.MaxInt32, math.MinInt32}).Draw(rt, "i32")
	v.U8 = rapid.SampledFrom([]uint8{0, math.MaxUint8}).Draw(rt, "u8")
	v.U16 = rapid.SampledFrom([]uint16{0, math.MaxUint16}).Draw(rt, "u16")
	v.U32 = rapid.SampledFrom([]uint32{0, math.MaxUint32}).Draw(rt, "u32")
	v.U64 = rapid.SampledFrom([]uint64{0, math.MaxInt64, 1 << 53}).Draw(rt, "u64")
	v.Fl32 = rapid.SampledFrom(c40Floats32).Draw(rt, "fl32")
	v.Fl64 = rapid.SampledFrom(c40Floats).Draw(rt, "fl64")
	if rapid.Bool().Draw(rt, "hasPF") {
		f := rapid.SampledFrom(c40Floats).Draw(rt, "pf")
		v.PF = &f
	}
	nS := rapid.IntRange(0, 3).Draw(rt, "nStrs")
	for i := 0; i < nS; i++ {
		v.Strs = append(v.Strs, c40GenUTF8(rt, "strs"))
	}
	v.Ints = rapid.SliceOfN(rapid.SampledFrom([]int{0, -1, math.MaxInt64, math.MinInt64}), 0, 3).Draw(rt, "ints")
	nM := rapid.IntRange(0, 2).Draw(rt, "nM")
	for i := 0; i < nM; i++ {
		if v.M == nil {
			v.M = map[string]string{}
		}
		v.M[c40GenUTF8(rt, "mk")] = c40GenUTF8(rt, "mv")
	}
	v.Arr = [2]int8{rapid.Int8().Draw(rt, "arr0"), rapid.Int8().Draw(rt, "arr1")}
	return v
}

func genC40Plan(rt *rapid.T) c40Plan {
	p := c40Plan{Repo: rapid.SampledFrom([]string{"hash", "json"}).Draw(rt, "repo")}
	hash := p.Repo == "hash"
	p.Multiplex = rapid.SampledFrom([]int{-1, 0, 1}).Draw(rt, "multiplex")
	p.LatUs = rapid.SliceOfN(rapid.SampledFrom([]int{0, 0, 50, 300, 1000}), 1, 4).Draw(rt, "lat")
	n := rapid.IntRange(2, 10).Draw(rt, "steps")
	exists := [2]bool{}
	for i := 0; i < n; i++ {
		st := c40Step{Ent: rapid.IntRange(0, 1).Draw(rt, "ent"), Cached: rapid.Bool().Draw(rt, "cached")}
		if !exists[st.Ent] {
			st.Kind = "new"
		} else {
			st.Kind = rapid.SampledFrom([]string{"save", "save", "fetch", "race", "race", "race", "stale", "remove", "new", "multi", "multi", "multi"}).Draw(rt, "kind")
		}
		switch st.Kind {
		case "new":
			if rapid.Bool().Draw(rt, "customKey") {
				st.Key = fmt.Sprintf("id%d-", st.Ent) + rapid.SampledFrom([]string{"plain", "with space", "co:lon", "ünï", "{tag}", ""}).Draw(rt, "keySuffix")
			}
			st.Vals = []c40Vals{c40GenVals(rt, hash)}
			exists[st.Ent] = true
		case "save", "stale":
			st.Vals = []c40Vals{c40GenVals(rt, hash)}
		case "race":
			k := rapid.IntRange(1, 5).Draw(rt, "racers")
			same := rapid.Bool().Draw(rt, "sameInstant")
			for j := 0; j < k; j++ {
				st.Vals = append(st.Vals, c40GenVals(rt, hash))
				if same {
					st.OffUs = append(st.OffUs, 0)
				} else {
					st.OffUs = append(st.OffUs, rapid.SampledFrom([]int{0, 0, 1, 100, 400, 2000}).Draw(rt, "off"))
				}
			}
		case "multi":
			k := rapid.IntRange(2, 6).Draw(rt, "batch")
			for j := 0; j < k; j++ {
				el := c40Elem{Ent: rapid.IntRange(0, 1).Draw(rt, "elEnt"), Mode: rapid.SampledFrom([]string{"fresh", "fresh", "stale"}).Draw(rt, "elMode")}
				if j == 0 {
					el.Ent = st.Ent // at least one element of an existing record
				}
				st.Elems = append(st.Elems, el)
				st.Vals = append(st.Vals, c40GenVals(rt, hash))
			}
		case "remove":
			exists[st.Ent] = false
		}
		p.Steps = append(p.Steps, st)
	}
	for _, st := range p.Steps {
		for _, v := range st.Vals {
			if !utf8.ValidString(v.Str) {
				p.Quoted = append(p.Quoted, strconv.Quote(v.Str))
			}
		}
	}
	return p
}

// ---- applying values and comparing entities (reflection by field name, shared by c40H and c40J)

func c40Apply(dst any, v c40Vals, now time.Time) {
	d := reflect.ValueOf(dst).Elem()
	src := reflect.ValueOf(v)
	for i := 0; i < d.NumField(); i++ {
		name := d.Type().Field(i).Name
		switch name {
		case "Key", "Ver":
			continue
		case "T":
			d.Field(i).Set(reflect.ValueOf(time.Unix(v.TSec, v.TNsec).UTC()))
			continue
		case "Exat":
			if v.ExatMs != 0 {
				d.Field(i).Set(reflect.ValueOf(now.Round(0).UTC().Add(time.Duration(v.ExatMs) * time.Millisecond)))
			} else {
				d.Field(i).Set(reflect.ValueOf(time.Time{}))
			}
			continue
		}
		f := src.FieldByName(name)
		if !f.IsValid() {
			panic("harness: no plan value for field " + name)
		}
		d.Field(i).Set(c40Clone(f))
	}
}

// c40Clone deep-copies a value so that entities never share memory with the plan or with each other.
func c40Clone(v reflect.Value) reflect.Value {
	switch v.Kind() {
	case reflect.Ptr:
		if v.IsNil() {
			return v
		}
		n := reflect.New(v.Type().Elem())
		n.Elem().Set(c40Clone(v.Elem()))
		return n
	case reflect.Slice:
		if v.IsNil() {
			return v
		}
		n := reflect.MakeSlice(v.Type(), v.Len(), v.Len())
		for i := 0; i < v.Len(); i++ {
			n.Index(i).Set(c40Clone(v.Index(i)))
		}
		return n
	case reflect.Map:
		if v.IsNil() {
			return v
		}
		n := reflect.MakeMap(v.Type())
		for _, k := range v.MapKeys() {
			n.SetMapIndex(k, c40Clone(v.MapIndex(k)))
		}
		return n
	case reflect.Struct:
		if v.Type() == reflect.TypeOf(time.Time{}) {
			return v
		}
		n := reflect.New(v.Type()).Elem()
		for i := 0; i < v.NumField(); i++ {
			n.Field(i).Set(c40Clone(v.Field(i)))
		}
		return n
	}
	return v
}

func c40CloneEnt[T any](e *T) *T {
	n := c40Clone(reflect.ValueOf(e).Elem())
	out := new(T)
	reflect.ValueOf(out).Elem().Set(n)
	return out
}

// c40Diff compares two values like reflect.DeepEqual but treats nil and empty slices/maps as equal,
// compares time.Time with Equal and floats by value (NaN never generated). Returns "" when equal.
func c40Diff(path string, a, b reflect.Value) string { return c40DiffOpt(path, a, b, nil) }

// c40DiffOpt: with kept != nil a top-level scalar pointer that is nil in a (the saved entity) but set in b
// (the fetched one) is appended to kept instead of being reported (see finding C40.hash-nil-pointer-kept).
func c40DiffOpt(path string, a, b reflect.Value, kept *[]string) string {
	if a.Type() != b.Type() {
		return path + ": types differ"
	}
	switch a.Kind() {
	case reflect.Ptr:
		if kept != nil && a.IsNil() && !b.IsNil() && a.Type().Elem().Kind() != reflect.Struct && strings.Count(path, ".") == 1 {
			*kept = append(*kept, fmt.Sprintf("%s: saved nil, fetched %s", path, c40Show(b)))
			return ""
		}
		if a.IsNil() != b.IsNil() {
			return fmt.Sprintf("%s: nil-ness differs (%v vs %v)", path, c40Show(a), c40Show(b))
		}
		if a.IsNil() {
			return ""
		}
		return c40Diff(path, a.Elem(), b.Elem())
	case reflect.Slice:
		if a.Len() != b.Len() {
			return fmt.Sprintf("%s: length %d vs %d (%v vs %v)", path, a.Len(), b.Len(), c40Show(a), c40Show(b))
		}
		for i := 0; i < a.Len(); i++ {
			if d := c40Diff(fmt.Sprintf("%s[%d]", path, i), a.Index(i), b.Index(i)); d != "" {
				return d
			}
		}
		return ""
	case reflect.Array:
		for i := 0; i < a.Len(); i++ {
			if d := c40Diff(fmt.Sprintf("%s[%d]", path, i), a.Index(i), b.Index(i)); d != "" {
				return d
			}
		}
		return ""
	case reflect.Map:
		if a.Len() != b.Len() {
			return fmt.Sprintf("%s: map size %d vs %d", path, a.Len(), b.Len())
		}
		for _, k := range a.MapKeys() {
			bv := b.MapIndex(k)
			if !bv.IsValid() {
				return fmt.Sprintf("%s: key %v missing", path, k)
			}
			if d := c40Diff(fmt.Sprintf("%s[%v]", path, k), a.MapIndex(k), bv); d != "" {
				return d
			}
		}
		return ""
	case reflect.Struct:
		if a.Type() == reflect.TypeOf(time.Time{}) {
			ta, tb := a.Interface().(time.Time), b.Interface().(time.Time)
			if !ta.Equal(tb) {
				return fmt.Sprintf("%s: %v vs %v", path, ta, tb)
			}
			return ""
		}
		for i := 0; i < a.NumField(); i++ {
			if d := c40DiffOpt(path+"."+a.Type().Field(i).Name, a.Field(i), b.Field(i), kept); d != "" {
				return d
			}
		}
		return ""
	case reflect.Float32, reflect.Float64:
		if a.Float() != b.Float() {
			return fmt.Sprintf("%s: %v vs %v", path, a.Float(), b.Float())
		}
		return ""
	}
	if !reflect.DeepEqual(a.Interface(), b.Interface()) {
		return fmt.Sprintf("%s: %v vs %v", path, c40Show(a), c40Show(b))
	}
	return ""
}

func c40Show(v reflect.Value) string {
	if v.Kind() == reflect.Ptr && !v.IsNil() {
		return "&" + c40Show(v.Elem())
	}
	s := fmt.Sprintf("%#v", v.Interface())
	if len(s) > 80 {
		s = s[:80] + "..."
	}
	return s
}

// ---- observations

type c40SaveObs struct {
	Racer    int    `json:"racer"`
	Slot     int    `json:"slot"`
	Mode     string `json:"mode,omitempty"` // multi: fresh stale
	BaseVer  int64  `json:"base_ver"`
	AfterVer int64  `json:"after_ver"`
	Err      string `json:"err,omitempty"`
	Mismatch bool   `json:"mismatch"`
	Done     bool   `json:"done"`
	ent      any
	StartUs  int64 `json:"start_us"`
	EndUs    int64 `json:"end_us"`
}

type c40StepObs struct {
	Step       int          `json:"step"`
	Kind       string       `json:"kind"`
	Saves      []c40SaveObs `json:"saves,omitempty"`
	ModelVer   int64        `json:"model_ver"`            // version of the model entity after the step (-1: no record)
	StoredVer  string       `json:"stored_ver,omitempty"` // version field as stored on the server after the step
	FetchErr   string       `json:"fetch_err,omitempty"`
	NotFound   bool         `json:"not_found,omitempty"`
	Diff       string       `json:"diff,omitempty"` // fetched vs model
	NilKept    []string     `json:"nil_kept,omitempty"`
	Fetched    bool         `json:"fetched"`
	HashFields []string     `json:"hash_fields,omitempty"`
	WantFields []string     `json:"want_fields,omitempty"`
	RemoveErr  string       `json:"remove_err,omitempty"`
	Violations []string     `json:"-"`
	viol       [][2]string
}

type c40Run struct {
	Res     bubble.Result
	Obs     []*c40StepObs
	Unsupp  bool
	Pending bool
	Events  []fakeredis.Event
}

func c40Exec[T any](t *testing.T, plan c40Plan, mk func(c rueidis.Client) om.Repository[T]) (run c40Run) {
	var mu sync.Mutex
	run.Res = bubble.Run(t, func() {
		w := fakeredis.NewWorld()
		srv := w.NewServer("127.0.0.1:6379")
		var latN int
		var latMu sync.Mutex
		srv.Hooks.Latency = func(c *fakeredis.Conn, req int, argv []string) time.Duration {
			if c.BurstIdx != 0 {
				return 0
			}
			switch strings.ToUpper(argv[0]) {
			case "EVALSHA", "EVAL", "HGETALL", "JSON.GET", "DEL", "EXEC":
				latMu.Lock()
				d := plan.LatUs[latN%len(plan.LatUs)]
				latN++
				latMu.Unlock()
				return time.Duration(d) * time.Microsecond
			}
			return 0
		}
		opt := sim.Option(w, "127.0.0.1:6379")
		opt.ForceSingleClient = true
		opt.DisableRetry = true
		opt.WriteBufferEachConn = 1 << 20
		opt.PipelineMultiplex = plan.Multiplex
		client, err := rueidis.NewClient(opt)
		if err != nil {
			panic(fmt.Sprintf("harness: NewClient failed: %v", err))
		}
		repo := mk(client)
		clock := sim.NewClock()
		ctx := context.Background()
		model := [2]*T{}     // last successfully saved state per slot (nil: no record)
		mem := [2]*T{}       // the caller's in-memory entity per slot
		history := [2][]*T{} // older in-memory copies (for stale saves)
		verOf := func(e *T) int64 { return reflect.ValueOf(e).Elem().FieldByName("Ver").Int() }
		keyOf := func(e *T) string { return reflect.ValueOf(e).Elem().FieldByName("Key").String() }
		note := func(o *c40StepObs, clause, detail string) { o.viol = append(o.viol, [2]string{clause, detail}) }
		isUnsupp := func(err error) bool {
			return err != nil && strings.Contains(err.Error(), "FAKEREDIS-LUA-UNSUPPORTED")
		}
		redisKey := func(e *T) string { return "p40:" + keyOf(e) }
		storedVer := func(e *T) string {
			var v resp.Value
			if plan.Repo == "hash" {
				v = srv.Do("HGET", redisKey(e), "ver")
			} else {
				v = srv.Do("JSON.GET", redisKey(e), "ver")
			}
			if v.T == '_' {
				return "<nil>"
			}
			return v.S
		}
		verify := func(o *c40StepObs, slot int, cached bool) {
			// read back and compare with the model
			e := mem[slot]
			var got *T
			var err error
			if cached {
				// Commands go to a random connection of the client while the cached read of a key always uses the
				// same one, so the invalidation caused by a Save travels on another connection than the Save's
				// reply: "afterwards" means after that push has been delivered (every goroutine idle).
				bubble.Wait()
				got, err = repo.FetchCache(ctx, keyOf(e), time.Minute)
			} else {
				got, err = repo.Fetch(ctx, keyOf(e))
			}
			o.Fetched = true
			if model[slot] == nil {
				o.ModelVer = -1
				if err == nil {
					note(o, "C40.fetch-after-remove", fmt.Sprintf("Fetch of a removed entity returned %+v", *got))
				} else if !om.IsRecordNotFound(err) {
					o.FetchErr = err.Error()
				} else {
					o.NotFound = true
				}
				return
			}
			o.ModelVer = verOf(model[slot])
			o.StoredVer = storedVer(e)
			if err != nil {
				o.FetchErr = err.Error()
				note(o, "C40.fetch-round-trip", fmt.Sprintf("Fetch (cached=%v) after a successful Save failed: %v", cached, err))
				return
			}
			var kept *[]string
			if plan.Repo == "hash" {
				kept = &o.NilKept
			}
			o.Diff = c40DiffOpt("entity", reflect.ValueOf(model[slot]).Elem(), reflect.ValueOf(got).Elem(), kept)
			if plan.Repo == "hash" {
				hv := srv.Do("HGETALL", redisKey(e))
				for i := 0; i+1 < len(hv.A); i += 2 {
					o.HashFields = append(o.HashFields, hv.A[i].S)
				}
				sort.Strings(o.HashFields)
				mv := reflect.ValueOf(model[slot]).Elem()
				for i := 0; i < mv.NumField(); i++ {
					sf := mv.Type().Field(i)
					name := sf.Tag.Get("json")
					if name == "" {
						name = sf.Name
					}
					if mv.Field(i).Kind() == reflect.Ptr && mv.Field(i).IsNil() && mv.Field(i).Type().Elem().Kind() != reflect.Struct {
						continue // nil scalar pointers are documented-by-code as "not written"
					}
					o.WantFields = append(o.WantFields, name)
				}
				sort.Strings(o.WantFields)
			}
		}
		save := func(o *c40StepObs, e *T, racer int) c40SaveObs {
			so := c40SaveObs{Racer: racer, BaseVer: verOf(e), ent: e, StartUs: clock.Us()}
			err := repo.Save(ctx, e)
			so.EndUs = clock.Us()
			so.Done = true
			so.AfterVer = verOf(e)
			if err != nil {
				so.Err = err.Error()
				so.Mismatch = errors.Is(err, om.ErrVersionMismatch)
				if isUnsupp(err) {
					mu.Lock()
					run.Unsupp = true
					mu.Unlock()
				}
			}
			return so
		}
		for si, st := range plan.Steps {
			o := &c40StepObs{Step: si, Kind: st.Kind, ModelVer: -1}
			mu.Lock()
			run.Obs = append(run.Obs, o)
			mu.Unlock()
			slot := st.Ent
			switch st.Kind {
			case "new":
				e := repo.NewEntity()
				if k := keyOf(e); len(k) != 26 {
					note(o, "C40.new-entity-key", fmt.Sprintf("NewEntity key %q is not a 26 character ULID", k))
				}
				if st.Key != "" {
					reflect.ValueOf(e).Elem().FieldByName("Key").SetString(st.Key)
				}
				if st.Key != "" {
					// re-creating an existing id from version 0 would be a stale save; keep the plan simple: remove first
					srv.Do("DEL", "p40:"+st.Key)
				}
				c40Apply(e, st.Vals[0], time.Now())
				mem[slot], model[slot], history[slot] = e, nil, nil
				so := save(o, e, 0)
				o.Saves = append(o.Saves, so)
				if so.Err == "" {
					model[slot] = c40CloneEnt(e)
				}
				verify(o, slot, st.Cached)
			case "save":
				e := mem[slot]
				history[slot] = append(history[slot], c40CloneEnt(e))
				c40Apply(e, st.Vals[0], time.Now())
				so := save(o, e, 0)
				o.Saves = append(o.Saves, so)
				if so.Err == "" {
					model[slot] = c40CloneEnt(e)
				}
				verify(o, slot, st.Cached)
			case "fetch":
				verify(o, slot, st.Cached)
			case "stale":
				if len(history[slot]) == 0 || model[slot] == nil {
					o.Kind = "stale-skipped"
					break
				}
				old := c40CloneEnt(history[slot][0])
				c40Apply(old, st.Vals[0], time.Now())
				so := save(o, old, 0)
				o.Saves = append(o.Saves, so)
				verify(o, slot, st.Cached)
			case "race":
				if model[slot] == nil {
					o.Kind = "race-skipped"
					break
				}
				base := mem[slot]
				history[slot] = append(history[slot], c40CloneEnt(base))
				saves := make([]c40SaveObs, len(st.Vals))
				ents := make([]*T, len(st.Vals))
				var wg sync.WaitGroup
				for j := range st.Vals {
					ents[j] = c40CloneEnt(base)
					c40Apply(ents[j], st.Vals[j], time.Now())
					saves[j] = c40SaveObs{Racer: j, BaseVer: verOf(ents[j])}
					wg.Add(1)
					go func(j int) {
						defer wg.Done()
						time.Sleep(time.Duration(st.OffUs[j]) * time.Microsecond)
						so := save(o, ents[j], j)
						mu.Lock()
						saves[j] = so
						mu.Unlock()
					}(j)
				}
				if !sim.WaitTimeout(&wg, time.Minute) {
					mu.Lock()
					run.Pending = true
					o.Saves = append([]c40SaveObs(nil), saves...)
					mu.Unlock()
					goto out
				}
				o.Saves = saves
				for j, so := range saves {
					if so.Err == "" {
						mem[slot] = ents[j]
						model[slot] = c40CloneEnt(ents[j])
					}
				}
				verify(o, slot, st.Cached)
			case "multi":
				var ents []*T
				var saves []c40SaveObs
				pushed := map[int]bool{}
				for j, el := range st.Elems {
					if model[el.Ent] == nil {
						continue // no record: every version would be accepted, nothing to tell apart
					}
					var e *T
					mode := el.Mode
					if mode == "stale" && (len(history[el.Ent]) == 0 || verOf(history[el.Ent][0]) >= verOf(mem[el.Ent])) {
						mode = "fresh"
					}
					if mode == "stale" {
						e = c40CloneEnt(history[el.Ent][0])
					} else {
						e = c40CloneEnt(mem[el.Ent])
					}
					c40Apply(e, st.Vals[j], time.Now())
					ents = append(ents, e)
					saves = append(saves, c40SaveObs{Racer: j, Slot: el.Ent, Mode: mode, BaseVer: verOf(e), ent: e, StartUs: clock.Us()})
				}
				if len(ents) == 0 {
					o.Kind = "multi-skipped"
					break
				}
				for _, so := range saves {
					if !pushed[so.Slot] {
						pushed[so.Slot] = true
						history[so.Slot] = append(history[so.Slot], c40CloneEnt(mem[so.Slot]))
					}
				}
				var errs []error
				if !sim.CallTimeout(time.Minute, func() { errs = repo.SaveMulti(ctx, ents...) }) {
					mu.Lock()
					run.Pending = true
					mu.Unlock()
					goto out
				}
				for j := range saves {
					saves[j].EndUs, saves[j].Done, saves[j].AfterVer = clock.Us(), true, verOf(ents[j])
					var err error = errors.New("harness: SaveMulti returned fewer errors than entities")
					if j < len(errs) {
						err = errs[j]
					}
					if err != nil {
						saves[j].Err = err.Error()
						saves[j].Mismatch = errors.Is(err, om.ErrVersionMismatch)
						if isUnsupp(err) {
							mu.Lock()
							run.Unsupp = true
							mu.Unlock()
						}
					} else if saves[j].Mode != "stale" {
						mem[saves[j].Slot] = ents[j]
						model[saves[j].Slot] = c40CloneEnt(ents[j])
					}
				}
				o.Saves = saves
				for _, sl := range []int{0, 1} {
					if pushed[sl] {
						vo := &c40StepObs{Step: si, Kind: "multi-verify", ModelVer: -1}
						mu.Lock()
						run.Obs = append(run.Obs, vo)
						mu.Unlock()
						verify(vo, sl, st.Cached)
					}
				}
			case "remove":
				e := mem[slot]
				if err := repo.Remove(ctx, keyOf(e)); err != nil {
					o.RemoveErr = err.Error()
				}
				model[slot] = nil
				verify(o, slot, st.Cached)
			}
		}
	out:
		sim.CallTimeout(time.Minute, client.Close)
		w.Stop()
		run.Events = w.Snapshot()
		time.Sleep(5 * time.Second)
	})
	return
}

func c40Check(c *stat.Collector, rt stat.Fataler, plan c40Plan, run c40Run) (nt bool, classes []string) {
	if run.Res.Deadlock || run.Pending {
		c.Fail(rt, "C40.no-hang", "a Save never returned: "+run.Res.String(), plan)
	}
	if run.Res.Panic != nil {
		c.Fail(rt, "C40.no-panic", run.Res.String(), plan)
	}
	cls := map[string]bool{plan.Repo: true}
	maxRace := 0
	multiBatch := false
	for _, o := range run.Obs {
		where := fmt.Sprintf("step %d (%s)", o.Step, o.Kind)
		for _, v := range o.viol {
			c.Fail(rt, v[0], where+": "+v[1], plan)
		}
		ok, mism, other := 0, 0, 0
		for _, so := range o.Saves {
			switch {
			case so.Err == "":
				ok++
				if so.AfterVer != so.BaseVer+1 {
					c.Fail(rt, "C40.version-advances-by-one", fmt.Sprintf("%s racer %d: successful Save moved the in-memory version from %d to %d", where, so.Racer, so.BaseVer, so.AfterVer), plan)
				}
			case so.Mismatch:
				mism++
				if so.AfterVer != so.BaseVer {
					c.Fail(rt, "C40.failed-save-keeps-version", fmt.Sprintf("%s racer %d: failed Save changed the in-memory version from %d to %d", where, so.Racer, so.BaseVer, so.AfterVer), plan)
				}
			default:
				other++
			}
		}
		switch o.Kind {
		case "race":
			if len(o.Saves) > maxRace {
				maxRace = len(o.Saves)
			}
			cls[fmt.Sprintf("race-%d", len(o.Saves))] = true
			if ok > 1 {
				c.Fail(rt, "C40.at-most-one-winner", fmt.Sprintf("%s: %d of %d concurrent Saves based on version %d succeeded: %s", where, ok, len(o.Saves), o.Saves[0].BaseVer, c40J2(o.Saves)), plan)
			}
			if other > 0 || (ok == 1 && mism != len(o.Saves)-1) {
				c.Fail(rt, "C40.losers-get-version-mismatch", fmt.Sprintf("%s: losers must return ErrVersionMismatch: %s", where, c40J2(o.Saves)), plan)
			}
			if ok == 0 {
				c.Fail(rt, "C40.current-version-saves", fmt.Sprintf("%s: no Save based on the current version %d succeeded although nothing else wrote the record: %s", where, o.Saves[0].BaseVer, c40J2(o.Saves)), plan)
			}
		case "multi":
			cls["multi-batch"] = true
			if len(o.Saves) >= 2 {
				multiBatch = true
			}
			for _, sl := range []int{0, 1} {
				var cur, stale []c40SaveObs
				for _, so := range o.Saves {
					if so.Slot == sl && so.Mode == "stale" {
						stale = append(stale, so)
					} else if so.Slot == sl {
						cur = append(cur, so)
					}
				}
				wins, bad := 0, 0
				for _, so := range cur {
					if so.Err == "" {
						wins++
					} else if !so.Mismatch {
						bad++
					}
				}
				if len(cur) >= 2 {
					cls["multi-duplicate-writers"] = true
				}
				if wins > 1 {
					c.Fail(rt, "C40.at-most-one-winner", fmt.Sprintf("%s: %d entities of one SaveMulti batch based on version %d of entity %d were saved: %s", where, wins, cur[0].BaseVer, sl, c40J2(o.Saves)), plan)
				}
				if bad > 0 {
					c.Fail(rt, "C40.losers-get-version-mismatch", fmt.Sprintf("%s: the losing writers of entity %d in a SaveMulti batch must get ErrVersionMismatch: %s", where, sl, c40J2(o.Saves)), plan)
				}
				if len(cur) > 0 && wins == 0 {
					c.Fail(rt, "C40.current-version-saves", fmt.Sprintf("%s: no element of the SaveMulti batch based on the current version %d of entity %d was saved although nothing else wrote the record: %s", where, cur[0].BaseVer, sl, c40J2(o.Saves)), plan)
				}
				for _, so := range stale {
					cls["multi-stale-element"] = true
					if so.Err == "" || !so.Mismatch {
						c.Fail(rt, "C40.stale-save-rejected", fmt.Sprintf("%s: element %d of the SaveMulti batch is based on the outdated version %d of entity %d and must get ErrVersionMismatch: %s", where, so.Racer, so.BaseVer, sl, c40J2(o.Saves)), plan)
					}
				}
			}
			// the situation the positional result handling must get right: a rejected element followed by others
			for j, so := range o.Saves {
				if so.Err != "" && j < len(o.Saves)-1 {
					cls["multi-mismatch-not-last"] = true
				}
			}
		case "stale":
			cls["stale-save"] = true
			if ok > 0 || other > 0 {
				c.Fail(rt, "C40.stale-save-rejected", fmt.Sprintf("%s: Save based on the outdated version %d (stored %s) must return ErrVersionMismatch: %s", where, o.Saves[0].BaseVer, o.StoredVer, c40J2(o.Saves)), plan)
			}
		case "new", "save":
			if ok != 1 {
				c.Fail(rt, "C40.current-version-saves", fmt.Sprintf("%s: sequential Save of the current in-memory entity failed: %s", where, c40J2(o.Saves)), plan)
			}
		case "remove":
			cls["remove"] = true
			if o.RemoveErr != "" {
				c.Fail(rt, "C40.remove", where+": Remove failed: "+o.RemoveErr, plan)
			}
		}
		if o.Fetched && o.ModelVer >= 0 {
			if o.StoredVer != strconv.FormatInt(o.ModelVer, 10) {
				c.Fail(rt, "C40.stored-version", fmt.Sprintf("%s: server stores version %s, the successfully saved entity has %d", where, o.StoredVer, o.ModelVer), plan)
			}
			if o.Diff != "" {
				if d := os.Getenv("C40_DEBUG"); d != "" {
					var sb strings.Builder
					for _, e := range run.Events {
						sb.WriteString(e.String() + "\n")
					}
					os.WriteFile(d+"/c40-events.txt", []byte(sb.String()), 0o644)
					os.WriteFile(d+"/c40-plan.json", []byte(c40J2(plan)), 0o644)
					os.WriteFile(d+"/c40-obs.json", []byte(c40J2(run.Obs)), 0o644)
				}
				c.Fail(rt, "C40.fetch-round-trip", fmt.Sprintf("%s: fetched entity differs from the last successfully saved one: %s", where, o.Diff), plan)
			}
			if len(o.NilKept) > 0 {
				cls["hash-pointer-set-to-nil"] = true
				if !c.Known("C40.hash-nil-pointer-kept") {
					c.Fail(rt, "C40.fetch-round-trip", fmt.Sprintf("%s: the hash repository kept the old value of a pointer field that the successfully saved entity has nil: %v", where, o.NilKept), plan)
				}
			}
			if plan.Repo == "hash" {
				have := map[string]bool{}
				for _, f := range o.HashFields {
					have[f] = true
				}
				for _, f := range o.WantFields {
					if !have[f] {
						c.Fail(rt, "C40.hash-stores-every-field", fmt.Sprintf("%s: hash lacks field %q (has %v)", where, f, o.HashFields), plan)
					}
				}
			}
		}
		if o.Fetched && o.ModelVer < 0 && o.FetchErr != "" {
			c.Fail(rt, "C40.fetch-after-remove", fmt.Sprintf("%s: Fetch of a removed entity returned %q, want a not-found error", where, o.FetchErr), plan)
		}
	}
	extreme := false
	for _, st := range plan.Steps {
		for _, v := range st.Vals {
			if !utf8.Valid(v.Bytes) || !utf8.ValidString(v.Str) || (v.PS != nil && !utf8.ValidString(*v.PS)) {
				extreme = true
				cls["non-utf8"] = true
			}
			if v.I64 == math.MaxInt64 || v.I64 == math.MinInt64 {
				extreme = true
				cls["extreme-int"] = true
			}
			for _, f := range v.F64 {
				if math.Abs(f) == math.MaxFloat64 || f == math.SmallestNonzeroFloat64 {
					extreme = true
					cls["extreme-float"] = true
				}
			}
			if v.ExatMs != 0 {
				cls["exat"] = true
			}
		}
	}
	for k := range cls {
		classes = append(classes, k)
	}
	sort.Strings(classes)
	return maxRace >= 2 || multiBatch || extreme, classes
}

func c40J2(v any) string {
	b, _ := json.Marshal(v)
	return string(b)
}

func TestVerif_C40_OM(t *testing.T) {
	// Go 1.25.0 allocates the synctest "bubble special" of a WaitGroup without holding mheap_.speciallock
	// (runtime.getOrSetBubbleSpecial): first Add calls running in parallel on several Ps (every dial of a
	// rueidis connection does one) corrupt the span's specials list, which ends in "fatal error: sync:
	// WaitGroup.Add called from multiple synctest bubbles" or in a GC worker spinning for ever in
	// markrootSpans. One P serialises those calls.
	defer runtime.GOMAXPROCS(runtime.GOMAXPROCS(1))
	c := stat.For("C40", "om-save-fetch").Rule("histories of 2-10 steps over two entity slots on om.NewHashRepository (struct with every kind of the hash converter table: string, int64, bool, time.Time, nested struct, *string, *int64, *bool, *struct, []byte, []float32, []float64, []struct, untagged field, key/ver/exat tags) or om.NewJSONRepository (the same plus int/uint widths, floats, *float64, []string, []int, map, array): NewEntity(+custom id)/Save, Save of changed fields, Fetch or FetchCache, 1-5 concurrent Saves of copies of the current entity at equal or staggered virtual instants, Save from an outdated copy, SaveMulti batches of 2-6 entities over both slots (copies of the current entity incl. duplicates of one id on the same version, outdated copies at any position), Remove; values include empty strings, non-UTF-8 bytes (hash strings, []byte), int64/float extremes, nil/non-nil pointers, nil/empty slices; server latency 0-1 ms; oracle: per base version at most one concurrent Save succeeds and the others are ErrVersionMismatch, outdated copies are rejected, a successful Save advances the in-memory version by exactly one and the stored version (HGET / JSON.GET by another client) equals it, Fetch/FetchCache equals the last successfully saved entity (nil == empty), the hash holds every field; non-trivial = >= 2 concurrent Saves on one base version, a SaveMulti batch of >= 2 entities or a non-UTF-8 / extreme numeric field value")
	defer c.Flush()
	rapid.Check(t, func(rt *rapid.T) {
		plan := genC40Plan(rt)
		saveCase("c40", plan)
		var run c40Run
		if plan.Repo == "hash" {
			run = c40Exec(t, plan, func(cl rueidis.Client) om.Repository[c40H] { return om.NewHashRepository("p40", c40H{}, cl) })
		} else {
			run = c40Exec(t, plan, func(cl rueidis.Client) om.Repository[c40J] { return om.NewJSONRepository("p40", c40J{}, cl) })
		}
		if run.Res.Frozen {
			c.Inconclusive("virtual-clock-freeze")
			return
		}
		if run.Unsupp {
			c.Inconclusive("lua-unsupported")
			return
		}
		nt, classes := c40Check(c, rt, plan, run)
		key, _ := json.Marshal(plan)
		c.Eval(nt, string(key), classes...)
		c.Sample(nt, func() any { return plan })
	})
}
